"""C02: well-formedness is preserved by every history of modifying calls.

Tie/search: histories of public modifying calls (valid and invalid arguments)
run on the real library under ASan/UBSan (harness/hwv_history.c); after every
step the verified checker wf_check, the model of hwloc_connect_levels, the
history invariants of Topo/Api.v (gp_index / userdata / objects only vanish in
restrict), dump equality for the documented no-touch errors, and
hwloc_topology_check() in a child.  Correspondence: Api.step (extracted) is
replayed on tree_of_dump(before) for insert_misc / group / allow / info calls
and compared with the C after-dump."""
import concurrent.futures as cf
import os
import re
import time

from hv import common as C
from gen import history_gen as G

DEPS = ["hwv_dump.h", "hwv_load.h"]
PRELUDE = ["hvnum.ml", "hvdump.ml"]
GROUP_FLAG = 1   # HWLOC_DISTANCES_ADD_FLAG_GROUP


def prebuild():
    C.build_harness("hwv_history", ["hwv_history.c"], deps=DEPS)
    C.extract("C02", "drv_c02.ml", prelude=PRELUDE)


# --------------------------------------------------------------------------
# running cases

def run_script(exe, drv, text, timeout=300):
    rc, out, err = C.sh([exe], input=text.encode(), env={k: v for k, v in C.run_env().items() if k != "HWLOC_DEBUG_CHECK"}, timeout=timeout)
    rc2, out2, err2 = C.sh([drv], input=out, timeout=timeout)
    return rc, out2.decode(errors="replace"), err.decode(errors="replace"), rc2, err2.decode(errors="replace")


def parse_steps(lines):
    """driver output of ONE case -> list of step dicts"""
    steps, cur = [], None
    for l in lines:
        if l.startswith("STEP "):
            cur = {"call": l.split(" ", 2)[2] if l.count(" ") >= 2 else "", "res": "", "wf": None, "levels": None, "hist": None,
                   "same": None, "model": None, "check": None}
            steps.append(cur)
        elif cur is None:
            continue
        elif l.startswith("RES "):
            cur["res"] = l
        elif l.startswith("wf "):
            cur["wf"] = l
        elif l.startswith("levels "):
            cur["levels"] = l
        elif l.startswith("hist "):
            cur["hist"] = l
        elif l.startswith("same "):
            cur["same"] = l
        elif l.startswith("model "):
            cur["model"] = l
        elif l.startswith("check "):
            cur["check"] = l
    return steps


def call_kind(step):
    w = step["call"].split(" ")
    return w[1] if len(w) > 1 else "?"


def kvs(line):
    d = {}
    for f in line.split(" "):
        if "=" in f:
            k, v = f.split("=", 1)
            d[k] = v
    return d


def classify(step):
    """Problems of one step: list of (key, what, no_input, corrupting)."""
    k = call_kind(step)
    call, res = step["call"], step["res"]
    ck, rk = kvs(call), kvs(res)
    out = []
    wf_bad = step["wf"] is not None and not step["wf"].startswith("wf ok")
    chk_bad = step["check"] is not None and step["check"] != "check ok"
    clauses = sorted(set(re.findall(r"([a-z-]+)@", step["wf"] or ""))) if wf_bad else []
    asrt = (step["check"] or "").replace("check abort ", "") if chk_bad else ""
    hist_bad = step["hist"] is not None and not step["hist"].startswith("hist ok")
    hc = sorted(set(re.findall(r"([a-z-]+)@", step["hist"]))) if hist_bad else []
    grouping = k == "dist" and int(ck.get("flags", "0")) & GROUP_FLAG
    # kinds of the Groups that vanished without a restrict; the known in-place replacement only hits a Group of
    # strictly larger kind than the new one (user Group: kind= of the call; distances Groups: kind 900)
    m_vk = re.search(r"(?:vanished|changed)-group-kinds=(\S+)", step["hist"] or "")
    vkinds = [int(x) for x in m_vk.group(1).split(",") if x.lstrip("-").isdigit()] if m_vk else []
    newkind = 900 if k == "dist" else int(ck.get("kind", "0")) if k == "group" else None
    replaced_larger_only = bool(vkinds) and newkind is not None and all(v > newkind for v in vkinds)
    if k == "group" and ck.get("dm", "0") != "0" and vkinds:
        replaced_larger_only = True      # a dont_merge Group always takes over a mergeable one (same in-place replacement)
    replaced = bool({"object-vanished-without-restrict", "userdata-changed", "group-attrs-changed"} & set(hc)) and bool(vkinds)
    zeroed = k == "group" and " gp=0" in res and "inserted" in res
    if wf_bad or chk_bad:
        model_disagrees = k == "group" and (step["model"] or "").startswith("model DIFF")
        if model_disagrees:
            # the model reproduces the known (unfixed) behaviours of Group insertion: a malformed result the model does
            # not predict is something else, never one of the known findings
            key = "wf:group-unpredicted:%s" % ",".join(clauses or [asrt[:60]])
        elif grouping and "filtered-type-present" in clauses:
            # Groups created although the Group filter is KEEP_NONE: topology->grouping* are only initialised by
            # hwloc_internal_distances_prepare(), which load() skips with HWLOC_TOPOLOGY_FLAG_NO_DISTANCES
            key = "distances-add-no-distances-uninitialised-grouping"
        elif grouping and "sets-missing" in clauses:
            key = "group-by-distances-objects-without-cpuset"
        elif grouping and replaced:
            key = "group-by-distances-replaces-existing-group" if replaced_larger_only else "group-by-distances-replaces-group-of-not-larger-kind"
        elif grouping and ("total-memory" in clauses or "total_memory" in asrt):
            key = "group-by-distances-total-memory"
        elif grouping and (any("nodeset" in c for c in clauses) or "nodeset" in asrt):
            key = "group-by-distances-nodeset-inconsistent"
        elif k == "group" and (clauses == ["children-order"] or (not clauses and "prev_first" in asrt)):
            # cpuset-only Group in a topology with offline PUs: placed by cpuset, siblings are ordered by complete_cpuset
            key = "group-by-cpuset-offline-pus-children-order"
        elif k == "group" and replaced and replaced_larger_only \
                and clauses and set(clauses) <= {"complete-cpuset-not-in-parent", "complete-nodeset-not-in-parent"} and "objects=memory" in (step["wf"] or ""):
            # consequence of the known in-place replacement: the replaced Group had a wider complete set (disallowed PU/node
            # dropped at load) than the one rebuilt from the children, its memory children keep the wider one
            key = "group-merge-replaces-object-identity"
        elif zeroed:
            key = "dontmerge-group-replace-returns-zeroed-object"
        elif k == "group" and ck.get("cs", "-") == "-" and ck.get("ccs", "-") != "-" and ("sets-missing" in clauses or asrt == "obj->cpuset"):
            # Group given by complete_cpuset only, covering only PUs that are not in any cpuset (offline/disallowed):
            # inserted without children that have a cpuset, so it never gets a cpuset
            key = "group-complete-cpuset-only-inserted-without-cpuset"
        elif k == "group" and ck.get("dm", "0") != "0" and ("sets-missing" in clauses or "complete_cpuset" in asrt):
            key = "dontmerge-group-missing-complete-cpuset"
        elif k == "group" and (clauses == ["total-memory"] or (not clauses and "total_memory" in asrt)):
            key = "group-steals-memory-children-total-memory"
        elif k == "group" and (ck.get("ns", "-") != "-" or ck.get("cns", "-") != "-") and \
                ((ck.get("cs", "-") != "-" or ck.get("ccs", "-") != "-") or any("nodeset" in c for c in clauses) or "nodeset" in asrt):
            # the user's nodeset is kept as given: inconsistent with the given cpuset, or (nodeset only) with the
            # cpuset derived from it when it names a CPU-less node
            key = "group-incompatible-cpuset-nodeset-accepted"
        elif k == "restrict" and clauses == ["complete-cpuset-not-in-parent"] and "objects=memory" in (step["wf"] or ""):
            # KEEP_STRUCTURE merging moved memory children from a parent whose complete_cpuset is wider (it names a PU that was
            # disallowed and dropped at load) to its single child
            key = "keep-structure-merge-memory-child-wider-complete-cpuset"
        elif k == "restrict" and (clauses == ["children-order"] or (not clauses and "prev_first" in asrt)) and "sets=offline" in (step["wf"] or ""):
            # KEEP_STRUCTURE merging replaces parents (ordered by THEIR complete_cpuset) by their single children whose
            # complete_cpusets, with offline PUs around, start elsewhere: the grand-parent's children are not re-sorted
            key = "keep-structure-merge-children-order-offline-pus"
        elif k == "allow" and ck.get("flags") == "1" and clauses and all(c.startswith("allowed-") for c in clauses):
            key = "allow-all-copies-complete-sets"
        elif wf_bad:
            key = "wf:%s:%s" % (k, ",".join(clauses))
        else:
            key = "topology_check-abort:%s:%s" % (k, asrt[:80])
        out.append((key, "after `%s` (%s): WF clauses violated: %s; hwloc_topology_check: %s" % (call, res, clauses or "none", step["check"]), False, True))
    if step["levels"] is not None and step["levels"] != "levels ok":
        out.append(("correspondence:levels:%s" % k, "model of hwloc_connect_levels disagrees with the implementation after `%s`" % call, not wf_bad, False))
    if hist_bad and not (wf_bad or chk_bad):
        overwritten = bool({"userdata-changed", "group-attrs-changed", "identity-attrs-changed"} & set(hc)) and bool(vkinds)
        model_ok = (step["model"] or "").startswith("model ok")
        if "group-depth-stale" in hc:
            # outside the C01 clauses, but observable (hwloc_get_type_depth_with_attr): Group depths not renumbered
            key = "restrict-stale-group-depth" if k == "restrict" else "group-depth-stale:%s" % k
        elif k == "group" and overwritten:
            # in-place replacement of an existing Group by the inserted one (gp_index kept since 6dba2e5; userdata, subtype,
            # infos, kind overwritten): known only for a strictly smaller kind / a dont_merge Group, as the model predicts
            key = "group-merge-replaces-object-identity" if (replaced_larger_only and model_ok) else "group-merge-replaces-group-of-not-larger-kind"
        elif grouping and overwritten:
            key = "group-by-distances-replaces-existing-group" if replaced_larger_only else "group-by-distances-replaces-group-of-not-larger-kind"
        elif "identity-attrs-changed" in hc or "group-attrs-changed" in hc:
            key = "identity-attrs-changed:%s" % k
        elif k == "group" and "object-vanished-without-restrict" in hc:
            key = "group-merge-replaces-object-identity" if replaced_larger_only else "group-merge-replaces-group-of-not-larger-kind"
        elif grouping and "object-vanished-without-restrict" in hc:
            key = "group-by-distances-replaces-existing-group" if replaced_larger_only else "group-by-distances-replaces-group-of-not-larger-kind"
        elif "dontmerge-group-merged-away" in hc:
            key = "keep-structure-merges-dontmerge-group"
        else:
            key = "hist:%s:%s" % (k, ",".join(hc))
        out.append((key, "history invariant broken by `%s` (%s): %s" % (call, res, step["hist"]), False, False))
    if step["same"] == "same 0":
        if k in ("restrict", "allow") and rk.get("errno") == "EINVAL":
            key = "allow-custom-einval-partial-update" if (k == "allow" and ck.get("flags") == "4") else "einval-not-identity:%s" % k
            out.append((key, "`%s` failed with EINVAL but the topology changed" % call, False, False))
        if k == "group" and res.startswith("RES null"):
            out.append(("group-conflict-not-identity", "`%s` returned NULL but the topology changed" % call, False, False))
    if (step["model"] or "").startswith("model DIFF") and not out:
        out.append(("correspondence:model:%s" % k, "Api.step disagrees with the implementation on `%s` (%s): %s" % (call, res, step["model"]), True, False))
    return out


def judge_steps(steps):
    """Problems of a history: every step is judged until the first one that leaves a malformed
    topology (later steps would run on a corrupted state).  Returns [(step index, key, what, no_input)]."""
    res = []
    for i, s in enumerate(steps):
        stop = False
        for key, what, no_input, corrupting in classify(s):
            res.append((i, key, what, no_input))
            stop = stop or corrupting
        if stop:
            break
    return res


def classify_is_corrupting(step):
    return any(p[3] for p in classify(step))


def has_zeroed(steps):
    return any(call_kind(s) == "group" and " gp=0" in s["res"] and "inserted" in s["res"] for s in steps)


def only_leaks(err):
    return "LeakSanitizer" in err and "ERROR: AddressSanitizer" not in err and "runtime error" not in err


def sanitizer_key(err, rc):
    m = re.search(r"SUMMARY: (\w+): ([\w-]+)(?: [^\n]*? in (\w+))?", err)
    frames = re.findall(r"#\d+ 0x[0-9a-f]+ in (hwloc_\w+)", err)
    if only_leaks(err):
        return "leak:%s" % (frames[-1] if frames else "unknown")
    if "heap-buffer-overflow" in err and "hwloc__groups_by_distances" in err:
        return "distances-add-no-distances-uninitialised-grouping"
    if "heap-use-after-free" in err and "cpukind" in err:
        return "cpukinds-restrict-stale-slot-use-after-free"      # C15 defect (patches/fix-C15-restrict-stale-slot.diff)
    ub = re.search(r"runtime error: ([^\n]{0,60})", err)
    if ub and not m:
        return "ubsan:%s:%s" % (re.sub(r"[^a-z]+", "-", ub.group(1).lower())[:40].strip("-"), frames[0] if frames else "?")
    if m:
        return "sanitizer:%s:%s" % (m.group(2), frames[0] if frames else (m.group(3) or "?"))
    return "crash:rc%d:%s" % (rc, frames[0] if frames else "?")


class Engine:
    def __init__(self, run):
        self.run = run
        self.exe = C.build_harness("hwv_history", ["hwv_history.c"], deps=DEPS)
        self.drv = C.extract("C02", "drv_c02.ml", prelude=PRELUDE)

    def one(self, config, calls):
        """Run one case alone.  Returns (steps, crash_key or None, crash_text)."""
        rc, out, err, rc2, err2 = run_script(self.exe, self.drv, G.script(config, calls), timeout=120)
        steps = parse_steps(out.split("\n"))
        crash = None
        if rc != 0 or rc2 != 0:
            crash = sanitizer_key(err, rc) if rc != 0 else "driver-failed"
        return steps, crash, (err[-2500:] + err2[-500:])

    def keys_of(self, config, calls):
        steps, crash, _ = self.one(config, calls)
        keys = [p[1] for p in judge_steps(steps)]
        if crash and not (crash.startswith("leak:") and has_zeroed(steps)) and not any(classify_is_corrupting(s) for s in steps):
            keys.append(crash)
        return keys

    def shrink(self, config, calls, key):
        budget = 60 if self.run.tier == "quick" else 200
        return G.ddmin(calls, lambda c: key in self.keys_of(config, c), budget=budget)

    def report(self, name, config, calls, key, what, no_input, extra=""):
        if any(re.fullmatch(k["key"], key) for k in self.run.known) or any(v["key"] == key for v in self.run.violations):
            small = calls   # already known / already reported: no need to spend time shrinking
        else:
            small = self.shrink(config, calls, key) if not no_input else calls
        self.run.violation(key, "%s [case %s]" % (what, name), G.script(config, small) + "\n--- detail\n" + extra, no_input=no_input)


def run_shards(eng, cases, shard=6):
    """cases: list of (name, config, calls, kind).  Returns idx -> (steps, crash_key, crash_text)."""
    results = {}

    def one(lo):
        part = cases[lo:lo + shard]
        txt = "".join("echo CASE %d\n" % (lo + j) + G.script(c[1], c[2]) for j, c in enumerate(part))
        return (lo,) + run_script(eng.exe, eng.drv, txt, timeout=600)

    with cf.ThreadPoolExecutor(max_workers=C.NCPU) as ex:
        for lo, rc, out, err, rc2, err2 in ex.map(one, range(0, len(cases), shard)):
            cur, buf = None, {}
            for line in out.split("\n"):
                m = re.match(r"echo CASE (\d+)$", line)
                if m:
                    cur = int(m.group(1))
                    buf[cur] = []
                elif cur is not None:
                    buf[cur].append(line)
            for i, ls in buf.items():
                results[i] = (parse_steps(ls), None, "")
            if rc != 0 or rc2 != 0:
                if rc != 0 and rc2 == 0 and only_leaks(err):
                    # leaks are reported at exit for the whole shard: rerun its cases one by one
                    for i in range(lo, min(lo + shard, len(cases))):
                        steps, crash, text = eng.one(cases[i][1], cases[i][2])
                        if crash:
                            results[i] = (steps, crash, text)
                else:
                    last = max(buf) if buf else lo
                    results[last] = (results.get(last, ([], None, ""))[0], sanitizer_key(err, rc) if rc != 0 else "driver-failed", err[-2500:] + err2[-500:])
                    for i in range(last + 1, min(lo + shard, len(cases))):
                        results[i] = eng.one(cases[i][1], cases[i][2])
    return results


def make_cases(run):
    rng = run.rng
    quick = run.tier == "quick"
    cases = []
    cdir = os.path.join(C.VERIF, "corpus", "c02")
    for n in sorted(os.listdir(cdir)) if os.path.isdir(cdir) else []:
        if not n.endswith(".case"):
            continue
        cfg, calls = G.parse_script(open(os.path.join(cdir, n)).read().replace("{REPO}", C.REPO).replace("{VERIF}", C.VERIF))
        cases.append(("corpus:" + n, cfg, calls, "corpus"))
    for name, cfg, calls in G.DIRECTED:
        cases.append(("directed:" + name, cfg, calls, "directed"))
    for i in range(120 if quick else 1500):
        cfg, calls, kind = G.gen_merge_case(rng)
        cases.append(("merge:%d" % i, cfg, calls, kind))
    n_rand = 330 if quick else 4000
    maxlen = 40 if quick else 400
    for i in range(n_rand):
        cfg, kind = G.gen_config(rng, quick)
        ml = maxlen if kind != "xml" else min(maxlen, 12 if quick else 60)
        if not quick and rng.random() < 0.9:
            ml = min(ml, 60)     # most thorough histories stay moderate; one in ten goes to 400
        cases.append(("random:%d" % i, cfg, G.gen_history(rng, ml), kind))
    return cases


def judge(run, eng, cases, results):
    nsteps = 0
    for i, (name, cfg, calls, kind) in enumerate(cases):
        r = results.get(i)
        if r is None:
            run.violation("not-run:" + kind, "case did not run", G.script(cfg, calls), no_input=True)
            continue
        steps, crash, ctext = r
        loaded = bool(steps) and steps[0]["res"].startswith("RES rc=0")
        probs = judge_steps(steps)
        nsteps += len(steps)
        for s in steps[1:]:
            run.bump("call:" + call_kind(s))
            if s["res"].startswith(("RES rc=-1", "RES null", "RES create-null", "RES values rc=-1")):
                run.bump("call-failed:" + call_kind(s))
            if (s["model"] or "").startswith("model ok"):
                run.cov["traces_validated_against_impl"] += 1
                run.bump("model-replayed:" + call_kind(s))
        run.count(name + "|" + "|".join(s["res"] for s in steps), nontrivial=loaded and len(steps) > 1,
                  sample={"case": name, "config": cfg, "calls": calls[:6], "steps": len(steps)}, kind=kind + (":loaded" if loaded else ":load-failed"))
        for idx, key, what, no_input in probs:
            eng.report(name, cfg, calls, key, what, no_input,
                       extra="step %d: %s\n%s\n%s\n%s\n%s\n%s" % (idx, steps[idx]["call"], steps[idx]["res"], steps[idx]["wf"], steps[idx]["hist"], steps[idx]["model"], steps[idx]["check"]))
        corrupted = any(classify_is_corrupting(s) for s in steps)
        if crash and not (crash.startswith("leak:") and has_zeroed(steps)) and not corrupted:
            eng.report(name, cfg, calls, crash, "sanitizer report / crash of the library during the history", False, extra=ctext)
    run.cov["steps_checked"] = nsteps


def check(run, replay=None):
    proof = C.prove("C02")
    eng = Engine(run)
    if replay:
        txt = open(replay).read().split("---\n", 1)[1].split("\n--- ")[0]
        cfg, calls = G.parse_script(txt)
        cases = [("replay", cfg, calls, "replay")]
    else:
        cases = make_cases(run)
    t0 = time.time()
    results = run_shards(eng, cases)
    judge(run, eng, cases, results)
    run.cov["search_wall_s"] = round(time.time() - t0, 1)
    run.cov["rule"] = ("one evaluation = one history (topology configuration + sequence of modifying calls), every step checked; "
                       "non-trivial = the load succeeded and at least one call ran; distinct = distinct (case, per-step results)")
    run.assumptions += [
        "restrict, distances, memattrs and cpukinds calls are not part of Api.step (models of C08/C13/C14/C15): for histories containing them C02 is decided by wf_check, the history invariants and hwloc_topology_check on the C dumps after every step, not by a theorem",
        "theorems about Api.step / Insert.insert_by_cpuset hold for the hand-written model; the model is tied to the C code by replaying every modelled call of every generated history on tree_of_dump(before) and comparing with the C after-dump (tree shape, parents, gp_index, the four sets, allowed sets, infos, userdata, dont_merge, total_memory of the returned Group)",
        "object identity of freed memory (use-after-free) is left to ASan",
    ]
    return run.finish(proof, trusted=["harness/hwv_history.c (script interpreter, canonical CALL/RES lines), harness/hwv_dump.h, ocaml/hvdump.ml + drv_c02.ml (parsers, comparison glue), gen/history_gen.py (generator, shrinker)"])
