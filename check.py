#!/usr/bin/env python3
"""Entry point:  ./check.py Cxx [--tier quick|thorough] [--replay FILE]
                 ./check.py setup      (build everything once, offline)
Exit 0: the property held on everything explored.  Exit 1: a line
"VIOLATION property=<id> replay=<path>" was printed.  See DESIGN.md section 8."""
import argparse
import importlib
import os
import sys
import traceback

sys.path.insert(0, os.path.dirname(os.path.abspath(__file__)))
from hv import common as C


def main():
    ap = argparse.ArgumentParser()
    ap.add_argument("prop")
    ap.add_argument("--tier", default=os.environ.get("VERIF_TIER", "quick"), choices=["quick", "thorough"])
    ap.add_argument("--replay", default=None)
    a = ap.parse_args()
    seed = int(os.environ.get("VERIF_SEED", "1") or "1")
    if a.prop == "setup":
        return setup()
    mod = importlib.import_module("checks.%s" % a.prop.lower())
    C.use_tree(a.prop)
    run = C.Run(a.prop, a.tier, seed)
    try:
        return mod.check(run, replay=a.replay)
    except Exception:
        # An infrastructure failure must not look like "holds".
        traceback.print_exc()
        txt = "kind: infrastructure\n" + traceback.format_exc()
        run.violation("infrastructure", "the check could not run to completion", txt, no_input=True)
        return run.finish(None, level="proof", extra_cov={
            "explanation": "check aborted by an internal error; nothing is claimed",
            "obligations": 1, "discharged": 0, "checker_cmd": "n/a", "trusted_base": []})


def setup():
    C.build_lib(True)
    ok, log = C.coq_make(None)
    if not ok:
        print(log[-4000:])
        print("setup: Coq build incomplete (individual checks will report which obligations fail)")
    bad = C.coq_hygiene()
    if bad:
        print("hygiene:", bad)
    ids = sorted(n[:-3].upper() for n in os.listdir(os.path.join(C.VERIF, "checks")) if n.startswith("c") and n.endswith(".py"))
    for i in ids:
        try:
            mod = importlib.import_module("checks.%s" % i.lower())
            if hasattr(mod, "prebuild"):
                C.use_tree(i)
                mod.prebuild()
        except Exception:
            traceback.print_exc()
    return 0


if __name__ == "__main__":
    sys.exit(main())
