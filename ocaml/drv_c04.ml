(* C04 driver: same case file and same canonical lines as harness/hwv_bmtext.c,
   computed by the extracted Coq model (Bitmap/BitmapText.v). *)
open C04_model

(* ---- conversions between OCaml values and extracted nat / positive / N ---- *)
let rec nat_of_int i = if i <= 0 then O else S (nat_of_int (i - 1))
let int_of_nat n = let rec go acc = function O -> acc | S m -> go (acc + 1) m in go 0 n
let rec pos_of_int i = if i = 1 then XH else if i land 1 = 1 then XI (pos_of_int (i lsr 1)) else XO (pos_of_int (i lsr 1))
let n_of_int i = if i = 0 then N0 else Npos (pos_of_int i)
let rec int_of_pos = function XH -> 1 | XO p -> 2 * int_of_pos p | XI p -> 2 * int_of_pos p + 1
let int_of_n = function N0 -> 0 | Npos p -> int_of_pos p

(* bits, least significant first *)
let rec bits_of_pos = function XH -> [true] | XO p -> false :: bits_of_pos p | XI p -> true :: bits_of_pos p
let hex_of_n n =
  match n with
  | N0 -> "0"
  | Npos p ->
    let rec nibbles = function
      | [] -> []
      | b0 :: r ->
        let take l = match l with [] -> (false, []) | x :: t -> (x, t) in
        let (b1, r) = take r in let (b2, r) = take r in let (b3, r) = take r in
        let v = (if b0 then 1 else 0) + (if b1 then 2 else 0) + (if b2 then 4 else 0) + (if b3 then 8 else 0) in
        v :: nibbles r in
    let ns = List.rev (nibbles (bits_of_pos p)) in
    String.concat "" (List.map (fun v -> Printf.sprintf "%x" v) ns)
let n_of_hex s : n =
  (* most significant bit first *)
  let acc = ref None in
  String.iter (fun c ->
      let v = int_of_string ("0x" ^ String.make 1 c) in
      List.iter (fun k ->
          let bit = (v lsr k) land 1 = 1 in
          acc := (match !acc with
              | None -> if bit then Some XH else None
              | Some p -> Some (if bit then XI p else XO p)))
        [3; 2; 1; 0]) s;
  match !acc with None -> N0 | Some p -> Npos p

let bytes_of_hex h : n list =
  let n = String.length h / 2 in
  List.init n (fun i -> n_of_int (int_of_string ("0x" ^ String.sub h (2 * i) 2)))
let string_of_bytes (l : n list) =
  let b = Buffer.create 64 in
  List.iter (fun x -> Buffer.add_char b (Char.chr (int_of_n x land 255))) l;
  Buffer.contents b
let cksum (l : n list) : int =
  List.fold_left (fun h x -> (((h lxor (int_of_n x)) * 16777619) land 0xFFFFFFFF)) 2166136261 l

let dirty = n_of_hex "a5a5a5a5a5a5a5a5"
let dirty2 = n_of_hex "5a5a5a5a5a5a5a5a"
let initb = n_of_int 0xEE
let rec repeat x n = if n <= 0 then [] else x :: repeat x (n - 1)

let canon_string (s : bset) =
  let (inf, ws) = canon s in
  Printf.sprintf "%d %d%s" (if inf then 1 else 0) (List.length ws)
    (String.concat "" (List.map (fun w -> " " ^ hex_of_n w) ws))

(* the three formats *)
let pieces f (b : bm) : n list list option =
  match f with
  | 'h' -> Some (pieces_hwloc b)
  | 't' -> Some (pieces_taskset b)
  | _ -> pieces_list (abs b)

(* parse result as (rc, abstract set) *)
type pr = Set of bset | Fail | Oobr | Assertr
let parse_d dirty f (s : n list) : pr =
  match f with
  | 'h' -> (match parse_hwloc dirty s with Ok (PSet b) -> Set (abs b) | Ok PFail -> Fail | Ok PAssert -> Assertr | Oob -> Oobr)
  | 't' -> (match parse_taskset dirty s with Ok (PSet b) -> Set (abs b) | Ok PFail -> Fail | Ok PAssert -> Assertr | Oob -> Oobr)
  | _ -> (match parse_list s with Ok (Some b) -> Set b | Ok None -> Fail | Oob -> Oobr)

let parse = parse_d dirty
let sample_len needed l = l <= 2 || l >= needed - 1 || l = needed / 2 || l = 8 || l = 11

let do_print mode only (b : bm) =
  Printf.printf "P %s\n" (canon_string (abs b));
  List.iter (fun f ->
      match pieces f b with
      | None -> Printf.printf "p %c FUEL\n" f
      | Some ps ->
        let text = List.concat ps in
        let needed = List.length text in
        (match snprintf_pieces ps [] with
         | Some (r, _) -> Printf.printf "p %c %d %s\n" f (int_of_nat r) (string_of_bytes text)
         | None -> Printf.printf "p %c STORE-OOB\n" f);
        (match asprintf_pieces ps (fun n -> repeat initb (int_of_nat n)) with
         | Some (r, buf) ->
           Printf.printf "a %c %d %d\n" f (int_of_nat r)
             (if int_of_nat r = needed && buf = text @ [N0] then 1 else 0)
         | None -> Printf.printf "a %c STORE-OOB\n" f);
        (match parse f (text @ [N0]) with
         | Set s -> Printf.printf "r %c 0 %d\n" f (if canon s = canon (abs b) then 1 else 0)
         | Fail -> Printf.printf "r %c -1 0\n" f
         | Oobr -> Printf.printf "r %c OOB\n" f
         | Assertr -> Printf.printf "r %c ASSERT\n" f);
        for l = 0 to needed + 1 do
          if mode = 'a' || sample_len needed l then
            match snprintf_pieces ps (repeat initb l) with
            | Some (r, buf) ->
              let r = int_of_nat r in
              let k = min needed (l - 1) in
              let ok = r = needed && (l = 0 || (List.nth buf k = N0 &&
                                                List.filteri (fun i _ -> i < k) buf = List.filteri (fun i _ -> i < k) text)) in
              Printf.printf "b %c %d %d %08x %d\n" f l r (cksum buf) (if ok then 1 else 0)
            | None -> Printf.printf "b %c %d STORE-OOB\n" f l
        done)
    (List.filter (fun f -> only = ' ' || only = f) ['h'; 'l'; 't'])

let do_parse f (s : n list) =
  print_string "S\n";
  match parse f s with
  | Oobr -> Printf.printf "s %c OOB\n" f
  | Assertr -> Printf.printf "s %c ASSERT\n" f
  | Fail -> Printf.printf "s %c -1 0 0 1 1\n" f
  | Set r ->
    let (inf, ws) = canon r in
    let b = { bm_words = ws; bm_inf = inf } in
    let stable =
      match pieces f b with
      | None -> false
      | Some ps -> (match parse f (List.concat ps @ [N0]) with Set r2 -> canon r2 = canon r | _ -> false) in
    let det = (match parse_d dirty2 f s with Set r3 -> canon r3 = canon r | _ -> false) in
    Printf.printf "s %c 0 %s %d %d\n" f (canon_string r) (if stable then 1 else 0) (if det then 1 else 0)

let do_strto base (s : n list) =
  let u = match strtoul s N0 (n_of_int base) with Ok (v, e) -> Printf.sprintf "%s %d" (hex_of_n v) (int_of_n e) | Oob -> "OOB" in
  let l = match strtol s N0 (n_of_int base) with Ok (v, e) -> Printf.sprintf "%s %d" (hex_of_n (long_bits v)) (int_of_n e) | Oob -> "OOB" in
  Printf.printf "t %d %s %s\n" base u l

let () =
  try
    while true do
      let line = input_line stdin in
      let toks = List.filter (fun x -> x <> "") (String.split_on_char ' ' line) in
      (match toks with
       | "P" :: mode :: inf :: ws ->
         let ws = if ws = [] then ["0"] else ws in
         do_print mode.[0] (if String.length mode > 1 then mode.[1] else ' ') { bm_words = List.map n_of_hex ws; bm_inf = (inf = "1") }
       | ["S"; f; h] -> do_parse f.[0] (bytes_of_hex h @ [N0])
       | ["S"; f] -> do_parse f.[0] [N0]
       | ["T"; base; h] -> do_strto (int_of_string base) (bytes_of_hex h @ [N0])
       | ["T"; base] -> do_strto (int_of_string base) [N0]
       | _ -> ())
    done
  with End_of_file -> ()
