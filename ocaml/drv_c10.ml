(* C10 driver: the script of harness/hwv_bind.c answered by the extracted model
   (Topo/Bind.v).  The topology itself is not loaded here: checks/c10.py copies
   the "I ..." line the C harness printed after each load into the script.
   Prelude: ocaml/hvnum.ml. *)
let bset_of_text s =
  let infb = s.[0] = '1' in
  let hex = Stdlib.String.sub s 2 (Stdlib.String.length s - 2) in
  let bits = bits_of_hex hex in
  let bits = if infb then Stdlib.List.map not bits else bits in
  { fin = n_of_bits_lsb_first bits; inf = infb }
let text_of_bset b =
  let bits = bits_of_n b.fin in
  let nb = Stdlib.List.length bits in
  let nwords = max 1 ((nb + 63) / 64) in
  let arr = Stdlib.Array.make (nwords * 64) false in
  Stdlib.List.iteri (fun i x -> arr.(i) <- x) bits;
  let arr = if b.inf then Stdlib.Array.map not arr else arr in
  let nn = nwords * 16 in
  (if b.inf then "1:" else "0:") ^
  Stdlib.String.init nn (fun k -> let i = nn - 1 - k in
    let v = ref 0 in
    for bb = 0 to 3 do if arr.(4 * i + bb) then v := !v lor (1 lsl bb) done;
    "0123456789abcdef".[!v])

let err_of_class = function
  | "0" -> Some E0 | "EINVAL" -> Some EINVAL | "ENOSYS" -> Some ENOSYS | "EXDEV" -> Some EXDEV | "ENOMEM" -> Some ENOMEM
  | "EPERM" -> Some EPERM | "EFAULT" -> Some EFAULT | "ENOENT" -> Some ENOENT | "EOTHER" -> Some EOTHER | _ -> None
let class_of_err = function
  | E0 -> "0" | EINVAL -> "EINVAL" | ENOSYS -> "ENOSYS" | EXDEV -> "EXDEV" | ENOMEM -> "ENOMEM" | EPERM -> "EPERM"
  | EFAULT -> "EFAULT" | ENOENT -> "ENOENT" | EOTHER -> "EOTHER"

(* numbers as the C side reads them: strtoul(.., 0) truncated to int / atoi *)
let int_of_c s = try int_of_string s with _ -> 0
let flags_of s = n_of_int ((int_of_c s) land 0xffffffff)
let who_of s = if s = "self" then z_of_int 1 else z_of_int (int_of_c s)
let who_text z = match int_of_z z with 0 -> "0" | 1 -> "self" | _ -> "other"

(* ---- scripted hooks (mode hooks) ---- *)
let nhook = 22
let hk_rc = Stdlib.Array.make nhook 0
let hk_errno = Stdlib.Array.make nhook None
let hk_set = Stdlib.Array.make nhook { fin = n_of_int 1; inf = false }
let hk_pol = Stdlib.Array.make nhook 2
let () = hk_rc.(20) <- 1; hk_rc.(21) <- 1
let scripted_os (c : hcall) () =
  let i = int_of_n (hid_index c.hc_id) in
  let rc = if i >= 20 then (if hk_rc.(i) <> 0 then 1 else 0) else hk_rc.(i) in
  ({ hr_rc = z_of_int rc; hr_errno = hk_errno.(i); hr_set = hk_set.(i); hr_policy = z_of_int hk_pol.(i) }, ())

(* ---- scripted kernel (mode os) ---- *)
let os_aff = ref { fin = n_of_int 0xffff; inf = false }
let os_ret : (string, int * err) Stdlib.Hashtbl.t = Stdlib.Hashtbl.create 8
let os_mempol = ref (0, { fin = N0; inf = false })
let os_pages = ref 0
let os_cpu = ref 0
let os_maxnodes = ref 64
let os_pm_unsupported = ref false
let os_affproc : bset option ref = ref None
let os_stat : int list option ref = ref None
let parked = ref false   (* the harness started its second (parked) thread: first stcbo / gtcbo of the process *)
let nbprocs = ref 16
let kret name = match Stdlib.Hashtbl.find_opt os_ret name with Some (rc, e) when rc < 0 -> Some (rc, e) | _ -> None
let kres ?(rc = 0) ?(e = E0) ?(set = { fin = N0; inf = false }) ?(mode = 0) ?(l = []) () =
  { k_rc = z_of_int rc; k_errno = e; k_set = set; k_mode = z_of_int mode; k_list = l }
let answer name ok = match kret name with Some (rc, e) -> kres ~rc ~e () | None -> ok ()
let scripted_kernel (c : kcall) () =
  let r = match c with
    | K_setaffinity (_, _) -> answer "setaffinity" (fun () -> kres ())
    | K_getaffinity w -> answer "getaffinity" (fun () -> kres ~set:(if int_of_z w = 0 then !os_aff else (match !os_affproc with Some p -> p | None -> !os_aff)) ())
    | K_getcpu -> answer "getcpu" (fun () -> kres ~rc:!os_cpu ())
    | K_lastcpu _ ->
      (* the bytes of /proc/<tid>/stat: scripted, or (real file, result masked by the check) a plain line saying PU 0 *)
      let content = (match !os_stat with Some b -> b | None ->
        Stdlib.List.map Stdlib.Char.code (Stdlib.List.of_seq (Stdlib.String.to_seq ("1 (x) S" ^ Stdlib.String.concat "" (Stdlib.List.init 35 (fun _ -> " 1")) ^ " 17 0 0 0\n")))) in
      kres ~l:(Stdlib.List.map z_of_int content) ()
    | K_tasklist _ -> kres ~l:(if !parked then [z_of_int 1; z_of_int 2] else [z_of_int 1]) ()   (* /proc/<pid>/task: main thread, parked worker *)
    | K_set_mempolicy (m, _, _) -> if !os_pm_unsupported && int_of_z m = 5 then kres ~rc:(-1) ~e:EINVAL () else answer "set_mempolicy" (fun () -> kres ())
    | K_mbind (_, m, _, _, _) -> if !os_pm_unsupported && int_of_z m = 5 then kres ~rc:(-1) ~e:EINVAL () else answer "mbind" (fun () -> kres ())
    | K_migrate_pages (_, _, _) -> answer "migrate_pages" (fun () -> kres ())
    | K_get_mempolicy (_, mx, _) ->
      if int_of_n mx < !os_maxnodes then kres ~rc:(-1) ~e:EINVAL ()
      else answer "get_mempolicy" (fun () -> kres ~mode:(fst !os_mempol) ~set:(snd !os_mempol) ())
    | K_move_pages n -> answer "move_pages" (fun () -> kres ~l:(Stdlib.List.init (int_of_n n) (fun _ -> z_of_int !os_pages)) ())
    | K_mmap len -> if int_of_n len = 0 then kres ~rc:(-1) ~e:EINVAL () else kres ()
  in (r, ())

let mask_text = function None -> "-" | Some b -> text_of_bset b
let ktext = function
  | K_setaffinity (w, m) -> Some (Printf.sprintf "setaffinity(%s,%s)" (who_text w) (text_of_bset m))
  | K_getaffinity w -> Some (Printf.sprintf "getaffinity(%s)" (who_text w))
  | K_getcpu -> Some "getcpu()"
  | K_lastcpu w -> Some (Printf.sprintf "stat(%s)" (if int_of_z w = 1 then "self" else "other"))
  | K_tasklist _ | K_mmap _ -> None
  | K_set_mempolicy (m, mask, mx) -> Some (Printf.sprintf "set_mempolicy(%d,%s,%d)" (int_of_z m) (mask_text mask) (int_of_n mx))
  | K_mbind (len, m, mask, mx, fl) -> Some (Printf.sprintf "mbind(page,%d,%d,%s,%d,%d)" (int_of_n len) (int_of_z m) (mask_text mask) (int_of_n mx) (int_of_n fl))
  | K_migrate_pages (mx, o, nw) -> Some (Printf.sprintf "migrate_pages(%d,%s,%s)" (int_of_n mx) (text_of_bset o) (text_of_bset nw))
  | K_get_mempolicy (a, mx, fl) -> Some (Printf.sprintf "get_mempolicy(%s,%d,%d)" (if a then "addr" else "0") (int_of_n mx) (int_of_n fl))
  | K_move_pages n -> Some (Printf.sprintf "move_pages(%d,-)" (int_of_n n))
let htext (c : hcall) =
  Printf.sprintf "h%d(%s,%s,%d,%d,%d)" (int_of_n (hid_index c.hc_id)) (who_text c.hc_who) (mask_text c.hc_set)
    (int_of_z c.hc_policy) (int_of_n c.hc_flags) (int_of_n c.hc_len)

(* ---- state ---- *)
type mode = Hooks of int | Os
let topo = ref None
let mode = ref Os
let pm_area = ref (-1)
let pm_thread = ref (-1)
let warmed = ref false
let history : load_cfg list ref = ref []
let max_numnodes () = let m = ref 64 in while !m < !os_maxnodes do m := 2 * !m done; !m

let parse_info toks =
  let h = Stdlib.Hashtbl.create 8 in
  Stdlib.List.iter (fun f -> match Stdlib.String.index_opt f '=' with
    | Some i -> Stdlib.Hashtbl.replace h (Stdlib.String.sub f 0 i) (Stdlib.String.sub f (i + 1) (Stdlib.String.length f - i - 1))
    | None -> ()) toks;
  let g k = Stdlib.Hashtbl.find h k in
  let nodes = Stdlib.List.filter_map (fun e ->
      if e = "" then None else
      match Stdlib.String.index_opt e '/' with
      | Some i -> Some (n_of_int (int_of_string (Stdlib.String.sub e 0 i)), bset_of_text (Stdlib.String.sub e (i + 1) (Stdlib.String.length e - i - 1)))
      | None -> None) (Stdlib.String.split_on_char ';' (g "nodes")) in
  { t_cpuset = bset_of_text (g "cs"); t_ccpuset = bset_of_text (g "ccs"); t_nodeset = bset_of_text (g "ns");
    t_cnodeset = bset_of_text (g "cns"); t_nodes = nodes; t_thissystem = (g "this" = "1") }

let report ~alloc (r : ares) errno trace =
  let rc = int_of_z r.a_rc in
  let failed = if alloc then rc = 0 else rc < 0 in
  Printf.printf "R rc=%d errno=%s set=%s pol=%s |%s\n" rc (if failed then class_of_err errno else "0")
    (if rc = 0 && not alloc then (match r.a_set with Some s -> text_of_bset s | None -> "-") else "-")
    (if rc = 0 && not alloc then (match r.a_policy with Some p -> string_of_int (int_of_z p) | None -> "-") else "-")
    (Stdlib.String.concat "" (Stdlib.List.map (fun s -> " " ^ s) trace))

let call (a : apicall) =
  match !topo with
  | None -> Printf.printf "not-loaded\n"
  | Some t ->
    let alloc = (match a with A_alloc_membind _ -> true | _ -> false) in
    (match !mode with
     | Hooks pres ->
       let t = { t with t_thissystem = true } in
       let present h = (pres lsr (int_of_n (hid_index h))) land 1 = 1 in
       let (r, s) = run scripted_os (fun _ -> true) present t a () in
       report ~alloc r s.s_errno (Stdlib.List.map htext s.s_trace)
     | Os ->
       let w0 = { l_k = (); l_pm_area = z_of_int !pm_area; l_pm_thread = z_of_int !pm_thread; l_ktrace = [] } in
       let (r, s) = linux_run scripted_kernel t Z0 (n_of_int 256) (n_of_int (max_numnodes ())) (fun _ -> true) a w0 in
       pm_area := int_of_z s.s_w.l_pm_area; pm_thread := int_of_z s.s_w.l_pm_thread;
       report ~alloc r s.s_errno (Stdlib.List.filter_map ktext s.s_w.l_ktrace))

let () =
  try while true do
    let l = input_line stdin in
    let toks = Stdlib.List.filter (fun s -> s <> "") (Stdlib.String.split_on_char ' ' l) in
    let bs = bset_of_text and fl = flags_of and z s = z_of_int (int_of_c s) and nn s = n_of_int (min (int_of_c s) (64 * 4096)) in
    (match toks with
     | [] -> ()
     | "echo" :: _ -> print_endline l
     | "new" :: _ -> topo := None; mode := Os; history := []
     | "destroy" :: _ -> topo := None
     | ["#cfg"; _; nonthis_normal; flag; nonthis_env; env] ->
       (* configuration of the NEXT load of this handle: a normally given non-this-system backend?, the
          IS_THISSYSTEM flag, an env-forced non-this-system backend?, HWLOC_THISSYSTEM *)
       let bk = (if nonthis_normal = "1" then [{ bk_envvar_forced = false; bk_is_thissystem = Z0 }] else [{ bk_envvar_forced = false; bk_is_thissystem = z_of_int (-1) }])
                @ (if nonthis_env = "1" then [{ bk_envvar_forced = true; bk_is_thissystem = Z0 }] else []) in
       history := !history @ [{ lc_backends = bk; lc_flag = (flag = "1"); lc_env = (if env = "-" then None else Some (z_of_int (int_of_c env))) }]
     | "load" :: "rc=-1" :: _ -> print_endline l
     (* derivations: dup / adopt keep the source's hook selection (Bind.derive); an XML export reloaded into a
        fresh handle is a new load history of its own *)
     | ["dup"] | ["adopt"] -> ()
     | "restrict" :: _ -> ()   (* the sets of the restricted topology arrive with the next I line; hooks are not re-selected *)
     | "xmlreload" :: _ -> (match Stdlib.List.rev !history with last :: _ -> history := [last] | [] -> ())
     | "I" :: rest ->
       (* the sets come from the C side; whether the topology is this system is the MODEL's answer for the
          handle's whole load history (when the script declares it) *)
       let t = parse_info rest in
       let t = if !history = [] then t else { t with t_thissystem = thissystem_after !history } in
       topo := Some t;
       print_endline (Stdlib.String.concat " " (Stdlib.List.map (fun f ->
         if Stdlib.String.length f > 5 && Stdlib.String.sub f 0 5 = "this=" then (if t.t_thissystem then "this=1" else "this=0") else f) toks))
     | ["mode"; "hooks"; hex] -> mode := Hooks (int_of_string ("0x" ^ hex))
     | ["mode"; "os"] -> mode := Os;
       if not !warmed then begin
         warmed := true;
         (* the warm-up of the function-static caches on a private 1-PU topology: find_kernel_nr_cpus
            (buffer doubled from 64 bits until the kernel accepts it), get_tid_cpubind,
            find_kernel_max_numnodes (doubled from 64), get_thisthread_membind *)
         let b = Stdlib.Buffer.create 64 in
         let m = ref 64 in
         while !m < 256 do Stdlib.Buffer.add_string b " getaffinity(0)"; m := 2 * !m done;
         Stdlib.Buffer.add_string b " getaffinity(0) getaffinity(0)";
         let m = ref 64 in
         while !m < !os_maxnodes do Stdlib.Buffer.add_string b (Printf.sprintf " get_mempolicy(0,%d,0)" !m); m := 2 * !m done;
         Stdlib.Buffer.add_string b (Printf.sprintf " get_mempolicy(0,%d,0) get_mempolicy(0,%d,0)" !m !m);
         Printf.printf "W%s\n" (Stdlib.Buffer.contents b)
       end
     | "hookret" :: idx :: rc :: e :: rest ->
       let lo, hi = if idx = "all" then 0, nhook - 1 else int_of_string idx, int_of_string idx in
       for k = lo to min hi (nhook - 1) do
         hk_rc.(k) <- int_of_c rc; hk_errno.(k) <- err_of_class e;
         (match rest with s :: _ when s <> "-" -> hk_set.(k) <- bs s | _ -> ());
         (match rest with _ :: p :: _ -> hk_pol.(k) <- int_of_c p | _ -> ())
       done
     | ["os"; "aff"; s] -> os_aff := bs s
     | ["os"; "ret"; name; rc; e] ->
       let e = (match err_of_class e with Some e -> e | None -> EOTHER) in
       if name = "all" then Stdlib.List.iter (fun n -> Stdlib.Hashtbl.replace os_ret n (int_of_c rc, e))
           ["setaffinity"; "getaffinity"; "set_mempolicy"; "mbind"; "get_mempolicy"; "migrate_pages"; "move_pages"; "getcpu"]
       else Stdlib.Hashtbl.replace os_ret name (int_of_c rc, e)
     | ["os"; "mempol"; m; s] -> os_mempol := (int_of_c m, bs s)
     | ["os"; "pages"; n] -> os_pages := int_of_c n
     | ["os"; "stat"; h] ->
       os_stat := (if h = "-" then None else if h = "empty" then Some [] else
                     Some (Stdlib.List.init (Stdlib.String.length h / 2) (fun i -> int_of_string ("0x" ^ Stdlib.String.sub h (2 * i) 2))))
     | ["os"; "cpu"; n] -> os_cpu := int_of_c n
     | ["os"; "maxnodes"; n] -> os_maxnodes := int_of_c n
     | ["os"; "pm_unsupported"; n] -> os_pm_unsupported := (int_of_c n <> 0)
     | ["scb"; s; f] -> call (A_set_cpubind (bs s, fl f))
     | ["gcb"; f] -> call (A_get_cpubind (fl f))
     | ["spcb"; w; s; f] -> call (A_set_proc_cpubind (who_of w, bs s, fl f))
     | ["gpcb"; w; f] -> call (A_get_proc_cpubind (who_of w, fl f))
     | ["stcb"; s; f] -> call (A_set_thread_cpubind (z_of_int 1, bs s, fl f))
     | ["gtcb"; f] -> call (A_get_thread_cpubind (z_of_int 1, fl f))
     | ["stcbo"; s; f] -> parked := true; call (A_set_thread_cpubind (z_of_int 2, bs s, fl f))
     | ["gtcbo"; f] -> parked := true; call (A_get_thread_cpubind (z_of_int 2, fl f))
     | ["glcl"; f] -> call (A_get_last_cpu_location (fl f))
     | ["gplcl"; w; f] -> call (A_get_proc_last_cpu_location (who_of w, fl f))
     | ["smb"; s; p; f] -> call (A_set_membind (bs s, z p, fl f))
     | ["gmb"; f] -> call (A_get_membind (fl f))
     | ["spmb"; w; s; p; f] -> call (A_set_proc_membind (who_of w, bs s, z p, fl f))
     | ["gpmb"; w; f] -> call (A_get_proc_membind (who_of w, fl f))
     | ["samb"; len; s; p; f] -> call (A_set_area_membind (nn len, bs s, z p, fl f))
     | ["gamb"; len; f] -> call (A_get_area_membind (nn len, fl f))
     | ["gaml"; len; f] -> call (A_get_area_memlocation (nn len, fl f))
     | ["amb"; len; s; p; f] -> call (A_alloc_membind (nn len, bs s, z p, fl f))
     | ["os"; "affproc"; s] -> os_affproc := Some (bs s)
     | ["os"; "loadtrace"; f] ->
       (* the affinity calls of the x86 backend during a native load over the scripted kernel (every CPU
          accepted): per visited PU one sched_setaffinity, then the restore of what the thread-level query gave *)
       let fl = int_of_c f in
       if fl land 64 <> 0 then Printf.printf "LX\n" else begin
         let thread = !os_aff and proc = (match !os_affproc with Some p -> p | None -> !os_aff) in
         let rec nat_of_int i = if i <= 0 then O else S (nat_of_int (i - 1)) in
         let (final, visited) = x86_look { fin = N0; inf = true } (fl land 16 <> 0 && fl land 2 <> 0) (nat_of_int !nbprocs) thread proc in
         Printf.printf "LX%s setaffinity(0,%s) final=%s\n"
           (Stdlib.String.concat "" (Stdlib.List.map (fun i -> Printf.sprintf " setaffinity(0,%s)" (text_of_bset { fin = n_of_bits_lsb_first (Stdlib.List.init (int_of_n i + 1) (fun k -> k = int_of_n i)); inf = false })) visited))
           (text_of_bset thread) (text_of_bset final)
       end
     | ["nbprocs"; n] -> nbprocs := int_of_c n
     | ["thissystem"; nonthis_normal; flag; nonthis_env; env] ->
       (* hwloc_backends_is_thissystem on: a normally given non-thissystem backend?, the flag, an env-forced one?, HWLOC_THISSYSTEM *)
       let bk = (if nonthis_normal = "1" then [{ bk_envvar_forced = false; bk_is_thissystem = Z0 }] else [{ bk_envvar_forced = false; bk_is_thissystem = z_of_int (-1) }])
                @ (if nonthis_env = "1" then [{ bk_envvar_forced = true; bk_is_thissystem = Z0 }] else []) in
       Printf.printf "thissystem %b\n" (backends_is_thissystem bk (flag = "1") (if env = "-" then None else Some (z_of_int (int_of_c env))))
     | _ -> ())
  done with End_of_file -> ()
