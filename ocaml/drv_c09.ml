(* C09 driver: reads the output of harness/hwv_helpers.c on stdin.  For every
   dump block the extracted model rebuilds the tree; for every "Q <query>" /
   "R <C answer>" pair it prints
     "M <answer of the extracted model helper, same canonical form>"
     "S ok" | "S FAIL <clause>"   the brute-force definition (extracted checker) evaluated on the C answer
   Other lines are echoed. *)
let words s = Stdlib.List.filter (fun x -> x <> "") (split_on ' ' s)
let set_of s = match bset_of_text s with Some b -> b | None -> failwith ("bad set " ^ s)
let pset b = text_of_bset (Some b)
let ids_of_text s = if s = "-" then [] else Stdlib.List.map (fun x -> n_of_int (int_of_string x)) (split_on ',' s)
let pids l = if l = [] then "-" else Stdlib.String.concat "," (Stdlib.List.map (fun i -> string_of_int (int_of_n i)) l)
let popt = function None -> "-" | Some i -> string_of_int (int_of_n i)
let unesc s =
  let b = Stdlib.Buffer.create 16 in
  let n = Stdlib.String.length s in
  let i = ref 0 in
  while !i < n do
    if s.[!i] = '%' && !i + 2 < n + 0 && !i + 2 <= n - 1 then (Stdlib.Buffer.add_char b (Stdlib.Char.chr (hexval s.[!i+1] * 16 + hexval s.[!i+2])); i := !i + 3)
    else (Stdlib.Buffer.add_char b s.[!i]; incr i)
  done; Stdlib.Buffer.contents b
let rec nat_of_int i = if i <= 0 then O else S (nat_of_int (i - 1))
let errname e = match int_of_n e with 0 -> "0" | 1 -> "EINVAL" | 2 -> "ENOENT" | _ -> "EOTHER"

let cur : (dump * obj option * Stdlib.String.t array) option ref = ref None
let lastq = ref ""

let oid_of (o : obj) = (match o with Obj (d, _, _, _, _) -> d.o_id)
let find_tree tree i = Stdlib.List.find_opt (fun o -> int_of_n (oid_of o) = i) (nflatten tree)
let getd (d : dump) i = Stdlib.List.nth_opt d.t_objs i

let answer (d : dump) (tree : obj option) (raws : Stdlib.String.t array) (q : Stdlib.String.t) (r : Stdlib.String.t) : Stdlib.String.t * Stdlib.String.t =
  (* returns (model answer, spec verdict) *)
  let w = words q and rw = words r in
  let need_tree f = match tree with Some t -> f t | None -> ("notree", "FAIL tree-of-dump") in
  let verdict name b = if b then "ok" else "FAIL " ^ name in
  match w with
  | ["covering"; s] -> need_tree (fun t ->
      let set = set_of s in
      let m = (match get_obj_covering_cpuset t set with Some o -> Some (oid_of o) | None -> None) in
      let c = (match rw with [x] when x <> "-" -> Some (n_of_int (int_of_string x)) | _ -> None) in
      (popt m, verdict "covering_is_deepest_including" (covering_spec t set c)))
  | ["child_covering"; i; s] -> need_tree (fun t ->
      (match find_tree t (int_of_string i) with
       | Some p -> ((match get_child_covering_cpuset (set_of s) p with Some o -> popt (Some (oid_of o)) | None -> "-"), "ok")
       | None -> ("skip", "ok")))
  | ["first_largest"; s] -> need_tree (fun t ->
      ((match get_first_largest_obj_inside_cpuset t (set_of s) with Some o -> popt (Some (oid_of o)) | None -> "-"), "ok"))
  | ["largest"; s; mx] -> need_tree (fun t ->
      let set = set_of s and max = z_of_int (int_of_string mx) in
      let (rc, objs) = get_largest_objs_inside_cpuset t set max in
      let m = Stdlib.Printf.sprintf "%d %s" (int_of_z rc) (pids (Stdlib.List.map oid_of objs)) in
      let v = (match rw with
        | [crc; cids] -> verdict "largest_objs_partition" (largest_spec t set max (z_of_int (int_of_string crc)) (ids_of_text cids))
        | _ -> "FAIL largest-format") in
      (m, v))
  | [("inside" | "covering_iter") as k; dep; s] ->
      let depth = z_of_int (int_of_string dep) and set = set_of s in
      let lv = level_objs d depth in
      let l = if k = "inside" then iter_inside lv depth set else iter_covering lv depth set in
      let m = pids (Stdlib.List.map (fun (o : dobj) -> o.o_id) l) in
      let v = (match rw with
        | [cids] when not (Stdlib.String.contains cids '!') ->
            if k = "inside" then verdict "inside_iter_exact" (inside_spec lv set (ids_of_text cids))
            else verdict "covering_iter_exact" (covering_iter_spec lv set (ids_of_text cids))
        | _ -> "FAIL iterator-loop") in
      (m, v)
  | ["nb_inside"; dep; s] ->
      let depth = z_of_int (int_of_string dep) and set = set_of s in
      let lv = level_objs d depth in
      let nb = int_of_n (get_nbobjs_inside_cpuset_by_depth lv set) in
      let items = Stdlib.List.init (nb + 1) (fun i ->
        match get_obj_inside_cpuset_by_depth lv set (n_of_int i) with
        | Some o -> Stdlib.Printf.sprintf "%d:%d" (int_of_n o.o_id) (int_of_z (get_obj_index_inside_cpuset lv set o))
        | None -> "-") in
      let alls = Stdlib.List.map (fun (o : dobj) ->
        Stdlib.Printf.sprintf "%d:%d" (int_of_n o.o_id) (if o.o_cs = None then -2 else int_of_z (get_obj_index_inside_cpuset lv set o))) lv in
      let m = Stdlib.Printf.sprintf "%d %s | %s" nb (Stdlib.String.concat "," items) (if alls = [] then "-" else Stdlib.String.concat "," alls) in
      (* the C answer against the brute-force list *)
      let pair x = (match split_on ':' x with [i; k] -> (int_of_string i, int_of_string k) | _ -> failwith "pair") in
      let v = (match rw with
        | [cnb; citems; "|"; calls] ->
            (try
              let its = Stdlib.List.map (fun x -> if x = "-" then (None, Z0) else let (i, k) = pair x in (Some (n_of_int i), z_of_int k)) (split_on ',' citems) in
              let als = if calls = "-" then [] else Stdlib.List.map (fun x -> let (i, k) = pair x in (n_of_int i, z_of_int k)) (split_on ',' calls) in
              if Stdlib.List.exists (fun (o : dobj) -> o.o_cs = None) lv then "ok"
              else verdict "inside_index_roundtrip" (nb_inside_spec lv set (n_of_int (int_of_string cnb)) its als)
            with _ -> "FAIL nb-inside-format")
        | _ -> "FAIL nb-inside-format") in
      (m, v)
  | ["ancestor"; a; b] ->
      (match getd d (int_of_string a), getd d (int_of_string b) with
       | Some oa, Some ob ->
           let m = (match get_common_ancestor_obj d oa ob with
             | CA_obj i -> string_of_int (int_of_n i) | CA_null -> "-" | CA_crash -> "crash" | CA_fuel -> "fuel") in
           let v = (match rw with
             | ["crash"] -> "FAIL common-ancestor-null-deref"
             | [x] when x <> "-" -> verdict "common_ancestor_deepest" (common_ancestor_spec d oa ob (n_of_int (int_of_string x)))
             | _ -> "FAIL common-ancestor-null") in
           (m, v)
       | _ -> ("skip", "ok"))
  | ["in_subtree"; a; b] ->
      (match getd d (int_of_string a), getd d (int_of_string b) with
       | Some oa, Some ob -> ((if obj_is_in_subtree oa ob then "1" else "0"), "ok")
       | _ -> ("skip", "ok"))
  | ["closest"; a; mx] ->
      (match getd d (int_of_string a) with
       | Some src ->
           let max = n_of_int (int_of_string mx) in
           let l = get_closest_objs d src max in
           let m = Stdlib.Printf.sprintf "%d %s" (Stdlib.List.length l) (pids (Stdlib.List.map (fun (o : dobj) -> o.o_id) l)) in
           let v = (match rw with
             | [_; cids] -> if src.o_cs = None then "ok" else verdict "closest_sorted_by_ancestor" (closest_spec d src max (ids_of_text cids))
             | _ -> "FAIL closest-format") in
           (m, v)
       | None -> ("skip", "ok"))
  | [("to_nodeset" | "from_nodeset") as k; s] ->
      let set = set_of s in
      let nl = level_objs d hWLOC_TYPE_DEPTH_NUMANODE in
      let res = if k = "to_nodeset" then cpuset_to_nodeset nl set else cpuset_from_nodeset nl set in
      let v = (match rw with
        | ["0"; cs] -> let c = set_of cs in
            if k = "to_nodeset" then verdict "cpuset_nodeset_locality" (to_nodeset_spec nl set c)
            else verdict "cpuset_nodeset_locality" (from_nodeset_spec nl set c)
        | _ -> "FAIL nodeset-rc") in
      ("0 " ^ pset res, v)
  | "same_locality" :: a :: ty :: rest ->
      (match getd d (int_of_string a) with
       | Some src ->
           let t = n_of_int (int_of_string ty) in
           let arg k = (match Stdlib.List.nth_opt rest k with Some x when x <> "-" -> Some (Stdlib.String.lowercase_ascii (unesc x)) | _ -> None) in
           let st = arg 0 and np = arg 1 in
           let fl = (match Stdlib.List.nth_opt rest 2 with Some x -> n_of_int (int_of_string x) | None -> N0) in
           (* obj->subtype / obj->name of the dump, compared case-insensitively as strcasecmp / strncasecmp do *)
           let field (o : dobj) key =
             let h = kv_tbl (split_on ' ' raws.(int_of_n o.o_id)) in
             (match Stdlib.Hashtbl.find_opt h key with
              | Some v when v <> "-" -> Some (Stdlib.String.lowercase_ascii (unesc (Stdlib.String.sub v 1 (Stdlib.String.length v - 2))))
              | _ -> None) in
           let mt (o : dobj) =
             (match st with None -> true | Some x -> (match field o "st" with Some y -> x = y | None -> false)) &&
             (match np with None -> true | Some x -> (match field o "nm" with
                | Some y -> Stdlib.String.length y >= Stdlib.String.length x && Stdlib.String.sub y 0 (Stdlib.String.length x) = x
                | None -> false)) in
           let (ro, e) = get_obj_with_same_locality d src t mt fl in
           let m = (match ro with Some o -> string_of_int (int_of_n o.o_id) | None -> "-") ^ " " ^ errname e in
           let cr = (match rw with x :: _ -> if x = "-" then None else Some (n_of_int (int_of_string x)) | [] -> None) in
           let v =
             if int_of_n fl <> 0 then (if cr = None then "ok" else "FAIL same-locality-flags")
             else if (is_normal src.o_type || is_memory src.o_type) && (is_normal t || is_memory t) then
               verdict "same_locality_sound_complete" (same_locality_spec d src t mt cr)
             else if is_io src.o_type && (int_of_n src.o_type = 17 || int_of_n src.o_type = 18) && (int_of_n t = 17 || int_of_n t = 18) then
               verdict "same_locality_io" (same_locality_io_spec d src t mt cr)
             else (if cr = None then "ok" else "FAIL same-locality-incompatible-types") in
           (m, v)
       | None -> ("skip", "ok"))
  | ["type_depth"; ty] ->
      let t = int_of_string ty in
      let m = string_of_int (int_of_z (get_type_depth d (z_of_int t))) in
      let v = (match rw with
        | [x] when t >= 0 && t < int_of_n hWLOC_OBJ_TYPE_MAX -> verdict "type_depth_inverse" (type_depth_spec d (n_of_int t) (z_of_int (int_of_string x)))
        | _ -> "ok") in
      (m, v)
  | ["depth_type"; dep] ->
      let dd = z_of_int (int_of_string dep) in
      let m = string_of_int (int_of_z (get_depth_type d dd)) in
      let v = (match rw with [x] -> verdict "type_depth_inverse" (depth_type_spec d dd (z_of_int (int_of_string x))) | _ -> "ok") in
      (m, v)
  | ["type_depth_attr"; ty; gd; mode] ->
      let t = int_of_string ty in
      let g = if mode = "0" then Some (z_of_dec gd) else None in
      let m = string_of_int (int_of_z (get_type_depth_with_attr d (z_of_int t) g)) in
      let v = (match rw with
        | [x] when t >= 0 && t < int_of_n hWLOC_OBJ_TYPE_MAX -> verdict "type_depth_with_attr" (type_depth_attr_spec d (n_of_int t) g (z_of_int (int_of_string x)))
        | _ -> "ok") in
      (m, v)
  | ["sscanf_depth"; _] ->
      (* R <err> <type> <depth> | <err of hwloc_type_sscanf> <its type> <its group depth>: the model composes the depth *)
      (match rw with
       | [err; ty; dep; "|"; err2; ty2; gd] ->
           if int_of_string err2 < 0 then ((err2 ^ " -1 -99 | " ^ err2 ^ " " ^ ty2 ^ " " ^ gd), (if int_of_string err < 0 then "ok" else "FAIL sscanf-as-depth-accepts"))
           else begin
             let g = Some (z_of_dec gd) in
             let mdep = int_of_z (get_type_depth_with_attr d (z_of_int (int_of_string ty2)) g) in
             (Stdlib.Printf.sprintf "0 %s %d | %s %s %s" ty2 mdep err2 ty2 gd,
              if err = "0" && ty = ty2 && type_depth_attr_spec d (n_of_int (int_of_string ty2)) g (z_of_int (int_of_string dep)) then "ok" else "FAIL sscanf-as-depth")
           end
       | _ -> ("format", "FAIL sscanf-depth-format"))
  | ["next_child"; a] ->
      (match getd d (int_of_string a) with
       | Some o ->
           let l = iter_children d (nat_of_int (Stdlib.List.length d.t_objs + 1)) o None in
           let v = (match rw with [cids] when not (Stdlib.String.contains cids '!') -> verdict "next_child_order" (next_child_spec d o (ids_of_text cids)) | _ -> "FAIL next-child-loop") in
           (pids (Stdlib.List.map (fun (o : dobj) -> o.o_id) l), v)
       | None -> ("skip", "ok"))
  | ["type_kind"; ty] ->
      let t = int_of_string ty in
      if t < 0 then ("0 0 0 0 0 0", "ok") else
      let n = n_of_int t in let b x = if x then "1" else "0" in
      (Stdlib.String.concat " " [b (is_normal n); b (is_io n); b (is_memory n); b (is_cache n); b (is_dcache n); b (is_icache n)], "ok")
  | ["memory_parents_depth"] ->
      let m = (match get_memory_parents_depth d with Some z -> string_of_int (int_of_z z) | None -> "undef") in
      let v = (match rw with [x] -> verdict "memory_parents_depth" (memory_parents_spec d (z_of_int (int_of_string x))) | _ -> "FAIL format") in
      (m, v)
  | ["type_or_below"; ty] -> ((match get_type_or_below_depth d (n_of_int (int_of_string ty)) with Some z -> string_of_int (int_of_z z) | None -> "undef"), "ok")
  | ["type_or_above"; ty] -> ((match get_type_or_above_depth d (n_of_int (int_of_string ty)) with Some z -> string_of_int (int_of_z z) | None -> "undef"), "ok")
  | ["distrib"; ids; n; until; flags] -> need_tree (fun t ->
      let roots_d = Stdlib.List.filter_map (fun i -> getd d (int_of_n i)) (ids_of_text ids) in
      (match resolve_roots d t roots_d with
       | None -> ("skip", "ok")
       | Some roots ->
           let nn = n_of_int (int_of_string n) and u = z_of_int (int_of_string until) and fl = n_of_int (int_of_string flags) in
           let ((rc, e), res) = hwloc_distrib roots nn u fl in
           let m = (match res with
             | D_ok slots ->
                 (* on EINVAL nothing is written: the harness still prints its n untouched slots *)
                 let slots = if int_of_z rc < 0 then Stdlib.List.init (int_of_string n) (fun _ -> None) else slots in
                 Stdlib.Printf.sprintf "%d %s%s" (int_of_z rc) (errname e)
                               (Stdlib.String.concat "" (Stdlib.List.map (fun s -> " " ^ text_of_bset s) slots))
             | D_assert -> "assert" | D_nullprev -> "nullprev") in
           let v = (match rw with
             | "0" :: "0" :: csets ->
                 let slots = Stdlib.List.map bset_of_text csets in
                 if Stdlib.List.exists (fun x -> x = "!overrun") csets then "FAIL distrib-overrun" else
                 (match slots_sets slots with
                  | None -> "FAIL distrib_count"
                  | Some sets ->
                      if not (distrib_spec_cover roots nn sets) then "FAIL distrib_nonempty_included_cover"
                      else if not (distrib_spec_disjoint roots nn u sets) then "FAIL distrib_disjoint"
                      else if distrib_disjoint_applies roots nn u then "ok disjoint-claimed" else "ok")
             | "-1" :: _ ->
                 (* legal errors: n = 0, unknown flags, or no CPU below the roots *)
                 if int_of_string n = 0 || (int_of_string flags) land (lnot 1) <> 0 || int_of_n (wsum (Stdlib.List.map fst roots)) = 0 then "ok" else "FAIL distrib-rc"
             | _ -> "FAIL distrib-format") in
           (m, v)))
  | ["singlify_per_core"; s; which] ->
      let set = set_of s and wh = n_of_int (int_of_string which) in
      let cores = core_level d in
      let res = bitmap_singlify_per_core cores set wh in
      let v = (match rw with
        | ["0"; cs] -> verdict "singlify_per_core_at_most_one" (singlify_spec cores set wh (set_of cs))
        | _ -> "FAIL singlify-rc") in
      ("0 " ^ pset res, v)
  | _ -> ("unknown", "ok")

let () =
  read_blocks stdin
    (fun lines ->
       let p = parse_dump_lines lines in
       cur := Some (p.pd, tree_of_dump p.pd, p.raw_objs);
       (* how many dumps meet the hypotheses of the theorems (non-vacuity statistics) *)
       let hyp = (match tree_of_dump p.pd with
         | Some t ->
             let b x = if x then "1" else "0" in
             let lv_ok = Stdlib.List.for_all (fun (l : level) -> level_ok l.l_depth (level_objs p.pd l.l_depth) O) p.pd.t_levels in
             " tree_wf=" ^ b (tree_wf t) ^ " level_ok=" ^ b lv_ok ^ " wbound=" ^ b (wbound (n_of_int 65536) t)
         | None -> "") in
       print_endline ("dump nobj=" ^ string_of_int (Stdlib.List.length p.pd.t_objs) ^ (match tree_of_dump p.pd with Some _ -> " tree=ok" | None -> " tree=none") ^ hyp))
    (fun l ->
       if Stdlib.String.length l > 2 && Stdlib.String.sub l 0 2 = "Q " then (lastq := Stdlib.String.sub l 2 (Stdlib.String.length l - 2); print_endline l)
       else if Stdlib.String.length l > 2 && Stdlib.String.sub l 0 2 = "R " then begin
         print_endline l;
         let r = Stdlib.String.sub l 2 (Stdlib.String.length l - 2) in
         (match !cur with
          | Some (d, tree, raws) when r <> "bad" && r <> "notopo" && r <> "unknown" ->
              let (m, v) = (try answer d tree raws !lastq r with e -> ("exception " ^ Stdlib.Printexc.to_string e, "FAIL driver-exception")) in
              print_endline ("M " ^ m); print_endline ("S " ^ v)
          | _ -> print_endline ("M " ^ r); print_endline "S ok")
       end
       else begin
         if l = "destroy" || l = "new" then cur := None;
         print_endline l
       end)
