(* reads harness output on stdin; for every dump block prints
     "wf ok" | "wf VIOLATION <clause>@<id> ..."      verdict of the verified checker wf_check (final dumps)
     "levels ok" | "levels DIFF model=... impl=..."  model of hwloc_connect_levels vs the C levels (final dumps)
     "sets ok" | "sets DIFF ids"                     model of root fix-up/propagate_nodeset/fixup_sets/remove_unused_sets
                                                     applied to the phase-1 raw tree vs the phase-2 raw tree
     "totals ok" | "totals DIFF ids"                 model of propagate_total_memory on the phase-5 tree vs the final dump
     "inserts ok n=<calls>" | "inserts DIFF call=<k> ..."  model of hwloc___insert_object_by_cpuset (Topo/Insert.v) on the tree right
                                                     before each insertion vs the tree right after it (printed once per load, before "wf")
     "meminserts ok n=<calls>" | "meminserts DIFF call=<k> ..."  model of hwloc__find_insert_memory_parent and hwloc___attach_memory_object_by_nodeset
                                                     (Topo/MemAttach.v) on the trees right before/after each call
     "synthreq ok n=<requests>" | "synthreq DIFF ..."  model of the synthetic backend (Text/Synthetic.v parser + Topo/SynthBuild.v) vs the
                                                     objects the backend really hands to the core, in order (synthetic sources with insertion tracing)
     "linuxcpu ok n=<requests>" | "linuxcpu DIFF ..."  model of look_sysfscpu (Topo/LinuxCpu.v + the sysfs parsers of Text/LinuxParse.v) evaluated on
                                                     the file contents the backend is about to read vs the objects it really hands to the core
     "merge ok" | "merge DIFF"                       model of load-time KEEP_STRUCTURE level merging on the phase-4 tree vs the phase-5 tree
     "removal ok" | "removal DIFF"                   model of hwloc_filter_bridges + remove_empty on the phase-3 tree vs the phase-4 tree
   other lines are echoed *)
let show ls = Stdlib.String.concat "|" (Stdlib.List.map (fun l -> Stdlib.String.concat "," (Stdlib.List.map (fun i -> string_of_int (int_of_n i)) l)) ls)
let ids l = Stdlib.String.concat "," (Stdlib.List.map (fun i -> string_of_int (int_of_n i)) l)
let phase_of head =
  let h = kv_tbl (split_on ' ' head) in
  match Stdlib.Hashtbl.find_opt h "phase" with Some p -> int_of_string p | None -> 0
let p1 = ref None and p5 = ref None and p3 = ref None and p10 = ref None
let p4 : (dump * n list) option ref = ref None
(* the phase-4 dump of a load whose KEEP_STRUCTURE pass was observed (phase 5 seen), kept until the final dump *)
let merged_d4 : dump option ref = ref None
let p12 = ref None and p14 = ref None
let ins_calls = ref 0 and ins_bad = ref []
let thm_in = ref 0 and thm_fail = ref 0 and thm_noord = ref 0 and thm_nohyp = ref 0
let req_payloads : dobj list ref = ref []
let mem_calls = ref 0 and mem_bad = ref []
(* requests issued by the synthetic backend: insertions that start at the root (phase 10, not inside a memory-parent
   search) and memory insertions (phase 12), in order *)
let synth_desc : Stdlib.String.t option ref = ref None
let synth_obs = ref [] and in_find_parent = ref false and synth_pending = ref false
let obs_of (d : dobj) = (((d.o_type, d.o_os), (d.o_cs, d.o_nds)), (d.o_lm, d.o_cache_depth))
let rec int_of_nat = function O -> 0 | S n -> 1 + int_of_nat n
(* ---- the sysfs view printed by the harness when the Linux backend starts reading the CPU topology ("lcpu ..." lines) ---- *)
let lcpu_lines : Stdlib.String.t list ref = ref [] and lcpu_view = ref None and lcpu_obs = ref []
let bytes_of_hex h =
  if h = "-empty" then [] else
  Stdlib.List.init (Stdlib.String.length h / 2) (fun i -> n_of_int (int_of_string ("0x" ^ Stdlib.String.sub h (2 * i) 2)))
let build_view lines =
  let cfg = Stdlib.Hashtbl.create 8 and online = ref None in
  let cpus : (int, (bool * (Stdlib.String.t, n list) Stdlib.Hashtbl.t)) Stdlib.Hashtbl.t = Stdlib.Hashtbl.create 64 in
  let order = ref [] in
  Stdlib.List.iter (fun l ->
    match split_on ' ' l with
    | "lcpu" :: "begin" :: kvs -> Stdlib.List.iter (fun kv -> match split_on '=' kv with [k; v] -> Stdlib.Hashtbl.replace cfg k (v <> "0") | _ -> ()) kvs
    | ["lcpu"; "online"; h] -> online := Some (bytes_of_hex h)
    | ["lcpu"; "cpu"; n; t] -> Stdlib.Hashtbl.replace cpus (int_of_string n) (t = "topo=1", Stdlib.Hashtbl.create 32); order := int_of_string n :: !order
    | ["lcpu"; "f"; n; key; h] -> (match Stdlib.Hashtbl.find_opt cpus (int_of_string n) with Some (_, tb) -> Stdlib.Hashtbl.replace tb key (bytes_of_hex h) | None -> ())
    | ["lcpu"; "c"; n; j; key; h] -> (match Stdlib.Hashtbl.find_opt cpus (int_of_string n) with Some (_, tb) -> Stdlib.Hashtbl.replace tb ("c" ^ j ^ key) (bytes_of_hex h) | None -> ())
    | _ -> ()) lines;
  let flag k = match Stdlib.Hashtbl.find_opt cfg k with Some b -> b | None -> false in
  let mk n =
    let (topo, tb) = Stdlib.Hashtbl.find cpus n in
    let f k = Stdlib.Hashtbl.find_opt tb k in
    { c_n = n_of_int n; c_topo = topo; c_on = f "on";
      c_core = f "core"; c_cluster = f "cluster"; c_die = f "die"; c_pkg = f "pkg"; c_book = f "book"; c_drawer = f "drawer";
      c_core_id = f "core_id"; c_cluster_id = f "cluster_id"; c_die_id = f "die_id"; c_pkg_id = f "pkg_id"; c_book_id = f "book_id"; c_drawer_id = f "drawer_id";
      c_caches = Stdlib.List.init 10 (fun j -> let g k = f ("c" ^ string_of_int j ^ k) in
                   { cf_map = g "map"; cf_level = g "level"; cf_type = g "type"; cf_id = g "id"; cf_size = g "size" }) } in
  { v_old = flag "old"; v_s390 = flag "s390"; v_amdcu = flag "amdcu"; v_knl = flag "knl"; v_caches = flag "caches"; v_dmcg = flag "dmcg";
    v_online = !online; v_cpus = Stdlib.List.rev_map mk !order }
(* ---- the per-PU information printed by the harness when the x86 backend starts building objects ("x86 ..." lines) ---- *)
let x86_lines : Stdlib.String.t list ref = ref [] and x86_view = ref None and x86_obs = ref []
let build_x86 lines =
  let flags = ref 0 and sw = Stdlib.Hashtbl.create 8 and procs = ref [] in
  let ints s = Stdlib.List.filter_map (fun x -> if x = "" then None else Some (n_of_int (int_of_string x))) (split_on ',' s) in
  Stdlib.List.iter (fun l ->
    match split_on ' ' l with
    | "x86" :: "begin" :: kvs ->
        Stdlib.List.iter (fun kv -> match split_on '=' kv with
                                    | ["flags"; v] -> flags := int_of_string v
                                    | [k; v] -> Stdlib.Hashtbl.replace sw k (v <> "0") | _ -> ()) kvs
    | "x86" :: "proc" :: _ :: rest ->
        let h = Stdlib.Hashtbl.create 8 in
        Stdlib.List.iter (fun kv -> match split_on '=' kv with [k; v] -> Stdlib.Hashtbl.replace h k v | [k] -> Stdlib.Hashtbl.replace h "cachelist" k | _ -> ()) rest;
        let g k = match Stdlib.Hashtbl.find_opt h k with Some v -> v | None -> "" in
        let caches = Stdlib.List.filter_map (fun c -> match split_on ':' c with
                                                      | lv :: ty :: id :: _ -> Some { xc_level = n_of_int (int_of_string lv); xc_type = n_of_int (int_of_string ty); xc_id = n_of_int (int_of_string id) }
                                                      | _ -> None) (split_on ';' (g "cachelist")) in
        procs := { xp_present = g "present" <> "0"; xp_ids = ints (g "ids"); xp_levels = n_of_int (int_of_string (g "levels"));
                   xp_other = (if g "other" = "-" then None else Some (ints (g "other"))); xp_caches = caches } :: !procs
    | _ -> ()) lines;
  let f k = match Stdlib.Hashtbl.find_opt sw k with Some b -> b | None -> false in
  { xv_flags = n_of_int !flags; xv_die = f "die"; xv_complex = f "complex"; xv_unit = f "unit"; xv_module = f "module"; xv_tile = f "tile";
    xv_procs = Stdlib.List.rev !procs }
let lobs_of (d : dobj) = ((((d.o_type, d.o_os), d.o_cs), (d.o_group_kind, d.o_group_subkind)), (d.o_cache_depth, d.o_cache_type))
let bytes_of_string s = Stdlib.List.init (Stdlib.String.length s + 1) (fun i -> if i < Stdlib.String.length s then n_of_int (Stdlib.Char.code s.[i]) else n_of_int 0)
let contains s sub = let n = Stdlib.String.length s and m = Stdlib.String.length sub in let rec go i = i + m <= n && (Stdlib.String.sub s i m = sub || go (i + 1)) in go 0
let () =
  read_blocks stdin
    (fun lines ->
       let p = parse_dump_lines lines in
       match phase_of p.raw_head with
       | 1 -> p1 := Some p.pd
       | 2 -> (match !p1 with
               | Some d1 -> (match sets_pipeline_diff d1 p.pd with
                             | Some [] -> print_endline "sets ok"
                             | Some l -> print_endline ("sets DIFF " ^ ids l)
                             | None -> print_endline "sets DIFF tree")
               | None -> ()); p1 := None
       | 3 -> let nv = ref [] in
              Stdlib.Array.iteri (fun i l -> if contains l "st=\"NVSwitch\"" then nv := n_of_int i :: !nv) p.raw_objs;
              p3 := Some (p.pd, !nv)
       | 4 -> (match !p3 with
               | Some (d3, nv) -> print_endline (if removal_agrees d3 p.pd nv then "removal ok" else "removal DIFF")
               | None -> ()); p3 := None;
              let dm = ref [] in
              Stdlib.Array.iteri (fun i l -> if contains l "gdontmerge:1" then dm := n_of_int i :: !dm) p.raw_objs;
              p4 := Some (p.pd, !dm)
       | 10 -> p10 := Some p;
               (if not !in_find_parent then
                  (let h = kv_tbl (split_on ' ' p.raw_head) in
                   if Stdlib.Hashtbl.find h "insroot" = "0" then
                     req_payloads := Stdlib.List.nth p.pd.t_objs (int_of_string (Stdlib.Hashtbl.find h "ins")) :: !req_payloads));
               (if !lcpu_view <> None && not !in_find_parent then
                  (let h = kv_tbl (split_on ' ' p.raw_head) in
                   if Stdlib.Hashtbl.find h "insroot" = "0" then
                     lcpu_obs := lobs_of (Stdlib.List.nth p.pd.t_objs (int_of_string (Stdlib.Hashtbl.find h "ins"))) :: !lcpu_obs));
               (if !synth_desc <> None && not !in_find_parent then
                  let h = kv_tbl (split_on ' ' p.raw_head) in
                  if Stdlib.Hashtbl.find h "insroot" = "0" then
                    synth_obs := obs_of (Stdlib.List.nth p.pd.t_objs (int_of_string (Stdlib.Hashtbl.find h "ins"))) :: !synth_obs)
       | 11 -> (match !p10 with
                | Some b ->
                    let h = kv_tbl (split_on ' ' b.raw_head) and h2 = kv_tbl (split_on ' ' p.raw_head) in
                    let ins = int_of_string (Stdlib.Hashtbl.find h "ins") and root = int_of_string (Stdlib.Hashtbl.find h "insroot") in
                    let dm_of l = contains l "gdontmerge:1" in
                    let dms = ref [] in
                    Stdlib.Array.iteri (fun i l -> if dm_of l && i <> ins then (match (Stdlib.List.nth b.pd.t_objs i).o_gp with Some g -> dms := g :: !dms | None -> ())) b.raw_objs;
                    let dm_new = dm_of b.raw_objs.(ins) in
                    let res = Stdlib.Hashtbl.find h2 "res" in
                    incr ins_calls;
                    (* the hypotheses of discovery_insertions_keep_order on this call, and its conclusion on the C tree *)
                    (match disc_step_inside b.pd (n_of_int ins) (n_of_int root) !dms dm_new with
                     | Some (true, true) when res <> "-" ->
                         incr thm_in;
                         (match disc_ord_after p.pd (n_of_int ins) (n_of_int root) b.pd with
                          | Some true -> ()
                          | _ -> ins_bad := (!ins_calls, "order lost although the hypotheses of the theorem hold: " ^ b.raw_objs.(ins)) :: !ins_bad)
                     | Some (true, true) ->
                         (* put-back: inside failed_insertion_leaves_the_tree_unchanged; its conclusion on the C trees *)
                         incr thm_fail;
                         (match fail_left_tree_unchanged b.pd p.pd (n_of_int root) with
                          | Some true -> ()
                          | _ -> ins_bad := (!ins_calls, "a failed insertion changed the tree: " ^ b.raw_objs.(ins)) :: !ins_bad)
                     | Some (false, _) -> incr thm_noord
                     | Some (true, false) -> incr thm_nohyp
                     | None -> incr thm_nohyp);
                    if not (insert_tie b.pd p.pd (n_of_int ins) (n_of_int root) !dms dm_new (Stdlib.Hashtbl.find h2 "same" = "1") (res = "-"))
                    then ins_bad := (!ins_calls, b.raw_objs.(ins)) :: !ins_bad
                | None -> ()); p10 := None
       | 20 -> (* light trace: a normal object handed to the core at the root *)
               let o = Stdlib.List.nth p.pd.t_objs 0 in
               (if !lcpu_view <> None then lcpu_obs := lobs_of o :: !lcpu_obs);
               (if !x86_view <> None then x86_obs := lobs_of o :: !x86_obs);
               (if !synth_desc <> None then synth_obs := obs_of o :: !synth_obs)
       | 22 -> (* light trace: a memory object handed to the core *)
               let o = Stdlib.List.nth p.pd.t_objs 0 in
               (if !x86_view <> None then x86_obs := lobs_of o :: !x86_obs);
               (if !synth_desc <> None then synth_obs := obs_of o :: !synth_obs)
       | 12 -> p12 := Some p; in_find_parent := true;
               (if !synth_desc <> None then
                  let h = kv_tbl (split_on ' ' p.raw_head) in
                  synth_obs := obs_of (Stdlib.List.nth p.pd.t_objs (int_of_string (Stdlib.Hashtbl.find h "ins"))) :: !synth_obs)
       | 13 -> (match !p12 with
                | Some b ->
                    let h = kv_tbl (split_on ' ' b.raw_head) and h2 = kv_tbl (split_on ' ' p.raw_head) in
                    let ins = int_of_string (Stdlib.Hashtbl.find h "ins") in
                    let par = Stdlib.Hashtbl.find h2 "insroot" in
                    let dms = ref [] in
                    Stdlib.Array.iteri (fun i l -> if contains l "gdontmerge:1" then (match (Stdlib.List.nth b.pd.t_objs i).o_gp with Some g -> dms := g :: !dms | None -> ())) b.raw_objs;
                    incr mem_calls;
                    if par = "-" || par = "?" || not (find_parent_tie b.pd p.pd (n_of_int ins) (n_of_int (int_of_string par)) !dms)
                    then mem_bad := (!mem_calls, "find_insert_memory_parent " ^ b.raw_objs.(ins)) :: !mem_bad
                | None -> ()); p12 := None; in_find_parent := false
       | 14 -> p14 := Some p
       | 15 -> (match !p14 with
                | Some b ->
                    let h = kv_tbl (split_on ' ' b.raw_head) and h2 = kv_tbl (split_on ' ' p.raw_head) in
                    let ins = int_of_string (Stdlib.Hashtbl.find h "ins") and par = int_of_string (Stdlib.Hashtbl.find h "insroot") in
                    incr mem_calls;
                    if not (attach_tie b.pd p.pd (n_of_int ins) (n_of_int par) (Stdlib.Hashtbl.find h2 "same" = "1"))
                    then mem_bad := (!mem_calls, "attach_memory_object " ^ b.raw_objs.(ins)) :: !mem_bad
                | None -> ()); p14 := None
       | 5 -> (match !p4 with
               | Some (d4, dm) -> print_endline (if merge_agrees d4 p.pd dm then "merge ok" else "merge DIFF");
                                  (* hypotheses of level_merge_pass_keeps_children_ordered on the tree before the pass *)
                                  print_endline (if merge_hypb d4 then "mergehyp 1" else "mergehyp 0")
               | None -> ()); (match !p4 with Some (d4, _) -> merged_d4 := Some d4 | None -> ()); p4 := None;
              p5 := Some p.pd
       | 0 ->
         (if !ins_calls > 0 then (match !ins_bad with
            | [] -> print_endline ("inserts ok n=" ^ string_of_int !ins_calls ^ " inthm=" ^ string_of_int !thm_in ^ " putback=" ^ string_of_int !thm_fail
                                   ^ " noord=" ^ string_of_int !thm_noord ^ " nohyp=" ^ string_of_int !thm_nohyp
                                   ^ " cover=" ^ (if !thm_in = !ins_calls && cover_hyp_of !req_payloads then "1" else "0"))
            | l -> let (k, raw) = Stdlib.List.hd (Stdlib.List.rev l) in
                   print_endline ("inserts DIFF call=" ^ string_of_int k ^ " of " ^ string_of_int !ins_calls ^ " bad=" ^ string_of_int (Stdlib.List.length l) ^ " obj: " ^ raw)));
         ins_calls := 0; ins_bad := []; thm_in := 0; thm_fail := 0; thm_noord := 0; thm_nohyp := 0; req_payloads := [];
         (if !mem_calls > 0 then (match !mem_bad with
            | [] -> print_endline ("meminserts ok n=" ^ string_of_int !mem_calls)
            | l -> let (k, raw) = Stdlib.List.hd (Stdlib.List.rev l) in
                   print_endline ("meminserts DIFF call=" ^ string_of_int k ^ " of " ^ string_of_int !mem_calls ^ " bad=" ^ string_of_int (Stdlib.List.length l) ^ " " ^ raw)));
         mem_calls := 0; mem_bad := [];
         (match !synth_desc with
          | Some dsc ->
              (match synth_requests_diff (bytes_of_string dsc) p.pd.t_filters (Stdlib.List.rev !synth_obs) with
               | Some None -> print_endline ("synthreq ok n=" ^ string_of_int (Stdlib.List.length !synth_obs)
                                             ^ (match synth_hyp_of_desc (bytes_of_string dsc) with Some true -> " hyp=1" | Some false -> " hyp=0" | None -> " hyp=-"))
               | Some (Some k) -> print_endline ("synthreq DIFF first=" ^ string_of_int (int_of_nat k) ^ " of " ^ string_of_int (Stdlib.List.length !synth_obs))
               | None -> print_endline "synthreq DIFF model-rejects-description")
          | None -> ());
         synth_desc := None; synth_obs := []; in_find_parent := false;
         (match !lcpu_view with
          | Some v ->
              let (ok, n) = linux_cpu_agrees p.pd.t_filters v (Stdlib.List.rev !lcpu_obs) in
              print_endline ((if ok then "linuxcpu ok n=" else "linuxcpu DIFF model=") ^ string_of_int (int_of_nat n) ^ " observed=" ^ string_of_int (Stdlib.List.length !lcpu_obs))
          | None -> ());
         lcpu_view := None; lcpu_obs := []; lcpu_lines := [];
         (match !x86_view with
          | Some v ->
              (match x86_agrees p.pd.t_filters v (Stdlib.List.rev !x86_obs) with
               | Some (ok, n) -> print_endline ((if ok then "x86req ok n=" else "x86req DIFF model=") ^ string_of_int (int_of_nat n) ^ " observed=" ^ string_of_int (Stdlib.List.length !x86_obs))
               | None -> print_endline "x86req skipped annotate-mode")
          | None -> ());
         x86_view := None; x86_obs := []; x86_lines := [];
         (match wf_check p.pd with
          | [] -> print_endline "wf ok"
          | vs -> print_endline ("wf VIOLATION " ^ Stdlib.String.concat " " (Stdlib.List.map (fun (c, i) -> ocaml_of_coq_string c ^ "@" ^ string_of_int (int_of_n i)) vs)));
         (if levels_agree p.pd then print_endline "levels ok"
          else if (match !merged_d4 with Some d4 -> levels_agree_after_merge d4 p.pd | None -> false) then print_endline "levels ok after-merge"
          else print_endline ("levels DIFF model=" ^ (match model_levels p.pd with Some ls -> show ls | None -> "none") ^ " impl=" ^ show (dump_levels p.pd)));
         (match !p5 with
          | Some d5 -> (match total_memory_diff d5 p.pd with
                        | Some [] -> print_endline "totals ok"
                        | Some l -> print_endline ("totals DIFF " ^ ids l)
                        | None -> print_endline "totals DIFF tree")
          | None -> ()); p5 := None
       | _ -> ())
    (fun l -> (if Stdlib.String.length l >= 4 && Stdlib.String.sub l 0 4 = "x86 " then
                 (if l = "x86 end" then (x86_view := Some (build_x86 (Stdlib.List.rev !x86_lines)); x86_obs := []; x86_lines := [])
                  else x86_lines := l :: !x86_lines));
              (if Stdlib.String.length l >= 5 && Stdlib.String.sub l 0 5 = "lcpu " then
                 (if l = "lcpu end" then (lcpu_view := Some (build_view (Stdlib.List.rev !lcpu_lines)); lcpu_obs := []; lcpu_lines := [])
                  else lcpu_lines := l :: !lcpu_lines));
              (if Stdlib.String.length l > 10 && Stdlib.String.sub l 0 10 = "synthdesc " then (synth_desc := Some (Stdlib.String.sub l 10 (Stdlib.String.length l - 10)); synth_obs := []; synth_pending := true)
               else if !synth_pending && Stdlib.String.length l >= 10 && Stdlib.String.sub l 0 10 = "config rc=" then
                 (synth_pending := false; if l <> "config rc=0" then synth_desc := None));   (* hwloc_topology_set_synthetic refused the description *)
              if l = "new rc=0" then (x86_view := None; x86_obs := []; x86_lines := []; lcpu_view := None; lcpu_obs := []; lcpu_lines := []; synth_desc := None; synth_obs := []; in_find_parent := false; p1 := None; p5 := None; p3 := None; p4 := None; merged_d4 := None; p10 := None; p12 := None; p14 := None; ins_calls := 0; ins_bad := []; mem_calls := 0; mem_bad := []); (if not ((Stdlib.String.length l >= 5 && Stdlib.String.sub l 0 5 = "lcpu ") || (Stdlib.String.length l >= 4 && Stdlib.String.sub l 0 4 = "x86 ")) then print_endline l))
