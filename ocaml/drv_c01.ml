(* reads harness output on stdin; for every dump block prints the verified
   checker's verdict:  "wf ok" or "wf VIOLATION <clause>@<id> ..." ; other lines are echoed *)
let () =
  read_blocks stdin
    (fun lines ->
       let p = parse_dump_lines lines in
       match wf_check p.pd with
       | [] -> print_endline "wf ok"
       | vs -> print_endline ("wf VIOLATION " ^ Stdlib.String.concat " " (Stdlib.List.map (fun (c, i) -> ocaml_of_coq_string c ^ "@" ^ string_of_int (int_of_n i)) vs)))
    (fun l -> print_endline l)
