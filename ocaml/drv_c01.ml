(* reads harness output on stdin; for every dump block prints
     "wf ok" | "wf VIOLATION <clause>@<id> ..."      verdict of the verified checker wf_check
     "levels ok" | "levels DIFF model=... impl=..."  model of hwloc_connect_levels vs the C levels
   other lines are echoed *)
let show ls = Stdlib.String.concat "|" (Stdlib.List.map (fun l -> Stdlib.String.concat "," (Stdlib.List.map (fun i -> string_of_int (int_of_n i)) l)) ls)
let () =
  read_blocks stdin
    (fun lines ->
       let p = parse_dump_lines lines in
       (match wf_check p.pd with
        | [] -> print_endline "wf ok"
        | vs -> print_endline ("wf VIOLATION " ^ Stdlib.String.concat " " (Stdlib.List.map (fun (c, i) -> ocaml_of_coq_string c ^ "@" ^ string_of_int (int_of_n i)) vs)));
       if levels_agree p.pd then print_endline "levels ok"
       else print_endline ("levels DIFF model=" ^ (match model_levels p.pd with Some ls -> show ls | None -> "none") ^ " impl=" ^ show (dump_levels p.pd)))
    (fun l -> print_endline l)
