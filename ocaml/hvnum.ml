(* prelude fragment: conversions between OCaml values and extracted Coq
   numbers/strings.  Concatenated after `open <Extracted_module>` by
   hv.common.extract(prelude=[...]); refers to constructors unqualified. *)
let rec pos_of_int i = if i <= 1 then XH else if i land 1 = 1 then XI (pos_of_int (i lsr 1)) else XO (pos_of_int (i lsr 1))
let n_of_int i = if i <= 0 then N0 else Npos (pos_of_int i)
let z_of_int i = if i = 0 then Z0 else if i > 0 then Zpos (pos_of_int i) else Zneg (pos_of_int (- i))
let rec int_of_pos = function XH -> 1 | XO p -> 2 * int_of_pos p | XI p -> 2 * int_of_pos p + 1
let int_of_n = function N0 -> 0 | Npos p -> int_of_pos p
let int_of_z = function Z0 -> 0 | Zpos p -> int_of_pos p | Zneg p -> - (int_of_pos p)
(* arbitrary precision through decimal/hex strings *)
let hexval c = match c with '0'..'9' -> Stdlib.Char.code c - 48 | 'a'..'f' -> Stdlib.Char.code c - 87 | 'A'..'F' -> Stdlib.Char.code c - 55 | _ -> 0
(* bits, least significant first *)
let bits_of_hex s =
  let l = ref [] in
  Stdlib.String.iter (fun c -> let v = hexval c in l := (v land 1 = 1) :: (v land 2 = 2) :: (v land 4 = 4) :: (v land 8 = 8) :: !l) s;
  (* the fold above prepends nibble after nibble: most significant nibble ends first in the list reversed; rebuild *)
  let n = Stdlib.String.length s in
  Stdlib.List.init (4 * n) (fun i -> let c = s.[n - 1 - i / 4] in (hexval c lsr (i mod 4)) land 1 = 1)
let rec pos_of_bits_msb_first bits =
  (* bits most significant first *)
  match bits with
  | [] -> None
  | false :: tl -> pos_of_bits_msb_first tl
  | true :: tl -> Some (Stdlib.List.fold_left (fun acc b -> if b then XI acc else XO acc) XH tl)
let n_of_bits_lsb_first bits = match pos_of_bits_msb_first (Stdlib.List.rev bits) with None -> N0 | Some p -> Npos p
let n_of_hex s = n_of_bits_lsb_first (bits_of_hex s)
let rec bits_of_pos = function XH -> [true] | XO p -> false :: bits_of_pos p | XI p -> true :: bits_of_pos p
let bits_of_n = function N0 -> [] | Npos p -> bits_of_pos p
let hex_of_n n =
  let bits = Stdlib.Array.of_list (bits_of_n n) in
  let nb = Stdlib.Array.length bits in
  if nb = 0 then "0" else begin
    let nn = (nb + 3) / 4 in
    Stdlib.String.init nn (fun k -> let i = nn - 1 - k in
      let v = ref 0 in
      for b = 0 to 3 do if 4 * i + b < nb && bits.(4 * i + b) then v := !v lor (1 lsl b) done;
      "0123456789abcdef".[!v])
  end
(* decimal strings of any size *)
let n_of_dec s =
  (* via repeated halving of the decimal string *)
  let digits = Stdlib.Array.init (Stdlib.String.length s) (fun i -> Stdlib.Char.code s.[i] - 48) in
  let len = Stdlib.Array.length digits in
  let is_zero () = Stdlib.Array.for_all (fun d -> d = 0) digits in
  let bits = ref [] in
  while not (is_zero ()) do
    let carry = ref 0 in
    for i = 0 to len - 1 do
      let v = !carry * 10 + digits.(i) in
      digits.(i) <- v / 2; carry := v mod 2
    done;
    bits := (!carry = 1) :: !bits
  done;
  n_of_bits_lsb_first (Stdlib.List.rev !bits)
let dec_of_n n =
  (* double-and-add over a decimal digit array *)
  let bits = Stdlib.List.rev (bits_of_n n) in
  let digits = ref [0] in
  Stdlib.List.iter (fun b ->
    let carry = ref (if b then 1 else 0) in
    digits := Stdlib.List.map (fun d -> let v = 2 * d + !carry in carry := v / 10; v mod 10) !digits;
    if !carry > 0 then digits := !digits @ [!carry]) bits;
  Stdlib.String.concat "" (Stdlib.List.rev_map string_of_int !digits)
let z_of_dec s = if Stdlib.String.length s > 0 && s.[0] = '-' then (match n_of_dec (Stdlib.String.sub s 1 (Stdlib.String.length s - 1)) with N0 -> Z0 | Npos p -> Zneg p) else (match n_of_dec s with N0 -> Z0 | Npos p -> Zpos p)
let dec_of_z = function Z0 -> "0" | Zpos p -> dec_of_n (Npos p) | Zneg p -> "-" ^ dec_of_n (Npos p)
