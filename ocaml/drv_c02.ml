(* C02 driver: reads the output of harness/hwv_history on stdin.  For every step
   (CALL / RES / dump-or-SAME / check) prints
     STEP <n> <call>            RES ...
     wf ok | wf VIOLATION <clause>@<id> ...          verified checker on the C dump
     levels ok | levels DIFF                         model of hwloc_connect_levels vs the C levels
     hist ok | hist VIOLATION <clause>@<gp> ...      gp_index / userdata history invariants (Api.hist_check, ud_check)
     same 0|1                                        dump identical to the previous one
     model ok | model skip <why> | model DIFF ...    Api.step replayed on tree_of_dump(before) vs the C after-dump
   other lines (echo, check ...) are echoed. *)
let coq_of_string (s : Stdlib.String.t) =
  let r = ref EmptyString in
  for i = Stdlib.String.length s - 1 downto 0 do
    let c = Stdlib.Char.code s.[i] in
    let b k = (c lsr k) land 1 = 1 in
    r := String (Ascii (b 0, b 1, b 2, b 3, b 4, b 5, b 6, b 7), !r)
  done; !r
let opt_str s = if s = "-" then None else Some (coq_of_string s)
let show_viols vs = Stdlib.String.concat " " (Stdlib.List.map (fun (c, i) -> ocaml_of_coq_string c ^ "@" ^ string_of_int (int_of_n i)) vs)
let starts s p = Stdlib.String.length s >= Stdlib.String.length p && Stdlib.String.sub s 0 (Stdlib.String.length p) = p
let field h k = match Stdlib.Hashtbl.find_opt h k with Some v -> v | None -> "-"

(* per-object extras from the raw O line *)
let extras_of (p : parsed_dump) =
  Stdlib.Array.to_list (Stdlib.Array.map (fun line ->
    let h = kv_tbl (split_on ' ' line) in
    let gp = field h "gp" in
    let infos = let s = field h "inf" in
      if s = "-" then [] else Stdlib.List.filter_map (fun pr ->
        (* "n"="v" : names are %-encoded, so the separator is the = between two quotes *)
        match Stdlib.String.index_from_opt pr 1 '"' with
        | Some q when q + 1 < Stdlib.String.length pr && pr.[q + 1] = '=' ->
            Some (coq_of_string (Stdlib.String.sub pr 0 (q + 1)), coq_of_string (Stdlib.String.sub pr (q + 2) (Stdlib.String.length pr - q - 2)))
        | _ -> None) (split_on ';' s) in
    (* kv_tbl splits at the first '=', but inf= values contain '=' : recover the full field *)
    let dm = (try ignore (Str.search_forward (Str.regexp_string "gdontmerge:1") (field h "at") 0); true with Not_found -> false) in
    (n_of_dec (if gp = "*" then "0" else gp),
     { x_name = opt_str (field h "nm"); x_subtype = opt_str (field h "st"); x_infos = infos; x_ud = (field h "ud" = "1"); x_dm = dm }))
    p.raw_objs)

let uds_of ex = Stdlib.List.map (fun (g, x) -> (g, x.x_ud)) ex

let gp_of_id (p : parsed_dump) (id : int) : n option =
  match Stdlib.List.nth_opt p.pd.t_objs id with Some o -> o.o_gp | None -> None

let str_of_result = function
  | RInt v -> "int " ^ dec_of_z v
  | RErr EINVAL -> "err EINVAL" | RErr ENOSYS -> "err ENOSYS"
  | RNull -> "null"
  | RObj (Some g, nw) -> "obj " ^ dec_of_n g ^ (if nw then " new" else " old")
  | RObj (None, nw) -> "obj ?"
  | RNoObj -> "noobj" | RUnmodelled -> "unmodelled"

(* expected result string from the RES line, in the same vocabulary *)
let expected_of (call : Stdlib.String.t) (res : Stdlib.String.t) =
  let h = kv_tbl (split_on ' ' res) in
  let w = split_on ' ' res in
  let second = match w with _ :: x :: _ -> x | _ -> "" in
  if starts call "CALL group" || starts call "CALL misc" then begin
    if second = "null" then (if starts call "CALL misc" then "err " ^ field h "errno" else
      (if field h "errno" = "EINVAL" then "err EINVAL" else "null"))
    else if second = "inserted" || second = "ok" then "obj " ^ field h "gp" ^ " new"
    else if second = "merged" then "obj " ^ field h "gp" ^ " old"
    else if second = "freed" then "int " ^ field h "rc"
    else "?" ^ second
  end else begin
    if field h "rc" = "-1" then "err " ^ field h "errno" else "int " ^ field h "rc"
  end

let set_of s = bset_of_text s

let model_step (before : parsed_dump) (after : parsed_dump) (call : Stdlib.String.t) (res : Stdlib.String.t) : Stdlib.String.t =
  let h = kv_tbl (split_on ' ' call) in
  let rh = kv_tbl (split_on ' ' res) in
  let ex = extras_of before in
  let exa = extras_of after in
  let gp_field k = match int_of_string_opt (field h k) with Some id -> gp_of_id before id | None -> None in
  let next_gp_default = n_of_int (int_of_n (max_gp before.pd) + 1) in
  let mk next = topo_of_dump before.pd next false [] ex in
  let kind = match split_on ' ' call with _ :: k :: _ -> k | _ -> "" in
  let build : (call * n) option =
    match kind with
    | "misc" -> (match gp_field "parent" with
        | Some g -> let ng = (match Stdlib.Hashtbl.find_opt rh "gp" with Some v -> n_of_dec v | None -> next_gp_default) in
                    Some (CMisc (g, opt_str (field h "name")), ng)
        | None -> None)
    | "allow" -> Some (CAllow (n_of_dec (field h "flags"), set_of (field h "cpuset"), set_of (field h "nodeset")), next_gp_default)
    | "group" ->
        if field h "alloc" = "null" then None else
        let g = { g_cs = set_of (field h "cs"); g_ccs = set_of (field h "ccs"); g_nds = set_of (field h "ns"); g_cnds = set_of (field h "cns");
                  g_dm = (field h "dm" <> "0"); g_kind = n_of_dec (field h "kind"); g_subkind = n_of_dec (field h "sub");
                  g_ud = (field h "ud" = "1"); g_subtype = opt_str (field h "st") } in
        let free = Stdlib.List.mem "free" (split_on ' ' call) in
        Some ((if free then CGroupFree g else CGroup g), n_of_dec (field h "gp"))
    | "info_add" -> (match gp_field "obj" with Some g -> Some (CInfoAdd (g, opt_str (field h "name"), opt_str (field h "value")), next_gp_default) | None -> None)
    | "info_mod" -> (match gp_field "obj" with Some g -> Some (CInfoMod (g, n_of_dec (field h "op"), opt_str (field h "name"), opt_str (field h "value")), next_gp_default) | None -> None)
    | "subtype" -> (match gp_field "obj" with Some g -> Some (CSubtype (g, opt_str (field h "st")), next_gp_default) | None -> None)
    | _ -> None in
  match build with
  | None -> "model skip unmodelled-call"
  | Some (c, next) ->
    match mk next with
    | None -> "model skip no-tree"
    | Some t ->
      let (t', r) = step t c in
      let rs = str_of_result r in
      if rs = "unmodelled" || rs = "noobj" then "model skip " ^ rs else begin
        let exp = expected_of call res in
        let problems = ref [] in
        if rs <> exp then problems := ("result model=[" ^ rs ^ "] impl=[" ^ exp ^ "]") :: !problems;
        (match compare_with_dump t' after.pd with
         | None -> ()
         | Some k -> problems := ("tree-or-allowed-sets differ at dfs position " ^ string_of_int (int_of_n k)) :: !problems);
        (* extras of every object of the after dump: infos, subtype, userdata, dont_merge *)
        Stdlib.List.iter (fun (g, xa) ->
          let xm = get_extra t'.m_extra g in
          if xm.x_infos <> xa.x_infos then problems := ("infos of gp " ^ dec_of_n g) :: !problems;
          if xm.x_subtype <> xa.x_subtype && kind = "subtype" then problems := ("subtype of gp " ^ dec_of_n g) :: !problems;
          if xm.x_ud <> xa.x_ud then problems := ("userdata of gp " ^ dec_of_n g) :: !problems;
          if xm.x_dm <> xa.x_dm then problems := ("dont_merge of gp " ^ dec_of_n g) :: !problems) exa;
        (* total_memory of every object (propagate_total_memory after a Group insertion) *)
        if kind = "group" then
          Stdlib.List.iter (fun (o : dobj) ->
            match o.o_gp with
            | Some g -> (match tm_of t' g with
                         | Some a -> if a <> o.o_tm then problems := ("total_memory of gp " ^ dec_of_n g) :: !problems
                         | None -> ())
            | None -> ()) after.pd.t_objs;
        if !problems = [] then "model ok " ^ rs else "model DIFF " ^ Stdlib.String.concat " ; " (Stdlib.List.rev !problems)
      end

let () =
  let prev : parsed_dump option ref = ref None in
  let call = ref "" and res = ref "" and stepno = ref 0 in
  let finish (cur : parsed_dump) (same : bool) =
    print_endline ("STEP " ^ string_of_int !stepno ^ " " ^ !call);
    print_endline !res;
    (match wf_check cur.pd with
     | [] -> print_endline "wf ok"
     | vs ->
         (* "objects=memory" when every reported object is a NUMA node or a MemCache *)
         let is_mem (_, i) = match Stdlib.List.nth_opt cur.pd.t_objs (int_of_n i) with
           | Some o -> let t = int_of_n o.o_type in t = 14 || t = 15 | None -> false in
         (* "sets=offline" when some object's complete_cpuset differs from its cpuset (offline / disallowed PUs) *)
         let offline = Stdlib.List.exists (fun (o : dobj) -> o.o_ccs <> o.o_cs) cur.pd.t_objs in
         print_endline ("wf VIOLATION " ^ show_viols vs ^ (if Stdlib.List.for_all is_mem vs then " objects=memory" else "")
                        ^ (if offline then " sets=offline" else "")));
    if same || levels_agree cur.pd then print_endline "levels ok" else print_endline "levels DIFF";
    (match !prev with
     | Some b when not same && not (starts !call "CALL reload") ->
         let may_remove = starts !call "CALL restrict" && starts !res "RES rc=0" in
         let dms = Stdlib.List.filter_map (fun (g, x) -> if x.x_dm then Some g else None) (extras_of b) in
         let vs = (if group_depth_check b.pd = [] then group_depth_check cur.pd else []) @ hist_check b.pd cur.pd may_remove @ (if may_remove then dm_vanish_check b.pd cur.pd dms else []) @ (if starts !call "CALL ud" then [] else ud_check (uds_of (extras_of b)) (uds_of (extras_of cur))) in
         (* identity attributes (name, subtype, infos) of every object present before and after, by gp_index:
            only the call's own target may change them (info/subtype calls; the object a Group was merged into) *)
         let hc = kv_tbl (split_on ' ' !call) and hr = kv_tbl (split_on ' ' !res) in
         let target =
           if starts !call "CALL info_" || starts !call "CALL subtype" then
             (match int_of_string_opt (field hc "obj") with Some id -> gp_of_id b id | None -> None)
           else if starts !call "CALL group" then (match Stdlib.Hashtbl.find_opt hr "gp" with Some v -> Some (n_of_dec v) | None -> None)
           else None in
         let exb = extras_of b in
         let ident = Stdlib.List.filter_map (fun (g, xa) ->
           if Some g = target then None else
           match Stdlib.List.assoc_opt g exb with
           | Some xb when xb.x_name <> xa.x_name || xb.x_subtype <> xa.x_subtype || xb.x_infos <> xa.x_infos ->
               Some ("identity-attrs-changed@" ^ dec_of_n g)
           | _ -> None) (extras_of cur) in
         (* Group attributes (kind, subkind, dont_merge) of every object present before and after, by gp_index: no call may
            change them (an in-place replacement by an inserted Group does) *)
         let gattrs = Stdlib.List.filter_map (fun (o : dobj) ->
           match o.o_gp with
           | Some g -> (match find_by_gp b.pd g with
                        | Some ob when ob.o_type = o.o_type &&
                                       (ob.o_group_kind <> o.o_group_kind || ob.o_group_subkind <> o.o_group_subkind
                                        || (get_extra exb g).x_dm <> (get_extra (extras_of cur) g).x_dm) ->
                            Some ("group-attrs-changed@" ^ dec_of_n g)
                        | _ -> None)
           | None -> None) cur.pd.t_objs in
         let ident = ident @ gattrs in
         (* kinds (before the call) of the Groups whose userdata / identity / Group attributes changed *)
         let changed_gps = Stdlib.List.filter_map (fun tok ->
             match Stdlib.String.index_opt tok '@' with
             | Some i -> Some (n_of_dec (Stdlib.String.sub tok (i + 1) (Stdlib.String.length tok - i - 1)))
             | None -> None) ident
           @ Stdlib.List.filter_map (fun (c, g) -> if ocaml_of_coq_string c = "userdata-changed" then Some g else None) vs in
         let ck = Stdlib.List.sort_uniq compare (Stdlib.List.filter_map (fun g ->
             match find_by_gp b.pd g with Some ob when int_of_n ob.o_type = 13 -> Some (dec_of_z ob.o_group_kind) | _ -> None) changed_gps) in
         (* Groups that vanished in a call that is not a restrict: their kinds (the defect known so far only
            replaces a Group of strictly LARGER kind) *)
         let vk = if may_remove then [] else Stdlib.List.filter_map (fun (o : dobj) ->
           match o.o_gp with
           | Some g when find_by_gp cur.pd g = None -> Some (dec_of_z o.o_group_kind)
           | _ -> None) b.pd.t_objs in
         let tail = (if ident = [] then "" else " " ^ Stdlib.String.concat " " ident)
                    ^ (if vk = [] then "" else " vanished-group-kinds=" ^ Stdlib.String.concat "," vk)
                    ^ (if ck = [] then "" else " changed-group-kinds=" ^ Stdlib.String.concat "," ck) in
         if vs = [] && ident = [] then print_endline "hist ok" else print_endline ("hist VIOLATION " ^ show_viols vs ^ tail)
     | _ -> print_endline "hist ok");
    print_endline (if same then "same 1" else "same 0");
    (match !prev with
     | Some b when !call <> "CALL load" -> print_endline (try model_step b cur !call !res with e -> "model skip exception " ^ Printexc.to_string e)
     | _ -> print_endline "model skip first");
    prev := Some cur; incr stepno in
  read_blocks stdin
    (fun lines -> finish (parse_dump_lines lines) false)
    (fun l ->
       if starts l "CALL " then call := l
       else if starts l "RES " then res := l
       else if l = "SAME" then (match !prev with Some p -> finish p true | None -> print_endline "SAME without previous dump")
       else if l = "nodump" then (print_endline ("STEP " ^ string_of_int !stepno ^ " " ^ !call); print_endline !res; print_endline "nodump"; incr stepno)
       else begin
         if starts l "new " then (prev := None; stepno := 0);
         print_endline l
       end)
