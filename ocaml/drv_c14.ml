(* C14 model driver: reads the model script (see harness/hwv_memattrs.c for the
   format), runs the extracted model (Attr/Memattrs.v: init_state, step) and
   prints the same canonical "R ..." lines as the C harness. *)
open C14_model

(* ---- numbers: arbitrary size, via bit lists (lsb first) ---- *)
let rec n_of_bits_pos = function
  | [] -> None
  | b :: r -> (match n_of_bits_pos r with
               | None -> if b then Some XH else None
               | Some p -> Some (if b then XI p else XO p))
let n_of_bits l = match n_of_bits_pos l with None -> N0 | Some p -> Npos p
let rec bits_of_pos = function XH -> [true] | XO p -> false :: bits_of_pos p | XI p -> true :: bits_of_pos p
let bits_of_n = function N0 -> [] | Npos p -> bits_of_pos p

let bits_of_dec (s : string) : bool list =
  if s = "" then failwith "empty number";
  String.iter (fun c -> if c < '0' || c > '9' then failwith ("bad number " ^ s)) s;
  let d = Array.init (String.length s) (fun i -> Char.code s.[i] - 48) in
  let is_zero () = Array.for_all (fun x -> x = 0) d in
  let acc = ref [] in
  while not (is_zero ()) do
    let carry = ref 0 in
    for i = 0 to Array.length d - 1 do
      let v = !carry * 10 + d.(i) in
      d.(i) <- v / 2; carry := v mod 2
    done;
    acc := (!carry = 1) :: !acc
  done;
  List.rev !acc
let dec_of_bits (bits : bool list) : string =
  let d = ref [0] in (* little endian decimal digits *)
  List.iter (fun b ->
      let carry = ref (if b then 1 else 0) in
      d := List.map (fun x -> let v = 2 * x + !carry in carry := v / 10; v mod 10) !d;
      if !carry > 0 then d := !d @ [!carry]) (List.rev bits);
  String.concat "" (List.rev_map string_of_int !d)
let n_of_dec s = if s = "-1" then failwith "-1 not allowed here" else n_of_bits (bits_of_dec s)
let dec_of_n n = dec_of_bits (bits_of_n n)

let hexval c = match c with
  | '0'..'9' -> Char.code c - 48 | 'a'..'f' -> Char.code c - 87 | 'A'..'F' -> Char.code c - 55
  | _ -> failwith "bad hex"
let bits_of_hex (s : string) : bool list =
  let n = String.length s in
  if n < 3 || s.[0] <> '0' || s.[1] <> 'x' then failwith ("bad set " ^ s);
  let acc = ref [] in
  for i = n - 1 downto 2 do
    let v = hexval s.[i] in
    acc := !acc @ [v land 1 = 1; v land 2 = 2; v land 4 = 4; v land 8 = 8]
  done;
  !acc
let hex_of_bits (bits : bool list) : string =
  let a = Array.of_list bits in
  let n = Array.length a in
  let nd = (n + 3) / 4 in
  if nd = 0 then "0x0" else begin
    let b = Buffer.create 16 in
    let started = ref false in
    for k = nd - 1 downto 0 do
      let v = ref 0 in
      for j = 3 downto 0 do
        let i = 4 * k + j in
        v := 2 * !v + (if i < n && a.(i) then 1 else 0)
      done;
      if !v <> 0 || !started || k = 0 then begin started := true; Buffer.add_char b "0123456789abcdef".[!v] end
    done;
    "0x" ^ Buffer.contents b
  end
let set_of_hex s = { fin = n_of_bits (bits_of_hex s); inf = false }
let hex_of_set (s : bset) = if s.inf then "INF" else hex_of_bits (bits_of_n s.fin)

let raw_bytes_of_string s = List.init (String.length s) (fun i -> n_of_bits (bits_of_dec (string_of_int (Char.code s.[i]))))
let rec int_of_bits = function [] -> 0 | b :: r -> (if b then 1 else 0) + 2 * int_of_bits r
let raw_string_of_bytes l = String.concat "" (List.map (fun x -> String.make 1 (Char.chr (int_of_bits (bits_of_n x) land 255))) l)
(* attribute names in scripts: bytes other than [A-Za-z0-9_.+-] are written %XX, "@empty" is the empty name *)
let is_hex c = (c >= '0' && c <= '9') || (c >= 'a' && c <= 'f') || (c >= 'A' && c <= 'F')
let decode_name (t : string) : string =
  if t = "@empty" then "" else begin
    let b = Buffer.create 16 in
    let n = String.length t in
    let i = ref 0 in
    while !i < n do
      if t.[!i] = '%' && !i + 2 < n && is_hex t.[!i + 1] && is_hex t.[!i + 2] then begin
        Buffer.add_char b (Char.chr (int_of_string ("0x" ^ String.sub t (!i + 1) 2))); i := !i + 3
      end else begin Buffer.add_char b t.[!i]; incr i end
    done;
    Buffer.contents b
  end
let encode_name (s : string) : string =
  if s = "" then "@empty" else
  String.concat "" (List.init (String.length s) (fun i ->
    let c = s.[i] in
    if (c >= 'a' && c <= 'z') || (c >= 'A' && c <= 'Z') || (c >= '0' && c <= '9') || c = '_' || c = '.' || c = '+' || c = '-'
    then String.make 1 c else Printf.sprintf "%%%02X" (Char.code c)))
let bytes_of_string s = raw_bytes_of_string (decode_name s)
let string_of_bytes l = encode_name (raw_string_of_bytes l)

(* ---- script ---- *)

exception Badcase

let cur_objs : obj list ref = ref []        (* objects of the current topology *)
let pend_root = ref bs_empty
let pend_objs : obj list ref = ref []

let find_obj gp =
  let g = n_of_dec gp in
  match List.filter (fun o -> o.o_gp = g) !cur_objs with
  | o :: _ -> o
  | [] -> raise Badcase
let tgt_of s = if s = "-" then None else Some (find_obj s)
let loc_of s : location option =
  if s = "-" then None
  else if s = "n" then Some (LCpu None)
  else if s = "b" then Some LBad
  else if s = "on" then Some LObjNull
  else if String.length s > 2 && String.sub s 0 2 = "c:" then Some (LCpu (Some (set_of_hex (String.sub s 2 (String.length s - 2)))))
  else if String.length s > 2 && String.sub s 0 2 = "o:" then Some (LObj (find_obj (String.sub s 2 (String.length s - 2))))
  else raise Badcase
let iloc_of s : iloc option =
  if s = "-" then None
  else if String.length s > 2 && String.sub s 0 2 = "c:" then Some (ICpu (set_of_hex (String.sub s 2 (String.length s - 2))))
  else match String.split_on_char ':' s with
    | ["oi"; ty; gp] -> Some (IObj (n_of_dec ty, n_of_dec gp))
    | _ -> raise Badcase
let signed none s = if s = "-1" then none else n_of_dec s
let bool01 s = (s <> "0")

let err_s = function EINVAL -> "EINVAL" | EBUSY -> "EBUSY" | ENOENT -> "ENOENT" | EUB -> "UNINIT"
let pr_res name (r : 'a res) (payload : 'a -> string) =
  match r with
  | Ok a -> let p = payload a in Printf.printf "R %s rc=0 err=OK%s\n" name (if p = "" then "" else " " ^ p)
  | Err EUB -> Printf.printf "R %s rc=UB err=UNINIT\n" name
  | Err e -> Printf.printf "R %s rc=-1 err=%s\n" name (err_s e)
let iloc_s = function ICpu c -> "c:" ^ hex_of_set c | IObj (t, g) -> Printf.sprintf "o:%s:%s" (dec_of_n t) (dec_of_n g)
let lst l = "[" ^ String.concat " " l ^ "]"

let print_out name wantvalues (o : out) =
  match o with
  | RUnit r -> pr_res name r (fun () -> "")
  | RNum r -> pr_res name r (fun v ->
      (match name with "reg" | "getbyname" -> "id=" | "getflags" -> "flags=" | _ -> "v=") ^ dec_of_n v)
  | RName r -> pr_res name r (fun v -> "name=" ^ string_of_bytes v)
  | RTargets r -> pr_res name r (fun (nr, l) ->
      Printf.sprintf "nr=%s %s" (dec_of_n nr)
        (lst (List.map (fun (g, v) -> dec_of_n g ^ ":" ^ (if wantvalues then dec_of_n v else "-")) l)))
  | RInits r -> pr_res name r (fun (nr, l) ->
      Printf.sprintf "nr=%s %s" (dec_of_n nr)
        (lst (List.map (fun (i, v) -> iloc_s i ^ "=" ^ (if wantvalues then dec_of_n v else "-")) l)))
  | RBestT r -> pr_res name r (fun (g, v) -> Printf.sprintf "gp=%s v=%s" (dec_of_n g) (dec_of_n v))
  | RBestI r -> pr_res name r (fun (i, v) -> Printf.sprintf "i=%s v=%s" (iloc_s i) (dec_of_n v))
  | RNodes r -> pr_res name r (fun (nr, l) -> Printf.sprintf "nr=%s %s" (dec_of_n nr) (lst (List.map dec_of_n l)))
  | RSet r -> pr_res name r (fun s -> "set=" ^ hex_of_set s)

let state : mstate option ref = ref None
let incl = ref false
let nomem = ref false
let case_name = ref ""
let take_topo () =
  let t = { t_root = !pend_root; t_objs = List.rev !pend_objs } in
  cur_objs := t.t_objs; pend_objs := []; t

let do_op name wantvalues (o : op) =
  match !state with
  | None -> Printf.printf "R %s rc=-1 err=BADCASE\n" name
  | Some s -> let (s', r) = step s o in state := Some s'; print_out name wantvalues r

let handle (l : string) =
  let w = List.filter (fun x -> x <> "") (String.split_on_char ' ' l) in
  match w with
  | [] -> ()
  | "case" :: rest -> incl := false; nomem := false; state := None; pend_objs := []; cur_objs := []; case_name := String.concat " " rest
  | ["T"; "begin"] -> pend_objs := []
  | ["T"; "root"; c] -> pend_root := set_of_hex c
  | ["T"; "obj"; ty; gp; os; has; c; m; sub] ->
    pend_objs := { o_type = n_of_dec ty; o_gp = n_of_dec gp; o_os = signed os_none os; o_hascpuset = bool01 has;
                   o_cpuset = set_of_hex c; o_mem = n_of_dec m; o_subtype = n_of_dec sub } :: !pend_objs
  | ["T"; "end"] -> ()
  | ["incl"; v] -> incl := bool01 v
  | ["nomem"; v] -> nomem := bool01 v
  | ["start"] -> state := Some ((if !nomem then init_state_nomem else init_state) (take_topo ()))
  | ["end"] -> Printf.printf "E %s\n" !case_name
  | op :: args ->
    (try
      match op, args with
      | "reg", ["@null"; f] -> do_op op true (ORegisterNull (n_of_dec f))
      | "reg", [name; f] -> do_op op true (ORegister (bytes_of_string name, n_of_dec f))
      | "getbyname", [name] -> do_op op true (OGetByName (bytes_of_string name))
      | "getname", [id] -> do_op op true (OGetName (n_of_dec id))
      | "getflags", [id] -> do_op op true (OGetFlags (n_of_dec id))
      | "set", [id; t; i; f; v] -> do_op op true (OSet (n_of_dec id, tgt_of t, loc_of i, n_of_dec f, n_of_dec v))
      | "iset", [id; ty; gp; os; i; v] ->
        do_op op true (OISet (n_of_dec id, n_of_dec ty, signed gp_none gp, signed os_none os, iloc_of i, n_of_dec v))
      | "get", [id; t; i; f] -> do_op op true (OGet (n_of_dec id, tgt_of t, loc_of i, n_of_dec f))
      | "targets", [id; i; f; m; tn; wv] -> do_op op (bool01 wv) (OTargets (n_of_dec id, loc_of i, n_of_dec f, n_of_dec m, bool01 tn))
      | "inits", [id; t; f; m; inl; wv] -> do_op op (bool01 wv) (OInits (n_of_dec id, tgt_of t, n_of_dec f, n_of_dec m, bool01 inl))
      | "bestt", [id; i; f] -> do_op op true (OBestT (n_of_dec id, loc_of i, n_of_dec f))
      | "besti", [id; t; f] -> do_op op true (OBestI (n_of_dec id, tgt_of t, n_of_dec f))
      | "local", [lc; f; m; nn] -> do_op op true (OLocal (loc_of lc, n_of_dec f, n_of_dec m, bool01 nn))
      | "defnodes", [f] -> do_op op true (ODefNodes (n_of_dec f))
      | "allow", [c; n; f] ->
        let so x = if x = "-" then None else Some (set_of_hex x) in
        do_op op true (OAllow (!incl, so c, so n, n_of_dec f))
      | "retopo", [] -> let t = take_topo () in do_op "restrict" true (ORetopo t)
      | "dupsw", [] -> let _ = take_topo () in do_op "dup" true ODup
      | "xmlsw", [] -> let t = take_topo () in do_op "xml" true (if !nomem then OXmlNoMem t else OXml t)
      | "xmlnfsw", [] -> let t = take_topo () in
        if !nomem then begin do_op "xmlnf" true (OXmlFromNoMem t); nomem := false end else do_op "xmlnf" true (OXml t)
      | "xmltsw", [] -> let t = take_topo () in do_op "xmlt" true (if !nomem then OXmlNoMem t else OXml t)
      | _ -> Printf.printf "R %s rc=-1 err=BADCASE\n" op
    with Badcase | Failure _ -> Printf.printf "R %s rc=-1 err=BADCASE\n" op)

let () =
  try while true do
    let l = String.trim (input_line stdin) in
    if l <> "" && l.[0] <> '#' then handle l
  done with End_of_file -> ()
