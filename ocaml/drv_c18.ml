(* C18 driver.  argv[1]:
   parse   stdin: "mask <hex|->" / "list <hex|->" lines; prints "<kind> <n> parsed <set>" | "<kind> <n> ub|oob|nofuel"
   print   stdin: "pmask <nchunks> <hex f>" / "plist <hex f>"; prints the hex bytes of the Coq printers' text
   dumps   stdin: output of harness/hwv_snapshot.c.  For every dump block prints
             "wf ok" | "wf VIOLATION <clause>@<id> ..."     verified checker wf_check
             "levels ok" | "levels DIFF ..."                model of hwloc_connect_levels vs the C levels
           and keeps the block as "the last dump".  Directive lines (written by the script through echo):
             "echo NAME <x>"          names the last dump <x>   (a missing dump = no topology)
             "echo SAME <x> <y>"      prints "same <x> <y> ok" | "same <x> <y> DIFF <first differing line pair>" | "... SKIP"
             "echo DISALLOWED <d> <i>" prints "disallowed ok" | "disallowed VIOLATION <clause>@<os> ..." | "disallowed SKIP"
           other lines are echoed. *)
let bytes_of_hex h =
  if h = "-" then [] else
  Stdlib.List.init (Stdlib.String.length h / 2) (fun i -> n_of_int (int_of_string ("0x" ^ Stdlib.String.sub h (2 * i) 2)))
let hex_of_bytes l = Stdlib.String.concat "" (Stdlib.List.map (fun b -> Printf.sprintf "%02x" (int_of_n b)) l)
let rec nat_of_int i = if i <= 0 then O else S (nat_of_int (i - 1))
let show_outcome = function
  | Parsed s -> "parsed " ^ text_of_bset (Some s)
  | OutOfBounds -> "oob" | NoFuel -> "nofuel" | SignedOverflow -> "ub"
let show ls = Stdlib.String.concat "|" (Stdlib.List.map (fun l -> Stdlib.String.concat "," (Stdlib.List.map (fun i -> string_of_int (int_of_n i)) l)) ls)

let mode_parse () =
  let n = ref 0 in
  (try while true do
    let l = input_line stdin in
    if l <> "" then begin
      (match Stdlib.String.split_on_char ' ' l with
       | ["mask"; h] -> Printf.printf "mask %d %s\n" !n (show_outcome (cpumask_parse (bytes_of_hex h)))
       | ["list"; h] -> Printf.printf "list %d %s\n" !n (show_outcome (cpulist_parse (bytes_of_hex h)))
       | _ -> print_endline "bad-line");
      incr n
    end
  done with End_of_file -> ())

let mode_print () =
  (try while true do
    let l = input_line stdin in
    (match Stdlib.String.split_on_char ' ' l with
     | ["pmask"; k; h] -> print_endline (hex_of_bytes (print_cpumask (nat_of_int (int_of_string k)) (n_of_hex h)))
     | ["plist"; h] -> print_endline (hex_of_bytes (print_cpulist (n_of_hex h)))
     | _ -> print_endline "bad-line")
  done with End_of_file -> ())

(* ---- model of look_sysfsnode (coq/Text/LinuxNode.v) against the traced requests ---- *)
let file_of_hex h = if h = "-empty" then Some [] else Some (bytes_of_hex h)
let name_of_hex h = if h = "-" then [] else bytes_of_hex h
type nb = { mutable os : int; mutable cpumap : n list option; mutable distance : n list option;
            mutable msc : msc_files list option; mutable a1 : n list list option; mutable a0 : n list list option }
let ln_cfg = ref None and ln_online = ref None and ln_dir = ref (Some []) and ln_nodes = ref [] and ln_view = ref None and ln_gpus = ref []
let mreqs = ref []
let kv_of line = kv_tbl (split_on ' ' line)
let show_set (s : bset) = text_of_bset (Some s)
let show_req (m : mreq) = Printf.sprintf "ty=%d os=%d cs=%s ns=%s cd=%d csz=%s" (int_of_n m.r_type) (int_of_n m.r_os) (show_set m.r_cs) (show_set m.r_ns) (int_of_n m.r_depth) (dec_of_n m.r_size)
let handle_lnode line =
  match split_on ' ' line with
  | "lnode" :: "begin" :: _ -> ln_cfg := Some (kv_of line); ln_online := None; ln_dir := Some []; ln_nodes := []; ln_view := None; mreqs := []; ln_gpus := []
  | ["lnode"; "online"; h] -> ln_online := file_of_hex h
  | ["lnode"; "gpu"; _] -> ln_gpus := { g_status = None; g_local = None } :: !ln_gpus
  | ["lnode"; "gf"; "status"; h] -> (match !ln_gpus with g :: t -> ln_gpus := { g with g_status = file_of_hex h } :: t | [] -> ())
  | ["lnode"; "gf"; "local"; h] -> (match !ln_gpus with g :: t -> ln_gpus := { g with g_local = file_of_hex h } :: t | [] -> ())
  | ["lnode"; "nodir"] -> ln_dir := None
  | ["lnode"; "dir"; h] -> (match !ln_dir with Some l -> ln_dir := Some (l @ [name_of_hex h]) | None -> ())
  | ["lnode"; "node"; n] -> ln_nodes := { os = int_of_string n; cpumap = None; distance = None; msc = None; a1 = None; a0 = None } :: !ln_nodes
  | ["lnode"; "f"; _; "cpumap"; h] -> (match !ln_nodes with nb :: _ -> nb.cpumap <- file_of_hex h | [] -> ())
  | ["lnode"; "f"; _; "distance"; h] -> (match !ln_nodes with nb :: _ -> nb.distance <- file_of_hex h | [] -> ())
  | ["lnode"; "mdir"; _] -> (match !ln_nodes with nb :: _ -> nb.msc <- Some [] | [] -> ())
  | ["lnode"; "m"; _; h] -> (match !ln_nodes with nb :: _ -> (match nb.msc with Some l -> nb.msc <- Some (l @ [{ m_name = name_of_hex h; m_size = None; m_line = None; m_indexing = None }]) | None -> ()) | [] -> ())
  | ["lnode"; "mf"; _; which; h] ->
      (match !ln_nodes with
       | nb :: _ -> (match nb.msc with
                     | Some l when l <> [] ->
                         let r = Stdlib.List.rev l in
                         let last = Stdlib.List.hd r in
                         let last' = (match which with
                                      | "size" -> { last with m_size = file_of_hex h }
                                      | "line_size" -> { last with m_line = file_of_hex h }
                                      | _ -> { last with m_indexing = file_of_hex h }) in
                         nb.msc <- Some (Stdlib.List.rev (last' :: Stdlib.List.tl r))
                     | _ -> ())
       | [] -> ())
  | ["lnode"; "adir"; _; k] -> (match !ln_nodes with nb :: _ -> if k = "1" then nb.a1 <- Some [] else nb.a0 <- Some [] | [] -> ())
  | ["lnode"; "a"; _; k; h] ->
      (match !ln_nodes with
       | nb :: _ -> if k = "1" then (match nb.a1 with Some l -> nb.a1 <- Some (l @ [name_of_hex h]) | None -> ())
                    else (match nb.a0 with Some l -> nb.a0 <- Some (l @ [name_of_hex h]) | None -> ())
       | [] -> ())
  | ["lnode"; "end"] ->
      (match !ln_cfg with
       | Some h ->
           let g k = Stdlib.Hashtbl.find h k in
           let b k = g k <> "0" in
           let view = { nv_dist = b "dist"; nv_dcl = b "dcl"; nv_init = b "init"; nv_knl = b "knl" && b "knlquirk"; nv_fake = b "fake"; nv_msc = b "msc";
                        nv_overlap = (if g "overlap" = "-" then None else Some (z_of_int (int_of_string (g "overlap"))));
                        nv_nvidia = b "nvidia"; nv_keep = b "keep"; nv_pus = (match bset_of_text (g "pus") with Some x -> x | None -> { fin = N0; inf = false }); nv_gpus = Stdlib.List.rev !ln_gpus; nv_online = !ln_online; nv_dir = !ln_dir;
                        nv_nodes = Stdlib.List.rev_map (fun nb -> { nf_os = n_of_int nb.os; nf_cpumap = nb.cpumap; nf_distance = nb.distance;
                                                                    nf_msc = nb.msc; nf_acc1 = nb.a1; nf_acc0 = nb.a0 }) !ln_nodes } in
           ln_view := Some (view, b "rootnodes")
       | None -> ())
  | _ -> ()
let handle_mreq line =
  let h = kv_of line in
  let g k = Stdlib.Hashtbl.find h k in
  mreqs := !mreqs @ [((((((n_of_dec (g "ty"), n_of_dec (g "os")), bset_of_text (g "cs")), bset_of_text (g "ns")), n_of_dec (g "cd")), n_of_dec (g "csz")))]
(* at the end of a load: verdict lines *)
let judge_lnode () =
  (match !ln_view with
   | None -> ()
   | Some (view, rootnodes) ->
       let obs = !mreqs in
       if rootnodes then print_endline "lnode ESCAPE preexisting-nodes"
       else (match linux_node_requests view with
             | Unmodelled why -> print_endline ("lnode ESCAPE " ^ ocaml_of_coq_string why)
             | Requests ms ->
                 (* the request invariants (theorems of Props/Properties_C18.v) on what the C code requested; only on the modelled path:
                    the KNL quirk inserts its caches and nodes in another order *)
                 print_endline (if chain_ok obs then "mreqs chain ok" else "mreqs chain BAD");
                 (* when no NUMA node was found the core adds its default node afterwards: not a request of the backend *)
                 let has_numa = Stdlib.List.exists (fun (m : mreq) -> int_of_n m.r_type = 14) ms in
                 let obs = if (not has_numa) && Stdlib.List.length obs = Stdlib.List.length ms + 1 then Stdlib.List.filteri (fun i _ -> i < Stdlib.List.length ms) obs else obs in
                 (match first_mismatch ms obs O with
                  | None -> Printf.printf "lnode ok n=%d\n" (Stdlib.List.length ms)
                  | Some k ->
                      let rec nat_to_int = function O -> 0 | S n -> 1 + nat_to_int n in
                      let k = nat_to_int k in
                      let sm = (match Stdlib.List.nth_opt ms k with Some m -> show_req m | None -> "<none>") in
                      let so = (match Stdlib.List.nth_opt obs k with
                                | Some (((((ty, os), cs), ns), cd), csz) -> Printf.sprintf "ty=%d os=%d cs=%s ns=%s cd=%d csz=%s" (int_of_n ty) (int_of_n os) (text_of_bset cs) (text_of_bset ns) (int_of_n cd) (dec_of_n csz)
                                | None -> "<none>") in
                      Printf.printf "lnode DIFF at=%d nmodel=%d nimpl=%d model=[%s] impl=[%s]\n" k (Stdlib.List.length ms) (Stdlib.List.length obs) sm so)));
  ln_view := None; ln_cfg := None; mreqs := []

let mode_dumps () =
  let last = ref None in
  let named = Stdlib.Hashtbl.create 16 in
  read_blocks stdin
    (fun lines ->
       let p = parse_dump_lines lines in
       last := Some (p, lines);
       (match wf_check p.pd with
        | [] -> print_endline "wf ok"
        | vs -> print_endline ("wf VIOLATION " ^ Stdlib.String.concat " " (Stdlib.List.map (fun (c, i) -> ocaml_of_coq_string c ^ "@" ^ string_of_int (int_of_n i)) vs)));
       if levels_agree p.pd then print_endline "levels ok"
       else print_endline ("levels DIFF model=" ^ (match model_levels p.pd with Some ls -> show ls | None -> "none") ^ " impl=" ^ show (dump_levels p.pd)))
    (fun l ->
       match Stdlib.String.split_on_char ' ' l with
       | ["echo"; "NAME"; x] -> Stdlib.Hashtbl.replace named x !last; last := None
       | ["echo"; "RESET"] -> Stdlib.Hashtbl.reset named; last := None; print_endline l
       | ["echo"; "SAME"; x; y] ->
           (match Stdlib.Hashtbl.find_opt named x, Stdlib.Hashtbl.find_opt named y with
            | Some (Some (_, a)), Some (Some (_, b)) ->
                if a = b then Printf.printf "same %s %s ok\n" x y
                else begin
                  (* every differing line: "O<id> ty=<t> <field=a->field=b> ..." (other lines verbatim), at most 8 *)
                  let dif_fields u v =
                    let fu = Stdlib.String.split_on_char ' ' u and fv = Stdlib.String.split_on_char ' ' v in
                    if Stdlib.List.length fu <> Stdlib.List.length fv then u ^ " -> " ^ v else begin
                      let rec dif a b = match a, b with
                        | p :: ta, q :: tb -> if p = q then dif ta tb else (p ^ "->" ^ q) :: dif ta tb
                        | _, _ -> [] in
                      let head = (match fu with k :: i :: ty :: _ when k = "O" -> "O" ^ i ^ " " ^ ty | k :: i :: _ -> k ^ i | _ -> "?") in
                      head ^ " " ^ Stdlib.String.concat " " (dif fu fv)
                    end in
                  let rec all a b n = if n = 0 then ["..."] else match a, b with
                    | u :: ta, v :: tb -> if u = v then all ta tb n else dif_fields u v :: all ta tb (n - 1)
                    | u :: _, [] -> ["<end> vs " ^ u] | [], v :: _ -> ["<end> vs " ^ v] | [], [] -> [] in
                  Printf.printf "same %s %s DIFF nlines=%d/%d | %s\n" x y (Stdlib.List.length a) (Stdlib.List.length b)
                    (Stdlib.String.concat " | " (all a b 8))
                end
            | _ -> Printf.printf "same %s %s SKIP\n" x y)
       | ["echo"; "DISALLOWED"; x; y] ->
           (match Stdlib.Hashtbl.find_opt named x, Stdlib.Hashtbl.find_opt named y with
            | Some (Some (d, _)), Some (Some (i, _)) ->
                (match disallowed_check d.pd i.pd with
                 | [] -> print_endline "disallowed ok"
                 | vs -> print_endline ("disallowed VIOLATION " ^ Stdlib.String.concat " " (Stdlib.List.map (fun (c, i) -> ocaml_of_coq_string c ^ "@" ^ string_of_int (int_of_n i)) vs)))
            | _ -> print_endline "disallowed SKIP")
       | "lnode" :: _ -> handle_lnode l
       | "mreq" :: _ -> handle_mreq l
       | "load" :: _ -> print_endline l; judge_lnode ()
       | _ -> print_endline l)

let () =
  match (if Stdlib.Array.length Sys.argv > 1 then Sys.argv.(1) else "dumps") with
  | "parse" -> mode_parse ()
  | "print" -> mode_print ()
  | _ -> mode_dumps ()
