(* C18 driver.  argv[1]:
   parse   stdin: "mask <hex|->" / "list <hex|->" lines; prints "<kind> <n> parsed <set>" | "<kind> <n> ub|oob|nofuel"
   print   stdin: "pmask <nchunks> <hex f>" / "plist <hex f>"; prints the hex bytes of the Coq printers' text
   dumps   stdin: output of harness/hwv_snapshot.c.  For every dump block prints
             "wf ok" | "wf VIOLATION <clause>@<id> ..."     verified checker wf_check
             "levels ok" | "levels DIFF ..."                model of hwloc_connect_levels vs the C levels
           and keeps the block as "the last dump".  Directive lines (written by the script through echo):
             "echo NAME <x>"          names the last dump <x>   (a missing dump = no topology)
             "echo SAME <x> <y>"      prints "same <x> <y> ok" | "same <x> <y> DIFF <first differing line pair>" | "... SKIP"
             "echo DISALLOWED <d> <i>" prints "disallowed ok" | "disallowed VIOLATION <clause>@<os> ..." | "disallowed SKIP"
           other lines are echoed. *)
let bytes_of_hex h =
  if h = "-" then [] else
  Stdlib.List.init (Stdlib.String.length h / 2) (fun i -> n_of_int (int_of_string ("0x" ^ Stdlib.String.sub h (2 * i) 2)))
let hex_of_bytes l = Stdlib.String.concat "" (Stdlib.List.map (fun b -> Printf.sprintf "%02x" (int_of_n b)) l)
let rec nat_of_int i = if i <= 0 then O else S (nat_of_int (i - 1))
let show_outcome = function
  | Parsed s -> "parsed " ^ text_of_bset (Some s)
  | OutOfBounds -> "oob" | NoFuel -> "nofuel" | SignedOverflow -> "ub"
let show ls = Stdlib.String.concat "|" (Stdlib.List.map (fun l -> Stdlib.String.concat "," (Stdlib.List.map (fun i -> string_of_int (int_of_n i)) l)) ls)

let mode_parse () =
  let n = ref 0 in
  (try while true do
    let l = input_line stdin in
    if l <> "" then begin
      (match Stdlib.String.split_on_char ' ' l with
       | ["mask"; h] -> Printf.printf "mask %d %s\n" !n (show_outcome (cpumask_parse (bytes_of_hex h)))
       | ["list"; h] -> Printf.printf "list %d %s\n" !n (show_outcome (cpulist_parse (bytes_of_hex h)))
       | _ -> print_endline "bad-line");
      incr n
    end
  done with End_of_file -> ())

let mode_print () =
  (try while true do
    let l = input_line stdin in
    (match Stdlib.String.split_on_char ' ' l with
     | ["pmask"; k; h] -> print_endline (hex_of_bytes (print_cpumask (nat_of_int (int_of_string k)) (n_of_hex h)))
     | ["plist"; h] -> print_endline (hex_of_bytes (print_cpulist (n_of_hex h)))
     | _ -> print_endline "bad-line")
  done with End_of_file -> ())

let mode_dumps () =
  let last = ref None in
  let named = Stdlib.Hashtbl.create 16 in
  read_blocks stdin
    (fun lines ->
       let p = parse_dump_lines lines in
       last := Some (p, lines);
       (match wf_check p.pd with
        | [] -> print_endline "wf ok"
        | vs -> print_endline ("wf VIOLATION " ^ Stdlib.String.concat " " (Stdlib.List.map (fun (c, i) -> ocaml_of_coq_string c ^ "@" ^ string_of_int (int_of_n i)) vs)));
       if levels_agree p.pd then print_endline "levels ok"
       else print_endline ("levels DIFF model=" ^ (match model_levels p.pd with Some ls -> show ls | None -> "none") ^ " impl=" ^ show (dump_levels p.pd)))
    (fun l ->
       match Stdlib.String.split_on_char ' ' l with
       | ["echo"; "NAME"; x] -> Stdlib.Hashtbl.replace named x !last; last := None
       | ["echo"; "RESET"] -> Stdlib.Hashtbl.reset named; last := None; print_endline l
       | ["echo"; "SAME"; x; y] ->
           (match Stdlib.Hashtbl.find_opt named x, Stdlib.Hashtbl.find_opt named y with
            | Some (Some (_, a)), Some (Some (_, b)) ->
                if a = b then Printf.printf "same %s %s ok\n" x y
                else begin
                  (* every differing line: "O<id> ty=<t> <field=a->field=b> ..." (other lines verbatim), at most 8 *)
                  let dif_fields u v =
                    let fu = Stdlib.String.split_on_char ' ' u and fv = Stdlib.String.split_on_char ' ' v in
                    if Stdlib.List.length fu <> Stdlib.List.length fv then u ^ " -> " ^ v else begin
                      let rec dif a b = match a, b with
                        | p :: ta, q :: tb -> if p = q then dif ta tb else (p ^ "->" ^ q) :: dif ta tb
                        | _, _ -> [] in
                      let head = (match fu with k :: i :: ty :: _ when k = "O" -> "O" ^ i ^ " " ^ ty | k :: i :: _ -> k ^ i | _ -> "?") in
                      head ^ " " ^ Stdlib.String.concat " " (dif fu fv)
                    end in
                  let rec all a b n = if n = 0 then ["..."] else match a, b with
                    | u :: ta, v :: tb -> if u = v then all ta tb n else dif_fields u v :: all ta tb (n - 1)
                    | u :: _, [] -> ["<end> vs " ^ u] | [], v :: _ -> ["<end> vs " ^ v] | [], [] -> [] in
                  Printf.printf "same %s %s DIFF nlines=%d/%d | %s\n" x y (Stdlib.List.length a) (Stdlib.List.length b)
                    (Stdlib.String.concat " | " (all a b 8))
                end
            | _ -> Printf.printf "same %s %s SKIP\n" x y)
       | ["echo"; "DISALLOWED"; x; y] ->
           (match Stdlib.Hashtbl.find_opt named x, Stdlib.Hashtbl.find_opt named y with
            | Some (Some (d, _)), Some (Some (i, _)) ->
                (match disallowed_check d.pd i.pd with
                 | [] -> print_endline "disallowed ok"
                 | vs -> print_endline ("disallowed VIOLATION " ^ Stdlib.String.concat " " (Stdlib.List.map (fun (c, i) -> ocaml_of_coq_string c ^ "@" ^ string_of_int (int_of_n i)) vs)))
            | _ -> print_endline "disallowed SKIP")
       | _ -> print_endline l)

let () =
  match (if Stdlib.Array.length Sys.argv > 1 then Sys.argv.(1) else "dumps") with
  | "parse" -> mode_parse ()
  | "print" -> mode_print ()
  | _ -> mode_dumps ()
