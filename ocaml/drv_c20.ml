(* C20 driver: reads a case file (argv[1]): dump blocks "T ... E" (harness/hwv_dump.h)
   and lines "calc <escaped argv tokens after the topology options> [%< <escaped stdin text>]".  For every calc line the
   extracted model of hwloc-calc (Text/Calc.v: calc_main) runs on the last dump and one line is printed:
     rc=<0|1> out=<escaped stdout>  |  ABORT  |  HUGE  |  OOB  |  UNMODELLED <n>
   Escaping: bytes outside 33..126 and '%' as %xx; the empty string as "%". *)
let esc s =
  if s = "" then "%" else begin
    let b = Stdlib.Buffer.create 64 in
    Stdlib.String.iter (fun c -> let k = Stdlib.Char.code c in
      if k >= 33 && k < 127 && c <> '%' then Stdlib.Buffer.add_char b c
      else Stdlib.Buffer.add_string b (Stdlib.Printf.sprintf "%%%02x" k)) s;
    Stdlib.Buffer.contents b end
let unesc t =
  if t = "%" then "" else begin
    let b = Stdlib.Buffer.create 64 in
    let n = Stdlib.String.length t in
    let i = ref 0 in
    while !i < n do
      if t.[!i] = '%' && !i + 2 <= n - 1 then begin
        Stdlib.Buffer.add_char b (Stdlib.Char.chr (int_of_string ("0x" ^ Stdlib.String.sub t (!i + 1) 2))); i := !i + 3 end
      else begin Stdlib.Buffer.add_char b t.[!i]; incr i end
    done;
    Stdlib.Buffer.contents b end
let bytes_of s = Stdlib.List.init (Stdlib.String.length s) (fun i -> n_of_int (Stdlib.Char.code s.[i])) @ [N0]
let string_of_bytes l = Stdlib.String.concat "" (Stdlib.List.map (fun b -> Stdlib.String.make 1 (Stdlib.Char.chr (int_of_n b land 255))) l)

(* A set argument that the LIST parser reads as a negative or huge number (strtoul: "-3" is 2^64-3, truncated to
   the bit index 2^32-3): BSet is a bit mask, so such a set would need gigabytes.  The model is not run on it
   (UNMODELLED 9); same rule as gen/calc_gen.py absurd_set_token. *)
let absurd_set_token cif_list t =
  let n = Stdlib.String.length t in
  let has c = Stdlib.String.contains t c in
  if has ':' || has '=' then false else begin
    let u = if n > 0 && (t.[0] = '~' || t.[0] = 'x' || t.[0] = '^') then Stdlib.String.sub t 1 (n - 1) else t in
    let m = Stdlib.String.length u in
    let lower = Stdlib.String.lowercase_ascii u in
    if u = "all" || u = "root" then false
    else if m >= 2 && Stdlib.String.sub lower 0 2 = "0x" && not cif_list then false
    else if not (Stdlib.String.contains u '-') && not cif_list then false
    else begin
      let isd c = c >= '0' && c <= '9' in
      let isx c = isd c || (c >= 'a' && c <= 'f') || (c >= 'A' && c <= 'F') in
      let bad = ref false in
      let run = ref 0 in
      for i = 0 to m - 1 do
        if isd u.[i] then (incr run; if !run >= 7 then bad := true) else run := 0;
        if u.[i] = '-' && i + 1 < m && isd u.[i + 1] && (i = 0 || not (isd u.[i - 1])) then bad := true;
        (* invalid octal ("08-11"): strtoul base 0 stops after the 0, the list parser resynchronises on "-11" *)
        if u.[i] = '0' && (i = 0 || not (isx u.[i - 1] || u.[i - 1] = 'x' || u.[i - 1] = 'X')) then begin
          let j = ref (i + 1) in
          while !j < m && u.[!j] >= '0' && u.[!j] <= '7' do incr j done;
          if !j < m && (u.[!j] = '8' || u.[!j] = '9') then bad := true
        end;
        if u.[i] = '0' && i + 1 < m && (u.[i + 1] = 'x' || u.[i + 1] = 'X') then begin
          let k = ref 0 in
          let j = ref (i + 2) in
          while !j < m && isx u.[!j] do incr k; incr j done;
          if !k >= 6 then bad := true
        end
      done;
      !bad
    end
  end

let cur : dump option ref = ref None
let limit = Some (z_of_int 200000)

let () =
  let ic = if Stdlib.Array.length Stdlib.Sys.argv > 1 then open_in_bin Stdlib.Sys.argv.(1) else stdin in
  read_blocks ic
    (fun lines -> cur := Some (parse_dump_lines lines).pd)
    (fun l ->
      if Stdlib.String.length l >= 4 && Stdlib.String.sub l 0 4 = "calc" then begin
        let toks = Stdlib.List.filter (fun x -> x <> "") (split_on ' ' (Stdlib.String.sub l 4 (Stdlib.String.length l - 4))) in
        (* optional "%< <escaped stdin text>": the lines hwloc-calc reads when no location is on the command line *)
        let rec split_at acc = function
          | [] -> (Stdlib.List.rev acc, None)
          | "%<" :: [x] -> (Stdlib.List.rev acc, Some (unesc x))
          | "%<" :: _ -> (Stdlib.List.rev acc, Some "")
          | x :: tl -> split_at (x :: acc) tl in
        let (toks, stdin_text) = split_at [] toks in
        let raw_bytes s = Stdlib.List.init (Stdlib.String.length s) (fun i -> n_of_int (Stdlib.Char.code s.[i])) in
        let lines = match stdin_text with
          | None -> []
          | Some t ->
            let ls = split_on '\n' t in
            let ls = (match Stdlib.List.rev ls with "" :: r -> Stdlib.List.rev r | _ -> ls) in
            Stdlib.List.map raw_bytes ls in
        let args = Stdlib.List.map (fun t -> bytes_of (unesc t)) toks in
        let plain = Stdlib.List.map unesc toks in
        let cif_list = Stdlib.List.mem "list" plain in
        let stdin_toks = match stdin_text with
          | None -> []
          | Some t -> Stdlib.List.filter (fun x -> x <> "") (Stdlib.String.split_on_char ' ' (Stdlib.String.map (fun c -> if c = '\n' then ' ' else c) t)) in
        if Stdlib.List.exists (absurd_set_token cif_list) (plain @ stdin_toks) then print_endline "UNMODELLED 9" else
        (match !cur with
         | None -> print_endline "NODUMP"
         | Some d ->
           (match (try Some (calc_main_stdin d limit args lines) with Stdlib.Stack_overflow | Stdlib.Out_of_memory -> None) with
            | None -> print_endline "UNMODELLED 9"       (* unary fuel of a size proportional to a bit index in the millions *)
            | Some r -> match r with
            | Oob -> print_endline "OOB"
            | Ok (Exit (rc, out)) -> Stdlib.Printf.printf "rc=%d out=%s\n" (int_of_n rc) (esc (string_of_bytes out))
            | Ok Aborted -> print_endline "ABORT"
            | Ok Huge -> print_endline "HUGE"
            | Ok (Unmodelled k) -> Stdlib.Printf.printf "UNMODELLED %d\n" (int_of_n k)))
      end)
