(* C20 driver: reads a case file (argv[1]): dump blocks "T ... E" (harness/hwv_dump.h)
   and lines "calc <escaped argv tokens after the topology options> [%< <escaped stdin text>]".  For every calc line the
   extracted model of hwloc-calc (Text/Calc.v: calc_main) runs on the last dump and one line is printed:
     rc=<0|1> out=<escaped stdout>  |  ABORT  |  HUGE  |  OOB  |  UNMODELLED <n>
   Escaping: bytes outside 33..126 and '%' as %xx; the empty string as "%". *)
let esc s =
  if s = "" then "%" else begin
    let b = Stdlib.Buffer.create 64 in
    Stdlib.String.iter (fun c -> let k = Stdlib.Char.code c in
      if k >= 33 && k < 127 && c <> '%' then Stdlib.Buffer.add_char b c
      else Stdlib.Buffer.add_string b (Stdlib.Printf.sprintf "%%%02x" k)) s;
    Stdlib.Buffer.contents b end
let unesc t =
  if t = "%" then "" else begin
    let b = Stdlib.Buffer.create 64 in
    let n = Stdlib.String.length t in
    let i = ref 0 in
    while !i < n do
      if t.[!i] = '%' && !i + 2 <= n - 1 then begin
        Stdlib.Buffer.add_char b (Stdlib.Char.chr (int_of_string ("0x" ^ Stdlib.String.sub t (!i + 1) 2))); i := !i + 3 end
      else begin Stdlib.Buffer.add_char b t.[!i]; incr i end
    done;
    Stdlib.Buffer.contents b end
let bytes_of s = Stdlib.List.init (Stdlib.String.length s) (fun i -> n_of_int (Stdlib.Char.code s.[i])) @ [N0]
let string_of_bytes l = Stdlib.String.concat "" (Stdlib.List.map (fun b -> Stdlib.String.make 1 (Stdlib.Char.chr (int_of_n b land 255))) l)

let cur : dump option ref = ref None
let limit = Some (z_of_int 200000)

let () =
  let ic = if Stdlib.Array.length Stdlib.Sys.argv > 1 then open_in_bin Stdlib.Sys.argv.(1) else stdin in
  read_blocks ic
    (fun lines -> cur := Some (parse_dump_lines lines).pd)
    (fun l ->
      if Stdlib.String.length l >= 4 && Stdlib.String.sub l 0 4 = "calc" then begin
        let toks = Stdlib.List.filter (fun x -> x <> "") (split_on ' ' (Stdlib.String.sub l 4 (Stdlib.String.length l - 4))) in
        (* optional "%< <escaped stdin text>": the lines hwloc-calc reads when no location is on the command line *)
        let rec split_at acc = function
          | [] -> (Stdlib.List.rev acc, None)
          | "%<" :: [x] -> (Stdlib.List.rev acc, Some (unesc x))
          | "%<" :: _ -> (Stdlib.List.rev acc, Some "")
          | x :: tl -> split_at (x :: acc) tl in
        let (toks, stdin_text) = split_at [] toks in
        let raw_bytes s = Stdlib.List.init (Stdlib.String.length s) (fun i -> n_of_int (Stdlib.Char.code s.[i])) in
        let lines = match stdin_text with
          | None -> []
          | Some t ->
            let ls = split_on '\n' t in
            let ls = (match Stdlib.List.rev ls with "" :: r -> Stdlib.List.rev r | _ -> ls) in
            Stdlib.List.map raw_bytes ls in
        let args = Stdlib.List.map (fun t -> bytes_of (unesc t)) toks in
        (match !cur with
         | None -> print_endline "NODUMP"
         | Some d ->
           (match (try Some (calc_main_stdin d limit args lines) with Stdlib.Stack_overflow | Stdlib.Out_of_memory -> None) with
            | None -> print_endline "UNMODELLED 9"       (* unary fuel of a size proportional to a bit index in the millions *)
            | Some r -> match r with
            | Oob -> print_endline "OOB"
            | Ok (Exit (rc, out)) -> Stdlib.Printf.printf "rc=%d out=%s\n" (int_of_n rc) (esc (string_of_bytes out))
            | Ok Aborted -> print_endline "ABORT"
            | Ok Huge -> print_endline "HUGE"
            | Ok (Unmodelled k) -> Stdlib.Printf.printf "UNMODELLED %d\n" (int_of_n k)))
      end)
