open C11_model
let rec pos_of_int i = if i = 1 then XH else if i land 1 = 1 then XI (pos_of_int (i lsr 1)) else XO (pos_of_int (i lsr 1))
let n_of_int i = if i = 0 then N0 else Npos (pos_of_int i)
let rec int_of_pos = function XH -> 1 | XO p -> 2 * int_of_pos p | XI p -> 2 * int_of_pos p + 1
let int_of_z = function Z0 -> 0 | Zpos p -> int_of_pos p | Zneg p -> - (int_of_pos p)
let b x = if x then 1 else 0
let () =
  try while true do
    let l = input_line stdin in
    match String.split_on_char ' ' l with
    | ["cmp"; a; c] -> Printf.printf "cmp %s %s %d\n" a c (int_of_z (compare_types (n_of_int (int_of_string a)) (n_of_int (int_of_string c))))
    | ["kind"; a] -> let t = n_of_int (int_of_string a) in
      Printf.printf "kind %s %d %d %d %d %d %d %d\n" a (b (is_normal t)) (b (is_memory t)) (b (is_io t)) (b (is_misc t)) (b (is_cache t)) (b (is_dcache t)) (b (is_icache t))
    | _ -> ()
  done with End_of_file -> ()
