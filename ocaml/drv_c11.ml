(* C11 driver: same case lines as harness/hwv_types.c, answered by the extracted model.
   Prelude: ocaml/hvnum.ml (number conversions). *)
let b x = if x then 1 else 0
let rec int_of_nat = function O -> 0 | S n -> 1 + int_of_nat n
let bytes_of_hex h =
  if h = "-" then [] else
  Stdlib.List.init (Stdlib.String.length h / 2) (fun i -> n_of_int (int_of_string ("0x" ^ Stdlib.String.sub h (2 * i) 2)))
let hex_of_bytes l = if l = [] then "-" else Stdlib.String.concat "" (Stdlib.List.map (fun x -> Printf.sprintf "%02x" (int_of_n x)) l)
let nd = n_of_dec
let lineno = ref 0

let sscanf_result s asz =
  match type_sscanf_cur (s @ [N0]) asz with
  | Oob -> "OOB"
  | Ok None -> "-1"
  | Ok (Some (t, w)) ->
    Printf.sprintf "0 type=%d %s" (int_of_n t)
      (match w with
       | AWnone -> "none"
       | AWcache (d, c) -> Printf.sprintf "cache %s %s" (dec_of_n d) (dec_of_z c)
       | AWgroup d -> Printf.sprintf "group %s" (dec_of_n d)
       | AWbridge (u, d) -> Printf.sprintf "bridge %s %s" (dec_of_z u) (dec_of_z d)
       | AWosdev o -> Printf.sprintf "osdev %s" (dec_of_n o))

(* every size 0..needed+1: f init -> pr (option pstate) *)
let all_sizes tag args (f : n list -> pstate option pr) =
  match f [] with
  | PrLoop -> Printf.printf "%s#%d %s LOOP\n" tag !lineno args; None
  | PrAssert -> Printf.printf "%s#%d %s ASSERT\n" tag !lineno args; None
  | PrOk None -> Printf.printf "%s#%d %s STORE-OUT-OF-BUFFER\n" tag !lineno args; None
  | PrOk (Some st0) ->
    let need = int_of_nat st0.ps_ret in
    Printf.printf "%s#%d %s need=%d\n" tag !lineno args need;
    let full = ref None in
    let wanted k = need <= 96 || k <= 3 || (k >= 24 && k <= 26) || (k >= 31 && k <= 33) || (k >= 63 && k <= 65) || (k >= 127 && k <= 129) || k + 1 >= need in
    for k = 0 to need + 1 do
      if wanted k then
      let init = Stdlib.List.init k (fun _ -> n_of_int 0xaa) in
      (match f init with
       | PrOk (Some st) ->
         Printf.printf "%s#%d size=%d ret=%d buf=%s\n" tag !lineno k (int_of_nat st.ps_ret) (hex_of_bytes st.ps_buf);
         if k = need + 1 then full := Some st.ps_buf
       | PrOk None -> Printf.printf "%s#%d size=%d STORE-OUT-OF-BUFFER\n" tag !lineno k
       | PrLoop -> Printf.printf "%s#%d size=%d LOOP\n" tag !lineno k
       | PrAssert -> Printf.printf "%s#%d size=%d ASSERT\n" tag !lineno k)
    done;
    !full

let parse_levels s = if s = "-" then [] else
  Stdlib.List.map (fun e -> match Stdlib.String.split_on_char ':' e with [t; g] -> (nd t, nd g) | _ -> (N0, N0)) (Stdlib.String.split_on_char ',' s)
let parse_tdepths s = Stdlib.List.map z_of_dec (Stdlib.String.split_on_char ',' s)
let strip_nul l = (* text up to the first NUL *)
  let rec go = function [] -> [] | N0 :: _ -> [] | x :: t -> x :: go t in go l

let () =
  try while true do
    let l = input_line stdin in
    incr lineno;
    let toks = Stdlib.List.filter (fun s -> s <> "") (Stdlib.String.split_on_char ' ' l) in
    (match toks with
    | ["cmp"; a; c] -> Printf.printf "cmp %s %s %d\n" a c (int_of_z (compare_types (n_of_int (int_of_string a)) (n_of_int (int_of_string c))))
    | ["kind"; a] -> let t = n_of_int (int_of_string a) in
      Printf.printf "kind %s %d %d %d %d %d %d %d\n" a (b (is_normal t)) (b (is_memory t)) (b (is_io t)) (b (is_misc t)) (b (is_cache t)) (b (is_dcache t)) (b (is_icache t))
    | ["tsn"; t; cd; ct; gd; bu; bd; os; flags] ->
      let o = { to_type = nd t; to_cdepth = nd cd; to_ctype = nd ct; to_gdepth = nd gd; to_bup = nd bu; to_bdown = nd bd; to_os = nd os } in
      let args = Stdlib.String.sub l 4 (Stdlib.String.length l - 4) in
      (match all_sizes "tsn" args (fun init -> type_snprintf init o (nd flags)) with
       | Some buf ->
         Printf.printf "tsn#%d rt %s\n" !lineno (sscanf_result (strip_nul buf) (Some attr_union_size));
         (match type_text o (nd flags) with
          | PrOk txt -> Printf.printf "tsn#%d garb ret=%d text=%s\n" !lineno (Stdlib.List.length txt) (hex_of_bytes txt)
          | PrLoop -> Printf.printf "tsn#%d garb LOOP\n" !lineno
          | PrAssert -> Printf.printf "tsn#%d garb ASSERT\n" !lineno)
       | None -> ())
    | "asn" :: t :: tot :: loc :: cs :: cl :: ca :: bu :: bd :: bdom :: bsec :: bsub :: pdom :: pbus :: pdev :: pfunc :: pven :: pdevid :: pcls :: clstxt :: link :: linktxt :: sep :: flags :: ninfo :: rest ->
      let rec pairs = function n :: v :: r -> (bytes_of_hex n, bytes_of_hex v) :: pairs r | _ -> [] in
      let link_nonzero = (try float_of_string link <> 0.0 with _ -> true) in
      let a = { ao_type = nd t; ao_total_memory = nd tot; ao_local_memory = nd loc; ao_csize = nd cs; ao_clinesize = nd cl; ao_cassoc = z_of_dec ca;
                ao_bup = nd bu; ao_bdown = nd bd; ao_bdomain = nd bdom; ao_bsec = nd bsec; ao_bsub = nd bsub;
                ao_pdomain = nd pdom; ao_pbus = nd pbus; ao_pdev = nd pdev; ao_pfunc = nd pfunc; ao_pvendor = nd pven; ao_pdevice = nd pdevid; ao_pclass = nd pcls;
                ao_link_nonzero = link_nonzero; ao_link_text = bytes_of_hex linktxt;
                ao_infos = (let ps = pairs rest in Stdlib.List.filteri (fun i _ -> i < int_of_string ninfo) ps) } in
      let args = Stdlib.String.sub l 4 (Stdlib.String.length l - 4) in
      ignore (all_sizes "asn" args (fun init -> attr_snprintf init a (bytes_of_hex sep) (nd flags)))
    | [("ssc" | "ssc!"); hex; asz] ->
      let a = int_of_string asz in
      Printf.printf "ssc %s %s -> %s\n" hex asz (sscanf_result (bytes_of_hex hex) (if a < 0 then None else Some (n_of_int a)))
    | ["clsweep"; lo; hi] ->
      for id = int_of_string lo to int_of_string hi - 1 do
        let a = { ao_type = nd "17"; ao_total_memory = N0; ao_local_memory = N0; ao_csize = N0; ao_clinesize = N0; ao_cassoc = Z0;
                  ao_bup = N0; ao_bdown = N0; ao_bdomain = N0; ao_bsec = N0; ao_bsub = N0;
                  ao_pdomain = N0; ao_pbus = N0; ao_pdev = N0; ao_pfunc = N0; ao_pvendor = N0; ao_pdevice = N0; ao_pclass = n_of_int id;
                  ao_link_nonzero = false; ao_link_text = []; ao_infos = [] } in
        (match attr_snprintf (Stdlib.List.init 256 (fun _ -> n_of_int 0xaa)) a [n_of_int 32] (n_of_int 8) with
         | PrOk (Some st) -> Printf.printf "cls %d %s\n" id (hex_of_bytes (strip_nul st.ps_buf))
         | _ -> Printf.printf "cls %d ?\n" id)
      done
    | ["tier"; hex] ->
      (match tier_forced_subtype (bytes_of_hex hex @ [N0]) with
       | Ok (Some n) -> Printf.printf "tier %s -> %s\n" hex (hex_of_bytes (lit n))
       | Ok None -> Printf.printf "tier %s -> NULL\n" hex
       | Oob -> Printf.printf "tier %s -> OOB\n" hex)
    | ["sad"; src; levels; tdepths; hex] ->
      let lv = parse_levels levels and td = parse_tdepths tdepths in
      (match type_sscanf_as_depth_cur lv td (bytes_of_hex hex @ [N0]) with
       | Oob -> Printf.printf "sad %s %s -> OOB\n" src hex
       | Ok None -> Printf.printf "sad %s %s -> -1\n" src hex
       | Ok (Some (t, d)) -> Printf.printf "sad %s %s -> 0 type=%d depth=%s\n" src hex (int_of_n t) (dec_of_z d))
    | ["gtd"; src; levels; tdepths; t; gd; asz] ->
      let lv = parse_levels levels and td = parse_tdepths tdepths in
      let d = get_type_depth_with_attr lv td (nd t) (if gd = "-" then None else Some (nd gd)) (nd asz) in
      Printf.printf "gtd %s %s %s %s -> %s\n" src t gd asz (dec_of_z d)
    | ["tstr"; a] ->
      let s = lit (obj_type_string (n_of_int (int_of_string a))) in
      Printf.printf "tstr %s %s rt %s\n" a (hex_of_bytes s) (sscanf_result s (Some attr_union_size))
    | _ -> ())
  done with End_of_file -> ()
