(* C07 model driver.  Input lines: "<id> <hex of the description bytes, without the terminator>".
   Output: the canonical lines also printed by harness/hwv_synthetic.c. *)
let hexv c = match c with '0'..'9' -> Stdlib.Char.code c - 48 | 'a'..'f' -> Stdlib.Char.code c - 87 | _ -> 0
let bytes_of_hex h =
  let n = Stdlib.String.length h / 2 in
  Stdlib.List.init n (fun i -> n_of_int (16 * hexv h.[2*i] + hexv h.[2*i+1]))
let fault_name = function FStr -> "str-oob" | FLit -> "literal-oob" | FLevel -> "level-oob" | FLoops -> "loops-oob"
  | FUninit -> "uninit-arity" | FDiv -> "div-zero" | FAssert -> "assert" | FFuel -> "fuel" | FHang -> "hang"
let variant = ref cur
let max_objs = 60000
let () =
  Stdlib.Array.iter (fun a -> if a = "--fixed" then variant := fixed) Sys.argv;
  let buf = Stdlib.Buffer.create 65536 in
  let pr fmt = Printf.bprintf buf fmt in
  (try while true do
    let l = input_line stdin in
    match Stdlib.String.split_on_char ' ' l with
    | id :: rest ->
      let h = (match rest with x :: _ -> x | [] -> "") in
      let s = bytes_of_hex h @ [N0] in
      pr "CASE %s\n" id;
      (match parse !variant s with
       | Rej -> pr "set rc=-1\n"
       | Fault f -> pr "set fault=%s\n" (fault_name f)
       | Ret sy ->
         let lv = Stdlib.Array.of_list sy.sy_levels in
         let nl = Stdlib.Array.length lv in
         let widths = Stdlib.Array.map (fun l -> l.lv_width) lv in
         let small n = (match n with N0 -> true | Npos _ -> Stdlib.List.length (bits_of_n n) <= 20) in
         let allsmall = Stdlib.Array.for_all small widths && small sy.sy_nnr in
         let sum = if allsmall then Stdlib.Array.fold_left (fun a w -> a + int_of_n w) 0 widths + int_of_n sy.sy_nnr else max_int in
         (* largest explicit index, duplicate detection on PU / NUMA index arrays *)
         let maxidx = ref 0 and big = ref false in
         let scan_arr = function None -> () | Some a -> Stdlib.List.iter (fun x -> if small x then maxidx := max !maxidx (int_of_n x) else big := true) a in
         Stdlib.Array.iter (fun l -> scan_arr l.lv_iarr) lv; scan_arr sy.sy_niarr;
         pr "set rc=0\n";
         pr "info levels=%d sum=%s maxidx=%s descr=%d\n" nl (if sum = max_int then "big" else string_of_int sum)
           (if !big then "big" else string_of_int !maxidx) (int_of_n sy.sy_descr);
         (* per-level summary of the parsed structure (always printed) *)
         Stdlib.Array.iteri (fun i l ->
           pr "L %d type=%d arity=%s width=%s mem=%s msc=%s idx=%s att=%s\n" i (int_of_n l.lv_type)
             (match l.lv_arity with None -> "?" | Some a -> dec_of_n a) (dec_of_n l.lv_width) (dec_of_n l.lv_mem) (dec_of_n l.lv_msc)
             (match l.lv_iarr with None -> "-" | Some a -> if Stdlib.List.length a > 64 then Printf.sprintf "#%d" (Stdlib.Hashtbl.hash (Stdlib.List.map dec_of_n a)) else Stdlib.String.concat "," (Stdlib.List.map dec_of_n a))
             (Stdlib.String.concat ";" (Stdlib.List.map (fun a -> dec_of_n a.at_mem ^ "/" ^ dec_of_n a.at_msc) l.lv_att))) lv;
         if sum <= max_objs && not !big && !maxidx < 200000 && nl >= 2 then begin
           let w = Stdlib.Array.map int_of_n widths in
           let wpu = w.(nl-1) in
           if wpu > 0 && Stdlib.Array.for_all (fun x -> x > 0 && wpu mod x = 0) w then begin
           let idx_of l n = (match l.lv_iarr with
             | Some a -> Stdlib.Array.of_list (Stdlib.List.map int_of_n a)
             | None -> if is_cache l.lv_type || l.lv_type = hWLOC_OBJ_GROUP then Stdlib.Array.make n 4294967295 else Stdlib.Array.init n (fun i -> i)) in
           let pus = idx_of lv.(nl-1) wpu in
           let puset d j =
             let k = wpu / w.(d) in
             let a = Stdlib.Array.sub pus (j*k) k in
             Stdlib.Array.sort compare a;
             Stdlib.String.concat "," (Stdlib.Array.to_list (Stdlib.Array.map string_of_int a)) in
           pr "loaded\n";
           for d = 1 to nl - 1 do
             let l = lv.(d) in
             let t = int_of_n l.lv_type in
             let ix = idx_of l w.(d) in
             if l.lv_type = hWLOC_OBJ_NUMANODE then
               for j = 0 to w.(d) - 1 do pr "M %d %s %s %s\n" ix.(j) (dec_of_n l.lv_mem) (dec_of_n l.lv_msc) (puset d j) done
             else if t = 2 && Stdlib.Array.exists (fun l2 -> int_of_n l2.lv_type = 1 && l2.lv_width = l.lv_width) lv then
               ()   (* the core always merges a Die level identical to the Package level (hwloc_filter_levels_keep_structure) *)
             else if is_cache l.lv_type && (let dup = ref false in for d2 = d + 1 to nl - 1 do if lv.(d2).lv_type = l.lv_type && lv.(d2).lv_width = l.lv_width then dup := true done; !dup) then
               ()   (* merged into the deeper level of the same type (merge_insert_equal keeps the object inserted first) *)
             else if l.lv_type = hWLOC_OBJ_GROUP && (let same = ref false in for d2 = 0 to nl - 1 do if d2 <> d && lv.(d2).lv_type <> hWLOC_OBJ_NUMANODE && lv.(d2).lv_width = l.lv_width then same := true done; !same) then
               ()   (* a Group with the cpusets of another level brings no structure: merged by the core *)
             else if true then
               for j = 0 to w.(d) - 1 do pr "O %d %d %s %s\n" t ix.(j) (if is_cache l.lv_type then dec_of_n l.lv_mem else "0") (puset d j) done
           done;
           (* attached NUMA nodes: os_index in creation order of hwloc__look_synthetic (children, self, attached) *)
           let cnt = ref 0 in
           let nia = (match sy.sy_niarr with None -> None | Some a -> Some (Stdlib.Array.of_list (Stdlib.List.map int_of_n a))) in
           let rec visit d j =
             (match lv.(d).lv_arity with Some a when d < nl - 1 -> let a = int_of_n a in for i = 0 to a - 1 do visit (d+1) (j*a+i) done | _ -> ());
             Stdlib.List.iter (fun at ->
               let k = !cnt in incr cnt;
               let os = (match nia with Some a -> if k < Stdlib.Array.length a then a.(k) else -1 | None -> k) in
               pr "M %d %s %s %s\n" os (dec_of_n at.at_mem) (dec_of_n at.at_msc) (puset d j)) lv.(d).lv_att in
           visit 0 0
           end
         end);
      if Stdlib.Buffer.length buf > 60000 then (print_string (Stdlib.Buffer.contents buf); Stdlib.Buffer.clear buf)
    | [] -> ()
  done with End_of_file -> ());
  print_string (Stdlib.Buffer.contents buf)
