(* C03 driver: executes a case file (see harness/hwv_bitmap.c for the grammar)
   on the extracted model (default) or on the extracted BSet specification
   (--spec), printing the same canonical lines as the C harness. *)
open C03_model

let rec pos_of_bits = function   (* LSB first, last element is the leading 1 *)
  | [] -> XH
  | [_] -> XH
  | b :: t -> if b then XI (pos_of_bits t) else XO (pos_of_bits t)
let n_of_bits bits =
  (* strip leading zeros (at the end of the list) *)
  let rec strip = function [] -> [] | false :: t -> strip t | l -> l in
  match List.rev (strip (List.rev bits)) with [] -> N0 | l -> Npos (pos_of_bits l)
let rec bits_of_pos = function XH -> [true] | XO p -> false :: bits_of_pos p | XI p -> true :: bits_of_pos p
let bits_of_n = function N0 -> [] | Npos p -> bits_of_pos p

let n_of_hex s =
  let bits = ref [] in
  String.iter (fun c ->
    let d = match c with '0'..'9' -> Char.code c - 48 | 'a'..'f' -> Char.code c - 87 | 'A'..'F' -> Char.code c - 55 | _ -> failwith "hex" in
    (* prepend nibble as the new low bits: we read MSB first, so accumulate reversed *)
    bits := !bits @ [] ; bits := [d land 1 = 1; d land 2 = 2; d land 4 = 4; d land 8 = 8] @ !bits) s;
  n_of_bits !bits
let hex_of_n n =
  let bits = Array.of_list (bits_of_n n) in
  let len = Array.length bits in
  if len = 0 then "0" else begin
    let nn = (len + 3) / 4 in
    let b = Buffer.create nn in
    for k = nn - 1 downto 0 do
      let d = ref 0 in
      for j = 3 downto 0 do
        let idx = 4 * k + j in
        d := !d * 2 + (if idx < len && bits.(idx) then 1 else 0)
      done;
      Buffer.add_char b "0123456789abcdef".[!d]
    done;
    Buffer.contents b
  end

let rec pos_of_int i = if i = 1 then XH else if i land 1 = 1 then XI (pos_of_int (i lsr 1)) else XO (pos_of_int (i lsr 1))
let n_of_int i = if i = 0 then N0 else Npos (pos_of_int i)
let z_of_int i = if i = 0 then Z0 else if i > 0 then Zpos (pos_of_int i) else Zneg (pos_of_int (-i))
let rec int_of_pos = function XH -> 1 | XO p -> 2 * int_of_pos p | XI p -> 2 * int_of_pos p + 1
let int_of_n = function N0 -> 0 | Npos p -> int_of_pos p
let int_of_z = function Z0 -> 0 | Zpos p -> int_of_pos p | Zneg p -> - (int_of_pos p)
let rec nat_of_int i = if i = 0 then O else S (nat_of_int (i - 1))

let sgn i = if i < 0 then -1 else if i > 0 then 1 else 0
let words_str ws = if ws = [] then "-" else String.concat "," (List.map hex_of_n ws)

let nh = 6

(* ---------------- model mode ---------------- *)
let st = Array.make nh bm_alloc
let line_model ret h rawret =
  let r = st.(h) in
  Printf.printf "R=%s S=%d:%s | c=%d a=%d raw=%s%s\n" ret (if r.infinite then 1 else 0) (words_str (canon r))
    (int_of_n r.count) (int_of_n r.alloc) (words_str r.words) rawret

let st2 h = let r = st.(h) in Printf.sprintf " T=%d:%s" (if r.infinite then 1 else 0) (words_str (canon r))
let run_model toks =
  let i = int_of_string and n x = n_of_int (int_of_string x) and z x = z_of_int (int_of_string x) in
  let zi v = string_of_int (int_of_z v) in
  match toks with
  | ["reset"] -> Array.fill st 0 nh bm_alloc; print_string "reset\n"
  | ["alloc"; h] -> st.(i h) <- bm_alloc; line_model "0" (i h) ""
  | ["allocfull"; h] -> st.(i h) <- bm_alloc_full; line_model "0" (i h) ""
  | ["dup"; d; s] -> st.(i d) <- bm_dup st.(i s); line_model "0" (i d) ""
  | ["copy"; d; s] -> st.(i d) <- bm_copy st.(i d) st.(i s); line_model "0" (i d) ""
  | ["zero"; h] -> st.(i h) <- bm_zero st.(i h); line_model "0" (i h) ""
  | ["fill"; h] -> st.(i h) <- bm_fill st.(i h); line_model "0" (i h) ""
  | ["only"; h; c] -> st.(i h) <- bm_only st.(i h) (n c); line_model "0" (i h) ""
  | ["allbut"; h; c] -> st.(i h) <- bm_allbut st.(i h) (n c); line_model "0" (i h) ""
  | ["set"; h; c] -> st.(i h) <- bm_set st.(i h) (n c); line_model "0" (i h) ""
  | ["clr"; h; c] -> st.(i h) <- bm_clr st.(i h) (n c); line_model "0" (i h) ""
  | ["setr"; h; b; e] -> st.(i h) <- bm_set_range st.(i h) (n b) (z e); line_model "0" (i h) ""
  | ["clrr"; h; b; e] -> st.(i h) <- bm_clr_range st.(i h) (n b) (z e); line_model "0" (i h) ""
  | ["fromul"; h; x] -> st.(i h) <- bm_from_ulong st.(i h) (n_of_hex x); line_model "0" (i h) ""
  | ["fromith"; h; k; x] -> st.(i h) <- bm_from_ith_ulong st.(i h) (n k) (n_of_hex x); line_model "0" (i h) ""
  | "fromuls" :: h :: nr :: xs -> st.(i h) <- bm_from_ulongs st.(i h) (n nr) (List.map n_of_hex xs); line_model "0" (i h) ""
  | ["setith"; h; k; x] -> st.(i h) <- bm_set_ith_ulong st.(i h) (n k) (n_of_hex x); line_model "0" (i h) ""
  | ["toul"; h] -> line_model (hex_of_n (bm_to_ulong st.(i h))) (i h) ""
  | ["toith"; h; k] -> line_model (hex_of_n (bm_to_ith_ulong st.(i h) (n k))) (i h) ""
  | ["touls"; h; nr] -> line_model (words_str (bm_to_ulongs st.(i h) (n nr))) (i h) ""
  | ["nr"; h] -> line_model (zi (bm_nr_ulongs st.(i h))) (i h) ""
  | ["or"; d; a; b] -> st.(i d) <- bm_or st.(i d) st.(i a) st.(i b); line_model "0" (i d) ""
  | ["and"; d; a; b] -> st.(i d) <- bm_and st.(i d) st.(i a) st.(i b); line_model "0" (i d) ""
  | ["andnot"; d; a; b] -> st.(i d) <- bm_andnot st.(i d) st.(i a) st.(i b); line_model "0" (i d) ""
  | ["xor"; d; a; b] -> st.(i d) <- bm_xor st.(i d) st.(i a) st.(i b); line_model "0" (i d) ""
  | ["not"; d; a] -> st.(i d) <- bm_not st.(i d) st.(i a); line_model "0" (i d) ""
  | ["singlify"; h] -> st.(i h) <- bm_singlify st.(i h); line_model "0" (i h) ""
  | ["isset"; h; c] -> line_model (zi (bm_isset st.(i h) (n c))) (i h) ""
  | ["iszero"; h] -> line_model (zi (bm_iszero st.(i h))) (i h) ""
  | ["isfull"; h] -> line_model (zi (bm_isfull st.(i h))) (i h) ""
  | ["first"; h] -> line_model (zi (bm_first st.(i h))) (i h) ""
  | ["last"; h] -> line_model (zi (bm_last st.(i h))) (i h) ""
  | ["firstu"; h] -> line_model (zi (bm_first_unset st.(i h))) (i h) ""
  | ["lastu"; h] -> line_model (zi (bm_last_unset st.(i h))) (i h) ""
  | ["next"; h; p] -> line_model (zi (bm_next st.(i h) (z p))) (i h) ""
  | ["nextu"; h; p] -> line_model (zi (bm_next_unset st.(i h) (z p))) (i h) ""
  | ["weight"; h] -> line_model (zi (bm_weight st.(i h))) (i h) ""
  | ["isequal"; a; b] -> line_model (zi (bm_isequal st.(i a) st.(i b)) ^ st2 (i b)) (i a) ""
  | ["isincl"; a; b] -> line_model (zi (bm_isincluded st.(i a) st.(i b)) ^ st2 (i b)) (i a) ""
  | ["inter"; a; b] -> line_model (zi (bm_intersects st.(i a) st.(i b)) ^ st2 (i b)) (i a) ""
  | ["cmp"; a; b] -> line_model (zi (bm_compare st.(i a) st.(i b)) ^ st2 (i b)) (i a) ""
  | ["cmpf"; a; b] -> let v = int_of_z (bm_compare_first st.(i a) st.(i b)) in
      line_model (string_of_int (sgn v) ^ st2 (i b)) (i a) (Printf.sprintf " rv=%d" v)
  | ["cmpi"; a; b] -> line_model (zi (bm_compare_inclusion st.(i a) st.(i b)) ^ st2 (i b)) (i a) ""
  | ["ffsl"; x] -> Printf.printf "ffsl %s %d\n" x (int_of_n (ffsl (n_of_hex x)))
  | ["flsl"; x] -> Printf.printf "flsl %s %d %d\n" x (int_of_n (flsl (n_of_hex x))) (int_of_n (flsl_manual (n_of_hex x)))
  | ["popc"; x] -> Printf.printf "popc %s %d\n" x (int_of_n (weight_long (n_of_hex x)))
  | [] | [""] -> ()
  | t :: _ -> Printf.printf "?? %s\n" t

(* ---------------- spec mode ---------------- *)
let ss = Array.make nh bs_empty
(* render a bset as inf flag + canonical words *)
let spec_words s =
  (* number of words covering fin *)
  let len = List.length (bits_of_n s.fin) in
  let nw = (len + 63) / 64 in
  let ws = List.init nw (fun k -> sp_word s (n_of_int k)) in
  let pat = if s.inf then fULL else N0 in
  let rec strip = function w :: t when w = pat -> strip t | l -> l in
  List.rev (strip (List.rev ws))
let line_spec ret h =
  let s = ss.(h) in
  Printf.printf "R=%s S=%d:%s\n" ret (if s.inf then 1 else 0) (words_str (spec_words s))

let sp2 h = let s = ss.(h) in Printf.sprintf " T=%d:%s" (if s.inf then 1 else 0) (words_str (spec_words s))
let run_spec toks =
  let i = int_of_string and n x = n_of_int (int_of_string x) and z x = z_of_int (int_of_string x) in
  let zi v = string_of_int (int_of_z v) in
  let take k l = List.filteri (fun j _ -> j < k) l in
  match toks with
  | ["reset"] -> Array.fill ss 0 nh bs_empty; print_string "reset\n"
  | ["alloc"; h] -> ss.(i h) <- bs_empty; line_spec "0" (i h)
  | ["allocfull"; h] -> ss.(i h) <- bs_full; line_spec "0" (i h)
  | ["dup"; d; s] | ["copy"; d; s] -> ss.(i d) <- ss.(i s); line_spec "0" (i d)
  | ["zero"; h] -> ss.(i h) <- bs_empty; line_spec "0" (i h)
  | ["fill"; h] -> ss.(i h) <- bs_full; line_spec "0" (i h)
  | ["only"; h; c] -> ss.(i h) <- bs_single (n c); line_spec "0" (i h)
  | ["allbut"; h; c] -> ss.(i h) <- bs_compl (bs_single (n c)); line_spec "0" (i h)
  | ["set"; h; c] -> ss.(i h) <- bs_add (n c) ss.(i h); line_spec "0" (i h)
  | ["clr"; h; c] -> ss.(i h) <- bs_remove (n c) ss.(i h); line_spec "0" (i h)
  | ["setr"; h; b; e] -> ss.(i h) <- sp_range ss.(i h) true (n b) (z e); line_spec "0" (i h)
  | ["clrr"; h; b; e] -> ss.(i h) <- sp_range ss.(i h) false (n b) (z e); line_spec "0" (i h)
  | ["fromul"; h; x] -> ss.(i h) <- bs_of_N (n_of_hex x); line_spec "0" (i h)
  | ["fromith"; h; k; x] -> ss.(i h) <- sp_from_ith (n k) (n_of_hex x); line_spec "0" (i h)
  | "fromuls" :: h :: nr :: xs -> ss.(i h) <- sp_from_ulongs (take (int_of_string nr) (List.map n_of_hex xs)); line_spec "0" (i h)
  | ["setith"; h; k; x] -> ss.(i h) <- sp_set_ith ss.(i h) (n k) (n_of_hex x); line_spec "0" (i h)
  | ["toul"; h] -> line_spec (hex_of_n (sp_word ss.(i h) N0)) (i h)
  | ["toith"; h; k] -> line_spec (hex_of_n (sp_word ss.(i h) (n k))) (i h)
  | ["touls"; h; nr] -> line_spec (words_str (List.init (int_of_string nr) (fun k -> sp_word ss.(i h) (n_of_int k)))) (i h)
  | ["nr"; h] -> line_spec (zi (sp_nr_ulongs ss.(i h))) (i h)
  | ["or"; d; a; b] -> ss.(i d) <- bs_union ss.(i a) ss.(i b); line_spec "0" (i d)
  | ["and"; d; a; b] -> ss.(i d) <- bs_inter ss.(i a) ss.(i b); line_spec "0" (i d)
  | ["andnot"; d; a; b] -> ss.(i d) <- bs_diff ss.(i a) ss.(i b); line_spec "0" (i d)
  | ["xor"; d; a; b] -> ss.(i d) <- bs_xor ss.(i a) ss.(i b); line_spec "0" (i d)
  | ["not"; d; a] -> ss.(i d) <- bs_compl ss.(i a); line_spec "0" (i d)
  | ["singlify"; h] -> ss.(i h) <- sp_singlify ss.(i h); line_spec "0" (i h)
  | ["isset"; h; c] -> line_spec (zi (sp_isset ss.(i h) (n c))) (i h)
  | ["iszero"; h] -> line_spec (zi (sp_iszero ss.(i h))) (i h)
  | ["isfull"; h] -> line_spec (zi (sp_isfull ss.(i h))) (i h)
  | ["first"; h] -> line_spec (zi (sp_first ss.(i h))) (i h)
  | ["last"; h] -> line_spec (zi (sp_last ss.(i h))) (i h)
  | ["firstu"; h] -> line_spec (zi (sp_first_unset ss.(i h))) (i h)
  | ["lastu"; h] -> line_spec (zi (sp_last_unset ss.(i h))) (i h)
  | ["next"; h; p] -> line_spec (zi (sp_next ss.(i h) (z p))) (i h)
  | ["nextu"; h; p] -> line_spec (zi (sp_next_unset ss.(i h) (z p))) (i h)
  | ["weight"; h] -> line_spec (zi (sp_weight ss.(i h))) (i h)
  | ["isequal"; a; b] -> line_spec (zi (sp_isequal ss.(i a) ss.(i b)) ^ sp2 (i b)) (i a)
  | ["isincl"; a; b] -> line_spec (zi (sp_isincluded ss.(i a) ss.(i b)) ^ sp2 (i b)) (i a)
  | ["inter"; a; b] -> line_spec (zi (sp_intersects ss.(i a) ss.(i b)) ^ sp2 (i b)) (i a)
  | ["cmp"; a; b] -> line_spec (zi (sp_compare ss.(i a) ss.(i b)) ^ sp2 (i b)) (i a)
  | ["cmpf"; a; b] -> line_spec (zi (sp_compare_first ss.(i a) ss.(i b)) ^ sp2 (i b)) (i a)
  | ["cmpi"; a; b] -> line_spec (zi (sp_compare_inclusion ss.(i a) ss.(i b)) ^ sp2 (i b)) (i a)
  | ["ffsl"; _] | ["flsl"; _] | ["popc"; _] -> print_string "leaf\n"
  | [] | [""] -> ()
  | t :: _ -> Printf.printf "?? %s\n" t

let () =
  let spec = Array.length Sys.argv > 1 && Sys.argv.(1) = "--spec" in
  let ic = if Array.length Sys.argv > (if spec then 2 else 1) then open_in Sys.argv.(if spec then 2 else 1) else stdin in
  let ob = Buffer.create 65536 in ignore ob;
  try while true do
    let l = input_line ic in
    let toks = List.filter (fun s -> s <> "") (String.split_on_char ' ' (String.trim l)) in
    if spec then run_spec toks else run_model toks
  done with End_of_file -> ()
