(* C15 driver: runs the extracted model of hwloc/cpukinds.c on a case script
   (format: see harness/hwv_cpukinds.c) and prints the same canonical lines. *)
open C15_model

let n_shift_add a bit = match a with
  | N0 -> if bit then Npos XH else N0
  | Npos p -> Npos (if bit then XI p else XO p)
let hexval c = match c with
  | '0'..'9' -> Char.code c - 48 | 'a'..'f' -> Char.code c - 87 | 'A'..'F' -> Char.code c - 55 | _ -> failwith "hex"
let n_of_hex h =
  let a = ref N0 in
  String.iter (fun c -> let d = hexval c in
    List.iter (fun b -> a := n_shift_add !a (d land b <> 0)) [8;4;2;1]) h;
  !a
let rec bits_of_pos = function XH -> [true] | XO p -> false :: bits_of_pos p | XI p -> true :: bits_of_pos p
let hex_of_n = function
  | N0 -> "0"
  | Npos p ->
    let bits = Array.of_list (bits_of_pos p) in
    let nd = (Array.length bits + 3) / 4 in
    let b = Buffer.create nd in
    for d = nd - 1 downto 0 do
      let v = ref 0 in
      for k = 3 downto 0 do
        let i = 4 * d + k in
        v := 2 * !v + (if i < Array.length bits && bits.(i) then 1 else 0)
      done;
      Buffer.add_char b "0123456789abcdef".[!v]
    done;
    Buffer.contents b
let rec pos_of_int i = if i = 1 then XH else if i land 1 = 1 then XI (pos_of_int (i lsr 1)) else XO (pos_of_int (i lsr 1))
let n_of_int i = if i = 0 then N0 else Npos (pos_of_int i)
let z_of_int i = if i = 0 then Z0 else if i > 0 then Zpos (pos_of_int i) else Zneg (pos_of_int (-i))
let rec int_of_pos = function XH -> 1 | XO p -> 2 * int_of_pos p | XI p -> 2 * int_of_pos p + 1
let int_of_z = function Z0 -> 0 | Zpos p -> int_of_pos p | Zneg p -> - (int_of_pos p)
let n_of_z = function Z0 -> N0 | Zpos p -> Npos p | Zneg _ -> failwith "negative rank"
let rec int_of_nat = function O -> 0 | S n -> 1 + int_of_nat n
(* unary nat: indexes beyond any reachable number of kinds are clamped (they all mean "no such kind") *)
let nat_of_int i = let rec go acc i = if i <= 0 then acc else go (S acc) (i - 1) in go O (min i 100000)

let str_of_hex h =
  if h = "-" then [] else
  List.init (String.length h / 2) (fun i -> n_of_int (hexval h.[2*i] * 16 + hexval h.[2*i+1]))
let hex_of_str s =
  if s = [] then "-" else
  String.concat "" (List.map (fun c -> Printf.sprintf "%02x" (match c with N0 -> 0 | Npos p -> int_of_pos p)) s)

let int_of_n = function N0 -> 0 | Npos p -> int_of_pos p
let hex_of_n_dec i = string_of_int (int_of_n i)
let parse_set_exn t = { fin = n_of_hex (String.sub t 2 (String.length t - 2)); inf = (t.[0] = 'i') }
let parse_set t =
  if t = "NULL" then None
  else
    let h = String.sub t 2 (String.length t - 2) in
    Some { fin = n_of_hex h; inf = (t.[0] = 'i') }
let show_set s = (if s.inf then "i:" else "f:") ^ hex_of_n s.fin

let st = ref init_state
let topo = ref { fin = N0; inf = false }
let env : n list option ref = ref None
let dead = ref true
let adopted = ref false
let nokinds = ref false   (* HWLOC_TOPOLOGY_FLAG_NO_CPUKINDS: an XML reload ignores the exported kinds *)
let nodes : (n * bset) list ref = ref []

let dump () =
  let ks = !st.kinds in
  Printf.printf "nr=%d topo=%s nodes=%s\n" (List.length ks) (show_set !topo)
    (if !nodes = [] then "-" else String.concat "," (List.map (fun (i, s) -> hex_of_n_dec i ^ "=" ^ show_set s)
       (List.sort (fun (i, _) (j, _) -> compare (int_of_n i) (int_of_n j)) !nodes)));
  List.iteri (fun i k ->
    Printf.printf "k %d rc=0 %s eff=%d infos=%s\n" i (show_set k.k_cpuset) (int_of_z k.k_eff)
      (String.concat "," (List.map (fun (n, v) -> hex_of_str n ^ "=" ^ hex_of_str v) k.k_infos))) ks;
  Printf.printf "p alloc=%d" (List.length ks + List.length !st.tail);
  List.iteri (fun i k -> Printf.printf " %d:forced=%d:rank=%s:arr=%d" i (int_of_z k.k_forced) (hex_of_n (n_of_z k.k_rank)) (if k.k_arr then 1 else 0)) ks;
  print_newline ()

let fatal f =
  Printf.printf "FATAL %s\n" (match f with F_OOB -> "OOB" | F_STALE -> "STALE" | F_UB -> "UB");
  dead := true

let outcome name = function
  | Fine (s, rc) ->
    st := s;
    (match rc with RC_OK -> Printf.printf "%s rc=0 err=OK\n" name | RC_EINVAL -> Printf.printf "%s rc=-1 err=EINVAL\n" name
                 | RC_EPERM -> Printf.printf "%s rc=-1 err=EPERM\n" name);
    dump ()
  | Fatal f -> fatal f

(* every state-changing public operation goes through the adopted-topology guard of the model *)
let do_op name o =
  let (out, ad) = guarded_step !adopted !env !st o in
  adopted := ad; outcome name out

let rec zeros n = if n <= 0 then [] else { k_cpuset = { fin = N0; inf = false }; k_eff = Z0; k_forced = Z0; k_rank = Z0; k_infos = []; k_arr = false } :: zeros (n - 1)

let getres name show = function
  | G_OK a -> Printf.printf "%s rc=%s err=OK%s\n" name (fst (show a)) (snd (show a))
  | G_EINVAL -> Printf.printf "%s rc=-1 err=EINVAL\n" name
  | G_ENOENT -> Printf.printf "%s rc=-1 err=ENOENT\n" name
  | G_EXDEV -> Printf.printf "%s rc=-1 err=EXDEV\n" name

let () =
  let ic = if Array.length Sys.argv > 1 then open_in Sys.argv.(1) else stdin in
  (try while true do
    let l = input_line ic in
    let t = Array.of_list (List.filter (fun s -> s <> "") (String.split_on_char ' ' l)) in
    if Array.length t > 0 then begin
      if t.(0) = "case" || t.(0) = "flagcase" then begin
        nokinds := (t.(0) = "flagcase");
        st := init_state; env := None; dead := false; adopted := false;
        (* "case name N": pu:N, one NUMA node with every PU;
           "case name desc topo nn idx set ...": the generator's layout of the synthetic description *)
        if Array.length t > 3 then begin
          topo := parse_set_exn t.(3);
          let nn = int_of_string t.(4) in
          nodes := List.init nn (fun k -> (n_of_int (int_of_string t.(5 + 2*k)), parse_set_exn t.(6 + 2*k)))
        end else begin
          let u = int_of_string t.(2) in
          let a = ref N0 in for _ = 1 to u do a := n_shift_add !a true done;
          topo := { fin = !a; inf = false };
          nodes := [(N0, !topo)]
        end;
        Printf.printf "case %s\n" t.(1);
        dump ()
      end else if t.(0) = "casestate" then begin
        (* state taken over from the implementation (kinds registered by an OS backend):
           casestate name topo env nn { idx set } alloc nk { set eff forced rankhex arr ninfos {name value} } *)
        dead := false; adopted := false; nokinds := false;
        topo := (match parse_set t.(2) with Some s -> s | None -> failwith "topo");
        env := (if t.(3) = "-" then None else Some (str_of_hex t.(3)));
        let nn = int_of_string t.(4) in
        nodes := List.init nn (fun k -> (n_of_int (int_of_string t.(5 + 2*k)), parse_set_exn t.(6 + 2*k)));
        let b = 5 + 2 * nn in
        let alloc = int_of_string t.(b) and nk = int_of_string t.(b + 1) in
        let pos = ref (b + 2) in
        let ks = List.init nk (fun _ ->
          let p = !pos in
          let ni = int_of_string t.(p + 5) in
          let infos = List.init ni (fun i -> (str_of_hex t.(p + 6 + 2*i), str_of_hex t.(p + 7 + 2*i))) in
          pos := p + 6 + 2 * ni;
          { k_cpuset = (match parse_set t.(p) with Some s -> s | None -> failwith "set");
            k_eff = z_of_int (int_of_string t.(p + 1)); k_forced = z_of_int (int_of_string t.(p + 2));
            k_rank = (match n_of_hex t.(p + 3) with N0 -> Z0 | Npos q -> Zpos q);
            k_infos = infos; k_arr = (t.(p + 4) = "1") }) in
        st := { kinds = ks; tail = zeros (alloc - nk) };
        Printf.printf "case %s\n" t.(1);
        dump ()
      end else if not !dead then
      match t.(0) with
      | "env" -> env := (if t.(1) = "-" then None else Some (str_of_hex t.(1))); print_string "env\n"
      | "reg" | "ireg" ->
        let cs = parse_set t.(1) in
        let forced = z_of_int (int_of_string t.(2)) in
        let flags = n_of_int (int_of_string t.(3)) in
        let infos = if t.(4) = "NULL" then None else
          Some (List.init (int_of_string t.(4)) (fun i -> (str_of_hex t.(5 + 2*i), str_of_hex t.(6 + 2*i)))) in
        if t.(0) = "reg" then do_op "reg" (OpRegister (cs, forced, infos, flags))
        else (match cs with
          | None -> ()
          | Some s ->
            (match internal_register !st s forced infos flags with
             | IOk s' -> outcome "ireg" (Fine (s', RC_OK))
             | IEinval -> outcome "ireg" (Fine (!st, RC_EINVAL))
             | IFatal f -> fatal f))
      | "restrict" ->
        (match parse_set t.(1) with
         | None -> ()
         | Some s ->
           let flags = if Array.length t > 2 then n_of_int (int_of_string t.(2)) else N0 in
           if !adopted then do_op "restrict" (OpRestrict !topo)
           else match topology_restrict { t_cpuset = !topo; t_nodes = !nodes } s flags with
             | None -> print_string "restrict rc=-1 err=EINVAL\n"; dump ()
             | Some t' -> topo := t'.t_cpuset; nodes := t'.t_nodes; do_op "restrict" (OpRestrict t'.t_cpuset))
      | "adopt" -> st := adopt_state !st; adopted := true; outcome "adopt" (Fine (!st, RC_OK))
      | "getby" ->
        getres "getby" (fun i -> (string_of_int (int_of_nat i), "")) (get_by_cpuset !st (parse_set t.(1)) (n_of_int (int_of_string t.(2))))
      | "getnr" ->
        getres "getnr" (fun i -> (string_of_int (int_of_nat i), "")) (get_nr !st (n_of_int (int_of_string t.(1))))
      | "getinfo" ->
        getres "getinfo" (fun ((s, e), inf) -> ("0", Printf.sprintf " %s eff=%d ninfos=%d" (show_set s) (int_of_z e) (List.length inf)))
          (get_info !st (nat_of_int (int_of_string t.(1))) (n_of_int (int_of_string t.(2))))
      | "rank" -> do_op "rank" OpRank
      | "dup" -> do_op "dup" OpDup
      | "xml" -> if !nokinds then begin adopted := false; outcome "xml" (Fine (init_state, RC_OK)) end else do_op "xml" OpXml
      | _ -> ()
    end
  done with End_of_file -> ());
  print_string "end\n"
