(* C17 driver: runs the extracted event model (Conc/Events.v) on a model case file and prints, per
   call, the same canonical fields harness/hwv_mt.c prints from the real library:
     S <n> rc=<0|1> nd=<#dist> dv=<bits> mv=<bits> chg=<0|1>
   and for a concurrent section the locations on which some pair of threads conflicts:
     R <n> races=<names|->  writes=<0|1>
   Model case lines (produced by checks/c17.py from the harness transcript, which supplies the
   tree-level inputs of the model: how many objects of each distances structure survive a restrict,
   whether a memattr target is new, what the discovery left behind):
     glob libxml=<0|1>
     <n> init <t> | <n> destroy <t>
     <n> load <t> nodist=<b> nomemattr=<b> nocpukinds=<b> xml=<b> extra=<k> dists=<l> bind=<-|flag|none|l>
     <n> mod <t> restrict ok=<b> lives=<l> | insertmisc | insertgroup | allow | distadd nb=<k> | distremove
                 | maregister | maset <a> new=<b> | refresh
     <n> cons <t> <name> [q a] [warns=<b>]
     threads <T> / prog <i> <op without n> / <n> run *)
open C17_model

let rec nat_of_int i = if i <= 0 then O else S (nat_of_int (i - 1))
let rec int_of_nat = function O -> 0 | S n -> 1 + int_of_nat n
let split c s = Stdlib.List.filter (fun x -> x <> "") (Stdlib.String.split_on_char c s)
let nat_list s = if s = "-" || s = "" then [] else Stdlib.List.map (fun x -> nat_of_int (int_of_string x)) (split ',' s)
let kv tok = match Stdlib.String.index_opt tok '=' with
  | Some i -> (Stdlib.String.sub tok 0 i, Stdlib.String.sub tok (i + 1) (Stdlib.String.length tok - i - 1))
  | None -> (tok, "")
let field toks k = try Stdlib.List.assoc k (Stdlib.List.map kv toks) with Not_found -> ""
let fb toks k = field toks k = "1"

let cop_of toks = match toks with
  | "traverse" :: _ -> CTraverse | "typeprint" :: _ -> CTypePrint | "distget" :: _ -> CDistGet
  | "distrelease" :: _ -> CDistGet   (* the harness pairs every get with its release *)
  | "mameta" :: _ -> CMaMeta | "localnodes" :: _ -> CLocalNodes | "cpukinds" :: _ -> CCpukinds
  | "defaultnodeset" :: _ -> CDefaultNodeset | "helpers" :: _ -> CHelpers
  | "sets" :: _ -> CSets | "bitmap" :: _ -> CBitmap | "exportxml" :: _ -> CExportXml | "exportsynth" :: r -> CExportSynth (fb r "warns")
  | "maget" :: q :: a :: _ ->
    let q' = match int_of_string q with 0 -> QValue | 1 -> QBestTarget | 2 -> QBestInitiator | 3 -> QTargets | _ -> QInitiators in
    CMaGet (q', nat_of_int (int_of_string a))
  | _ -> failwith "bad cons"

let mop_of toks = match toks with
  | "restrict" :: r -> MRestrict (fb r "ok", nat_list (field r "lives"))
  | "insertmisc" :: _ -> MInsertMisc | "insertgroup" :: _ -> MInsertGroup | "allow" :: _ -> MAllow
  | "distadd" :: r -> MDistAdd (nat_of_int (int_of_string (field r "nb")))
  | "distremove" :: _ -> MDistRemoveAll | "maregister" :: _ -> MMaRegister
  | "maset" :: a :: r -> MMaSet (nat_of_int (int_of_string a), fb r "new")
  | "refresh" :: _ -> MRefresh
  | _ -> failwith "bad mod"

let op_of toks = match toks with
  | "init" :: t :: _ -> OInit (nat_of_int (int_of_string t))
  | "destroy" :: t :: _ -> ODestroy (nat_of_int (int_of_string t))
  | "load" :: t :: r ->
    let bind = field r "bind" in
    OLoad (nat_of_int (int_of_string t),
           { c_nodist = fb r "nodist"; c_nomemattr = fb r "nomemattr"; c_nocpukinds = fb r "nocpukinds";
             c_dists = nat_list (field r "dists"); c_extra_mattrs = nat_of_int (int_of_string (field r "extra"));
             c_bind = (if bind = "-" || bind = "" then None else if bind = "flag" then Some None
                       else Some (Some (nat_list (if bind = "none" then "-" else bind))));
             c_xml = fb r "xml"; c_fails = fb r "fails"; c_needs_libxml = fb r "needslibxml"; c_enosys = fb r "enosys" })
  | "mod" :: t :: r -> OMod (nat_of_int (int_of_string t), mop_of r)
  | "cons" :: t :: r -> OCons (nat_of_int (int_of_string t), cop_of r)
  | _ -> failwith "bad op"

let static_name = function
  | SHideErrors -> "hwloc_hide_errors" | SXmlVerbose -> "hwloc__xml_verbose" | SNolibxmlImport -> "hwloc_nolibxml_import"
  | SNolibxmlExport -> "hwloc_nolibxml_export" | SLibxmlInit -> "hwloc_libxml2_init_once"
  | SSynthWarned -> "hwloc__export_synthetic_memory_children"
let loc_name = function
  | LTree _ -> "tree" | LDistList _ | LDistFlags _ | LDistObjs _ -> "dist" | LMaFlags _ | LMaCache _ -> "memattr"
  | LCpukinds _ -> "cpukinds" | LStChecked s | LStValue s -> "static:" ^ static_name s
  | LRefcount -> "refcount" | LRegistry -> "registry" | LXmlBackend -> "xmlbackend"
let is_cache_loc = function LDistList _ | LDistFlags _ | LDistObjs _ | LMaFlags _ | LMaCache _ -> true | _ -> false

let flags st t =
  match get_topo st t with
  | None -> "nd=0 dv=- mv=-"
  | Some tp ->
    let dv = Stdlib.String.concat "" (Stdlib.List.map (fun d -> if d.d_valid then "1" else "0") tp.t_dists) in
    let mv = Stdlib.String.concat "" (Stdlib.List.map (fun m -> if m.a_valid then "1" else "0") tp.t_mattrs) in
    Printf.sprintf "nd=%d dv=%s mv=%s" (Stdlib.List.length tp.t_dists) (if dv = "" then "-" else dv) (if mv = "" then "-" else mv)

let () =
  let st = ref { s_topos = []; s_glob = { g_checked = []; g_envset = []; g_libxml = true; g_users = O; g_avail = true } } in
  let nthreads = ref 0 in
  let progs = ref [||] in
  (try
     while true do
       let line = input_line stdin in
       let toks = split ' ' line in
       match toks with
       | [] -> ()
       | "glob" :: r ->
         let g = !st.s_glob in
         st := { !st with s_glob = { g with g_libxml = fb r "libxml" } }
       | "threads" :: n :: _ -> nthreads := int_of_string n; progs := Stdlib.Array.make !nthreads []
       | "prog" :: i :: r -> let i = int_of_string i in !progs.(i) <- !progs.(i) @ [op_of r]
       | n :: "run" :: _ ->
         let evs = Stdlib.Array.to_list (Stdlib.Array.map (fun p -> events_of !st p) !progs) in
         let locs = conflict_locs evs in
         let names = Stdlib.List.sort_uniq compare (Stdlib.List.map loc_name locs) in
         let wr = Stdlib.List.exists (fun e -> writes e <> []) evs in
         Printf.printf "R %s races=%s writes=%d\n" n (if names = [] then "-" else Stdlib.String.concat "," names) (if wr then 1 else 0);
         (* the statics the section consults are warm afterwards (whichever thread came first); the
            topologies the threads own are created and destroyed inside the section *)
         Stdlib.Array.iter (fun p ->
             let ((s', _), _) = run_prog !st p in
             st := { !st with s_glob = { s'.s_glob with g_users = !st.s_glob.g_users };
                              s_topos = (if Stdlib.List.for_all (function OCons _ -> true | _ -> false) p then s'.s_topos else !st.s_topos) }) !progs
       | n :: r ->
         let o = op_of r in
         let t = (match o with OInit t | OLoad (t, _) | ODestroy t | OMod (t, _) | OCons (t, _) -> t) in
         let ((st', res), ev) = run_op !st o in
         let rc = (match res with x :: _ -> int_of_nat x | [] -> 1) in
         let rc = (match o with OCons _ -> 1 | _ -> if rc > 0 then 1 else 0) in
         let chg = Stdlib.List.exists (fun e -> is_cache_loc e.e_loc) (writes ev) in
         st := st';
         Printf.printf "S %s rc=%d %s chg=%d\n" n rc (flags !st t) (if chg then 1 else 0)
     done
   with End_of_file -> ())
