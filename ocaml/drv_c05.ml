(* C05 driver: reads the model-input lines printed by harness/hwv_xmlrt.c
   (MB ... ME blocks: what the exporter reads from the topology, the four child
   lists of every object in list order) and prints the bytes the extracted Coq
   model (Text/XmlExport.v) exports for it:  XM <hex> | XM overflow.
   Also: b64e/b64d lines -> B64E/B64D lines as the harness prints them.
   Prelude: hvnum.ml (conversions). *)
let bytes_of_hexs (s : Stdlib.String.t) : n list option =
  if s = "-" then None else begin
    let h = Stdlib.String.sub s 1 (Stdlib.String.length s - 1) in
    let k = Stdlib.String.length h / 2 in
    Some (Stdlib.List.init k (fun i -> n_of_int (int_of_string ("0x" ^ Stdlib.String.sub h (2 * i) 2))))
  end
let bytes_req s = match bytes_of_hexs s with Some b -> b | None -> []
let hex_of_bytes (l : n list) =
  let b = Stdlib.Buffer.create 4096 in
  Stdlib.List.iter (fun x -> Stdlib.Buffer.add_string b (Stdlib.Printf.sprintf "%02x" (int_of_n x land 255))) l;
  Stdlib.Buffer.contents b
(* "<inf>:<hex of all words, most significant first>" -> bm (words least significant first) *)
let bm_of_text s : bm option =
  if s = "-" then None else begin
    let inf = s.[0] = '1' in
    let hex = Stdlib.String.sub s 2 (Stdlib.String.length s - 2) in
    let nw = Stdlib.String.length hex / 16 in
    let ws = Stdlib.List.init nw (fun i -> n_of_hex (Stdlib.String.sub hex (16 * (nw - 1 - i)) 16)) in
    Some { bm_words = ws; bm_inf = inf }
  end
let bm_req s = match bm_of_text s with Some b -> b | None -> { bm_words = []; bm_inf = false }
let nd = n_of_dec
let zd = z_of_dec
let split = Stdlib.String.split_on_char

(* mutable tree while reading *)
type mobj = { ty : n; os : n option; gp : n; sets : osets option; name : n list option; sub : n list option;
              mutable attr : oattr; mutable pts : (n * n) list; mutable infos : (n list * n list) list; mutable uds : userdata list;
              mutable mem : mobj list; mutable ch : mobj list; mutable io : mobj list; mutable misc : mobj list; nest : int }

let rec freeze (o : mobj) : obj =
  let attr = match o.attr with ANuma (lm, _) -> ANuma (lm, Stdlib.List.rev o.pts) | a -> a in
  Obj (o.ty, o.os, o.gp, o.sets, o.name, o.sub, attr, Stdlib.List.rev o.infos, Stdlib.List.rev o.uds,
       Stdlib.List.rev_map freeze o.mem, Stdlib.List.rev_map freeze o.ch, Stdlib.List.rev_map freeze o.io, Stdlib.List.rev_map freeze o.misc)

let pci_of (f : Stdlib.String.t list) : pciattr * Stdlib.String.t list =
  match f with
  | d :: b :: dv :: fn :: cl :: ve :: de :: sv :: sd :: rv :: pg :: sp :: rest ->
      ({ p_domain = nd d; p_bus = nd b; p_dev = nd dv; p_func = nd fn; p_class = nd cl; p_vendor = nd ve; p_device = nd de;
         p_subvendor = nd sv; p_subdevice = nd sd; p_revision = nd rv; p_prog_if = nd pg; p_linkspeed = bytes_req sp }, rest)
  | _ -> failwith "bad pci attr"

let attr_of (f : Stdlib.String.t list) : oattr =
  match f with
  | ["none"] -> ANone
  | ["numa"; lm] -> ANuma (nd lm, [])
  | ["cache"; sz; dp; ls; assoc; ct] -> ACache (nd sz, nd dp, nd ls, zd assoc, zd ct)
  | ["group"; k; sk; dm] -> AGroup (nd k, nd sk, nd dm)
  | "bridge" :: up :: down :: dp :: dd :: ds :: db :: rest -> let (p, _) = pci_of rest in ABridge (zd up, zd down, nd dp, nd dd, nd ds, nd db, p)
  | "pci" :: rest -> let (p, _) = pci_of rest in APci p
  | ["osdev"; t] -> AOsdev (nd t)
  | _ -> failwith ("bad attr: " ^ Stdlib.String.concat " " f)

let kvs (fields : Stdlib.String.t list) =
  Stdlib.List.filter_map (fun f -> match Stdlib.String.index_opt f '=' with
    | Some i -> Some (Stdlib.String.sub f 0 i, Stdlib.String.sub f (i + 1) (Stdlib.String.length f - i - 1)) | None -> None) fields

let () =
  let v2 = ref false and ud = ref false and acpu = ref (bm_req "-") and anode = ref (bm_req "-") in
  let stack : mobj list ref = ref [] and root : mobj option ref = ref None in
  let dists = ref [] and support : (n list * n) list option ref = ref None and mattrs = ref [] and kinds = ref [] and tinfos = ref [] in
  let cur_attr : (n list * n * mtarget list) option ref = ref None in
  let cur_kind : (bm * z * (n list * n list) list) option ref = ref None in
  let flush_attr () = (match !cur_attr with Some (nm, fl, tg) -> mattrs := { ma_name = nm; ma_flags = fl; ma_targets = Stdlib.List.rev tg } :: !mattrs | None -> ()); cur_attr := None in
  let flush_kind () = (match !cur_kind with Some (s, e, i) -> kinds := { ck_cpuset = s; ck_forced_efficiency = e; ck_infos = Stdlib.List.rev i } :: !kinds | None -> ()); cur_kind := None in
  let bytes_of_ocaml (s : Stdlib.String.t) = Stdlib.List.init (Stdlib.String.length s) (fun i -> n_of_int (Stdlib.Char.code s.[i])) in
  (try while true do
    let line = input_line stdin in
    match split ' ' line with
    | "MB" :: rest ->
        let h = kvs rest in
        v2 := Stdlib.List.assoc "v2" h = "1"; ud := Stdlib.List.assoc "ud" h = "1";
        acpu := bm_req (Stdlib.List.assoc "acpu" h); anode := bm_req (Stdlib.List.assoc "anode" h);
        stack := []; root := None; dists := []; support := None; mattrs := []; kinds := []; tinfos := []; cur_attr := None; cur_kind := None
    | "MO" :: nest :: tag :: ty :: os :: gp :: cs :: ccs :: nds :: cnds :: name :: sub :: attr ->
        let nest = int_of_string nest in
        let sets = match bm_of_text cs with
          | Some c -> Some { s_cpuset = c; s_complete_cpuset = bm_req ccs; s_nodeset = bm_req nds; s_complete_nodeset = bm_req cnds }
          | None -> None in
        let o = { ty = nd ty; os = (if os = "-" then None else Some (nd os)); gp = nd gp; sets; name = bytes_of_hexs name; sub = bytes_of_hexs sub;
                  attr = attr_of attr; pts = []; infos = []; uds = []; mem = []; ch = []; io = []; misc = []; nest } in
        (* pop to the parent *)
        while (match !stack with p :: _ -> p.nest >= nest | [] -> false) do stack := Stdlib.List.tl !stack done;
        (match !stack with
         | p :: _ -> (match tag with "m" -> p.mem <- o :: p.mem | "n" -> p.ch <- o :: p.ch | "i" -> p.io <- o :: p.io | _ -> p.misc <- o :: p.misc)
         | [] -> root := Some o);
        stack := o :: !stack
    | ["MP"; sz; cnt] -> (match !stack with o :: _ -> o.pts <- (nd sz, nd cnt) :: o.pts | [] -> ())
    | ["MI"; n; v] -> (match !stack with o :: _ -> o.infos <- (bytes_req n, bytes_req v) :: o.infos | [] -> ())
    | ["MU"; b64; n; b] -> (match !stack with o :: _ -> o.uds <- { ud_b64 = (b64 = "1"); ud_name = bytes_of_hexs n; ud_bytes = bytes_req b } :: o.uds | [] -> ())
    | ["MD"; het; uty; nb; kind; name; idx; vals] ->
        let idx = Stdlib.String.sub idx 4 (Stdlib.String.length idx - 4) and vals = Stdlib.String.sub vals 5 (Stdlib.String.length vals - 5) in
        let het = het = "1" in
        let items = if idx = "" then [] else split ',' idx in
        let d = { d_hetero = het; d_unique_type = (if het then N0 else nd uty); d_kind = nd kind; d_name = bytes_of_hexs name;
                  d_indexes = (if het then [] else Stdlib.List.map nd items);
                  d_objs = (if het then Stdlib.List.map (fun s -> match split ':' s with [a; b] -> (nd a, nd b) | _ -> failwith "bad obj") items else []);
                  d_values = (if vals = "" then [] else Stdlib.List.map nd (split ',' vals)) } in
        ignore nb; dists := d :: !dists
    | ["MS"; name; v] ->
        if name <> "custom.exported_support" then support := Some ((match !support with Some l -> l | None -> []) @ [(bytes_of_ocaml name, nd v)])
        else (match !support with None -> support := Some [] | Some _ -> ())
    | ["MM"; _; name; flags; _] -> flush_attr (); cur_attr := Some (bytes_req name, nd flags, [])
    | "MMT" :: ty :: gp :: nv :: _ :: inits ->
        let ini = Stdlib.List.map (fun s ->
          let i = Stdlib.String.rindex s '=' in
          let loc = Stdlib.String.sub s 0 i and v = Stdlib.String.sub s (i + 1) (Stdlib.String.length s - i - 1) in
          let l = if loc.[0] = 'c' then ICpuset (bm_req (Stdlib.String.sub loc 1 (Stdlib.String.length loc - 1)))
                  else (match split ':' (Stdlib.String.sub loc 1 (Stdlib.String.length loc - 1)) with [a; b] -> IObj (nd a, nd b) | _ -> failwith "bad initiator") in
          (l, nd v)) inits in
        (match !cur_attr with
         | Some (nm, fl, tg) -> cur_attr := Some (nm, fl, { mt_type = nd ty; mt_gp = nd gp; mt_noinit_value = nd nv; mt_initiators = ini } :: tg)
         | None -> ())
    | ["MK"; set; eff] -> flush_kind (); cur_kind := Some (bm_req set, zd eff, [])
    | ["MKI"; n; v] -> (match !cur_kind with Some (s, e, i) -> cur_kind := Some (s, e, (bytes_req n, bytes_req v) :: i) | None -> ())
    | ["MTI"; n; v] -> tinfos := (bytes_req n, bytes_req v) :: !tinfos
    | ["ME"] ->
        flush_attr (); flush_kind ();
        (match !root with
         | None -> print_endline "XM noroot"
         | Some r ->
             let t = { t_root = freeze r; t_allowed_cpuset = !acpu; t_allowed_nodeset = !anode; t_distances = Stdlib.List.rev !dists;
                       t_support = !support; t_memattrs = Stdlib.List.rev !mattrs; t_cpukinds = Stdlib.List.rev !kinds; t_infos = Stdlib.List.rev !tinfos } in
             (match export_bytes !v2 !ud t with
              | Some b -> print_endline ("XM " ^ hex_of_bytes b)
              | None -> print_endline "XM overflow"))
    | ["b64e"; h; ts] ->
        (match encode_to (bytes_req h) (nd ts) with
         | Some e -> Stdlib.Printf.printf "B64E rc=%d out=s%s00\n" (Stdlib.List.length e) (hex_of_bytes e)
         | None -> print_endline "B64E rc=-1 out=-")
    | ["b64d"; h; ts] ->
        (match decode (bytes_req h) (nd ts) with
         | Some e -> Stdlib.Printf.printf "B64D rc=%d out=s%s\n" (Stdlib.List.length e) (hex_of_bytes e)
         | None -> print_endline "B64D rc=-1 out=-")
    | _ -> ()
  done with End_of_file -> ())
