(* prelude fragment (after hvnum.ml): parser of the canonical topology dump
   (harness/hwv_dump.h) into the extracted Dump.dump record, and printers. *)
let split_on c s = Stdlib.String.split_on_char c s
let bset_of_text s =
  if s = "-" then None else begin
    let infb = s.[0] = '1' in
    let hex = Stdlib.String.sub s 2 (Stdlib.String.length s - 2) in
    let bits = bits_of_hex hex in
    let bits = if infb then Stdlib.List.map not bits else bits in
    Some { fin = n_of_bits_lsb_first bits; inf = infb }
  end
let text_of_bset o =
  match o with None -> "-" | Some b ->
    let bits = bits_of_n b.fin in
    let nb = Stdlib.List.length bits in
    let nwords = max 1 ((nb + 63) / 64) in
    let arr = Stdlib.Array.make (nwords * 64) false in
    Stdlib.List.iteri (fun i x -> arr.(i) <- x) bits;
    let arr = if b.inf then Stdlib.Array.map not arr else arr in
    let nn = nwords * 16 in
    (if b.inf then "1:" else "0:") ^
    Stdlib.String.init nn (fun k -> let i = nn - 1 - k in
      let v = ref 0 in
      for bb = 0 to 3 do if arr.(4 * i + bb) then v := !v lor (1 lsl bb) done;
      "0123456789abcdef".[!v])
let ptr_of_text s = if s = "-" then PNull else if s = "?" || s = "!cycle" || s = "!" then PBad else PId (n_of_int (int_of_string s))
let text_of_ptr = function PNull -> "-" | PBad -> "?" | PId i -> string_of_int (int_of_n i)
let ptrs_of_text s = if s = "-" then [] else Stdlib.List.map ptr_of_text (split_on ',' s)
let kv_tbl fields =
  let h = Stdlib.Hashtbl.create 64 in
  Stdlib.List.iter (fun f -> match Stdlib.String.index_opt f '=' with
    | Some i -> Stdlib.Hashtbl.replace h (Stdlib.String.sub f 0 i) (Stdlib.String.sub f (i + 1) (Stdlib.String.length f - i - 1))
    | None -> ()) fields; h
let attr_tbl s =
  let h = Stdlib.Hashtbl.create 16 in
  if s <> "-" then Stdlib.List.iter (fun f -> match Stdlib.String.index_opt f ':' with
    | Some i -> Stdlib.Hashtbl.replace h (Stdlib.String.sub f 0 i) (Stdlib.String.sub f (i + 1) (Stdlib.String.length f - i - 1))
    | None -> ()) (split_on ',' s); h
let attr_z h k = match Stdlib.Hashtbl.find_opt h k with Some v -> z_of_dec v | None -> Zneg XH

(* keeps the raw text of every O line beside the parsed record (names, infos, attrs) *)
type parsed_dump = { pd : dump; raw_objs : Stdlib.String.t array; raw_head : Stdlib.String.t }

let parse_dump_lines lines : parsed_dump =
  let flags = ref N0 and depth = ref Z0 and nobj = ref N0 and filters = ref [] and acpu = ref None and anode = ref None in
  let levels = ref [] and tdepths = ref [] and objs = ref [] and raws = ref [] and head = ref "" in
  Stdlib.List.iter (fun line ->
    if Stdlib.String.length line > 1 then
    match line.[0] with
    | 'T' ->
        head := line;
        let h = kv_tbl (split_on ' ' line) in
        flags := n_of_dec (Stdlib.Hashtbl.find h "flags"); depth := z_of_dec (Stdlib.Hashtbl.find h "depth");
        nobj := n_of_dec (Stdlib.Hashtbl.find h "nobj");
        filters := Stdlib.List.map (fun s -> n_of_int (int_of_string s)) (split_on ',' (Stdlib.Hashtbl.find h "filters"));
        acpu := bset_of_text (Stdlib.Hashtbl.find h "acpu"); anode := bset_of_text (Stdlib.Hashtbl.find h "anode")
    | 'L' ->
        (match split_on ' ' line with
         | [_; d; ty; w; ids; probe] ->
             let pr = Stdlib.String.sub probe 6 (Stdlib.String.length probe - 6) in
             levels := { l_depth = z_of_dec d; l_type = z_of_dec ty; l_width = n_of_dec w;
                         l_ids = ptrs_of_text ids; l_probe = ptr_of_text pr } :: !levels
         | _ -> failwith ("bad L line: " ^ line))
    | 'D' ->
        (match split_on ' ' line with
         | [_; _; d] -> tdepths := z_of_dec d :: !tdepths
         | _ -> failwith "bad D line")
    | 'O' ->
        let fs = split_on ' ' line in
        let id = int_of_string (Stdlib.List.nth fs 1) in
        let h = kv_tbl fs in
        let g k = Stdlib.Hashtbl.find h k in
        let a = attr_tbl (g "at") in
        let o = { o_id = n_of_int id; o_type = n_of_dec (g "ty"); o_depth = z_of_dec (g "dp"); o_os = n_of_dec (g "os");
                  o_gp = (if g "gp" = "*" then None else Some (n_of_dec (g "gp")));
                  o_parent = ptr_of_text (g "par"); o_first = ptr_of_text (g "fc"); o_last = ptr_of_text (g "lc");
                  o_prev_sib = ptr_of_text (g "ps"); o_next_sib = ptr_of_text (g "ns");
                  o_prev_cousin = ptr_of_text (g "pc"); o_next_cousin = ptr_of_text (g "nc");
                  o_arity = n_of_dec (g "ar"); o_marity = n_of_dec (g "mar"); o_iarity = n_of_dec (g "iar");
                  o_xarity = n_of_dec (g "xar"); o_rank = n_of_dec (g "rk"); o_lidx = n_of_dec (g "li");
                  o_carray = (let c = g "ca" in if c = "-" then None else if c = "!" then Some [] else Some (ptrs_of_text c));
                  o_nch = ptrs_of_text (g "nch"); o_mch = ptrs_of_text (g "mch"); o_ich = ptrs_of_text (g "ich"); o_xch = ptrs_of_text (g "xch");
                  o_cs = bset_of_text (g "cs"); o_ccs = bset_of_text (g "ccs"); o_nds = bset_of_text (g "nds"); o_cnds = bset_of_text (g "cnds");
                  o_tm = n_of_dec (g "tm"); o_lm = n_of_dec (g "lm");
                  o_cache_depth = attr_z a "cdepth"; o_cache_type = attr_z a "ctype";
                  o_group_depth = attr_z a "gdepth"; o_group_kind = attr_z a "gkind"; o_group_subkind = attr_z a "gsubkind";
                  o_pci_class = attr_z a "class"; o_os_types = attr_z a "ostypes" } in
        objs := o :: !objs; raws := line :: !raws
    | _ -> ()) lines;
  { pd = { t_flags = !flags; t_depth = !depth; t_nobj = !nobj; t_filters = !filters; t_acpu = !acpu; t_anode = !anode;
           t_levels = Stdlib.List.rev !levels; t_tdepths = Stdlib.List.rev !tdepths; t_objs = Stdlib.List.rev !objs };
    raw_objs = Stdlib.Array.of_list (Stdlib.List.rev !raws); raw_head = !head }

(* Coq string -> OCaml string *)
let ocaml_of_coq_string s = let b = Stdlib.Buffer.create 16 in
  let rec go = function EmptyString -> () | String (Ascii (b0,b1,b2,b3,b4,b5,b6,b7), tl) ->
    let v = (if b0 then 1 else 0) lor (if b1 then 2 else 0) lor (if b2 then 4 else 0) lor (if b3 then 8 else 0)
            lor (if b4 then 16 else 0) lor (if b5 then 32 else 0) lor (if b6 then 64 else 0) lor (if b7 then 128 else 0) in
    Stdlib.Buffer.add_char b (Stdlib.Char.chr v); go tl in go s; Stdlib.Buffer.contents b

(* read "T ... E" blocks from a channel; other lines are passed to [other] *)
let read_blocks ic on_dump other =
  let cur = ref [] and inside = ref false in
  (try while true do
    let l = input_line ic in
    if not !inside && Stdlib.String.length l > 1 && l.[0] = 'T' && l.[1] = ' ' then (inside := true; cur := [l])
    else if !inside then (if l = "E" then (inside := false; on_dump (Stdlib.List.rev !cur); cur := []) else cur := l :: !cur)
    else other l
  done with End_of_file -> ())
