(* C08 driver: reads the output of harness/hwv_restrict.c on stdin.  For every
   restrict step prints (other lines are echoed, dumps are swallowed):
     step set=<set> flags=<n> rc=<n> errno=<e> nobj=<before>-><after>
     rcspec ok | rcspec VIOLATION <clause>@<n> ...      restrict_rc_check
     spec ok | spec VIOLATION <clause>@<gp> ...          restrict_spec_check (rc=0) or einval_identity + raw text identity (rc<0)
     attrs ok | attrs VIOLATION gp,...                   name/subtype/infos/attributes/userdata of survivors (raw dump text)
     wf ok | wf VIOLATION ...                            wf_check after
     init wf ok | init wf VIOLATION ...                  wf_check on a dump printed outside a step (initial topology)
     model ok | model DIFF <what>                        restrict_topo (tree_of_dump before) vs after
     api ok | api DIFF                                   public accessors vs dump *)
let show_viols vs = Stdlib.String.concat " " (Stdlib.List.map (fun (c, i) -> ocaml_of_coq_string c ^ "@" ^ dec_of_n i) vs)
let field line key =
  (* value of " key=" in a raw O line *)
  let k = " " ^ key ^ "=" in
  let kl = Stdlib.String.length k and ll = Stdlib.String.length line in
  let rec find i = if i + kl > ll then None else if Stdlib.String.sub line i kl = k then Some (i + kl) else find (i + 1) in
  match find 0 with
  | None -> ""
  | Some s -> let e = (try Stdlib.String.index_from line s ' ' with Not_found -> ll) in Stdlib.String.sub line s (e - s)
let attr_fields = ["ty"; "os"; "lm"; "at"; "nm"; "st"; "inf"; "ud"]
(* attr->group.depth is renumbered by a restrict (group_depths_check states what it must be): dropped from the comparison *)
let strip_gdepth v =
  Stdlib.String.concat "," (Stdlib.List.filter (fun f -> not (Stdlib.String.length f > 7 && Stdlib.String.sub f 0 7 = "gdepth:")) (split_on ',' v))
(* ids of the Groups with dont_merge set (see Restrict.v, dont_merge_level) *)
let dont_merge_ids (p : parsed_dump) =
  let l = ref [] in
  Stdlib.Array.iteri (fun i line ->
    let a = attr_tbl (field line "at") in
    let nz k m = match Stdlib.Hashtbl.find_opt a k with Some v -> (try (int_of_string v) mod m <> 0 with _ -> true) | None -> false in
    if nz "gdontmerge" 256 then l := n_of_int i :: !l) p.raw_objs;
  Stdlib.List.rev !l

let cur : parsed_dump option ref = ref None
let pending : (bset * n * Stdlib.String.t * Stdlib.String.t * int * Stdlib.String.t) option ref = ref None   (* S, flags, set text, flags text, rc, errno *)
let rset = ref "" and rflags = ref ""

let view_diff (mv : oview list) (iv : oview list) =
  if mv = iv then None else begin
    let gp (v : oview) = let (((((g, _), _), _), _), _) = v in dec_of_n g in
    let ml = Stdlib.List.length mv and il = Stdlib.List.length iv in
    let rec first a b k = match a, b with
      | x :: a', y :: b' -> if x = y then first a' b' (k + 1) else Printf.sprintf "first difference at DFS position %d (model gp=%s impl gp=%s)" k (gp x) (gp y)
      | _, _ -> Printf.sprintf "common prefix of %d objects" k in
    Some (Printf.sprintf "objects model=%d impl=%d; %s" ml il (first mv iv 0))
  end

let on_step before after (s, fl, st, ft, rc, en) =
  Printf.printf "step set=%s flags=%s rc=%d errno=%s nobj=%d->%d\n" st ft rc en
    (Stdlib.List.length before.pd.t_objs) (Stdlib.List.length after.pd.t_objs);
  let failed = rc < 0 && en = "EINVAL" in
  (match restrict_rc_check before.pd s fl failed with
   | [] -> print_endline "rcspec ok"
   | vs -> print_endline ("rcspec VIOLATION " ^ show_viols vs));
  if rc < 0 then begin
    let vs = einval_identity before.pd after.pd in
    let raw_same = before.raw_objs = after.raw_objs && before.raw_head = after.raw_head in
    (match vs, raw_same with
     | [], true -> print_endline "spec ok"
     | _ -> print_endline ("spec VIOLATION " ^ show_viols vs ^ (if raw_same then "" else " raw-dump-text-changed@0")));
    print_endline "attrs ok"
  end else begin
    (match restrict_spec_check before.pd after.pd s fl @ dont_merge_check before.pd after.pd s fl (dont_merge_ids before)
           @ group_depths_check after.pd with
     | [] -> print_endline "spec ok"
     | vs -> print_endline ("spec VIOLATION " ^ show_viols vs));
    (* attributes of survivors, from the raw text, keyed by gp *)
    let tbl = Stdlib.Hashtbl.create 64 in
    Stdlib.Array.iter (fun l -> Stdlib.Hashtbl.replace tbl (field l "gp") l) before.raw_objs;
    let bad = ref [] in
    Stdlib.Array.iter (fun l ->
      match Stdlib.Hashtbl.find_opt tbl (field l "gp") with
      | Some ol -> if Stdlib.List.exists (fun k -> strip_gdepth (field l k) <> strip_gdepth (field ol k)) attr_fields then bad := field l "gp" :: !bad
      | None -> ()) after.raw_objs;
    (match !bad with [] -> print_endline "attrs ok" | b -> print_endline ("attrs VIOLATION " ^ Stdlib.String.concat "," (Stdlib.List.rev b)))
  end;
  (match wf_check after.pd with
   | [] -> print_endline "wf ok"
   | vs -> print_endline ("wf VIOLATION " ^ show_viols vs));
  (* model *)
  let (((code, mv), macpu), manode) = model_run before.pd (dont_merge_ids before) s fl in
  let code = int_of_n code in
  if code = 0 then print_endline (if failed then "model ok" else "model DIFF model=EINVAL impl=success")
  else if code = 1 then print_endline "model DIFF model=fault"
  else if rc < 0 then print_endline "model DIFF model=success impl=failure"
  else begin
    let ((iv, iacpu), ianode) = impl_view after.pd in
    match view_diff mv iv with
    | Some d -> print_endline ("model DIFF " ^ d)
    | None -> if macpu = iacpu && manode = ianode then print_endline "model ok" else print_endline "model DIFF allowed-sets"
  end

let () =
  read_blocks stdin
    (fun lines ->
       let p = parse_dump_lines lines in
       match !pending with
       | Some st -> (match !cur with Some b -> on_step b p st | None -> print_endline "step without-before"); pending := None; cur := Some p
       | None ->
           (match wf_check p.pd with
            | [] -> print_endline "init wf ok"
            | vs -> print_endline ("init wf VIOLATION " ^ show_viols vs));
           cur := Some p)
    (fun l ->
       if Stdlib.String.length l > 2 && l.[0] = 'R' && l.[1] = ' ' then begin
         let h = kv_tbl (split_on ' ' l) in
         rset := Stdlib.Hashtbl.find h "set"; rflags := Stdlib.Hashtbl.find h "flags"
       end else if Stdlib.String.length l > 3 && Stdlib.String.sub l 0 3 = "rc=" then begin
         let h = kv_tbl (split_on ' ' l) in
         let s = (match bset_of_text !rset with Some b -> b | None -> { fin = N0; inf = false }) in
         pending := Some (s, n_of_dec !rflags, !rset, !rflags, int_of_string (Stdlib.Hashtbl.find h "rc"), Stdlib.Hashtbl.find h "errno")
       end else if Stdlib.String.length l > 4 && Stdlib.String.sub l 0 4 = "api " then begin
         match !cur with
         | Some p when Stdlib.Array.length p.raw_objs > 0 ->
             let h = kv_tbl (split_on ' ' l) in
             let r = p.raw_objs.(0) in
             let g k = Stdlib.Hashtbl.find h k in
             let hh = kv_tbl (split_on ' ' p.raw_head) in
             if g "cs" = field r "cs" && g "ccs" = field r "ccs" && g "nds" = field r "nds" && g "cnds" = field r "cnds"
                && g "acs" = Stdlib.Hashtbl.find hh "acpu" && g "ans" = Stdlib.Hashtbl.find hh "anode"
             then print_endline "api ok" else print_endline "api DIFF"
         | _ -> print_endline "api DIFF"
       end else begin
         if l = "new" || (Stdlib.String.length l > 3 && Stdlib.String.sub l 0 3 = "new") then (cur := None; pending := None);
         print_endline l
       end)
