(* C06 model driver: stdin lines "<id> <kind topo|diff> <path>"; for each, the bytes of the file
   followed by the NUL the library's copy ends with are given to the extracted XmlLex walker and the
   token stream is printed in the format of harness/hwv_xmltok.c. *)
let hex l = match l with [] -> "-" | _ -> Stdlib.String.concat "" (Stdlib.List.map (fun b -> Printf.sprintf "%02x" (int_of_n b)) l)
let read_file p = let ic = open_in_bin p in let n = in_channel_length ic in let s = really_input_string ic n in close_in ic; s
let nbyte = Stdlib.Array.init 256 n_of_int
let bytes_of s = Stdlib.List.init (Stdlib.String.length s + 1) (fun i -> if i < Stdlib.String.length s then nbyte.(Stdlib.Char.code s.[i]) else N0)
let print_event = function
  | EAttr (n, v) -> Printf.printf "A %s %s\n" (hex n) (hex v)
  | EChild (t, c) -> Printf.printf "T %s %d\n" (hex t) (if c then 1 else 0)
  | EFindErr -> print_endline "FE"
  | EContent (r, t) -> Printf.printf "G %d %s\n" (int_of_z r) (hex t)
  | EClose ok -> Printf.printf "C %d\n" (if ok then 1 else 0)
  | EInit (a, b) -> Printf.printf "I %s %s\n" (dec_of_n a) (dec_of_n b)
  | EInitFail -> print_endline "IFAIL"
  | EFuel -> print_endline "FUEL"
(* kind imp: serialized element trees (gen/xmlfuzz_gen.py serialize_doc) -> verdict of the import model *)
let unhex s = if s = "-" then [] else Stdlib.List.init (Stdlib.String.length s / 2) (fun i -> nbyte.(int_of_string ("0x" ^ Stdlib.String.sub s (2 * i) 2)))
let rec canon t = match t with T (ty, _, kids) ->
  string_of_int (int_of_n ty) ^ "(" ^ Stdlib.String.concat "," (Stdlib.List.sort compare (Stdlib.List.map canon kids)) ^ ")"
let run_imp txt =
  let lines = Stdlib.Array.of_list (Stdlib.String.split_on_char '\n' txt) in
  let n = Stdlib.Array.length lines in
  let pos = ref 0 in
  (* parse elements until X / ENDDOC *)
  let rec elems () =
    if !pos >= n then [] else
    let l = lines.(!pos) in
    if Stdlib.String.length l > 1 && l.[0] = 'E' && l.[1] = ' ' then begin
      incr pos;
      (match Stdlib.String.split_on_char ' ' l with
       | [_; tag; closed; content] ->
         let attrs = ref [] in
         while !pos < n && Stdlib.String.length lines.(!pos) > 1 && lines.(!pos).[0] = 'A' do
           (match Stdlib.String.split_on_char ' ' lines.(!pos) with
            | [_; a; v] -> attrs := (unhex a, unhex v) :: !attrs
            | _ -> ());
           incr pos
         done;
         let kids = elems () in
         (* now at X *)
         incr pos;
         let e = Elem (unhex tag, Stdlib.List.rev !attrs, unhex content, closed = "1", kids) in
         e :: elems ()
       | _ -> [])
    end else []
  in
  while !pos < n do
    let l = lines.(!pos) in
    (match Stdlib.String.split_on_char ' ' l with
     | ["DOC"; id; major; minor] ->
       incr pos;
       let top = elems () in
       (match import_doc { d_major = n_of_int (int_of_string major); d_minor = n_of_int (int_of_string minor); d_top = top } with
        | Accept t -> Printf.printf "IMP %s accept %s\n" id (canon t)
        | Reject -> Printf.printf "IMP %s reject\n" id
        | Unmodelled -> Printf.printf "IMP %s unmodelled\n" id)
     | _ -> incr pos)
  done

let () =
  try while true do
    let l = input_line stdin in
    match Stdlib.String.split_on_char ' ' l with
    | id :: kind :: rest ->
      let path = Stdlib.String.concat " " rest in
      Printf.printf "CASE %s\n" id;
      (match (try Some (read_file path) with _ -> None) with
       | None -> print_endline "NOFILE"
       | Some txt ->
         if kind = "imp" then run_imp txt else
         if kind = "b64" then begin
           (* lines "<targsize> <text>": hwloc_decode_from_base64(text, block of targsize bytes, targsize) *)
           Stdlib.List.iter (fun l ->
             match Stdlib.String.index_opt l ' ' with
             | None -> ()
             | Some i ->
               let t = int_of_string (Stdlib.String.sub l 0 i) and text = Stdlib.String.sub l (i + 1) (Stdlib.String.length l - i - 1) in
               let src = Stdlib.List.init (Stdlib.String.length text) (fun i -> nbyte.(Stdlib.Char.code text.[i])) in
               (match decode_mem src (n_of_int t) with
                | Oob -> print_endline "B OOB"
                | Ok None -> print_endline "B -1"
                | Ok (Some (n, out)) -> Printf.printf "B %d %s\n" (int_of_n n) (hex (Stdlib.List.filteri (fun i _ -> i < int_of_n n) out))))
             (Stdlib.String.split_on_char '\n' txt)
         end else
         let s = bytes_of txt in
         (match (if kind = "topo" then walk_topology s else walk_diff s) with
          | Ok evs -> Stdlib.List.iter print_event evs
          | Oob -> print_endline "OOB"));
      print_endline "ENDCASE"
    | _ -> ()
  done with End_of_file -> ()
