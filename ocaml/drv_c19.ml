(* C19 driver: reads the output of harness/hwv_shmem.c.
   first:  "expect call <inc> <name> <0|errno|999>"  (model's outcome of every call on an adopted copy, inc = original loaded with INCLUDE_DISALLOWED)
           "expect reject <case> <errno>"
   per shmem block: dumps -> "wf ok|VIOLATION..." ; "length" + "allocseq0" -> "len ok|DIFF model= impl=" ;
   "allocseq" (after the writer's refresh) -> "fits ok|NO" ; "file ... used=" -> "used ok|DIFF ..."
   other lines echoed. *)
let reject_names = ["wrong-address"; "longer-length"; "shorter-length"; "flags"; "header-version"; "topology-abi"; "busy-range"]
let () =
  Stdlib.List.iter (fun inc ->
    Stdlib.List.iter (fun (nm, code) -> print_endline (Printf.sprintf "expect call %d %s %d" (if inc then 1 else 0) (ocaml_of_coq_string nm) (int_of_n code))) (model_calls inc)) [false; true];
  Stdlib.List.iteri (fun i nm -> print_endline (Printf.sprintf "expect reject %s %d" nm (int_of_n (model_reject (n_of_int i))))) reject_names;
  let len = ref None and sizes = ref None in
  let starts l p = Stdlib.String.length l >= Stdlib.String.length p && Stdlib.String.sub l 0 (Stdlib.String.length p) = p in
  let field l k = (* value of " k=<v>" *)
    let toks = Stdlib.String.split_on_char ' ' l in
    Stdlib.List.fold_left (fun acc t -> if starts t (k ^ "=") then Some (Stdlib.String.sub t (Stdlib.String.length k + 1) (Stdlib.String.length t - Stdlib.String.length k - 1)) else acc) None toks in
  read_blocks stdin
    (fun lines ->
       let p = parse_dump_lines lines in
       (match wf_check p.pd with
        | [] -> print_endline "wf ok"
        | vs -> print_endline ("wf VIOLATION " ^ Stdlib.String.concat " " (Stdlib.List.map (fun (c, i) -> ocaml_of_coq_string c ^ "@" ^ string_of_int (int_of_n i)) vs))))
    (fun l ->
       if starts l "length " then begin
         print_endline l;
         len := (match field l "len" with Some v -> Some (int_of_string v) | None -> None)
       end else if starts l "allocseq " then begin
         (* what is written (after the refresh of the source): must fit in what get_length counted *)
         let c = Stdlib.List.map int_of_string (Stdlib.List.tl (Stdlib.List.tl (Stdlib.List.filter (fun s -> s <> "") (Stdlib.String.split_on_char ' ' l)))) in
         let ns = Stdlib.List.map n_of_int c in
         sizes := Some ns;
         (match !len with
          | Some v when int_of_n (model_used ns) <= v -> print_endline "fits ok"
          | Some v -> print_endline (Printf.sprintf "fits NO needed=%d len=%d" (int_of_n (model_used ns)) v)
          | None -> print_endline "fits missing")
       end else if starts l "allocseq0 " then begin
         let c = Stdlib.List.map int_of_string (Stdlib.List.tl (Stdlib.List.tl (Stdlib.List.filter (fun s -> s <> "") (Stdlib.String.split_on_char ' ' l)))) in
         let ns = Stdlib.List.map n_of_int c in
         let m = int_of_n (model_get_length ns) in
         (match !len with
          | Some v when v = m -> print_endline (Printf.sprintf "len ok %d" v)
          | Some v -> print_endline (Printf.sprintf "len DIFF model=%d impl=%d" m v)
          | None -> print_endline "len missing")
       end else if starts l "file " then begin
         print_endline l;
         (match !sizes, field l "used" with
          | Some ns, Some u -> let m = int_of_n (model_used ns) in
            if m = int_of_string u then print_endline "used ok" else print_endline (Printf.sprintf "used DIFF model=%d impl=%s" m u)
          | _ -> print_endline "used missing")
       end else print_endline l)
