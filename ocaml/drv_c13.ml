(* C13 model driver: reads the lines "> cmd", "T ..", "O ..", "L .." taken from
   the C harness transcript (the object tables are the topology the model is
   told about), runs the extracted model, prints the same canonical lines as
   harness/hwv_distances.c. *)
open C13_model

let rec pos_of_int i = if i = 1 then XH else if i land 1 = 1 then XI (pos_of_int (i lsr 1)) else XO (pos_of_int (i lsr 1))
let n_of_int i = if i = 0 then N0 else Npos (pos_of_int i)
let rec nat_of_int i = if i <= 0 then O else S (nat_of_int (i - 1))
let rec int_of_nat = function O -> 0 | S k -> 1 + int_of_nat k
let z_of_int i = if i = 0 then Z0 else if i > 0 then Zpos (pos_of_int i) else Zneg (pos_of_int (-i))

(* unsigned 64-bit values travel through Int64 *)
let rec pos_of_i64 (x : int64) : positive =
  if Int64.equal x 1L then XH
  else
    let rest = Int64.shift_right_logical x 1 in
    if Int64.equal (Int64.logand x 1L) 1L then XI (pos_of_i64 rest) else XO (pos_of_i64 rest)
let n_of_i64 x = if Int64.equal x 0L then N0 else Npos (pos_of_i64 x)
let rec i64_of_pos = function
  | XH -> 1L
  | XO p -> Int64.shift_left (i64_of_pos p) 1
  | XI p -> Int64.logor (Int64.shift_left (i64_of_pos p) 1) 1L
let i64_of_n = function N0 -> 0L | Npos p -> i64_of_pos p
let n_of_string s =
  let s = if String.length s > 2 && s.[0] = '0' && (s.[1] = 'x' || s.[1] = 'X') then s else "0u" ^ s in
  n_of_i64 (Int64.of_string s)
let str_n n = Printf.sprintf "%Lu" (i64_of_n n)

let name_of_string s = if s = "-" then None else if s = "\"\"" then Some [] else Some (List.map (fun c -> n_of_int (Char.code c)) (List.of_seq (String.to_seq s)))
let string_of_name = function
  | None -> "-"
  | Some [] -> "\"\""
  | Some l -> String.concat "" (List.map (fun c -> String.make 1 (Char.chr (Int64.to_int (i64_of_n c)))) l)

let nh = 8 and ns = 16
let topo : topo option ref = ref None
let handles : idist option array = Array.make nh None
type slot = Empty | Garbage | Held of pdist
let held : slot array = Array.make ns Empty
let garbage_id = n_of_i64 0xFFFFFFFFFFL
let garbage = { p_id = garbage_id; p_nb = O; p_objs = []; p_kind = N0; p_values = [] }

let errname = function EINVAL -> "EINVAL" | ENOENT -> "ENOENT" | EPERM -> "EPERM"
let prc = function Ok _ -> print_string "rc=0 errno=-\n" | Err e -> Printf.printf "rc=-1 errno=%s\n" (errname e)

let str_ref = function None -> "N" | Some o -> Printf.sprintf "%s:%s" (str_n o.o_type) (str_n o.o_gp)
let str_list f l = "[" ^ String.concat " " (List.map f l) ^ "]"
let rec take k l = if k <= 0 then [] else match l with [] -> [] | x :: r -> x :: take (k - 1) r

(* the table lines that follow a topology-changing command *)
let last_table : (obj list * n list) ref = ref ([], [])
let read_table () : int * (obj list * n list) =
  let l = input_line stdin in
  print_string l; print_newline ();
  match String.split_on_char ' ' l with
  | ["T"; rc; "="] -> (int_of_string rc, !last_table)
  | ["T"; rc; n; _depth] ->
    let n = int_of_string n in
    let objs = ref [] in
    for _ = 1 to n do
      let ol = input_line stdin in
      print_string ol; print_newline ();
      match String.split_on_char ' ' ol with
      | ["O"; t; gp; os; nvs] ->
        objs := { o_type = n_of_string t; o_gp = n_of_string gp; o_os = n_of_string os; o_nvs = (nvs = "1") } :: !objs
      | _ -> failwith ("bad O line: " ^ ol)
    done;
    let ll = input_line stdin in
    print_string ll; print_newline ();
    let levels = match String.split_on_char ' ' ll with
      | "L" :: ts -> List.map n_of_string (List.filter (fun s -> s <> "") ts)
      | _ -> failwith ("bad L line: " ^ ll) in
    last_table := (List.rev !objs, levels);
    (int_of_string rc, !last_table)
  | _ -> failwith ("bad T line: " ^ l)

let resolve (r : string) : oref =
  match !topo with
  | None -> None
  | Some t ->
    let tab = t.t_objs in
    if r.[0] = 'N' then None
    else if r.[0] = '#' then begin
      let k = int_of_string (String.sub r 1 (String.length r - 1)) in
      let n = List.length tab in
      if n = 0 then None else Some (List.nth tab (k mod n))
    end else
      match String.split_on_char ':' r with
      | [ty; k] ->
        let ty = n_of_string ty and k = int_of_string k in
        let same = List.filter (fun o -> o.o_type = ty) tab in
        let n = List.length same in
        if n = 0 then None else Some (List.nth same (k mod n))
      | _ -> None

let dump_internal () =
  match !topo with
  | None -> ()
  | Some t ->
    List.iter (fun d ->
      let nb = int_of_nat d.d_nb in
      Printf.printf "D id=%s name=%s kind=%s ut=%s nb=%d valid=%d idx=%s dt=%s objs=%s vals=%s\n"
        (str_n d.d_id) (string_of_name d.d_name) (str_n d.d_kind) (str_n d.d_unique) nb (if d.d_valid then 1 else 0)
        (str_list str_n (take nb d.d_indexes))
        (match d.d_diff with None -> "-" | Some l -> str_list str_n (take nb l))
        (if d.d_valid then str_list str_ref (take nb d.d_objs) else "-")
        (str_list str_n (take (nb * nb) d.d_values))) t.t_dists;
    Printf.printf "next_id=%s\n" (str_n t.t_next_id)

let print_held s =
  match held.(s), !topo with
  | Empty, _ | _, None -> Printf.printf "H %d NULL\n" s
  | Garbage, _ -> Printf.printf "H %d GARBAGE\n" s
  | Held p, Some t ->
    let nb = int_of_nat p.p_nb in
    Printf.printf "H %d id=%s name=%s nb=%d kind=%s objs=%s vals=%s\n" s (str_n p.p_id)
      (string_of_name (get_name t p)) nb (str_n p.p_kind)
      (str_list str_ref (take nb p.p_objs)) (str_list str_n (take (nb * nb) p.p_values))

let drop_user_state () =
  Array.fill held 0 ns Empty;
  Array.fill handles 0 nh None

let imod a b = ((a mod b) + b) mod b

let exec (line : string) =
  let tok = Array.of_list (List.filter (fun s -> s <> "") (String.split_on_char ' ' line)) in
  let ntok = Array.length tok in
  if ntok = 0 then () else begin
    let dump = ref true in
    (match tok.(0), !topo with
     | "case", _ -> dump := false
     | "topo", _ ->
       drop_user_state ();
       last_table := ([], []);
       let (rc, (objs, levels)) = read_table () in
       topo := if rc < 0 then None else Some { t_objs = objs; t_levels = levels; t_dists = []; t_next_id = N0 }
     | "rawrestrict", _ when ntok >= 3 ->
       let nb = int_of_string tok.(1) in
       if String.length tok.(2) <> nb || ntok <> 3 + nb * nb then print_string "rc=skip\n"
       else begin
         let keep = List.init nb (fun i -> tok.(2).[i] = '1') in
         let dis = List.length (List.filter not keep) in
         let vals = List.init (nb * nb) (fun i -> n_of_string tok.(3 + i)) in
         let dummy = { o_type = N0; o_gp = N0; o_os = N0; o_nvs = false } in
         let objs = List.map (fun k -> if k then Some dummy else None) keep in
         let idx = List.init nb (fun i -> n_of_int (100 + i)) and dt = List.init nb (fun i -> n_of_int (i mod 7)) in
         let v' = restrict_values keep (nat_of_int nb) (nat_of_int dis) vals in
         let ((o', idx'), dt') = restrict_arrays (nat_of_int nb) O O objs (Some idx) (Some dt) in
         let unopt = function Some l -> l | None -> [] in
         Printf.printf "R vals=%s keep=[%s] idx=%s dt=%s\n" (str_list str_n v')
           (String.concat "" (List.map (fun r -> if r = None then "0" else "1") o'))
           (str_list str_n (unopt idx')) (str_list str_n (unopt dt'))
       end
     | "groups", _ when ntok >= 2 ->
       let nb = int_of_string tok.(1) in
       if ntok <> 2 + nb * nb then print_string "rc=skip\n"
       else begin
         let vals = List.init (nb * nb) (fun i -> n_of_string tok.(2 + i)) in
         let chk = check_grouping_matrix (nat_of_int nb) vals in
         match find_groups_by_min_distance (nat_of_int nb) vals with
         | None -> print_string "G fuel-exhausted\n"
         | Some (ng, ids) ->
           Printf.printf "G check=%d ngroups=%d ids=%s\n" (if chk then 0 else -1) (int_of_nat ng)
             (str_list (fun k -> string_of_int (int_of_nat k)) ids)
       end
     | _, None -> print_string "notopo\n"; dump := false
     | "nvs", Some t when ntok = 2 ->
       let (_, (objs, levels)) = read_table () in
       topo := Some (set_objects t objs levels false)
     | "create", Some t when ntok = 5 ->
       let h = imod (int_of_string tok.(1)) nh in
       handles.(h) <- None;
       let (t', r) = add_create t (name_of_string tok.(2)) (n_of_string tok.(3)) (n_of_string tok.(4)) in
       topo := Some t';
       (match r with Ok d -> handles.(h) <- Some d | Err _ -> ());
       prc r
     | "values", Some _ when ntok >= 4 ->
       let h = imod (int_of_string tok.(1)) nh and nb = int_of_string tok.(3) in
       (match handles.(h) with
        | Some d when ntok = 4 + nb + nb * nb ->
          let objs = List.init nb (fun i -> resolve tok.(4 + i)) in
          let vals = List.init (nb * nb) (fun i -> n_of_string tok.(4 + nb + i)) in
          let r = add_values d (nat_of_int nb) objs vals (n_of_string tok.(2)) in
          prc r;
          (match r with Ok d' -> handles.(h) <- Some d' | Err _ -> handles.(h) <- None)
        | _ -> print_string "rc=skip\n")
     | "commit", Some t when ntok = 3 ->
       let h = imod (int_of_string tok.(1)) nh in
       (match handles.(h) with
        | None -> print_string "rc=skip\n"
        | Some d ->
          let (t', r) = add_commit t d (n_of_string tok.(2)) in
          topo := Some t'; handles.(h) <- None; prc r);
       let (_, (objs, levels)) = read_table () in
       (match !topo with Some t -> topo := Some (set_objects t objs levels false) | None -> ())
     | "get", Some t when ntok = 6 ->
       let nr = min ns (int_of_string tok.(5)) in
       let kind = n_of_string tok.(3) and flags = n_of_string tok.(4) in
       Array.fill held 0 ns Empty;
       let g = List.init nr (fun _ -> Some garbage) in
       let (t', r) =
         match tok.(1) with
         | "all" -> get_all t kind flags g
         | "type" -> get_by_type t (n_of_string tok.(2)) kind flags g
         | "depth" -> get_by_depth t (z_of_int (int_of_string tok.(2))) kind flags g
         | _ -> get_by_name t (name_of_string tok.(2)) flags g in
       topo := Some t';
       (match r with
        | Err _ -> prc r
        | Ok (nrout, arr) ->
          Printf.printf "rc=0 errno=- nr=%d\n" (int_of_nat nrout);
          List.iteri (fun i x ->
            held.(i) <- (match x with None -> Empty | Some p -> if p.p_id = garbage_id then Garbage else Held p);
            print_held i) arr;
          Array.iteri (fun i x -> if x = Garbage then held.(i) <- Empty) held)
     | "release", Some _ when ntok = 2 -> held.(imod (int_of_string tok.(1)) ns) <- Empty
     | "rr", Some t when ntok = 2 ->
       let s = imod (int_of_string tok.(1)) ns in
       (match held.(s) with
        | Held p ->
          let (t', r) = release_remove t p in
          topo := Some t'; prc r;
          (match r with Ok _ -> held.(s) <- Empty | Err _ -> ())
        | _ -> print_string "rc=skip\n")
     | "remove", Some t -> let (t', r) = remove_all t in topo := Some t'; prc r
     | "rmdepth", Some t when ntok = 2 ->
       let (t', r) = remove_by_depth t (z_of_int (int_of_string tok.(1))) in topo := Some t'; prc r
     | "transform", Some _ when ntok = 5 ->
       let s = imod (int_of_string tok.(1)) ns in
       (match held.(s) with
        | Held p ->
          let (p', r) = transform p (n_of_int (int_of_string tok.(2))) (int_of_string tok.(3) <> 0) (n_of_string tok.(4)) in
          held.(s) <- Held p'; prc r; print_held s
        | _ -> print_string "rc=skip\n")
     | "setobj", Some _ when ntok = 4 ->
       let s = imod (int_of_string tok.(1)) ns and i = int_of_string tok.(2) in
       (match held.(s) with
        | Held p when i < int_of_nat p.p_nb ->
          held.(s) <- Held (user_set_obj p (nat_of_int i) (resolve tok.(3))); print_held s
        | _ -> print_string "rc=skip\n")
     | "restrict", Some t when ntok = 3 ->
       drop_user_state ();
       let (rc, (objs, levels)) = read_table () in
       if rc = 0 then topo := Some (set_objects t objs levels true)
     | "refresh", Some t -> topo := Some (refresh t); print_string "rc=0 errno=-\n"
     | "dup", Some t ->
       drop_user_state ();
       print_string "rc=0 errno=-\n";
       let (rc, (objs, levels)) = read_table () in
       (* the public hwloc_topology_dup refreshes the copy (/repo fix "refresh the distances and memory attribute caches of
          a duplicated topology"): hwloc_internal_distances_dup (the model's dup), then refresh against the copy's objects *)
       if rc = 0 then topo := Some (topology_dup t objs levels)
     | "xml", Some t ->
       drop_user_state ();
       (* the new object table comes after the rc line in the transcript: predict first *)
       let save = !last_table in
       (* peek: the rc line is printed by the model from its own prediction, which
          needs the table; read the table silently, then print in harness order *)
       let buf = Buffer.create 256 in
       let l = input_line stdin in
       Buffer.add_string buf l; Buffer.add_char buf '\n';
       let (rc, (objs, levels)) =
         match String.split_on_char ' ' l with
         | ["T"; rc; "="] -> (int_of_string rc, save)
         | ["T"; rc; n; _] ->
           let n = int_of_string n in
           let objs = ref [] in
           for _ = 1 to n do
             let ol = input_line stdin in
             Buffer.add_string buf ol; Buffer.add_char buf '\n';
             match String.split_on_char ' ' ol with
             | ["O"; ty; gp; os; nvs] ->
               objs := { o_type = n_of_string ty; o_gp = n_of_string gp; o_os = n_of_string os; o_nvs = (nvs = "1") } :: !objs
             | _ -> failwith "bad O line"
           done;
           let ll = input_line stdin in
           Buffer.add_string buf ll; Buffer.add_char buf '\n';
           let levels = match String.split_on_char ' ' ll with
             | "L" :: ts -> List.map n_of_string (List.filter (fun s -> s <> "") ts)
             | _ -> failwith "bad L line" in
           last_table := (List.rev !objs, levels);
           (int_of_string rc, !last_table)
         | _ -> failwith ("bad T line: " ^ l) in
       ignore rc;
       (match xml_roundtrip t objs levels with
        | Ok t' -> print_string "rc=0 errno=-\n"; topo := Some t'
        | Err e -> Printf.printf "rc=-1 errno=%s\n" (errname e));
       print_string (Buffer.contents buf)
     | _ -> print_string "badcmd\n"; dump := false);
    if !dump then dump_internal ()
  end

let () =
  try
    while true do
      let l = input_line stdin in
      if String.length l >= 2 && l.[0] = '>' && l.[1] = ' ' then begin
        print_string l; print_newline ();
        exec (String.sub l 2 (String.length l - 2))
      end
    done
  with End_of_file -> ()
