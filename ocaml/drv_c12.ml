(* C12 driver: reads the output of harness/hwv_dup.c on stdin.
   - every canonical dump (T..E)            -> "wf ok" | "wf VIOLATION ..."   (verified checker wf_check)
   - "PA <raw tree>" then "PB <raw tree>"   -> "tree ok" | "tree DIFF path=<cell indexes> ..."   model's dup_tree(PA) against PB
                                               "modelwf ok|BAD", and remembers the model's request sequence (C order)
   - "allocseq n s..."                      -> "seq ok n=<n>" | "seq DIFF at=<i> model=<m> impl=<c>"
   - first: "class <field> shared|dropped" (declared by the model), "allowed <field>" (property)
   every other line is echoed. *)
let nat_of_tok s = (* decimal, any size *)
  if Stdlib.String.length s <= 17 then n_of_int (int_of_string s) else n_of_dec s
let parse_tree (line : Stdlib.String.t) : tree =
  let toks = Stdlib.Array.of_list (Stdlib.List.filter (fun s -> s <> "") (Stdlib.String.split_on_char ' ' line)) in
  let pos = ref 0 in
  let next () = let t = toks.(!pos) in incr pos; t in
  let rec node () =
    (* "(" already consumed *)
    let k = nat_of_tok (next ()) in
    let n = nat_of_tok (next ()) in
    let cells = ref [] in
    let fin = ref false in
    while not !fin do
      let t = next () in
      if t = ")" then fin := true
      else if t = "(" then cells := COwn (node ()) :: !cells
      else begin
        let rest = Stdlib.String.sub t 1 (Stdlib.String.length t - 1) in
        let c = match t.[0] with
          | 'v' -> CV (nat_of_tok rest)
          | 'x' -> CV (n_of_hex rest)
          | 'n' -> CNull
          | 'z' -> CZ
          | 'u' -> CUndef
          | 'o' -> COpq (nat_of_tok rest)
          | 'l' -> CLink (nat_of_tok rest)
          | _ -> failwith ("bad cell " ^ t) in
        cells := c :: !cells
      end
    done;
    T (k, n, Stdlib.List.rev !cells) in
  (* skip up to the first "(" *)
  while toks.(!pos) <> "(" do incr pos done;
  incr pos;
  node ()

let show_path p = Stdlib.String.concat "." (Stdlib.List.map (fun i -> string_of_int (int_of_n i)) p)
let rec cell_at (t : tree) (p : n list) : Stdlib.String.t =
  match t, p with
  | T (k, n, _), [] -> Printf.sprintf "node(kind=%d,n=%s)" (int_of_n k) (dec_of_n n)
  | T (k, _, cs), i :: r ->
    (match Stdlib.List.nth_opt cs (int_of_n i) with
     | None -> Printf.sprintf "kind=%d:missing" (int_of_n k)
     | Some (COwn t') -> if r = [] then (match t' with T (k', n', _) -> Printf.sprintf "kind=%d:own(kind=%d,n=%s)" (int_of_n k) (int_of_n k') (dec_of_n n')) else cell_at t' r
     | Some (CV v) -> Printf.sprintf "kind=%d:v%s" (int_of_n k) (dec_of_n v)
     | Some CNull -> Printf.sprintf "kind=%d:null" (int_of_n k)
     | Some CZ -> Printf.sprintf "kind=%d:z" (int_of_n k)
     | Some CUndef -> Printf.sprintf "kind=%d:undef" (int_of_n k)
     | Some (COpq g) -> Printf.sprintf "kind=%d:o%d" (int_of_n k) (int_of_n g)
     | Some (CLink g) -> Printf.sprintf "kind=%d:l%d" (int_of_n k) (int_of_n g))

let () =
  Stdlib.List.iter (fun (nm, sh) -> print_endline ("class " ^ ocaml_of_coq_string nm ^ (if sh then " shared" else " dropped"))) declared_classes;
  Stdlib.List.iter (fun nm -> print_endline ("allowed " ^ ocaml_of_coq_string nm)) allowed_shared;
  let ta = ref None and mseq = ref None in
  let starts l p = Stdlib.String.length l >= Stdlib.String.length p && Stdlib.String.sub l 0 (Stdlib.String.length p) = p in
  read_blocks stdin
    (fun lines ->
       let p = parse_dump_lines lines in
       (match wf_check p.pd with
        | [] -> print_endline "wf ok"
        | vs -> print_endline ("wf VIOLATION " ^ Stdlib.String.concat " " (Stdlib.List.map (fun (c, i) -> ocaml_of_coq_string c ^ "@" ^ string_of_int (int_of_n i)) vs))))
    (fun l ->
       if starts l "PA " then begin
         let t = parse_tree l in
         ta := Some t;
         print_endline (if model_wf t then "modelwf ok" else "modelwf BAD");
         mseq := model_sizes (dup_tree t);      (* the tree that is laid out is the normalised one *)
         (match !mseq with None -> print_endline "modelview BAD" | Some _ -> ())
       end else if starts l "PB " then begin
         let tb = parse_tree l in
         match !ta with
         | None -> print_endline "tree nosource"
         | Some t ->
           let m = dup_tree t in
           if tree_eqb m tb then print_endline "tree ok"
           else (match tree_diff m tb with
               | Some p -> print_endline ("tree DIFF path=" ^ show_path p ^ " model=" ^ cell_at m p ^ " impl=" ^ cell_at tb p)
               | None -> print_endline "tree DIFF path=?")
       end else if starts l "allocseq " then begin
         let c = Stdlib.List.map int_of_string (Stdlib.List.tl (Stdlib.List.tl (Stdlib.List.filter (fun s -> s <> "") (Stdlib.String.split_on_char ' ' l)))) in
         match !mseq with
         | None -> print_endline "seq nomodel"
         | Some ms ->
           let m = Stdlib.List.map int_of_n ms in
           let rec cmp i a b = match a, b with
             | [], [] -> None
             | x :: a', y :: b' -> if x = y then cmp (i + 1) a' b' else Some (i, string_of_int x, string_of_int y)
             | x :: _, [] -> Some (i, string_of_int x, "end")
             | [], y :: _ -> Some (i, "end", string_of_int y) in
           (match cmp 0 m c with
            | None -> print_endline (Printf.sprintf "seq ok n=%d" (Stdlib.List.length c))
            | Some (i, x, y) -> print_endline (Printf.sprintf "seq DIFF at=%d model=%s impl=%s" i x y))
       end else print_endline l)
