(* C16 driver: reads the transcript printed by harness/hwv_diff.c (tables of A
   and B, hand-built lists), runs the extracted model of diff.c on them and
   prints the same result lines (build/D/apply/S/SI/rebuild/unapply/hand/X),
   plus "hyp ..." lines with the executable hypotheses of the theorems. *)
type str = string
module St = String
open C16_model

(* strings stay in their transcript encoding ("-" = NULL, "s<hex>") which is
   injective; the model only compares them *)
let coq_string (s : str) : C16_model.string =
  let r = ref EmptyString in
  for i = St.length s - 1 downto 0 do
    let c = Char.code s.[i] in
    let b k = (c lsr k) land 1 = 1 in
    r := String (Ascii (b 0, b 1, b 2, b 3, b 4, b 5, b 6, b 7), !r)
  done; !r
let ocaml_string (s : C16_model.string) : str =
  let b = Buffer.create 16 in
  let rec go = function
    | EmptyString -> ()
    | String (Ascii (b0, b1, b2, b3, b4, b5, b6, b7), r) ->
      let v x k = if x then 1 lsl k else 0 in
      Buffer.add_char b (Char.chr (v b0 0 + v b1 1 + v b2 2 + v b3 3 + v b4 4 + v b5 5 + v b6 6 + v b7 7)); go r in
  go s; Buffer.contents b
let ostr s = if s = "-" then None else Some (coq_string s)
let pr_ostr = function None -> "-" | Some s -> ocaml_string s

let uint_of_string (s : str) : uint =
  let r = ref Nil in
  for i = St.length s - 1 downto 0 do
    r := (match s.[i] with
        | '0' -> D0 !r | '1' -> D1 !r | '2' -> D2 !r | '3' -> D3 !r | '4' -> D4 !r
        | '5' -> D5 !r | '6' -> D6 !r | '7' -> D7 !r | '8' -> D8 !r | '9' -> D9 !r
        | _ -> failwith ("bad number " ^ s))
  done; !r
let string_of_uint (u : uint) : str =
  let b = Buffer.create 20 in
  let rec go = function
    | Nil -> ()
    | D0 r -> Buffer.add_char b '0'; go r | D1 r -> Buffer.add_char b '1'; go r
    | D2 r -> Buffer.add_char b '2'; go r | D3 r -> Buffer.add_char b '3'; go r
    | D4 r -> Buffer.add_char b '4'; go r | D5 r -> Buffer.add_char b '5'; go r
    | D6 r -> Buffer.add_char b '6'; go r | D7 r -> Buffer.add_char b '7'; go r
    | D8 r -> Buffer.add_char b '8'; go r | D9 r -> Buffer.add_char b '9'; go r in
  go u; if Buffer.length b = 0 then "0" else Buffer.contents b
let n_of_string s = N.of_uint (uint_of_string s)
let string_of_n x = string_of_uint (N.to_uint x)
let z_of_string s =
  if St.length s > 0 && s.[0] = '-' then
    (match Z.of_N (n_of_string (St.sub s 1 (St.length s - 1))) with Zpos p -> Zneg p | z -> z)
  else Z.of_N (n_of_string s)
let string_of_z = function
  | Z0 -> "0" | Zpos p -> string_of_n (Npos p) | Zneg p -> "-" ^ string_of_n (Npos p)
let b01 x = if x then "1" else "0"

(* ---- parsing of the tables ---- *)
type rawobj = { nest : int; lst : int; at : oattr }

let rec take_infos toks k =
  if k = 0 then [] else match toks with
    | n :: v :: r -> (coq_string n, coq_string v) :: take_infos r (k - 1)
    | _ -> failwith "infos"

let parse_O toks =
  match toks with
  | nest :: lst :: depth :: lidx :: typ :: subtype :: os :: cs :: ccs :: ns :: cns :: name :: tattr :: lmem :: tmem :: ninf :: rest ->
    { nest = int_of_string nest; lst = int_of_string lst;
      at = { a_depth = z_of_string depth; a_lidx = n_of_string lidx; a_type = n_of_string typ; a_subtype = ostr subtype;
             a_os_index = n_of_string os;
             a_sets = { s_cpuset = ostr cs; s_ccpuset = ostr ccs; s_nodeset = ostr ns; s_cnodeset = ostr cns };
             a_name = ostr name; a_tattr = coq_string tattr; a_lmem = n_of_string lmem; a_tmem = n_of_string tmem;
             a_infos = take_infos rest (int_of_string ninf) } }
  | _ -> failwith "O line"

(* preorder list with nesting levels -> tree *)
let build_tree (objs : rawobj list) : obj =
  let rest = ref objs in
  let rec node () =
    match !rest with
    | [] -> failwith "empty tree"
    | o :: r ->
      rest := r;
      let kids = Array.make 4 [] in
      let rec loop () =
        match !rest with
        | c :: _ when c.nest = o.nest + 1 ->
          let l = c.lst in
          let ch = node () in
          kids.(l) <- ch :: kids.(l); loop ()
        | _ -> () in
      loop ();
      Obj (o.at, List.rev kids.(0), List.rev kids.(1), List.rev kids.(2), List.rev kids.(3)) in
  node ()

type acc = { mutable nbl : z; mutable acpu : C16_model.string option; mutable anode : C16_model.string option;
             mutable tinfos : (C16_model.string * C16_model.string) list; mutable dists : (bool * C16_model.string) list;
             mutable mattrs : mattr list; mutable kinds : C16_model.string list; mutable objs : rawobj list }
let new_acc () = { nbl = Z0; acpu = None; anode = None; tinfos = []; dists = []; mattrs = []; kinds = []; objs = [] }
let finish a : topo =
  { t_root = build_tree (List.rev a.objs); t_nbl = a.nbl; t_allowed_cpuset = a.acpu; t_allowed_nodeset = a.anode;
    t_infos = List.rev a.tinfos; t_dists = List.rev a.dists;
    t_memattrs = List.rev_map (fun m -> { m with ma_targets = List.rev m.ma_targets }) a.mattrs;
    t_cpukinds = List.rev a.kinds }

(* ---- printing ---- *)
let print_entry e =
  match e with
  | ETooComplex (d, i) -> Printf.printf "D tc %s %s\n" (string_of_z d) (string_of_n i)
  | EOther t -> Printf.printf "D other %s\n" (string_of_n t)
  | EAttr (d, i, ad) ->
    Printf.printf "D a %s %s " (string_of_z d) (string_of_n i);
    (match ad with
     | DSize (x, o, n) -> Printf.printf "size %s %s %s\n" (string_of_n x) (string_of_n o) (string_of_n n)
     | DName (o, n) -> Printf.printf "name - %s %s\n" (pr_ostr o) (pr_ostr n)
     | DInfo (nm, o, n) -> Printf.printf "info %s %s %s\n" (ocaml_string nm) (ocaml_string o) (ocaml_string n)
     | DOther t -> Printf.printf "other %s\n" (string_of_n t))

let parse_entry toks =
  match toks with
  | ["tc"; d; i] -> ETooComplex (z_of_string d, n_of_string i)
  | ["other"; t] -> EOther (n_of_string t)
  | ["a"; d; i; "size"; x; o; n] -> EAttr (z_of_string d, n_of_string i, DSize (n_of_string x, n_of_string o, n_of_string n))
  | ["a"; d; i; "name"; _; o; n] -> EAttr (z_of_string d, n_of_string i, DName (ostr o, ostr n))
  | ["a"; d; i; "info"; nm; o; n] -> EAttr (z_of_string d, n_of_string i, DInfo (coq_string nm, coq_string o, coq_string n))
  | ["a"; d; i; "other"; t] -> EAttr (z_of_string d, n_of_string i, DOther (n_of_string t))
  | _ -> failwith "entry"

let print_state tag (t : topo) =
  List.iter (fun a ->
      Printf.printf "S %s %s %s %s %s %s %d" tag (string_of_z a.a_depth) (string_of_n a.a_lidx) (pr_ostr a.a_name)
        (string_of_n a.a_lmem) (string_of_n a.a_tmem) (List.length a.a_infos);
      List.iter (fun (n, v) -> Printf.printf " %s %s" (ocaml_string n) (ocaml_string v)) a.a_infos;
      print_newline ()) (attrs t);
  List.iter (fun (n, v) -> Printf.printf "SI %s %s %s\n" tag (ocaml_string n) (ocaml_string v)) t.t_infos

let hyp tag (t : topo) =
  Printf.printf "hyp %s keys_unique=%s depths_ok=%s vals_u64=%s names_set=%s info_names_nodup=%s info_pairs_nodup=%s no_hetero=%s tmem_consistent=%s\n"
    tag (b01 (keys_unique t)) (b01 (depths_addressable t)) (b01 (vals_u64 t)) (b01 (names_set t)) (b01 (info_names_nodup t)) (b01 (info_pairs_nodup t))
    (b01 (no_hetero_dists t)) (b01 (tmem_consistent t))

(* does the list hold an INFO entry on an object (or on the topology infos) that carries that info name twice?
   (hwloc_apply_diff_one patches the first (name, old value) match: known finding dup-info-name) *)
let dupname_hit (t : topo) (d : entry list) : bool =
  let count nm l = List.length (List.filter (fun (n, _) -> n = nm) l) in
  List.exists (function
      | EAttr (dd, i, DInfo (nm, _, _)) ->
        if dd = t.t_nbl then count nm t.t_infos >= 2
        else List.exists (fun a -> a.a_depth = dd && a.a_lidx = i && count nm a.a_infos >= 2) (attrs t)
      | _ -> false) d

let entry_nonnull = function EAttr (_, _, DName (o, n)) -> o <> None && n <> None | _ -> true

exception Case_crashed of str

(* --prefix=rollback,name,memattr : follow the code as it was BEFORE the corresponding
   fix commit (751402d, 566d2c2, ac5e4b1); used only to replay the old defects *)
let pre_rollback = ref false
let pre_name = ref false
let pre_mattr = ref false
let apply flags d t = if !pre_rollback then diff_apply_forward_cancel flags d t else diff_apply flags d t
let diff_build flags a b = diff_build_gen (not !pre_name) (not !pre_mattr) flags a b

let () =
  Array.iter (fun a ->
      if St.length a > 9 && St.sub a 0 9 = "--prefix=" then
        List.iter (fun w -> if w = "rollback" then pre_rollback := true else if w = "name" then pre_name := true
                    else if w = "memattr" then pre_mattr := true)
          (St.split_on_char ',' (St.sub a 9 (St.length a - 9)))) Sys.argv;
  let topoA = ref None and topoB = ref None in
  let cur : (str * acc) option ref = ref None in
  let crashed = ref false in
  let pending_hand : (n * int * entry list) option ref = ref None in
  let getA () = match !topoA with Some t -> t | None -> failwith "no A" in
  let tag_acc tag =
    match !cur with
    | Some (t, a) when t = tag -> a
    | _ -> let a = new_acc () in cur := Some (tag, a); a in
  let run_hand flags d =
    let a = getA () in
    Printf.printf "hyph slots_distinct=%s nonnull=%s dupname_hit=%s u64=%s\n" (b01 (slots_distinct a.t_nbl d)) (b01 (List.for_all entry_nonnull d)) (b01 (dupname_hit a d))
      (b01 (List.for_all entry_u64 d));
    (match apply flags d a with
     | ACrash -> raise (Case_crashed "apply")
     | ARet (rc, t) -> Printf.printf "hand %s\n" (string_of_z rc); print_state "H" t) in
  (try while true do
      let l = input_line stdin in
      let toks = List.filter (fun s -> s <> "") (St.split_on_char ' ' l) in
      try
        (match toks with
         | "case" :: _ -> print_endline l; topoA := None; topoB := None; cur := None; crashed := false; pending_hand := None
         | "X" :: _ -> if not !crashed then print_endline "X ok"
         | _ when !crashed -> ()
         | "D" :: rest when !pending_hand <> None ->
           (match !pending_hand with
            | Some (flags, k, acc) ->
              print_endline l;
              let acc = parse_entry rest :: acc in
              if k = 1 then (pending_hand := None; run_hand flags (List.rev acc))
              else pending_hand := Some (flags, k - 1, acc)
            | None -> ())
         | "T" :: tag :: nbl :: acpu :: anode :: _ ->
           let a = tag_acc tag in a.nbl <- z_of_string nbl; a.acpu <- ostr acpu; a.anode <- ostr anode
         | "TI" :: tag :: n :: v :: _ -> let a = tag_acc tag in a.tinfos <- (coq_string n, coq_string v) :: a.tinfos
         | "TD" :: tag :: h :: p :: _ -> let a = tag_acc tag in a.dists <- (h = "1", coq_string p) :: a.dists
         | "TM" :: tag :: hdr :: need :: _ ->
           let a = tag_acc tag in a.mattrs <- { ma_hdr = coq_string hdr; ma_need_init = (need = "1"); ma_targets = [] } :: a.mattrs
         | "TMT" :: tag :: id :: noinit :: _ :: inits ->
           let a = tag_acc tag in
           (match a.mattrs with
            | m :: r -> a.mattrs <- { m with ma_targets = { mt_id = coq_string id; mt_noinit = coq_string noinit;
                                                          mt_inits = List.map coq_string inits } :: m.ma_targets } :: r
            | [] -> failwith "TMT")
         | "TK" :: tag :: p :: _ -> let a = tag_acc tag in a.kinds <- coq_string p :: a.kinds
         | "O" :: tag :: rest -> let a = tag_acc tag in a.objs <- parse_O rest :: a.objs
         | "E" :: tag :: _ ->
           let a = tag_acc tag in
           let t = finish a in
           cur := None;
           if tag = "A" then topoA := Some t else if tag = "B" then topoB := Some t
         | "dobuild" :: _ ->
           print_endline "dobuild";
           let a = getA () in
           let b = (match !topoB with Some t -> t | None -> failwith "no B") in
           hyp "A" a; hyp "B" b;
           let top t = (t.t_allowed_cpuset, t.t_allowed_nodeset, t.t_dists, t.t_cpukinds) in
           Printf.printf "eq root=%s top=%s tinfos=%s tinfonames=%s mattr=%s skel=%s\n"
             (b01 (erase a.t_root = erase b.t_root)) (b01 (top a = top b)) (b01 (a.t_infos = b.t_infos))
             (b01 (List.map fst a.t_infos = List.map fst b.t_infos))
             (b01 (a.t_memattrs = b.t_memattrs)) (b01 (skel a.t_root = skel b.t_root));
           (match diff_build N0 a b with
            | BOverread -> raise (Case_crashed "build-overread")
            | BRet (rc, d) ->
              Printf.printf "build %s %d\n" (string_of_z rc) (List.length d);
              List.iter print_entry d;
              (match diff_build N0 b a with
               | BOverread -> raise (Case_crashed "revbuild-overread")
               | BRet (rr, rd) -> Printf.printf "revbuild %s %d tc=%s\n" (string_of_z rr) (List.length rd)
                                    (b01 (List.exists (function ETooComplex _ -> true | _ -> false) rd)));
              Printf.printf "hypd slots_distinct=%s nonnull=%s dupname_hit=%s\n" (b01 (slots_distinct a.t_nbl d)) (b01 (List.for_all entry_nonnull d)) (b01 (dupname_hit a d));
              if rc = Z0 then begin
                match apply N0 d a with
                | ACrash -> raise (Case_crashed "apply")
                | ARet (r1, p1) ->
                  Printf.printf "apply %s\n" (string_of_z r1); print_state "P1" p1;
                  (match diff_build N0 p1 b with
                   | BOverread -> raise (Case_crashed "rebuild-overread")
                   | BRet (r2, d2) -> Printf.printf "rebuild %s %d\n" (string_of_z r2) (List.length d2));
                  (match apply flag_reverse d p1 with
                   | ACrash -> raise (Case_crashed "unapply")
                   | ARet (r3, p2) -> Printf.printf "unapply %s\n" (string_of_z r3); print_state "P2" p2)
              end)
         | "misuse" :: "build-flags" :: _ ->
           (match !topoA, !topoB with
            | Some a, Some b ->
              (match diff_build (n_of_string "1") a b with
               | BRet (rc, d) -> Printf.printf "mflags %s %d\n" (string_of_z rc) (List.length d)
               | BOverread -> print_endline "mflags overread")
            | _ -> ())
         | "hand" :: flags :: cnt :: [] ->
           print_endline l;
           let k = int_of_string cnt in
           if k = 0 then run_hand (n_of_string flags) [] else pending_hand := Some (n_of_string flags, k, [])
         | _ -> ())
      with Case_crashed why -> crashed := true; Printf.printf "X crash %s\n" why
    done with End_of_file -> ())
