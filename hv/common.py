"""Shared machinery for the hwloc verification checks (see DESIGN.md section 2).

Everything is rebuilt from the *current* working tree of the hwloc repository
(HWLOC_VERIF_REPO, default /repo).  Build output lives under /verif/build
(git-ignored) and is keyed by content hashes so that a changed source forces a
rebuild and an unchanged one is reused.
"""
import hashlib
import json
import os
import random
import re
import shutil
import subprocess
import sys
import time

VERIF = os.path.dirname(os.path.dirname(os.path.abspath(__file__)))
REPO = os.environ.get("HWLOC_VERIF_REPO", "/repo")
BUILD = os.path.join(VERIF, "build")
COQ_SRC = os.path.join(VERIF, "coq")
# Coq build trees.  The main tree (coq/) is built by `check.py setup`.  Every
# property check (`use_tree("Cxx")`) and every non-default source root
# (mutation self-tests) builds in its own copy under build/, seeded with the
# compiled files of the main tree, so that checks never wait for each other
# and a regenerated Gen/Tables.v of one run never disturbs another.
_ALT = "" if os.path.realpath(REPO) == "/repo" else "-alt-" + hashlib.md5(os.path.realpath(REPO).encode()).hexdigest()[:10]
COQ = COQ_SRC if not _ALT else os.path.join(BUILD, "coq" + _ALT)


def _mtime_or_0(path):
    try:
        return os.path.getmtime(path)
    except OSError:
        return 0


def use_tree(name):
    """Select the private Coq build tree of one check."""
    global COQ
    COQ = os.path.join(BUILD, "coq-%s%s" % (name, _ALT))
    # forget the trees of mutation self-tests that were not used for two hours
    try:
        for n in os.listdir(BUILD):
            pth = os.path.join(BUILD, n)
            if n.startswith("coq") and "-alt-" in n and os.path.isdir(pth) and time.time() - max(os.path.getmtime(pth), os.stat(pth).st_ctime) > 7200:   # ctime: rsync -a restores old mtimes while it is still filling a new tree
                shutil.rmtree(pth, ignore_errors=True)
    except OSError:
        pass
    return COQ


EVID = os.path.join(VERIF, "evidence")
REPLAY = os.path.join(EVID, "replay")
NCPU = os.cpu_count() or 4

LIB_SOURCES = [
    "topology.c", "traversal.c", "distances.c", "memattrs.c", "cpukinds.c",
    "components.c", "bind.c", "bitmap.c", "pci-common.c", "diff.c", "shmem.c",
    "misc.c", "base64.c", "topology-noos.c", "topology-synthetic.c",
    "topology-xml.c", "topology-xml-nolibxml.c", "topology-xml-libxml.c",
    "topology-pci.c", "topology-linux.c", "topology-hardwired.c",
    "topology-x86.c",
]
LINK_LIBS = ["-lm", "-ludev", "-lpciaccess", "-lxml2", "-lpthread"]
GUARD = "HWLOC_VERIF"


def log(*a):
    print(*a, file=sys.stderr, flush=True)


def sh(cmd, timeout=None, cwd=None, env=None, input=None, check=False):
    """Run a command (list), capture output.  Returns (rc, stdout, stderr)."""
    try:
        p = subprocess.run(cmd, cwd=cwd, env=env, input=input, timeout=timeout,
                           stdout=subprocess.PIPE, stderr=subprocess.PIPE)
        rc, out, err = p.returncode, p.stdout, p.stderr
    except subprocess.TimeoutExpired as e:
        rc, out, err = 124, e.stdout or b"", (e.stderr or b"") + b"\nTIMEOUT"
    if check and rc != 0:
        raise RuntimeError("command failed (%d): %s\n%s" % (rc, " ".join(cmd), err.decode(errors="replace")[-4000:]))
    return rc, out, err


def file_hash(paths, extra=""):
    h = hashlib.sha256()
    h.update(extra.encode())
    for p in sorted(paths):
        h.update(p.encode())
        try:
            with open(p, "rb") as f:
                h.update(f.read())
        except OSError:
            h.update(b"<missing>")
    return h.hexdigest()[:16]


# --------------------------------------------------------------------------
# Implementation side: build the library from the current tree
# --------------------------------------------------------------------------

def repo_source_files():
    fs = []
    for d in ("hwloc", "include", "include/hwloc", "include/private",
              "include/hwloc/autogen", "include/private/autogen", "utils/hwloc"):
        dd = os.path.join(REPO, d)
        if not os.path.isdir(dd):
            continue
        for n in os.listdir(dd):
            if n.endswith((".c", ".h")):
                fs.append(os.path.join(dd, n))
    return fs


def repo_hash():
    return file_hash(repo_source_files())


def cflags(san=True, opt="-O1"):
    fl = [opt, "-g", "-DHAVE_CONFIG_H", "-D" + GUARD,
          "-I" + os.path.join(REPO, "include"), "-I" + os.path.join(REPO, "hwloc"),
          "-I/usr/include/libxml2", "-DHWLOC_INSIDE_LIBHWLOC",
          '-DHWLOC_PLUGINS_PATH=""', '-DRUNSTATEDIR="/var/run"',
          "-fvisibility=default", "-w"]
    if san == "tsan":
        fl += ["-fsanitize=thread"]
    elif san:
        fl += ["-fsanitize=address,undefined", "-fno-sanitize-recover=undefined",
               "-fno-omit-frame-pointer"]
    return fl


# coverage survey mode (gen/coverage_survey.sh): HWV_COV=1 builds the library with gcov instrumentation in a
# separate cache; never used by the registered commands
COV = os.environ.get("HWV_COV") == "1"


def ensure_config_headers():
    """The generated headers are git-ignored; regenerate them out of tree if a
    restored /repo lacks them."""
    need = [os.path.join(REPO, "include/hwloc/autogen/config.h"),
            os.path.join(REPO, "include/private/autogen/config.h"),
            os.path.join(REPO, "hwloc/static-components.h")]
    if all(os.path.exists(p) for p in need):
        return
    log("[hv] generated headers missing in %s: running configure out of tree" % REPO)
    import tempfile
    d = tempfile.mkdtemp(prefix="hwv-conf-")
    try:
        sh([os.path.join(REPO, "configure"), "--disable-cairo"], cwd=d, timeout=600, check=True)
        for rel in ("include/hwloc/autogen/config.h", "include/private/autogen/config.h",
                    "hwloc/static-components.h"):
            src = os.path.join(d, rel)
            if os.path.exists(src) and not os.path.exists(os.path.join(REPO, rel)):
                shutil.copy(src, os.path.join(REPO, rel))
    finally:
        shutil.rmtree(d, ignore_errors=True)


def build_lib(san=True):
    """Compile the 22 library sources of this configuration from the current
    tree into build/lib-<hash>/libhwloc_v.a.  Returns the archive path."""
    ensure_config_headers()
    tag = {True: "asan", False: "plain", "tsan": "tsan"}[san] + ("cov" if COV else "")
    h = repo_hash()
    d = os.path.join(BUILD, "lib-%s-%s" % (tag, h))
    lib = os.path.join(d, "libhwloc_v.a")
    if os.path.exists(lib):
        os.utime(d)
        return lib
    if COV:      # built in place: one builder at a time
        with locked("covlib-%s-%s" % (tag, h)):
            if os.path.exists(lib):
                return lib
            return _build_lib_at(san, d, lib, tag)
    return _build_lib_at(san, d, lib, tag)


def _build_lib_at(san, d, lib, tag):
    # keep the 6 most recently used library builds of this flavour
    if os.path.isdir(BUILD):
        def _mt(n):
            try:
                return os.path.getmtime(os.path.join(BUILD, n))
            except OSError:
                return 0
        names = [n for n in os.listdir(BUILD) if n.startswith("lib-%s-" % tag)]
        olds = sorted((n for n in names if ".tmp" not in n), key=_mt)
        for n in olds[:-8]:
            shutil.rmtree(os.path.join(BUILD, n), ignore_errors=True)
        for n in names:     # builds in progress belong to other processes; only forget abandoned ones
            if ".tmp" in n and time.time() - _mt(n) > 1800:
                shutil.rmtree(os.path.join(BUILD, n), ignore_errors=True)
    d_final = d
    if not COV:      # gcov bakes the object directory into the binary: build in place
        d = d + ".tmp%d" % os.getpid()
    os.makedirs(d, exist_ok=True)
    t0 = time.time()
    procs = []
    for s in LIB_SOURCES:
        o = os.path.join(d, s[:-2] + ".o")
        cmd = ["gcc"] + cflags(san) + (["--coverage", "-fprofile-update=atomic"] if COV else []) + ["-c", os.path.join(REPO, "hwloc", s), "-o", o]
        procs.append((s, subprocess.Popen(cmd, stdout=subprocess.PIPE, stderr=subprocess.PIPE)))
    fail = []
    for s, p in procs:
        out, err = p.communicate()
        if p.returncode != 0:
            fail.append((s, err.decode(errors="replace")))
    if fail:
        shutil.rmtree(d, ignore_errors=True)
        raise RuntimeError("library build failed: " + "\n".join("%s:\n%s" % f for f in fail)[-6000:])
    objs = [os.path.join(d, s[:-2] + ".o") for s in LIB_SOURCES]
    sh(["ar", "rcs", os.path.join(d, "libhwloc_v.a")] + objs, check=True)
    try:
        if d != d_final:
            os.rename(d, d_final)
    except OSError:
        shutil.rmtree(d, ignore_errors=True)   # somebody else built it meanwhile
    log("[hv] built %s in %.1fs" % (lib, time.time() - t0))
    return lib


def build_harness(name, sources, san=True, with_lib=True, extra_flags=(), deps=()):
    """Compile a C harness under /verif/harness against the current tree.
    `sources` are paths relative to /verif/harness.  The binary is cached on the
    hash of (repo sources, harness sources)."""
    srcs = [os.path.join(VERIF, "harness", s) for s in sources]
    deps = [os.path.join(VERIF, "harness", s) for s in deps]
    tag = {True: "asan", False: "plain", "tsan": "tsan"}[san] + ("cov" if COV else "")
    h = file_hash(srcs + deps + repo_source_files(), extra=tag + " ".join(extra_flags))
    d = os.path.join(BUILD, "harness")
    os.makedirs(d, exist_ok=True)
    exe = os.path.join(d, "%s-%s-%s" % (name, tag, h))
    if os.path.exists(exe):
        os.utime(exe)
        return exe
    olds = sorted((n for n in os.listdir(d) if n.startswith("%s-%s-" % (name, tag)) and ".tmp" not in n),
                  key=lambda n: _mtime_or_0(os.path.join(d, n)))      # another check may be pruning the same directory
    for n in olds[:-5]:
        try:
            os.unlink(os.path.join(d, n))
        except OSError:
            pass
    cmd = ["gcc"] + cflags(san) + ["-I" + os.path.join(VERIF, "harness"),
                                    "-I" + os.path.join(REPO, "utils/hwloc")] + list(extra_flags) + srcs
    if with_lib:
        cmd += [build_lib(san)]
    tmp = exe + ".tmp%d" % os.getpid()
    cmd += ["-o", tmp] + LINK_LIBS + (["-lgcov"] if COV else [])
    rc, out, err = sh(cmd, timeout=600)
    if rc != 0:
        raise RuntimeError("harness build failed (%s):\n%s" % (name, err.decode(errors="replace")[-6000:]))
    os.rename(tmp, exe)
    return exe


ASAN_ENV = {"ASAN_OPTIONS": "detect_leaks=1:abort_on_error=0:exitcode=97:allocator_may_return_null=1",
            "UBSAN_OPTIONS": "print_stacktrace=1:halt_on_error=1:exitcode=98",
            "LSAN_OPTIONS": "exitcode=96"}


def run_env(**kw):
    e = dict(os.environ)
    e.update(ASAN_ENV)
    e["HWLOC_HIDE_ERRORS"] = "2"
    e.update(kw)
    return e


# --------------------------------------------------------------------------
# Model side: tables translator, Coq build, extraction
# --------------------------------------------------------------------------

def regen_tables():
    """Translator (DESIGN 3.1): compile harness/tables.c against the *current*
    sources and let it print coq/Gen/Tables.v.  Only rewritten when changed so
    that `make` stays incremental."""
    incs = sorted(n for n in os.listdir(os.path.join(VERIF, "harness")) if re.fullmatch(r"tables_\w+\.inc", n))
    os.makedirs(BUILD, exist_ok=True)
    xh = os.path.join(BUILD, "tables_extra.h")
    xtxt = "".join('#include "%s"\n' % os.path.join(VERIF, "harness", n) for n in incs)
    # each extension prints into its own Coq module (exported), so that two extensions may emit the same constant
    xtxt += "#define HV_TABLES_EXTRA_CALLS " + " ".join(
        'printf("\\nModule T_%s.\\n"); emit_%s(); printf("End T_%s.\\nExport T_%s.\\n");' % ((n[7:-4],) * 4) for n in incs) + "\n"
    if not os.path.exists(xh) or open(xh).read() != xtxt:
        open(xh, "w").write(xtxt)
    exe = build_harness("tables", ["tables.c"], san=True, with_lib=True, deps=incs,
                        extra_flags=['-DHV_TOPOLOGY_C="%s"' % os.path.join(REPO, "hwloc/topology.c"),
                                     '-DHV_TABLES_EXTRA="%s"' % xh,
                                     "-DHV_XH_HASH=%s" % hashlib.md5(xtxt.encode()).hexdigest(),
                                     ])
    rc, out, err = sh([exe], timeout=60)
    if rc != 0:
        raise RuntimeError("tables translator failed: " + err.decode(errors="replace"))
    dst = os.path.join(COQ, "Gen", "Tables.v")
    os.makedirs(os.path.dirname(dst), exist_ok=True)
    old = None
    if os.path.exists(dst):
        with open(dst, "rb") as f:
            old = f.read()
    if old != out:
        main = os.path.join(COQ_SRC, "Gen", "Tables.v")
        if old is None and dst != main and os.path.exists(main) and open(main, "rb").read() == out:
            shutil.copy2(main, dst)     # same content as the main tree: keep its mtime so the seeded .vo stay valid
        else:
            with open(dst, "wb") as f:
                f.write(out)
    return dst


def coq_files():
    res = []
    for root, _, names in os.walk(COQ):
        rel = os.path.relpath(root, COQ)
        if rel.startswith("Extract") or rel.startswith("scratch"):
            continue
        for n in names:
            if n.endswith(".v") and not n.startswith("."):
                res.append(os.path.normpath(os.path.join(rel, n)))
    return sorted(res)


import contextlib
import fcntl


@contextlib.contextmanager
def locked(name):
    os.makedirs(BUILD, exist_ok=True)
    with open(os.path.join(BUILD, name + ".lock"), "w") as f:
        fcntl.flock(f, fcntl.LOCK_EX)
        try:
            yield
        finally:
            fcntl.flock(f, fcntl.LOCK_UN)


def _sync_alt_coq():
    if COQ == COQ_SRC:
        return
    os.makedirs(COQ, exist_ok=True)

    def vfiles(root):
        res = set()
        for r, _, names in os.walk(root):
            for n in names:
                if n.endswith(".v") and not n.startswith(".") and not (n == "Tables.v" and os.path.basename(r) == "Gen"):
                    res.add(os.path.relpath(os.path.join(r, n), root))
        return res
    for attempt in range(4):     # a source file being rewritten while rsync runs is seen as missing: copy again
        sh(["rsync", "-a", "--delete", "--exclude=Gen/Tables.v", "--include=*/", "--include=*.v", "--exclude=*",
            COQ_SRC + "/", COQ + "/"], check=True)
        if vfiles(COQ_SRC) == vfiles(COQ):
            break
        time.sleep(1.0)
    os.utime(COQ)    # rsync -a gave the directory the source's mtime: mark it as in use (use_tree prunes idle alt trees)
    # first use: seed with the compiled files of the main tree to stay incremental
    if not os.path.exists(os.path.join(COQ, ".seeded")):
        sh(["rsync", "-a", "--include=*/", "--include=*.vo", "--include=*.glob", "--include=*.vos", "--include=*.vok", "--include=*.assumptions",
            "--exclude=*", COQ_SRC + "/", COQ + "/"])
        open(os.path.join(COQ, ".seeded"), "w").close()


def coq_prepare():
    _sync_alt_coq()
    regen_tables()
    files = coq_files()
    proj = "-Q . HV\n-arg -w -arg -notation-overridden,-deprecated-hint-without-locality,-deprecated-instance-without-locality\n" + "\n".join(files) + "\n"
    pj = os.path.join(COQ, "_CoqProject")
    old = open(pj).read() if os.path.exists(pj) else None
    if old != proj or not os.path.exists(os.path.join(COQ, "Makefile")):
        with open(pj, "w") as f:
            f.write(proj)
        sh(["coq_makefile", "-f", "_CoqProject", "-o", "Makefile"], cwd=COQ, check=True, timeout=120)


def coq_make(targets=None, timeout=3000):
    """Full .vo build (never -vos) of the given targets, -k so that an
    independent file's failure does not hide others.  Returns (ok, log)."""
    with locked("coq-" + os.path.basename(COQ)):
        coq_prepare()
        cmd = ["make", "-k", "-j%d" % NCPU]
        if targets:
            cmd += targets
        rc, out, err = sh(cmd, cwd=COQ, timeout=timeout)
    txt = out.decode(errors="replace") + err.decode(errors="replace")
    return rc == 0, txt


def coq_failures(logtxt):
    """Map coqc errors back to file/line and the enclosing lemma name."""
    res = []
    for m in re.finditer(r'File "\./([^"]+)", line (\d+), characters [^\n]*\n(Error:[^\n]*(?:\n[^\n]+){0,6})', logtxt):
        f, line, msg = m.group(1), int(m.group(2)), m.group(3)
        name = None
        try:
            lines = open(os.path.join(COQ, f)).read().split("\n")
            for i in range(min(line, len(lines)) - 1, -1, -1):
                mm = re.match(r"\s*(?:Local\s+|Global\s+)?(Theorem|Lemma|Corollary|Example|Definition|Fixpoint|Fact|Remark|Proposition|Instance)\s+([A-Za-z0-9_']+)", lines[i])
                if mm:
                    name = mm.group(2)
                    break
        except OSError:
            pass
        res.append({"file": f, "line": line, "name": name, "error": msg.strip()[:600]})
    return res


FORBIDDEN = re.compile(r"\b(Admitted|admit|Axiom|Axioms|Parameter|Parameters|Conjecture|Abort All|Unset Guard Checking|Unset Positivity Checking|Unset Universe Checking|bypass_check|Admit Obligations|native_compute)\b")


def _strip_coq_comments(txt):
    out, depth, i = [], 0, 0
    while i < len(txt):
        if txt.startswith("(*", i):
            depth += 1
            i += 2
        elif txt.startswith("*)", i) and depth > 0:
            depth -= 1
            i += 2
        else:
            if depth == 0:
                out.append(txt[i])
            i += 1
    return "".join(out)


def coq_hygiene(files=None):
    """No Admitted/admit/Axiom/Parameter/... anywhere in the development
    (Variables/Hypotheses are only allowed inside Sections: checked by coqc's
    own 'Print Assumptions' output below each theorem)."""
    bad = []
    for f in (files or coq_files()):
        txt = _strip_coq_comments(open(os.path.join(COQ, f)).read())
        for m in FORBIDDEN.finditer(txt):
            line = txt.count("\n", 0, m.start()) + 1
            bad.append("%s:%d: %s" % (f, line, m.group(1)))
    return bad


def coq_deps(vfile):
    """Transitive list of project .v files a file depends on (coqdep)."""
    seen, todo = set(), [vfile]
    while todo:
        f = todo.pop()
        if f in seen:
            continue
        seen.add(f)
        rc, out, err = sh(["coqdep", "-Q", ".", "HV", f], cwd=COQ, timeout=60)
        for m in re.finditer(r"(\S+)\.vo\b", out.decode().split(":", 1)[-1]):
            p = os.path.normpath(m.group(1) + ".v")
            if os.path.exists(os.path.join(COQ, p)) and p not in seen:
                todo.append(p)
    return sorted(seen)


def prove(prop_id, extra_targets=()):
    """Discharge the proof obligations of Props/Properties_<id>.v against the
    regenerated tables.  Returns a dict for the evidence."""
    pf = "Props/Properties_%s.v" % prop_id
    t0 = time.time()
    ok, logtxt = coq_make([pf + "o"] + list(extra_targets))
    deps = coq_deps(pf)
    hyg = coq_hygiene(deps)
    src = _strip_coq_comments(open(os.path.join(COQ, pf)).read())
    theorems = re.findall(r"^\s*(?:Theorem|Corollary)\s+([A-Za-z0-9_']+)", src, re.M)
    examples = re.findall(r"^\s*Example\s+([A-Za-z0-9_']+)", src, re.M)
    # lemmas in dependencies count as obligations too
    lemmas = 0
    for d in deps:
        if d == pf:
            continue
        t = _strip_coq_comments(open(os.path.join(COQ, d)).read())
        lemmas += len(re.findall(r"^\s*(?:Local\s+)?(?:Theorem|Lemma|Corollary|Fact|Remark|Proposition|Example)\s+[A-Za-z0-9_']+", t, re.M))
    fails = coq_failures(logtxt) if not ok else []
    # Print Assumptions output: lines following "Closed under the global context" or "Axioms:"
    assumptions = []
    closed = logtxt.count("Closed under the global context")
    for m in re.finditer(r"Axioms:\n((?:.+\n)+?)(?=\S|\Z)", logtxt):
        assumptions.append(m.group(1).strip())
    glob = os.path.join(COQ, pf[:-2] + ".assumptions")
    if ok:
        # make prints Print Assumptions output only when the file is (re)compiled;
        # keep the last one beside the .vo so that cached builds still report it.
        if closed or assumptions:
            with open(glob, "w") as f:
                json.dump({"closed": closed, "axioms": assumptions}, f)
        elif os.path.exists(glob):
            j = json.load(open(glob))
            closed, assumptions = j["closed"], j["axioms"]
    n_obl = len(theorems) + len(examples) + lemmas
    return {
        "ok": ok and not hyg,
        "file": pf,
        "theorems": theorems,
        "examples": examples,
        "obligations": n_obl,
        "discharged": n_obl if ok else max(0, n_obl - max(1, len(fails))),
        "failures": fails,
        "hygiene": hyg,
        "closed_under_global_context": closed,
        "axioms": assumptions,
        "deps": deps,
        "log_tail": logtxt[-3000:] if not ok else "",
        "wall_s": round(time.time() - t0, 2),
        "checker_cmd": "cd /verif/coq && coq_makefile -f _CoqProject -o Makefile && make -k -j%d %so   (coqc 8.16.1, full .vo build; Gen/Tables.v regenerated from %s by harness/tables.c first)" % (NCPU, pf, REPO),
    }


def extract(prop_id, driver, extra_ml=(), prelude=()):
    """Compile coq/Extract/Extract_<id>.v (ExtrOcamlBasic only) in a build
    directory and link the extracted module with ocaml/<driver>.  Returns the
    executable path.  Cached on the hash of every .v it depends on."""
    with locked("coq-" + os.path.basename(COQ)):
        _sync_alt_coq()
    ev = os.path.join(COQ, "Extract", "Extract_%s.v" % prop_id)
    txt = open(ev).read()
    if re.search(r"Extract\s+(Constant|Inductive|Inlined)", _strip_coq_comments(txt)):
        raise RuntimeError("Extract_%s.v uses an Extract directive beyond ExtrOcamlBasic" % prop_id)
    ok, logtxt = coq_make([re.sub(r"\.v$", ".vo", d) for d in _extract_requires(txt)])
    if not ok:
        raise RuntimeError("model does not compile: " + logtxt[-3000:])
    vs = [os.path.join(COQ, f) for f in coq_files()] + [ev, os.path.join(VERIF, "ocaml", driver)] + \
         [os.path.join(VERIF, "ocaml", m) for m in list(extra_ml) + list(prelude)]
    h = file_hash(vs)
    # one directory per (building check tree, extracted property): a check that reuses another
    # property's extraction (C06/C18 use C01's) must not wipe the driver of a concurrent run
    d = os.path.join(BUILD, "extract", os.path.basename(COQ) + "--" + prop_id)
    exe = os.path.join(d, "drv-" + h)
    if os.path.exists(exe):
        return exe
    # two simultaneous runs of the same check share this directory: one builds, the other waits and reuses
    with locked("extract-" + os.path.basename(COQ) + "--" + prop_id):
        return _extract_locked(prop_id, driver, extra_ml, prelude, ev, d, exe)


def _extract_locked(prop_id, driver, extra_ml, prelude, ev, d, exe):
    if os.path.exists(exe):
        return exe
    shutil.rmtree(d, ignore_errors=True)
    os.makedirs(d)
    shutil.copy(ev, os.path.join(d, "Extract_%s.v" % prop_id))
    sh(["coqc", "-Q", COQ, "HV", "Extract_%s.v" % prop_id], cwd=d, timeout=900, check=True)
    mls = sorted(n for n in os.listdir(d) if n.endswith(".ml"))
    mlis = sorted(n for n in os.listdir(d) if n.endswith(".mli"))
    if len(mls) != 1:
        raise RuntimeError("expected exactly one extracted module, got %r" % mls)
    for m in list(extra_ml):
        shutil.copy(os.path.join(VERIF, "ocaml", m), os.path.join(d, m))
    # the driver = `open <Model>` + prelude fragments (ocaml/hvnum.ml, hvdump.ml, ...) + its own text
    with open(os.path.join(d, driver), "w") as f:
        if prelude:
            f.write("open %s\n" % (mls[0][:-3].capitalize()))
        for m in list(prelude) + [driver]:
            f.write("# 1 \"%s\"\n" % m)
            f.write(open(os.path.join(VERIF, "ocaml", m)).read() + "\n")
    cmd = ["ocamlfind", "ocamlopt", "-w", "-a", "-package", "str", "-linkpkg"] + mlis + mls + list(extra_ml) + [driver, "-o", exe]
    sh(cmd, cwd=d, timeout=900, check=True)
    return exe


def _extract_requires(txt):
    res = []
    txt = _strip_coq_comments(txt)
    names = re.findall(r"HV\.([A-Za-z0-9_.]+)", txt)
    for m in re.finditer(r"From\s+HV\s+Require\s+(?:Import|Export)?\s*([^.]*(?:\.[A-Za-z][^.]*)*)\.\s", txt):
        names += m.group(1).split()
    for n in names:
        p = n.strip().rstrip(".").replace(".", "/") + ".v"
        if os.path.exists(os.path.join(COQ, p)) and p not in res:
            res.append(p)
    if not res:
        raise RuntimeError("cannot find the model files required by the extraction file")
    return res


# --------------------------------------------------------------------------
# Known findings, verdicts, evidence
# --------------------------------------------------------------------------

def known_findings(prop_id):
    res = []
    p = os.path.join(VERIF, "known_findings.txt")
    if not os.path.exists(p):
        return res
    for line in open(p):
        line = line.strip()
        m = re.match(r"known:\s+property=(\S+)\s+key=(\S+)\s+(.*)", line)
        if m and m.group(1) == prop_id:
            res.append({"key": m.group(2), "what": m.group(3)})
    return res


class Run:
    """One execution of one property's check."""

    def __init__(self, prop_id, tier, seed):
        self.id = prop_id
        self.tier = tier
        self.seed = seed
        self.t0 = time.time()
        self.rng = random.Random("%s/%d" % (prop_id, seed))
        self.violations = []   # dicts: key, what, replay_text, no_input(bool)
        self.cov = {"evaluations": 0, "distinct_nontrivial": 0, "samples": [],
                    "traces_validated_against_impl": 0}
        self.assumptions = []
        self._distinct = set()
        self.hist = {}
        self.known = known_findings(prop_id)
        self.known_hit = {}

    # -- counting -------------------------------------------------------
    def count(self, transcript, nontrivial=True, sample=None, kind=None):
        self.cov["evaluations"] += 1
        if kind:
            self.hist[kind] = self.hist.get(kind, 0) + 1
        if nontrivial:
            hh = hashlib.md5(transcript.encode() if isinstance(transcript, str) else transcript).digest()
            self._distinct.add(hh)
        if sample is not None and len(self.cov["samples"]) < 3:
            self.cov["samples"].append(sample)

    def bump(self, kind, n=1):
        self.hist[kind] = self.hist.get(kind, 0) + n

    # -- violations -----------------------------------------------------
    def violation(self, key, what, replay_text, no_input=False):
        for k in self.known:
            if re.fullmatch(k["key"], key):
                self.known_hit.setdefault(k["key"], k["what"])
                return
        if any(v["key"] == key for v in self.violations):
            return
        self.violations.append({"key": key, "what": what, "replay": replay_text, "no_input": no_input})

    def finish(self, proof, level="proof", extra_cov=None, trusted=None):
        os.makedirs(REPLAY, exist_ok=True)
        self.cov["distinct_nontrivial"] = len(self._distinct)
        self.cov["input_distribution"] = self.hist
        if proof is not None:
            self.cov["obligations"] = proof["obligations"]
            self.cov["discharged"] = proof["discharged"]
            self.cov["checker_cmd"] = proof["checker_cmd"]
            self.cov["theorems"] = proof["theorems"]
            self.cov["non_vacuity_examples"] = proof["examples"]
            self.cov["refuted_theorems"] = [t for t in proof["theorems"] if t.endswith("_refuted")]
            self.cov["partial_theorems"] = [t for t in proof["theorems"] if t.endswith("_partial")]
            tb = ["Coq 8.16.1 kernel via coqc (vm_compute used in finite-domain proofs; no native_compute)",
                  "Print Assumptions: %d theorem(s) 'Closed under the global context'; axioms listed: %s" % (
                      proof["closed_under_global_context"], "; ".join(a.replace("\n", " ") for a in proof["axioms"]) or "none"),
                  "translator harness/tables.c (Gen/Tables.v regenerated from the current source on this run)",
                  "extraction: ExtrOcamlBasic only (its Extract Inductive bool/option/unit/prod/list/sumbool/sumor and inlined fst/snd/andb/orb), OCaml 4.13.1",
                  "hand-written model tied by differential execution (C harness vs extracted model) and spec checkers run on the C outputs"]
            self.cov["trusted_base"] = tb + (trusted or [])
            self.cov["proof_wall_s"] = proof["wall_s"]
            if not proof["ok"]:
                names = [f.get("name") or f["file"] for f in proof["failures"]] or proof["hygiene"] or ["build"]
                txt = "kind: theorem\nproperty: %s\nrepo_hash: %s\nbroken obligations:\n" % (self.id, repo_hash())
                for f in proof["failures"]:
                    txt += "  %s:%d %s\n    %s\n" % (f["file"], f["line"], f.get("name"), f["error"].replace("\n", "\n    "))
                for hbad in proof["hygiene"]:
                    txt += "  hygiene: %s\n" % hbad
                txt += proof["log_tail"]
                # only reported as no-failing-input-found if the search found nothing
                if not self.violations:
                    self.violation("theorem:" + ",".join(map(str, names)), "proof obligation no longer checks: " + ",".join(map(str, names)), txt, no_input=True)
        if extra_cov:
            self.cov.update(extra_cov)
        # schema: integer counters, boolean "exhaustive", string rule/explanation/checker_cmd, list samples/trusted_base
        if "exhaustive" in self.cov and not isinstance(self.cov["exhaustive"], bool):
            self.cov["exhaustively_enumerated_part"] = self.cov.pop("exhaustive")   # only part of the run is exhaustive
        for k in ("evaluations", "distinct_nontrivial", "states", "transitions", "traces_validated_against_impl",
                  "obligations", "discharged", "programs", "disagreements_checked"):
            if k in self.cov and not (isinstance(self.cov[k], int) and not isinstance(self.cov[k], bool) and self.cov[k] >= 0):
                self.cov[k + "_note"] = self.cov.pop(k)
        for k in ("rule", "explanation", "checker_cmd"):
            if k in self.cov and not isinstance(self.cov[k], str):
                self.cov[k] = json.dumps(self.cov[k])
        for k, what in self.known_hit.items():
            print("KNOWN-FINDING: property=%s %s" % (self.id, what))
        self.cov["known_findings_matched"] = sorted(self.known_hit)
        rc = 0
        # at most 40 replay files / VIOLATION lines per run (concrete inputs first); the total is in the evidence
        MAXV = 40
        if len(self.violations) > MAXV:
            self.cov["violations_not_listed"] = len(self.violations) - MAXV
            ordered = [v for v in self.violations if not v["no_input"]] + [v for v in self.violations if v["no_input"]]
            shown = ordered[:MAXV]
        else:
            shown = self.violations
        for i, v in enumerate(shown):
            path = os.path.join(REPLAY, "%s-%d.case" % (self.id, i))
            with open(path, "w") as f:
                f.write("property: %s\ntier: %s\nseed: %d\nkey: %s\nwhat: %s\nrepo_hash: %s\n---\n%s\n" % (
                    self.id, self.tier, self.seed, v["key"], v["what"], repo_hash(), v["replay"]))
            print("VIOLATION property=%s replay=%s%s" % (self.id, path, " no-failing-input-found" if v["no_input"] else ""))
            log("   ", v["what"][:300])
            rc = 1
        ev = {"property_id": self.id, "tier": self.tier, "seed": self.seed, "level": level,
              "coverage": self.cov, "assumptions": self.assumptions,
              "wall_s": round(time.time() - self.t0, 2), "violations": len(self.violations)}
        # evidence/<id>.json only ever describes a run against /repo itself; a run against another source root
        # (seeded change, mutant: HWLOC_VERIF_REPO) writes its evidence under build/
        evdir = EVID if not _ALT else os.path.join(BUILD, "evidence" + _ALT)
        os.makedirs(evdir, exist_ok=True)
        with open(os.path.join(evdir, "%s.json" % self.id), "w") as f:
            json.dump(ev, f, indent=1, default=str)
        print("%s: %s (%d evaluations, %d distinct non-trivial, %.1fs)" % (
            self.id, "HOLDS" if rc == 0 else "VIOLATED", self.cov["evaluations"],
            self.cov["distinct_nontrivial"], time.time() - self.t0))
        return rc
