(* C04: general round trip of the hwloc format (hwloc_bitmap_snprintf then
   hwloc_bitmap_sscanf) for every well-formed bitmap.  The printed text is a
   stream of 32-bit groups; the parser loop is related to a group-level function
   [assemble]; word arithmetic shows that assembling the printed groups gives the
   words back. *)
From Coq Require Import String Ascii.
From Coq Require Import NArith ZArith PeanoNat List Bool Lia.
From HV Require Import Base.BSet Base.Bytes Base.Strto Base.Snprintf Bitmap.BitmapText
  Bitmap.BitmapTextProofs Bitmap.BitmapTextProofsTaskset.
Import ListNotations.
Local Open Scope N_scope.

(* text of one group; [last]: the very last group of the string *)
Definition gtext (v : N) (last : bool) : list N :=
  if negb (v =? 0) then lit "0x" ++ hex_fixed 8 v else if last then lit "0x0" else [].
(* groups each preceded by its comma *)
Fixpoint ctext (gs : list N) : list N :=
  match gs with
  | [] => []
  | g :: r => COMMA :: gtext g (match r with [] => true | _ => false end) ++ ctext r
  end.
Definition groups_of (desc : list N) : list N := flat_map (fun w => [w / W32; w mod W32]) desc.

Lemma hwloc_group_comma v last :
  hwloc_group v true false last = (Some (COMMA :: gtext v last), true).
Proof.
  unfold hwloc_group, gtext. cbn [andb]. destruct (v =? 0); cbn [negb]; [destruct last|]; reflexivity.
Qed.

Lemma groups_of_nil desc : groups_of desc = [] -> desc = [].
Proof. destruct desc; [reflexivity|discriminate]. Qed.

Lemma hwloc_loop_ctext rest : concat (hwloc_loop rest true false) = ctext (groups_of rest).
Proof.
  induction rest as [|w rest IH]; [reflexivity|].
  cbn [hwloc_loop]. rewrite !hwloc_group_comma. cbn [fst snd opt_piece].
  rewrite !concat_app. cbn [concat]. rewrite !app_nil_r, IH.
  cbn [groups_of flat_map app ctext]. fold (groups_of rest).
  destruct rest as [|w2 rest2]; cbn [groups_of flat_map app ctext]; rewrite <- ?app_assoc; cbn [app];
    rewrite ?app_nil_r; reflexivity.
Qed.

(* group-level image of the parser loop *)
Fixpoint assemble (gs : list N) (accum : N) (ul : list (option N)) : res (list (option N)) :=
  match gs with
  | [] => Ok ul
  | g :: rest =>
    let j := N.of_nat (length rest) in
    let accum' := N.lor accum ((g * 2 ^ ((j * 32) mod 64)) mod W64) in
    if j mod 2 =? 0
    then let* ul' := store_opt ul (j / 2) accum' in assemble rest 0 ul'
    else assemble rest accum' ul
  end.

Lemma W32_pow : W32 = 2 ^ 32. Proof. reflexivity. Qed.

Lemma strtoul_group pre v (last : bool) post : v < W32 ->
  let t := if last then 0 else COMMA in
  strtoul (pre ++ gtext v last ++ t :: post) (len pre) 16 = Ok (v, len pre + len (gtext v last)).
Proof.
  intros Hv. cbv zeta.
  assert (Ht : is_digit_in 16 (if last then 0 else COMMA) = false) by (destruct last; reflexivity).
  unfold gtext. destruct (N.eqb_spec v 0) as [->|Hnz]; cbn [negb].
  - destruct last.
    + change (lit "0x0") with ([48; 120] ++ [48]). rewrite <- app_assoc.
      pose proof (strto_core_0x pre [48] 0 post 16 (or_introl eq_refl) ltac:(discriminate)
                    ltac:(repeat constructor) eq_refl) as H.
      rewrite (strtoul_of_core _ _ _ _ H); [|reflexivity|cbn; unfold ULONG_MAX; lia].
      cbn [sr_mag sr_end]. change (digits_val 16 [48]) with 0. do 2 f_equal.
      rewrite len_app. unfold len. cbn [length]. lia.
    + cbn [app]. pose proof (strto_core_none pre COMMA post 16) as H.
      rewrite (strtoul_of_core _ _ _ _ (H eq_refl ltac:(discriminate) ltac:(discriminate) eq_refl ltac:(discriminate)));
        [|reflexivity|cbn; unfold ULONG_MAX; lia].
      cbn [sr_mag sr_end]. f_equal. f_equal. change (len []) with 0. lia.
  - destruct (hex_fixed_spec 8 v) as [A [_ [L _]]].
    assert (Hne : hex_fixed 8 v <> []) by (intros E; rewrite E in L; discriminate).
    assert (V : digits_val 16 (hex_fixed 8 v) = v) by (apply hex_fixed_val; exact Hv).
    change (lit "0x") with [48; 120]. rewrite <- app_assoc.
    pose proof (strto_core_0x pre (hex_fixed 8 v) _ post 16 (or_introl eq_refl) Hne A Ht) as H.
    rewrite (strtoul_of_core _ _ _ _ H); [|reflexivity|cbn [sr_mag]; rewrite V; unfold ULONG_MAX, W32 in *; lia].
    cbn [sr_mag sr_end]. rewrite V. f_equal. f_equal. rewrite len_app. change (len [48; 120]) with 2. lia.
Qed.

(* the byte the loop head reads at a group is never NUL *)
Lemma gtext_head v (last : bool) (post : list N) : let t := if last then 0 else COMMA in
  exists c tl, gtext v last ++ t :: post = c :: tl /\ c <> 0.
Proof.
  intros t. unfold gtext. destruct (v =? 0); cbn [negb].
  - destruct last.
    + exists 48. eexists. split; [reflexivity|discriminate].
    + exists COMMA, post. split; [reflexivity|discriminate].
  - exists 48. eexists. split; [reflexivity|discriminate].
Qed.

Definition null (gs : list N) : bool := match gs with [] => true | _ => false end.

Lemma parse_groups z : forall gs g pre accum ul fuel,
  Forall (fun v => v < W32) (g :: gs) -> (S (length gs) < fuel)%nat ->
  hwloc_sscanf_loop z fuel (pre ++ gtext g (null gs) ++ ctext gs ++ [0]) (len pre)
    (N.of_nat (S (length gs))) accum ul
  = let* ul' := assemble (g :: gs) accum ul in Ok (LDone ul').
Proof.
  induction gs as [|g2 r IH]; intros g pre accum ul fuel Hg Hfuel;
  (destruct fuel as [|fuel]; [lia|]); inversion Hg as [|x l Hgv Hrest]; subst x l.
  - (* last group *)
    cbn [ctext app null]. cbn [hwloc_sscanf_loop].
    destruct (gtext_head g true []) as [c [tl [Ec Hc]]]. cbv zeta in Ec.
    change (if true then 0 else COMMA) with 0 in Ec.
    assert (R0 : rd (pre ++ gtext g true ++ [0]) (len pre) = Some c) by (rewrite Ec; apply rd_app_mid).
    unfold rdr at 1. rewrite R0. cbn [bind]. apply N.eqb_neq in Hc. rewrite Hc.
    pose proof (strtoul_group pre g true [] Hgv) as St. cbv zeta in St.
    change (if true then 0 else COMMA) with 0 in St. rewrite St. cbn [bind].
    cbn [length]. change (N.of_nat 1 =? 0) with false. cbv iota.
    change (N.pred (N.of_nat 1)) with 0. cbn [assemble length]. change (N.of_nat 0) with 0.
    change (0 mod 2 =? 0) with true. cbv iota.
    destruct (store_opt ul (0 / 2) (N.lor accum ((g * 2 ^ ((0 * 32) mod 64)) mod W64))) as [ul'|]; [|reflexivity].
    cbn [bind].
    assert (Rt : rd (pre ++ gtext g true ++ [0]) (len pre + len (gtext g true)) = Some 0).
    { rewrite app_assoc. rewrite <- len_app. apply rd_app_mid. }
    unfold rdr. rewrite Rt. cbn [bind]. reflexivity.
  - (* a group followed by a comma *)
    cbn [null]. cbn [ctext]. cbn [hwloc_sscanf_loop].
    set (post := gtext g2 (match r with [] => true | _ => false end) ++ ctext r).
    replace ((COMMA :: post) ++ [0]) with (COMMA :: post ++ [0]) by reflexivity.
    destruct (gtext_head g false (post ++ [0])) as [c [tl [Ec Hc]]]. cbv zeta in Ec.
    change (if false then 0 else COMMA) with COMMA in Ec.
    set (s := pre ++ gtext g false ++ COMMA :: post ++ [0]).
    assert (R0 : rd s (len pre) = Some c) by (unfold s; rewrite Ec; apply rd_app_mid).
    unfold rdr at 1. rewrite R0. cbn [bind]. apply N.eqb_neq in Hc. rewrite Hc.
    pose proof (strtoul_group pre g false (post ++ [0]) Hgv) as St. cbv zeta in St.
    change (if false then 0 else COMMA) with COMMA in St. fold s in St.
    rewrite St. cbn [bind].
    destruct (N.eqb_spec (N.of_nat (S (length (g2 :: r)))) 0) as [E|_]; [lia|].
    replace (N.pred (N.of_nat (S (length (g2 :: r))))) with (N.of_nat (length (g2 :: r))) by lia.
    cbn [assemble]. set (j := N.of_nat (length (g2 :: r))).
    set (acc' := N.lor accum ((g * 2 ^ ((j * 32) mod 64)) mod W64)).
    assert (Rt : rd s (len pre + len (gtext g false)) = Some COMMA).
    { unfold s. rewrite app_assoc. rewrite <- len_app. apply rd_app_mid. }
    assert (Hnext : forall a u,
      hwloc_sscanf_loop z fuel s (N.succ (len pre + len (gtext g false))) j a u
      = let* ul' := assemble (g2 :: r) a u in Ok (LDone ul')).
    { intros a u. unfold s.
      replace (pre ++ gtext g false ++ COMMA :: post ++ [0])
        with ((pre ++ gtext g false ++ [COMMA]) ++ gtext g2 (null r) ++ ctext r ++ [0])
        by (unfold post, null; rewrite <- !app_assoc; reflexivity).
      replace (N.succ (len pre + len (gtext g false))) with (len (pre ++ gtext g false ++ [COMMA]))
        by (rewrite !len_app; unfold len at 3; cbn [length]; lia).
      unfold j. cbn [length]. apply IH; [exact Hrest|cbn [length] in Hfuel; lia]. }
    destruct (j mod 2 =? 0).
    + destruct (store_opt ul (j / 2) acc') as [ul'|]; [|reflexivity]. cbn [bind].
      unfold rdr. rewrite Rt. cbn [bind]. change (negb (COMMA =? COMMA)) with false. cbv iota.
      apply Hnext.
    + cbn [bind]. unfold rdr. rewrite Rt. cbn [bind]. change (negb (COMMA =? COMMA)) with false. cbv iota.
      apply Hnext.
Qed.

(* ---------- arithmetic: assembling the groups of the words gives the words ---------- *)
Lemma testbit_small lo n i : lo < 2 ^ n -> n <= i -> N.testbit lo i = false.
Proof.
  intros H Hi. rewrite <- (N.mod_small lo (2 ^ n) H). apply N.mod_pow2_bits_high. exact Hi.
Qed.
Lemma lor_hi_lo hi lo : lo < W32 -> N.lor (hi * 2 ^ 32) lo = hi * W32 + lo.
Proof.
  intros Hlo. rewrite W32_pow in *. apply N.bits_inj. intros i.
  rewrite N.lor_spec. rewrite (N.add_comm (hi * 2 ^ 32)), (N.mul_comm hi).
  rewrite testbit_add_shift by exact Hlo. rewrite (N.mul_comm (2 ^ 32)), <- N.shiftl_mul_pow2.
  destruct (N.ltb_spec i 32) as [Hi|Hi].
  - now rewrite N.shiftl_spec_low.
  - rewrite N.shiftl_spec_high' by exact Hi. rewrite (testbit_small lo 32 i Hlo Hi). apply orb_false_r.
Qed.
Lemma word_split w : w = (w / W32) * W32 + w mod W32.
Proof. rewrite (N.mul_comm (w / W32)). apply N.div_mod. discriminate. Qed.
Lemma word_hi_lo w : w < W64 -> w / W32 < W32 /\ w mod W32 < W32.
Proof.
  intros H. split; [|apply N.mod_upper_bound; discriminate].
  apply N.div_lt_upper_bound; [discriminate|]. exact H.
Qed.
Lemma groups_of_len rest : length (groups_of rest) = (2 * length rest)%nat.
Proof. induction rest as [|w rest IH]; [reflexivity|]. cbn [groups_of flat_map app length] in *. fold (groups_of rest). lia. Qed.
Lemma groups_of_bound rest : Forall (fun w => w < W64) rest -> Forall (fun v => v < W32) (groups_of rest).
Proof.
  induction 1 as [|w rest Hw _ IH]; [constructor|]. cbn [groups_of flat_map app]. fold (groups_of rest).
  destruct (word_hi_lo w Hw). repeat constructor; assumption.
Qed.

Lemma shift_odd m : ((N.of_nat (S (2 * m)) * 32) mod 64) = 32.
Proof.
  replace (N.of_nat (S (2 * m)) * 32) with (32 + N.of_nat m * 64) by lia.
  rewrite N.mod_add by discriminate. reflexivity.
Qed.
Lemma shift_even m : ((N.of_nat (2 * m) * 32) mod 64) = 0.
Proof.
  replace (N.of_nat (2 * m) * 32) with (N.of_nat m * 64) by lia. apply N.mod_mul. discriminate.
Qed.
Lemma parity_odd m : N.of_nat (S (2 * m)) mod 2 =? 0 = false.
Proof.
  replace (N.of_nat (S (2 * m))) with (1 + N.of_nat m * 2) by lia. rewrite N.mod_add by discriminate. reflexivity.
Qed.
Lemma parity_even m : N.of_nat (2 * m) mod 2 =? 0 = true.
Proof.
  replace (N.of_nat (2 * m)) with (N.of_nat m * 2) by lia. rewrite N.mod_mul by discriminate. reflexivity.
Qed.
Lemma half_even m : N.of_nat (2 * m) / 2 = N.of_nat m.
Proof. replace (N.of_nat (2 * m)) with (N.of_nat m * 2) by lia. apply N.div_mul. discriminate. Qed.

(* storing word m of a list then skipping: shape used twice below *)
Lemma store_shape (ul : list (option N)) m w (rest : list N) : (length rest = m)%nat -> (m < length ul)%nat ->
  map Some (rev rest) ++ skipn m (firstn m ul ++ Some w :: skipn (S m) ul)
  = map Some (rev (w :: rest)) ++ skipn (S m) ul.
Proof.
  intros Hm Hl. cbn [rev]. rewrite map_app, <- app_assoc. f_equal. cbn [map app].
  rewrite skipn_app, firstn_length. replace (Nat.min m (length ul)) with m by lia.
  rewrite Nat.sub_diag. rewrite skipn_all2 by (rewrite firstn_length; lia). reflexivity.
Qed.

(* one low group on an even position completes a word *)
Lemma assemble_low lo rest acc ul : lo < W32 ->
  assemble (lo :: groups_of rest) acc ul =
  let* ul' := store_opt ul (N.of_nat (length rest)) (N.lor acc lo) in assemble (groups_of rest) 0 ul'.
Proof.
  intros Hlo. cbn [assemble]. rewrite groups_of_len, parity_even, shift_even, half_even.
  change (2 ^ 0) with 1. rewrite N.mul_1_r. rewrite (N.mod_small lo W64) by (unfold W32, W64 in *; lia).
  reflexivity.
Qed.

Lemma assemble_high hi tl m ul : hi < W32 -> length tl = S (2 * m) ->
  assemble (hi :: tl) 0 ul = assemble tl (hi * 2 ^ 32) ul.
Proof.
  intros Hhi Hl. cbn [assemble]. rewrite Hl, parity_odd, shift_odd. rewrite N.lor_0_l.
  rewrite (N.mod_small (hi * 2 ^ 32) W64) by (change (2 ^ 32) with 4294967296; unfold W32, W64 in *; lia).
  reflexivity.
Qed.

Lemma assemble_words : forall rest ul, Forall (fun w => w < W64) rest -> (length rest <= length ul)%nat ->
  assemble (groups_of rest) 0 ul = Ok (map Some (rev rest) ++ skipn (length rest) ul).
Proof.
  induction rest as [|w rest IH]; intros ul Hwf Hul; [reflexivity|].
  inversion Hwf as [|x l Hw Hwf']; subst x l. destruct (word_hi_lo w Hw) as [Hhi Hlo].
  cbn [groups_of flat_map app]. fold (groups_of rest).
  (* high group: odd position *)
  rewrite (assemble_high _ _ (length rest) ul Hhi) by (cbn [length]; rewrite groups_of_len; reflexivity).
  rewrite (assemble_low _ rest _ ul Hlo). rewrite (lor_hi_lo _ _ Hlo), <- word_split.
  unfold store_opt. cbn [length] in Hul. destruct (N.ltb_spec (N.of_nat (length rest)) (N.of_nat (length ul))); [|lia].
  cbn [bind]. rewrite Nat2N.id. rewrite IH; [|exact Hwf'|rewrite app_length, firstn_length; cbn [length]; lia].
  f_equal. apply store_shape; [reflexivity|lia].
Qed.

(* ---------- counting the commas of the printed text ---------- *)
Definition plain (c : N) : Prop := c <> 0 /\ c <> COMMA.
Lemma ncommas_plain a b : Forall plain a -> ncommas (a ++ b) = ncommas b.
Proof.
  induction 1 as [|c a [Hc0 Hc1] _ IH]; [reflexivity|]. cbn [app ncommas].
  apply N.eqb_neq in Hc0, Hc1. now rewrite Hc0, Hc1, IH.
Qed.
Lemma hex_digit_plain c : is_digit_in 16 c = true -> plain c.
Proof. intros H. split; intros ->; discriminate. Qed.
Lemma gtext_plain v last : Forall plain (gtext v last).
Proof.
  unfold gtext. destruct (v =? 0); cbn [negb].
  - destruct last; repeat constructor; discriminate.
  - apply Forall_app. split; [repeat constructor; discriminate|].
    destruct (hex_fixed_spec 8 v) as [A _]. eapply Forall_impl; [|exact A]. apply hex_digit_plain.
Qed.
Lemma ncommas_ctext gs : ncommas (ctext gs ++ [0]) = N.of_nat (length gs).
Proof.
  induction gs as [|g r IH]; [reflexivity|]. cbn [ctext app ncommas].
  change (COMMA =? 0) with false. change (COMMA =? COMMA) with true. cbv iota.
  rewrite <- app_assoc, ncommas_plain by apply gtext_plain. rewrite IH. cbn [length]. lia.
Qed.
Lemma plain_no_nul a : Forall plain a -> no_nul a.
Proof. intros H. eapply Forall_impl; [|exact H]. now intros c [Hc _]. Qed.
Lemma ctext_no_nul gs : no_nul (ctext gs).
Proof.
  induction gs as [|g r IH]; [constructor|]. cbn [ctext]. constructor; [discriminate|].
  apply Forall_app. split; [apply plain_no_nul, gtext_plain|exact IH].
Qed.

(* ---------- the parser on "groups" texts ---------- *)
Lemma skipn_all_len {A} (l : list A) n : n = length l -> skipn n l = [].
Proof. intros ->. apply skipn_all. Qed.

(* finite: gtext g ++ ctext gs, g <> 0 *)
Lemma parse_hwloc_finite d g gs : g <> 0 -> Forall (fun v => v < W32) (g :: gs) ->
  parse_hwloc_gen true true d (gtext g (null gs) ++ ctext gs ++ [0]) =
  let* ul := assemble (g :: gs) 0 (repeat (Some 0) (N.to_nat ((N.of_nat (S (length gs)) + 1) / 2))) in
  Ok (PSet (BM (map (fun o => match o with Some w => w | None => d end) ul) false)).
Proof.
  intros Hg Hb. set (s := gtext g (null gs) ++ ctext gs ++ [0]).
  assert (Hcs : cstring s (len (gtext g (null gs) ++ ctext gs))).
  { unfold s. rewrite app_assoc. apply cstring_app. apply Forall_app.
    split; [apply plain_no_nul, gtext_plain|apply ctext_no_nul]. }
  unfold parse_hwloc_gen.
  pose proof (cstring_len _ _ Hcs) as Hlen. unfold len in Hlen.
  rewrite (count_commas_spec s _ Hcs) by (unfold len in *; lia). cbn [bind].
  assert (Hcm : commas_from s 0 = N.of_nat (length gs)).
  { unfold commas_from. cbn [N.to_nat skipn]. unfold s. rewrite ncommas_plain by apply gtext_plain.
    apply ncommas_ctext. }
  rewrite Hcm.
  (* not the infinite prefix *)
  assert (P1 : has_prefix "0xf...f" s 0 = Ok false).
  { rewrite has_prefix_spec by (repeat constructor; discriminate). cbn [N.to_nat skipn].
    unfold s, gtext. apply N.eqb_neq in Hg. rewrite Hg. cbn [negb].
    destruct (hex_fixed_spec 8 g) as [A [_ [L _]]].
    destruct (hex_fixed 8 g) as [|d1 [|d2 tl]]; try discriminate.
    change (bytes_of_string "0xf...f") with [48;120;102;46;46;46;102]. change (lit "0x") with [48;120].
    cbn [app prefix_l]. change (48 =? 48) with true. change (120 =? 120) with true. cbv iota.
    destruct (102 =? d1); [|reflexivity].
    inversion A as [|x l _ A']; subst. inversion A' as [|x l Hd2 _]; subst.
    destruct (N.eqb_spec 46 d2) as [<-|]; [discriminate|reflexivity]. }
  rewrite P1. cbn [bind]. change (false && _) with false. cbv iota.
  replace (1 + N.of_nat (length gs)) with (N.of_nat (S (length gs))) by lia.
  pose proof (parse_groups true gs g [] 0 (repeat (Some 0) (N.to_nat ((N.of_nat (S (length gs)) + 1) / 2)))
                (S (length s)) Hb) as PG.
  cbn [app] in PG. change (len []) with 0 in PG. fold s in PG. rewrite PG.
  - destruct (assemble (g :: gs) 0 _) as [ul|]; reflexivity.
  - unfold s. rewrite !app_length. cbn [length].
    assert (length gs <= length (ctext gs))%nat; [|lia].
    clear. induction gs as [|g r IH]; [cbn; lia|]. cbn [ctext length]. rewrite app_length. lia.
Qed.

(* infinite: "0xf...f" ++ ctext (g :: gs) *)
Lemma parse_hwloc_infinite d g gs : Forall (fun v => v < W32) (g :: gs) ->
  parse_hwloc_gen true true d (PREFIX_INF ++ ctext (g :: gs) ++ [0]) =
  let k := N.of_nat (S (length gs)) in
  let* ul := assemble (g :: gs) (if negb (k mod 2 =? 0) then HI32MASK else 0)
               (repeat (Some 0) (N.to_nat ((k + 1) / 2))) in
  Ok (PSet (BM (map (fun o => match o with Some w => w | None => d end) ul) true)).
Proof.
  intros Hb. set (s := PREFIX_INF ++ ctext (g :: gs) ++ [0]).
  assert (Hcs : cstring s (len (PREFIX_INF ++ ctext (g :: gs)))).
  { unfold s. rewrite app_assoc. apply cstring_app. apply Forall_app.
    split; [repeat constructor; discriminate|apply ctext_no_nul]. }
  unfold parse_hwloc_gen.
  pose proof (cstring_len _ _ Hcs) as Hlen. unfold len in Hlen.
  rewrite (count_commas_spec s _ Hcs) by (unfold len in *; lia). cbn [bind].
  assert (Hcm : commas_from s 0 = N.of_nat (S (length gs))).
  { unfold commas_from. cbn [N.to_nat skipn]. unfold s.
    rewrite ncommas_plain by (repeat constructor; discriminate). apply (ncommas_ctext (g :: gs)). }
  rewrite Hcm.
  assert (P1 : has_prefix "0xf...f" s 0 = Ok true).
  { rewrite has_prefix_spec by (repeat constructor; discriminate). cbn [N.to_nat skipn].
    unfold s, PREFIX_INF, lit. apply prefix_l_app. }
  rewrite P1. cbn [bind].
  assert (R7 : rd s 7 = Some COMMA).
  { unfold s. cbn [ctext]. change 7 with (len PREFIX_INF). apply rd_app_mid. }
  unfold rdr at 1. rewrite R7. cbn [bind]. change (negb (COMMA =? COMMA)) with false. cbv iota. cbn [bind].
  replace (N.pred (1 + N.of_nat (S (length gs)))) with (N.of_nat (S (length gs))) by lia.
  cbn [andb].
  pose proof (parse_groups true gs g (PREFIX_INF ++ [COMMA])
                (if negb (N.of_nat (S (length gs)) mod 2 =? 0) then HI32MASK else 0)
                (repeat (Some 0) (N.to_nat ((N.of_nat (S (length gs)) + 1) / 2)))
                (S (length s)) Hb) as PG.
  replace ((PREFIX_INF ++ [COMMA]) ++ gtext g (null gs) ++ ctext gs ++ [0]) with s in PG
    by (unfold s, null; cbn [ctext]; rewrite <- !app_assoc; cbn [app]; rewrite <- ?app_assoc; reflexivity).
  change (len (PREFIX_INF ++ [COMMA])) with 8 in PG. rewrite PG.
  - cbv zeta. destruct (assemble (g :: gs) _ _) as [ul|]; reflexivity.
  - unfold s. rewrite !app_length. cbn [ctext length]. rewrite app_length.
    assert (length gs <= length (ctext gs))%nat; [|lia].
    clear. induction gs as [|g r IH]; [cbn; lia|]. cbn [ctext length]. rewrite app_length. lia.
Qed.

(* ---------- assembling the groups of a whole word list ---------- *)
Lemma assemble_even w rest : Forall (fun w => w < W64) (w :: rest) ->
  assemble (groups_of (w :: rest)) 0 (repeat (Some 0) (S (length rest))) = Ok (map Some (rev (w :: rest))).
Proof.
  intros Hwf. rewrite assemble_words by (try exact Hwf; rewrite repeat_length; cbn [length]; lia).
  rewrite skipn_all_len by (rewrite repeat_length; reflexivity). now rewrite app_nil_r.
Qed.
Lemma assemble_odd lo rest acc w : lo < W32 -> N.lor acc lo = w -> Forall (fun w => w < W64) rest ->
  assemble (lo :: groups_of rest) acc (repeat (Some 0) (S (length rest))) = Ok (map Some (rev (w :: rest))).
Proof.
  intros Hlo Hw Hwf. rewrite assemble_low by exact Hlo. rewrite Hw.
  unfold store_opt. rewrite repeat_length.
  destruct (N.ltb_spec (N.of_nat (length rest)) (N.of_nat (S (length rest)))); [|lia].
  cbn [bind]. rewrite Nat2N.id.
  rewrite assemble_words; [|exact Hwf|rewrite app_length, firstn_length, repeat_length; cbn [length]; lia].
  rewrite store_shape by (try reflexivity; rewrite repeat_length; lia).
  rewrite skipn_all_len by (rewrite repeat_length; reflexivity). now rewrite app_nil_r.
Qed.

(* ---------- what the printer emits ---------- *)
Lemma hwloc_group_first v last : v <> 0 ->
  hwloc_group v false false last = (Some (gtext v last), true).
Proof.
  intros Hv. unfold hwloc_group, gtext. apply N.eqb_neq in Hv. rewrite Hv. reflexivity.
Qed.
Lemma hwloc_group_first0 : hwloc_group 0 false false false = (None, false).
Proof. reflexivity. Qed.
Lemma hwloc_group_merge v : hwloc_group v true true false =
  if v =? FULL32 then (None, true) else (Some (COMMA :: gtext v false), true).
Proof.
  unfold hwloc_group, gtext. cbn [andb]. destruct (v =? FULL32); [reflexivity|].
  destruct (v =? 0); reflexivity.
Qed.
Lemma null_groups_of rest : null (groups_of rest) = match rest with [] => true | _ => false end.
Proof. destruct rest; reflexivity. Qed.

Lemma text_finite w rest : w <> 0 -> w < W64 ->
  concat (hwloc_loop (w :: rest) false false) =
  if w / W32 =? 0 then gtext (w mod W32) (null (groups_of rest)) ++ ctext (groups_of rest)
  else gtext (w / W32) false ++ ctext (w mod W32 :: groups_of rest).
Proof.
  intros Hw Hlt. cbn [hwloc_loop].
  destruct (N.eqb_spec (w / W32) 0) as [Hhi|Hhi].
  - rewrite Hhi, hwloc_group_first0. cbn [fst snd opt_piece app].
    assert (Hlo : w mod W32 <> 0). { intros E. apply Hw. rewrite (word_split w), Hhi, E. reflexivity. }
    rewrite (hwloc_group_first _ _ Hlo). cbn [fst snd opt_piece app concat].
    rewrite hwloc_loop_ctext, null_groups_of. reflexivity.
  - rewrite (hwloc_group_first _ _ Hhi). cbn [fst snd opt_piece]. rewrite hwloc_group_comma.
    cbn [fst snd opt_piece app concat]. rewrite hwloc_loop_ctext. cbn [ctext].
    destruct rest; reflexivity.
Qed.
Lemma text_infinite w rest :
  concat (hwloc_loop (w :: rest) true true) =
  ctext (if w / W32 =? FULL32 then w mod W32 :: groups_of rest else w / W32 :: w mod W32 :: groups_of rest).
Proof.
  cbn [hwloc_loop]. rewrite hwloc_group_merge.
  destruct (w / W32 =? FULL32); cbn [fst snd opt_piece app]; rewrite hwloc_group_comma;
    cbn [fst snd opt_piece app concat]; rewrite hwloc_loop_ctext; cbn [ctext];
    destruct rest; rewrite <- ?app_assoc; reflexivity.
Qed.

Lemma total_len_concat_nz ps : concat ps <> [] -> (total_len ps =? 0)%nat = false.
Proof. unfold total_len. destruct (concat ps); [congruence|reflexivity]. Qed.
Lemma gtext_nz v last : v <> 0 -> gtext v last <> [].
Proof. intros H. unfold gtext. apply N.eqb_neq in H. rewrite H. discriminate. Qed.

(* ---------- round trip of the hwloc format, every well-formed bitmap ---------- *)
Lemma half_succ_even m : N.to_nat ((N.of_nat (S (S (2 * m))) + 1) / 2) = S m.
Proof.
  replace (N.of_nat (S (S (2 * m))) + 1) with (1 + N.of_nat (S m) * 2) by lia.
  rewrite N.div_add by discriminate. change (1 / 2) with 0. lia.
Qed.
Lemma half_succ_odd m : N.to_nat ((N.of_nat (S (2 * m)) + 1) / 2) = S m.
Proof.
  replace (N.of_nat (S (2 * m)) + 1) with (N.of_nat (S m) * 2) by lia.
  rewrite N.div_mul by discriminate. lia.
Qed.

Lemma parity_even2 m : N.of_nat (S (S (2 * m))) mod 2 =? 0 = true.
Proof.
  replace (N.of_nat (S (S (2 * m)))) with (N.of_nat (S m) * 2) by lia. rewrite N.mod_mul by discriminate. reflexivity.
Qed.

Theorem roundtrip_hwloc_gen d b : bm_wf b ->
  exists b', parse_hwloc_gen true true d (text_hwloc b ++ [0]) = Ok (PSet b') /\ abs b' = abs b /\ bm_wf b'.
Proof.
  destruct b as [ws inf]. unfold bm_wf. cbn [bm_words]. intros Hwf.
  unfold text_hwloc, pieces_hwloc. cbn [bm_inf bm_words].
  destruct inf.
  - (* infinite *)
    destruct (dropwhile_eq_spec FULL (rev ws)) as [k [E Hhead]].
    pose proof (skipped_top ws FULL k _ E) as Ews.
    destruct (dropwhile_eq FULL (rev ws)) as [|w rest] eqn:Edesc.
    + cbn [hwloc_loop app]. rewrite total_len_nz by discriminate.
      exists (BM [FULL] true). split; [vm_compute; reflexivity|]. split; [|repeat constructor].
      rewrite Ews. cbn [rev]. rewrite (abs_drop_fulls [] k ltac:(constructor)).
      exact (abs_drop_fulls [] 1 ltac:(constructor)).
    + assert (Hd : Forall (fun w => w < W64) (w :: rest)).
      { rewrite Ews in Hwf. apply Forall_app in Hwf. destruct Hwf as [Hwf _].
        apply Forall_rev in Hwf. now rewrite rev_involutive in Hwf. }
      inversion Hd as [|x l Hw Hrest]; subst x l. destruct (word_hi_lo w Hw) as [Hhi Hlo].
      match goal with |- context [[PREFIX_INF] ++ ?x] => change ([PREFIX_INF] ++ x) with (PREFIX_INF :: x) end.
      rewrite total_len_nz by discriminate. unfold concat at 1. fold (@concat N).
      rewrite text_infinite. rewrite <- app_assoc.
      pose proof (groups_of_bound rest Hrest) as Hgb.
      assert (P : parse_hwloc_gen true true d
                 (PREFIX_INF ++ ctext (if w / W32 =? FULL32 then w mod W32 :: groups_of rest
                                       else w / W32 :: w mod W32 :: groups_of rest) ++ [0])
               = Ok (PSet (BM (rev (w :: rest)) true))).
      { destruct (N.eqb_spec (w / W32) FULL32) as [Ehi|Ehi].
        - rewrite parse_hwloc_infinite by (constructor; assumption). cbv zeta.
          rewrite groups_of_len.
          rewrite parity_odd. cbn [negb].
          rewrite half_succ_odd.
          rewrite (assemble_odd _ rest HI32MASK w Hlo); [|
            change HI32MASK with (FULL32 * 2 ^ 32); rewrite (lor_hi_lo _ _ Hlo), <- Ehi; symmetry; apply word_split
            |exact Hrest].
          cbn [bind]. now rewrite map_default_some.
        - rewrite parse_hwloc_infinite by (repeat constructor; assumption). cbv zeta.
          cbn [length]. rewrite groups_of_len.
          rewrite parity_even2. cbn [negb].
          rewrite half_succ_even.
          change (w / W32 :: w mod W32 :: groups_of rest) with (groups_of (w :: rest)).
          rewrite (assemble_even w rest Hd). cbn [bind]. now rewrite map_default_some. }
      eexists. split; [exact P|]. split.
      * rewrite Ews. apply eq_sym, abs_drop_fulls. apply Forall_rev. exact Hd.
      * unfold bm_wf. cbn [bm_words]. apply Forall_rev. exact Hd.
  - (* finite *)
    destruct (dropwhile_eq_spec 0 (rev ws)) as [k [E Hhead]].
    pose proof (skipped_top ws 0 k _ E) as Ews.
    destruct (dropwhile_eq 0 (rev ws)) as [|w rest] eqn:Edesc.
    + cbn [hwloc_loop app]. change (total_len [] =? 0)%nat with true. cbv iota.
      exists (BM [0] false). split; [vm_compute; reflexivity|]. split; [|repeat constructor].
      rewrite Ews. cbn [rev]. rewrite (abs_drop_zeros [] k). reflexivity.
    + assert (Hd : Forall (fun w => w < W64) (w :: rest)).
      { rewrite Ews in Hwf. apply Forall_app in Hwf. destruct Hwf as [Hwf _].
        apply Forall_rev in Hwf. now rewrite rev_involutive in Hwf. }
      inversion Hd as [|x l Hw Hrest]; subst x l. destruct (word_hi_lo w Hw) as [Hhi Hlo].
      match goal with |- context [[] ++ ?x] => change ([] ++ x) with x end.
      pose proof (text_finite w rest Hhead Hw) as TF.
      pose proof (groups_of_bound rest Hrest) as Hgb.
      assert (Hnz : concat (hwloc_loop (w :: rest) false false) <> []).
      { rewrite TF. destruct (N.eqb_spec (w / W32) 0) as [Ehi|Ehi].
        - assert (w mod W32 <> 0). { intros E0. apply Hhead. rewrite (word_split w), Ehi, E0. reflexivity. }
          intros E1. apply app_eq_nil in E1. destruct E1 as [E1 _]. revert E1. now apply gtext_nz.
        - intros E1. apply app_eq_nil in E1. destruct E1 as [E1 _]. revert E1. now apply gtext_nz. }
      rewrite (total_len_concat_nz _ Hnz). rewrite TF.
      assert (P : parse_hwloc_gen true true d
                 ((if w / W32 =? 0 then gtext (w mod W32) (null (groups_of rest)) ++ ctext (groups_of rest)
                   else gtext (w / W32) false ++ ctext (w mod W32 :: groups_of rest)) ++ [0])
               = Ok (PSet (BM (rev (w :: rest)) false))).
      { destruct (N.eqb_spec (w / W32) 0) as [Ehi|Ehi].
        - assert (Hlonz : w mod W32 <> 0). { intros E0. apply Hhead. rewrite (word_split w), Ehi, E0. reflexivity. }
          rewrite <- app_assoc. rewrite parse_hwloc_finite by (try exact Hlonz; constructor; assumption).
          rewrite groups_of_len, half_succ_odd.
          rewrite (assemble_odd _ rest 0 w Hlo); [| |exact Hrest].
          + cbn [bind]. now rewrite map_default_some.
          + rewrite N.lor_0_l. rewrite (word_split w) at 2. rewrite Ehi. reflexivity.
        - rewrite <- app_assoc.
          change false with (null (w mod W32 :: groups_of rest)) at 1.
          rewrite parse_hwloc_finite by (try exact Ehi; repeat constructor; assumption).
          cbn [length]. rewrite groups_of_len, half_succ_even.
          change (w / W32 :: w mod W32 :: groups_of rest) with (groups_of (w :: rest)).
          rewrite (assemble_even w rest Hd). cbn [bind]. now rewrite map_default_some. }
      eexists. split; [exact P|]. split.
      * rewrite Ews. apply eq_sym, abs_drop_zeros.
      * unfold bm_wf. cbn [bm_words]. apply Forall_rev. exact Hd.
Qed.
