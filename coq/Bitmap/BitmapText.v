(* C04 model: the three bitmap printers as piece lists fed to the cursor-triple
   idiom of Base/Snprintf, and the three parsers over checked strings
   (hwloc/bitmap.c, HWLOC_BITS_PER_LONG = 64, 32-bit string groups).

   A bitmap is the C representation that the printers walk: the words
   ulongs[0..count-1] (least significant first, each < 2^64) and the infinite
   flag; [abs] maps it to the abstract finite/cofinite set of Base/BSet.  The
   list format goes through hwloc_bitmap_next / next_unset / set / set_range,
   which are modelled on the abstract set (their refinement by the C bitmap
   is property C03's business).

   Executable Gallina only; lemmas are in BitmapTextProofs.v. *)
From Coq Require Import String Ascii.
From Coq Require Import NArith ZArith PeanoNat List Bool.
From HV Require Import Base.BSet Base.Bytes Base.Strto Base.Snprintf.
Import ListNotations.
Local Open Scope N_scope.

(* ---------- bitmaps ---------- *)
Record bm := BM { bm_words : list N; bm_inf : bool }.

Definition W64 : N := 18446744073709551616.        (* 2^64 *)
Definition FULL : N := 18446744073709551615.       (* HWLOC_SUBBITMAP_FULL *)
Definition W32 : N := 4294967296.                  (* 2^32 *)
Definition FULL32 : N := 4294967295.               (* HWLOC_BITMAP_SUBSTRING_FULL_VALUE *)

Definition bm_wf (b : bm) : Prop := Forall (fun w => w < W64) (bm_words b).
Definition bm_wfb (b : bm) : bool := forallb (fun w => w <? W64) (bm_words b).

Fixpoint words_value (ws : list N) : N :=
  match ws with [] => 0 | w :: t => w + W64 * words_value t end.

Definition abs (b : bm) : bset :=
  if bm_inf b
  then BS (N.ldiff (N.ones (64 * len (bm_words b))) (words_value (bm_words b))) true
  else BS (words_value (bm_words b)) false.

(* canonical words of an abstract set: (infinite, words least significant
   first, no redundant top word).  Used by the tie on both sides. *)
Fixpoint split_words (fuel : nat) (n : N) : list N :=
  match fuel with
  | O => []
  | S f => if n =? 0 then [] else N.land n FULL :: split_words f (N.shiftr n 64)
  end.
Definition canon (s : bset) : bool * list N :=
  let ws := split_words (S (N.to_nat (N.size (fin s)))) (fin s) in
  (inf s, if inf s then map (fun w => N.lxor w FULL) ws else ws).
Definition of_canon (inf : bool) (ws : list N) : bm := BM ws inf.

(* ---------- number formatting ---------- *)
Definition hexc (d : N) : N := if d <? 10 then 48 + d else 87 + d.
(* %0<k>lx of a value < 16^k *)
Fixpoint hex_fixed (k : nat) (v : N) : list N :=
  match k with O => [] | S k' => hex_fixed k' (v / 16) ++ [hexc (v mod 16)] end.
(* %lx *)
Definition hex_min (v : N) : list N :=
  hex_fixed (Nat.max 1 ((N.to_nat (N.size v) + 3) / 4)) v.
Fixpoint dec_fixed (k : nat) (v : N) : list N :=
  match k with O => [] | S k' => dec_fixed k' (v / 10) ++ [48 + v mod 10] end.
Fixpoint strip0 (l : list N) : list N :=
  match l with
  | [] => []
  | [d] => [d]
  | d :: t => if d =? 48 then strip0 t else l
  end.
(* %d of a non-negative int *)
Definition dec (v : N) : list N := strip0 (dec_fixed (S (N.to_nat (N.size v))) v).

Definition lit (s : string) : list N := bytes_of_string s.
Definition PREFIX_INF : list N := lit "0xf...f".
Definition COMMA : N := 44.

Definition opt_piece (o : option (list N)) : list (list N) :=
  match o with Some p => [p] | None => [] end.
Definition dropwhile_eq (v : N) (l : list N) : list N :=
  (fix go l := match l with [] => [] | w :: t => if w =? v then go t else l end) l.

(* ---------- hwloc_bitmap_snprintf ---------- *)
(* one 32-bit group: the if-chain of the loop body.  [last] is
   "i == -1 && accumed == HWLOC_BITMAP_SUBSTRING_SIZE". *)
Definition hwloc_group (value : N) (needcomma merge last : bool) : option (list N) * bool :=
  if merge && (value =? FULL32) then (None, needcomma)
  else if negb (value =? 0) then
    (Some ((if needcomma then lit ",0x" else lit "0x") ++ hex_fixed 8 value), true)
  else if last then (Some (if needcomma then lit ",0x0" else lit "0x0"), needcomma)
  else if needcomma then (Some (lit ","), needcomma)
  else (None, needcomma).

(* the while (i>=0 || accumed) loop over the words not skipped, most significant first *)
Fixpoint hwloc_loop (desc : list N) (needcomma merge : bool) : list (list N) :=
  match desc with
  | [] => []
  | w :: rest =>
    let last := match rest with [] => true | _ => false end in
    let g1 := hwloc_group (w / W32) needcomma merge false in
    let g2 := hwloc_group (w mod W32) (snd g1) false last in
    opt_piece (fst g1) ++ opt_piece (fst g2) ++ hwloc_loop rest (snd g2) false
  end.

Definition total_len (ps : list (list N)) : nat := length (concat ps).

Definition pieces_hwloc (b : bm) : list (list N) :=
  let pre := if bm_inf b then [PREFIX_INF] else [] in
  let desc := dropwhile_eq (if bm_inf b then FULL else 0) (rev (bm_words b)) in
  let ps := pre ++ hwloc_loop desc (bm_inf b) (bm_inf b) in
  if (total_len ps =? 0)%nat then ps ++ [lit "0x0"] else ps.

(* ---------- hwloc_bitmap_taskset_snprintf ---------- *)
(* finite case: "while (i>=1 && ulongs[i] == ZERO) i--" keeps ulongs[0] *)
Fixpoint drop_zero_keep_last (desc : list N) : list N :=
  match desc with
  | [] => []
  | [w] => [w]
  | w :: t => if w =? 0 then drop_zero_keep_last t else desc
  end.

Definition HI32MASK : N := 18446744069414584320.   (* 0xffffffff00000000 *)

Fixpoint taskset_loop (desc : list N) (started merge : bool) : list (list N) :=
  match desc with
  | [] => []
  | w :: rest =>
    let last := match rest with [] => true | _ => false end in
    if started then
      (if merge && (N.land w HI32MASK =? HI32MASK)
       then hex_fixed 8 (N.land w FULL32) else hex_fixed 16 w)
      :: taskset_loop rest true false
    else if negb (w =? 0) || last then
      (lit "0x" ++ hex_min w) :: taskset_loop rest true false
    else taskset_loop rest false false
  end.

Definition pieces_taskset (b : bm) : list (list N) :=
  let pre := if bm_inf b then [PREFIX_INF] else [] in
  let desc := if bm_inf b then dropwhile_eq FULL (rev (bm_words b))
              else drop_zero_keep_last (rev (bm_words b)) in
  let ps := pre ++ taskset_loop desc (bm_inf b) (bm_inf b) in
  if (total_len ps =? 0)%nat then ps ++ [lit "0x0"] else ps.

(* ---------- hwloc_bitmap_list_snprintf ---------- *)
(* hwloc_bitmap_next(set, prev) with prev+1 = from: first member >= from *)
Definition bs_next (s : bset) (from : N) : option N := bs_first (bs_inter s (bs_from from)).
Definition bs_next_unset (s : bset) (from : N) : option N := bs_next (bs_compl s) from.

(* fuel: one iteration per printed range; None = fuel exhausted (proved unreachable) *)
Fixpoint list_loop (fuel : nat) (s : bset) (from : N) (needcomma : bool) : option (list (list N)) :=
  match fuel with
  | O => None
  | S f =>
    match bs_next s from with
    | None => Some []                                         (* begin == -1 *)
    | Some b =>
      let c := if needcomma then [COMMA] else [] in
      match bs_next_unset s (N.succ b) with
      | None => Some [c ++ dec b ++ lit "-"]                  (* end == -1 *)
      | Some e =>
        let p := if e =? N.succ b then c ++ dec b else c ++ dec b ++ lit "-" ++ dec (N.pred e) in
        match list_loop f s e true with                       (* prev = end - 1 *)
        | Some r => Some (p :: r)
        | None => None
        end
      end
    end
  end.
Definition list_fuel (s : bset) : nat := S (S (N.to_nat (N.size (fin s)))).
Definition pieces_list (s : bset) : option (list (list N)) := list_loop (list_fuel s) s 0 false.

(* ---------- the printing functions themselves ---------- *)
(* X_snprintf(buf, buflen, set) on the caller's buffer [init] (length = buflen):
   None = a store outside the buffer; otherwise return value and buffer *)
Definition snprintf_pieces (pieces : list (list N)) (init : list N) : option (nat * list N) :=
  match emit_all init pieces with
  | Some st => Some (ps_ret st, ps_buf st)
  | None => None
  end.
(* X_asprintf: len = X_snprintf(NULL, 0); buf = malloc(len+1) (contents [junk],
   caller-supplied, any); X_snprintf(buf, len+1) *)
Definition asprintf_pieces (pieces : list (list N)) (junk : nat -> list N) : option (nat * list N) :=
  match snprintf_pieces pieces [] with
  | Some (l, _) => snprintf_pieces pieces (junk (S l))
  | None => None
  end.

Definition print_hwloc (b : bm) := snprintf_pieces (pieces_hwloc b).
Definition print_taskset (b : bm) := snprintf_pieces (pieces_taskset b).
Definition print_list (b : bm) (init : list N) : option (nat * list N) :=
  match pieces_list (abs b) with Some ps => snprintf_pieces ps init | None => None end.

(* the full text (what asprintf returns, without the terminator) *)
Definition text_hwloc (b : bm) : list N := concat (pieces_hwloc b).
Definition text_taskset (b : bm) : list N := concat (pieces_taskset b).
Definition text_list (s : bset) : option (list N) := option_map (@concat N) (pieces_list s).

(* ---------- parsers ---------- *)
(* outcome of a sscanf: the set written and return 0, return -1 (set zeroed),
   or a failed assert() (the build keeps assertions: abort) *)
Inductive pres := PSet (b : bm) | PFail | PAssert.

Definition store_opt (ul : list (option N)) (i : N) (v : N) : res (list (option N)) :=
  if i <? N.of_nat (length ul)
  then Ok (firstn (N.to_nat i) ul ++ Some v :: skipn (S (N.to_nat i)) ul)
  else Oob.

(* "while ((current = strchr(current+1, ',')) != NULL) count++;"
   [p] is the index handed to strchr *)
Fixpoint count_commas (fuel : nat) (s : list N) (p count : N) : res N :=
  match fuel with
  | O => Oob
  | S f =>
    let* r := strchr s p COMMA in
    match r with
    | None => Ok count
    | Some j => count_commas f s (N.succ j) (N.succ count)
    end
  end.

Inductive loop_end := LDone (ul : list (option N)) | LFail | LAssert.

(* ulongs[i] |= v *)
Definition or_store (ul : list (option N)) (i : N) (v : N) : res (list (option N)) :=
  match nth_error ul (N.to_nat i) with
  | Some o => store_opt ul i (N.lor (match o with Some w => w | None => 0 end) v)
  | None => Oob
  end.

(* [zeroed]: after patches/fix-C04-sscanf-unwritten-words.diff the words are zeroed
   first and, when the string ends right after a comma, what was accumulated
   for the current ulong is stored ("if (accum && count > 0) ulongs[(count-1)/2] |= accum") *)
Fixpoint hwloc_sscanf_loop (zeroed : bool) (fuel : nat) (s : list N) (cur count accum : N) (ul : list (option N))
  : res loop_end :=
  match fuel with
  | O => Oob
  | S f =>
    let* c := rdr s cur in
    if c =? 0 then
      (if zeroed && negb (accum =? 0) && (0 <? count)
       then let* ul' := or_store ul (N.pred count / 2) accum in Ok (LDone ul')
       else Ok (LDone ul))
    else
      let* vn := strtoul s cur 16 in
      let '(val, next) := vn in
      if count =? 0 then Ok LAssert                              (* assert(count > 0) *)
      else
        let count := N.pred count in
        let accum := N.lor accum ((val * 2 ^ ((count * 32) mod 64)) mod W64) in
        let* st := (if count mod 2 =? 0
                    then let* ul' := store_opt ul (count / 2) accum in Ok (ul', 0)
                    else Ok (ul, accum)) in
        let '(ul, accum) := st in
        let* nc := rdr s next in
        if negb (nc =? COMMA) then
          (if negb (nc =? 0) || (0 <? count) then Ok LFail else Ok (LDone ul))
        else hwloc_sscanf_loop zeroed f s (N.succ next) count accum ul
  end.

(* [fixed] selects where the comma count starts: false = the code as it is
   (strchr(current+1, ...): index 1), true = after patches/fix-C04-sscanf-empty.diff
   (index 0).  [dirty]: previous contents of the ulongs the function does not
   store to (hwloc_bitmap_reset_by_ulongs leaves them as they were). *)
Definition parse_hwloc_gen (fixed zeroed : bool) (dirty : N) (s : list N) : res pres :=
  let* count := count_commas (S (length s)) s (if fixed then 0 else 1) 1 in
  let* pfx := has_prefix "0xf...f" s 0 in
  let* hd := (if pfx then
                let* c := rdr s 7 in
                if negb (c =? COMMA) then Ok None                (* hwloc_bitmap_fill *)
                else Ok (Some (8, true, N.pred count))
              else Ok (Some (0, false, count))) in
  match hd with
  | None => Ok (PSet (BM [FULL] true))
  | Some (cur, infinite, count) =>
    let ulongcount := (count + 1) / 2 in
    let accum := if infinite && negb (count mod 2 =? 0) then HI32MASK else 0 in
    let* e := hwloc_sscanf_loop zeroed (S (length s)) s cur count accum
                (repeat (if zeroed then Some 0 else None) (N.to_nat ulongcount)) in
    match e with
    | LDone ul => Ok (PSet (BM (map (fun o => match o with Some w => w | None => dirty end) ul) infinite))
    | LFail => Ok PFail
    | LAssert => Ok PAssert
    end
  end.

(* which variant /repo currently is.  fixed: /repo eea9042 (comma count from index 0).
   zeroed: /repo 2d8cfb1 (words zeroed, pending accumulator stored) *)
Definition hwloc_sscanf_fixed : bool := true.
Definition hwloc_sscanf_zeroed : bool := true.
Definition parse_hwloc := parse_hwloc_gen hwloc_sscanf_fixed hwloc_sscanf_zeroed.

(* the words of [ul] that were never stored to *)
Definition unwritten (ul : list (option N)) : bool :=
  existsb (fun o => match o with None => true | Some _ => false end) ul.

(* ---------- hwloc_bitmap_taskset_sscanf ---------- *)
Fixpoint taskset_sscanf_loop (fuel : nat) (s : list N) (cur chars count : N) (infinite : bool)
  (ul : list (option N)) : res loop_end :=
  match fuel with
  | O => Oob
  | S f =>
    let* c := rdr s cur in
    if c =? 0 then Ok (LDone ul)
    else
      let tmpchars := if chars mod 16 =? 0 then 16 else chars mod 16 in
      let* bytes := rdn s cur tmpchars in                          (* memcpy(ustr, current, tmpchars) *)
      let ustr := bytes ++ [0] in
      let* vn := strtoul ustr 0 16 in
      let '(val, next) := vn in
      let* nb := rdr ustr next in
      if negb (nb =? 0) then Ok LFail
      else
        let w := if infinite && negb (tmpchars =? 16)
                 then N.lor val ((FULL * 2 ^ (4 * tmpchars)) mod W64) else val in
        if count =? 0 then Oob                                     (* ulongs[-1] *)
        else
          let* ul' := store_opt ul (N.pred count) w in
          taskset_sscanf_loop f s (cur + tmpchars) (chars - tmpchars) (N.pred count) infinite ul'
  end.

Definition parse_taskset (dirty : N) (s : list N) : res pres :=
  let* pfx := has_prefix "0xf...f" s 0 in
  let* hd := (if pfx then
                let* c := rdr s 7 in
                if c =? 0 then Ok (inl (BM [FULL] true)) else Ok (inr (7, true))
              else
                let* p2 := has_prefix "0x" s 0 in
                let cur := if p2 then 2 else 0 in
                let* c := rdr s cur in
                if c =? 0 then Ok (inl (BM [0] false)) else Ok (inr (cur, false))) in
  match hd with
  | inl b => Ok (PSet b)
  | inr (cur, infinite) =>
    let* chars := strlen_at s cur in
    let count := (chars * 4 + 63) / 64 in
    let* e := taskset_sscanf_loop (S (length s)) s cur chars count infinite
                (repeat None (N.to_nat count)) in
    match e with
    | LDone ul => Ok (PSet (BM (map (fun o => match o with Some w => w | None => dirty end) ul) infinite))
    | LFail => Ok PFail
    | LAssert => Ok PAssert
    end
  end.

(* ---------- hwloc_bitmap_list_sscanf (on the abstract set) ---------- *)
Definition to_long (v : N) : Z :=                     (* unsigned long -> long *)
  if v <? 9223372036854775808 then Z.of_N v else (Z.of_N v - 18446744073709551616)%Z.
Definition to_unsigned (z : Z) : N := Z.to_N (z mod 4294967296).     (* long -> unsigned *)

(* hwloc_bitmap_set_range(set, (unsigned) begin, (int) endv) *)
Definition set_range_model (s : bset) (begin endv : Z) : bset :=
  let b := to_unsigned begin in
  let e := to_unsigned endv in
  if e <? b then s
  else if e =? FULL32 then bs_union s (bs_from b)             (* _endcpu == -1 *)
  else bs_union s (bs_range b (e - b + 1)).

Definition is_sep (c : N) : bool := (c =? COMMA) || (c =? 32).

Fixpoint list_sscanf_loop (fuel : nat) (s : list N) (cur : N) (begin : Z) (set : bset)
  : res (option bset) :=
  match fuel with
  | O => Oob
  | S f =>
    let* c := rdr s cur in
    if c =? 0 then Ok (Some set)
    else
      let* cur := scan_while is_sep s cur in                   (* ignore empty ranges *)
      let* vn := strtoul s cur 0 in
      let '(uval, next) := vn in
      let val := to_long uval in
      if next =? cur then Ok None                              (* no digit *)
      else
        let* nc := rdr s next in
        let* st :=                                             (* (stop?, begin, set) *)
          (if negb (begin =? -1)%Z then Ok (false, (-1)%Z, set_range_model set begin val)
           else if nc =? 45 then
             let* n1 := rdr s (N.succ next) in
             if n1 =? 0 then Ok (true, begin, set_range_model set val (-1))
             else Ok (false, val, set)
           else if is_sep nc || (nc =? 0) then Ok (false, begin, bs_add (to_unsigned val) set)
           else Ok (false, begin, set)) in
        let '(stop, begin, set) := st in
        if stop then Ok (Some set)
        else if nc =? 0 then Ok (Some set)
        else list_sscanf_loop f s (N.succ next) begin set
  end.

Definition parse_list (s : list N) : res (option bset) :=
  list_sscanf_loop (S (length s)) s 0 (-1) bs_empty.

(* ---------- uniform view of a parse result as an abstract set ---------- *)
Definition pres_abs (r : res pres) : option bset :=
  match r with Ok (PSet b) => Some (abs b) | _ => None end.

(* ---------- helpers for the driver (two's complement image of a long) ---------- *)
Definition long_bits (z : Z) : N := Z.to_N (z mod 18446744073709551616).
