(* C04: what the hwloc / taskset parsers accept is a well-formed bitmap (words < 2^64),
   so that the general round-trip theorems apply to every accepted value. *)
From Coq Require Import String Ascii.
From Coq Require Import NArith ZArith PeanoNat List Bool Lia.
From HV Require Import Base.BSet Base.Bytes Base.Strto Base.Snprintf Bitmap.BitmapText Bitmap.BitmapTextProofs.
Import ListNotations.
Local Open Scope N_scope.

Lemma lor_lt a b : a < W64 -> b < W64 -> N.lor a b < W64.
Proof.
  intros Ha Hb. change W64 with (2 ^ 64) in *.
  rewrite <- (N.mod_small a (2 ^ 64) Ha), <- (N.mod_small b (2 ^ 64) Hb).
  rewrite <- !N.land_ones, <- N.land_lor_distr_l, N.land_ones. apply N.mod_upper_bound. discriminate.
Qed.

Lemma strtoul_val_bound s i b v e : strtoul s i b = Ok (v, e) -> v < W64.
Proof.
  unfold strtoul. destruct (strto_core s i b) as [r|]; [|discriminate]. cbn [bind].
  intros [= <- _]. destruct (N.ltb_spec ULONG_MAX (sr_mag r)); [reflexivity|].
  destruct (sr_neg r).
  - change W64 with TWO64. apply N.mod_upper_bound. discriminate.
  - unfold ULONG_MAX, W64 in *. lia.
Qed.

Definition opt_wf (ul : list (option N)) : Prop :=
  Forall (fun o => match o with Some w => w < W64 | None => True end) ul.

Lemma store_opt_wf ul i v ul' : opt_wf ul -> v < W64 -> store_opt ul i v = Ok ul' -> opt_wf ul'.
Proof.
  unfold store_opt, opt_wf. intros H Hv E. destruct (i <? N.of_nat (length ul)); [|discriminate].
  injection E as <-. apply Forall_app. split.
  - rewrite <- (firstn_skipn (N.to_nat i) ul) in H. apply Forall_app in H. tauto.
  - constructor; [exact Hv|].
    rewrite <- (firstn_skipn (S (N.to_nat i)) ul) in H. apply Forall_app in H. tauto.
Qed.
Lemma or_store_wf ul i v ul' : opt_wf ul -> v < W64 -> or_store ul i v = Ok ul' -> opt_wf ul'.
Proof.
  unfold or_store. intros H Hv E. destruct (nth_error ul (N.to_nat i)) as [o|] eqn:En; [|discriminate].
  eapply store_opt_wf; [exact H| |exact E]. apply lor_lt; [|exact Hv].
  destruct o as [w|]; [|reflexivity]. unfold opt_wf in H. rewrite Forall_forall in H.
  apply (H (Some w)). eapply nth_error_In; eauto.
Qed.
Lemma map_default_wf d ul : d < W64 -> opt_wf ul ->
  Forall (fun w => w < W64) (map (fun o => match o with Some w => w | None => d end) ul).
Proof.
  intros Hd H. induction H as [|o ul Ho _ IH]; [constructor|]. cbn [map]. constructor; [|exact IH].
  destruct o; assumption.
Qed.
Lemma repeat_opt_wf o n : match o with Some w => w < W64 | None => True end -> opt_wf (repeat o n).
Proof. intros H. unfold opt_wf. apply Forall_forall. intros x Hx. apply repeat_spec in Hx. now subst. Qed.

Lemma hwloc_loop_wf z s : forall fuel cur count accum ul ul',
  opt_wf ul -> accum < W64 ->
  hwloc_sscanf_loop z fuel s cur count accum ul = Ok (LDone ul') -> opt_wf ul'.
Proof.
  induction fuel as [|fuel IH]; intros cur count accum ul ul' Hul Hacc E; [discriminate|].
  cbn [hwloc_sscanf_loop] in E.
  destruct (rdr s cur) as [c|]; [|discriminate]. cbn [bind] in E.
  destruct (c =? 0).
  { destruct (z && negb (accum =? 0) && (0 <? count)).
    - destruct (or_store ul (N.pred count / 2) accum) as [u|] eqn:Eo; [|discriminate].
      cbn [bind] in E. injection E as <-. eapply or_store_wf; eauto.
    - injection E as <-. exact Hul. }
  destruct (strtoul s cur 16) as [[v e]|]; [|discriminate]. cbn [bind] in E.
  destruct (count =? 0); [discriminate|].
  set (acc' := N.lor accum ((v * 2 ^ ((N.pred count * 32) mod 64)) mod W64)) in *.
  assert (Hacc' : acc' < W64).
  { apply lor_lt; [exact Hacc|]. apply N.mod_upper_bound. discriminate. }
  destruct (N.pred count mod 2 =? 0).
  - destruct (store_opt ul (N.pred count / 2) acc') as [u|] eqn:Es; [|discriminate]. cbn [bind] in E.
    assert (Hu : opt_wf u) by (eapply store_opt_wf; eauto).
    destruct (rdr s e) as [nc|]; [|discriminate]. cbn [bind] in E.
    destruct (negb (nc =? COMMA)).
    + destruct (negb (nc =? 0) || (0 <? N.pred count)); [discriminate|]. injection E as <-. exact Hu.
    + eapply IH; [exact Hu| |exact E]. reflexivity.
  - cbn [bind] in E. destruct (rdr s e) as [nc|]; [|discriminate]. cbn [bind] in E.
    destruct (negb (nc =? COMMA)).
    + destruct (negb (nc =? 0) || (0 <? N.pred count)); [discriminate|]. injection E as <-. exact Hul.
    + eapply IH; [exact Hul|exact Hacc'|exact E].
Qed.

Lemma parse_hwloc_gen_wf f z d s b : d < W64 -> parse_hwloc_gen f z d s = Ok (PSet b) -> bm_wf b.
Proof.
  intros Hd. unfold parse_hwloc_gen.
  destruct (count_commas _ _ _ _) as [count|]; [|discriminate]. cbn [bind].
  destruct (has_prefix _ _ _) as [pfx|]; [|discriminate]. cbn [bind].
  match goal with |- bind ?X _ = _ -> _ => destruct X as [[[[cur infinite] cnt]|]|] end; try discriminate; cbn [bind].
  2:{ intros [= <-]. repeat constructor. }
  match goal with |- bind ?X _ = _ -> _ => destruct X as [[ul| |]|] eqn:E end; try discriminate; cbn [bind].
  intros [= <-]. unfold bm_wf. cbn [bm_words]. apply map_default_wf; [exact Hd|].
  eapply hwloc_loop_wf; [| |exact E].
  - apply repeat_opt_wf. destruct z; [reflexivity|exact I].
  - destruct (infinite && negb (cnt mod 2 =? 0)); reflexivity.
Qed.

Lemma taskset_loop_wf s infinite : forall fuel cur chars count ul ul',
  opt_wf ul -> taskset_sscanf_loop fuel s cur chars count infinite ul = Ok (LDone ul') -> opt_wf ul'.
Proof.
  induction fuel as [|fuel IH]; intros cur chars count ul ul' Hul E; [discriminate|].
  cbn [taskset_sscanf_loop] in E.
  destruct (rdr s cur) as [c|]; [|discriminate]. cbn [bind] in E.
  destruct (c =? 0); [injection E as <-; exact Hul|].
  destruct (rdn s cur _) as [bytes|]; [|discriminate]. cbn [bind] in E.
  destruct (strtoul (bytes ++ [0]) 0 16) as [[v e]|] eqn:Est; [|discriminate]. cbn [bind] in E.
  destruct (rdr (bytes ++ [0]) e) as [nb|]; [|discriminate]. cbn [bind] in E.
  destruct (negb (nb =? 0)); [discriminate|].
  destruct (count =? 0); [discriminate|].
  match type of E with context [store_opt ul (N.pred count) ?w] =>
    destruct (store_opt ul (N.pred count) w) as [u|] eqn:Es; [|discriminate];
    assert (Hw : w < W64) end.
  { pose proof (strtoul_val_bound _ _ _ _ _ Est) as Hv.
    destruct (infinite && negb (_ =? 16)); [|exact Hv].
    apply lor_lt; [exact Hv|]. apply N.mod_upper_bound. discriminate. }
  cbn [bind] in E. eapply IH; [|exact E]. eapply store_opt_wf; eauto.
Qed.

Lemma parse_taskset_wf d s b : d < W64 -> parse_taskset d s = Ok (PSet b) -> bm_wf b.
Proof.
  intros Hd. unfold parse_taskset.
  destruct (has_prefix _ _ _) as [pfx|]; [|discriminate]. cbn [bind].
  match goal with |- bind ?X _ = _ -> _ => destruct X as [[b0|[cur infinite]]|] eqn:Eh end; try discriminate; cbn [bind].
  - intros [= <-]. destruct pfx.
    + destruct (rdr s 7) as [c|]; [|discriminate]. cbn [bind] in Eh. destruct (c =? 0); [|discriminate].
      injection Eh as <-. repeat constructor.
    + destruct (has_prefix "0x" s 0) as [p2|]; [|discriminate]. cbn [bind] in Eh.
      destruct (rdr s _) as [c|]; [|discriminate]. cbn [bind] in Eh. destruct (c =? 0); [|discriminate].
      injection Eh as <-. repeat constructor.
  - destruct (strlen_at s cur) as [chars|]; [|discriminate]. cbn [bind].
    match goal with |- bind ?X _ = _ -> _ => destruct X as [[ul| |]|] eqn:E end; try discriminate; cbn [bind].
    intros [= <-]. unfold bm_wf. cbn [bm_words]. apply map_default_wf; [exact Hd|].
    eapply taskset_loop_wf; [|exact E]. apply repeat_opt_wf. exact I.
Qed.
