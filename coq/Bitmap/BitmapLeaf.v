(* C03 proofs, part 11: hwloc_flsl_manual (the flsl used by this configuration),
   modelled statement by statement, equals its specification N.size on every
   64-bit word. *)
From Coq Require Import NArith ZArith Bool List Lia ZifyBool ZifyN ZifyNat.
From HV Require Import Base.BSet Bitmap.BitmapModel Bitmap.BitmapBase.
Local Open Scope N_scope.

Lemma stage_mask_bit k j : N.testbit (N.shiftl (N.ones k) k) j = (k <=? j) && (j <? 2 * k).
Proof.
  destruct (N.leb_spec k j) as [H|H]; cbn [andb].
  - rewrite N.shiftl_spec_high' by assumption. destruct (N.ltb_spec j (2 * k)).
    + apply N.ones_spec_low. lia.
    + apply N.ones_spec_high. lia.
  - apply N.shiftl_spec_low. assumption.
Qed.

Lemma flsl_step_spec k mask x i : mask = N.shiftl (N.ones k) k -> 0 < k -> 0 < x -> x < 2 ^ (2 * k) ->
  let (x', i') := flsl_step mask k (x, i) in
  0 < x' /\ x' < 2 ^ k /\ i' + N.log2 x' = i + N.log2 x.
Proof.
  intros -> Hk Hx Hlt. unfold flsl_step.
  assert (Hl : N.log2 x < 2 * k) by (apply N.log2_lt_pow2; assumption).
  destruct (N.lt_ge_cases x (2 ^ k)) as [Hs|Hb].
  - (* high half empty *)
    assert (Z : N.land x (N.shiftl (N.ones k) k) = 0).
    { apply N.bits_inj. intros j. rewrite N.land_spec, stage_mask_bit, N.bits_0.
      destruct (N.leb_spec k j); cbn [andb]; [|apply andb_false_r].
      rewrite N.bits_above_log2; [reflexivity|]. apply N.log2_lt_pow2 in Hs; lia. }
    rewrite Z. cbn [N.eqb]. auto.
  - assert (Hlk : k <= N.log2 x) by (apply N.log2_le_pow2; assumption).
    assert (NZ : N.land x (N.shiftl (N.ones k) k) <> 0).
    { intros Z. assert (B : N.testbit (N.land x (N.shiftl (N.ones k) k)) (N.log2 x) = true).
      { rewrite N.land_spec, stage_mask_bit, N.bit_log2 by lia.
        replace (k <=? N.log2 x) with true by (symmetry; apply N.leb_le; assumption).
        replace (N.log2 x <? 2 * k) with true by (symmetry; apply N.ltb_lt; assumption). reflexivity. }
      rewrite Z, N.bits_0 in B. discriminate. }
    apply N.eqb_neq in NZ. rewrite NZ.
    assert (Hq : 0 < N.shiftr x k).
    { rewrite N.shiftr_div_pow2. apply N.div_str_pos. split; [apply N.neq_0_lt_0, N.pow_nonzero; discriminate|assumption]. }
    split; [assumption|]. split.
    + rewrite N.shiftr_div_pow2. apply N.div_lt_upper_bound; [apply N.pow_nonzero; discriminate|].
      rewrite <- N.pow_add_r. replace (k + k) with (2 * k) by lia. assumption.
    + rewrite N.log2_shiftr. lia.
Qed.

Theorem flsl_manual_correct w : w < U64 -> flsl_manual w = flsl w.
Proof.
  intros Hw. unfold flsl_manual, flsl. destruct (N.eqb_spec w 0) as [->|Nz]; [reflexivity|].
  assert (H0 : 0 < w) by lia.
  pose proof (flsl_step_spec 32 18446744069414584320 w 1 eq_refl ltac:(lia) H0 Hw) as S1.
  destruct (flsl_step 18446744069414584320 32 (w, 1)) as [x1 i1]. destruct S1 as (P1 & L1 & E1).
  pose proof (flsl_step_spec 16 4294901760 x1 i1 eq_refl ltac:(lia) P1 L1) as S2.
  destruct (flsl_step 4294901760 16 (x1, i1)) as [x2 i2]. destruct S2 as (P2 & L2 & E2).
  pose proof (flsl_step_spec 8 65280 x2 i2 eq_refl ltac:(lia) P2 L2) as S3.
  destruct (flsl_step 65280 8 (x2, i2)) as [x3 i3]. destruct S3 as (P3 & L3 & E3).
  pose proof (flsl_step_spec 4 240 x3 i3 eq_refl ltac:(lia) P3 L3) as S4.
  destruct (flsl_step 240 4 (x3, i3)) as [x4 i4]. destruct S4 as (P4 & L4 & E4).
  pose proof (flsl_step_spec 2 12 x4 i4 eq_refl ltac:(lia) P4 L4) as S5.
  destruct (flsl_step 12 2 (x4, i4)) as [x5 i5]. destruct S5 as (P5 & L5 & E5).
  pose proof (flsl_step_spec 1 2 x5 i5 eq_refl ltac:(lia) P5 L5) as S6.
  destruct (flsl_step 2 1 (x5, i5)) as [x6 i6]. destruct S6 as (P6 & L6 & E6).
  cbn [snd]. assert (x6 = 1) by (change (2 ^ 1) with 2 in L6; lia). subst x6. change (N.log2 1) with 0 in E6.
  rewrite N.size_log2 by assumption. lia.
Qed.
