(* C03 proofs, part 5: compare_first (as found: refuted + partial; with the last
   line fixed: full), compare. *)
From Coq Require Import NArith ZArith Bool List Lia ZifyBool ZifyN ZifyNat.
From HV Require Import Base.BSet Bitmap.BitmapModel Bitmap.BitmapSpec Bitmap.BitmapBase Bitmap.BitmapOps
  Bitmap.BitmapQueries Bitmap.BitmapScan.
Import ListNotations.
Local Open Scope N_scope.
Ltac Zify.zify_post_hook ::= Z.div_mod_to_equations.

(* ---------------- where the least element is, from the words ---------------- *)
Lemma zero_below r n : wf r -> (forall i, i < n -> rd r i = 0) -> forall j, j < 64 * n -> mem j (abs r) = false.
Proof.
  intros H Z j Hj. rewrite mem_abs by assumption. rewrite Z; [apply N.bits_0|]. apply N.div_lt_upper_bound; lia.
Qed.

Lemma first_in_word r i : wf r -> (forall i', i' < i -> rd r i' = 0) -> rd r i <> 0 ->
  bs_first (abs r) = Some (64 * i + (ffsl (rd r i) - 1)) /\ ffsl (rd r i) - 1 < 64 /\ 1 <= ffsl (rd r i).
Proof.
  intros H Z Hnz. destruct (ffsl_spec _ Hnz (rd_lt r i H)) as (F1 & F2 & F3 & F4).
  split; [|split; assumption]. apply bs_first_unique.
  - rewrite mem_abs by assumption. destruct (split64 i _ F2) as [-> ->]. exact F3.
  - intros j Hj. rewrite mem_abs by assumption.
    pose proof (N.div_mod j 64 ltac:(discriminate)). pose proof (N.mod_lt j 64 ltac:(discriminate)).
    destruct (N.lt_trichotomy (j / 64) i) as [Hlt|[Heq|Hgt]]; [| |nia].
    + rewrite Z by assumption. apply N.bits_0.
    + rewrite Heq. apply F4. lia.
Qed.

Lemma nonzero_word_nonempty r i : wf r -> rd r i <> 0 -> bs_first (abs r) <> None.
Proof.
  intros H Hnz E. apply bs_first_none in E.
  destruct (word_nonzero_bit _ (rd_lt r i H) Hnz) as (j & Hj & B).
  pose proof (mem_abs r (64 * i + j) H) as M. destruct (split64 i j Hj) as [E1 E2]. rewrite E1, E2, B, E, mem_empty in M.
  discriminate.
Qed.

Lemma tail_only r : wf r -> (forall i, i < count r -> rd r i = 0) ->
  abs r = (if infinite r then bs_from (64 * count r) else bs_empty) /\
  bs_first (abs r) = (if infinite r then Some (64 * count r) else None).
Proof.
  intros H Z.
  assert (E : abs r = if infinite r then bs_from (64 * count r) else bs_empty).
  { apply bs_ext. intros k. rewrite mem_abs by assumption.
    destruct (N.lt_ge_cases (k / 64) (count r)) as [Hk|Hk].
    - rewrite Z by assumption. rewrite N.bits_0. apply div64_lt in Hk.
      destruct (infinite r); [rewrite mem_from; symmetry; apply N.leb_gt; assumption|now rewrite mem_empty].
    - rewrite rd_out by assumption. unfold inf_word.
      assert (64 * count r <= k) by (destruct (N.lt_ge_cases k (64 * count r)) as [C|C]; [apply div64_lt in C; lia|assumption]).
      destruct (infinite r).
      + rewrite mem_from, testbit_FULL.
        replace (k mod 64 <? 64) with true by (symmetry; apply N.ltb_lt, N.mod_lt; discriminate).
        symmetry. apply N.leb_le. assumption.
      + rewrite mem_empty. apply N.bits_0. }
  split; [exact E|]. rewrite E. destruct (infinite r).
  - apply bs_first_unique.
    + rewrite mem_from. apply N.leb_refl.
    + intros j Hj. rewrite mem_from. apply N.leb_gt. assumption.
  - reflexivity.
Qed.

Lemma cmpN_lt x y : x < y -> cmpN x y = (-1)%Z.
Proof. intros H. unfold cmpN. now rewrite (proj2 (N.compare_lt_iff x y) H). Qed.
Lemma cmpN_gt x y : y < x -> cmpN x y = 1%Z.
Proof. intros H. unfold cmpN. now rewrite (proj2 (N.compare_gt_iff x y) H). Qed.
Lemma cmpN_eq x : cmpN x x = 0%Z.
Proof. unfold cmpN. now rewrite N.compare_refl. Qed.

(* the class on which the code as found is wrong: one set is empty, the other
   is {64c, 64c+1, ...} with c >= 1 *)
Definition cf_excluded (a b : bset) : Prop :=
  (a = bs_empty /\ exists c, 1 <= c /\ b = bs_from (64 * c)) \/
  (b = bs_empty /\ exists c, 1 <= c /\ a = bs_from (64 * c)).

Lemma land1_bit0 w : (N.land w 1 =? 0) = negb (N.testbit w 0).
Proof. apply (land_pow2_eq0 w 0). Qed.

Lemma compare_first_core fixed r1 r2 : wf r1 -> wf r2 ->
  Z.sgn (bm_compare_first_v fixed r1 r2) = sp_compare_first (abs r1) (abs r2) \/
  (fixed = false /\ cf_excluded (abs r1) (abs r2)).
Proof.
  intros H1 H2. pose proof (wf_count1 r1 H1) as C1. pose proof (wf_count1 r2 H2) as C2.
  unfold bm_compare_first_v, sp_compare_first.
  set (c1 := count r1) in *. set (c2 := count r2) in *.
  set (mx := if c2 <? c1 then c1 else c2). set (mn := c1 + c2 - mx).
  assert (Hmx : mx = N.max c1 c2) by (unfold mx; brk; lia).
  assert (Hmn : mn = N.min c1 c2) by (unfold mn; lia).
  clearbody mx mn.
  destruct (for_find 0 mn _) as [z|] eqn:EA; cbn [orelse dflt].
  - (* a non-zero word in the common part *)
    left. apply for_find_some in EA as (i & Hi & Fi & Lo).
    assert (Zl : forall j, j < i -> rd r1 j = 0 /\ rd r2 j = 0).
    { intros j Hj. specialize (Lo j ltac:(lia)). cbv beta zeta in Lo.
      rewrite !rd_in by (fold c1 c2; lia).
      destruct (N.eqb_spec (getw (words r1) j) 0), (N.eqb_spec (getw (words r2) j) 0); cbn [negb orb] in Lo;
        repeat match type of Lo with context[if ?c then _ else _] => destruct c end; try discriminate. auto. }
    cbv beta zeta in Fi. rewrite <- !(rd_in r1 i), <- !(rd_in r2 i) in Fi by (fold c1 c2; lia).
    destruct (N.eqb_spec (rd r1 i) 0) as [Z1|N1], (N.eqb_spec (rd r2 i) 0) as [Z2|N2]; cbn [negb orb] in Fi; try discriminate.
    + (* set1's word empty *)
      destruct (first_in_word r2 i H2 (fun j Hj => proj2 (Zl j Hj)) N2) as (F2 & B2 & P2).
      rewrite Z1 in Fi. cbn in Fi. 
      replace (Z.of_N (ffsl (rd r2 i)) =? 0)%Z with false in Fi by (symmetry; apply Z.eqb_neq; lia).
      cbn in Fi. injection Fi as <-.
      rewrite F2.
      destruct (bs_first_ge (abs r1) (64 * (i + 1))) as [->|(k & Hk & ->)].
      { apply zero_below; auto. intros j Hj. destruct (N.eq_dec j i) as [->|]; [assumption|]. apply Zl. lia. }
      * cbn. lia.
      * cbn [cmp_optN_top]. rewrite cmpN_gt by lia. lia.
    + (* set2's word empty *)
      destruct (first_in_word r1 i H1 (fun j Hj => proj1 (Zl j Hj)) N1) as (F1 & B1 & P1).
      rewrite Z2 in Fi. cbn [ffsl Z.of_N Z.eqb negb andb] in Fi. rewrite andb_false_r in Fi. injection Fi as <-.
      rewrite F1.
      destruct (bs_first_ge (abs r2) (64 * (i + 1))) as [->|(k & Hk & ->)].
      { apply zero_below; auto. intros j Hj. destruct (N.eq_dec j i) as [->|]; [assumption|]. apply Zl. lia. }
      * cbn. lia.
      * cbn [cmp_optN_top]. rewrite cmpN_lt by lia. lia.
    + (* both have a bit in word i *)
      destruct (first_in_word r1 i H1 (fun j Hj => proj1 (Zl j Hj)) N1) as (F1 & B1 & P1).
      destruct (first_in_word r2 i H2 (fun j Hj => proj2 (Zl j Hj)) N2) as (F2 & B2 & P2).
      replace (Z.of_N (ffsl (rd r1 i)) =? 0)%Z with false in Fi by (symmetry; apply Z.eqb_neq; lia).
      replace (Z.of_N (ffsl (rd r2 i)) =? 0)%Z with false in Fi by (symmetry; apply Z.eqb_neq; lia).
      cbn [negb andb] in Fi. injection Fi as <-. rewrite F1, F2. cbn [cmp_optN_top].
      destruct (N.lt_trichotomy (ffsl (rd r1 i)) (ffsl (rd r2 i))) as [L|[E|G]].
      * rewrite cmpN_lt by lia. lia.
      * rewrite E, cmpN_eq. lia.
      * rewrite cmpN_gt by lia. lia.
  - (* common part all zero *)
    rewrite for_find_none in EA.
    assert (Zc : forall j, j < mn -> rd r1 j = 0 /\ rd r2 j = 0).
    { intros j Hj. specialize (EA j ltac:(lia)). cbv beta zeta in EA.
      rewrite !rd_in by (fold c1 c2; lia).
      destruct (N.eqb_spec (getw (words r1) j) 0), (N.eqb_spec (getw (words r2) j) 0); cbn [negb orb] in EA;
        repeat match type of EA with context[if ?c then _ else _] => destruct c end; try discriminate. auto. }
    (* the last line, reached with all valid words of both zero *)
    assert (LAST : (forall i, i < c1 -> rd r1 i = 0) -> (forall i, i < c2 -> rd r2 i = 0) ->
       (infinite r1 = true -> infinite r2 = true -> c1 = c2) ->
       Z.sgn (if fixed then b2z (infinite r2) - b2z (infinite r1) else b2z (infinite r1) - b2z (infinite r2)) =
         cmp_optN_top (bs_first (abs r1)) (bs_first (abs r2)) \/ fixed = false /\ cf_excluded (abs r1) (abs r2)).
    { intros Z1 Z2 Hcc. destruct (tail_only r1 H1 Z1) as [A1 F1]. destruct (tail_only r2 H2 Z2) as [A2 F2].
      rewrite F1, F2, A1, A2. fold c1 c2.
      destruct (infinite r1), (infinite r2).
      - left. cbn [cmp_optN_top]. rewrite (Hcc eq_refl eq_refl), cmpN_eq. destruct fixed; reflexivity.
      - destruct fixed; [left; reflexivity|].
        right. split; [reflexivity|]. right. split; [reflexivity|]. exists c1. split; [lia|reflexivity].
      - destruct fixed; [left; reflexivity|].
        right. split; [reflexivity|]. left. split; [reflexivity|]. exists c2. split; [lia|reflexivity].
      - left. destruct fixed; reflexivity. }
    destruct (N.eqb_spec c1 c2) as [Ec|Nc]; cbn [negb].
    + apply LAST; [intros i Hi; apply Zc; lia|intros i Hi; apply Zc; lia|auto].
    + destruct (N.ltb_spec mn c2) as [Hlt|Hge].
      * (* set2 is longer: mn = c1 *)
        assert (Z1 : forall i, i < c1 -> rd r1 i = 0) by (intros i Hi; apply Zc; lia).
        destruct (tail_only r1 H1 Z1) as [A1 F1]. fold c1 in A1, F1.
        destruct (infinite r1) eqn:I1.
        -- left. destruct (for_find mn c2 _) as [z|] eqn:EB; cbn [dflt].
           ++ apply for_find_some in EB as (i & Hi & Fi & Lo).
              assert (i = mn).
              { destruct (N.eq_dec i mn) as [|Hne]; [assumption|]. specialize (Lo mn ltac:(lia)). discriminate. }
              subst i. injection Fi as <-. rewrite <- (rd_in r2 mn) by (fold c2; lia). rewrite land1_bit0, F1.
              assert (Zb : forall j, j < 64 * mn -> mem j (abs r2) = false)
                by (apply zero_below; auto; intros j Hj; apply Zc; assumption).
              assert (M0 : mem (64 * mn) (abs r2) = N.testbit (rd r2 mn) 0).
              { rewrite mem_abs by assumption. replace (64 * mn) with (64 * mn + 0) by lia.
                destruct (split64 mn 0 ltac:(lia)) as [-> ->]. reflexivity. }
              destruct (N.testbit (rd r2 mn) 0) eqn:B0; cbn [negb b2z Z.opp Z.sgn].
              ** rewrite (bs_first_unique (abs r2) (64 * mn)) by assumption. cbn [cmp_optN_top].
                 replace c1 with mn by lia. now rewrite cmpN_eq.
              ** destruct (bs_first_ge (abs r2) (64 * mn + 1)) as [->|(k & Hk & ->)].
                 { intros j Hj. destruct (N.eq_dec j (64 * mn)) as [->|]; [assumption|]. apply Zb. lia. }
                 --- reflexivity.
                 --- cbn [cmp_optN_top]. rewrite cmpN_lt by lia. reflexivity.
           ++ rewrite for_find_none in EB. specialize (EB mn ltac:(lia)). discriminate.
        -- destruct (for_find mn c2 _) as [z|] eqn:EB; cbn [dflt].
           ++ left. apply for_find_some in EB as (i & Hi & Fi & Lo). cbv beta zeta in Fi.
              rewrite <- (rd_in r2 i) in Fi by (fold c2; lia).
              destruct (N.eqb_spec (rd r2 i) 0) as [|Nz]; cbn [negb] in Fi; [discriminate|]. injection Fi as <-.
              rewrite F1. pose proof (nonzero_word_nonempty r2 i H2 Nz) as Ne.
              destruct (bs_first (abs r2)); [reflexivity|congruence].
           ++ rewrite for_find_none in EB. apply LAST; auto; [|intros; congruence].
              intros i Hi. destruct (N.lt_ge_cases i mn) as [Hl|Hg]; [apply Zc; assumption|].
              specialize (EB i ltac:(lia)). cbv beta zeta in EB. rewrite <- (rd_in r2 i) in EB by (fold c2; lia).
              destruct (N.eqb_spec (rd r2 i) 0); [assumption|discriminate].
      * (* set1 is longer: mn = c2 *)
        assert (Z2 : forall i, i < c2 -> rd r2 i = 0) by (intros i Hi; apply Zc; lia).
        destruct (tail_only r2 H2 Z2) as [A2 F2]. fold c2 in A2, F2.
        destruct (infinite r2) eqn:I2.
        -- left. destruct (for_find mn c1 _) as [z|] eqn:EB; cbn [dflt].
           ++ apply for_find_some in EB as (i & Hi & Fi & Lo).
              assert (i = mn).
              { destruct (N.eq_dec i mn) as [|Hne]; [assumption|]. specialize (Lo mn ltac:(lia)). discriminate. }
              subst i. injection Fi as <-. rewrite <- (rd_in r1 mn) by (fold c1; lia). rewrite land1_bit0, F2.
              assert (Zb : forall j, j < 64 * mn -> mem j (abs r1) = false)
                by (apply zero_below; auto; intros j Hj; apply Zc; assumption).
              assert (M0 : mem (64 * mn) (abs r1) = N.testbit (rd r1 mn) 0).
              { rewrite mem_abs by assumption. replace (64 * mn) with (64 * mn + 0) by lia.
                destruct (split64 mn 0 ltac:(lia)) as [-> ->]. reflexivity. }
              destruct (N.testbit (rd r1 mn) 0) eqn:B0; cbn [negb b2z Z.sgn].
              ** rewrite (bs_first_unique (abs r1) (64 * mn)) by assumption. cbn [cmp_optN_top].
                 replace c2 with mn by lia. now rewrite cmpN_eq.
              ** destruct (bs_first_ge (abs r1) (64 * mn + 1)) as [->|(k & Hk & ->)].
                 { intros j Hj. destruct (N.eq_dec j (64 * mn)) as [->|]; [assumption|]. apply Zb. lia. }
                 --- reflexivity.
                 --- cbn [cmp_optN_top]. rewrite cmpN_gt by lia. reflexivity.
           ++ rewrite for_find_none in EB. specialize (EB mn ltac:(lia)). discriminate.
        -- destruct (for_find mn c1 _) as [z|] eqn:EB; cbn [dflt].
           ++ left. apply for_find_some in EB as (i & Hi & Fi & Lo). cbv beta zeta in Fi.
              rewrite <- (rd_in r1 i) in Fi by (fold c1; lia).
              destruct (N.eqb_spec (rd r1 i) 0) as [|Nz]; cbn [negb] in Fi; [discriminate|]. injection Fi as <-.
              rewrite F2. pose proof (nonzero_word_nonempty r1 i H1 Nz) as Ne.
              destruct (bs_first (abs r1)); [reflexivity|congruence].
           ++ rewrite for_find_none in EB. apply LAST; auto; [|intros; congruence].
              intros i Hi. destruct (N.lt_ge_cases i mn) as [Hl|Hg]; [apply Zc; assumption|].
              specialize (EB i ltac:(lia)). cbv beta zeta in EB. rewrite <- (rd_in r1 i) in EB by (fold c1; lia).
              destruct (N.eqb_spec (rd r1 i) 0); [assumption|discriminate].
Qed.

Theorem compare_first_fixed_spec r1 r2 : wf r1 -> wf r2 ->
  Z.sgn (bm_compare_first_v true r1 r2) = sp_compare_first (abs r1) (abs r2).
Proof. intros H1 H2. destruct (compare_first_core true r1 r2 H1 H2) as [E|[E _]]; [exact E|discriminate]. Qed.

Theorem compare_first_asfound_partial r1 r2 : wf r1 -> wf r2 -> ~ cf_excluded (abs r1) (abs r2) ->
  Z.sgn (bm_compare_first_v false r1 r2) = sp_compare_first (abs r1) (abs r2).
Proof. intros H1 H2 N. destruct (compare_first_core false r1 r2 H1 H2) as [E|[_ E]]; [exact E|contradiction]. Qed.

Definition cf_w_empty : repr := R 1 8 [0] false.
Definition cf_w_from64_1w : repr := R 1 8 [0] true.                        (* fill; clr_range 0 63 *)
Definition cf_w_from64_2w : repr := R 2 8 [0; 18446744073709551615] true.  (* set_range 64 -1 *)

Theorem compare_first_asfound_refuted :
  exists r1 r2 r1' r2', wf r1 /\ wf r2 /\ wf r1' /\ wf r2' /\ abs r1 = abs r1' /\ abs r2 = abs r2' /\
    bm_compare_first_v false r1 r2 <> bm_compare_first_v false r1' r2' /\
    Z.sgn (bm_compare_first_v false r1 r2) <> sp_compare_first (abs r1) (abs r2).
Proof.
  exists cf_w_empty, cf_w_from64_1w, cf_w_empty, cf_w_from64_2w.
  assert (W : forall c ws i, (1 <=? c) && (c <=? 8) && (N.of_nat (length ws) =? c) && forallb (fun w => w <? U64) ws = true ->
     wf (R c 8 ws i)).
  { intros c ws i Hb. apply andb_true_iff in Hb as [Hb Hf]. apply andb_true_iff in Hb as [Hb Hl].
    apply andb_true_iff in Hb as [Hb1 Hb2]. apply N.leb_le in Hb1, Hb2. apply N.eqb_eq in Hl.
    constructor; cbn [count alloc words]; try assumption; try (unfold MAXC; lia).
    apply Forall_forall. intros w Hw. rewrite forallb_forall in Hf. apply N.ltb_lt, Hf, Hw. }
  repeat split; try (apply W; vm_compute; reflexivity); vm_compute; congruence.
Qed.

(* the excluded class is not empty and is exactly where the witnesses live *)
Lemma cf_excluded_witness : cf_excluded (abs cf_w_empty) (abs cf_w_from64_1w).
Proof. left. split; [reflexivity|]. exists 1. split; [lia|vm_compute; reflexivity]. Qed.

(* ---------------- compare ---------------- *)
Lemma bits_below_lt x d : (forall j, d <= j -> N.testbit x j = false) -> x < 2 ^ d.
Proof.
  intros H. destruct (N.eq_dec x 0) as [->|Hz]; [apply N.neq_0_lt_0, N.pow_nonzero; discriminate|].
  apply N.log2_lt_pow2; [lia|]. destruct (N.lt_ge_cases (N.log2 x) d) as [|Hge]; [assumption|].
  specialize (H _ Hge). rewrite N.bit_log2 in H by assumption. discriminate.
Qed.

Lemma N_lt_by_bit x y d :
  N.testbit x d = false -> N.testbit y d = true -> (forall j, d < j -> N.testbit x j = N.testbit y j) -> x < y.
Proof.
  intros Bx By Hh.
  assert (Eh : x / 2 ^ (d + 1) = y / 2 ^ (d + 1)).
  { apply N.bits_inj. intros j. rewrite !N.div_pow2_bits. apply Hh. lia. }
  assert (Lx : x mod 2 ^ (d + 1) < 2 ^ d).
  { apply bits_below_lt. intros j Hj. destruct (N.eq_dec j d) as [->|].
    - rewrite N.mod_pow2_bits_low by lia. exact Bx.
    - apply N.mod_pow2_bits_high. lia. }
  assert (Ly : 2 ^ d <= y mod 2 ^ (d + 1)).
  { destruct (N.lt_ge_cases (y mod 2 ^ (d + 1)) (2 ^ d)) as [C|C]; [|assumption]. exfalso.
    assert (B : N.testbit (y mod 2 ^ (d + 1)) d = true) by (rewrite N.mod_pow2_bits_low by lia; exact By).
    destruct (N.eq_dec (y mod 2 ^ (d + 1)) 0) as [Z|Nz]; [rewrite Z, N.bits_0 in B; discriminate|].
    apply N.log2_lt_pow2 in C; [|lia]. rewrite N.bits_above_log2 in B by assumption. discriminate. }
  pose proof (N.div_mod x (2 ^ (d + 1)) ltac:(apply N.pow_nonzero; discriminate)) as Dx.
  pose proof (N.div_mod y (2 ^ (d + 1)) ltac:(apply N.pow_nonzero; discriminate)) as Dy.
  rewrite Eh in Dx. set (q := y / 2 ^ (d + 1)) in *. set (p := 2 ^ (d + 1)) in *.
  set (xl := x mod p) in *. set (yl := y mod p) in *. set (pd := 2 ^ d) in *. clearbody q p xl yl pd. nia.
Qed.

Lemma highest_diff x y : x <> y ->
  exists d, N.testbit x d <> N.testbit y d /\ forall j, d < j -> N.testbit x j = N.testbit y j.
Proof.
  intros Hne. assert (Hx : N.lxor x y <> 0) by (intros Z; apply N.lxor_eq in Z; contradiction).
  exists (N.log2 (N.lxor x y)). split.
  - pose proof (N.bit_log2 _ Hx) as B. rewrite N.lxor_spec in B. destruct (N.testbit x _), (N.testbit y _); simpl in B; congruence.
  - intros j Hj. pose proof (N.bits_above_log2 _ _ Hj) as B. rewrite N.lxor_spec in B.
    destruct (N.testbit x j), (N.testbit y j); simpl in B; congruence.
Qed.

Lemma sp_compare_lt a b d : inf a = inf b -> mem d a = false -> mem d b = true ->
  (forall j, d < j -> mem j a = mem j b) -> sp_compare a b = (-1)%Z.
Proof.
  intros I Ma Mb Hh. unfold sp_compare, mem in *. rewrite <- I in *. destruct (inf a).
  - apply cmpN_lt. apply (N_lt_by_bit _ _ d).
    + destruct (N.testbit (fin b) d); [discriminate|reflexivity].
    + destruct (N.testbit (fin a) d); [reflexivity|discriminate].
    + intros j Hj. specialize (Hh j Hj). destruct (N.testbit (fin a) j), (N.testbit (fin b) j); simpl in Hh; congruence.
  - rewrite !xorb_false_r in *. apply cmpN_lt. apply (N_lt_by_bit _ _ d); auto.
    intros j Hj. specialize (Hh j Hj). now rewrite !xorb_false_r in Hh.
Qed.
Lemma sp_compare_gt a b d : inf a = inf b -> mem d a = true -> mem d b = false ->
  (forall j, d < j -> mem j a = mem j b) -> sp_compare a b = 1%Z.
Proof.
  intros I Ma Mb Hh. unfold sp_compare, mem in *. rewrite <- I in *. destruct (inf a).
  - apply cmpN_gt. apply (N_lt_by_bit _ _ d).
    + destruct (N.testbit (fin a) d); [discriminate|reflexivity].
    + destruct (N.testbit (fin b) d); [reflexivity|discriminate].
    + intros j Hj. specialize (Hh j Hj). destruct (N.testbit (fin a) j), (N.testbit (fin b) j); simpl in Hh; congruence.
  - rewrite !xorb_false_r in *. apply cmpN_gt. apply (N_lt_by_bit _ _ d); auto.
    intros j Hj. specialize (Hh j Hj). rewrite !xorb_false_r in Hh. congruence.
Qed.
Lemma sp_compare_refl a : sp_compare a a = 0%Z.
Proof. unfold sp_compare. destruct (inf a); apply cmpN_eq. Qed.

Lemma word_cmp_to_set r1 r2 i : wf r1 -> wf r2 -> infinite r1 = infinite r2 ->
  (forall j, i < j -> rd r1 j = rd r2 j) -> rd r1 i <> rd r2 i ->
  sp_compare (abs r1) (abs r2) = if rd r1 i <? rd r2 i then (-1)%Z else 1%Z.
Proof.
  intros H1 H2 I Hh Hne. destruct (highest_diff _ _ Hne) as (d & Bd & Hd).
  assert (Hd64 : d < 64).
  { destruct (N.lt_ge_cases d 64) as [|Hge]; [assumption|]. exfalso. apply Bd.
    now rewrite !bits_high_lt by (try apply rd_lt; assumption). }
  assert (Hi : inf (abs r1) = inf (abs r2)) by (rewrite !inf_abs; assumption).
  assert (Hhigh : forall j, 64 * i + d < j -> mem j (abs r1) = mem j (abs r2)).
  { intros j Hj. rewrite !mem_abs by assumption.
    pose proof (N.div_mod j 64 ltac:(discriminate)). pose proof (N.mod_lt j 64 ltac:(discriminate)).
    destruct (N.lt_trichotomy (j / 64) i) as [Hlt|[Heq|Hgt]]; [nia| |].
    - rewrite Heq. apply Hd. lia.
    - now rewrite Hh. }
  assert (Md : forall r, wf r -> mem (64 * i + d) (abs r) = N.testbit (rd r i) d).
  { intros r Hr. rewrite mem_abs by assumption. destruct (split64 i d Hd64) as [-> ->]. reflexivity. }
  destruct (N.ltb_spec (rd r1 i) (rd r2 i)) as [Hlt|Hge].
  - apply (sp_compare_lt _ _ (64 * i + d)); auto; rewrite Md by assumption.
    + destruct (N.testbit (rd r1 i) d) eqn:B1; [|reflexivity]. exfalso.
      destruct (N.testbit (rd r2 i) d) eqn:B2; [congruence|].
      assert (rd r2 i < rd r1 i) by (apply (N_lt_by_bit _ _ d); auto; intros; symmetry; auto). lia.
    + destruct (N.testbit (rd r2 i) d) eqn:B2; [reflexivity|]. exfalso.
      destruct (N.testbit (rd r1 i) d) eqn:B1; [|congruence].
      assert (rd r2 i < rd r1 i) by (apply (N_lt_by_bit _ _ d); auto; intros; symmetry; auto). lia.
  - assert (Hgt : rd r2 i < rd r1 i) by lia.
    apply (sp_compare_gt _ _ (64 * i + d)); auto; rewrite Md by assumption.
    + destruct (N.testbit (rd r1 i) d) eqn:B1; [reflexivity|]. exfalso.
      destruct (N.testbit (rd r2 i) d) eqn:B2; [|congruence].
      assert (rd r1 i < rd r2 i) by (apply (N_lt_by_bit _ _ d); auto). lia.
    + destruct (N.testbit (rd r2 i) d) eqn:B2; [|reflexivity]. exfalso.
      destruct (N.testbit (rd r1 i) d) eqn:B1; [congruence|].
      assert (rd r1 i < rd r2 i) by (apply (N_lt_by_bit _ _ d); auto). lia.
Qed.

Lemma find_map_ext {A} (f g : N -> option A) l : (forall i, In i l -> f i = g i) -> find_map f l = find_map g l.
Proof.
  induction l as [|x t IH]; intros H; simpl; [reflexivity|].
  rewrite (H x) by (left; reflexivity). destruct (g x); [reflexivity|]. apply IH. intros i Hi. apply H. right; assumption.
Qed.
Lemma for_find_down_ext {A} lo hi (f g : N -> option A) :
  (forall i, lo <= i < hi -> f i = g i) -> for_find_down lo hi f = for_find_down lo hi g.
Proof. intros H. apply find_map_ext. intros i Hi. apply H. apply range_In. now apply in_rev. Qed.

Lemma cmpw_none a b : cmpw a b = None <-> a = b.
Proof. unfold cmpw. destruct (N.eqb_spec a b); split; congruence. Qed.
Lemma cmpw_some a b z : cmpw a b = Some z -> a <> b /\ z = if a <? b then (-1)%Z else 1%Z.
Proof. unfold cmpw. destruct (N.eqb_spec a b); [discriminate|]. intros E. injection E as <-. auto. Qed.

Theorem bm_compare_spec r1 r2 : wf r1 -> wf r2 -> bm_compare r1 r2 = sp_compare (abs r1) (abs r2).
Proof.
  intros H1 H2. unfold bm_compare.
  set (c1 := count r1) in *. set (c2 := count r2) in *.
  set (mx := if c2 <? c1 then c1 else c2). set (mn := c1 + c2 - mx).
  assert (Hmx : mx = N.max c1 c2) by (unfold mx; brk; lia).
  assert (Hmn : mn = N.min c1 c2) by (unfold mn; lia).
  clearbody mx mn.
  destruct (Bool.eqb (negb (infinite r1)) (negb (infinite r2))) eqn:EI; cbn [negb].
  2:{ unfold sp_compare. rewrite !inf_abs. destruct (infinite r1), (infinite r2); try discriminate; reflexivity. }
  assert (I : infinite r1 = infinite r2) by (destruct (infinite r1), (infinite r2); try discriminate; reflexivity).
  set (G := fun i => cmpw (rd r1 i) (rd r2 i)).
  match goal with |- dflt (orelse ?B ?A) _ = _ => set (BB := B); set (AA := A) end.
  assert (SA : AA = for_find_down 0 mn G).
  { unfold AA. apply for_find_down_ext. intros i Hi. unfold G. rewrite !rd_in by (fold c1 c2; lia). reflexivity. }
  assert (SB : BB = for_find_down mn mx G).
  { unfold BB. destruct (N.eqb_spec c1 c2) as [E|E]; cbn [negb].
    - unfold for_find_down. rewrite range_nil by lia. reflexivity.
    - destruct (N.ltb_spec mn c2).
      + apply for_find_down_ext. intros i Hi. unfold G. rewrite (rd_out r1), (rd_in r2) by (fold c1 c2; lia). reflexivity.
      + apply for_find_down_ext. intros i Hi. unfold G. rewrite (rd_in r1), (rd_out r2) by (fold c1 c2; lia). reflexivity. }
  rewrite SA, SB. clear SA SB AA BB.
  assert (Top : forall j, mx <= j -> rd r1 j = rd r2 j).
  { intros j Hj. rewrite !rd_out by (fold c1 c2; lia). unfold inf_word. now rewrite I. }
  destruct (for_find_down mn mx G) as [z|] eqn:EB; cbn [orelse dflt].
  - apply for_find_down_some in EB as (i & Hi & Fi & Hh). unfold G in Fi. apply cmpw_some in Fi as [Ne ->].
    symmetry. apply word_cmp_to_set; auto. intros j Hj.
    destruct (N.lt_ge_cases j mx) as [Hl|Hg]; [|apply Top; assumption].
    apply cmpw_none. apply Hh. lia.
  - rewrite for_find_down_none in EB.
    destruct (for_find_down 0 mn G) as [z|] eqn:EA; cbn [dflt].
    + apply for_find_down_some in EA as (i & Hi & Fi & Hh). unfold G in Fi. apply cmpw_some in Fi as [Ne ->].
      symmetry. apply word_cmp_to_set; auto. intros j Hj.
      destruct (N.lt_ge_cases j mn) as [Hl|Hg]; [apply cmpw_none, Hh; lia|].
      destruct (N.lt_ge_cases j mx) as [Hl2|Hg2]; [apply cmpw_none, EB; lia|apply Top; assumption].
    + rewrite for_find_down_none in EA.
      assert (E : abs r1 = abs r2).
      { apply abs_eq_iff; auto. intros j.
        destruct (N.lt_ge_cases j mn) as [Hl|Hg]; [apply cmpw_none, EA; lia|].
        destruct (N.lt_ge_cases j mx) as [Hl2|Hg2]; [apply cmpw_none, EB; lia|apply Top; assumption]. }
      rewrite E. symmetry. apply sp_compare_refl.
Qed.
