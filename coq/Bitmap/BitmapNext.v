(* C03 proofs, part 9: next / next_unset. *)
From Coq Require Import NArith ZArith Bool List Lia ZifyBool ZifyN ZifyNat.
From HV Require Import Base.BSet Bitmap.BitmapModel Bitmap.BitmapSpec Bitmap.BitmapBase Bitmap.BitmapOps
  Bitmap.BitmapQueries Bitmap.BitmapScan Bitmap.BitmapCompare Bitmap.BitmapRange.
Import ListNotations.
Local Open Scope N_scope.
Ltac Zify.zify_post_hook ::= Z.div_mod_to_equations.

Lemma for_find_ext {A} lo hi (f g : N -> option A) :
  (forall i, lo <= i < hi -> f i = g i) -> for_find lo hi f = for_find lo hi g.
Proof. intros H. apply find_map_ext. intros i Hi. apply H. now apply range_In. Qed.

(* scanning an arbitrary word function for its least set bit *)
Lemma first_scan (w : N -> N) (s : bset) lo c (tail : bool) : lo <= c -> c <= MAXC ->
  (forall k, mem k s = N.testbit (w (k / 64)) (k mod 64)) ->
  (forall i, w i < U64) -> (forall i, i < lo -> w i = 0) -> (forall i, c <= i -> w i = infw tail) ->
  dflt (orelse (for_find lo c (fun i => if w i =? 0 then None else Some (to_int (ffsl (w i) - 1 + BPL * i))))
               (if tail then Some (to_int (c * BPL)) else None)) (-1)%Z = zopt (bs_first s).
Proof.
  intros Hlo HM Hmem Hlt Hz Ht.
  destruct (for_find lo c _) as [z|] eqn:E; cbn [orelse dflt].
  - apply for_find_some in E as (i & Hi & Fi & Lo).
    destruct (N.eqb_spec (w i) 0) as [|Hnz]; [discriminate|]. injection Fi as <-.
    destruct (ffsl_spec _ Hnz (Hlt i)) as (F1 & F2 & F3 & F4).
    set (b := ffsl (w i) - 1) in *.
    rewrite to_int_small by (apply (idx_small i c); lia).
    rewrite (bs_first_unique _ (b + BPL * i)); [reflexivity| |].
    + rewrite Hmem. unfold BPL. rewrite N.add_comm. destruct (split64 i b F2) as [-> ->]. exact F3.
    + intros j Hj. rewrite Hmem. unfold BPL in Hj.
      pose proof (N.div_mod j 64 ltac:(discriminate)). pose proof (N.mod_lt j 64 ltac:(discriminate)).
      destruct (N.lt_trichotomy (j / 64) i) as [Hl|[Heq|Hgt]]; [| |nia].
      * destruct (N.lt_ge_cases (j / 64) lo) as [Hb|Hb]; [rewrite Hz by assumption; apply N.bits_0|].
        specialize (Lo (j / 64) ltac:(lia)). cbv beta in Lo.
        destruct (N.eqb_spec (w (j / 64)) 0) as [Z|]; [|discriminate]. now rewrite Z, N.bits_0.
      * rewrite Heq. apply F4. lia.
  - rewrite for_find_none in E.
    assert (Z : forall i, i < c -> w i = 0).
    { intros i Hi. destruct (N.lt_ge_cases i lo) as [Hb|Hb]; [apply Hz; assumption|].
      specialize (E i ltac:(lia)). cbv beta in E. destruct (N.eqb_spec (w i) 0); [assumption|discriminate]. }
    destruct tail; cbn [dflt].
    + rewrite to_int_small by (unfold BPL, MAXC in *; lia).
      rewrite (bs_first_unique _ (c * BPL)); [reflexivity| |].
      * rewrite Hmem. unfold BPL. rewrite N.div_mul, N.mod_mul by discriminate. rewrite Ht by lia. reflexivity.
      * intros j Hj. rewrite Hmem. unfold BPL in Hj. rewrite Z; [apply N.bits_0|]. apply N.div_lt_upper_bound; lia.
    + rewrite bs_first_empty; [reflexivity|]. intros j. rewrite Hmem.
      destruct (N.lt_ge_cases (j / 64) c) as [Hj|Hj]; [rewrite Z by assumption|rewrite Ht by assumption]; apply N.bits_0.
Qed.

Lemma divmod_le' b k : k / 64 = b / 64 -> (b mod 64 <=? k mod 64) = (b <=? k).
Proof.
  intros E. pose proof (N.div_mod k 64 ltac:(discriminate)). pose proof (N.div_mod b 64 ltac:(discriminate)).
  brk; lia.
Qed.

Lemma land_FROM0 w : w < U64 -> N.land w (ULBIT_FROM 0) = w.
Proof. intros H. apply land_FULL. assumption. Qed.

Lemma mask_after w p : w < U64 -> p < 63 ->
  N.land w (wnot (ULBIT_TO p)) = N.land w (ULBIT_FROM (p + 1)).
Proof.
  intros Hw Hp. apply word_ext; [apply land_lt; assumption|apply land_lt; assumption|].
  intros j Hj. rewrite !N.land_spec, wnot_spec, TO_bit, FROM_bit by (try assumption; lia).
  f_equal. brk; try reflexivity; lia.
Qed.

Theorem bm_next_gen_spec neg r prev : wf r -> (-1 <= prev < Z.of_N IDXMAX)%Z ->
  bm_next_gen neg r prev = zopt (bs_first (bs_inter (absn neg r) (bs_from (Z.to_N (prev + 1))))).
Proof.
  intros H Hp. pose proof (wf_countmax r H) as HM. unfold bm_next_gen.
  set (p1 := Z.to_N (prev + 1)).
  assert (Hp1 : p1 <= IDXMAX) by (unfold p1; lia).
  assert (Enx : to_unsigned (prev + 1) = p1).
  { unfold to_unsigned, p1. rewrite Z.mod_small; [reflexivity|]. unfold IDXMAX in *. lia. }
  cbv zeta. rewrite Enx. unfold SUB_INDEX, BPL.
  assert (Eti : to_int p1 = (prev + 1)%Z).
  { rewrite to_int_small by (unfold IDXMAX in *; lia). unfold p1. lia. }
  rewrite Eti.
  set (i0 := p1 / 64) in *.
  set (T := bs_inter (absn neg r) (bs_from p1)).
  set (tw := fun i => if i <? i0 then 0 else if i =? i0 then N.land (rdn neg r i) (ULBIT_FROM (p1 mod 64)) else rdn neg r i).
  assert (Hm1 : p1 mod 64 < 64) by (apply N.mod_lt; discriminate).
  assert (MT : forall k, mem k T = N.testbit (tw (k / 64)) (k mod 64)).
  { intros k. unfold T, tw. rewrite mem_inter, mem_from, mem_absn by assumption.
    pose proof (N.div_mod k 64 ltac:(discriminate)) as Dk. pose proof (N.mod_lt k 64 ltac:(discriminate)) as Mk.
    pose proof (N.div_mod p1 64 ltac:(discriminate)) as Dp. fold i0 in Dp.
    destruct (N.ltb_spec (k / 64) i0).
    - rewrite N.bits_0. replace (p1 <=? k) with false by (symmetry; apply N.leb_gt; nia). apply andb_false_r.
    - destruct (N.eqb_spec (k / 64) i0) as [Ek|Nk].
      + rewrite N.land_spec, FROM_bit by assumption. rewrite (divmod_le' p1 k Ek). reflexivity.
      + replace (p1 <=? k) with true by (symmetry; apply N.leb_le; nia). apply andb_true_r. }
  assert (TWlt : forall i, tw i < U64).
  { intros i. unfold tw. destruct (i <? i0); [reflexivity|]. destruct (i =? i0); [apply land_lt|]; apply rdn_lt; assumption. }
  destruct (N.leb_spec (count r) i0) as [Hc|Hc].
  - (* prev+1 is beyond the valid words *)
    rewrite eqb_negb_xorb. destruct (xorb (infinite r) neg) eqn:I.
    + rewrite (bs_first_unique T p1).
      * cbn [zopt]. unfold p1. lia.
      * rewrite MT. unfold tw. fold i0. rewrite N.ltb_irrefl, N.eqb_refl.
        rewrite N.land_spec, FROM_bit, N.leb_refl, andb_true_r by assumption.
        rewrite rdn_out, I by assumption. apply (testbit_infw true). assumption.
      * intros j Hj. unfold T. rewrite mem_inter, mem_from. replace (p1 <=? j) with false by (symmetry; apply N.leb_gt; assumption).
        apply andb_false_r.
    + rewrite bs_first_empty; [reflexivity|]. intros j. unfold T. rewrite mem_inter, mem_from, mem_absn by assumption.
      destruct (N.leb_spec p1 j); [|apply andb_false_r]. rewrite andb_true_r.
      rewrite rdn_out, I; [apply N.bits_0|].
      assert (i0 <= j / 64) by (apply N.div_le_mono; [discriminate|assumption]). lia.
  - (* scan from word i0 *)
    rewrite eqb_negb_xorb.
    rewrite <- (first_scan tw T i0 (count r) (xorb (infinite r) neg)); auto; try lia.
    + f_equal. f_equal. apply for_find_ext. intros i Hi. cbv zeta.
      assert (Ew : (if neg then wnot (getw (words r) i) else getw (words r) i) = rdn neg r i) by (rewrite rdn_in by lia; reflexivity).
      rewrite Ew. pose proof (rdn_lt neg r i H) as Hl.
      match goal with |- (if ?w1 =? 0 then _ else _) = _ => assert (E : w1 = tw i) end.
      { unfold tw. replace (i <? i0) with false by (symmetry; apply N.ltb_ge; lia).
        destruct (Z.leb_spec 0 prev) as [Hge|Hneg]; cbn [andb].
        - assert (Eu : to_unsigned prev = Z.to_N prev).
          { unfold to_unsigned. rewrite Z.mod_small; [reflexivity|]. unfold IDXMAX in Hp. lia. }
          rewrite Eu. set (pv := Z.to_N prev) in *. assert (Ep : p1 = pv + 1) by (unfold p1, pv; lia).
          unfold SUB_INDEX, SUB_ULBIT, BPL.
          pose proof (N.div_mod pv 64 ltac:(discriminate)) as Dv. pose proof (N.mod_lt pv 64 ltac:(discriminate)) as Mv.
          pose proof (N.div_mod p1 64 ltac:(discriminate)) as Dp. fold i0 in Dp.
          destruct (N.eq_dec (pv mod 64) 63) as [E63|N63].
          + (* prev is the last bit of its word *)
            assert (pv / 64 + 1 = i0 /\ p1 mod 64 = 0) as [Ei Em] by (split; nia).
            replace (pv / 64 =? i) with false by (symmetry; apply N.eqb_neq; lia).
            rewrite Em. destruct (i =? i0); [symmetry; apply land_FROM0; assumption|reflexivity].
          + assert (pv / 64 = i0 /\ p1 mod 64 = pv mod 64 + 1) as [Ei Em] by (split; nia).
            rewrite Ei, Em, (N.eqb_sym i0 i). destruct (i =? i0); [|reflexivity].
            apply mask_after; [assumption|lia].
        - assert (p1 = 0) by (unfold p1; lia). assert (Z0 : i0 = 0) by (unfold i0; rewrite H0; reflexivity).
          rewrite H0. change (0 mod 64) with 0. destruct (i =? i0); [symmetry; apply land_FROM0; assumption|reflexivity]. }
      rewrite E. reflexivity.
    + intros i Hi. unfold tw. replace (i <? i0) with true by (symmetry; apply N.ltb_lt; assumption). reflexivity.
    + intros i Hi. unfold tw. replace (i <? i0) with false by (symmetry; apply N.ltb_ge; lia).
      replace (i =? i0) with false by (symmetry; apply N.eqb_neq; lia). apply rdn_out. assumption.
Qed.

Theorem bm_next_spec r prev : wf r -> (-1 <= prev < Z.of_N IDXMAX)%Z -> bm_next r prev = sp_next (abs r) prev.
Proof. apply (bm_next_gen_spec false). Qed.
Theorem bm_next_unset_spec r prev : wf r -> (-1 <= prev < Z.of_N IDXMAX)%Z ->
  bm_next_unset r prev = sp_next_unset (abs r) prev.
Proof. apply (bm_next_gen_spec true). Qed.
