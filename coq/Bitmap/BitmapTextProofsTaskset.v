(* C04: general round trip of the taskset format (hwloc_bitmap_taskset_snprintf
   then hwloc_bitmap_taskset_sscanf) for every well-formed bitmap: hexadecimal
   printing lemmas, the parser loop on 16-digit aligned chunks, one leading
   partial chunk, word-list arithmetic (skipped top words do not change abs). *)
From Coq Require Import String Ascii.
From Coq Require Import NArith ZArith PeanoNat List Bool Lia.
From HV Require Import Base.BSet Base.Bytes Base.Strto Base.Snprintf Bitmap.BitmapText Bitmap.BitmapTextProofs.
Import ListNotations.
Local Open Scope N_scope.

(* ---------- hexadecimal digits ---------- *)
Lemma hexc_spec d : d < 16 -> is_digit_in 16 (hexc d) = true /\ digit_of (hexc d) = d /\ toupper (hexc d) <> 88.
Proof.
  intros H. unfold hexc. destruct (N.ltb_spec d 10) as [Hd|Hd].
  - unfold is_digit_in, digit_of, digit_val, isdigit, toupper, islower.
    destruct (N.leb_spec 48 (48 + d)); [|lia]. destruct (N.leb_spec (48 + d) 57); [|lia]. cbn [andb].
    replace (48 + d - 48) with d by lia.
    destruct (N.leb_spec 97 (48 + d)); [lia|]. cbn [andb].
    repeat split; [apply N.ltb_lt; lia|lia].
  - unfold is_digit_in, digit_of, digit_val, isdigit, isupper, islower, toupper, islower.
    destruct (N.leb_spec 48 (87 + d)); [|lia]. destruct (N.leb_spec (87 + d) 57); [lia|]. cbn [andb].
    destruct (N.leb_spec 65 (87 + d)); [|lia]. destruct (N.leb_spec (87 + d) 90); [lia|]. cbn [andb].
    destruct (N.leb_spec 97 (87 + d)); [|lia]. destruct (N.leb_spec (87 + d) 122); [|lia]. cbn [andb].
    replace (87 + d - 87) with d by lia. repeat split; [apply N.ltb_lt; lia|lia].
Qed.

Lemma hex_fixed_spec k : forall v,
  all_digits 16 (hex_fixed k v) /\ digits_val 16 (hex_fixed k v) = v mod 16 ^ N.of_nat k /\
  length (hex_fixed k v) = k /\ Forall (fun c => toupper c <> 88) (hex_fixed k v).
Proof.
  induction k as [|k IH]; intros v.
  - cbn [hex_fixed]. split; [constructor|]. split; [|split; [reflexivity|constructor]].
    unfold digits_val. simpl. now rewrite N.mod_1_r.
  - cbn [hex_fixed]. destruct (IH (v / 16)) as [Hd [Hv [Hl Hx]]].
    assert (Hm : v mod 16 < 16) by (apply N.mod_upper_bound; discriminate).
    destruct (hexc_spec _ Hm) as [D1 [D2 D3]].
    split; [|split; [|split]].
    + apply Forall_app. split; [exact Hd|]. constructor; [exact D1|constructor].
    + rewrite digits_val_app, Hv, D2. rewrite Nat2N.inj_succ, N.pow_succ_r'.
      rewrite N.mod_mul_r by (try discriminate; apply N.pow_nonzero; discriminate). lia.
    + rewrite app_length, Hl. simpl. lia.
    + apply Forall_app. split; [exact Hx|]. constructor; [exact D3|constructor].
Qed.

Lemma hex_fixed_val k v : v < 16 ^ N.of_nat k -> digits_val 16 (hex_fixed k v) = v.
Proof. intros H. destruct (hex_fixed_spec k v) as [_ [Hv _]]. rewrite Hv. now apply N.mod_small. Qed.

Lemma hex_min_spec v : v < W64 ->
  all_digits 16 (hex_min v) /\ digits_val 16 (hex_min v) = v /\
  (1 <= length (hex_min v) <= 16)%nat /\ Forall (fun c => toupper c <> 88) (hex_min v).
Proof.
  intros Hv. unfold hex_min. set (k := Nat.max 1 ((N.to_nat (N.size v) + 3) / 4)).
  destruct (hex_fixed_spec k v) as [Hd [Hval [Hl Hx]]].
  assert (Hsz : N.size v <= 64).
  { destruct v as [|p]; [simpl; lia|]. rewrite N.size_log2 by discriminate.
    assert (N.log2 (N.pos p) < 64); [|lia]. apply N.log2_lt_pow2; [lia|]. exact Hv. }
  assert (Hk : (1 <= k <= 16)%nat).
  { unfold k. assert ((N.to_nat (N.size v) + 3) / 4 < 17)%nat; [|lia].
    assert (N.to_nat (N.size v) <= 64)%nat by lia.
    apply Nat.div_lt_upper_bound; [discriminate|]. lia. }
  split; [exact Hd|]. split; [|split; [lia|exact Hx]].
  rewrite Hval. apply N.mod_small.
  assert (v < 2 ^ N.size v) by apply N.size_gt.
  assert (2 ^ N.size v <= 16 ^ N.of_nat k); [|lia].
  replace 16 with (2 ^ 4) by reflexivity. rewrite <- N.pow_mul_r.
  apply N.pow_le_mono_r; [discriminate|].
  unfold k. pose proof (Nat.div_mod (N.to_nat (N.size v) + 3) 4 ltac:(lia)).
  pose proof (Nat.mod_upper_bound (N.to_nat (N.size v) + 3) 4 ltac:(lia)). lia.
Qed.

(* strtoul(ustr, &next, 16) on a chunk of hex digits followed by its NUL *)
Lemma strtoul_hex_chunk ds : ds <> [] -> all_digits 16 ds -> Forall (fun c => toupper c <> 88) ds ->
  digits_val 16 ds <= ULONG_MAX ->
  strtoul (ds ++ [0]) 0 16 = Ok (digits_val 16 ds, len ds).
Proof.
  intros Hne Hd Hx Hv.
  assert (Hc : 16 = 16 -> toupper (nth 1 (ds ++ [0]) 0) <> 88 \/ nth 0 ds 0 <> 48).
  { intros _. left. destruct ds as [|d0 [|d1 ds']]; [congruence|simpl; discriminate|].
    simpl. inversion Hx as [|x l _ Hx']; subst. inversion Hx'; subst. assumption. }
  pose proof (strto_core_plain [] ds 0 [] 16 ltac:(discriminate) Hne Hd eq_refl Hc) as H.
  cbn [app] in H. change (len []) with 0 in H.
  rewrite (strtoul_of_core _ _ _ _ H); [reflexivity|reflexivity|exact Hv].
Qed.

Lemma hex16_val w : w < W64 -> digits_val 16 (hex_fixed 16 w) = w.
Proof. intros H. apply hex_fixed_val. exact H. Qed.

Lemma first_digit_nz ds : ds <> [] -> all_digits 16 ds -> exists d t, ds = d :: t /\ d <> 0.
Proof.
  intros Hne Hd. destruct ds as [|d t]; [congruence|]. exists d, t. split; [reflexivity|].
  inversion Hd as [|x l Hx _]; subst. intros ->. discriminate.
Qed.

(* the loop standing at a 16-aligned position: every remaining word is one chunk of 16 digits *)
Lemma taskset_aligned infinite : forall rest pre ul fuel,
  Forall (fun w => w < W64) rest ->
  (length rest <= length ul)%nat -> (length rest < fuel)%nat ->
  taskset_sscanf_loop fuel (pre ++ concat (map (hex_fixed 16) rest) ++ [0]) (len pre)
    (16 * N.of_nat (length rest)) (N.of_nat (length rest)) infinite ul
  = Ok (LDone (map Some (rev rest) ++ skipn (length rest) ul)).
Proof.
  induction rest as [|w rest IH]; intros pre ul fuel Hwf Hul Hfuel.
  - destruct fuel; [simpl in Hfuel; lia|]. cbn [map concat app taskset_sscanf_loop length rev skipn].
    unfold rdr. rewrite rd_app_mid. reflexivity.
  - inversion Hwf as [|x l Hw Hwf']; subst x l.
    destruct fuel as [|fuel]; [lia|]. cbn [length] in *.
    cbn [map concat]. rewrite <- app_assoc.
    set (tail := concat (map (hex_fixed 16) rest) ++ [0]).
    set (s := pre ++ hex_fixed 16 w ++ tail).
    destruct (hex_fixed_spec 16 w) as [Hd [_ [Hl Hx]]].
    assert (Hne : hex_fixed 16 w <> []) by (intros E; rewrite E in Hl; discriminate).
    destruct (first_digit_nz _ Hne Hd) as [d0 [t0 [Ed Hd0]]].
    cbn [taskset_sscanf_loop].
    assert (R0 : rd s (len pre) = Some d0) by (unfold s; rewrite Ed; cbn [app]; apply rd_app_mid).
    unfold rdr at 1. rewrite R0. cbn [bind]. apply N.eqb_neq in Hd0. rewrite Hd0.
    assert (Hmod : (16 * N.of_nat (S (length rest))) mod 16 = 0) by (rewrite N.mul_comm; apply N.mod_mul; discriminate).
    rewrite Hmod. change (0 =? 0) with true. cbv iota.
    assert (Hlen16 : len (hex_fixed 16 w) = 16) by (unfold len; rewrite Hl; reflexivity).
    assert (Hrdn : rdn s (len pre) 16 = Ok (hex_fixed 16 w)).
    { rewrite rdn_ok.
      - unfold s. rewrite <- Hlen16. now rewrite sub_app.
      - unfold s. rewrite !len_app, Hlen16. lia. }
    rewrite Hrdn. cbn [bind].
    rewrite (strtoul_hex_chunk _ Hne Hd Hx) by (rewrite hex16_val by exact Hw; unfold ULONG_MAX, W64 in *; lia).
    cbn [bind]. rewrite hex16_val by exact Hw. rewrite Hlen16.
    replace (hex_fixed 16 w ++ [0]) with (hex_fixed 16 w ++ 0 :: []) by reflexivity.
    unfold rdr at 1. rewrite <- Hlen16 at 1. rewrite rd_app_mid. cbn [bind].
    change (negb (0 =? 0)) with false. cbv iota. change (16 =? 16) with true. rewrite andb_false_r. cbv iota.
    destruct (N.eqb_spec (N.of_nat (S (length rest))) 0) as [E|_]; [lia|].
    replace (N.pred (N.of_nat (S (length rest)))) with (N.of_nat (length rest)) by lia.
    unfold store_opt. destruct (N.ltb_spec (N.of_nat (length rest)) (N.of_nat (length ul))); [|lia].
    cbn [bind]. rewrite Nat2N.id.
    replace (16 * N.of_nat (S (length rest)) - 16) with (16 * N.of_nat (length rest)) by lia.
    replace (len pre + 16) with (len (pre ++ hex_fixed 16 w)) by (rewrite len_app, Hlen16; reflexivity).
    unfold s. rewrite app_assoc. unfold tail.
    rewrite IH; try assumption; try lia.
    + do 2 f_equal. cbn [rev]. rewrite map_app. cbn [map]. rewrite <- app_assoc. f_equal. cbn [app].
      rewrite skipn_app. rewrite firstn_length. replace (Nat.min (length rest) (length ul)) with (length rest) by lia.
      rewrite Nat.sub_diag. rewrite skipn_all2 by (rewrite firstn_length; lia). reflexivity.
    + rewrite app_length, firstn_length. cbn [length]. lia.
Qed.

(* ---------- one partial chunk then aligned chunks ---------- *)
Lemma all_digits_no_nul b ds : all_digits b ds -> no_nul ds.
Proof.
  unfold all_digits, no_nul. intros H. eapply Forall_impl; [|exact H]. intros c Hc ->. discriminate.
Qed.

Lemma taskset_body infinite c0 rest pre :
  c0 <> [] -> all_digits 16 c0 -> Forall (fun c => toupper c <> 88) c0 -> (length c0 <= 16)%nat ->
  digits_val 16 c0 < W64 ->
  Forall (fun w => w < W64) rest ->
  let m := length rest in
  let l0 := len c0 in
  let s := pre ++ c0 ++ concat (map (hex_fixed 16) rest) ++ [0] in
  let w0 := if infinite && negb (l0 =? 16)
            then N.lor (digits_val 16 c0) ((FULL * 2 ^ (4 * l0)) mod W64) else digits_val 16 c0 in
  forall fuel, (S m < fuel)%nat ->
  taskset_sscanf_loop fuel s (len pre) (l0 + 16 * N.of_nat m) (N.succ (N.of_nat m)) infinite
    (repeat None (S m))
  = Ok (LDone (map Some (rev (w0 :: rest)))).
Proof.
  intros Hne Hd Hx Hl Hv Hwf m l0 s w0 fuel Hfuel.
  destruct fuel as [|fuel]; [lia|].
  destruct (first_digit_nz _ Hne Hd) as [d0 [t0 [Ed Hd0]]].
  assert (Hl0 : 1 <= l0 <= 16).
  { unfold l0, len. destruct c0; [congruence|]. cbn [length] in *. lia. }
  cbn [taskset_sscanf_loop].
  assert (R0 : rd s (len pre) = Some d0) by (unfold s; rewrite Ed; cbn [app]; apply rd_app_mid).
  unfold rdr at 1. rewrite R0. cbn [bind]. apply N.eqb_neq in Hd0. rewrite Hd0.
  set (chars := l0 + 16 * N.of_nat m).
  assert (Htmp : (if chars mod 16 =? 0 then 16 else chars mod 16) = l0).
  { unfold chars. rewrite N.mul_comm, N.mod_add by discriminate.
    destruct (N.eq_dec l0 16) as [E|E].
    - rewrite E. reflexivity.
    - rewrite N.mod_small by lia. destruct (N.eqb_spec l0 0); [lia|reflexivity]. }
  rewrite Htmp.
  assert (Hrdn : rdn s (len pre) l0 = Ok c0).
  { rewrite rdn_ok.
    - unfold s, l0. now rewrite sub_app.
    - unfold s. rewrite !len_app. fold l0. lia. }
  rewrite Hrdn. cbn [bind].
  rewrite (strtoul_hex_chunk _ Hne Hd Hx) by (unfold ULONG_MAX, W64 in *; lia).
  cbn [bind]. fold l0.
  replace (c0 ++ [0]) with (c0 ++ 0 :: []) by reflexivity.
  unfold rdr at 1. unfold l0 at 1. rewrite rd_app_mid. cbn [bind].
  change (negb (0 =? 0)) with false. cbv iota. fold w0.
  destruct (N.eqb_spec (N.succ (N.of_nat m)) 0) as [E|_]; [lia|].
  rewrite N.pred_succ.
  unfold store_opt. rewrite repeat_length.
  destruct (N.ltb_spec (N.of_nat m) (N.of_nat (S m))); [|lia]. cbn [bind]. rewrite Nat2N.id.
  replace (chars - l0) with (16 * N.of_nat m) by (unfold chars; lia).
  replace (len pre + l0) with (len (pre ++ c0)) by (rewrite len_app; reflexivity).
  unfold s. rewrite app_assoc.
  unfold m. rewrite taskset_aligned; try assumption.
  - do 2 f_equal. cbn [rev]. rewrite map_app. f_equal.
    rewrite skipn_app, firstn_length, repeat_length.
    replace (Nat.min (length rest) (S (length rest))) with (length rest) by lia.
    rewrite Nat.sub_diag. rewrite skipn_all2 by (rewrite firstn_length, repeat_length; lia).
    cbn [app]. change (skipn 0 ?x) with x.
    rewrite (skipn_all2 (repeat None (S (length rest)))) by (rewrite repeat_length; lia). reflexivity.
  - rewrite app_length, firstn_length, repeat_length. cbn [length]. lia.
  - fold m. lia.
Qed.

(* ---------- word arithmetic: values of word lists and their abstraction ---------- *)
Lemma W64_pow : W64 = 2 ^ 64. Proof. reflexivity. Qed.

Lemma words_value_app l r : words_value (l ++ r) = words_value l + 2 ^ (64 * len l) * words_value r.
Proof.
  induction l as [|w l IH]; cbn [app words_value].
  - change (len []) with 0. rewrite N.mul_0_r. change (2 ^ 0) with 1. lia.
  - rewrite IH, len_cons. replace (64 * N.succ (len l)) with (64 + 64 * len l) by lia.
    rewrite N.pow_add_r, W64_pow. lia.
Qed.
Lemma words_value_bound l : Forall (fun w => w < W64) l -> words_value l < 2 ^ (64 * len l).
Proof.
  induction 1 as [|w l Hw _ IH]; cbn [words_value].
  - change (len []) with 0. rewrite N.mul_0_r. change (2 ^ 0) with 1. lia.
  - rewrite len_cons. replace (64 * N.succ (len l)) with (64 + 64 * len l) by lia.
    rewrite N.pow_add_r. rewrite W64_pow in *. nia.
Qed.
Lemma words_value_zeros k : words_value (repeat 0 k) = 0.
Proof. induction k as [|k IH]; cbn [repeat words_value]; [reflexivity|]. rewrite IH. lia. Qed.
Lemma words_value_fulls k : words_value (repeat FULL k) = N.ones (64 * N.of_nat k).
Proof.
  induction k as [|k IH]; cbn [repeat words_value]; [reflexivity|]. rewrite IH.
  rewrite !N.ones_equiv. replace (64 * N.of_nat (S k)) with (64 + 64 * N.of_nat k) by lia.
  rewrite N.pow_add_r.
  assert (0 < 2 ^ (64 * N.of_nat k)) by (apply N.neq_0_lt_0, N.pow_nonzero; discriminate).
  unfold FULL, W64. change (2 ^ 64) with 18446744073709551616. lia.
Qed.

Lemma testbit_add_shift a b n i : a < 2 ^ n ->
  N.testbit (a + 2 ^ n * b) i = if i <? n then N.testbit a i else N.testbit b (i - n).
Proof.
  intros Ha. assert (Hn : 2 ^ n <> 0) by (apply N.pow_nonzero; discriminate).
  destruct (N.ltb_spec i n) as [Hi|Hi].
  - rewrite <- (N.mod_pow2_bits_low (a + 2 ^ n * b) n i Hi).
    rewrite (N.mul_comm (2 ^ n)), N.mod_add by exact Hn. now rewrite N.mod_small.
  - replace i with ((i - n) + n) at 1 by lia. rewrite <- N.div_pow2_bits.
    rewrite (N.mul_comm (2 ^ n)), N.div_add by exact Hn. rewrite N.div_small by exact Ha. reflexivity.
Qed.

Lemma abs_drop_zeros l k : abs (BM (l ++ repeat 0 k) false) = abs (BM l false).
Proof. unfold abs. cbn [bm_inf bm_words]. now rewrite words_value_app, words_value_zeros, N.mul_0_r, N.add_0_r. Qed.

Lemma abs_drop_fulls l k : Forall (fun w => w < W64) l ->
  abs (BM (l ++ repeat FULL k) true) = abs (BM l true).
Proof.
  intros Hwf. unfold abs. cbn [bm_inf bm_words]. f_equal. apply N.bits_inj. intros i.
  rewrite !N.ldiff_spec. rewrite words_value_app, words_value_fulls.
  rewrite testbit_add_shift by (now apply words_value_bound).
  rewrite len_app. replace (len (repeat FULL k)) with (N.of_nat k) by (unfold len; now rewrite repeat_length).
  destruct (N.ltb_spec i (64 * len l)) as [Hi|Hi].
  - rewrite !N.ones_spec_low by lia. reflexivity.
  - rewrite (N.ones_spec_high (64 * len l)) by lia. cbn [andb].
    destruct (N.lt_ge_cases i (64 * (len l + N.of_nat k))) as [Hk|Hk].
    + rewrite (N.ones_spec_low (64 * N.of_nat k)) by lia. now rewrite andb_false_r.
    + now rewrite N.ones_spec_high by lia.
Qed.

(* the words the printers skip *)
Lemma dropwhile_eq_spec v l : exists k, l = repeat v k ++ dropwhile_eq v l /\
  match dropwhile_eq v l with [] => True | w :: _ => w <> v end.
Proof.
  induction l as [|w l IH]; [exists 0%nat; split; [reflexivity|exact I]|].
  change (dropwhile_eq v (w :: l)) with (if w =? v then dropwhile_eq v l else w :: l).
  destruct (N.eqb_spec w v) as [->|Hne].
  - destruct IH as [k [E H]]. exists (S k). split; [cbn [repeat app]; now rewrite <- E|exact H].
  - exists 0%nat. split; [reflexivity|exact Hne].
Qed.
Lemma drop_zero_keep_last_spec l : exists k, l = repeat 0 k ++ drop_zero_keep_last l /\
  match drop_zero_keep_last l with [] => l = [] | w :: rest => w <> 0 \/ rest = [] end.
Proof.
  induction l as [|w l IH]; [exists 0%nat; split; reflexivity|].
  destruct l as [|w' l'].
  - exists 0%nat. split; [reflexivity|now right].
  - change (drop_zero_keep_last (w :: w' :: l')) with (if w =? 0 then drop_zero_keep_last (w' :: l') else w :: w' :: l').
    destruct (N.eqb_spec w 0) as [->|Hne].
    + destruct IH as [k [E H]]. exists (S k). split; [cbn [repeat app]; now rewrite <- E|].
      destruct (drop_zero_keep_last (w' :: l')); [discriminate|exact H].
    + exists 0%nat. split; [reflexivity|now left].
Qed.
Lemma rev_repeat {A} (v : A) k : rev (repeat v k) = repeat v k.
Proof.
  induction k as [|k IH]; [reflexivity|]. cbn [repeat rev]. rewrite IH. symmetry. apply repeat_cons.
Qed.
(* ws = kept words (ascending) ++ the skipped top words *)
Lemma skipped_top (ws : list N) v k desc : rev ws = repeat v k ++ desc -> ws = rev desc ++ repeat v k.
Proof.
  intros H. rewrite <- (rev_involutive ws), H, rev_app_distr, rev_repeat. reflexivity.
Qed.

(* ---------- parse_taskset on a text made of a prefix, one chunk and aligned chunks ---------- *)
Lemma concat_hex16_digits rest : all_digits 16 (concat (map (hex_fixed 16) rest)).
Proof.
  induction rest as [|w rest IH]; cbn [map concat]; [constructor|].
  apply Forall_app. split; [|exact IH]. now destruct (hex_fixed_spec 16 w).
Qed.
Lemma concat_hex16_len rest : len (concat (map (hex_fixed 16) rest)) = 16 * N.of_nat (length rest).
Proof.
  induction rest as [|w rest IH]; cbn [map concat length]; [reflexivity|].
  rewrite len_app, IH. destruct (hex_fixed_spec 16 w) as [_ [_ [Hl _]]]. unfold len at 1. rewrite Hl. lia.
Qed.
Lemma map_default_some d (l : list N) :
  map (fun o => match o with Some w => w | None => d end) (map Some l) = l.
Proof. induction l as [|x l IH]; [reflexivity|]. cbn [map]. now rewrite IH. Qed.

Lemma parse_taskset_text d (infinite : bool) c0 rest :
  c0 <> [] -> all_digits 16 c0 -> Forall (fun c => toupper c <> 88) c0 -> (length c0 <= 16)%nat ->
  digits_val 16 c0 < W64 -> Forall (fun w => w < W64) rest ->
  let pre := if infinite then PREFIX_INF else lit "0x" in
  let w0 := if infinite && negb (len c0 =? 16)
            then N.lor (digits_val 16 c0) ((FULL * 2 ^ (4 * len c0)) mod W64) else digits_val 16 c0 in
  parse_taskset d (pre ++ c0 ++ concat (map (hex_fixed 16) rest) ++ [0])
  = Ok (PSet (BM (rev (w0 :: rest)) infinite)).
Proof.
  intros Hne Hd Hx Hl Hv Hwf pre w0.
  set (body := c0 ++ concat (map (hex_fixed 16) rest)).
  set (s := pre ++ c0 ++ concat (map (hex_fixed 16) rest) ++ [0]).
  assert (Es : s = pre ++ body ++ [0]) by (unfold s, body; now rewrite <- app_assoc).
  assert (Hbody : all_digits 16 body) by (apply Forall_app; split; [exact Hd|apply concat_hex16_digits]).
  destruct (first_digit_nz _ Hne Hd) as [d0 [t0 [Ed Hd0]]].
  assert (Hpre : no_nul pre /\ (len pre = if infinite then 7 else 2)).
  { unfold pre. destruct infinite; split; try reflexivity; repeat constructor; discriminate. }
  destruct Hpre as [Hpn Hpl].
  assert (Hcs : cstring s (len (pre ++ body))).
  { rewrite Es, app_assoc. apply cstring_app. apply Forall_app. split; [exact Hpn|].
    eapply all_digits_no_nul; eauto. }
  assert (Rcur : rd s (len pre) = Some d0) by (unfold s; rewrite Ed; cbn [app]; apply rd_app_mid).
  assert (Hd0' : (d0 =? 0) = false) by now apply N.eqb_neq.
  unfold parse_taskset.
  (* the two prefix tests and the first byte after the prefix *)
  fold s.
  assert (H1 : has_prefix "0xf...f" s 0 = Ok infinite).
  { rewrite has_prefix_spec by (repeat constructor; discriminate). cbn [N.to_nat skipn].
    destruct infinite.
    - unfold s, pre. cbv iota. unfold PREFIX_INF at 1, lit at 1. now rewrite prefix_l_app.
    - (* "0x" d0 x ... is not "0xf...f": the 4th byte is a hex digit or the NUL, not '.' *)
      unfold s, pre. cbv iota.
      unfold lit. change (bytes_of_string "0xf...f") with [48;120;102;46;46;46;102].
      change (bytes_of_string "0x") with [48;120]. rewrite Ed. cbn [app prefix_l].
      change (48 =? 48) with true. change (120 =? 120) with true. cbv iota.
      destruct (102 =? d0); [|reflexivity].
      assert (Hx2 : exists x tl, t0 ++ concat (map (hex_fixed 16) rest) ++ [0] = x :: tl /\ (is_digit_in 16 x = true \/ x = 0)).
      { unfold body in Hbody. rewrite Ed in Hbody.
        remember (concat (map (hex_fixed 16) rest)) as cc eqn:Ecc. clear Ecc.
        inversion Hbody as [|y l _ Hl']; subst.
        destruct t0 as [|x t1].
        - change ([] ++ cc) with cc in Hl'. change ([] ++ cc ++ [0]) with (cc ++ [0]). destruct cc as [|x tl].
          + exists 0, []. split; [reflexivity|now right].
          + exists x, (tl ++ [0]). split; [reflexivity|left]. now inversion Hl'.
        - exists x, (t1 ++ cc ++ [0]). split; [reflexivity|left]. now inversion Hl'. }
      destruct Hx2 as [x [tl [E Hx']]]. rewrite E.
      destruct (N.eqb_spec 46 x) as [<-|]; [|reflexivity]. destruct Hx' as [H|H]; discriminate. }
  rewrite H1. cbn [bind].
  match goal with |- bind ?X _ = _ => assert (H2 : X = Ok (inr (len pre, infinite))) end.
  { destruct infinite.
    - rewrite Hpl in Rcur. unfold rdr. rewrite Rcur. cbn [bind]. rewrite Hd0'. now rewrite Hpl.
    - assert (P2 : has_prefix "0x" s 0 = Ok true).
      { rewrite has_prefix_spec by (repeat constructor; discriminate). cbn [N.to_nat skipn].
        unfold s, pre. cbv iota. unfold lit at 1. now rewrite prefix_l_app. }
      rewrite P2. cbn [bind]. rewrite Hpl in Rcur. unfold rdr. rewrite Rcur. cbn [bind]. rewrite Hd0'. now rewrite Hpl. }
  rewrite H2. cbn [bind].
  rewrite (strlen_at_ok s _ (len pre) Hcs) by (rewrite len_app; lia).
  cbn [bind].
  set (m := length rest).
  assert (Hchars : len (pre ++ body) - len pre = len c0 + 16 * N.of_nat m).
  { rewrite len_app. unfold body. rewrite len_app, concat_hex16_len. fold m. lia. }
  rewrite Hchars.
  assert (Hl0 : 1 <= len c0 <= 16).
  { unfold len. destruct c0; [congruence|]. cbn [length] in *. lia. }
  assert (Hcount : ((len c0 + 16 * N.of_nat m) * 4 + 63) / 64 = N.succ (N.of_nat m)).
  { symmetry. apply (N.div_unique _ 64 _ (4 * len c0 - 1)); lia. }
  rewrite Hcount. replace (N.to_nat (N.succ (N.of_nat m))) with (S m) by lia.
  pose proof (taskset_body infinite c0 rest pre Hne Hd Hx Hl Hv Hwf (S (length s))) as TB.
  cbv zeta in TB. fold s m w0 in TB. rewrite TB.
  - cbn [bind]. now rewrite map_default_some.
  - unfold s. rewrite !app_length. fold m.
    pose proof (concat_hex16_len rest) as CL. unfold len in CL. fold m in CL. cbn [length].
    destruct c0; [congruence|]. cbn [length]. lia.
Qed.

(* ---------- round trip of the taskset format, every well-formed bitmap ---------- *)
Lemma taskset_loop_started rest : taskset_loop rest true false = map (hex_fixed 16) rest.
Proof. induction rest as [|w rest IH]; [reflexivity|]. cbn [taskset_loop andb map]. now rewrite IH. Qed.

Lemma total_len_nz (p : list N) ps : p <> [] -> (total_len (p :: ps) =? 0)%nat = false.
Proof.
  intros H. unfold total_len. cbn [concat]. rewrite app_length. destruct p; [congruence|]. reflexivity.
Qed.

Lemma land_full w : w < W64 -> N.land w FULL = w.
Proof. intros H. change FULL with (N.ones 64). rewrite N.land_ones. apply N.mod_small. exact H. Qed.
Lemma split_hi_lo w : w < W64 -> N.lor (N.land w FULL32) (N.land w HI32MASK) = w.
Proof.
  intros H. rewrite <- N.land_lor_distr_r. change (N.lor FULL32 HI32MASK) with FULL. now apply land_full.
Qed.
Lemma land_low32 w : N.land w FULL32 < 4294967296.
Proof. change FULL32 with (N.ones 32). rewrite N.land_ones. apply N.mod_upper_bound. discriminate. Qed.

Theorem roundtrip_taskset_gen d b : bm_wf b ->
  exists b', parse_taskset d (text_taskset b ++ [0]) = Ok (PSet b') /\ abs b' = abs b /\ bm_wf b'.
Proof.
  destruct b as [ws inf]. unfold bm_wf. cbn [bm_words]. intros Hwf.
  unfold text_taskset, pieces_taskset. cbn [bm_inf bm_words].
  destruct inf.
  - (* infinite *)
    destruct (dropwhile_eq_spec FULL (rev ws)) as [k [E Hhead]].
    pose proof (skipped_top ws FULL k _ E) as Ews.
    destruct (dropwhile_eq FULL (rev ws)) as [|w rest] eqn:Edesc.
    + cbn [taskset_loop app]. rewrite total_len_nz by discriminate.
      exists (BM [FULL] true). split; [vm_compute; reflexivity|]. split; [|repeat constructor].
      rewrite Ews. cbn [rev]. rewrite (abs_drop_fulls [] k ltac:(constructor)).
      exact (abs_drop_fulls [] 1 ltac:(constructor)).
    + assert (Hd : Forall (fun w => w < W64) (w :: rest)).
      { rewrite Ews in Hwf. apply Forall_app in Hwf. destruct Hwf as [Hwf _].
        apply Forall_rev in Hwf. now rewrite rev_involutive in Hwf. }
      inversion Hd as [|x l Hw Hrest]; subst x l.
      cbn [taskset_loop andb]. rewrite taskset_loop_started.
      match goal with |- context [[PREFIX_INF] ++ ?x] => change ([PREFIX_INF] ++ x) with (PREFIX_INF :: x) end.
      rewrite total_len_nz by discriminate. unfold concat at 1. fold (@concat N).
      set (c0 := if N.land w HI32MASK =? HI32MASK then hex_fixed 8 (N.land w FULL32) else hex_fixed 16 w).
      rewrite <- !app_assoc.
      assert (Hc0 : c0 <> [] /\ all_digits 16 c0 /\ Forall (fun c => toupper c <> 88) c0 /\ (length c0 <= 16)%nat /\
                    digits_val 16 c0 < W64 /\
                    (if true && negb (len c0 =? 16)
                     then N.lor (digits_val 16 c0) ((FULL * 2 ^ (4 * len c0)) mod W64) else digits_val 16 c0) = w).
      { unfold c0. destruct (N.eqb_spec (N.land w HI32MASK) HI32MASK) as [Hhi|Hhi].
        - destruct (hex_fixed_spec 8 (N.land w FULL32)) as [A [_ [L X]]].
          pose proof (land_low32 w) as Hlo.
          assert (V : digits_val 16 (hex_fixed 8 (N.land w FULL32)) = N.land w FULL32) by (apply hex_fixed_val; exact Hlo).
          split; [intros E0; rewrite E0 in L; discriminate|]. split; [exact A|]. split; [exact X|].
          split; [rewrite L; lia|]. rewrite V. split; [unfold W64; lia|].
          unfold len. rewrite L. change (N.of_nat 8 =? 16) with false. cbn [andb negb].
          change ((FULL * 2 ^ (4 * N.of_nat 8)) mod W64) with HI32MASK.
          rewrite <- Hhi at 1. now apply split_hi_lo.
        - destruct (hex_fixed_spec 16 w) as [A [_ [L X]]].
          split; [intros E0; rewrite E0 in L; discriminate|]. split; [exact A|]. split; [exact X|].
          split; [rewrite L; lia|]. rewrite hex16_val by exact Hw. split; [exact Hw|].
          unfold len. rewrite L. reflexivity. }
      destruct Hc0 as [C1 [C2 [C3 [C4 [C5 C6]]]]].
      pose proof (parse_taskset_text d true c0 rest C1 C2 C3 C4 C5 Hrest) as P. cbv zeta in P.
      cbv iota in P. rewrite C6 in P.
      eexists. split; [exact P|]. split.
      * rewrite Ews. apply eq_sym, abs_drop_fulls. apply Forall_rev. exact Hd.
      * unfold bm_wf. cbn [bm_words]. apply Forall_rev. exact Hd.
  - (* finite *)
    destruct (drop_zero_keep_last_spec (rev ws)) as [k [E Hhead]].
    pose proof (skipped_top ws 0 k _ E) as Ews.
    destruct (drop_zero_keep_last (rev ws)) as [|w rest] eqn:Edesc.
    + assert (Hnil : ws = []). { rewrite <- (rev_involutive ws), Hhead. reflexivity. }
      cbn [taskset_loop app]. change (total_len [] =? 0)%nat with true. cbv iota.
      exists (BM [0] false). split; [vm_compute; reflexivity|]. split; [rewrite Hnil; reflexivity|repeat constructor].
    + assert (Hd : Forall (fun w => w < W64) (w :: rest)).
      { rewrite Ews in Hwf. apply Forall_app in Hwf. destruct Hwf as [Hwf _].
        apply Forall_rev in Hwf. now rewrite rev_involutive in Hwf. }
      inversion Hd as [|x l Hw Hrest]; subst x l.
      cbn [taskset_loop].
      assert (Hcond : negb (w =? 0) || match rest with [] => true | _ => false end = true).
      { destruct Hhead as [Hnz| ->]; [|apply orb_true_r]. apply N.eqb_neq in Hnz. now rewrite Hnz. }
      rewrite Hcond. rewrite taskset_loop_started.
      match goal with |- context [[] ++ ?x] => change ([] ++ x) with x end.
      rewrite total_len_nz by discriminate. unfold concat at 1. fold (@concat N).
      rewrite <- !app_assoc.
      destruct (hex_min_spec w Hw) as [A [V [L X]]].
      assert (C1 : hex_min w <> []) by (intros E0; rewrite E0 in L; cbn in L; lia).
      pose proof (parse_taskset_text d false (hex_min w) rest C1 A X ltac:(lia) ltac:(rewrite V; exact Hw) Hrest) as P.
      cbv zeta in P. cbv iota in P. cbn [andb] in P. rewrite V in P.
      eexists. split; [exact P|]. split.
      * rewrite Ews. apply eq_sym, abs_drop_zeros.
      * unfold bm_wf. cbn [bm_words]. apply Forall_rev. exact Hd.
Qed.
