(* C03 proofs, part 3: the boolean queries (iszero, isfull, isequal, intersects,
   isincluded) return a function of the abstract sets only. *)
From Coq Require Import NArith ZArith Bool List Lia ZifyBool ZifyN ZifyNat.
From HV Require Import Base.BSet Bitmap.BitmapModel Bitmap.BitmapSpec Bitmap.BitmapBase Bitmap.BitmapOps.
Import ListNotations.
Local Open Scope N_scope.
Ltac Zify.zify_post_hook ::= Z.div_mod_to_equations.

(* A "stage" of a scanning query: over the index set S, either no index
   satisfies the early-exit test P and the stage falls through (None), or some
   index does and the stage returns v. *)
Definition stage (X : option Z) (v : Z) (S : N -> Prop) (P : N -> bool) : Prop :=
  (X = None /\ forall i, S i -> P i = false) \/ (X = Some v /\ exists i, S i /\ P i = true).

Lemma stage_orelse X Y v (S1 S2 : N -> Prop) P :
  stage X v S1 P -> stage Y v S2 P -> stage (orelse X Y) v (fun i => S1 i \/ S2 i) P.
Proof.
  intros [[-> HX]|[-> (i & Hi & Pi)]] HY; simpl.
  - destruct HY as [[-> HY]|[-> (i & Hi & Pi)]].
    + left. split; [reflexivity|]. intros i [Hi|Hi]; auto.
    + right. split; [reflexivity|]. exists i; auto.
  - right. split; [reflexivity|]. exists i; auto.
Qed.
Lemma stage_ext X v (S S' : N -> Prop) P : (forall i, S' i -> S i) -> (forall i, S i -> S' i) -> stage X v S P -> stage X v S' P.
Proof.
  intros H1 H2 [[-> HX]|[-> (i & Hi & Pi)]].
  - left; split; auto.
  - right; split; auto. exists i; auto.
Qed.
Lemma stage_none v (S : N -> Prop) P : (forall i, S i -> P i = false) -> stage None v S P.
Proof. intros H. left; auto. Qed.
Lemma stage_const (b : bool) v (S : N -> Prop) P : (forall i, S i -> P i = b) -> (exists i, S i) ->
  stage (if b then Some v else None) v S P.
Proof.
  intros H (i & Hi). destruct b.
  - right; split; auto. exists i; auto.
  - left; split; auto.
Qed.
Lemma stage_for_find lo hi (f : N -> option Z) v (P : N -> bool) :
  (forall i, lo <= i < hi -> f i = if P i then Some v else None) ->
  stage (for_find lo hi f) v (fun i => lo <= i < hi) P.
Proof.
  intros H. destruct (for_find lo hi f) as [a|] eqn:E.
  - apply for_find_some in E as (i & Hi & Fi & _). rewrite H in Fi by assumption.
    destruct (P i) eqn:Pi; [|discriminate]. injection Fi as <-. right; split; auto. exists i; auto.
  - left; split; auto. intros i Hi. rewrite for_find_none in E. specialize (E i Hi). rewrite H in E by assumption.
    destruct (P i); [discriminate|reflexivity].
Qed.
Lemma stage_total X v d (P : N -> bool) : stage X v (fun _ => True) P ->
  (dflt X d = d /\ forall i, P i = false) \/ (dflt X d = v /\ exists i, P i = true).
Proof.
  intros [[-> HX]|[-> (i & _ & Pi)]]; simpl.
  - left; auto.
  - right; split; auto. exists i; auto.
Qed.

(* the three-stage scan shared by isequal / intersects / isincluded *)
Lemma scan3 r1 r2 (mn : N) (ne : bool) (A B1 B2 C : option Z) v d (P : N -> bool) :
  let c1 := count r1 in let c2 := count r2 in
  mn = N.min c1 c2 -> ne = negb (c1 =? c2) ->
  stage A v (fun i => 0 <= i < mn) P ->
  (c1 <> c2 -> stage B1 v (fun i => mn <= i < c1) P) ->
  (c1 <> c2 -> stage B2 v (fun i => mn <= i < c2) P) ->
  stage C v (fun i => c1 <= i /\ c2 <= i) P ->
  let X := orelse A (orelse (if ne then orelse B1 B2 else None) C) in
  (dflt X d = d /\ forall i, P i = false) \/ (dflt X d = v /\ exists i, P i = true).
Proof.
  intros c1 c2 Hmn Hne SA SB1 SB2 SC X. apply stage_total.
  assert (SB : stage (if ne then orelse B1 B2 else None) v (fun i => mn <= i < c1 \/ mn <= i < c2) P).
  { rewrite Hne. destruct (N.eqb_spec c1 c2) as [E|E]; cbn [negb].
    - apply stage_none. intros i Hi. exfalso. lia.
    - apply stage_orelse; auto. }
  pose proof (stage_orelse _ _ _ _ _ _ SA (stage_orelse _ _ _ _ _ _ SB SC)) as ST.
  eapply stage_ext; [| |exact ST]; cbv beta.
  - intros i _. lia.
  - auto.
Qed.

Ltac dif := match goal with |- (if ?c then _ else _) = _ => destruct c end; reflexivity.
Lemma zb_b2z b : b2z b = zb b. Proof. reflexivity. Qed.

(* ---------------- isequal ---------------- *)
Theorem bm_isequal_spec r1 r2 : wf r1 -> wf r2 -> bm_isequal r1 r2 = sp_isequal (abs r1) (abs r2).
Proof.
  intros H1 H2. unfold bm_isequal, sp_isequal.
  set (P := fun i => negb (rd r1 i =? rd r2 i)).
  match goal with |- dflt ?X _ = _ => set (XX := X) end.
  assert (K : (dflt XX 1%Z = 1%Z /\ forall i, P i = false) \/ (dflt XX 1%Z = 0%Z /\ exists i, P i = true)).
  { unfold XX. cbv zeta. apply (scan3 r1 r2 (if count r1 <? count r2 then count r1 else count r2) (negb (count r1 =? count r2))); [brk; lia|reflexivity| | | |].
    - apply stage_for_find. intros i Hi. unfold P. rewrite !rd_in by (revert Hi; brk; lia).
      dif.
    - intros Hne. apply stage_for_find. intros i Hi. unfold P.
      rewrite (rd_in r1) by lia. rewrite (rd_out r2) by (revert Hi; brk; lia).
      dif.
    - intros Hne. apply stage_for_find. intros i Hi. unfold P.
      rewrite (rd_in r2) by lia. rewrite (rd_out r1) by (revert Hi; brk; lia). rewrite (N.eqb_sym (inf_word r1)).
      dif.
    - apply stage_const; [|exists (count r1 + count r2); lia].
      intros i [Hi1 Hi2]. unfold P. rewrite !rd_out by assumption. unfold inf_word.
      destruct (infinite r1), (infinite r2); reflexivity. }
  destruct K as [[-> HP]|[-> (i & HP)]].
  - assert (E : abs r1 = abs r2).
    { apply abs_eq_iff; auto. intros i. specialize (HP i). unfold P in HP. apply negb_false_iff, N.eqb_eq in HP. exact HP. }
    apply bs_eqb_spec in E. rewrite E. reflexivity.
  - destruct (bs_eqb (abs r1) (abs r2)) eqn:E; [|reflexivity]. exfalso.
    apply bs_eqb_spec in E. rewrite (abs_eq_iff r1 r2 H1 H2) in E. unfold P in HP. rewrite E, N.eqb_refl in HP. discriminate.
Qed.

(* ---------------- intersects ---------------- *)
Lemma land_FULL w : w < U64 -> N.land w FULL = w.
Proof. intros H. pose proof FULL_lt. fold (infw true). wbits. Qed.
Lemma land_FULL_l w : w < U64 -> N.land FULL w = w.
Proof. intros H. rewrite N.land_comm. now apply land_FULL. Qed.

Lemma word_nonzero_bit w : w < U64 -> w <> 0 -> exists j, j < 64 /\ N.testbit w j = true.
Proof.
  intros H Hz. exists (N.log2 w). split.
  - rewrite U64_pow in H. apply N.log2_lt_pow2 in H; lia.
  - apply N.bit_log2. assumption.
Qed.

Lemma intersects_words r1 r2 : wf r1 -> wf r2 ->
  (bs_intersects (abs r1) (abs r2) = true <-> exists i, N.land (rd r1 i) (rd r2 i) <> 0).
Proof.
  intros H1 H2. rewrite bs_intersects_spec. split.
  - intros (k & M1 & M2). rewrite mem_abs in M1, M2 by assumption. exists (k / 64). intros Z.
    assert (B : N.testbit (N.land (rd r1 (k / 64)) (rd r2 (k / 64))) (k mod 64) = true) by (rewrite N.land_spec, M1, M2; reflexivity).
    rewrite Z, N.bits_0 in B. discriminate.
  - intros (i & Hi). destruct (word_nonzero_bit _ (land_lt _ _ (rd_lt r1 i H1)) Hi) as (j & Hj & B).
    rewrite N.land_spec in B. apply andb_true_iff in B as [B1 B2].
    exists (64 * i + j). rewrite !mem_abs by assumption. destruct (split64 i j Hj) as [-> ->]. auto.
Qed.

Theorem bm_intersects_spec r1 r2 : wf r1 -> wf r2 -> bm_intersects r1 r2 = sp_intersects (abs r1) (abs r2).
Proof.
  intros H1 H2. unfold bm_intersects, sp_intersects.
  set (P := fun i => negb (N.land (rd r1 i) (rd r2 i) =? 0)).
  match goal with |- dflt ?X _ = _ => set (XX := X) end.
  assert (K : (dflt XX 0%Z = 0%Z /\ forall i, P i = false) \/ (dflt XX 0%Z = 1%Z /\ exists i, P i = true)).
  { unfold XX. cbv zeta. apply (scan3 r1 r2 (if count r1 <? count r2 then count r1 else count r2) (negb (count r1 =? count r2))); [brk; lia|reflexivity| | | |].
    - apply stage_for_find. intros i Hi. unfold P. rewrite !rd_in by (revert Hi; brk; lia).
      dif.
    - intros Hne. destruct (infinite r2) eqn:I2.
      + apply stage_for_find. intros i Hi. unfold P.
        rewrite (rd_in r1) by lia. rewrite (rd_out r2) by (revert Hi; brk; lia). unfold inf_word. rewrite I2.
        rewrite land_FULL by (apply getw_lt; [assumption|lia]). dif.
      + apply stage_none. intros i Hi. unfold P. rewrite (rd_out r2) by (revert Hi; brk; lia). unfold inf_word. rewrite I2.
        unfold ZEROW. rewrite N.land_0_r. reflexivity.
    - intros Hne. destruct (infinite r1) eqn:I1.
      + apply stage_for_find. intros i Hi. unfold P.
        rewrite (rd_in r2) by lia. rewrite (rd_out r1) by (revert Hi; brk; lia). unfold inf_word. rewrite I1.
        rewrite land_FULL_l by (apply getw_lt; [assumption|lia]). dif.
      + apply stage_none. intros i Hi. unfold P. rewrite (rd_out r1) by (revert Hi; brk; lia). unfold inf_word. rewrite I1.
        reflexivity.
    - apply stage_const; [|exists (count r1 + count r2); lia].
      intros i [Hi1 Hi2]. unfold P. rewrite !rd_out by assumption. unfold inf_word.
      destruct (infinite r1), (infinite r2); reflexivity. }
  destruct K as [[-> HP]|[-> (i & HP)]].
  - destruct (bs_intersects (abs r1) (abs r2)) eqn:E; [|reflexivity]. exfalso.
    apply intersects_words in E as (i & Hi); auto. specialize (HP i). unfold P in HP.
    apply negb_false_iff, N.eqb_eq in HP. contradiction.
  - assert (E : bs_intersects (abs r1) (abs r2) = true).
    { apply intersects_words; auto. exists i. unfold P in HP. apply negb_true_iff, N.eqb_neq in HP. exact HP. }
    rewrite E. reflexivity.
Qed.

(* ---------------- isincluded ---------------- *)
Lemma included_words sub super : wf sub -> wf super ->
  (bs_subset (abs sub) (abs super) = true <-> forall i, rd super i = N.lor (rd super i) (rd sub i)).
Proof.
  intros H1 H2. rewrite bs_subset_spec. split.
  - intros S i. apply word_ext; [apply rd_lt; assumption|apply lor_lt; apply rd_lt; assumption|].
    intros j Hj. rewrite N.lor_spec. specialize (S (64 * i + j)). rewrite !mem_abs in S by assumption.
    destruct (split64 i j Hj) as [E1 E2]. rewrite E1, E2 in S.
    destruct (N.testbit (rd sub i) j); [rewrite S by reflexivity; reflexivity|now rewrite orb_false_r].
  - intros E k M. rewrite mem_abs in * by assumption. rewrite E, N.lor_spec, M. apply orb_true_r.
Qed.

Lemma lor_FULL_eq w : w < U64 -> (FULL =? N.lor FULL w) = true.
Proof. intros H. apply N.eqb_eq. pose proof FULL_lt. fold (infw true). wbits. Qed.
Lemma lor_ZERO_eq w : (0 =? N.lor 0 w) = (w =? 0).
Proof. rewrite N.lor_0_l. apply N.eqb_sym. Qed.
Lemma eq_lor_FULL w : w < U64 -> (w =? N.lor w FULL) = (w =? FULL).
Proof. intros H. f_equal. pose proof FULL_lt. fold (infw true). wbits. Qed.

Theorem bm_isincluded_spec sub super : wf sub -> wf super ->
  bm_isincluded sub super = sp_isincluded (abs sub) (abs super).
Proof.
  intros H1 H2. unfold bm_isincluded, sp_isincluded.
  set (P := fun i => negb (rd super i =? N.lor (rd super i) (rd sub i))).
  match goal with |- dflt ?X _ = _ => set (XX := X) end.
  assert (K : (dflt XX 1%Z = 1%Z /\ forall i, P i = false) \/ (dflt XX 1%Z = 0%Z /\ exists i, P i = true)).
  { unfold XX. cbv zeta. apply (scan3 sub super (if count super <? count sub then count super else count sub) (negb (count super =? count sub))); [brk; lia|f_equal; apply N.eqb_sym| | | |].
    - apply stage_for_find. intros i Hi. unfold P. rewrite !rd_in by (revert Hi; brk; lia).
      dif.
    - (* indexes valid in sub only *)
      intros Hne. destruct (infinite super) eqn:I; cbn [negb].
      + apply stage_none. intros i Hi. unfold P. rewrite (rd_out super) by (revert Hi; brk; lia). unfold inf_word. rewrite I.
        rewrite lor_FULL_eq by (apply rd_lt; assumption). reflexivity.
      + apply stage_for_find. intros i Hi. unfold P.
        rewrite (rd_in sub) by lia. rewrite (rd_out super) by (revert Hi; brk; lia). unfold inf_word. rewrite I.
        unfold ZEROW. rewrite lor_ZERO_eq. dif.
    - (* indexes valid in super only *)
      intros Hne. destruct (infinite sub) eqn:I.
      + apply stage_for_find. intros i Hi. unfold P.
        rewrite (rd_in super) by lia. rewrite (rd_out sub) by (revert Hi; brk; lia). unfold inf_word. rewrite I.
        rewrite eq_lor_FULL by (apply getw_lt; [assumption|lia]). dif.
      + apply stage_none. intros i Hi. unfold P. rewrite (rd_out sub) by (revert Hi; brk; lia). unfold inf_word. rewrite I.
        unfold ZEROW. rewrite N.lor_0_r, N.eqb_refl. reflexivity.
    - apply stage_const; [|exists (count super + count sub); lia].
      intros i [Hi1 Hi2]. unfold P. rewrite !rd_out by assumption. unfold inf_word.
      destruct (infinite sub), (infinite super); reflexivity. }
  destruct K as [[-> HP]|[-> (i & HP)]].
  - assert (E : bs_subset (abs sub) (abs super) = true).
    { apply included_words; auto. intros i. specialize (HP i). unfold P in HP. apply negb_false_iff, N.eqb_eq in HP. exact HP. }
    rewrite E. reflexivity.
  - destruct (bs_subset (abs sub) (abs super)) eqn:E; [|reflexivity]. exfalso.
    rewrite (included_words sub super H1 H2) in E. unfold P in HP. rewrite <- E, N.eqb_refl in HP. discriminate.
Qed.
