(* C03 proofs, part 10: compare_inclusion.  The C state machine (result, empty1,
   empty2) is shown to track exactly five facts about the prefix already
   scanned - included, contains, intersects, empty1, empty2 - by an exhaustive
   check over the 2^5 x 2^5 combinations of prefix facts and word facts. *)
From Coq Require Import NArith ZArith Bool List Lia ZifyBool ZifyN ZifyNat.
From HV Require Import Base.BSet Bitmap.BitmapModel Bitmap.BitmapSpec Bitmap.BitmapBase Bitmap.BitmapOps
  Bitmap.BitmapQueries Bitmap.BitmapScan.
Import ListNotations.
Local Open Scope N_scope.
Ltac Zify.zify_post_hook ::= Z.div_mod_to_equations.

(* facts about a prefix (or about one word pair) *)
Record facts := FA { f_sub : bool; f_sup : bool; f_int : bool; f_e1 : bool; f_e2 : bool }.
Definition fjoin (a b : facts) : facts :=
  FA (f_sub a && f_sub b) (f_sup a && f_sup b) (f_int a || f_int b) (f_e1 a && f_e1 b) (f_e2 a && f_e2 b).
Definition f0 : facts := FA true true false true true.
Definition fcls (f : facts) : Z :=
  if f_sub f && f_sup f then BM_EQUAL else if f_sub f then BM_INCLUDED else if f_sup f then BM_CONTAINS
  else if f_int f then BM_INTERSECTS else BM_DIFFERENT.
(* what must hold of the facts of any pair of sets *)
Definition fcons (f : facts) : bool :=
  implb (f_e1 f) (f_sub f && negb (f_int f)) && implb (f_e2 f) (f_sup f && negb (f_int f)) &&
  implb (f_sub f && negb (f_e1 f)) (f_int f) && implb (f_sup f && negb (f_e2 f)) (f_int f) &&
  implb (f_sub f && f_sup f) (Bool.eqb (f_e1 f) (f_e2 f)).
Definition enc (f : facts) : ci_state := CI (fcls f) (f_e1 f) (f_e2 f).

Definition wfacts (v1 v2 : N) : facts :=
  FA (N.land v1 v2 =? v1) (N.land v1 v2 =? v2) (negb (N.land v1 v2 =? 0)) (v1 =? 0) (v2 =? 0).

Lemma wfacts_cons v1 v2 : fcons (wfacts v1 v2) = true.
Proof.
  unfold fcons, wfacts; cbn [f_sub f_sup f_int f_e1 f_e2].
  destruct (N.eqb_spec v1 0) as [Z1|N1], (N.eqb_spec v2 0) as [Z2|N2],
    (N.eqb_spec (N.land v1 v2) v1) as [E1|E1], (N.eqb_spec (N.land v1 v2) v2) as [E2|E2],
    (N.eqb_spec (N.land v1 v2) 0) as [E0|E0]; try reflexivity; exfalso; subst;
    rewrite ?N.land_0_l, ?N.land_0_r in *; congruence.
Qed.

(* the step of the C loop on the facts of the current word pair *)
Definition astep (w : facts) (q : bool) (st : ci_state) : ci_state + Z :=
  let result := ci_result st in
  let fin (x : Z + Z) : ci_state + Z :=
    match x with
    | inr v => inr v
    | inl res => inl (CI res (ci_empty1 st && f_e1 w) (ci_empty2 st && f_e2 w))
    end in
  if f_e1 w then
    if f_e2 w then inl st
    else fin (ci_one_empty BM_CONTAINS BM_INCLUDED (ci_empty2 st) st)
  else if f_e2 w then fin (ci_one_empty BM_INCLUDED BM_CONTAINS (ci_empty1 st) st)
  else if q then
    fin (if (result =? BM_DIFFERENT)%Z then inr BM_INTERSECTS else inl result)
  else if f_sub w then
    fin (if (result =? BM_CONTAINS)%Z || (result =? BM_DIFFERENT)%Z then inr BM_INTERSECTS else inl BM_INCLUDED)
  else if f_sup w then
    fin (if (result =? BM_INCLUDED)%Z || (result =? BM_DIFFERENT)%Z then inr BM_INTERSECTS else inl BM_CONTAINS)
  else if f_int w then inr BM_INTERSECTS
  else
    fin (if (result =? BM_EQUAL)%Z && negb (ci_empty1 st) then inr BM_INTERSECTS
         else if (result =? BM_INCLUDED)%Z && negb (ci_empty1 st) then inr BM_INTERSECTS
         else if (result =? BM_CONTAINS)%Z && negb (ci_empty2 st) then inr BM_INTERSECTS
         else inl BM_DIFFERENT).

Lemma ci_step_astep v1 v2 st : ci_step v1 v2 st = astep (wfacts v1 v2) (v1 =? v2) st.
Proof. reflexivity. Qed.

Lemma eq_is_sub_sup v1 v2 : (v1 =? v2) = f_sub (wfacts v1 v2) && f_sup (wfacts v1 v2).
Proof.
  unfold wfacts; cbn [f_sub f_sup]. destruct (N.eqb_spec v1 v2) as [->|Ne].
  - rewrite N.land_diag, N.eqb_refl. reflexivity.
  - symmetry. apply andb_false_iff.
    destruct (N.eqb_spec (N.land v1 v2) v1) as [E1|]; [|left; reflexivity].
    destruct (N.eqb_spec (N.land v1 v2) v2) as [E2|]; [|right; reflexivity]. congruence.
Qed.

(* exhaustive: the C step computes the facts of the extended prefix *)
Lemma astep_correct f w : fcons f = true -> fcons w = true -> fcls f <> BM_INTERSECTS ->
  astep w (f_sub w && f_sup w) (enc f) =
  if (fcls (fjoin f w) =? BM_INTERSECTS)%Z then inr BM_INTERSECTS else inl (enc (fjoin f w)).
Proof.
  destruct f as [a b c d e], w as [a' b' c' d' e'].
  destruct a, b, c, d, e; try (intros Q; discriminate Q); intros _;
  destruct a', b', c', d', e'; try (intros Q; discriminate Q); intros _ Hn;
  try reflexivity; exfalso; apply Hn; reflexivity.
Qed.
Lemma fjoin_cons f w : fcons f = true -> fcons w = true -> fcons (fjoin f w) = true.
Proof.
  destruct f as [a b c d e], w as [a' b' c' d' e'].
  destruct a, b, c, d, e; try (intros Q; discriminate Q); intros _;
  destruct a', b', c', d', e'; try (intros Q; discriminate Q); intros _; reflexivity.
Qed.
Lemma intersects_absorbing f w : fcons f = true -> fcons w = true ->
  fcls f = BM_INTERSECTS -> fcls (fjoin f w) = BM_INTERSECTS.
Proof.
  destruct f as [a b c d e], w as [a' b' c' d' e'].
  destruct a, b, c, d, e; try (intros Q; discriminate Q); intros _;
  destruct a', b', c', d', e'; try (intros Q; discriminate Q); intros _ Q; try discriminate Q; reflexivity.
Qed.

(* the facts of a range of extended words *)
Definition pfacts (v1 v2 : N -> N) (l : list N) (f : facts) : facts :=
  fold_left (fun f i => fjoin f (wfacts (v1 i) (v2 i))) l f.

Lemma pfacts_cons v1 v2 l : forall f, fcons f = true -> fcons (pfacts v1 v2 l f) = true.
Proof. induction l as [|i t IH]; intros f Hf; simpl; auto. apply IH, fjoin_cons; [assumption|apply wfacts_cons]. Qed.
Lemma pfacts_absorb v1 v2 l : forall f, fcons f = true -> fcls f = BM_INTERSECTS -> fcls (pfacts v1 v2 l f) = BM_INTERSECTS.
Proof.
  induction l as [|i t IH]; intros f Hf Hc; simpl; auto.
  apply IH; [apply fjoin_cons; [assumption|apply wfacts_cons]|apply intersects_absorbing; auto; apply wfacts_cons].
Qed.

Lemma loop_correct v1 v2 l : forall f, fcons f = true -> fcls f <> BM_INTERSECTS ->
  fold_until (fun i st => ci_step (v1 i) (v2 i) st) l (enc f) =
  if (fcls (pfacts v1 v2 l f) =? BM_INTERSECTS)%Z then inr BM_INTERSECTS else inl (enc (pfacts v1 v2 l f)).
Proof.
  induction l as [|i t IH]; intros f Hf Hn; cbn [fold_until pfacts fold_left].
  - destruct (Z.eqb_spec (fcls f) BM_INTERSECTS); [contradiction|reflexivity].
  - rewrite ci_step_astep, eq_is_sub_sup, astep_correct by (auto; apply wfacts_cons).
    pose proof (fjoin_cons f _ Hf (wfacts_cons (v1 i) (v2 i))) as Hc.
    destruct (Z.eqb_spec (fcls (fjoin f (wfacts (v1 i) (v2 i)))) BM_INTERSECTS) as [E|E].
    + fold (pfacts v1 v2 t (fjoin f (wfacts (v1 i) (v2 i)))). rewrite (pfacts_absorb v1 v2 t _ Hc E). reflexivity.
    + apply IH; assumption.
Qed.

(* the code after the loop is one more step on the virtual word pair (infinite1, infinite2) *)
Definition tfacts (i1 i2 : bool) : facts := FA (implb i1 i2) (implb i2 i1) (i1 && i2) (negb i1) (negb i2).
Lemma tfacts_cons i1 i2 : fcons (tfacts i1 i2) = true.
Proof. destruct i1, i2; reflexivity. Qed.
Lemma tfacts_wfacts i1 i2 : tfacts i1 i2 = wfacts (infw i1) (infw i2).
Proof. destruct i1, i2; reflexivity. Qed.

Lemma tail_correct (f : facts) (i1 i2 : bool) : fcons f = true -> fcls f <> BM_INTERSECTS ->
  (let st := enc f in let result := ci_result st in
   if negb i1 then
     (if i2 then match ci_one_empty BM_CONTAINS BM_INCLUDED (ci_empty2 st) st with inr v => v | inl v => v end
     else result : Z)
   else if negb i2 then match ci_one_empty BM_INCLUDED BM_CONTAINS (ci_empty1 st) st with inr v => v | inl v => v end
   else if (result =? BM_DIFFERENT)%Z then BM_INTERSECTS else result)
  = fcls (fjoin f (tfacts i1 i2)).
Proof.
  destruct f as [a b c d e].
  destruct a, b, c, d, e; try (intros Q; discriminate Q); intros _ Hn; destruct i1, i2;
  try reflexivity; exfalso; apply Hn; reflexivity.
Qed.

(* ---------------- meaning of the final facts ---------------- *)
Lemma pfacts_split v1 v2 l : forall f,
  pfacts v1 v2 l f = fjoin f (pfacts v1 v2 l f0) /\ True.
Proof.
  induction l as [|i t IH]; intros f; cbn [pfacts fold_left]; split; auto.
  - destruct f as [a b c d e]. unfold fjoin, f0; cbn. now rewrite !andb_true_r, orb_false_r.
  - fold (pfacts v1 v2 t (fjoin f (wfacts (v1 i) (v2 i)))). fold (pfacts v1 v2 t (fjoin f0 (wfacts (v1 i) (v2 i)))).
    rewrite (proj1 (IH (fjoin f (wfacts (v1 i) (v2 i))))), (proj1 (IH (fjoin f0 (wfacts (v1 i) (v2 i))))).
    destruct f as [a b c d e], (wfacts (v1 i) (v2 i)) as [a' b' c' d' e'], (pfacts v1 v2 t f0) as [a2 b2 c2 d2 e2].
    unfold fjoin, f0; cbn. f_equal; try (now rewrite ?andb_assoc); now rewrite orb_assoc.
Qed.

Lemma pfacts_sub v1 v2 l : f_sub (pfacts v1 v2 l f0) = forallb (fun i => N.land (v1 i) (v2 i) =? v1 i) l.
Proof.
  induction l as [|i t IH]; [reflexivity|]. cbn [pfacts fold_left forallb].
  fold (pfacts v1 v2 t (fjoin f0 (wfacts (v1 i) (v2 i)))). rewrite (proj1 (pfacts_split v1 v2 t _)).
  cbn [fjoin f_sub f0 wfacts andb]. now rewrite IH.
Qed.
Lemma pfacts_sup v1 v2 l : f_sup (pfacts v1 v2 l f0) = forallb (fun i => N.land (v1 i) (v2 i) =? v2 i) l.
Proof.
  induction l as [|i t IH]; [reflexivity|]. cbn [pfacts fold_left forallb].
  fold (pfacts v1 v2 t (fjoin f0 (wfacts (v1 i) (v2 i)))). rewrite (proj1 (pfacts_split v1 v2 t _)).
  cbn [fjoin f_sup f0 wfacts andb]. now rewrite IH.
Qed.
Lemma pfacts_int v1 v2 l : f_int (pfacts v1 v2 l f0) = existsb (fun i => negb (N.land (v1 i) (v2 i) =? 0)) l.
Proof.
  induction l as [|i t IH]; [reflexivity|]. cbn [pfacts fold_left existsb].
  fold (pfacts v1 v2 t (fjoin f0 (wfacts (v1 i) (v2 i)))). rewrite (proj1 (pfacts_split v1 v2 t _)).
  cbn [fjoin f_int f0 wfacts orb]. now rewrite IH.
Qed.

Lemma subset_land_words a b : wf a -> wf b ->
  (bs_subset (abs a) (abs b) = true <-> forall i, N.land (rd a i) (rd b i) = rd a i).
Proof.
  intros Ha Hb. rewrite bs_subset_spec. split.
  - intros S i. apply word_ext; [apply land_lt; apply rd_lt; assumption|apply rd_lt; assumption|].
    intros j Hj. rewrite N.land_spec. specialize (S (64 * i + j)). rewrite !mem_abs in S by assumption.
    destruct (split64 i j Hj) as [E1 E2]. rewrite E1, E2 in S.
    destruct (N.testbit (rd a i) j); [rewrite S by reflexivity; reflexivity|reflexivity].
  - intros E k M. rewrite mem_abs in * by assumption. rewrite <- E, N.land_spec in M. now apply andb_true_iff in M.
Qed.

Lemma bs_subset_antisym a b : bs_subset a b = true -> bs_subset b a = true -> a = b.
Proof.
  rewrite !bs_subset_spec. intros S1 S2. apply bs_ext. intros i. specialize (S1 i). specialize (S2 i).
  destruct (mem i a), (mem i b); auto; try (symmetry; auto; fail).
Qed.
Lemma bs_subset_refl a : bs_subset a a = true.
Proof. apply bs_subset_spec. auto. Qed.

Theorem bm_compare_inclusion_spec r1 r2 : wf r1 -> wf r2 ->
  bm_compare_inclusion r1 r2 = sp_compare_inclusion (abs r1) (abs r2).
Proof.
  intros H1 H2. unfold bm_compare_inclusion.
  set (mx := if count r2 <? count r1 then count r1 else count r2).
  assert (Hmx : count r1 <= mx /\ count r2 <= mx) by (unfold mx; brk; lia).
  change (CI BM_EQUAL true true) with (enc f0).
  rewrite (loop_correct (rd r1) (rd r2) (range 0 mx) f0) by (try reflexivity; discriminate).
  set (F := pfacts (rd r1) (rd r2) (range 0 mx) f0).
  assert (CF : fcons F = true) by (apply pfacts_cons; reflexivity).
  set (FF := fjoin F (tfacts (infinite r1) (infinite r2))).
  assert (RES : (if (fcls F =? BM_INTERSECTS)%Z then BM_INTERSECTS else fcls FF) = fcls FF).
  { destruct (Z.eqb_spec (fcls F) BM_INTERSECTS) as [E|E]; [|reflexivity].
    symmetry. apply intersects_absorbing; auto. apply tfacts_cons. }
  assert (GOAL : fcls FF = sp_compare_inclusion (abs r1) (abs r2)).
  { (* the facts of all the (extended) words *)
    assert (ALL : forall P : N -> N -> bool,
       (forallb (fun i => P (rd r1 i) (rd r2 i)) (range 0 mx) && P (infw (infinite r1)) (infw (infinite r2)) = true
        <-> forall i, P (rd r1 i) (rd r2 i) = true)).
    { intros P. rewrite andb_true_iff, forallb_forall. split.
      - intros [A B] i. destruct (N.lt_ge_cases i mx) as [Hi|Hi]; [apply A, range_In; lia|].
        rewrite !rd_out by lia. exact B.
      - intros A. split; [intros i _; apply A|]. specialize (A mx). rewrite !rd_out in A by lia. exact A. }
    assert (Esub : f_sub FF = bs_subset (abs r1) (abs r2)).
    { unfold FF. cbn [fjoin f_sub]. unfold F. rewrite pfacts_sub, tfacts_wfacts. cbn [wfacts f_sub].
      apply eq_true_iff_eq. rewrite (ALL (fun a b => N.land a b =? a)), subset_land_words by assumption.
      split; intros A i; [apply N.eqb_eq, A|apply N.eqb_eq, A]. }
    assert (Esup : f_sup FF = bs_subset (abs r2) (abs r1)).
    { unfold FF. cbn [fjoin f_sup]. unfold F. rewrite pfacts_sup, tfacts_wfacts. cbn [wfacts f_sup].
      apply eq_true_iff_eq. rewrite (ALL (fun a b => N.land a b =? b)), subset_land_words by assumption.
      split; intros A i; [rewrite N.land_comm; apply N.eqb_eq, A|apply N.eqb_eq; rewrite N.land_comm; apply A]. }
    assert (Eint : f_int FF = bs_intersects (abs r1) (abs r2)).
    { unfold FF. cbn [fjoin f_int]. unfold F. rewrite pfacts_int, tfacts_wfacts. cbn [wfacts f_int].
      apply eq_true_iff_eq. rewrite intersects_words, orb_true_iff, existsb_exists by assumption. split.
      - intros [(i & Hi & Pi)|Pi].
        + exists i. apply negb_true_iff, N.eqb_neq in Pi. exact Pi.
        + exists mx. rewrite !rd_out by lia. apply negb_true_iff, N.eqb_neq in Pi. exact Pi.
      - intros (i & Pi). destruct (N.lt_ge_cases i mx) as [Hi|Hi].
        + left. exists i. split; [apply range_In; lia|]. apply negb_true_iff, N.eqb_neq. exact Pi.
        + right. rewrite !rd_out in Pi by lia. apply negb_true_iff, N.eqb_neq. exact Pi. }
    unfold fcls, sp_compare_inclusion. rewrite Esub, Esup, Eint.
    destruct (bs_subset (abs r1) (abs r2)) eqn:S1, (bs_subset (abs r2) (abs r1)) eqn:S2; cbn [andb].
    - rewrite (bs_subset_antisym _ _ S1 S2). rewrite (proj2 (bs_eqb_spec _ _) eq_refl). reflexivity.
    - destruct (bs_eqb (abs r1) (abs r2)) eqn:E; [|reflexivity].
      apply bs_eqb_spec in E. rewrite E, bs_subset_refl in S2. discriminate.
    - destruct (bs_eqb (abs r1) (abs r2)) eqn:E; [|reflexivity].
      apply bs_eqb_spec in E. rewrite E, bs_subset_refl in S1. discriminate.
    - destruct (bs_eqb (abs r1) (abs r2)) eqn:E; [|reflexivity].
      apply bs_eqb_spec in E. rewrite E, bs_subset_refl in S1. discriminate. }
  rewrite <- GOAL, <- RES.
  destruct (Z.eqb_spec (fcls F) BM_INTERSECTS) as [E|E]; [reflexivity|].
  apply (tail_correct F (infinite r1) (infinite r2) CF E).
Qed.
