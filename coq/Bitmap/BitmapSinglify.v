(* C03 proofs, part 8: singlify. *)
From Coq Require Import NArith ZArith Bool List Lia ZifyBool ZifyN ZifyNat.
From HV Require Import Base.BSet Bitmap.BitmapModel Bitmap.BitmapSpec Bitmap.BitmapBase Bitmap.BitmapOps
  Bitmap.BitmapQueries Bitmap.BitmapScan Bitmap.BitmapCompare.
Import ListNotations.
Local Open Scope N_scope.
Ltac Zify.zify_post_hook ::= Z.div_mod_to_equations.

Definition sing_step (st : bool * repr) (i : N) : bool * repr :=
  let (found, r) := st in
  if found then (true, wr r i ZEROW)
  else let w := getw (words r) i in
       if w =? 0 then (false, r) else (true, wr r i (SUB_CPU (ffsl w - 1))).

Lemma sing_found n : forall lo hi r, shape r n -> hi <= n ->
  let st := fold_left sing_step (range lo hi) (true, r) in
  fst st = true /\ shape (snd st) n /\ infinite (snd st) = infinite r /\
  forall j, getw (words (snd st)) j = if (lo <=? j) && (j <? hi) then 0 else getw (words r) j.
Proof.
  intros lo hi. pattern lo, hi. apply range_ind; clear lo hi.
  - intros lo hi Hle r S Hh. rewrite range_nil by assumption. cbn [fold_left fst snd].
    split; [reflexivity|split; [assumption|split; [reflexivity|]]].
    intros j. replace ((lo <=? j) && (j <? hi)) with false by (symmetry; apply andb_false_iff; brk; lia). reflexivity.
  - intros lo hi Hlt IH r S Hh. rewrite range_cons by assumption. cbn [fold_left sing_step].
    destruct (wr_shape r n lo ZEROW S ltac:(lia) ZEROW_lt) as (S1 & I1 & G1).
    destruct (IH (wr r lo ZEROW) S1 Hh) as (F & S2 & I2 & G2). cbv zeta in *.
    split; [assumption|split; [assumption|split; [congruence|]]].
    intros j. rewrite G2, G1. brk; cbn [andb]; try lia; reflexivity.
Qed.

Lemma sing_search n : forall lo hi r, shape r n -> hi <= n ->
  let st := fold_left sing_step (range lo hi) (false, r) in
  ((forall i, lo <= i < hi -> getw (words r) i = 0) /\ st = (false, r)) \/
  (exists i, lo <= i < hi /\ getw (words r) i <> 0 /\ (forall i', lo <= i' < i -> getw (words r) i' = 0) /\
     fst st = true /\ shape (snd st) n /\ infinite (snd st) = infinite r /\
     forall j, getw (words (snd st)) j =
       if (lo <=? j) && (j <? hi) then (if j =? i then SUB_CPU (ffsl (getw (words r) i) - 1) else 0) else getw (words r) j).
Proof.
  intros lo hi. pattern lo, hi. apply range_ind; clear lo hi.
  - intros lo hi Hle r S Hh. rewrite range_nil by assumption. left. split; [intros; lia|reflexivity].
  - intros lo hi Hlt IH r S Hh. rewrite range_cons by assumption. cbn [fold_left sing_step].
    destruct (N.eqb_spec (getw (words r) lo) 0) as [Z|Nz].
    + destruct (IH r S Hh) as [[Za E]|(i & Hi & Nz & Zb & F & S2 & I2 & G2)]; cbv zeta in *.
      * left. split; [|exact E]. intros i Hi. destruct (N.eq_dec i lo) as [->|]; [assumption|apply Za; lia].
      * right. exists i. split; [lia|split; [assumption|split; [|split; [assumption|split; [assumption|split; [assumption|]]]]]].
        -- intros i' Hi'. destruct (N.eq_dec i' lo) as [->|]; [assumption|apply Zb; lia].
        -- intros j. rewrite G2. destruct (N.eq_dec j lo) as [->|Hne].
           ++ replace (lo + 1 <=? lo) with false by (symmetry; apply N.leb_gt; lia). cbn [andb].
              replace (lo <=? lo) with true by (symmetry; apply N.leb_le; lia).
              replace (lo <? hi) with true by (symmetry; apply N.ltb_lt; lia). cbn [andb].
              replace (lo =? i) with false by (symmetry; apply N.eqb_neq; lia). assumption.
           ++ replace (lo + 1 <=? j) with (lo <=? j) by (brk; lia). reflexivity.
    + right. exists lo.
      assert (Hv : SUB_CPU (ffsl (getw (words r) lo) - 1) < U64) by apply SUB_CPU_lt.
      destruct (wr_shape r n lo _ S ltac:(lia) Hv) as (S1 & I1 & G1).
      destruct (sing_found n (lo + 1) hi _ S1 Hh) as (F & S2 & I2 & G2). cbv zeta in *.
      split; [lia|split; [assumption|split; [intros; lia|split; [assumption|split; [assumption|split; [congruence|]]]]]].
      intros j. rewrite G2, G1. destruct (N.eq_dec j lo) as [->|Hne].
      * replace (lo + 1 <=? lo) with false by (symmetry; apply N.leb_gt; lia). cbn [andb].
        rewrite N.eqb_refl.
        replace (lo <=? lo) with true by (symmetry; apply N.leb_le; lia).
        replace (lo <? hi) with true by (symmetry; apply N.ltb_lt; lia). reflexivity.
      * replace (j =? lo) with false by (symmetry; apply N.eqb_neq; assumption).
        replace (lo + 1 <=? j) with (lo <=? j) by (brk; lia). reflexivity.
Qed.

Lemma bs_add_empty k : bs_add k bs_empty = bs_single k.
Proof. apply bs_ext. intros i. rewrite mem_add, mem_empty, mem_single. apply orb_false_r. Qed.

Lemma bm_singlify_unfold r : bm_singlify r =
  let st := fold_left sing_step (range 0 (count r)) (false, r) in
  let found := fst st in let r := snd st in
  if infinite r then if found then with_inf r false else bm_set (with_inf r false) (count r * BPL) else r.
Proof.
  unfold bm_singlify. fold sing_step. destruct (fold_left sing_step _ _) as [f r']. reflexivity.
Qed.

Theorem bm_singlify_spec r : wf r -> (infinite r = true -> count r < MAXC) ->
  wf (bm_singlify r) /\ abs (bm_singlify r) = sp_singlify (abs r).
Proof.
  intros H Hc. rewrite bm_singlify_unfold. pose proof (shape_of_wf r H) as S.
  pose proof (wf_count1 r H) as C1. pose proof (wf_countmax r H) as CM.
  destruct (sing_search (count r) 0 (count r) r S ltac:(lia)) as [[Za E]|(i & Hi & Nz & Zb & F & S2 & I2 & G2)]; cbv zeta in *.
  - (* no bit in the valid words *)
    rewrite E. cbn [fst snd].
    assert (Zr : forall i, i < count r -> rd r i = 0) by (intros i Hi; rewrite rd_in by assumption; apply Za; lia).
    destruct (tail_only r H Zr) as [A F]. unfold sp_singlify. rewrite F.
    destruct (infinite r) eqn:I.
    + assert (W0 : wf (with_inf r false)) by (destruct H; constructor; assumption).
      assert (Z0 : forall i, i < count (with_inf r false) -> rd (with_inf r false) i = 0).
      { intros i Hi. rewrite rd_in by assumption. cbn [with_inf words count] in *. apply Za. lia. }
      destruct (tail_only _ W0 Z0) as [A0 _]. cbn [with_inf infinite] in A0.
      destruct (bm_set_spec (with_inf r false) (count r * BPL) W0) as [W E2].
      { unfold BPL, IDXMAX. specialize (Hc eq_refl). unfold MAXC in Hc. lia. }
      split; [exact W|]. rewrite E2, A0, bs_add_empty. f_equal. unfold BPL. lia.
    + split; [assumption|]. rewrite A. reflexivity.
  - (* first bit found in word i *)
    set (st := fold_left sing_step (range 0 (count r)) (false, r)) in *.
    rewrite F, I2. set (c := ffsl (getw (words r) i) - 1) in *.
    assert (Ri : rd r i = getw (words r) i) by (apply rd_in; lia).
    destruct (first_in_word r i H) as (Fi & Bc & P1).
    { intros i' Hi'. rewrite rd_in by lia. apply Zb. lia. }
    { rewrite Ri. assumption. }
    rewrite Ri in Fi, Bc. fold c in Fi, Bc.
    assert (K : forall r', shape r' (count r) -> infinite r' = false ->
       (forall j, getw (words r') j = getw (words (snd st)) j) ->
       wf r' /\ abs r' = sp_singlify (abs r)).
    { intros r' S' I' G'. assert (W : wf r') by (eapply wf_of_shape; eauto).
      split; [exact W|]. unfold sp_singlify. rewrite Fi. apply lift0; [exact W|].
      intros k. rewrite mem_single.
      pose proof (N.div_mod k 64 ltac:(discriminate)) as Dk. pose proof (N.mod_lt k 64 ltac:(discriminate)) as Mk.
      destruct (N.lt_ge_cases (k / 64) (count r)) as [Hk|Hk].
      - rewrite (rd_shape_in _ _ _ S' Hk), G', G2.
        replace (0 <=? k / 64) with true by (symmetry; apply N.leb_le; lia).
        replace (k / 64 <? count r) with true by (symmetry; apply N.ltb_lt; lia). cbn [andb].
        destruct (N.eqb_spec (k / 64) i) as [Ek|Nk].
        + rewrite SUB_CPU_bit. rewrite (N.mod_small c 64) by assumption. brk; try reflexivity; lia.
        + rewrite N.bits_0. apply N.eqb_neq. intros ->. apply Nk.
          rewrite N.mul_comm, N.div_add_l by discriminate. rewrite N.div_small by assumption. lia.
      - rewrite (rd_shape_out _ _ _ S' Hk). unfold inf_word. rewrite I'. unfold ZEROW. rewrite N.bits_0.
        apply N.eqb_neq. intros ->. assert ((64 * i + c) / 64 = i).
        { rewrite N.mul_comm, N.div_add_l by discriminate. rewrite N.div_small by assumption. lia. }
        lia. }
    destruct (infinite r) eqn:I.
    + apply K; [apply with_inf_shape; assumption|reflexivity|reflexivity].
    + apply K; [assumption|congruence|reflexivity].
Qed.
