(* C04 lemmas about Bitmap/BitmapText.v *)
From Coq Require Import String Ascii.
From Coq Require Import NArith ZArith PeanoNat List Bool Lia.
From HV Require Import Base.BSet Base.Bytes Base.Strto Base.Snprintf Bitmap.BitmapText.
Import ListNotations.
Local Open Scope N_scope.

(* ---------- print contracts: straight from Base/Snprintf ---------- *)
Definition contract (text : list N) (init : list N) (r : option (nat * list N)) : Prop :=
  exists ret buf, r = Some (ret, buf)                        (* no store at an index >= buflen *)
    /\ ret = length text                                       (* the length the untruncated text needs *)
    /\ length buf = length init
    /\ (init = [] -> buf = [])                                 (* NULL / 0 accepted, nothing stored *)
    /\ (forall n, length init = S n ->                         (* truncated prefix, NUL, rest untouched *)
          buf = firstn n text ++ [0] ++ skipn (S (Nat.min (length text) n)) init).

Lemma snprintf_pieces_contract ps init : contract (concat ps) init (snprintf_pieces ps init).
Proof.
  unfold contract, snprintf_pieces.
  destruct (emit_all_contract init ps) as [st [E [R [L [Hn Hb]]]]]. rewrite E.
  exists (ps_ret st), (ps_buf st). repeat split; auto.
Qed.

Lemma print_contract_hwloc_l b init : contract (text_hwloc b) init (print_hwloc b init).
Proof. apply snprintf_pieces_contract. Qed.
Lemma print_contract_taskset_l b init : contract (text_taskset b) init (print_taskset b init).
Proof. apply snprintf_pieces_contract. Qed.

(* asprintf = snprintf(NULL, 0) then snprintf(buf, len+1) on any fresh block *)
Lemma asprintf_pieces_eq ps junk :
  (forall n, length (junk n) = n) ->
  snprintf_pieces ps [] = Some (length (concat ps), []) /\
  asprintf_pieces ps junk = Some (length (concat ps), concat ps ++ [0]).
Proof.
  intros Hj. unfold asprintf_pieces, snprintf_pieces.
  destruct (emit_all_null ps) as [st0 [E0 [R0 B0]]]. rewrite E0, R0, B0. split; [reflexivity|].
  destruct (emit_all_exact (junk (S (length (concat ps)))) ps (Hj _)) as [st [E [R B]]].
  rewrite E, R, B. reflexivity.
Qed.

(* ---------- the two refutations of "sscanf returns 0 or -1 on every string" ---------- *)
Lemma sscanf_empty_oob dirty : parse_hwloc_gen false dirty [0] = Oob.
Proof. reflexivity. Qed.
(* the read that leaves the block: strchr(current + 1, ',') with current = string = "" *)
Lemma sscanf_empty_oob_where : strchr [0] 1 COMMA = Oob /\ rd [0] 1 = None.
Proof. split; reflexivity. Qed.
Lemma sscanf_leading_comma_assert dirty : parse_hwloc_gen false dirty (cstr ",1") = Ok PAssert.
Proof. vm_compute. reflexivity. Qed.
(* after the fix both are handled *)
Lemma sscanf_fixed_empty dirty : parse_hwloc_gen true dirty [0] = Ok (PSet (BM [dirty] false)).
Proof. vm_compute. reflexivity. Qed.
Lemma sscanf_fixed_leading_comma dirty : parse_hwloc_gen true dirty (cstr ",1") = Ok (PSet (BM [1] false)).
Proof. vm_compute. reflexivity. Qed.
