(* C04 lemmas about Bitmap/BitmapText.v *)
From Coq Require Import String Ascii.
From Coq Require Import NArith ZArith PeanoNat List Bool Lia.
From HV Require Import Base.BSet Base.Bytes Base.Strto Base.Snprintf Bitmap.BitmapText.
Import ListNotations.
Local Open Scope N_scope.

(* ---------- print contracts: straight from Base/Snprintf ---------- *)
Definition contract (text : list N) (init : list N) (r : option (nat * list N)) : Prop :=
  exists ret buf, r = Some (ret, buf)                        (* no store at an index >= buflen *)
    /\ ret = length text                                       (* the length the untruncated text needs *)
    /\ length buf = length init
    /\ (init = [] -> buf = [])                                 (* NULL / 0 accepted, nothing stored *)
    /\ (forall n, length init = S n ->                         (* truncated prefix, NUL, rest untouched *)
          buf = firstn n text ++ [0] ++ skipn (S (Nat.min (length text) n)) init).

Lemma snprintf_pieces_contract ps init : contract (concat ps) init (snprintf_pieces ps init).
Proof.
  unfold contract, snprintf_pieces.
  destruct (emit_all_contract init ps) as [st [E [R [L [Hn Hb]]]]]. rewrite E.
  exists (ps_ret st), (ps_buf st). repeat split; auto.
Qed.

Lemma print_contract_hwloc_l b init : contract (text_hwloc b) init (print_hwloc b init).
Proof. apply snprintf_pieces_contract. Qed.
Lemma print_contract_taskset_l b init : contract (text_taskset b) init (print_taskset b init).
Proof. apply snprintf_pieces_contract. Qed.

(* asprintf = snprintf(NULL, 0) then snprintf(buf, len+1) on any fresh block *)
Lemma asprintf_pieces_eq ps junk :
  (forall n, length (junk n) = n) ->
  snprintf_pieces ps [] = Some (length (concat ps), []) /\
  asprintf_pieces ps junk = Some (length (concat ps), concat ps ++ [0]).
Proof.
  intros Hj. unfold asprintf_pieces, snprintf_pieces.
  destruct (emit_all_null ps) as [st0 [E0 [R0 B0]]]. rewrite E0, R0, B0. split; [reflexivity|].
  destruct (emit_all_exact (junk (S (length (concat ps)))) ps (Hj _)) as [st [E [R B]]].
  rewrite E, R, B. reflexivity.
Qed.

(* ---------- the two refutations of "sscanf returns 0 or -1 on every string" ---------- *)
Lemma sscanf_empty_oob dirty : parse_hwloc_gen false false dirty [0] = Oob.
Proof. reflexivity. Qed.
(* the read that leaves the block: strchr(current + 1, ',') with current = string = "" *)
Lemma sscanf_empty_oob_where : strchr [0] 1 COMMA = Oob /\ rd [0] 1 = None.
Proof. split; reflexivity. Qed.
Lemma sscanf_leading_comma_assert dirty : parse_hwloc_gen false false dirty (cstr ",1") = Ok PAssert.
Proof. vm_compute. reflexivity. Qed.
(* after the fix both are handled *)
Lemma sscanf_fixed_empty dirty : parse_hwloc_gen true false dirty [0] = Ok (PSet (BM [dirty] false)).
Proof. vm_compute. reflexivity. Qed.
Lemma sscanf_fixed_leading_comma dirty : parse_hwloc_gen true false dirty (cstr ",1") = Ok (PSet (BM [1] false)).
Proof. vm_compute. reflexivity. Qed.

(* ---------- parsers never leave the string: list format ---------- *)
Lemma is_sep_0 : is_sep 0 = false. Proof. reflexivity. Qed.

Lemma list_sscanf_loop_total s n : cstring s n ->
  forall fuel cur begin set, cur <= n -> (N.to_nat (n - cur) < fuel)%nat ->
  exists r, list_sscanf_loop fuel s cur begin set = Ok r.
Proof.
  intros Hs. induction fuel as [|fuel IH]; intros cur begin set Hcur Hfuel; [lia|].
  cbn [list_sscanf_loop].
  destruct (cstring_rd s n cur Hs Hcur) as [c [Hc Zc]]. unfold rdr at 1. rewrite Hc. cbn [bind].
  destruct (N.eqb_spec c 0) as [->|Hc0]; [eauto|].
  assert (Hlt : cur < n). { assert (cur <> n) by tauto. lia. }
  destruct (scan_while_ok is_sep s n cur Hs Hcur is_sep_0) as [cur' [Hsc Hcur']]. rewrite Hsc. cbn [bind].
  destruct (strtoul_ok s n cur' 0 Hs) as [v [e [Hst [He Hv]]]]; [lia|]. rewrite Hst. cbn [bind].
  destruct (N.eqb_spec e cur') as [->|Hne]; [eauto|].
  destruct (cstring_rd s n e Hs) as [nc [Hnc Znc]]; [lia|]. unfold rdr at 1. rewrite Hnc. cbn [bind].
  (* the state update never reads outside *)
  assert (St : exists st,
    (if negb (begin =? -1)%Z then Ok (false, (-1)%Z, set_range_model set begin (to_long v))
     else if nc =? 45 then
       let* n1 := rdr s (N.succ e) in
       if n1 =? 0 then Ok (true, begin, set_range_model set (to_long v) (-1))
       else Ok (false, to_long v, set)
     else if is_sep nc || (nc =? 0) then Ok (false, begin, bs_add (to_unsigned (to_long v)) set)
     else Ok (false, begin, set)) = Ok st).
  { destruct (negb (begin =? -1)%Z); [eauto|].
    destruct (N.eqb_spec nc 45) as [->|_].
    - assert (e <> n). { intros E. apply Znc in E. discriminate. }
      destruct (cstring_rd s n (N.succ e) Hs) as [n1 [Hn1 _]]; [lia|].
      unfold rdr. rewrite Hn1. cbn [bind]. destruct (n1 =? 0); eauto.
    - destruct (is_sep nc || (nc =? 0)); eauto. }
  destruct St as [[[stop begin'] set'] ->]. cbn [bind].
  destruct stop; [eauto|].
  destruct (N.eqb_spec nc 0) as [->|Hnc0]; [eauto|].
  assert (e <> n) by tauto.
  apply IH; lia.
Qed.

Lemma parse_list_total s n : cstring s n -> exists r, parse_list s = Ok r.
Proof.
  intros Hs. unfold parse_list. apply (list_sscanf_loop_total s n Hs); [lia|].
  pose proof (cstring_len s n Hs) as H. unfold len in H. lia.
Qed.

(* ---------- taskset format ---------- *)
Lemma no_nul_lit_inf : no_nul (bytes_of_string "0xf...f").
Proof. repeat constructor; discriminate. Qed.
Lemma no_nul_lit_0x : no_nul (bytes_of_string "0x").
Proof. repeat constructor; discriminate. Qed.

Lemma has_prefix_total lit s n i : no_nul (bytes_of_string lit) -> cstring s n -> i <= n ->
  exists b, has_prefix lit s i = Ok b /\ (b = true -> i + len (bytes_of_string lit) <= n).
Proof.
  intros Hl Hs Hi. rewrite has_prefix_spec by exact Hl.
  destruct (prefix_l (bytes_of_string lit) (skipn (N.to_nat i) s)) as [b|] eqn:E.
  - exists b. split; [reflexivity|]. intros ->. eapply prefix_in_cstring; eauto.
  - exfalso. eapply prefix_l_ok; eauto.
Qed.

Lemma In_firstn_nth {A} (b : A) : forall k l, In b (firstn k l) -> exists m, (m < k)%nat /\ nth_error l m = Some b.
Proof.
  induction k as [|k IH]; intros l H; [destruct H|].
  destruct l as [|x l]; [destruct H|]. destruct H as [->|H].
  - exists 0%nat. split; [lia|reflexivity].
  - destruct (IH l H) as [m [Hm E]]. exists (S m). split; [lia|exact E].
Qed.

(* the bytes of a C string before its terminator contain no NUL *)
Lemma sub_no_nul s n i k : cstring s n -> i + k <= n -> no_nul (sub s i (i + k)) /\ len (sub s i (i + k)) = k.
Proof.
  intros Hs Hik. pose proof (cstring_len s n Hs) as Hl.
  assert (L : len (sub s i (i + k)) = k).
  { unfold sub, len. rewrite firstn_length, skipn_length. unfold len in Hl. lia. }
  split; [|exact L].
  unfold no_nul. rewrite Forall_forall. intros b Hb.
  unfold sub in Hb. destruct (In_firstn_nth b _ _ Hb) as [m [Hlt Em]].
  assert (R : rd (skipn (N.to_nat i) s) (N.of_nat m) = Some b) by (unfold rd; now rewrite Nat2N.id).
  rewrite rd_skipn in R. destruct Hs as [_ Hk].
  destruct (Hk (i + N.of_nat m)) as [b' [Hb' Nz]]; [lia|]. congruence.
Qed.

Lemma store_opt_ok ul i v : i < N.of_nat (length ul) ->
  exists ul', store_opt ul i v = Ok ul' /\ length ul' = length ul.
Proof.
  intros Hi. unfold store_opt. destruct (N.ltb_spec i (N.of_nat (length ul))); [|lia].
  eexists. split; [reflexivity|].
  rewrite app_length, firstn_length. cbn [length]. rewrite skipn_length. lia.
Qed.

Lemma or_store_ok ul i v : i < N.of_nat (length ul) ->
  exists ul', or_store ul i v = Ok ul' /\ length ul' = length ul.
Proof.
  intros Hi. unfold or_store.
  destruct (nth_error ul (N.to_nat i)) eqn:E.
  - now apply store_opt_ok.
  - apply nth_error_None in E. lia.
Qed.

Lemma taskset_loop_total s n infinite : cstring s n ->
  forall fuel cur chars count ul, cur + chars = n -> count = (chars + 15) / 16 ->
  count <= N.of_nat (length ul) -> (N.to_nat chars < fuel)%nat ->
  exists e, taskset_sscanf_loop fuel s cur chars count infinite ul = Ok e /\ e <> LAssert.
Proof.
  intros Hs. induction fuel as [|fuel IH]; intros cur chars count ul Hn Hcount Hul Hfuel; [lia|].
  cbn [taskset_sscanf_loop].
  destruct (cstring_rd s n cur Hs) as [c [Hc Zc]]; [lia|]. unfold rdr at 1. rewrite Hc. cbn [bind].
  destruct (N.eqb_spec c 0) as [->|Hc0]; [eexists; split; [reflexivity|discriminate]|].
  assert (Hch : 0 < chars). { assert (cur <> n) by tauto. lia. }
  set (tmpchars := if chars mod 16 =? 0 then 16 else chars mod 16).
  assert (Ht : 1 <= tmpchars <= 16 /\ tmpchars <= chars /\ (chars - tmpchars) mod 16 = 0).
  { unfold tmpchars. pose proof (N.mod_upper_bound chars 16 ltac:(discriminate)) as Hm.
    pose proof (N.div_mod chars 16 ltac:(discriminate)) as Hd.
    destruct (N.eqb_spec (chars mod 16) 0) as [E|E].
    - assert (16 <= chars) by lia. repeat split; try lia.
      replace (chars - 16) with (16 * (chars / 16 - 1)) by lia.
      rewrite N.mul_comm. apply N.mod_mul. discriminate.
    - repeat split; try lia.
      replace (chars - chars mod 16) with (16 * (chars / 16)) by lia.
      rewrite N.mul_comm. apply N.mod_mul. discriminate. }
  destruct Ht as [Ht1 [Ht2 Ht3]].
  pose proof (cstring_len s n Hs) as Hlen.
  rewrite rdn_ok by lia. cbn [bind].
  destruct (sub_no_nul s n cur tmpchars Hs) as [Hnn Hsl]; [lia|].
  set (bytes := sub s cur (cur + tmpchars)) in *.
  assert (Hu : cstring (bytes ++ [0]) tmpchars).
  { rewrite <- Hsl. apply cstring_app. exact Hnn. }
  destruct (strtoul_ok (bytes ++ [0]) tmpchars 0 16 Hu) as [v [e [Hst [He Hv]]]]; [lia|].
  rewrite Hst. cbn [bind].
  destruct (cstring_rd (bytes ++ [0]) tmpchars e Hu) as [nb [Hnb _]]; [lia|].
  unfold rdr at 1. rewrite Hnb. cbn [bind].
  destruct (negb (nb =? 0)); [eexists; split; [reflexivity|discriminate]|].
  assert (Hc1 : 1 <= count).
  { subst count. pose proof (N.div_mod (chars + 15) 16 ltac:(discriminate)).
    pose proof (N.mod_upper_bound (chars + 15) 16 ltac:(discriminate)). lia. }
  destruct (N.eqb_spec count 0) as [E|_]; [lia|].
  match goal with |- context [store_opt ul (N.pred count) ?w] =>
    destruct (store_opt_ok ul (N.pred count) w) as [ul' [-> Hl']]; [lia|] end.
  cbn [bind]. apply IH; try lia.
  (* count - 1 = ceil((chars - tmpchars) / 16) *)
  subst count.
  pose proof (N.div_mod (chars - tmpchars) 16 ltac:(discriminate)) as D1.
  rewrite Ht3 in D1.
  replace (chars + 15) with ((chars - tmpchars) / 16 * 16 + (tmpchars + 15)) by lia.
  replace (chars - tmpchars + 15) with ((chars - tmpchars) / 16 * 16 + 15) by lia.
  rewrite !N.div_add_l by discriminate.
  assert ((tmpchars + 15) / 16 = 1).
  { symmetry. apply (N.div_unique (tmpchars + 15) 16 1 (tmpchars - 1)); lia. }
  assert (15 / 16 = 0) by reflexivity. lia.
Qed.

Lemma parse_taskset_total dirty s n : cstring s n ->
  exists r, parse_taskset dirty s = Ok r /\ r <> PAssert.
Proof.
  intros Hs. unfold parse_taskset.
  destruct (has_prefix_total "0xf...f" s n 0 no_nul_lit_inf Hs) as [pfx [-> Hp]]; [lia|]. cbn [bind].
  match goal with |- exists r, bind ?X _ = Ok r /\ _ =>
    assert (Hd : exists hd, X = Ok hd /\ match hd with inl _ => True | inr (cur, _) => cur <= n end) end.
  { destruct pfx.
    - specialize (Hp eq_refl). change (len (bytes_of_string "0xf...f")) with 7 in Hp.
      destruct (cstring_rd s n 7 Hs) as [c [Hc _]]; [lia|]. unfold rdr. rewrite Hc. cbn [bind].
      destruct (c =? 0); eexists; (split; [reflexivity|]); [exact I|cbv beta iota; lia].
    - destruct (has_prefix_total "0x" s n 0 no_nul_lit_0x Hs) as [p2 [-> Hp2]]; [lia|]. cbn [bind].
      assert (Hcur : (if p2 then 2 else 0) <= n).
      { destruct p2; [|lia]. specialize (Hp2 eq_refl). change (len (bytes_of_string "0x")) with 2 in Hp2. lia. }
      destruct (cstring_rd s n _ Hs Hcur) as [c [Hc _]]. unfold rdr. rewrite Hc. cbn [bind].
      destruct (c =? 0); eexists; (split; [reflexivity|]); [exact I|cbv beta iota; exact Hcur]. }
  destruct Hd as [hd [-> Hhd]]. cbn [bind].
  destruct hd as [b|[cur infinite]]; [eexists; split; [reflexivity|discriminate]|].
  rewrite (strlen_at_ok s n cur Hs Hhd). cbn [bind].
  pose proof (cstring_len s n Hs) as Hlen. unfold len in Hlen.
  destruct (taskset_loop_total s n infinite Hs (S (length s)) cur (n - cur) (((n - cur) * 4 + 63) / 64)
              (repeat None (N.to_nat (((n - cur) * 4 + 63) / 64)))) as [e [-> Hne]].
  - lia.
  - (* (4c + 63) / 64 = (c + 15) / 16 *)
    set (c := n - cur).
    pose proof (N.div_mod (c + 15) 16 ltac:(discriminate)) as D.
    pose proof (N.mod_upper_bound (c + 15) 16 ltac:(discriminate)) as M.
    symmetry. apply (N.div_unique (c * 4 + 63) 64 ((c + 15) / 16) (4 * ((c + 15) mod 16) + 3)); lia.
  - rewrite repeat_length. lia.
  - lia.
  - cbn [bind]. destruct e; try (eexists; split; [reflexivity|discriminate]). congruence.
Qed.

(* ---------- hwloc format ---------- *)
(* number of commas of the C string from index k on *)
Fixpoint ncommas (l : list N) : N :=
  match l with
  | [] => 0
  | b :: t => if b =? 0 then 0 else (if b =? COMMA then 1 else 0) + ncommas t
  end.
Definition commas_from (s : list N) (k : N) : N := ncommas (skipn (N.to_nat k) s).

Lemma skipn_cons_rd s k b : rd s k = Some b ->
  skipn (N.to_nat k) s = b :: skipn (N.to_nat (N.succ k)) s.
Proof.
  unfold rd. rewrite N2Nat.inj_succ. revert s. induction (N.to_nat k) as [|m IH]; intros s H.
  - destruct s; [discriminate|]. simpl in H. injection H as ->. reflexivity.
  - destruct s as [|x s]; [discriminate|]. simpl in H. simpl. now apply IH.
Qed.

Lemma commas_step s n k : cstring s n -> k < n ->
  exists b, rd s k = Some b /\ commas_from s k = (if b =? COMMA then 1 else 0) + commas_from s (N.succ k).
Proof.
  intros [_ Hk] Hlt. destruct (Hk k Hlt) as [b [Hb Nz]]. exists b. split; [exact Hb|].
  unfold commas_from. rewrite (skipn_cons_rd s k b Hb). cbn [ncommas].
  apply N.eqb_neq in Nz. now rewrite Nz.
Qed.
Lemma commas_end s n : cstring s n -> commas_from s n = 0.
Proof.
  intros [H0 _]. unfold commas_from. rewrite (skipn_cons_rd s n 0 H0). reflexivity.
Qed.
Lemma commas_mono s n a b : cstring s n -> a <= b <= n -> commas_from s b <= commas_from s a.
Proof.
  intros Hs [Hab Hbn]. remember (N.to_nat (b - a)) as d eqn:Ed. revert a Hab Ed.
  induction d as [|d IH]; intros a Hab Ed.
  - assert (a = b) by lia. subst. lia.
  - destruct (commas_step s n a Hs) as [c [_ E]]; [lia|]. rewrite E.
    specialize (IH (N.succ a)). assert (commas_from s b <= commas_from s (N.succ a)) by (apply IH; lia). lia.
Qed.
Lemma commas_none s n a b : cstring s n -> a <= b <= n ->
  (forall m, a <= m < b -> rd s m <> Some COMMA) -> commas_from s a = commas_from s b.
Proof.
  intros Hs [Hab Hbn]. remember (N.to_nat (b - a)) as d eqn:Ed. revert a Hab Ed.
  induction d as [|d IH]; intros a Hab Ed Hno.
  - assert (a = b) by lia. now subst.
  - destruct (commas_step s n a Hs) as [c [Hc E]]; [lia|]. rewrite E.
    destruct (N.eqb_spec c COMMA) as [->|_]; [exfalso; apply (Hno a); [lia|exact Hc]|].
    rewrite N.add_0_l. apply IH; try lia. intros m Hm. apply Hno. lia.
Qed.

Lemma count_commas_spec s n : cstring s n ->
  forall fuel p count, p <= n -> (N.to_nat (n - p) < fuel)%nat ->
  count_commas fuel s p count = Ok (count + commas_from s p).
Proof.
  intros Hs. induction fuel as [|fuel IH]; intros p count Hp Hfuel; [lia|].
  cbn [count_commas]. destruct (strchr_ok s n p COMMA Hs Hp) as [r [-> Hr]]. cbn [bind].
  destruct r as [j|].
  - destruct Hr as [Hj [Hcj Hno]].
    assert (j <> n). { intros ->. destruct Hs as [H0 _]. rewrite H0 in Hcj. discriminate. }
    rewrite IH by lia.
    rewrite (commas_none s n p j Hs) by (try lia; exact Hno).
    destruct (commas_step s n j Hs) as [c [Hc E]]; [lia|]. rewrite E.
    rewrite Hcj in Hc. injection Hc as <-. rewrite N.eqb_refl. f_equal. lia.
  - destruct Hr as [_ Hno].
    rewrite (commas_none s n p n Hs) by (try lia; intros m Hm; apply Hno; lia).
    rewrite (commas_end s n Hs). f_equal. lia.
Qed.

Lemma hwloc_loop_total zeroed s n count0 : cstring s n ->
  forall fuel cur count accum ul, cur <= n -> (N.to_nat (n - cur) < fuel)%nat ->
  count <= count0 -> N.of_nat (length ul) = (count0 + 1) / 2 ->
  1 + commas_from s cur <= count ->
  exists e, hwloc_sscanf_loop zeroed fuel s cur count accum ul = Ok e /\ e <> LAssert.
Proof.
  intros Hs. induction fuel as [|fuel IH]; intros cur count accum ul Hcur Hfuel Hc0 Hul Hcnt; [lia|].
  cbn [hwloc_sscanf_loop].
  destruct (cstring_rd s n cur Hs Hcur) as [c [Hc Zc]]. unfold rdr at 1. rewrite Hc. cbn [bind].
  destruct (N.eqb_spec c 0) as [->|Hcz].
  { destruct (zeroed && negb (accum =? 0) && (0 <? count)) eqn:Ez; [|eexists; split; [reflexivity|discriminate]].
    apply andb_true_iff in Ez. destruct Ez as [_ Ez]. apply N.ltb_lt in Ez.
    destruct (or_store_ok ul (N.pred count / 2) accum) as [ul' [-> _]].
    - rewrite Hul. apply N.div_lt_upper_bound; [discriminate|].
      pose proof (N.div_mod (count0 + 1) 2 ltac:(discriminate)).
      pose proof (N.mod_upper_bound (count0 + 1) 2 ltac:(discriminate)). lia.
    - cbn [bind]. eexists; split; [reflexivity|discriminate]. }
  destruct (strtoul_ok s n cur 16 Hs Hcur) as [v [e [-> [He Hv]]]]. cbn [bind].
  destruct (N.eqb_spec count 0) as [E|_]; [lia|].
  set (count' := N.pred count).
  set (accum' := N.lor accum ((v * 2 ^ ((count' * 32) mod 64)) mod W64)).
  assert (St : exists ul' acc',
    (if count' mod 2 =? 0
     then let* ul' := store_opt ul (count' / 2) accum' in Ok (ul', 0)
     else Ok (ul, accum')) = Ok (ul', acc') /\ length ul' = length ul).
  { destruct (count' mod 2 =? 0); [|eauto].
    destruct (store_opt_ok ul (count' / 2) accum') as [ul' [-> Hl']].
    - rewrite Hul. unfold count'.
      assert (N.pred count / 2 < (count0 + 1) / 2); [|assumption].
      apply N.div_lt_upper_bound; [discriminate|].
      pose proof (N.div_mod (count0 + 1) 2 ltac:(discriminate)).
      pose proof (N.mod_upper_bound (count0 + 1) 2 ltac:(discriminate)). lia.
    - cbn [bind]. eauto. }
  destruct St as [ul' [acc' [-> Hl']]]. cbn [bind].
  destruct (cstring_rd s n e Hs) as [nc [Hnc Znc]]; [lia|]. unfold rdr at 1. rewrite Hnc. cbn [bind].
  destruct (N.eqb_spec nc COMMA) as [->|Hncc]; cbn [negb].
  - assert (e <> n). { intros E. apply Znc in E. discriminate. }
    assert (Hcm : 1 + commas_from s (N.succ e) <= N.pred count).
    { (* one comma at e is consumed *)
      destruct (commas_step s n e Hs) as [c' [Hc' E]]; [lia|].
      rewrite Hnc in Hc'. injection Hc' as <-. rewrite N.eqb_refl in E.
      pose proof (commas_mono s n cur e Hs ltac:(lia)). lia. }
    apply IH; unfold count'; try lia.
    all: try (rewrite Hl'; exact Hul).
  - destruct (negb (nc =? 0) || (0 <? count')); eexists; (split; [reflexivity|discriminate]).
Qed.

(* the hypothesis excluding the two refuted classes: the string is not empty
   and does not start with a comma *)
Definition hwloc_sscanf_safe (s : list N) : Prop := exists b, rd s 0 = Some b /\ b <> 0 /\ b <> COMMA.

Lemma parse_hwloc_gen_total fixed zeroed dirty s n : cstring s n ->
  (fixed = false -> hwloc_sscanf_safe s) ->
  exists r, parse_hwloc_gen fixed zeroed dirty s = Ok r /\ r <> PAssert.
Proof.
  intros Hs Hsafe. unfold parse_hwloc_gen.
  pose proof (cstring_len s n Hs) as Hlen. unfold len in Hlen.
  (* the comma count equals 1 + commas of the whole string in both variants *)
  assert (Cc : count_commas (S (length s)) s (if fixed then 0 else 1) 1 = Ok (1 + commas_from s 0)).
  { destruct fixed.
    - apply (count_commas_spec s n Hs); lia.
    - destruct (Hsafe eq_refl) as [b [Hb [Nz Nc]]].
      assert (n <> 0). { intros ->. destruct Hs as [H0 _]. congruence. }
      rewrite (count_commas_spec s n Hs) by lia.
      destruct (commas_step s n 0 Hs) as [b' [Hb' E]]; [lia|]. rewrite Hb in Hb'. injection Hb' as <-.
      apply N.eqb_neq in Nc. rewrite Nc in E. rewrite E. reflexivity. }
  rewrite Cc. cbn [bind].
  destruct (has_prefix_total "0xf...f" s n 0 no_nul_lit_inf Hs) as [pfx [Hpe Hp]]; [lia|].
  rewrite Hpe. cbn [bind].
  match goal with |- exists r, bind ?X _ = Ok r /\ _ =>
    assert (Hd : exists hd, X = Ok hd /\
      match hd with None => True
      | Some (cur, _, count) => cur <= n /\ 1 + commas_from s cur <= count end) end.
  { destruct pfx.
    - specialize (Hp eq_refl). change (len (bytes_of_string "0xf...f")) with 7 in Hp.
      destruct (cstring_rd s n 7 Hs) as [c [Hc Zc]]; [lia|]. unfold rdr. rewrite Hc. cbn [bind].
      destruct (N.eqb_spec c COMMA) as [->|]; cbn [negb]; eexists; (split; [reflexivity|]); [|exact I].
      cbv beta iota.
      assert (7 <> n). { intros E. apply Zc in E. discriminate. }
      split; [lia|].
      (* commas_from 0 >= 1 + commas_from 8 *)
      destruct (commas_step s n 7 Hs) as [c' [Hc' E]]; [lia|]. rewrite Hc in Hc'. injection Hc' as <-.
      rewrite N.eqb_refl in E. change (N.succ 7) with 8 in E.
      pose proof (commas_mono s n 0 7 Hs ltac:(lia)). lia.
    - eexists. split; [reflexivity|]. cbv beta iota. split; lia. }
  destruct Hd as [hd [-> Hhd]]. cbn [bind].
  destruct hd as [[[cur infinite] count]|]; [|eexists; split; [reflexivity|discriminate]].
  destruct Hhd as [Hcur Hcnt].
  destruct (hwloc_loop_total zeroed s n count Hs (S (length s)) cur count
              (if infinite && negb (count mod 2 =? 0) then HI32MASK else 0)
              (repeat (if zeroed then Some 0 else None) (N.to_nat ((count + 1) / 2)))) as [e [-> Hne]]; try lia.
  - rewrite repeat_length. lia.
  - cbn [bind]. destruct e; try (eexists; split; [reflexivity|discriminate]). congruence.
Qed.

(* ---------- is the accepted value a function of the string? ---------- *)
(* code at eea9042: a trailing comma leaves ulongs[0] as it was *)
Lemma sscanf_trailing_comma_stale dirty :
  parse_hwloc_gen true false dirty (cstr "0x1,") = Ok (PSet (BM [dirty] false)).
Proof. vm_compute. reflexivity. Qed.

Definition all_some (ul : list (option N)) : Prop := Forall (fun o => o <> None) ul.
Lemma store_opt_all_some ul i v ul' : all_some ul -> store_opt ul i v = Ok ul' -> all_some ul'.
Proof.
  unfold store_opt, all_some. intros H E. destruct (i <? N.of_nat (length ul)); [|discriminate].
  injection E as <-. apply Forall_app. split.
  - rewrite <- (firstn_skipn (N.to_nat i) ul) in H. apply Forall_app in H. tauto.
  - constructor; [discriminate|].
    rewrite <- (firstn_skipn (S (N.to_nat i)) ul) in H. apply Forall_app in H. tauto.
Qed.
Lemma or_store_all_some ul i v ul' : all_some ul -> or_store ul i v = Ok ul' -> all_some ul'.
Proof.
  unfold or_store. intros H E. destruct (nth_error ul (N.to_nat i)); [|discriminate].
  eapply store_opt_all_some; eauto.
Qed.

Lemma hwloc_loop_all_some zeroed s : forall fuel cur count accum ul ul',
  all_some ul -> hwloc_sscanf_loop zeroed fuel s cur count accum ul = Ok (LDone ul') -> all_some ul'.
Proof.
  induction fuel as [|fuel IH]; intros cur count accum ul ul' Hul E; [discriminate|].
  cbn [hwloc_sscanf_loop] in E.
  destruct (rdr s cur) as [c|]; [|discriminate]. cbn [bind] in E.
  destruct (c =? 0).
  { destruct (zeroed && negb (accum =? 0) && (0 <? count)).
    - destruct (or_store ul (N.pred count / 2) accum) as [u|] eqn:Eo; [|discriminate].
      cbn [bind] in E. injection E as <-. eapply or_store_all_some; eauto.
    - injection E as <-. exact Hul. }
  destruct (strtoul s cur 16) as [[v e]|]; [|discriminate]. cbn [bind] in E.
  destruct (count =? 0); [discriminate|].
  match type of E with context [if ?b then _ else Ok (ul, ?a)] =>
    destruct b; [destruct (store_opt ul (N.pred count / 2) a) as [u|] eqn:Es; [|discriminate]|] end;
  cbn [bind] in E.
  - assert (Hu : all_some u) by (eapply store_opt_all_some; eauto).
    destruct (rdr s e) as [nc|]; [|discriminate]. cbn [bind] in E.
    destruct (negb (nc =? COMMA)).
    + destruct (negb (nc =? 0) || (0 <? N.pred count)); [discriminate|]. injection E as <-. exact Hu.
    + eapply IH; eauto.
  - destruct (rdr s e) as [nc|]; [|discriminate]. cbn [bind] in E.
    destruct (negb (nc =? COMMA)).
    + destruct (negb (nc =? 0) || (0 <? N.pred count)); [discriminate|]. injection E as <-. exact Hul.
    + eapply IH; eauto.
Qed.

Lemma map_default_all_some d1 d2 ul : all_some ul ->
  map (fun o => match o with Some w => w | None => d1 end) ul =
  map (fun o => match o with Some w => w | None => d2 end) ul.
Proof.
  induction 1 as [|o ul Ho _ IH]; [reflexivity|]. simpl. rewrite IH. destruct o; [reflexivity|congruence].
Qed.

(* after patches/fix-C04-sscanf-unwritten-words.diff the result does not depend on
   what the bitmap held before *)
Lemma parse_hwloc_zeroed_deterministic fixed d1 d2 s :
  parse_hwloc_gen fixed true d1 s = parse_hwloc_gen fixed true d2 s.
Proof.
  unfold parse_hwloc_gen.
  destruct (count_commas (S (length s)) s (if fixed then 0 else 1) 1) as [count|]; [|reflexivity]. cbn [bind].
  destruct (has_prefix "0xf...f" s 0) as [pfx|]; [|reflexivity]. cbn [bind].
  match goal with |- bind ?X _ = _ => destruct X as [[[[cur infinite] cnt]|]|] end; try reflexivity.
  cbn [bind].
  match goal with |- bind ?X _ = _ => destruct X as [[ul| |]|] eqn:E end; try reflexivity.
  cbn [bind]. do 3 f_equal. apply map_default_all_some.
  eapply hwloc_loop_all_some; [|exact E].
  unfold all_some. apply Forall_forall. intros o Ho. apply repeat_spec in Ho. subst. discriminate.
Qed.

(* ---------- list printer: the fuel is always enough ---------- *)
Lemma bs_next_some s from b : bs_next s from = Some b -> mem b s = true /\ from <= b.
Proof.
  unfold bs_next. intros H. apply bs_first_some in H. destruct H as [H _].
  rewrite mem_inter, mem_from in H. apply andb_true_iff in H. destruct H as [H1 H2].
  apply N.leb_le in H2. auto.
Qed.
Lemma mem_above_size s i : N.size (fin s) <= i -> mem i s = inf s.
Proof.
  intros H. unfold mem. destruct (fin s) as [|p] eqn:E.
  - rewrite N.bits_0. apply xorb_false_l.
  - rewrite N.bits_above_log2; [apply xorb_false_l|].
    rewrite N.size_log2 in H by discriminate. lia.
Qed.

Lemma list_loop_fuel s : forall fuel from nc,
  (N.to_nat (N.succ (N.size (fin s)) - from) < fuel)%nat -> list_loop fuel s from nc <> None.
Proof.
  induction fuel as [|fuel IH]; intros from nc Hf; [lia|].
  cbn [list_loop]. destruct (bs_next s from) as [b|] eqn:Eb; [|discriminate].
  apply bs_next_some in Eb. destruct Eb as [Mb Hb].
  destruct (bs_next_unset s (N.succ b)) as [e|] eqn:Ee; [|discriminate].
  unfold bs_next_unset in Ee. apply bs_next_some in Ee. destruct Ee as [Me He].
  rewrite mem_compl in Me. apply negb_true_iff in Me.
  (* b is a member, e > b is not: both cannot lie above the size of fin *)
  assert (Hlt : from < N.succ (N.size (fin s))).
  { destruct (N.lt_ge_cases from (N.succ (N.size (fin s)))) as [|Hge]; [assumption|exfalso].
    rewrite mem_above_size in Mb by lia. rewrite mem_above_size in Me by lia. congruence. }
  specialize (IH e true).
  destruct (list_loop fuel s e true) eqn:El; [discriminate|].
  exfalso. apply IH; [lia|reflexivity].
Qed.

Lemma pieces_list_some s : exists ps, pieces_list s = Some ps.
Proof.
  unfold pieces_list. destruct (list_loop (list_fuel s) s 0 false) eqn:E; [eauto|].
  exfalso. revert E. apply list_loop_fuel. unfold list_fuel. lia.
Qed.

Lemma print_contract_list_l b init :
  exists text, text_list (abs b) = Some text /\ contract text init (print_list b init).
Proof.
  unfold text_list, print_list. destruct (pieces_list_some (abs b)) as [ps ->].
  exists (concat ps). split; [reflexivity|]. apply snprintf_pieces_contract.
Qed.


(* ---------- executable forms of round trip / stability, and bounded sweeps ---------- *)
Definition DIRTY : N := 11936128518282651045.      (* 0xa5a5a5a5a5a5a5a5, as in the harness *)

Definition rt_hwloc_ok (b : bm) : bool :=
  match parse_hwloc DIRTY (text_hwloc b ++ [0]) with
  | Ok (PSet b') => bs_eqb (abs b') (abs b) && bm_wfb b'
  | _ => false
  end.
Definition rt_taskset_ok (b : bm) : bool :=
  match parse_taskset DIRTY (text_taskset b ++ [0]) with
  | Ok (PSet b') => bs_eqb (abs b') (abs b) && bm_wfb b'
  | _ => false
  end.
Definition rt_list_ok (s : bset) : bool :=
  match text_list s with
  | Some t => match parse_list (t ++ [0]) with Ok (Some s') => bs_eqb s' s | _ => false end
  | None => false
  end.

(* accepted strings are stable under print-then-parse *)
Definition stable_hwloc_ok (s : list N) : bool :=
  match parse_hwloc DIRTY s with Ok (PSet b) => rt_hwloc_ok b | _ => true end.
Definition stable_taskset_ok (s : list N) : bool :=
  match parse_taskset DIRTY s with Ok (PSet b) => rt_taskset_ok b | _ => true end.
Definition stable_list_ok (s : list N) : bool :=
  match parse_list s with Ok (Some b) => rt_list_ok b | _ => true end.

(* all lists of length <= k over a pool *)
Fixpoint lists_upto {A} (k : nat) (pool : list A) : list (list A) :=
  match k with
  | O => [[]]
  | S k' => [] :: flat_map (fun l => map (fun x => x :: l) pool) (lists_upto k' pool)
  end.
Lemma In_lists_upto {A} (pool : list A) : forall k l,
  Forall (fun x => In x pool) l -> (length l <= k)%nat -> In l (lists_upto k pool).
Proof.
  induction k as [|k IH]; intros l Hl Hk.
  - destruct l; [now left|simpl in Hk; lia].
  - destruct l as [|x l]; [now left|]. right. inversion Hl as [|x' l' Hx Hl']; subst.
    apply in_flat_map. exists l. split; [apply IH; [exact Hl'|simpl in Hk; lia]|].
    apply in_map_iff. now exists x.
Qed.

Definition WORD_POOL : list N :=
  [0; 1; FULL; FULL32; HI32MASK; 2147483648; 4294967296; 9223372036854775808;
   18446744073709551614; 18446744069414584321; 8589934591; DIRTY].
Definition BM_DOMAIN : list bm :=
  flat_map (fun ws => [BM ws false; BM ws true]) (lists_upto 3 WORD_POOL).

Lemma In_BM_DOMAIN b : Forall (fun w => In w WORD_POOL) (bm_words b) -> (length (bm_words b) <= 3)%nat ->
  In b BM_DOMAIN.
Proof.
  intros Hw Hl. unfold BM_DOMAIN. apply in_flat_map. exists (bm_words b).
  split; [now apply In_lists_upto|]. destruct b as [ws [|]]; simpl; auto.
Qed.

Lemma rt_sweep :
  forallb (fun b => rt_hwloc_ok b && rt_taskset_ok b && rt_list_ok (abs b)) BM_DOMAIN = true.
Proof. vm_compute. reflexivity. Qed.

Lemma roundtrip_bounded b :
  Forall (fun w => In w WORD_POOL) (bm_words b) -> (length (bm_words b) <= 3)%nat ->
  rt_hwloc_ok b = true /\ rt_taskset_ok b = true /\ rt_list_ok (abs b) = true.
Proof.
  intros Hw Hl. pose proof rt_sweep as H. rewrite forallb_forall in H.
  specialize (H b (In_BM_DOMAIN b Hw Hl)).
  apply andb_true_iff in H. destruct H as [H H3]. apply andb_true_iff in H. tauto.
Qed.

(* '0' 'x' 'f' '.' ',' '1' '-' ' ' *)
Definition CHAR_POOL : list N := [48; 120; 102; 46; 44; 49; 45; 32].
(* list format: a '-' that strtoul would take as a sign (not preceded by a digit)
   yields indexes near 2^32 or 2^64: legal for the C code (which then allocates
   512MB) but not computable inside Coq; the bounded sweep leaves them out *)
Fixpoint safe_list_from (prev_digit : bool) (p : list N) : bool :=
  match p with
  | [] => true
  | c :: t => if (c =? 45) && negb prev_digit then false else safe_list_from (isdigit c) t
  end.
Definition safe_list := safe_list_from false.

Lemma stable_sweep :
  forallb (fun p => let s := p ++ [0] in
                    (match parse_hwloc DIRTY s with Ok PAssert | Oob => true | _ => stable_hwloc_ok s end)
                    && stable_taskset_ok s && (if safe_list p then stable_list_ok s else true))
          (lists_upto 5 CHAR_POOL) = true.
Proof. vm_compute. reflexivity. Qed.

Lemma stable_bounded p :
  Forall (fun c => In c CHAR_POOL) p -> (length p <= 5)%nat ->
  stable_hwloc_ok (p ++ [0]) = true /\ stable_taskset_ok (p ++ [0]) = true /\
  (safe_list p = true -> stable_list_ok (p ++ [0]) = true).
Proof.
  intros Hc Hl. pose proof stable_sweep as H. rewrite forallb_forall in H.
  specialize (H p (In_lists_upto CHAR_POOL 5 p Hc Hl)). cbv zeta in H.
  apply andb_true_iff in H. destruct H as [H H3]. apply andb_true_iff in H. destruct H as [H1 H2].
  split; [|split; [exact H2|intros Hs; now rewrite Hs in H3]]. unfold stable_hwloc_ok in *.
  destruct (parse_hwloc DIRTY (p ++ [0])) as [[b| |]|]; auto.
Qed.
