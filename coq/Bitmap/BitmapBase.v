(* C03 proofs, part 1: arrays, loops, well-formedness, the abstraction function
   and its word-level characterisation. *)
From Coq Require Import NArith ZArith Bool List Lia ZifyBool ZifyN ZifyNat.
From HV Require Import Base.BSet Bitmap.BitmapModel.
Import ListNotations.
Local Open Scope N_scope.
Ltac Zify.zify_post_hook ::= Z.div_mod_to_equations.

Ltac brk :=
  repeat match goal with
  | |- context[N.ltb ?a ?b] => destruct (N.ltb_spec a b)
  | |- context[N.leb ?a ?b] => destruct (N.leb_spec a b)
  | |- context[N.eqb ?a ?b] => destruct (N.eqb_spec a b)
  end.

(* ---------------- arrays ---------------- *)
Lemma setw_nat_length ws n v : length (setw_nat ws n v) = length ws.
Proof. revert n; induction ws as [|w t IH]; intros [|n]; simpl; auto. Qed.
Lemma setw_length ws i v : length (setw ws i v) = length ws.
Proof. apply setw_nat_length. Qed.

Lemma nth_setw_nat ws n m v d : (n < length ws)%nat ->
  nth m (setw_nat ws n v) d = if Nat.eqb m n then v else nth m ws d.
Proof.
  revert n m; induction ws as [|w t IH]; intros [|n] [|m] H; simpl in *; try lia; auto.
  apply IH; lia.
Qed.
Lemma nth_setw_nat_oob ws n v : (length ws <= n)%nat -> setw_nat ws n v = ws.
Proof.
  revert n; induction ws as [|w t IH]; intros [|n] H; simpl in *; try lia; auto.
  f_equal; apply IH; lia.
Qed.

Lemma getw_setw ws i v j : i < N.of_nat (length ws) ->
  getw (setw ws i v) j = if j =? i then v else getw ws j.
Proof.
  intros H. unfold getw, setw. rewrite nth_setw_nat by lia.
  destruct (Nat.eqb_spec (N.to_nat j) (N.to_nat i)); brk; try lia; reflexivity.
Qed.

Lemma Forall_setw (P : N -> Prop) ws i v : Forall P ws -> P v -> Forall P (setw ws i v).
Proof.
  unfold setw. generalize (N.to_nat i) as n. intros n H Hv; revert n.
  induction H as [|w t Hw Ht IH]; intros [|n]; simpl; constructor; auto.
Qed.

Lemma getw_in (P : N -> Prop) ws i : Forall P ws -> i < N.of_nat (length ws) -> P (getw ws i).
Proof.
  intros H Hi. unfold getw. rewrite Forall_forall in H. apply H, nth_In. lia.
Qed.

Lemma getw_oob ws i : N.of_nat (length ws) <= i -> getw ws i = POISON.
Proof. intros H. unfold getw. apply nth_overflow. lia. Qed.

Lemma nth_firstn_lt' {A} (l : list A) n m d : (m < n)%nat -> nth m (firstn n l) d = nth m l d.
Proof.
  revert n m; induction l as [|x t IH]; intros [|n] [|m] H; simpl; try lia; auto.
  apply IH; lia.
Qed.
Lemma nth_repeat_lt' {A} (x d : A) n m : (m < n)%nat -> nth m (repeat x n) d = x.
Proof. revert m; induction n as [|n IH]; intros [|m] H; simpl; try lia; auto. apply IH; lia. Qed.

Lemma firstn_In' {A} (l : list A) n x : In x (firstn n l) -> In x l.
Proof. revert n; induction l as [|y t IH]; intros [|n] H; simpl in *; auto; try tauto. destruct H; eauto. Qed.

Lemma resize_length ws n f : length (resize ws n f) = N.to_nat n.
Proof. unfold resize. rewrite app_length, firstn_length, repeat_length. lia. Qed.

Lemma getw_resize ws n f j :
  getw (resize ws n f) j =
  if j <? n then (if j <? N.of_nat (length ws) then getw ws j else f) else POISON.
Proof.
  unfold getw, resize. brk.
  - rewrite app_nth1 by (rewrite firstn_length; lia). apply nth_firstn_lt'. lia.
  - rewrite app_nth2 by (rewrite firstn_length; lia).
    rewrite firstn_length. rewrite nth_repeat_lt'; [reflexivity|]. lia.
  - apply nth_overflow. rewrite app_length, firstn_length, repeat_length. lia.
Qed.

Lemma Forall_resize (P : N -> Prop) ws n f : Forall P ws -> P f -> Forall P (resize ws n f).
Proof.
  intros H Hf. unfold resize. apply Forall_app. split.
  - apply Forall_forall. intros x Hx. rewrite Forall_forall in H. apply H. eapply firstn_In'; eauto.
  - apply Forall_forall. intros x Hx. apply repeat_spec in Hx. now subst.
Qed.

(* ---------------- ranges ---------------- *)
Lemma range_In lo hi i : In i (range lo hi) <-> lo <= i < hi.
Proof.
  unfold range. rewrite in_map_iff. split.
  - intros [n [<- Hn]]. apply in_seq in Hn. lia.
  - intros H. exists (N.to_nat i). split; [apply N2Nat.id|]. apply in_seq. lia.
Qed.
Lemma range_nil lo hi : hi <= lo -> range lo hi = [].
Proof. intros H. unfold range. replace (N.to_nat hi - N.to_nat lo)%nat with 0%nat by lia. reflexivity. Qed.
Lemma range_cons lo hi : lo < hi -> range lo hi = lo :: range (lo + 1) hi.
Proof.
  intros H. unfold range.
  replace (N.to_nat hi - N.to_nat lo)%nat with (S (N.to_nat hi - N.to_nat (lo + 1)))%nat by lia.
  cbn [seq map]. rewrite N2Nat.id. f_equal. f_equal.
  replace (S (N.to_nat lo)) with (N.to_nat (lo + 1)) by lia. reflexivity.
Qed.
Lemma range_snoc lo hi : lo < hi -> range lo hi = range lo (hi - 1) ++ [hi - 1].
Proof.
  intros H. unfold range.
  replace (N.to_nat hi - N.to_nat lo)%nat with (S (N.to_nat (hi - 1) - N.to_nat lo))%nat by lia.
  rewrite seq_S, map_app. cbn [map]. f_equal. f_equal. lia.
Qed.
Lemma range_length lo hi : length (range lo hi) = (N.to_nat hi - N.to_nat lo)%nat.
Proof. unfold range. now rewrite map_length, seq_length. Qed.

(* induction on hi - lo *)
Lemma range_ind (P : N -> N -> Prop) :
  (forall lo hi, hi <= lo -> P lo hi) ->
  (forall lo hi, lo < hi -> P (lo + 1) hi -> P lo hi) ->
  forall lo hi, P lo hi.
Proof.
  intros H0 HS lo hi.
  remember (N.to_nat hi - N.to_nat lo)%nat as d eqn:Ed. revert lo Ed.
  induction d as [|d IH]; intros lo Ed.
  - apply H0. lia.
  - apply HS; [lia|]. apply IH. lia.
Qed.

(* ---------------- for_wr ---------------- *)
Lemma wr_fields r i v : count (wr r i v) = count r /\ alloc (wr r i v) = alloc r /\ infinite (wr r i v) = infinite r
  /\ length (words (wr r i v)) = length (words r).
Proof. unfold wr, with_words; simpl. rewrite setw_length. auto. Qed.

Lemma for_wr_spec r lo hi f :
  hi <= N.of_nat (length (words r)) ->
  let r' := for_wr r lo hi f in
  count r' = count r /\ alloc r' = alloc r /\ infinite r' = infinite r /\
  length (words r') = length (words r) /\
  forall j, getw (words r') j = if (lo <=? j) && (j <? hi) then f j else getw (words r) j.
Proof.
  unfold for_wr. revert r. pattern lo, hi. apply range_ind; clear lo hi.
  - intros lo hi Hle r Hhi. rewrite range_nil by assumption. simpl. repeat split; auto.
    intros j. brk; simpl; auto; lia.
  - intros lo hi Hlt IH r Hhi. rewrite range_cons by assumption. simpl.
    destruct (wr_fields r lo (f lo)) as (Hc & Ha & Hi & Hl).
    specialize (IH (wr r lo (f lo))). rewrite Hl in IH. specialize (IH Hhi).
    simpl in IH. destruct IH as (Ic & Ia & Ii & Il & Ig).
    repeat split; try congruence.
    intros j. rewrite Ig. unfold wr, with_words; simpl. rewrite getw_setw by lia.
    brk; simpl; try lia; subst; auto.
Qed.

Lemma for_wr_Forall (P : N -> Prop) r lo hi f :
  Forall P (words r) -> (forall j, lo <= j < hi -> P (f j)) -> Forall P (words (for_wr r lo hi f)).
Proof.
  unfold for_wr. revert r. pattern lo, hi. apply range_ind; clear lo hi.
  - intros lo hi Hle r H _. rewrite range_nil by assumption. exact H.
  - intros lo hi Hlt IH r H Hf. rewrite range_cons by assumption. simpl. apply IH.
    + unfold wr, with_words; simpl. apply Forall_setw; auto. apply Hf. lia.
    + intros j Hj. apply Hf. lia.
Qed.

(* ---------------- find loops ---------------- *)
Lemma for_find_none {A} lo hi (f : N -> option A) :
  for_find lo hi f = None <-> forall i, lo <= i < hi -> f i = None.
Proof.
  unfold for_find. pattern lo, hi. apply range_ind; clear lo hi.
  - intros lo hi H. rewrite range_nil by assumption. simpl. split; auto. intros _ i Hi. lia.
  - intros lo hi Hlt IH. rewrite range_cons by assumption. simpl. destruct (f lo) eqn:E.
    + split; [discriminate|]. intros H. rewrite H in E by lia. discriminate.
    + rewrite IH. split; intros H i Hi.
      * destruct (N.eq_dec i lo) as [->|]; auto. apply H. lia.
      * apply H. lia.
Qed.

Lemma for_find_some {A} lo hi (f : N -> option A) a :
  for_find lo hi f = Some a <->
  exists i, lo <= i < hi /\ f i = Some a /\ forall j, lo <= j < i -> f j = None.
Proof.
  unfold for_find. pattern lo, hi. apply range_ind; clear lo hi.
  - intros lo hi H. rewrite range_nil by assumption. simpl. split; [discriminate|].
    intros (i & Hi & _). lia.
  - intros lo hi Hlt IH. rewrite range_cons by assumption. simpl. destruct (f lo) eqn:E.
    + split.
      * intros H. exists lo. repeat split; try lia. congruence.
      * intros (i & Hi & Hf & Hn). destruct (N.eq_dec i lo) as [->|]; [congruence|].
        rewrite Hn in E by lia. discriminate.
    + rewrite IH. split; intros (i & Hi & Hf & Hn); exists i; repeat split; auto; try lia.
      * intros j Hj. destruct (N.eq_dec j lo) as [->|]; auto. apply Hn. lia.
      * destruct (N.eq_dec i lo) as [->|]; [congruence|lia].
      * intros j Hj. apply Hn. lia.
Qed.

Lemma rev_range_snoc lo hi : lo < hi -> rev (range lo hi) = (hi - 1) :: rev (range lo (hi - 1)).
Proof. intros H. rewrite (range_snoc lo hi H), rev_app_distr. reflexivity. Qed.

Lemma range_ind_hi (P : N -> N -> Prop) :
  (forall lo hi, hi <= lo -> P lo hi) ->
  (forall lo hi, lo < hi -> P lo (hi - 1) -> P lo hi) ->
  forall lo hi, P lo hi.
Proof.
  intros H0 HS lo hi.
  remember (N.to_nat hi - N.to_nat lo)%nat as d eqn:Ed. revert hi Ed.
  induction d as [|d IH]; intros hi Ed.
  - apply H0. lia.
  - apply HS; [lia|]. apply IH. lia.
Qed.

Lemma for_find_down_none {A} lo hi (f : N -> option A) :
  for_find_down lo hi f = None <-> forall i, lo <= i < hi -> f i = None.
Proof.
  unfold for_find_down. pattern lo, hi. apply range_ind_hi; clear lo hi.
  - intros lo hi H. rewrite range_nil by assumption. simpl. split; auto. intros _ i Hi. lia.
  - intros lo hi Hlt IH. rewrite rev_range_snoc by assumption. simpl. destruct (f (hi - 1)) eqn:E.
    + split; [discriminate|]. intros H. rewrite H in E by lia. discriminate.
    + rewrite IH. split; intros H i Hi.
      * destruct (N.eq_dec i (hi - 1)) as [->|]; auto. apply H. lia.
      * apply H. lia.
Qed.

Lemma for_find_down_some {A} lo hi (f : N -> option A) a :
  for_find_down lo hi f = Some a <->
  exists i, lo <= i < hi /\ f i = Some a /\ forall j, i < j < hi -> f j = None.
Proof.
  unfold for_find_down. pattern lo, hi. apply range_ind_hi; clear lo hi.
  - intros lo hi H. rewrite range_nil by assumption. simpl. split; [discriminate|].
    intros (i & Hi & _). lia.
  - intros lo hi Hlt IH. rewrite rev_range_snoc by assumption. simpl. destruct (f (hi - 1)) eqn:E.
    + split.
      * intros H. exists (hi - 1). repeat split; try lia. congruence.
      * intros (i & Hi & Hf & Hn). destruct (N.eq_dec i (hi - 1)) as [->|]; [congruence|].
        rewrite Hn in E by lia. discriminate.
    + rewrite IH. split; intros (i & Hi & Hf & Hn); exists i; repeat split; auto; try lia.
      * intros j Hj. destruct (N.eq_dec j (hi - 1)) as [->|]; auto. apply Hn. lia.
      * destruct (N.eq_dec i (hi - 1)) as [->|]; [congruence|lia].
      * intros j Hj. apply Hn. lia.
Qed.

(* ---------------- well-formedness ---------------- *)
Definition MAXC : N := 33554431.    (* 2^25 - 1: every index below 64*MAXC fits a C int *)
Definition IDXMAX : N := 2147483584. (* 2^31 - 64 *)

Record wf (r : repr) : Prop := WF {
  wf_count1 : 1 <= count r;
  wf_countmax : count r <= MAXC;
  wf_alloc : count r <= alloc r;
  wf_len : N.of_nat (length (words r)) = count r;
  wf_words : Forall (fun w => w < U64) (words r)
}.

Lemma FULL_lt : FULL < U64. Proof. reflexivity. Qed.
Lemma ZEROW_lt : ZEROW < U64. Proof. reflexivity. Qed.
Lemma inf_word_lt r : inf_word r < U64.
Proof. unfold inf_word. destruct (infinite r); reflexivity. Qed.

Lemma rd_lt r i : wf r -> rd r i < U64.
Proof.
  intros H. unfold rd. brk.
  - apply (getw_in (fun w => w < U64)); [apply H|]. rewrite (wf_len r H). assumption.
  - destruct (infinite r); reflexivity.
Qed.

Lemma rd_in r i : i < count r -> rd r i = getw (words r) i.
Proof. intros H. unfold rd. brk; [reflexivity|lia]. Qed.
Lemma rd_out r i : count r <= i -> rd r i = inf_word r.
Proof. intros H. unfold rd, inf_word. brk; [lia|reflexivity]. Qed.

(* ---------------- wval / abs ---------------- *)
Lemma U64_pow : U64 = 2 ^ 64. Proof. reflexivity. Qed.

Lemma wval_testbit ws k : Forall (fun w => w < U64) ws ->
  N.testbit (wval ws) k =
  if k / 64 <? N.of_nat (length ws) then N.testbit (getw ws (k / 64)) (k mod 64) else false.
Proof.
  intros H. revert k. induction H as [|w t Hw Ht IH]; intros k.
  - cbn [wval length]. rewrite N.bits_0. cbn [N.of_nat]. destruct (N.ltb_spec (k / 64) 0); [lia|reflexivity].
  - cbn [wval length]. rewrite Nat2N.inj_succ.
    destruct (N.lt_ge_cases k 64) as [Hk|Hk].
    + replace (k / 64) with 0 by (symmetry; apply N.div_small; assumption).
      rewrite N.mod_small by assumption.
      replace (0 <? N.succ (N.of_nat (length t))) with true by (symmetry; apply N.ltb_lt; lia).
      unfold getw; simpl nth.
      rewrite <- (N.mod_pow2_bits_low (w + U64 * wval t) 64 k Hk).
      rewrite U64_pow, N.mul_comm, N.mod_add by (apply N.pow_nonzero; discriminate).
      rewrite N.mod_small by (rewrite <- U64_pow; assumption). reflexivity.
    + replace k with ((k - 64) + 64) at 1 by lia.
      rewrite <- N.div_pow2_bits.
      rewrite U64_pow, N.mul_comm, N.div_add by (apply N.pow_nonzero; discriminate).
      rewrite N.div_small by (rewrite <- U64_pow; assumption). rewrite N.add_0_l.
      rewrite IH.
      assert (E1 : k / 64 = (k - 64) / 64 + 1).
      { replace k with ((k - 64) + 1 * 64) at 1 by lia. rewrite N.div_add by discriminate. reflexivity. }
      assert (E2 : k mod 64 = (k - 64) mod 64).
      { replace k with ((k - 64) + 1 * 64) at 1 by lia. rewrite N.mod_add by discriminate. reflexivity. }
      rewrite E1, E2.
      destruct (N.ltb_spec ((k - 64) / 64) (N.of_nat (length t)));
      destruct (N.ltb_spec ((k - 64) / 64 + 1) (N.succ (N.of_nat (length t)))); try lia; try reflexivity.
      unfold getw. replace (N.to_nat ((k - 64) / 64 + 1)) with (S (N.to_nat ((k - 64) / 64))) by lia.
      reflexivity.
Qed.

Lemma testbit_FULL j : N.testbit FULL j = (j <? 64).
Proof.
  unfold FULL. brk.
  - apply N.ones_spec_low; assumption.
  - apply N.ones_spec_high; assumption.
Qed.

Lemma div64_lt k c : k / 64 < c <-> k < 64 * c.
Proof.
  pose proof (N.div_mod k 64 ltac:(discriminate)) as E.
  pose proof (N.mod_lt k 64 ltac:(discriminate)) as M. split; intros; nia.
Qed.

(* the word-level characterisation of membership *)
Theorem mem_abs r k : wf r -> mem k (abs r) = N.testbit (rd r (k / 64)) (k mod 64).
Proof.
  intros H. pose proof (wf_len r H) as Hl. pose proof (wf_words r H) as Hw.
  assert (Hm : k mod 64 < 64) by (apply N.mod_lt; discriminate).
  pose proof (div64_lt k (count r)) as Hd.
  unfold abs, rd, mem. destruct (infinite r); cbn [fin inf].
  - rewrite N.lxor_spec, wval_testbit by assumption. rewrite Hl.
    destruct (N.ltb_spec (k / 64) (count r)) as [Hk|Hk].
    + rewrite N.ones_spec_low by (unfold BPL; lia).
      destruct (N.testbit (getw (words r) (k / 64)) (k mod 64)); reflexivity.
    + rewrite N.ones_spec_high by (unfold BPL; lia). rewrite testbit_FULL.
      apply N.ltb_lt in Hm. rewrite Hm. reflexivity.
  - rewrite wval_testbit by assumption. rewrite Hl, xorb_false_r.
    destruct (N.ltb_spec (k / 64) (count r)); [reflexivity|]. unfold ZEROW. now rewrite N.bits_0.
Qed.

Lemma bits_high_lt a j : a < U64 -> 64 <= j -> N.testbit a j = false.
Proof.
  intros Ha H. destruct (N.eq_dec a 0) as [->|Hz]; [apply N.bits_0|].
  apply N.bits_above_log2. rewrite U64_pow in Ha. apply N.log2_lt_pow2 in Ha; lia.
Qed.
Lemma lt_U64_bits a : (forall j, 64 <= j -> N.testbit a j = false) -> a < U64.
Proof.
  intros H. destruct (N.eq_dec a 0) as [->|Hz]; [reflexivity|].
  rewrite U64_pow. apply N.log2_lt_pow2; [lia|].
  destruct (N.lt_ge_cases (N.log2 a) 64) as [|Hge]; [assumption|].
  specialize (H (N.log2 a) Hge). rewrite N.bit_log2 in H by assumption. discriminate.
Qed.

Lemma word_ext a b : a < U64 -> b < U64 -> (forall j, j < 64 -> N.testbit a j = N.testbit b j) -> a = b.
Proof.
  intros Ha Hb H. apply N.bits_inj. intros j. destruct (N.lt_ge_cases j 64) as [Hj|Hj]; [auto|].
  now rewrite !bits_high_lt.
Qed.

Lemma split64 i j : j < 64 -> (64 * i + j) / 64 = i /\ (64 * i + j) mod 64 = j.
Proof.
  intros H. split.
  - rewrite N.mul_comm, N.div_add_l by discriminate. rewrite N.div_small by assumption. lia.
  - rewrite N.add_comm, N.mul_comm, N.mod_add by discriminate. apply N.mod_small; assumption.
Qed.

Theorem abs_eq_iff r1 r2 : wf r1 -> wf r2 -> (abs r1 = abs r2 <-> forall i, rd r1 i = rd r2 i).
Proof.
  intros H1 H2. split.
  - intros E i. apply word_ext; try (apply rd_lt; assumption).
    intros j Hj. pose proof (mem_abs r1 (64 * i + j) H1) as M1. pose proof (mem_abs r2 (64 * i + j) H2) as M2.
    destruct (split64 i j Hj) as [E1 E2]. rewrite E1, E2 in *. congruence.
  - intros E. apply bs_ext. intros k. rewrite !mem_abs by assumption. now rewrite E.
Qed.

(* lifting a word-wise description of a result to the abstract operation *)
Lemma lift0 r (s : bset) : wf r ->
  (forall k, mem k s = N.testbit (rd r (k / 64)) (k mod 64)) -> abs r = s.
Proof. intros H E. apply bs_ext. intros k. now rewrite mem_abs, E. Qed.

Lemma lift1 r r1 (f : N -> N) (g : bool -> bool) (s : bset) :
  wf r -> wf r1 ->
  (forall i, rd r i = f (rd r1 i)) ->
  (forall a j, a < U64 -> j < 64 -> N.testbit (f a) j = g (N.testbit a j)) ->
  (forall k, mem k s = g (mem k (abs r1))) ->
  abs r = s.
Proof.
  intros H H1 E Hf Hs. apply bs_ext. intros k. rewrite Hs, !mem_abs, E, Hf; auto.
  - apply rd_lt; assumption.
  - apply N.mod_lt; discriminate.
Qed.

Lemma lift2 r r1 r2 (f : N -> N -> N) (g : bool -> bool -> bool) (s : bset) :
  wf r -> wf r1 -> wf r2 ->
  (forall i, rd r i = f (rd r1 i) (rd r2 i)) ->
  (forall a b j, a < U64 -> b < U64 -> j < 64 -> N.testbit (f a b) j = g (N.testbit a j) (N.testbit b j)) ->
  (forall k, mem k s = g (mem k (abs r1)) (mem k (abs r2))) ->
  abs r = s.
Proof.
  intros H H1 H2 E Hf Hs. apply bs_ext. intros k. rewrite Hs, !mem_abs, E, Hf; auto.
  - apply rd_lt; assumption.
  - apply rd_lt; assumption.
  - apply N.mod_lt; discriminate.
Qed.

(* word operations *)
Lemma wnot_spec a j : j < 64 -> N.testbit (wnot a) j = negb (N.testbit a j).
Proof. intros H. unfold wnot. apply N.lnot_spec_low. assumption. Qed.
Lemma wnot_high a j : a < U64 -> 64 <= j -> N.testbit (wnot a) j = false.
Proof. intros Ha H. unfold wnot. rewrite N.lnot_spec_high by assumption. now apply bits_high_lt. Qed.
Lemma wnot_lt a : a < U64 -> wnot a < U64.
Proof. intros Ha. apply lt_U64_bits. intros j Hj. apply wnot_high; assumption. Qed.
Lemma lor_lt a b : a < U64 -> b < U64 -> N.lor a b < U64.
Proof. intros Ha Hb. apply lt_U64_bits. intros j Hj. now rewrite N.lor_spec, !bits_high_lt. Qed.
Lemma land_lt a b : a < U64 -> N.land a b < U64.
Proof. intros Ha. apply lt_U64_bits. intros j Hj. now rewrite N.land_spec, (bits_high_lt a). Qed.
Lemma land_lt_r a b : b < U64 -> N.land a b < U64.
Proof. intros Hb. rewrite N.land_comm. now apply land_lt. Qed.
Lemma lxor_lt a b : a < U64 -> b < U64 -> N.lxor a b < U64.
Proof. intros Ha Hb. apply lt_U64_bits. intros j Hj. now rewrite N.lxor_spec, !bits_high_lt. Qed.
