(* C03 proofs, part 7: set_range / clr_range, including end = -1 and the
   (unsigned) conversions. *)
From Coq Require Import NArith ZArith Bool List Lia ZifyBool ZifyN ZifyNat.
From HV Require Import Base.BSet Bitmap.BitmapModel Bitmap.BitmapSpec Bitmap.BitmapBase Bitmap.BitmapOps
  Bitmap.BitmapQueries Bitmap.BitmapScan.
Import ListNotations.
Local Open Scope N_scope.
Ltac Zify.zify_post_hook ::= Z.div_mod_to_equations.

(* ---------------- the mask macros ---------------- *)
Lemma FROM_lt x : ULBIT_FROM x < U64.
Proof. unfold ULBIT_FROM. apply land_lt_r. apply FULL_lt. Qed.
Lemma FROM_bit x j : j < 64 -> N.testbit (ULBIT_FROM x) j = (x <=? j).
Proof.
  intros Hj. unfold ULBIT_FROM. rewrite N.land_spec, (testbit_FULL j).
  replace (j <? 64) with true by (symmetry; apply N.ltb_lt; assumption). rewrite andb_true_r.
  destruct (N.leb_spec x j).
  - rewrite N.shiftl_spec_high' by assumption. rewrite testbit_FULL. apply N.ltb_lt. lia.
  - apply N.shiftl_spec_low. assumption.
Qed.
Lemma TO_bit y j : y < 64 -> N.testbit (ULBIT_TO y) j = (j <=? y).
Proof.
  intros Hy. unfold ULBIT_TO, BPL. rewrite N.shiftr_spec', testbit_FULL.
  destruct (N.leb_spec j y); [apply N.ltb_lt|apply N.ltb_ge]; lia.
Qed.
Lemma TO_lt y : y < 64 -> ULBIT_TO y < U64.
Proof.
  intros Hy. apply lt_U64_bits. intros j Hj. rewrite TO_bit by assumption. apply N.leb_gt. lia.
Qed.
Lemma FROMTO_lt b e : e < 64 -> ULBIT_FROMTO b e < U64.
Proof. intros He. unfold ULBIT_FROMTO. apply land_lt. apply TO_lt. assumption. Qed.
Lemma FROMTO_bit b e j : e < 64 -> j < 64 -> N.testbit (ULBIT_FROMTO b e) j = (b <=? j) && (j <=? e).
Proof. intros He Hj. unfold ULBIT_FROMTO. rewrite N.land_spec, TO_bit, FROM_bit by assumption. apply andb_comm. Qed.

Section RangeOp.
Variable flag : bool.
Variable upd : N -> N -> N.
Variable fillw : N.
Hypothesis upd_lt : forall w m, w < U64 -> m < U64 -> upd w m < U64.
Hypothesis upd_bit : forall w m j, j < 64 -> N.testbit (upd w m) j = if N.testbit m j then flag else N.testbit w j.
Hypothesis fill_eq : fillw = infw flag.

Lemma fillw_lt : fillw < U64. Proof. rewrite fill_eq. apply infw_lt. Qed.

Lemma divmod_le b k : k / 64 = b / 64 -> (b mod 64 <=? k mod 64) = (b <=? k).
Proof.
  intros E. pose proof (N.div_mod k 64 ltac:(discriminate)). pose proof (N.div_mod b 64 ltac:(discriminate)).
  brk; lia.
Qed.

(* infinite range *)
Lemma range_inf_core r b : wf r -> b < IDXMAX ->
  let r1 := realloc_by_cpu_index r b in
  let bs := SUB_INDEX b in
  let r2 := wr r1 bs (upd (getw (words r1) bs) (ULBIT_FROM (SUB_ULBIT b))) in
  let r3 := for_wr r2 (bs + 1) (count r2) (fun _ => fillw) in
  let r' := with_inf r3 flag in
  wf r' /\ forall k, mem k (abs r') = if b <=? k then flag else mem k (abs r).
Proof.
  intros H Hb. pose proof (idx_bound b Hb) as Hn. cbv zeta.
  unfold realloc_by_cpu_index, SUB_INDEX, SUB_ULBIT, BPL.
  destruct (realloc_spec r (b / 64 + 1) H Hn) as (W1 & C1 & I1 & R1).
  set (r1 := realloc_by_ulongs r (b / 64 + 1)) in *.
  set (n := count r1) in *. assert (Hbs : b / 64 < n) by lia.
  pose proof (shape_of_wf _ W1) as S1. fold n in S1.
  assert (Hm : b mod 64 < 64) by (apply N.mod_lt; discriminate).
  destruct (wr_shape r1 n (b / 64) (upd (getw (words r1) (b / 64)) (ULBIT_FROM (b mod 64))) S1 Hbs) as (S2 & I2 & G2).
  { apply upd_lt; [apply getw_lt; assumption|apply FROM_lt]. }
  set (r2 := wr r1 _ _) in *.
  rewrite (sh_count _ _ S2).
  destruct (for_wr_shape r2 n (b / 64 + 1) n (fun _ => fillw) S2 ltac:(lia)) as (S3 & I3 & G3).
  { intros; apply fillw_lt. }
  set (r3 := for_wr r2 _ _ _) in *.
  pose proof (with_inf_shape r3 n flag S3) as S4.
  assert (W : wf (with_inf r3 flag)) by (eapply wf_of_shape; eauto; [apply W1|apply W1]).
  split; [exact W|]. intros k. rewrite mem_abs by assumption.
  pose proof (N.div_mod k 64 ltac:(discriminate)) as Dk. pose proof (N.mod_lt k 64 ltac:(discriminate)) as Mk.
  pose proof (N.div_mod b 64 ltac:(discriminate)) as Db.
  destruct (N.lt_ge_cases (k / 64) n) as [Hk|Hk].
  - rewrite (rd_shape_in _ _ _ S4 Hk). cbn [with_inf words]. rewrite G3, G2.
    destruct (N.lt_trichotomy (k / 64) (b / 64)) as [Hlt|[Heq|Hgt]].
    + replace (b / 64 + 1 <=? k / 64) with false by (symmetry; apply N.leb_gt; lia). cbn [andb].
      replace (k / 64 =? b / 64) with false by (symmetry; apply N.eqb_neq; lia).
      replace (b <=? k) with false by (symmetry; apply N.leb_gt; nia).
      rewrite (mem_abs r k H), <- R1, rd_in by (fold n; assumption). reflexivity.
    + replace (b / 64 + 1 <=? k / 64) with false by (symmetry; apply N.leb_gt; lia). cbn [andb].
      rewrite Heq, N.eqb_refl. rewrite upd_bit, FROM_bit by assumption.
      rewrite <- Heq, (divmod_le b k Heq). destruct (b <=? k); [reflexivity|].
      rewrite (mem_abs r k H), <- R1, rd_in by (fold n; assumption). reflexivity.
    + replace (b / 64 + 1 <=? k / 64) with true by (symmetry; apply N.leb_le; lia).
      replace (k / 64 <? n) with true by (symmetry; apply N.ltb_lt; lia). cbn [andb].
      replace (b <=? k) with true by (symmetry; apply N.leb_le; nia).
      rewrite fill_eq. apply testbit_infw. assumption.
  - rewrite (rd_shape_out _ _ _ S4 Hk). unfold inf_word. cbn [with_inf infinite].
    replace (b <=? k) with true by (symmetry; apply N.leb_le; nia).
    apply (testbit_infw flag). assumption.
Qed.

(* finite range [b, e], b <= e *)
Lemma range_fin_core r b e : wf r -> b <= e -> e < IDXMAX ->
  let r1 := realloc_by_cpu_index r e in
  let bs := SUB_INDEX b in let es := SUB_INDEX e in
  let r2 := if bs =? es then
              wr r1 bs (upd (getw (words r1) bs) (ULBIT_FROMTO (SUB_ULBIT b) (SUB_ULBIT e)))
            else
              let r := wr r1 bs (upd (getw (words r1) bs) (ULBIT_FROM (SUB_ULBIT b))) in
              wr r es (upd (getw (words r) es) (ULBIT_TO (SUB_ULBIT e))) in
  let r' := for_wr r2 (bs + 1) es (fun _ => fillw) in
  wf r' /\ forall k, mem k (abs r') = if (b <=? k) && (k <=? e) then flag else mem k (abs r).
Proof.
  intros H Hbe He. pose proof (idx_bound e He) as Hn. cbv zeta.
  unfold realloc_by_cpu_index, SUB_INDEX, SUB_ULBIT, BPL.
  destruct (realloc_spec r (e / 64 + 1) H Hn) as (W1 & C1 & I1 & R1).
  set (r1 := realloc_by_ulongs r (e / 64 + 1)) in *.
  set (n := count r1) in *. assert (Hes : e / 64 < n) by lia.
  assert (Hbs : b / 64 <= e / 64) by (apply N.div_le_mono; [discriminate|assumption]).
  pose proof (shape_of_wf _ W1) as S1. fold n in S1.
  assert (Hmb : b mod 64 < 64) by (apply N.mod_lt; discriminate).
  assert (Hme : e mod 64 < 64) by (apply N.mod_lt; discriminate).
  pose proof (N.div_mod b 64 ltac:(discriminate)) as Db. pose proof (N.div_mod e 64 ltac:(discriminate)) as De.
  assert (OLD : forall k i, i = k / 64 -> i < n -> N.testbit (getw (words r1) i) (k mod 64) = mem k (abs r)).
  { intros k i -> Hk. rewrite (mem_abs r k H), <- R1, rd_in by (fold n; assumption). reflexivity. }
  assert (FIN : forall r2, shape r2 n -> infinite r2 = infinite r1 ->
     (forall k, k / 64 < n -> N.testbit (getw (words r2) (k / 64)) (k mod 64) =
                 if (b <=? k) && (k <=? e) then flag else mem k (abs r)) ->
     wf r2 /\ forall k, mem k (abs r2) = if (b <=? k) && (k <=? e) then flag else mem k (abs r)).
  { intros r2 S2 I2 G. assert (W2 : wf r2) by (eapply wf_of_shape; eauto; [apply W1|apply W1]).
    split; [exact W2|]. intros k. rewrite mem_abs by assumption.
    destruct (N.lt_ge_cases (k / 64) n) as [Hk|Hk].
    - rewrite (rd_shape_in _ _ _ S2 Hk). apply G. assumption.
    - rewrite (rd_shape_out _ _ _ S2 Hk).
      pose proof (N.div_mod k 64 ltac:(discriminate)) as Dk.
      replace (k <=? e) with false by (symmetry; apply N.leb_gt; nia). rewrite andb_false_r.
      rewrite (mem_abs r k H), <- R1, (rd_out r1) by (fold n; assumption). unfold inf_word. now rewrite I2. }
  destruct (N.eqb_spec (b / 64) (e / 64)) as [Ebe|Nbe].
  - (* same word *)
    destruct (wr_shape r1 n (b / 64) (upd (getw (words r1) (b / 64)) (ULBIT_FROMTO (b mod 64) (e mod 64))) S1 ltac:(lia)) as (S2 & I2 & G2).
    { apply upd_lt; [apply getw_lt; try assumption; fold n; lia|apply FROMTO_lt; assumption]. }
    set (r2 := wr r1 _ _) in *.
    destruct (for_wr_shape r2 n (b / 64 + 1) (e / 64) (fun _ => fillw) S2 ltac:(lia)) as (S3 & I3 & G3).
    { intros; apply fillw_lt. }
    apply FIN; [exact S3|congruence|].
    intros k Hk. pose proof (N.div_mod k 64 ltac:(discriminate)) as Dk. pose proof (N.mod_lt k 64 ltac:(discriminate)) as Mk.
    rewrite G3. replace ((b / 64 + 1 <=? k / 64) && (k / 64 <? e / 64)) with false by (symmetry; apply andb_false_iff; brk; lia).
    rewrite G2. destruct (N.eqb_spec (k / 64) (b / 64)) as [Ek|Nk].
    + rewrite upd_bit, FROMTO_bit by assumption. rewrite (OLD k (b / 64)) by (try lia; congruence).
      rewrite (divmod_le b k Ek).
      replace (k mod 64 <=? e mod 64) with (k <=? e) by (brk; lia). reflexivity.
    + rewrite (OLD k (k / 64)) by (try lia; reflexivity).
      replace ((b <=? k) && (k <=? e)) with false by (symmetry; apply andb_false_iff; brk; nia). reflexivity.
  - (* different words *)
    assert (Hlt : b / 64 < e / 64) by lia.
    destruct (wr_shape r1 n (b / 64) (upd (getw (words r1) (b / 64)) (ULBIT_FROM (b mod 64))) S1 ltac:(lia)) as (S2 & I2 & G2).
    { apply upd_lt; [apply getw_lt; try assumption; fold n; lia|apply FROM_lt]. }
    set (r2 := wr r1 (b / 64) _) in *.
    assert (Ge : getw (words r2) (e / 64) = getw (words r1) (e / 64)).
    { rewrite G2. replace (e / 64 =? b / 64) with false by (symmetry; apply N.eqb_neq; lia). reflexivity. }
    destruct (wr_shape r2 n (e / 64) (upd (getw (words r2) (e / 64)) (ULBIT_TO (e mod 64))) S2 ltac:(lia)) as (S3 & I3 & G3).
    { apply upd_lt; [rewrite Ge; apply getw_lt; try assumption; fold n; lia|apply TO_lt; assumption]. }
    set (r3 := wr r2 (e / 64) _) in *.
    destruct (for_wr_shape r3 n (b / 64 + 1) (e / 64) (fun _ => fillw) S3 ltac:(lia)) as (S4 & I4 & G4).
    { intros; apply fillw_lt. }
    apply FIN; [exact S4|congruence|].
    intros k Hk. pose proof (N.div_mod k 64 ltac:(discriminate)) as Dk. pose proof (N.mod_lt k 64 ltac:(discriminate)) as Mk.
    rewrite G4. destruct (N.lt_trichotomy (k / 64) (b / 64)) as [C|[C|C]].
    + replace ((b / 64 + 1 <=? k / 64) && (k / 64 <? e / 64)) with false by (symmetry; apply andb_false_iff; brk; lia).
      rewrite (G3 (k / 64)), (G2 (k / 64)).
      replace (k / 64 =? e / 64) with false by (symmetry; apply N.eqb_neq; lia).
      replace (k / 64 =? b / 64) with false by (symmetry; apply N.eqb_neq; lia).
      rewrite (OLD k (k / 64)) by (try lia; reflexivity).
      replace ((b <=? k) && (k <=? e)) with false by (symmetry; apply andb_false_iff; brk; nia). reflexivity.
    + replace ((b / 64 + 1 <=? k / 64) && (k / 64 <? e / 64)) with false by (symmetry; apply andb_false_iff; brk; lia).
      rewrite (G3 (k / 64)), (G2 (k / 64)).
      replace (k / 64 =? e / 64) with false by (symmetry; apply N.eqb_neq; lia).
      rewrite C, N.eqb_refl. rewrite upd_bit, FROM_bit by assumption. rewrite (OLD k (b / 64)) by (try lia; congruence).
      rewrite (divmod_le b k C).
      replace (k <=? e) with true by (symmetry; apply N.leb_le; nia). rewrite andb_true_r. reflexivity.
    + destruct (N.lt_trichotomy (k / 64) (e / 64)) as [D|[D|D]].
      * replace ((b / 64 + 1 <=? k / 64) && (k / 64 <? e / 64)) with true by (symmetry; apply andb_true_iff; brk; lia).
        replace ((b <=? k) && (k <=? e)) with true by (symmetry; apply andb_true_iff; brk; nia).
        rewrite fill_eq. apply testbit_infw. assumption.
      * replace ((b / 64 + 1 <=? k / 64) && (k / 64 <? e / 64)) with false by (symmetry; apply andb_false_iff; brk; lia).
        rewrite G3. rewrite D, N.eqb_refl. rewrite upd_bit, TO_bit by assumption. rewrite Ge, (OLD k (e / 64)) by (try lia; congruence).
        replace (b <=? k) with true by (symmetry; apply N.leb_le; nia). cbn [andb].
        replace (k mod 64 <=? e mod 64) with (k <=? e) by (brk; lia). reflexivity.
      * replace ((b / 64 + 1 <=? k / 64) && (k / 64 <? e / 64)) with false by (symmetry; apply andb_false_iff; brk; lia).
        rewrite (G3 (k / 64)), (G2 (k / 64)).
        replace (k / 64 =? e / 64) with false by (symmetry; apply N.eqb_neq; lia).
        replace (k / 64 =? b / 64) with false by (symmetry; apply N.eqb_neq; lia).
        rewrite (OLD k (k / 64)) by (try lia; reflexivity).
        replace ((b <=? k) && (k <=? e)) with false by (symmetry; apply andb_false_iff; brk; nia). reflexivity.
Qed.

Definition in_range (b : N) (e : Z) (k : N) : bool :=
  if (e =? -1)%Z then b <=? k else (b <=? k) && (k <=? Z.to_N e).

Lemma tail_flag r k : wf r -> infinite r = flag -> count r * 64 <= k -> mem k (abs r) = flag.
Proof.
  intros H I Hk. rewrite mem_abs by assumption. rewrite rd_out by (apply N.div_le_lower_bound; lia).
  unfold inf_word. rewrite I. apply (testbit_infw flag). apply N.mod_lt. discriminate.
Qed.

Theorem range_op_spec r b e : wf r -> b < IDXMAX -> (-1 <= e < Z.of_N IDXMAX)%Z ->
  let r' := range_op flag upd fillw r b e in
  wf r' /\ forall k, mem k (abs r') = if in_range b e k then flag else mem k (abs r).
Proof.
  intros H Hb He. cbv zeta. unfold range_op, in_range.
  destruct (Z.eqb_spec e (-1)) as [->|Ne].
  - (* end = -1: (unsigned)-1 is never below begincpu *)
    assert (TU : to_unsigned (-1) = 4294967295) by reflexivity. rewrite TU.
    replace (4294967295 <? b) with false by (symmetry; apply N.ltb_ge; unfold IDXMAX in Hb; lia).
    destruct (Bool.eqb (infinite r) flag && (count r * BPL <=? b)) eqn:E.
    + split; [assumption|]. intros k. destruct (N.leb_spec b k); [|reflexivity].
      apply andb_true_iff in E as [Ei El]. apply Bool.eqb_prop in Ei. apply N.leb_le in El. unfold BPL in El.
      apply tail_flag; auto. lia.
    + apply range_inf_core; assumption.
  - assert (Eu : to_unsigned e = Z.to_N e).
    { unfold to_unsigned. rewrite Z.mod_small; [reflexivity|]. unfold IDXMAX in He. lia. }
    rewrite Eu. set (E := Z.to_N e) in *. assert (HE : E < IDXMAX) by (unfold E; lia).
    destruct (N.ltb_spec E b) as [Hlt|Hge].
    + split; [assumption|]. intros k. replace ((b <=? k) && (k <=? E)) with false by (symmetry; apply andb_false_iff; brk; lia). reflexivity.
    + destruct (Bool.eqb (infinite r) flag && (count r * BPL <=? b)) eqn:Eb.
      * split; [assumption|]. intros k. destruct ((b <=? k) && (k <=? E)) eqn:Ek; [|reflexivity].
        apply andb_true_iff in Eb as [Ei El]. apply Bool.eqb_prop in Ei. apply N.leb_le in El. unfold BPL in El.
        apply andb_true_iff in Ek as [Ek1 Ek2]. apply N.leb_le in Ek1. apply tail_flag; auto. lia.
      * destruct (Bool.eqb (infinite r) flag && (count r * BPL <=? E)) eqn:Ec.
        -- (* clipped to the last valid bit *)
           apply andb_true_iff in Ec as [Ei El]. apply Bool.eqb_prop in Ei. apply N.leb_le in El. unfold BPL in *.
           rewrite (proj2 (Bool.eqb_true_iff _ _) Ei) in Eb. cbn [andb] in Eb. apply N.leb_gt in Eb.
           destruct (range_fin_core r b (count r * 64 - 1) H ltac:(lia) ltac:(lia)) as [W M].
           split; [exact W|]. intros k. rewrite M.
           destruct (N.leb_spec b k); cbn [andb]; [|reflexivity].
           destruct (N.leb_spec k (count r * 64 - 1)), (N.leb_spec k E); try reflexivity; try lia.
           apply tail_flag; auto. lia.
        -- apply range_fin_core; assumption.
Qed.
End RangeOp.

Theorem bm_set_range_spec r b e : wf r -> b < IDXMAX -> (-1 <= e < Z.of_N IDXMAX)%Z ->
  wf (bm_set_range r b e) /\ abs (bm_set_range r b e) = sp_range (abs r) true b e.
Proof.
  intros H Hb He.
  destruct (range_op_spec true (fun w m => N.lor w m) FULL) with (r := r) (b := b) (e := e) as [W M]; auto.
  - intros; apply lor_lt; assumption.
  - intros w m j Hj. rewrite N.lor_spec. destruct (N.testbit m j); [apply orb_true_r|apply orb_false_r].
  - split; [exact W|]. apply bs_ext. intros k. fold (bm_set_range r b e) in M. rewrite M.
    unfold sp_range, in_range. rewrite mem_union.
    destruct (Z.eqb_spec e (-1)).
    + rewrite mem_from. destruct (b <=? k); [now rewrite orb_true_r|now rewrite orb_false_r].
    + destruct (Z.ltb_spec e (Z.of_N b)).
      * rewrite mem_empty, orb_false_r. replace ((b <=? k) && (k <=? Z.to_N e)) with false by (symmetry; apply andb_false_iff; brk; lia). reflexivity.
      * rewrite mem_range. replace (k <? b + (Z.to_N e - b + 1)) with (k <=? Z.to_N e) by (brk; lia).
        destruct ((b <=? k) && (k <=? Z.to_N e)); [now rewrite orb_true_r|now rewrite orb_false_r].
Qed.

Theorem bm_clr_range_spec r b e : wf r -> b < IDXMAX -> (-1 <= e < Z.of_N IDXMAX)%Z ->
  wf (bm_clr_range r b e) /\ abs (bm_clr_range r b e) = sp_range (abs r) false b e.
Proof.
  intros H Hb He.
  destruct (range_op_spec false (fun w m => N.land w (wnot m)) ZEROW) with (r := r) (b := b) (e := e) as [W M]; auto.
  - intros; apply land_lt; assumption.
  - intros w m j Hj. rewrite N.land_spec, wnot_spec by assumption. destruct (N.testbit m j); [apply andb_false_r|apply andb_true_r].
  - split; [exact W|]. apply bs_ext. intros k. fold (bm_clr_range r b e) in M. rewrite M.
    unfold sp_range, in_range. rewrite mem_diff.
    destruct (Z.eqb_spec e (-1)).
    + rewrite mem_from. destruct (b <=? k); cbn [negb]; [now rewrite andb_false_r|now rewrite andb_true_r].
    + destruct (Z.ltb_spec e (Z.of_N b)).
      * rewrite mem_empty. cbn [negb]. rewrite andb_true_r. replace ((b <=? k) && (k <=? Z.to_N e)) with false by (symmetry; apply andb_false_iff; brk; lia). reflexivity.
      * rewrite mem_range. replace (k <? b + (Z.to_N e - b + 1)) with (k <=? Z.to_N e) by (brk; lia).
        destruct ((b <=? k) && (k <=? Z.to_N e)); cbn [negb]; [now rewrite andb_false_r|now rewrite andb_true_r].
Qed.
