(* C03 proofs, part 2: allocation helpers, combinators, single-index modifiers,
   constructors.  Every result is described word-wise through [rd]
   (HWLOC_SUBBITMAP_READULONG) and then lifted to the BSet operation. *)
From Coq Require Import NArith ZArith Bool List Lia ZifyBool ZifyN ZifyNat.
From HV Require Import Base.BSet Bitmap.BitmapModel Bitmap.BitmapSpec Bitmap.BitmapBase.
Import ListNotations.
Local Open Scope N_scope.
Ltac Zify.zify_post_hook ::= Z.div_mod_to_equations.

Lemma POISON_lt : POISON < U64. Proof. reflexivity. Qed.

(* ---------------- enlarge / reset / realloc ---------------- *)
Lemma enlarge_spec r n : 1 <= n -> n < U64 ->
  let r' := enlarge r n in
  count r' = count r /\ words r' = words r /\ infinite r' = infinite r /\
  alloc r <= alloc r' /\ n <= alloc r'.
Proof.
  intros H1 H2. unfold enlarge.
  replace ((n + U64 - 1) mod U64) with (n - 1)
    by (replace (n + U64 - 1) with ((n - 1) + 1 * U64) by lia; rewrite N.mod_add by discriminate;
        symmetry; apply N.mod_small; lia).
  assert (Hs : n <= N.shiftl 1 (flsl (n - 1))).
  { rewrite N.shiftl_1_l. unfold flsl. pose proof (N.size_gt (n - 1)) as Hg.
    set (p := 2 ^ N.size (n - 1)) in *. clearbody p. lia. }
  set (tmp := N.shiftl 1 (flsl (n - 1))) in *. clearbody tmp.
  cbv zeta. destruct (N.ltb_spec (alloc r) tmp); unfold with_alloc; cbn [count words infinite alloc]; repeat split; auto; lia.
Qed.

Record shape (r : repr) (n : N) : Prop := SH {
  sh_count : count r = n;
  sh_alloc : n <= alloc r;
  sh_len : N.of_nat (length (words r)) = n;
  sh_words : Forall (fun w => w < U64) (words r)
}.

Lemma wf_of_shape r n : shape r n -> 1 <= n -> n <= MAXC -> wf r.
Proof. intros [Hc Ha Hl Hw] H1 H2. constructor; rewrite ?Hc; auto. Qed.
Lemma shape_of_wf r : wf r -> shape r (count r).
Proof. intros [H1 H2 H3 H4 H5]. constructor; auto. Qed.

Lemma MAXC_lt : MAXC < U64. Proof. reflexivity. Qed.

Lemma reset_spec r n : wf r -> 1 <= n -> n <= MAXC ->
  let r' := reset_by_ulongs r n in
  shape r' n /\ infinite r' = infinite r /\
  forall j, j < n -> j < count r -> getw (words r') j = getw (words r) j.
Proof.
  intros H H1 H2. pose proof MAXC_lt.
  destruct (enlarge_spec r n H1 ltac:(lia)) as (Ec & Ew & Ei & Ea & En).
  unfold reset_by_ulongs, with_count. cbv zeta. split; [constructor|split]; cbn [count alloc words infinite]; auto.
  - rewrite resize_length. lia.
  - apply Forall_resize; [rewrite Ew; apply H|apply POISON_lt].
  - intros j Hj Hc. rewrite getw_resize, Ew. rewrite (wf_len r H). brk; try lia; try reflexivity.
Qed.

(* set->ulongs_count = n with n below the current count: truncation *)
Lemma with_count_shape r c n : shape r c -> n <= c ->
  shape (with_count r n) n /\ infinite (with_count r n) = infinite r /\
  forall j, j < n -> getw (words (with_count r n)) j = getw (words r) j.
Proof.
  intros [Hc Ha Hl Hw] Hn. unfold with_count. split; [constructor|split]; cbn [count alloc words infinite]; auto; try lia.
  - rewrite resize_length. lia.
  - apply Forall_resize; [assumption|apply POISON_lt].
  - intros j Hj. rewrite getw_resize. brk; try lia; try reflexivity.
Qed.

Lemma rd_shape_in r n i : shape r n -> i < n -> rd r i = getw (words r) i.
Proof. intros [Hc _ _ _] H. apply rd_in. lia. Qed.
Lemma rd_shape_out r n i : shape r n -> n <= i -> rd r i = inf_word r.
Proof. intros [Hc _ _ _] H. apply rd_out. lia. Qed.

Lemma for_wr_shape r n lo hi f : shape r n -> hi <= n -> (forall j, lo <= j < hi -> f j < U64) ->
  let r' := for_wr r lo hi f in
  shape r' n /\ infinite r' = infinite r /\
  forall j, getw (words r') j = if (lo <=? j) && (j <? hi) then f j else getw (words r) j.
Proof.
  intros [Hc Ha Hl Hw] Hhi Hf.
  destruct (for_wr_spec r lo hi f ltac:(lia)) as (Sc & Sa & Si & Sl & Sg).
  cbv zeta. split; [constructor|split]; auto; try congruence; try lia.
  apply for_wr_Forall; assumption.
Qed.

Lemma wr_shape r n i v : shape r n -> i < n -> v < U64 ->
  shape (wr r i v) n /\ infinite (wr r i v) = infinite r /\
  forall j, getw (words (wr r i v)) j = if j =? i then v else getw (words r) j.
Proof.
  intros [Hc Ha Hl Hw] Hi Hv. unfold wr, with_words. split; [constructor|split]; cbn [count alloc words infinite]; auto.
  - rewrite setw_length. assumption.
  - apply Forall_setw; assumption.
  - intros j. apply getw_setw. lia.
Qed.

Lemma with_inf_shape r n b : shape r n -> shape (with_inf r b) n.
Proof. intros [Hc Ha Hl Hw]. constructor; simpl; auto. Qed.

Lemma realloc_spec r n : wf r -> n <= MAXC ->
  let r' := realloc_by_ulongs r n in
  wf r' /\ count r' = N.max (count r) n /\ infinite r' = infinite r /\ forall i, rd r' i = rd r i.
Proof.
  intros H Hn. pose proof MAXC_lt. unfold realloc_by_ulongs.
  destruct (N.leb_spec n (count r)) as [Hle|Hgt].
  - cbv zeta. split; [assumption|split; [lia|split; auto]].
  - pose proof (wf_count1 r H).
    destruct (enlarge_spec r n ltac:(lia) ltac:(lia)) as (Ec & Ew & Ei & Ea & En).
    cbv zeta. rewrite Ec, Ew, Ei.
    set (r0 := R n (alloc (enlarge r n)) (resize (words r) n POISON) (infinite r)).
    assert (S0 : shape r0 n).
    { constructor; simpl; auto.
      - rewrite resize_length. lia.
      - apply Forall_resize; [apply H|apply POISON_lt]. }
    destruct (for_wr_shape r0 n (count r) n (fun _ => if infinite r then FULL else ZEROW) S0 ltac:(lia)) as (S1 & I1 & G1).
    { intros; destruct (infinite r); reflexivity. }
    split; [|split; [|split]].
    + eapply wf_of_shape; eauto. lia.
    + rewrite (sh_count _ _ S1). lia.
    + rewrite I1. reflexivity.
    + intros i. destruct (N.lt_ge_cases i n) as [Hi|Hi].
      * rewrite (rd_shape_in _ n) by assumption. rewrite G1.
        unfold r0 at 1. cbn [words]. rewrite getw_resize, (wf_len r H).
        unfold rd. brk; simpl; try lia; reflexivity.
      * rewrite (rd_shape_out _ n) by assumption. unfold inf_word. rewrite I1.
        unfold r0; simpl. unfold rd. brk; try lia; try reflexivity.
Qed.

(* ---------------- or / and / andnot / xor ---------------- *)
Definition infw (b : bool) : N := if b then FULL else ZEROW.
Lemma infw_lt b : infw b < U64. Proof. destruct b; reflexivity. Qed.
Lemma inf_word_infw r : inf_word r = infw (infinite r). Proof. reflexivity. Qed.
Lemma testbit_infw b j : j < 64 -> N.testbit (infw b) j = b.
Proof.
  intros H. destruct b; unfold infw.
  - rewrite testbit_FULL. apply N.ltb_lt. assumption.
  - apply N.bits_0.
Qed.

Lemma binop_spec f tail1 tail2 finf res r1 r2 :
  wf res -> wf r1 -> wf r2 ->
  (forall a b, a < U64 -> b < U64 -> f a b < U64) ->
  (forall i1 i2, f (infw i1) (infw i2) = infw (finf i1 i2)) ->
  (forall i1 i2 w, w < U64 ->
     match tail1 i2 with Some g => g w = f w (infw i2) | None => f w (infw i2) = infw (finf i1 i2) end) ->
  (forall i1 i2 w, w < U64 ->
     match tail2 i1 with Some g => g w = f (infw i1) w | None => f (infw i1) w = infw (finf i1 i2) end) ->
  let r := binop f tail1 tail2 finf res r1 r2 in
  wf r /\ forall i, rd r i = f (rd r1 i) (rd r2 i).
Proof.
  intros Hres H1 H2 Hf Hinf T1 T2.
  pose proof (wf_count1 r1 H1) as C1. pose proof (wf_count1 r2 H2) as C2.
  pose proof (wf_countmax r1 H1) as M1. pose proof (wf_countmax r2 H2) as M2.
  unfold binop.
  set (c1 := count r1) in *. set (c2 := count r2) in *.
  set (mx := if c2 <? c1 then c1 else c2).
  set (mn := c1 + c2 - mx).
  assert (Hmx : mx = N.max c1 c2) by (unfold mx; brk; lia).
  assert (Hmn : mn = N.min c1 c2) by (unfold mn; lia).
  destruct (reset_spec res mx Hres ltac:(lia) ltac:(lia)) as (S0 & I0 & _).
  set (res0 := reset_by_ulongs res mx) in *.
  set (F := fun i => f (getw (words r1) i) (getw (words r2) i)).
  assert (HF : forall j, 0 <= j < mn -> F j < U64).
  { intros j Hj. unfold F. apply Hf; apply (getw_in (fun w => w < U64)); try apply H1; try apply H2;
    rewrite ?(wf_len r1 H1), ?(wf_len r2 H2); fold c1 c2; lia. }
  destruct (for_wr_shape res0 mx 0 mn F S0 ltac:(lia) HF) as (S1 & I1 & G1).
  set (res1 := for_wr res0 0 mn F) in *.
  cbv zeta.
  (* what we need from the middle stage *)
  assert (K : forall res2 n2, shape res2 n2 -> 1 <= n2 -> n2 <= MAXC ->
     (forall i, i < n2 -> getw (words res2) i = f (rd r1 i) (rd r2 i)) ->
     (forall i, n2 <= i -> f (rd r1 i) (rd r2 i) = infw (finf (infinite r1) (infinite r2))) ->
     let r := with_inf res2 (finf (infinite r1) (infinite r2)) in
     wf r /\ forall i, rd r i = f (rd r1 i) (rd r2 i)).
  { intros res2 n2 S2 L1 L2 Gin Gout. cbv zeta. split.
    - eapply wf_of_shape; eauto. apply with_inf_shape; eassumption.
    - intros i. pose proof (with_inf_shape res2 n2 (finf (infinite r1) (infinite r2)) S2) as S3.
      destruct (N.lt_ge_cases i n2) as [Hi|Hi].
      + rewrite (rd_shape_in _ n2) by assumption. simpl. apply Gin; assumption.
      + rewrite (rd_shape_out _ n2) by assumption. rewrite Gout by assumption. reflexivity. }
  assert (Glow : forall i, i < mn -> F i = f (rd r1 i) (rd r2 i)).
  { intros i Hi. unfold F. rewrite !rd_in by (fold c1 c2; lia). reflexivity. }
  assert (Ghigh : forall i, mx <= i -> f (rd r1 i) (rd r2 i) = infw (finf (infinite r1) (infinite r2))).
  { intros i Hi. rewrite !rd_out by (fold c1 c2; lia). rewrite !inf_word_infw. apply Hinf. }
  destruct (N.eqb_spec c1 c2) as [Heq|Hne]; cbn [negb].
  - (* same count *)
    apply (K res1 mx S1); try lia.
    + intros i Hi. rewrite G1. replace (i <? mn) with true by (symmetry; apply N.ltb_lt; lia).
      replace (0 <=? i) with true by (symmetry; apply N.leb_le; lia). cbn [andb]. apply Glow. lia.
    + exact Ghigh.
  - destruct (N.ltb_spec mn c1) as [Hlt|Hge].
    + (* set1 is longer *)
      assert (R2 : forall i, mn <= i -> rd r2 i = infw (infinite r2)).
      { intros i Hi. rewrite rd_out by (fold c2; lia). reflexivity. }
      specialize (T1 (infinite r1) (infinite r2)).
      destruct (tail1 (infinite r2)) as [g|].
      * assert (Hg : forall j, mn <= j < mx -> g (getw (words r1) j) < U64).
        { intros j Hj. assert (Hw : getw (words r1) j < U64).
          { apply (getw_in (fun w => w < U64)); [apply H1|]. rewrite (wf_len r1 H1). fold c1. lia. }
          rewrite (T1 _ Hw). apply Hf; [assumption|apply infw_lt]. }
        destruct (for_wr_shape res1 mx mn mx (fun i => g (getw (words r1) i)) S1 ltac:(lia) Hg) as (S2 & I2 & G2).
        apply (K _ mx S2); try lia; [|exact Ghigh].
        intros i Hi. rewrite G2, G1. destruct (N.lt_ge_cases i mn) as [Hi2|Hi2].
        -- replace (mn <=? i) with false by (symmetry; apply N.leb_gt; lia).
           replace (i <? mn) with true by (symmetry; apply N.ltb_lt; lia).
           replace (0 <=? i) with true by (symmetry; apply N.leb_le; lia). cbn [andb]. apply Glow. lia.
        -- replace (mn <=? i) with true by (symmetry; apply N.leb_le; lia).
           replace (i <? mx) with true by (symmetry; apply N.ltb_lt; lia). cbn [andb].
           rewrite R2 by lia. rewrite (rd_in r1) by (fold c1; lia). apply T1.
           apply (getw_in (fun w => w < U64)); [apply H1|]. rewrite (wf_len r1 H1). fold c1. lia.
      * destruct (with_count_shape res1 mx mn S1 ltac:(lia)) as (S2 & I2 & G2).
        apply (K _ mn S2); try lia.
        -- intros i Hi. rewrite G2, G1 by assumption.
           replace (i <? mn) with true by (symmetry; apply N.ltb_lt; lia).
           replace (0 <=? i) with true by (symmetry; apply N.leb_le; lia). cbn [andb]. apply Glow. assumption.
        -- intros i Hi. rewrite R2 by assumption. apply T1. apply rd_lt. assumption.
    + (* set2 is longer *)
      assert (R1 : forall i, mn <= i -> rd r1 i = infw (infinite r1)).
      { intros i Hi. rewrite rd_out by (fold c1; lia). reflexivity. }
      specialize (T2 (infinite r1) (infinite r2)).
      destruct (tail2 (infinite r1)) as [g|].
      * assert (Hg : forall j, mn <= j < mx -> g (getw (words r2) j) < U64).
        { intros j Hj. assert (Hw : getw (words r2) j < U64).
          { apply (getw_in (fun w => w < U64)); [apply H2|]. rewrite (wf_len r2 H2). fold c2. lia. }
          rewrite (T2 _ Hw). apply Hf; [apply infw_lt|assumption]. }
        destruct (for_wr_shape res1 mx mn mx (fun i => g (getw (words r2) i)) S1 ltac:(lia) Hg) as (S2 & I2 & G2).
        apply (K _ mx S2); try lia; [|exact Ghigh].
        intros i Hi. rewrite G2, G1. destruct (N.lt_ge_cases i mn) as [Hi2|Hi2].
        -- replace (mn <=? i) with false by (symmetry; apply N.leb_gt; lia).
           replace (i <? mn) with true by (symmetry; apply N.ltb_lt; lia).
           replace (0 <=? i) with true by (symmetry; apply N.leb_le; lia). cbn [andb]. apply Glow. lia.
        -- replace (mn <=? i) with true by (symmetry; apply N.leb_le; lia).
           replace (i <? mx) with true by (symmetry; apply N.ltb_lt; lia). cbn [andb].
           rewrite R1 by lia. rewrite (rd_in r2) by (fold c2; lia). apply T2.
           apply (getw_in (fun w => w < U64)); [apply H2|]. rewrite (wf_len r2 H2). fold c2. lia.
      * destruct (with_count_shape res1 mx mn S1 ltac:(lia)) as (S2 & I2 & G2).
        apply (K _ mn S2); try lia.
        -- intros i Hi. rewrite G2, G1 by assumption.
           replace (i <? mn) with true by (symmetry; apply N.ltb_lt; lia).
           replace (0 <=? i) with true by (symmetry; apply N.leb_le; lia). cbn [andb]. apply Glow. assumption.
        -- intros i Hi. rewrite R1 by assumption. apply T2. apply rd_lt. assumption.
Qed.

Ltac wbits :=
  apply word_ext;
  [ repeat first [apply lor_lt | apply lxor_lt | apply wnot_lt | apply infw_lt | apply land_lt | apply land_lt_r | assumption | reflexivity]
  | repeat first [apply lor_lt | apply lxor_lt | apply wnot_lt | apply infw_lt | apply land_lt | apply land_lt_r | assumption | reflexivity]
  | let j := fresh "j" in let Hj := fresh "Hj" in intros j Hj;
    repeat first [rewrite N.lor_spec | rewrite N.land_spec | rewrite N.lxor_spec | rewrite wnot_spec by assumption
                 | rewrite testbit_infw by assumption ];
    repeat match goal with |- context[N.testbit ?a j] => destruct (N.testbit a j) end; reflexivity ].

Theorem bm_or_spec res r1 r2 : wf res -> wf r1 -> wf r2 ->
  wf (bm_or res r1 r2) /\ abs (bm_or res r1 r2) = bs_union (abs r1) (abs r2).
Proof.
  intros Hr H1 H2.
  destruct (binop_spec N.lor (fun inf2 => if inf2 then None else Some idw) (fun inf1 => if inf1 then None else Some idw) orb
              res r1 r2 Hr H1 H2) as [W E].
  - intros; apply lor_lt; assumption.
  - intros [] []; reflexivity.
  - intros i1 [] w Hw; [|unfold idw]; destruct i1; wbits.
  - intros [] i2 w Hw; [|unfold idw]; destruct i2; wbits.
  - split; [exact W|]. eapply (lift2 _ r1 r2 N.lor orb); eauto.
    + intros; apply N.lor_spec.
    + intros; apply mem_union.
Qed.

Theorem bm_and_spec res r1 r2 : wf res -> wf r1 -> wf r2 ->
  wf (bm_and res r1 r2) /\ abs (bm_and res r1 r2) = bs_inter (abs r1) (abs r2).
Proof.
  intros Hr H1 H2.
  destruct (binop_spec N.land (fun inf2 => if inf2 then Some idw else None) (fun inf1 => if inf1 then Some idw else None) andb
              res r1 r2 Hr H1 H2) as [W E].
  - intros; apply land_lt; assumption.
  - intros [] []; reflexivity.
  - intros i1 [] w Hw; [unfold idw|]; destruct i1; wbits.
  - intros [] i2 w Hw; [unfold idw|]; destruct i2; wbits.
  - split; [exact W|]. eapply (lift2 _ r1 r2 N.land andb); eauto.
    + intros; apply N.land_spec.
    + intros; apply mem_inter.
Qed.

Theorem bm_andnot_spec res r1 r2 : wf res -> wf r1 -> wf r2 ->
  wf (bm_andnot res r1 r2) /\ abs (bm_andnot res r1 r2) = bs_diff (abs r1) (abs r2).
Proof.
  intros Hr H1 H2.
  destruct (binop_spec (fun a b => N.land a (wnot b))
              (fun inf2 => if negb inf2 then Some idw else None) (fun inf1 => if inf1 then Some wnot else None)
              (fun i1 i2 => i1 && negb i2)
              res r1 r2 Hr H1 H2) as [W E].
  - intros; apply land_lt; assumption.
  - intros [] []; reflexivity.
  - intros i1 [] w Hw; cbn [negb]; [|unfold idw]; destruct i1; wbits.
  - intros [] i2 w Hw; destruct i2; wbits.
  - split; [exact W|]. eapply (lift2 _ r1 r2 (fun a b => N.land a (wnot b)) (fun x y => x && negb y)); eauto.
    + intros. rewrite N.land_spec, wnot_spec by assumption. reflexivity.
    + intros; apply mem_diff.
Qed.

Theorem bm_xor_spec res r1 r2 : wf res -> wf r1 -> wf r2 ->
  wf (bm_xor res r1 r2) /\ abs (bm_xor res r1 r2) = bs_xor (abs r1) (abs r2).
Proof.
  intros Hr H1 H2.
  destruct (binop_spec N.lxor
              (fun inf2 => Some (fun w => N.lxor w (if inf2 then FULL else ZEROW)))
              (fun inf1 => Some (fun w => N.lxor w (if inf1 then FULL else ZEROW)))
              (fun i1 i2 => negb (Bool.eqb (negb i1) (negb i2)))
              res r1 r2 Hr H1 H2) as [W E].
  - intros; apply lxor_lt; assumption.
  - intros [] []; reflexivity.
  - intros i1 i2 w Hw. reflexivity.
  - intros i1 i2 w Hw. fold (infw i1). apply N.lxor_comm.
  - split; [exact W|]. eapply (lift2 _ r1 r2 N.lxor xorb); eauto.
    + intros; apply N.lxor_spec.
    + intros; apply mem_xor.
Qed.

(* ---------------- not, copy, dup ---------------- *)
Lemma getw_lt r i : wf r -> i < count r -> getw (words r) i < U64.
Proof. intros H Hi. apply (getw_in (fun w => w < U64)); [apply H|]. rewrite (wf_len r H). assumption. Qed.

Theorem bm_not_spec res r : wf res -> wf r ->
  wf (bm_not res r) /\ abs (bm_not res r) = bs_compl (abs r).
Proof.
  intros Hres H. pose proof (wf_count1 r H). pose proof (wf_countmax r H).
  unfold bm_not.
  destruct (reset_spec res (count r) Hres ltac:(lia) ltac:(lia)) as (S0 & I0 & _).
  destruct (for_wr_shape _ (count r) 0 (count r) (fun i => wnot (getw (words r) i)) S0 ltac:(lia)) as (S1 & I1 & G1).
  { intros j Hj. apply wnot_lt, getw_lt; [assumption|lia]. }
  pose proof (with_inf_shape _ _ (negb (infinite r)) S1) as S2.
  assert (W : wf (with_inf (for_wr (reset_by_ulongs res (count r)) 0 (count r) (fun i => wnot (getw (words r) i))) (negb (infinite r)))).
  { eapply wf_of_shape; eauto. }
  split; [exact W|].
  eapply (lift1 _ r wnot negb); eauto.
  - intros i. destruct (N.lt_ge_cases i (count r)) as [Hi|Hi].
    + rewrite (rd_shape_in _ _ _ S2 Hi), (rd_in r i Hi). cbn [with_inf words]. rewrite G1.
      replace (0 <=? i) with true by (symmetry; apply N.leb_le; lia).
      replace (i <? count r) with true by (symmetry; apply N.ltb_lt; lia). reflexivity.
    + rewrite (rd_shape_out _ _ _ S2 Hi), (rd_out r i Hi). unfold inf_word; simpl.
      destruct (infinite r); reflexivity.
  - intros; apply wnot_spec; assumption.
  - intros; apply mem_compl.
Qed.

Theorem bm_copy_spec dst src : wf dst -> wf src ->
  wf (bm_copy dst src) /\ abs (bm_copy dst src) = abs src.
Proof.
  intros Hd H. pose proof (wf_count1 src H). pose proof (wf_countmax src H).
  unfold bm_copy.
  destruct (reset_spec dst (count src) Hd ltac:(lia) ltac:(lia)) as (S0 & I0 & _).
  destruct (for_wr_shape _ (count src) 0 (count src) (getw (words src)) S0 ltac:(lia)) as (S1 & I1 & G1).
  { intros j Hj. apply getw_lt; [assumption|lia]. }
  pose proof (with_inf_shape _ _ (infinite src) S1) as S2.
  assert (W : wf (with_inf (for_wr (reset_by_ulongs dst (count src)) 0 (count src) (getw (words src))) (infinite src))).
  { eapply wf_of_shape; eauto. }
  split; [exact W|]. apply abs_eq_iff; auto.
  intros i. destruct (N.lt_ge_cases i (count src)) as [Hi|Hi].
  - rewrite (rd_shape_in _ _ _ S2 Hi), (rd_in src i Hi). cbn [with_inf words]. rewrite G1.
    replace (0 <=? i) with true by (symmetry; apply N.leb_le; lia).
    replace (i <? count src) with true by (symmetry; apply N.ltb_lt; lia). reflexivity.
  - rewrite (rd_shape_out _ _ _ S2 Hi), (rd_out src i Hi). reflexivity.
Qed.

Lemma map_getw_range ws : map (getw ws) (range 0 (N.of_nat (length ws))) = ws.
Proof.
  apply nth_ext with (d := POISON) (d' := POISON).
  - rewrite map_length, range_length. lia.
  - intros n Hn. rewrite map_length, range_length in Hn.
    rewrite (nth_indep _ POISON (getw ws POISON)) by (rewrite map_length, range_length; lia).
    rewrite map_nth. unfold range. simpl N.to_nat.
    rewrite (nth_indep _ POISON (N.of_nat 0)) by (rewrite map_length, seq_length; lia).
    rewrite map_nth, seq_nth by lia. unfold getw. rewrite Nat2N.id. reflexivity.
Qed.

Theorem bm_dup_spec old : wf old -> wf (bm_dup old) /\ abs (bm_dup old) = abs old /\ bm_dup old = old.
Proof.
  intros H. assert (E : bm_dup old = old).
  { pose proof (wf_len old H) as L. destruct old as [c a ws i]. unfold bm_dup. cbn [count alloc words infinite] in *.
    rewrite <- L at 2. rewrite map_getw_range. reflexivity. }
  rewrite E. auto.
Qed.

(* ---------------- zero / fill / constructors ---------------- *)
Lemma fill_all_gen r n (v : N) (b : bool) : shape r n -> v < U64 ->
  let r' := with_inf (for_wr r 0 (count r) (fun _ => v)) b in
  shape r' n /\ infinite r' = b /\ forall i, i < n -> getw (words r') i = v.
Proof.
  intros S Hv. rewrite (sh_count _ _ S).
  destruct (for_wr_shape r n 0 n (fun _ => v) S ltac:(lia)) as (S1 & I1 & G1); [auto|].
  cbv zeta. split; [apply with_inf_shape; assumption|]. split; [reflexivity|].
  intros i Hi. cbn [with_inf words]. rewrite G1.
  replace (0 <=? i) with true by (symmetry; apply N.leb_le; lia).
  replace (i <? n) with true by (symmetry; apply N.ltb_lt; lia). reflexivity.
Qed.

Lemma rd_const r n v : shape r n -> (forall i, i < n -> getw (words r) i = v) -> inf_word r = v ->
  forall i, rd r i = v.
Proof.
  intros S G I i. destruct (N.lt_ge_cases i n) as [Hi|Hi].
  - rewrite (rd_shape_in _ _ _ S Hi). auto.
  - rewrite (rd_shape_out _ _ _ S Hi). auto.
Qed.

Theorem bm_zero_spec r : wf r -> wf (bm_zero r) /\ abs (bm_zero r) = bs_empty.
Proof.
  intros H. unfold bm_zero, bm_zero_all.
  destruct (reset_spec r 1 H ltac:(lia) ltac:(unfold MAXC; lia)) as (S0 & I0 & _).
  destruct (fill_all_gen _ 1 ZEROW false S0 ZEROW_lt) as (S1 & I1 & G1).
  assert (W : wf (with_inf (for_wr (reset_by_ulongs r 1) 0 (count (reset_by_ulongs r 1)) (fun _ => ZEROW)) false)).
  { eapply wf_of_shape; eauto; unfold MAXC; lia. }
  split; [exact W|]. apply lift0; [exact W|]. intros k.
  rewrite (rd_const _ 1 ZEROW S1 G1) by (unfold inf_word; rewrite I1; reflexivity).
  rewrite mem_empty. unfold ZEROW. now rewrite N.bits_0.
Qed.

Theorem bm_fill_spec r : wf r -> wf (bm_fill r) /\ abs (bm_fill r) = bs_full.
Proof.
  intros H. unfold bm_fill, bm_fill_all.
  destruct (reset_spec r 1 H ltac:(lia) ltac:(unfold MAXC; lia)) as (S0 & I0 & _).
  destruct (fill_all_gen _ 1 FULL true S0 FULL_lt) as (S1 & I1 & G1).
  assert (W : wf (with_inf (for_wr (reset_by_ulongs r 1) 0 (count (reset_by_ulongs r 1)) (fun _ => FULL)) true)).
  { eapply wf_of_shape; eauto; unfold MAXC; lia. }
  split; [exact W|]. apply lift0; [exact W|]. intros k.
  rewrite (rd_const _ 1 FULL S1 G1) by (unfold inf_word; rewrite I1; reflexivity).
  rewrite mem_full, testbit_FULL. symmetry. apply N.ltb_lt, N.mod_lt. discriminate.
Qed.

Lemma alloc_wf : wf bm_alloc /\ abs bm_alloc = bs_empty.
Proof. split; [constructor; cbn; try (unfold MAXC, PREALLOC_ULONGS; lia); repeat constructor|reflexivity]. Qed.
Lemma alloc_full_wf : wf bm_alloc_full /\ abs bm_alloc_full = bs_full.
Proof. split; [constructor; cbn; try (unfold MAXC, PREALLOC_ULONGS; lia); repeat constructor|reflexivity]. Qed.

(* bits of the mask macros *)
Lemma SUB_CPU_pow cpu : SUB_CPU cpu = 2 ^ (cpu mod 64).
Proof. unfold SUB_CPU, SUB_ULBIT, BPL. apply N.shiftl_1_l. Qed.
Lemma SUB_CPU_lt cpu : SUB_CPU cpu < U64.
Proof.
  rewrite SUB_CPU_pow, U64_pow. apply N.pow_lt_mono_r; [lia|]. apply N.mod_lt. discriminate.
Qed.
Lemma SUB_CPU_bit cpu j : N.testbit (SUB_CPU cpu) j = (cpu mod 64 =? j).
Proof. rewrite SUB_CPU_pow. apply N.pow2_bits_eqb. Qed.

Lemma idx_bound cpu : cpu < IDXMAX -> cpu / 64 + 1 <= MAXC.
Proof.
  unfold IDXMAX, MAXC. intros H.
  assert (cpu / 64 < 33554431) by (apply N.div_lt_upper_bound; lia). lia.
Qed.

Lemma same_index k cpu : (k =? cpu) = (k / 64 =? cpu / 64) && (cpu mod 64 =? k mod 64).
Proof.
  pose proof (N.div_mod k 64 ltac:(discriminate)). pose proof (N.div_mod cpu 64 ltac:(discriminate)).
  brk; cbn [andb]; try reflexivity; try lia.
Qed.

(* a result that differs from [r] in word idx only *)
Lemma lift_word r r' idx (F : N -> N) (g : bool -> bool -> bool) (m : N) (s : bset) :
  wf r -> wf r' ->
  (forall i, rd r' i = if i =? idx then F (rd r i) else rd r i) ->
  (forall a j, a < U64 -> j < 64 -> N.testbit (F a) j = g (N.testbit a j) (N.testbit m j)) ->
  (forall k, mem k s = if k / 64 =? idx then g (mem k (abs r)) (N.testbit m (k mod 64)) else mem k (abs r)) ->
  abs r' = s.
Proof.
  intros H H' E HF Hs. apply bs_ext. intros k. rewrite Hs, !mem_abs, E by assumption.
  destruct (N.eqb_spec (k / 64) idx); [|reflexivity].
  apply HF; [apply rd_lt; assumption|apply N.mod_lt; discriminate].
Qed.

Lemma set_clr_gen (flag : bool) (F : N -> N) r cpu :
  wf r -> cpu < IDXMAX ->
  (forall a, a < U64 -> F a < U64) ->
  F (infw flag) = infw flag ->
  let r' := if Bool.eqb (infinite r) flag && (count r * BPL <=? cpu) then r else
            let r1 := realloc_by_cpu_index r cpu in
            wr r1 (SUB_INDEX cpu) (F (getw (words r1) (SUB_INDEX cpu))) in
  wf r' /\ forall i, rd r' i = if i =? cpu / 64 then F (rd r i) else rd r i.
Proof.
  intros H Hc HF Hfix. pose proof (idx_bound cpu Hc) as Hb. cbv zeta.
  destruct (Bool.eqb (infinite r) flag && (count r * BPL <=? cpu)) eqn:E.
  - split; [assumption|]. intros i. destruct (N.eqb_spec i (cpu / 64)) as [->|]; [|reflexivity].
    apply andb_true_iff in E as [Ei El]. apply N.leb_le in El. apply Bool.eqb_prop in Ei.
    assert (count r <= cpu / 64) by (unfold BPL in El; apply N.div_le_lower_bound; lia).
    rewrite rd_out by assumption. rewrite inf_word_infw, Ei. symmetry. exact Hfix.
  - unfold realloc_by_cpu_index, SUB_INDEX, BPL.
    destruct (realloc_spec r (cpu / 64 + 1) H Hb) as (W1 & C1 & I1 & R1).
    set (r1 := realloc_by_ulongs r (cpu / 64 + 1)) in *.
    assert (Hi : cpu / 64 < count r1) by lia.
    destruct (wr_shape r1 (count r1) (cpu / 64) (F (getw (words r1) (cpu / 64))) (shape_of_wf _ W1) Hi) as (S2 & I2 & G2).
    { apply HF, getw_lt; assumption. }
    split.
    + eapply wf_of_shape; eauto; apply W1.
    + intros i. destruct (N.lt_ge_cases i (count r1)) as [Hlt|Hge].
      * rewrite (rd_shape_in _ _ _ S2 Hlt), G2. rewrite <- R1.
        destruct (N.eqb_spec i (cpu / 64)) as [->|]; rewrite rd_in by assumption; reflexivity.
      * rewrite (rd_shape_out _ _ _ S2 Hge). replace (i =? cpu / 64) with false by (symmetry; apply N.eqb_neq; lia).
        rewrite <- R1, rd_out by assumption. unfold inf_word. now rewrite I2.
Qed.

Theorem bm_set_spec r cpu : wf r -> cpu < IDXMAX ->
  wf (bm_set r cpu) /\ abs (bm_set r cpu) = bs_add cpu (abs r).
Proof.
  intros H Hc.
  destruct (set_clr_gen true (fun w => N.lor w (SUB_CPU cpu)) r cpu H Hc) as [W E].
  { intros a Ha. apply lor_lt; [assumption|apply SUB_CPU_lt]. }
  { pose proof (SUB_CPU_lt cpu). wbits. }
  assert (Eq : bm_set r cpu = (if Bool.eqb (infinite r) true && (count r * BPL <=? cpu) then r else
            let r1 := realloc_by_cpu_index r cpu in
            wr r1 (SUB_INDEX cpu) (N.lor (getw (words r1) (SUB_INDEX cpu)) (SUB_CPU cpu)))).
  { unfold bm_set. destruct (infinite r); reflexivity. }
  rewrite Eq. split; [exact W|].
  eapply (lift_word r _ (cpu / 64) (fun w => N.lor w (SUB_CPU cpu)) orb (SUB_CPU cpu)); eauto.
  - intros. apply N.lor_spec.
  - intros k. rewrite mem_add, SUB_CPU_bit, same_index.
    destruct (N.eqb_spec (k / 64) (cpu / 64)); cbn [andb orb]; [apply orb_comm|reflexivity].
Qed.

Theorem bm_clr_spec r cpu : wf r -> cpu < IDXMAX ->
  wf (bm_clr r cpu) /\ abs (bm_clr r cpu) = bs_remove cpu (abs r).
Proof.
  intros H Hc.
  destruct (set_clr_gen false (fun w => N.land w (wnot (SUB_CPU cpu))) r cpu H Hc) as [W E].
  { intros a Ha. apply land_lt; assumption. }
  { reflexivity. }
  assert (Eq : bm_clr r cpu = (if Bool.eqb (infinite r) false && (count r * BPL <=? cpu) then r else
            let r1 := realloc_by_cpu_index r cpu in
            wr r1 (SUB_INDEX cpu) (N.land (getw (words r1) (SUB_INDEX cpu)) (wnot (SUB_CPU cpu))))).
  { unfold bm_clr. destruct (infinite r); reflexivity. }
  rewrite Eq. split; [exact W|].
  eapply (lift_word r _ (cpu / 64) (fun w => N.land w (wnot (SUB_CPU cpu))) (fun x y => x && negb y) (SUB_CPU cpu)); eauto.
  - intros. rewrite N.land_spec, wnot_spec by assumption. reflexivity.
  - intros k. rewrite mem_remove, SUB_CPU_bit, same_index.
    destruct (N.eqb_spec (k / 64) (cpu / 64)); cbn [andb negb]; [apply andb_comm|reflexivity].
Qed.

(* ---------------- only / allbut ---------------- *)
Lemma only_gen (v : N) (b : bool) (F : N -> N) r cpu :
  wf r -> cpu < IDXMAX -> v < U64 -> F v < U64 -> infw b = v ->
  let r1 := reset_by_cpu_index r cpu in
  let r2 := with_inf (for_wr r1 0 (count r1) (fun _ => v)) b in
  let r' := wr r2 (SUB_INDEX cpu) (F (getw (words r2) (SUB_INDEX cpu))) in
  wf r' /\ forall i, rd r' i = if i =? cpu / 64 then F v else v.
Proof.
  intros H Hc Hv HF Hb. pose proof (idx_bound cpu Hc) as Hn. cbv zeta.
  unfold reset_by_cpu_index, SUB_INDEX, BPL.
  destruct (reset_spec r (cpu / 64 + 1) H ltac:(lia) Hn) as (S0 & I0 & _).
  destruct (fill_all_gen _ _ v b S0 Hv) as (S1 & I1 & G1).
  set (r2 := with_inf _ b) in *.
  rewrite (G1 (cpu / 64)) by lia.
  destruct (wr_shape r2 _ (cpu / 64) (F v) S1 ltac:(lia) HF) as (S2 & I2 & G2).
  split; [eapply wf_of_shape; eauto; lia|].
  intros i. destruct (N.lt_ge_cases i (cpu / 64 + 1)) as [Hi|Hi].
  - rewrite (rd_shape_in _ _ _ S2 Hi), G2. destruct (N.eqb_spec i (cpu / 64)); auto.
  - rewrite (rd_shape_out _ _ _ S2 Hi). replace (i =? cpu / 64) with false by (symmetry; apply N.eqb_neq; lia).
    unfold inf_word. rewrite I2, I1. exact Hb.
Qed.

Theorem bm_only_spec r cpu : wf r -> cpu < IDXMAX ->
  wf (bm_only r cpu) /\ abs (bm_only r cpu) = bs_single cpu.
Proof.
  intros H Hc. pose proof (SUB_CPU_lt cpu) as Hl.
  destruct (only_gen ZEROW false (fun w => N.lor w (SUB_CPU cpu)) r cpu H Hc ZEROW_lt) as [W E]; [exact Hl|reflexivity|].
  split; [exact W|]. apply lift0; [exact W|]. intros k.
  unfold bm_only, bm_zero_all. rewrite E, mem_single, same_index.
  destruct (N.eqb_spec (k / 64) (cpu / 64)); cbn [andb].
  - unfold ZEROW. rewrite N.lor_0_l, SUB_CPU_bit. reflexivity.
  - unfold ZEROW. now rewrite N.bits_0.
Qed.

Theorem bm_allbut_spec r cpu : wf r -> cpu < IDXMAX ->
  wf (bm_allbut r cpu) /\ abs (bm_allbut r cpu) = bs_compl (bs_single cpu).
Proof.
  intros H Hc. pose proof (SUB_CPU_lt cpu) as Hl.
  destruct (only_gen FULL true (fun w => N.land w (wnot (SUB_CPU cpu))) r cpu H Hc FULL_lt) as [W E];
    [apply land_lt, FULL_lt|reflexivity|].
  split; [exact W|]. apply lift0; [exact W|]. intros k.
  assert (Hm : k mod 64 < 64) by (apply N.mod_lt; discriminate).
  unfold bm_allbut, bm_fill_all. rewrite E, mem_compl, mem_single, same_index.
  destruct (N.eqb_spec (k / 64) (cpu / 64)); cbn [andb].
  - rewrite N.land_spec, wnot_spec, SUB_CPU_bit, testbit_FULL by assumption.
    apply N.ltb_lt in Hm. rewrite Hm. reflexivity.
  - rewrite testbit_FULL. apply N.ltb_lt in Hm. rewrite Hm. reflexivity.
Qed.

(* ---------------- from_ulong / from_ith_ulong / from_ulongs / set_ith_ulong ---------------- *)
Theorem bm_from_ith_ulong_spec r i mask : wf r -> i < MAXC -> mask < U64 ->
  wf (bm_from_ith_ulong r i mask) /\ abs (bm_from_ith_ulong r i mask) = sp_from_ith i mask.
Proof.
  intros H Hi Hm. unfold bm_from_ith_ulong.
  replace ((i + 1) mod U32) with (i + 1) by (symmetry; apply N.mod_small; unfold MAXC, U32 in *; lia).
  destruct (reset_spec r (i + 1) H ltac:(lia) ltac:(lia)) as (S0 & I0 & _).
  destruct (wr_shape _ _ i mask S0 ltac:(lia) Hm) as (S1 & I1 & G1).
  destruct (for_wr_shape _ (i + 1) 0 i (fun _ => ZEROW) S1 ltac:(lia)) as (S2 & I2 & G2); [intros; apply ZEROW_lt|].
  pose proof (with_inf_shape _ _ false S2) as S3.
  set (r3 := with_inf _ false) in *.
  assert (W : wf r3) by (eapply wf_of_shape; eauto; lia).
  assert (E : forall j, rd r3 j = if j =? i then mask else 0).
  { intros j. destruct (N.lt_ge_cases j (i + 1)) as [Hj|Hj].
    - rewrite (rd_shape_in _ _ _ S3 Hj). unfold r3. cbn [with_inf words]. rewrite G2, G1.
      destruct (N.eqb_spec j i) as [->|].
      + replace (i <? i) with false by (symmetry; apply N.ltb_ge; lia). rewrite andb_false_r. reflexivity.
      + replace (0 <=? j) with true by (symmetry; apply N.leb_le; lia).
        replace (j <? i) with true by (symmetry; apply N.ltb_lt; lia). reflexivity.
    - rewrite (rd_shape_out _ _ _ S3 Hj). replace (j =? i) with false by (symmetry; apply N.eqb_neq; lia). reflexivity. }
  split; [exact W|]. apply lift0; [exact W|]. intros k. rewrite E.
  unfold sp_from_ith. rewrite mem_of_N.
  pose proof (N.div_mod k 64 ltac:(discriminate)) as Dk. pose proof (N.mod_lt k 64 ltac:(discriminate)) as Mk.
  destruct (N.eqb_spec (k / 64) i) as [Ei|Ei].
  - rewrite N.shiftl_spec_high' by lia. f_equal. lia.
  - destruct (N.lt_ge_cases k (64 * i)) as [Hlt|Hge].
    + rewrite N.shiftl_spec_low by assumption. now rewrite N.bits_0.
    + rewrite N.shiftl_spec_high' by assumption. rewrite N.bits_0. apply bits_high_lt; [assumption|]. nia.
Qed.

Theorem bm_from_ulong_spec r mask : wf r -> mask < U64 ->
  wf (bm_from_ulong r mask) /\ abs (bm_from_ulong r mask) = bs_of_N mask.
Proof.
  intros H Hm. unfold bm_from_ulong.
  destruct (reset_spec r 1 H ltac:(lia) ltac:(unfold MAXC; lia)) as (S0 & I0 & _).
  destruct (wr_shape _ _ 0 mask S0 ltac:(lia) Hm) as (S1 & I1 & G1).
  pose proof (with_inf_shape _ _ false S1) as S3.
  set (r3 := with_inf _ false) in *.
  assert (W : wf r3) by (eapply wf_of_shape; eauto; unfold MAXC; lia).
  split; [exact W|]. apply lift0; [exact W|]. intros k. rewrite mem_of_N.
  pose proof (N.div_mod k 64 ltac:(discriminate)) as Dk. pose proof (N.mod_lt k 64 ltac:(discriminate)) as Mk.
  destruct (N.lt_ge_cases (k / 64) 1) as [Hj|Hj].
  - rewrite (rd_shape_in _ _ _ S3 Hj). unfold r3. cbn [with_inf words]. rewrite G1.
    replace (k / 64) with 0 in * by lia. cbn [N.eqb]. f_equal. lia.
  - rewrite (rd_shape_out _ _ _ S3 Hj). unfold r3, inf_word. cbn [with_inf infinite]. unfold ZEROW. rewrite N.bits_0.
    apply bits_high_lt; [assumption|nia].
Qed.

Lemma sp_wval_eq ws : sp_wval ws = wval ws.
Proof. induction ws as [|w t IH]; simpl; [reflexivity|]. now rewrite IH. Qed.

Theorem bm_from_ulongs_spec r nr masks : wf r -> 1 <= nr -> nr <= MAXC ->
  N.of_nat (length masks) = nr -> Forall (fun w => w < U64) masks ->
  wf (bm_from_ulongs r nr masks) /\ abs (bm_from_ulongs r nr masks) = sp_from_ulongs masks.
Proof.
  intros H H1 H2 Hl Hm. unfold bm_from_ulongs.
  destruct (reset_spec r nr H H1 H2) as (S0 & I0 & _).
  destruct (for_wr_shape _ nr 0 nr (getw masks) S0 ltac:(lia)) as (S1 & I1 & G1).
  { intros j Hj. apply (getw_in (fun w => w < U64)); [assumption|lia]. }
  pose proof (with_inf_shape _ _ false S1) as S3.
  set (r3 := with_inf _ false) in *.
  assert (W : wf r3) by (eapply wf_of_shape; eauto).
  split; [exact W|]. apply lift0; [exact W|]. intros k.
  unfold sp_from_ulongs. rewrite mem_of_N, sp_wval_eq, wval_testbit by assumption. rewrite Hl.
  destruct (N.ltb_spec (k / 64) nr) as [Hj|Hj].
  - rewrite (rd_shape_in _ _ _ S3 Hj). unfold r3. cbn [with_inf words]. rewrite G1.
    replace (0 <=? k / 64) with true by (symmetry; apply N.leb_le; lia).
    replace (k / 64 <? nr) with true by (symmetry; apply N.ltb_lt; lia). reflexivity.
  - rewrite (rd_shape_out _ _ _ S3 Hj). unfold r3, inf_word. cbn [with_inf infinite]. unfold ZEROW. now rewrite N.bits_0.
Qed.

Theorem bm_set_ith_ulong_spec r i mask : wf r -> i < MAXC -> mask < U64 ->
  wf (bm_set_ith_ulong r i mask) /\ abs (bm_set_ith_ulong r i mask) = sp_set_ith (abs r) i mask.
Proof.
  intros H Hi Hm. unfold bm_set_ith_ulong.
  replace ((i + 1) mod U32) with (i + 1) by (symmetry; apply N.mod_small; unfold MAXC, U32 in *; lia).
  destruct (realloc_spec r (i + 1) H ltac:(lia)) as (W1 & C1 & I1 & R1).
  set (r1 := realloc_by_ulongs r (i + 1)) in *.
  destruct (wr_shape r1 (count r1) i mask (shape_of_wf _ W1) ltac:(lia) Hm) as (S2 & I2 & G2).
  assert (W : wf (wr r1 i mask)) by (eapply wf_of_shape; eauto; apply W1).
  assert (E : forall j, rd (wr r1 i mask) j = if j =? i then mask else rd r j).
  { intros j. destruct (N.lt_ge_cases j (count r1)) as [Hlt|Hge].
    - rewrite (rd_shape_in _ _ _ S2 Hlt), G2. destruct (N.eqb_spec j i); [reflexivity|].
      rewrite <- R1, rd_in by assumption. reflexivity.
    - rewrite (rd_shape_out _ _ _ S2 Hge). replace (j =? i) with false by (symmetry; apply N.eqb_neq; lia).
      rewrite <- R1, rd_out by assumption. unfold inf_word. now rewrite I2. }
  split; [exact W|]. apply bs_ext. intros k. rewrite mem_abs, E by assumption.
  unfold sp_set_ith, sp_from_ith. rewrite mem_union, mem_diff, mem_range, mem_of_N, (mem_abs r k H).
  pose proof (N.div_mod k 64 ltac:(discriminate)) as Dk. pose proof (N.mod_lt k 64 ltac:(discriminate)) as Mk.
  destruct (N.eqb_spec (k / 64) i) as [Ei|Ei].
  - replace (64 * i <=? k) with true by (symmetry; apply N.leb_le; lia).
    replace (k <? 64 * i + 64) with true by (symmetry; apply N.ltb_lt; lia).
    cbn [andb negb]. rewrite andb_false_r. cbn [orb].
    rewrite N.shiftl_spec_high' by lia. f_equal. lia.
  - destruct (N.lt_ge_cases k (64 * i)) as [Hlt|Hge].
    + rewrite N.shiftl_spec_low by assumption.
      replace (64 * i <=? k) with false by (symmetry; apply N.leb_gt; lia).
      cbn [andb negb]. now rewrite andb_true_r, orb_false_r.
    + rewrite N.shiftl_spec_high' by assumption.
      rewrite (bits_high_lt mask) by (try assumption; nia).
      replace (k <? 64 * i + 64) with false by (symmetry; apply N.ltb_ge; nia).
      rewrite andb_false_r. cbn [negb]. now rewrite andb_true_r, orb_false_r.
Qed.

(* ---------------- isset / to_ulong(s) ---------------- *)
Lemma land_pow2_eq0 w j : (N.land w (2 ^ j) =? 0) = negb (N.testbit w j).
Proof.
  destruct (N.testbit w j) eqn:E; cbn [negb].
  - apply N.eqb_neq. intros Z. assert (B : N.testbit (N.land w (2 ^ j)) j = true).
    { rewrite N.land_spec, E, N.pow2_bits_true. reflexivity. }
    rewrite Z, N.bits_0 in B. discriminate.
  - apply N.eqb_eq. apply N.bits_inj. intros k. rewrite N.land_spec, N.bits_0, N.pow2_bits_eqb.
    destruct (N.eqb_spec j k) as [->|]; [now rewrite E|apply andb_false_r].
Qed.

Theorem bm_isset_spec r cpu : wf r -> bm_isset r cpu = sp_isset (abs r) cpu.
Proof.
  intros H. unfold bm_isset, sp_isset, SUB_INDEX, BPL. rewrite SUB_CPU_pow, land_pow2_eq0, negb_involutive.
  rewrite mem_abs by assumption. reflexivity.
Qed.

Lemma sp_word_lt s i : sp_word s i < U64.
Proof.
  unfold sp_word. apply lxor_lt; [apply land_lt_r; reflexivity|]. destruct (inf s); reflexivity.
Qed.

Theorem rd_sp_word r i : wf r -> rd r i = sp_word (abs r) i.
Proof.
  intros H. apply word_ext; [apply rd_lt; assumption|apply sp_word_lt|].
  intros j Hj. destruct (split64 i j Hj) as [E1 E2].
  pose proof (mem_abs r (64 * i + j) H) as M. rewrite E1, E2 in M. rewrite <- M.
  unfold sp_word, mem. rewrite N.lxor_spec, N.land_spec, N.shiftr_spec', N.ones_spec_low, andb_true_r by assumption.
  f_equal; [f_equal; lia|]. destruct (inf (abs r)).
  - symmetry. apply N.ones_spec_low. assumption.
  - symmetry. apply N.bits_0.
Qed.

Theorem bm_to_ith_ulong_spec r i : wf r -> bm_to_ith_ulong r i = sp_word (abs r) i.
Proof. apply rd_sp_word. Qed.
Theorem bm_to_ulong_spec r : wf r -> bm_to_ulong r = sp_word (abs r) 0.
Proof.
  intros H. rewrite <- rd_sp_word by assumption. unfold bm_to_ulong. symmetry. apply rd_in.
  pose proof (wf_count1 r H). lia.
Qed.
Theorem bm_to_ulongs_spec r nr : wf r -> bm_to_ulongs r nr = map (sp_word (abs r)) (range 0 nr).
Proof. intros H. unfold bm_to_ulongs. apply map_ext. intros i. now apply rd_sp_word. Qed.
