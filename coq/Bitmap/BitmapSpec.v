(* The documented behaviour of every hwloc_bitmap_* function (bitmap.h), stated
   on the abstract finite-or-cofinite set (Base/BSet.v) only.  These are the
   right-hand sides of the C03 theorems, and (extracted) the executable spec
   that checks/c03.py evaluates on the outputs of the C code.  Definitions
   only. *)
From Coq Require Import NArith ZArith Bool List.
From HV Require Import Base.BSet.
Import ListNotations.
Local Open Scope N_scope.

Definition zb (b : bool) : Z := if b then 1%Z else 0%Z.
Definition zopt (o : option N) : Z := match o with Some k => Z.of_N k | None => (-1)%Z end.

Definition sp_isset (s : bset) (i : N) : Z := zb (mem i s).
Definition sp_iszero (s : bset) : Z := zb (bs_is_empty s).
Definition sp_isfull (s : bset) : Z := zb (bs_is_full s).
Definition sp_first (s : bset) : Z := zopt (bs_first s).
Definition sp_first_unset (s : bset) : Z := zopt (bs_first_unset s).
Definition sp_last (s : bset) : Z := zopt (bs_last s).
Definition sp_last_unset (s : bset) : Z := zopt (bs_last_unset s).
(* next index strictly after prev (prev = -1: first) *)
Definition sp_next (s : bset) (prev : Z) : Z := zopt (bs_first (bs_inter s (bs_from (Z.to_N (prev + 1))))).
Definition sp_next_unset (s : bset) (prev : Z) : Z := sp_next (bs_compl s) prev.
Definition sp_weight (s : bset) : Z := zopt (bs_weight s).
(* number of ulongs needed to hold the set, -1 if infinite, 0 if empty *)
Definition sp_nr_ulongs (s : bset) : Z :=
  if inf s then (-1)%Z else match bs_last s with None => 0%Z | Some k => Z.of_N (k / 64 + 1) end.
Definition sp_isequal (a b : bset) : Z := zb (bs_eqb a b).
Definition sp_isincluded (a b : bset) : Z := zb (bs_subset a b).
Definition sp_intersects (a b : bset) : Z := zb (bs_intersects a b).

(* word i of the set *)
Definition sp_word (s : bset) (i : N) : N :=
  N.lxor (N.land (N.shiftr (fin s) (64 * i)) (N.ones 64)) (if inf s then N.ones 64 else 0).

(* compare_first: sign of (least index of a) - (least index of b); the empty
   set has no least index and is "higher than anything". *)
Definition cmpN (x y : N) : Z := match N.compare x y with Lt => (-1)%Z | Eq => 0%Z | Gt => 1%Z end.
Definition cmp_optN_top (a b : option N) : Z :=   (* None = +oo *)
  match a, b with
  | None, None => 0%Z
  | None, Some _ => 1%Z
  | Some _, None => (-1)%Z
  | Some x, Some y => cmpN x y
  end.
Definition sp_compare_first (a b : bset) : Z := cmp_optN_top (bs_first a) (bs_first b).

(* compare: lexicographic from the highest index: the set owning the highest
   index at which they differ is the larger one; an infinitely-set bitmap is
   larger than a finite one; the empty set is lower than anything. *)
Definition sp_compare (a b : bset) : Z :=
  match inf a, inf b with
  | false, false => cmpN (fin a) (fin b)
  | true, true => cmpN (fin b) (fin a)
  | true, false => 1%Z
  | false, true => (-1)%Z
  end.

Definition sp_compare_inclusion (a b : bset) : Z :=
  if bs_eqb a b then 0%Z                      (* HWLOC_BITMAP_EQUAL (both empty included) *)
  else if bs_subset a b then 1%Z              (* INCLUDED *)
  else if bs_subset b a then 2%Z              (* CONTAINS *)
  else if bs_intersects a b then 3%Z          (* INTERSECTS *)
  else 4%Z.                                   (* DIFFERENT *)

(* modifiers *)
Definition sp_range (s : bset) (add : bool) (b : N) (e : Z) : bset :=
  let rng := if (e =? -1)%Z then bs_from b
             else if (e <? Z.of_N b)%Z then bs_empty
             else bs_range b (Z.to_N e - b + 1) in
  if add then bs_union s rng else bs_diff s rng.
Definition sp_singlify (s : bset) : bset :=
  match bs_first s with None => bs_empty | Some k => bs_single k end.
Definition sp_from_ith (i m : N) : bset := bs_of_N (N.shiftl m (64 * i)).
Definition sp_set_ith (s : bset) (i m : N) : bset :=
  bs_union (bs_diff s (bs_range (64 * i) 64)) (sp_from_ith i m).
Fixpoint sp_wval (ws : list N) : N :=
  match ws with [] => 0 | w :: t => w + 18446744073709551616 * sp_wval t end.
Definition sp_from_ulongs (ws : list N) : bset := bs_of_N (sp_wval ws).
