(* C04: general round trip of the list format (hwloc_bitmap_list_snprintf then
   hwloc_bitmap_list_sscanf), by: decimal printing lemmas, one-iteration lemma of
   the parser standing at a printed number, the printed text as join of ranges,
   semantics of the ranges found by next/next_unset. *)
From Coq Require Import String Ascii.
From Coq Require Import NArith ZArith PeanoNat List Bool Lia.
From HV Require Import Base.BSet Base.Bytes Base.Strto Base.Snprintf Bitmap.BitmapText Bitmap.BitmapTextProofs.
Import ListNotations.
Local Open Scope N_scope.

(* ---------- decimal digits ---------- *)
Lemma digit_48 d : d < 10 -> is_digit_in 10 (48 + d) = true /\ digit_of (48 + d) = d.
Proof.
  intros H. unfold is_digit_in, digit_of, digit_val, isdigit.
  destruct (N.leb_spec 48 (48 + d)); [|lia]. destruct (N.leb_spec (48 + d) 57); [|lia].
  cbn [andb]. replace (48 + d - 48) with d by lia. split; [now apply N.ltb_lt|reflexivity].
Qed.

Lemma dec_fixed_spec k : forall v,
  all_digits 10 (dec_fixed k v) /\ digits_val 10 (dec_fixed k v) = v mod 10 ^ N.of_nat k /\
  length (dec_fixed k v) = k.
Proof.
  induction k as [|k IH]; intros v.
  - cbn [dec_fixed]. split; [constructor|]. split; [|reflexivity].
    unfold digits_val. simpl. now rewrite N.mod_1_r.
  - cbn [dec_fixed]. destruct (IH (v / 10)) as [Hd [Hv Hl]].
    assert (Hm : v mod 10 < 10) by (apply N.mod_upper_bound; discriminate).
    destruct (digit_48 _ Hm) as [D1 D2].
    split; [|split].
    + apply Forall_app. split; [exact Hd|]. constructor; [exact D1|constructor].
    + rewrite digits_val_app, Hv, D2. rewrite Nat2N.inj_succ, N.pow_succ_r'.
      rewrite N.mod_mul_r by (try discriminate; apply N.pow_nonzero; discriminate).
      lia.
    + rewrite app_length, Hl. simpl. lia.
Qed.

Lemma digits_val_cons0 b t : digits_val b (48 :: t) = digits_val b t.
Proof. unfold digits_val. cbn [fold_left]. reflexivity. Qed.

Lemma strip0_spec l : l <> [] -> all_digits 10 l ->
  strip0 l <> [] /\ all_digits 10 (strip0 l) /\ digits_val 10 (strip0 l) = digits_val 10 l /\
  (nth 0 (strip0 l) 0 <> 48 \/ strip0 l = [48]).
Proof.
  induction l as [|d t IH]; intros Hne Hd; [congruence|].
  destruct t as [|d' t'].
  - cbn [strip0]. split; [discriminate|]. split; [exact Hd|]. split; [reflexivity|].
    destruct (N.eq_dec d 48) as [->|]; [now right|now left].
  - change (strip0 (d :: d' :: t')) with (if d =? 48 then strip0 (d' :: t') else d :: d' :: t').
    destruct (N.eqb_spec d 48) as [->|Hd48].
    + inversion Hd as [|x l Hx Hl]; subst. destruct (IH ltac:(discriminate) Hl) as [A [B [C D]]].
      split; [exact A|]. split; [exact B|]. split; [|exact D]. now rewrite digits_val_cons0.
    + split; [discriminate|]. split; [exact Hd|]. split; [reflexivity|]. now left.
Qed.

Lemma dec_spec v :
  dec v <> [] /\ all_digits 10 (dec v) /\ digits_val 10 (dec v) = v /\ (nth 0 (dec v) 0 <> 48 \/ dec v = [48]).
Proof.
  unfold dec. set (k := S (N.to_nat (N.size v))).
  destruct (dec_fixed_spec k v) as [Hd [Hv Hl]].
  assert (Hne : dec_fixed k v <> []). { intros E. rewrite E in Hl. unfold k in Hl. discriminate. }
  destruct (strip0_spec _ Hne Hd) as [A [B [C D]]].
  split; [exact A|]. split; [exact B|]. split; [|exact D].
  rewrite C, Hv. apply N.mod_small.
  assert (v < 2 ^ N.size v) by apply N.size_gt.
  assert (2 ^ N.size v <= 10 ^ N.size v) by (apply N.pow_le_mono_l; lia).
  assert (10 ^ N.size v <= 10 ^ N.of_nat k).
  { apply N.pow_le_mono_r; [discriminate|]. unfold k. lia. }
  lia.
Qed.
Lemma scan_while_here p s i b : rd s i = Some b -> p b = false -> scan_while p s i = Ok i.
Proof.
  intros Hb Pb. apply scan_while_spec. split; [lia|]. split; [eauto|]. intros m Hm; lia.
Qed.

Lemma strtoul_dec pre v t post : is_digit_in 10 t = false -> toupper t <> 88 -> v <= ULONG_MAX ->
  strtoul (pre ++ dec v ++ t :: post) (len pre) 0 = Ok (v, len pre + len (dec v)).
Proof.
  intros Ht Hx Hv. destruct (dec_spec v) as [A [B [C D]]].
  pose proof (strto_core_dec pre (dec v) t post A B Ht Hx D) as H.
  rewrite (strtoul_of_core _ _ _ _ H); cbn [sr_neg sr_mag sr_end]; rewrite ?C; auto.
Qed.

Lemma to_long_small v : v < 9223372036854775808 -> to_long v = Z.of_N v.
Proof. intros H. unfold to_long. destruct (N.ltb_spec v 9223372036854775808); [reflexivity|lia]. Qed.
Lemma to_unsigned_small v : v < 4294967296 -> to_unsigned (Z.of_N v) = v.
Proof. intros H. unfold to_unsigned. rewrite Z.mod_small by lia. apply N2Z.id. Qed.

Lemma digit_not_sep c : is_digit_in 10 c = true -> is_sep c = false /\ c <> 0.
Proof.
  intros H. split.
  - unfold is_sep. pose proof (isspace_digit 10 c H) as Hs. unfold isspace in Hs.
    apply orb_false_iff in Hs. destruct Hs as [H32 _]. rewrite H32, orb_false_r.
    apply N.eqb_neq. intros ->. discriminate.
  - intros ->. discriminate.
Qed.

(* one iteration of the list parser standing at a printed number *)
Lemma LS_head f pre v t post begin set :
  is_digit_in 10 t = false -> toupper t <> 88 -> v < 2147483648 ->
  let s := pre ++ dec v ++ t :: post in
  let e := len pre + len (dec v) in
  list_sscanf_loop (S f) s (len pre) begin set =
  (let* st :=
     (if negb (begin =? -1)%Z then Ok (false, (-1)%Z, set_range_model set begin (Z.of_N v))
      else if t =? 45 then
        let* n1 := rdr s (N.succ e) in
        if n1 =? 0 then Ok (true, begin, set_range_model set (Z.of_N v) (-1))
        else Ok (false, Z.of_N v, set)
      else if is_sep t || (t =? 0) then Ok (false, begin, bs_add v set)
      else Ok (false, begin, set)) in
   let '(stop, begin, set) := st in
   if stop then Ok (Some set)
   else if t =? 0 then Ok (Some set)
   else list_sscanf_loop f s (N.succ e) begin set).
Proof.
  intros Ht Hx Hv s e. destruct (dec_spec v) as [A [B [C D]]].
  cbn [list_sscanf_loop].
  destruct (dec v) as [|d0 ds] eqn:Ed; [congruence|]. inversion B as [|x l Hd0 Hds]; subst x l.
  destruct (digit_not_sep d0 Hd0) as [Hsep Hnz].
  assert (R0 : rd s (len pre) = Some d0) by (unfold s; cbn [app]; apply rd_app_mid).
  unfold rdr at 1. rewrite R0. cbn [bind]. apply N.eqb_neq in Hnz. rewrite Hnz.
  rewrite (scan_while_here is_sep s (len pre) d0 R0 Hsep). cbn [bind].
  unfold s at 1. rewrite <- Ed. rewrite (strtoul_dec pre v t post Ht Hx) by (unfold ULONG_MAX; lia).
  cbn [bind]. rewrite Ed. fold e.
  rewrite to_long_small by lia.
  destruct (N.eqb_spec e (len pre)) as [E|_]; [unfold e in E; rewrite len_cons in E; lia|].
  assert (Rt : rd s e = Some t).
  { unfold s, e. rewrite <- Ed. rewrite app_assoc. rewrite <- len_app. apply rd_app_mid. }
  unfold rdr at 1. rewrite Rt. cbn [bind].
  rewrite to_unsigned_small by lia. reflexivity.
Qed.

(* ---------- the printed text as a list of ranges ---------- *)
Inductive lrange := RSingle (b : N) | RSpan (b e : N) | RFrom (b : N).
Definition render (r : lrange) : list N :=
  match r with
  | RSingle b => dec b
  | RSpan b e => dec b ++ 45 :: dec e
  | RFrom b => dec b ++ [45]
  end.
Fixpoint join (rs : list lrange) : list N :=
  match rs with
  | [] => []
  | r :: rest => render r ++ match rest with [] => [] | _ => COMMA :: join rest end
  end.
Definition apply_range (set : bset) (r : lrange) : bset :=
  match r with
  | RSingle b => bs_add b set
  | RSpan b e => bs_union set (bs_range b (e - b + 1))
  | RFrom b => bs_union set (bs_from b)
  end.
Definition range_ok (r : lrange) : Prop :=
  match r with
  | RSingle b => b < 2147483648
  | RSpan b e => b < e /\ e < 2147483648
  | RFrom b => b < 2147483648
  end.
Definition is_from (r : lrange) : bool := match r with RFrom _ => true | _ => false end.
Fixpoint ranges_ok (rs : list lrange) : Prop :=
  match rs with
  | [] => True
  | r :: rest => range_ok r /\ (rest <> [] -> is_from r = false) /\ ranges_ok rest
  end.

Lemma dec_len_pos v : (1 <= length (dec v))%nat.
Proof. destruct (dec_spec v) as [A _]. destruct (dec v); [congruence|simpl; lia]. Qed.

Lemma set_range_span set b e : b < e -> e < 2147483648 ->
  set_range_model set (Z.of_N b) (Z.of_N e) = bs_union set (bs_range b (e - b + 1)).
Proof.
  intros H1 H2. unfold set_range_model. rewrite !to_unsigned_small by lia.
  destruct (N.ltb_spec e b); [lia|]. destruct (N.eqb_spec e FULL32) as [E|_]; [unfold FULL32 in E; lia|reflexivity].
Qed.
Lemma set_range_from set b : b < 2147483648 ->
  set_range_model set (Z.of_N b) (-1) = bs_union set (bs_from b).
Proof.
  intros H. unfold set_range_model. rewrite to_unsigned_small by lia.
  change (to_unsigned (-1)) with 4294967295.
  destruct (N.ltb_spec 4294967295 b); [lia|]. reflexivity.
Qed.

Lemma len_snoc (a : list N) c : len (a ++ [c]) = N.succ (len a).
Proof. rewrite len_app. unfold len. simpl. lia. Qed.

Lemma join_len r rest : length (join (r :: rest)) =
  (length (render r) + match rest with [] => 0 | _ => S (length (join rest)) end)%nat.
Proof. cbn [join]. rewrite app_length. destruct rest; reflexivity. Qed.
Lemma render_len r : (match r with RSingle _ => 1 | RSpan _ _ => 3 | RFrom _ => 2 end <= length (render r))%nat.
Proof.
  destruct r as [b|b e|b]; cbn [render]; rewrite ?app_length; cbn [length];
  pose proof (dec_len_pos b); try pose proof (dec_len_pos e); lia.
Qed.

Lemma parse_join : forall rs pre set f,
  ranges_ok rs -> (length (join rs) < f)%nat ->
  list_sscanf_loop f (pre ++ join rs ++ [0]) (len pre) (-1) set = Ok (Some (fold_left apply_range rs set)).
Proof.
  induction rs as [|r rest IH]; intros pre set f Hok Hf.
  - destruct f; [simpl in Hf; lia|]. cbn [join app list_sscanf_loop fold_left].
    unfold rdr. rewrite rd_app_mid. reflexivity.
  - destruct Hok as [Hr [Hnf Hrest]].
    rewrite join_len in Hf. pose proof (render_len r) as Hrl.
    (* the character after this range and what follows *)
    set (t := match rest with [] => 0 | _ => COMMA end).
    set (post := match rest with [] => [] | _ => join rest ++ [0] end).
    assert (Etxt : forall pre', pre' ++ join (r :: rest) ++ [0] = pre' ++ render r ++ t :: post).
    { intros pre'. cbn [join]. unfold t, post. destruct rest; rewrite <- ?app_assoc; reflexivity. }
    assert (Ht : is_digit_in 10 t = false /\ toupper t <> 88 /\ (t =? 45) = false /\ (is_sep t || (t =? 0)) = true).
    { unfold t. destruct rest; repeat split; discriminate. }
    destruct Ht as [Ht1 [Ht2 [Ht3 Ht4]]].
    (* continuation after a complete range *)
    assert (Cont : forall f' pre' set', (length (join rest) < f' \/ rest = [])%nat ->
              (if t =? 0 then Ok (Some set')
               else list_sscanf_loop f' (pre' ++ t :: post) (N.succ (len pre')) (-1) set')
              = Ok (Some (fold_left apply_range rest set'))).
    { intros f' pre' set' Hf'. unfold t, post. destruct rest as [|r2 rest2]; [reflexivity|].
      change (COMMA =? 0) with false. cbv iota.
      replace (pre' ++ COMMA :: join (r2 :: rest2) ++ [0]) with ((pre' ++ [COMMA]) ++ join (r2 :: rest2) ++ [0])
        by (rewrite <- app_assoc; reflexivity).
      replace (N.succ (len pre')) with (len (pre' ++ [COMMA])) by apply len_snoc. apply IH; [exact Hrest|]. destruct Hf' as [H|H]; [exact H|discriminate]. }
    rewrite Etxt. cbn [fold_left].
    remember (length (render r)) as lr eqn:Elr. clear Elr.
    destruct r as [b|b e|b]; cbn [render range_ok apply_range] in *.
    + (* single index *)
      destruct f as [|f]; [lia|].
      rewrite (LS_head f pre b t post (-1) set Ht1 Ht2 Hr). cbv zeta.
      change (negb (-1 =? -1)%Z) with false. cbv iota. rewrite Ht3, Ht4. cbn [bind].
      replace (pre ++ dec b ++ t :: post) with ((pre ++ dec b) ++ t :: post) by (rewrite <- app_assoc; reflexivity).
      rewrite <- len_app. apply Cont.
      destruct rest; [now right|left]. lia.
    + (* b-e *)
      destruct Hr as [Hbe He].
      destruct f as [|f]; [lia|].
      replace (pre ++ (dec b ++ 45 :: dec e) ++ t :: post) with (pre ++ dec b ++ 45 :: (dec e ++ t :: post))
        by (rewrite <- !app_assoc; reflexivity).
      rewrite (LS_head f pre b 45 (dec e ++ t :: post) (-1) set eq_refl ltac:(discriminate) ltac:(lia)). cbv zeta.
      change (negb (-1 =? -1)%Z) with false. cbv iota. change (45 =? 45) with true. cbv iota.
      (* the byte after '-' is the first digit of e *)
      destruct (dec_spec e) as [A [B _]]. destruct (dec e) as [|d0 ds] eqn:Ed; [congruence|].
      inversion B as [|x l Hd0 _]; subst x l. destruct (digit_not_sep d0 Hd0) as [_ Hnz].
      replace (pre ++ dec b ++ 45 :: (d0 :: ds) ++ t :: post) with ((pre ++ dec b ++ [45]) ++ d0 :: ds ++ t :: post)
        by (rewrite <- !app_assoc; reflexivity).
      replace (N.succ (len pre + len (dec b))) with (len (pre ++ dec b ++ [45]))
        by (rewrite app_assoc, len_snoc, len_app; reflexivity).
      unfold rdr at 1. rewrite rd_app_mid. cbn [bind]. apply N.eqb_neq in Hnz. rewrite Hnz.
      change (45 =? 0) with false. cbv iota.
      (* second iteration: finishing the range *)
      destruct f as [|f].
      { exfalso. lia. }
      change (d0 :: ds ++ t :: post) with ((d0 :: ds) ++ t :: post). rewrite <- Ed. cbn [bind].
      rewrite (LS_head f (pre ++ dec b ++ [45]) e t post (Z.of_N b) set Ht1 Ht2 He). cbv zeta.
      assert (Eb : negb (Z.of_N b =? -1)%Z = true) by (apply negb_true_iff, Z.eqb_neq; lia).
      rewrite Eb. cbn [bind]. rewrite (set_range_span set b e Hbe He).
      replace ((pre ++ dec b ++ [45]) ++ dec e ++ t :: post) with (((pre ++ dec b ++ [45]) ++ dec e) ++ t :: post)
        by (rewrite <- !app_assoc; reflexivity).
      rewrite <- len_app. apply Cont.
      destruct rest; [now right|left]. lia.
    + (* b- : only as the last range *)
      assert (rest = []). { destruct rest; [reflexivity|]. specialize (Hnf ltac:(discriminate)). discriminate. }
      subst rest. unfold t, post. clear Cont.
      destruct f as [|f]; [lia|].
      replace (pre ++ (dec b ++ [45]) ++ [0]) with (pre ++ dec b ++ 45 :: [0]) by (rewrite <- !app_assoc; reflexivity).
      rewrite (LS_head f pre b 45 [0] (-1) set eq_refl ltac:(discriminate) Hr). cbv zeta.
      change (negb (-1 =? -1)%Z) with false. cbv iota. change (45 =? 45) with true. cbv iota.
      replace (pre ++ dec b ++ [45; 0]) with ((pre ++ dec b ++ [45]) ++ [0]) by (rewrite <- !app_assoc; reflexivity).
      replace (N.succ (len pre + len (dec b))) with (len (pre ++ dec b ++ [45]))
        by (rewrite app_assoc, len_snoc, len_app; reflexivity).
      unfold rdr. rewrite rd_app_mid. cbn [bind]. change (0 =? 0) with true. cbv iota. cbn [bind].
      now rewrite set_range_from.
Qed.

(* ---------- the printer emits join of the ranges of the set ---------- *)
Fixpoint list_ranges (fuel : nat) (s : bset) (from : N) : option (list lrange) :=
  match fuel with
  | O => None
  | S f =>
    match bs_next s from with
    | None => Some []
    | Some b =>
      match bs_next_unset s (N.succ b) with
      | None => Some [RFrom b]
      | Some e =>
        match list_ranges f s e with
        | Some r => Some ((if e =? N.succ b then RSingle b else RSpan b (N.pred e)) :: r)
        | None => None
        end
      end
    end
  end.

Lemma list_loop_ranges : forall fuel s from nc ps, list_loop fuel s from nc = Some ps ->
  exists rs, list_ranges fuel s from = Some rs /\
    concat ps = match rs with [] => [] | _ => (if nc then [COMMA] else []) ++ join rs end.
Proof.
  induction fuel as [|fuel IH]; intros s from nc ps H; [discriminate|].
  cbn [list_loop list_ranges] in *.
  destruct (bs_next s from) as [b|]; [|injection H as <-; exists []; split; reflexivity].
  destruct (bs_next_unset s (N.succ b)) as [e|].
  - destruct (list_loop fuel s e true) as [r|] eqn:El; [|discriminate]. injection H as <-.
    destruct (IH s e true r El) as [rs [-> Hc]].
    eexists. split; [reflexivity|]. cbn [concat]. rewrite Hc. cbn [join].
    destruct (e =? N.succ b); cbn [render]; destruct rs; rewrite <- ?app_assoc; cbn [app];
      rewrite ?app_nil_r; reflexivity.
  - injection H as <-. exists [RFrom b]. split; [reflexivity|].
    cbn [concat join render]. rewrite ?app_nil_r, <- ?app_assoc. reflexivity.
Qed.

Lemma bs_next_spec s from b : bs_next s from = Some b ->
  mem b s = true /\ from <= b /\ forall j, from <= j < b -> mem j s = false.
Proof.
  unfold bs_next. intros H. apply bs_first_some in H. destruct H as [H Hmin].
  rewrite mem_inter, mem_from in H. apply andb_true_iff in H. destruct H as [H1 H2]. apply N.leb_le in H2.
  split; [exact H1|]. split; [exact H2|]. intros j [Hj1 Hj2].
  specialize (Hmin j Hj2). rewrite mem_inter, mem_from in Hmin.
  apply N.leb_le in Hj1. rewrite Hj1, andb_true_r in Hmin. exact Hmin.
Qed.
Lemma bs_next_none s from : bs_next s from = None -> forall j, from <= j -> mem j s = false.
Proof.
  unfold bs_next. intros H j Hj. apply bs_first_none in H.
  assert (M : mem j (bs_inter s (bs_from from)) = false) by (rewrite H; apply mem_empty).
  rewrite mem_inter, mem_from in M. apply N.leb_le in Hj. now rewrite Hj, andb_true_r in M.
Qed.

Lemma list_ranges_sem : forall fuel s from rs,
  N.size (fin s) < 2147483648 -> from <= N.size (fin s) ->
  list_ranges fuel s from = Some rs ->
  ranges_ok rs /\
  forall set i, mem i (fold_left apply_range rs set) = mem i set || ((from <=? i) && mem i s).
Proof.
  induction fuel as [|fuel IH]; intros s from rs Hsz Hfrom H; [discriminate|].
  cbn [list_ranges] in H.
  destruct (bs_next s from) as [b|] eqn:Eb.
  2:{ injection H as <-. split; [exact I|]. intros set i. cbn [fold_left].
      destruct (N.leb_spec from i) as [Hi|Hi]; cbn [andb]; [|now rewrite orb_false_r].
      rewrite (bs_next_none s from Eb i Hi). now rewrite orb_false_r. }
  destruct (bs_next_spec s from b Eb) as [Mb [Hfb Hminb]].
  (* b is at most the size of fin *)
  assert (Hb : b <= N.size (fin s)).
  { destruct (N.le_gt_cases b (N.size (fin s))) as [|Hgt]; [assumption|exfalso].
    assert (M1 : mem (N.size (fin s)) s = false) by (apply Hminb; lia).
    rewrite mem_above_size in M1 by lia. rewrite mem_above_size in Mb by lia. congruence. }
  destruct (bs_next_unset s (N.succ b)) as [e|] eqn:Ee.
  - unfold bs_next_unset in Ee. destruct (bs_next_spec _ _ _ Ee) as [Me [Hbe Hmine]].
    rewrite mem_compl in Me. apply negb_true_iff in Me.
    assert (Hbetween : forall j, b <= j < e -> mem j s = true).
    { intros j Hj. destruct (N.eq_dec j b) as [->|Hne]; [exact Mb|].
      specialize (Hmine j ltac:(lia)). rewrite mem_compl in Hmine. now apply negb_false_iff in Hmine. }
    assert (He : e <= N.size (fin s)).
    { destruct (N.le_gt_cases e (N.size (fin s))) as [|Hgt]; [assumption|exfalso].
      assert (M1 : mem (N.size (fin s)) s = true) by (apply Hbetween; lia).
      rewrite mem_above_size in M1 by lia. rewrite mem_above_size in Me by lia. congruence. }
    destruct (list_ranges fuel s e) as [r|] eqn:Er; [|discriminate]. injection H as <-.
    destruct (IH s e r Hsz He Er) as [Hok Hsem].
    split.
    + cbn [ranges_ok]. split; [|split; [|exact Hok]].
      * destruct (N.eqb_spec e (N.succ b)); cbn [range_ok]; lia.
      * intros _. destruct (e =? N.succ b); reflexivity.
    + intros set i. cbn [fold_left]. rewrite Hsem.
      assert (Hr : mem i (apply_range set (if e =? N.succ b then RSingle b else RSpan b (N.pred e)))
                   = mem i set || ((b <=? i) && (i <? e))).
      { destruct (N.eqb_spec e (N.succ b)) as [->|Hne]; cbn [apply_range].
        - rewrite mem_add. rewrite orb_comm. f_equal.
          destruct (N.eqb_spec i b) as [->|Hib].
          + destruct (N.leb_spec b b); [|lia]. destruct (N.ltb_spec b (N.succ b)); [reflexivity|lia].
          + destruct (N.leb_spec b i); destruct (N.ltb_spec i (N.succ b)); try reflexivity; lia.
        - rewrite mem_union, mem_range. f_equal. f_equal.
          replace (b + (N.pred e - b + 1)) with e by lia. reflexivity. }
      rewrite Hr.
      destruct (N.leb_spec from i) as [H1|H1]; destruct (N.leb_spec b i) as [H2|H2];
      destruct (N.ltb_spec i e) as [H3|H3]; destruct (N.leb_spec e i) as [H4|H4]; try lia;
      cbn [andb orb]; rewrite ?orb_false_r, ?orb_true_r; try reflexivity.
      * rewrite (Hbetween i ltac:(lia)). now rewrite ?orb_true_r.
      * rewrite (Hminb i ltac:(lia)). now rewrite ?orb_false_r.
  - injection H as <-. unfold bs_next_unset in Ee.
    split; [cbn [ranges_ok range_ok]; repeat split; [lia|intros H; congruence]|].
    intros set i. cbn [fold_left apply_range]. rewrite mem_union, mem_from. f_equal.
    destruct (N.leb_spec from i) as [H1|H1]; destruct (N.leb_spec b i) as [H2|H2]; cbn [andb]; try lia; try reflexivity.
    + destruct (N.eq_dec i b) as [->|Hne]; [now rewrite Mb|].
      pose proof (bs_next_none _ _ Ee i ltac:(lia)) as M. rewrite mem_compl in M.
      apply negb_false_iff in M. now rewrite M.
    + symmetry. apply Hminb. lia.
Qed.

(* ---------- round trip of the list format, every set whose indexes fit an int ---------- *)
Theorem roundtrip_list_gen s : N.size (fin s) < 2147483648 ->
  exists t, text_list s = Some t /\ parse_list (t ++ [0]) = Ok (Some s).
Proof.
  intros Hsz. unfold text_list, pieces_list.
  destruct (list_loop (list_fuel s) s 0 false) as [ps|] eqn:E.
  2:{ exfalso. revert E. apply list_loop_fuel. unfold list_fuel. lia. }
  destruct (list_loop_ranges _ _ _ _ _ E) as [rs [Er Hc]].
  assert (Hj : concat ps = join rs) by (rewrite Hc; destruct rs; reflexivity).
  destruct (list_ranges_sem _ _ _ _ Hsz (N.le_0_l _) Er) as [Hok Hsem].
  exists (concat ps). split; [reflexivity|]. rewrite Hj.
  unfold parse_list.
  pose proof (parse_join rs [] bs_empty (S (length (join rs ++ [0]))) Hok) as P.
  cbn [app] in P. change (len []) with 0 in P. rewrite P by (rewrite app_length; lia).
  do 2 f_equal. apply bs_ext. intros i. rewrite Hsem, mem_empty. cbn [orb]. destruct (N.leb_spec 0 i); [reflexivity|lia].
Qed.
