(* Executable model of hwloc/bitmap.c (everything except the string
   conversions, which are C04).  A bitmap is the C struct as it is:

     struct hwloc_bitmap_s { unsigned ulongs_count; unsigned ulongs_allocated;
                             unsigned long *ulongs; int infinite; }

   [words] holds exactly the [ulongs_count] valid words.  The words between
   ulongs_count and ulongs_allocated are garbage in C; the model reads them as
   [POISON] (the C harness writes the same pattern there after every call, so
   that a read of a non-valid word is visible on both sides).

   The model is purely functional: a modifier returns the new value of its
   destination and reads its operands from their values at call time.  Each
   function follows the case analysis and the loop structure of the C code
   (count caching, reset/realloc/enlarge, tail cases, int/unsigned
   conversions).  Aliasing (res == set1 ...) is exercised on the C side by the
   differential harness against this functional result.

   No proofs here. *)
From Coq Require Import NArith ZArith Bool List.
From HV Require Import Base.BSet.
Import ListNotations.
Local Open Scope N_scope.

(* ---- after the fix of hwloc_bitmap_compare_first's last line this flag is
        [true]; on the unfixed tree it is [false].  See Properties_C03.v. ---- *)
Definition compare_first_last_line_fixed : bool := true.

Definition BPL : N := 64.                       (* HWLOC_BITS_PER_LONG *)
Definition FULL : N := N.ones 64.               (* HWLOC_SUBBITMAP_FULL *)
Definition ZEROW : N := 0.                      (* HWLOC_SUBBITMAP_ZERO *)
Definition POISON : N := 16045690984833335023.  (* 0xDEADBEEFDEADBEEF *)
Definition PREALLOC_ULONGS : N := 8.            (* HWLOC_BITMAP_PREALLOC_BITS / HWLOC_BITS_PER_LONG *)

Definition U32 : N := 4294967296.
Definition U64 : N := 18446744073709551616.

Record repr := R { count : N; alloc : N; words : list N; infinite : bool }.

(* ---- C integer conversions ---- *)
Definition to_unsigned (z : Z) : N := Z.to_N (z mod 4294967296)%Z.             (* (unsigned) int *)
Definition to_int (u : N) : Z :=                                               (* (int) unsigned *)
  let u := u mod U32 in if u <? 2147483648 then Z.of_N u else (Z.of_N u - 4294967296)%Z.
Definition b2z (b : bool) : Z := if b then 1%Z else 0%Z.

(* ---- include/private/misc.h leaf functions, as specifications ---- *)
Definition ffsl (w : N) : N := match w with N0 => 0 | Npos p => N.succ (pos_ctz p) end.
Definition flsl (w : N) : N := N.size w.
Definition weight_long (w : N) : N := match w with N0 => 0 | Npos p => pos_weight p end.

(* hwloc_flsl_manual, statement by statement (64-bit longs) *)
Definition flsl_step (mask k : N) (xi : N * N) : N * N :=
  let (x, i) := xi in if N.land x mask =? 0 then (x, i) else (N.shiftr x k, i + k).
Definition flsl_manual (x : N) : N :=
  if x =? 0 then 0 else
  snd (flsl_step 2 1 (flsl_step 12 2 (flsl_step 240 4 (flsl_step 65280 8
      (flsl_step 4294901760 16 (flsl_step 18446744069414584320 32 (x, 1))))))).

(* ---- word macros ---- *)
Definition wnot (w : N) : N := N.lnot w 64.                                   (* ~w *)
Definition SUB_INDEX (cpu : N) : N := cpu / BPL.
Definition SUB_ULBIT (cpu : N) : N := cpu mod BPL.
Definition SUB_CPU (cpu : N) : N := N.shiftl 1 (SUB_ULBIT cpu).               (* 1UL << (cpu%64) *)
Definition ULBIT_TO (bit : N) : N := N.shiftr FULL (BPL - 1 - bit).           (* FULL >> (63-bit) *)
Definition ULBIT_FROM (bit : N) : N := N.land (N.shiftl FULL bit) FULL.       (* FULL << bit, 64-bit *)
Definition ULBIT_FROMTO (b e : N) : N := N.land (ULBIT_TO e) (ULBIT_FROM b).

(* ---- arrays ---- *)
Definition getw (ws : list N) (i : N) : N := nth (N.to_nat i) ws POISON.
Fixpoint setw_nat (ws : list N) (n : nat) (v : N) : list N :=
  match ws, n with
  | [], _ => []
  | _ :: t, O => v :: t
  | w :: t, S m => w :: setw_nat t m v
  end.
Definition setw (ws : list N) (i : N) (v : N) : list N := setw_nat ws (N.to_nat i) v.
Definition resize (ws : list N) (n : N) (fillv : N) : list N :=
  firstn (N.to_nat n) ws ++ repeat fillv (N.to_nat n - length ws).

(* i = lo; i < hi; i++ *)
Definition range (lo hi : N) : list N := map N.of_nat (seq (N.to_nat lo) (N.to_nat hi - N.to_nat lo)).

(* HWLOC_SUBBITMAP_READULONG *)
Definition rd (r : repr) (i : N) : N :=
  if i <? count r then getw (words r) i else if infinite r then FULL else ZEROW.

Definition with_words (r : repr) (ws : list N) : repr := R (count r) (alloc r) ws (infinite r).
Definition with_inf (r : repr) (b : bool) : repr := R (count r) (alloc r) (words r) b.
Definition with_alloc (r : repr) (a : N) : repr := R (count r) a (words r) (infinite r).
(* set->ulongs_count = n, words not touched (those beyond n are lost, new ones are garbage) *)
Definition with_count (r : repr) (n : N) : repr := R n (alloc r) (resize (words r) n POISON) (infinite r).
(* set->ulongs[i] = v *)
Definition wr (r : repr) (i v : N) : repr := with_words r (setw (words r) i v).
(* for (i=lo; i<hi; i++) set->ulongs[i] = f i *)
Definition for_wr (r : repr) (lo hi : N) (f : N -> N) : repr :=
  fold_left (fun r i => wr r i (f i)) (range lo hi) r.

(* loops with early return *)
Fixpoint find_map {A} (f : N -> option A) (l : list N) : option A :=
  match l with
  | [] => None
  | i :: t => match f i with Some a => Some a | None => find_map f t end
  end.
Definition for_find {A} (lo hi : N) (f : N -> option A) : option A := find_map f (range lo hi).
Definition for_find_down {A} (lo hi : N) (f : N -> option A) : option A := find_map f (rev (range lo hi)).
Definition dflt {A} (o : option A) (d : A) : A := match o with Some a => a | None => d end.

(* ---- allocation ---- *)
Definition bm_alloc : repr := R 1 PREALLOC_ULONGS [ZEROW] false.
Definition bm_alloc_full : repr := R 1 PREALLOC_ULONGS [FULL] true.

(* hwloc_bitmap_enlarge_by_ulongs: tmp = 1U << hwloc_flsl((unsigned long) needed_count - 1) *)
Definition enlarge (r : repr) (needed : N) : repr :=
  let tmp := N.shiftl 1 (flsl ((needed + U64 - 1) mod U64)) in
  if alloc r <? tmp then with_alloc r tmp else r.

(* hwloc_bitmap_realloc_by_ulongs *)
Definition realloc_by_ulongs (r : repr) (needed : N) : repr :=
  if needed <=? count r then r else
  let r := enlarge r needed in
  let fillv := if infinite r then FULL else ZEROW in
  let old := count r in
  let r := R needed (alloc r) (resize (words r) needed POISON) (infinite r) in
  (* the loop runs before the count assignment in C; same effect *)
  for_wr r old needed (fun _ => fillv).
Definition realloc_by_cpu_index (r : repr) (cpu : N) : repr := realloc_by_ulongs r (cpu / BPL + 1).

(* hwloc_bitmap_reset_by_ulongs *)
Definition reset_by_ulongs (r : repr) (needed : N) : repr := with_count (enlarge r needed) needed.
Definition reset_by_cpu_index (r : repr) (cpu : N) : repr := reset_by_ulongs r (cpu / BPL + 1).

(* hwloc_bitmap_dup: memcpy of ulongs_count words into a new array of ulongs_allocated *)
Definition bm_dup (old : repr) : repr :=
  R (count old) (alloc old) (map (getw (words old)) (range 0 (count old))) (infinite old).

Definition bm_copy (dst src : repr) : repr :=
  let dst := reset_by_ulongs dst (count src) in
  let dst := for_wr dst 0 (count src) (getw (words src)) in
  with_inf dst (infinite src).

Definition bm_zero_all (r : repr) : repr := with_inf (for_wr r 0 (count r) (fun _ => ZEROW)) false.
Definition bm_fill_all (r : repr) : repr := with_inf (for_wr r 0 (count r) (fun _ => FULL)) true.
Definition bm_zero (r : repr) : repr := bm_zero_all (reset_by_ulongs r 1).
Definition bm_fill (r : repr) : repr := bm_fill_all (reset_by_ulongs r 1).

Definition bm_from_ulong (r : repr) (mask : N) : repr :=
  with_inf (wr (reset_by_ulongs r 1) 0 mask) false.

Definition bm_from_ith_ulong (r : repr) (i mask : N) : repr :=
  let r := reset_by_ulongs r ((i + 1) mod U32) in
  let r := wr r i mask in
  let r := for_wr r 0 i (fun _ => ZEROW) in
  with_inf r false.

Definition bm_from_ulongs (r : repr) (nr : N) (masks : list N) : repr :=
  let r := reset_by_ulongs r nr in
  let r := for_wr r 0 nr (getw masks) in
  with_inf r false.

Definition bm_to_ulong (r : repr) : N := getw (words r) 0.
Definition bm_to_ith_ulong (r : repr) (i : N) : N := rd r i.
Definition bm_to_ulongs (r : repr) (nr : N) : list N := map (rd r) (range 0 nr).

Definition bm_only (r : repr) (cpu : N) : repr :=
  let index_ := SUB_INDEX cpu in
  let r := reset_by_cpu_index r cpu in
  let r := bm_zero_all r in
  wr r index_ (N.lor (getw (words r) index_) (SUB_CPU cpu)).

Definition bm_allbut (r : repr) (cpu : N) : repr :=
  let index_ := SUB_INDEX cpu in
  let r := reset_by_cpu_index r cpu in
  let r := bm_fill_all r in
  wr r index_ (N.land (getw (words r) index_) (wnot (SUB_CPU cpu))).

Definition bm_set (r : repr) (cpu : N) : repr :=
  let index_ := SUB_INDEX cpu in
  if infinite r && (count r * BPL <=? cpu) then r else
  let r := realloc_by_cpu_index r cpu in
  wr r index_ (N.lor (getw (words r) index_) (SUB_CPU cpu)).

Definition bm_clr (r : repr) (cpu : N) : repr :=
  let index_ := SUB_INDEX cpu in
  if negb (infinite r) && (count r * BPL <=? cpu) then r else
  let r := realloc_by_cpu_index r cpu in
  wr r index_ (N.land (getw (words r) index_) (wnot (SUB_CPU cpu))).

Definition bm_set_ith_ulong (r : repr) (i mask : N) : repr :=
  wr (realloc_by_ulongs r ((i + 1) mod U32)) i mask.

(* set_range and clr_range share their structure: [upd w m] is w |= m or w &= ~m,
   [fillw] FULL or ZERO, [flag] the value of infinite meaning "nothing to do". *)
Definition range_op (flag : bool) (upd : N -> N -> N) (fillw : N) (r : repr) (begincpu : N) (_endcpu : Z) : repr :=
  let endcpu := to_unsigned _endcpu in
  if endcpu <? begincpu then r else
  if Bool.eqb (infinite r) flag && (count r * BPL <=? begincpu) then r else
  if (_endcpu =? -1)%Z then
    let r := realloc_by_cpu_index r begincpu in
    let beginset := SUB_INDEX begincpu in
    let r := wr r beginset (upd (getw (words r) beginset) (ULBIT_FROM (SUB_ULBIT begincpu))) in
    let r := for_wr r (beginset + 1) (count r) (fun _ => fillw) in
    with_inf r flag
  else
    let endcpu := if Bool.eqb (infinite r) flag && (count r * BPL <=? endcpu) then count r * BPL - 1 else endcpu in
    let r := realloc_by_cpu_index r endcpu in
    let beginset := SUB_INDEX begincpu in
    let endset := SUB_INDEX endcpu in
    let r :=
      if beginset =? endset then
        wr r beginset (upd (getw (words r) beginset) (ULBIT_FROMTO (SUB_ULBIT begincpu) (SUB_ULBIT endcpu)))
      else
        let r := wr r beginset (upd (getw (words r) beginset) (ULBIT_FROM (SUB_ULBIT begincpu))) in
        wr r endset (upd (getw (words r) endset) (ULBIT_TO (SUB_ULBIT endcpu))) in
    for_wr r (beginset + 1) endset (fun _ => fillw).

Definition bm_set_range := range_op true (fun w m => N.lor w m) FULL.
Definition bm_clr_range := range_op false (fun w m => N.land w (wnot m)) ZEROW.

(* ---- queries ---- *)
Definition bm_isset (r : repr) (cpu : N) : Z :=
  b2z (negb (N.land (rd r (SUB_INDEX cpu)) (SUB_CPU cpu) =? 0)).

Definition bm_iszero (r : repr) : Z :=
  if infinite r then 0%Z else
  dflt (for_find 0 (count r) (fun i => if getw (words r) i =? ZEROW then None else Some 0%Z)) 1%Z.

Definition bm_isfull (r : repr) : Z :=
  if negb (infinite r) then 0%Z else
  dflt (for_find 0 (count r) (fun i => if getw (words r) i =? FULL then None else Some 0%Z)) 1%Z.

Definition inf_word (r : repr) : N := if infinite r then FULL else ZEROW.
Definition orelse {A} (o : option A) (k : option A) : option A := match o with Some a => Some a | None => k end.

Definition bm_isequal (r1 r2 : repr) : Z :=
  let count1 := count r1 in let count2 := count r2 in
  let min_count := if count1 <? count2 then count1 else count2 in
  dflt
   (orelse (for_find 0 min_count (fun i => if getw (words r1) i =? getw (words r2) i then None else Some 0%Z))
   (orelse (if negb (count1 =? count2) then
              let w1 := inf_word r1 in let w2 := inf_word r2 in
              orelse (for_find min_count count1 (fun i => if getw (words r1) i =? w2 then None else Some 0%Z))
                     (for_find min_count count2 (fun i => if getw (words r2) i =? w1 then None else Some 0%Z))
            else None)
           (if negb (Bool.eqb (infinite r1) (infinite r2)) then Some 0%Z else None)))
   1%Z.

Definition bm_intersects (r1 r2 : repr) : Z :=
  let count1 := count r1 in let count2 := count r2 in
  let min_count := if count1 <? count2 then count1 else count2 in
  dflt
   (orelse (for_find 0 min_count (fun i => if N.land (getw (words r1) i) (getw (words r2) i) =? 0 then None else Some 1%Z))
   (orelse (if negb (count1 =? count2) then
              orelse (if infinite r2 then for_find min_count count1 (fun i => if getw (words r1) i =? 0 then None else Some 1%Z) else None)
                     (if infinite r1 then for_find min_count count2 (fun i => if getw (words r2) i =? 0 then None else Some 1%Z) else None)
            else None)
           (if infinite r1 && infinite r2 then Some 1%Z else None)))
   0%Z.

Definition bm_isincluded (sub super : repr) : Z :=
  let super_count := count super in let sub_count := count sub in
  let min_count := if super_count <? sub_count then super_count else sub_count in
  dflt
   (orelse (for_find 0 min_count (fun i =>
              if getw (words super) i =? N.lor (getw (words super) i) (getw (words sub) i) then None else Some 0%Z))
   (orelse (if negb (super_count =? sub_count) then
              orelse (if negb (infinite super) then for_find min_count sub_count (fun i => if getw (words sub) i =? 0 then None else Some 0%Z) else None)
                     (if infinite sub then for_find min_count super_count (fun i => if getw (words super) i =? FULL then None else Some 0%Z) else None)
            else None)
           (if infinite sub && negb (infinite super) then Some 0%Z else None)))
   1%Z.

(* ---- combinators ---- *)
(* or / and / andnot / xor share the prologue; [tail1]/[tail2] say what happens
   to the words of the longer operand: None = truncate (res->ulongs_count =
   min_count), Some g = res->ulongs[i] = g (longer->ulongs[i]). *)
Definition binop (f : N -> N -> N)
    (tail1 : bool -> option (N -> N))   (* count1 > count2, depends on set2->infinite *)
    (tail2 : bool -> option (N -> N))   (* count2 > count1, depends on set1->infinite *)
    (finf : bool -> bool -> bool) (res r1 r2 : repr) : repr :=
  let count1 := count r1 in let count2 := count r2 in
  let max_count := if count2 <? count1 then count1 else count2 in
  let min_count := count1 + count2 - max_count in
  let res := reset_by_ulongs res max_count in
  let res := for_wr res 0 min_count (fun i => f (getw (words r1) i) (getw (words r2) i)) in
  let res :=
    if negb (count1 =? count2) then
      if min_count <? count1 then
        match tail1 (infinite r2) with
        | None => with_count res min_count
        | Some g => for_wr res min_count max_count (fun i => g (getw (words r1) i))
        end
      else
        match tail2 (infinite r1) with
        | None => with_count res min_count
        | Some g => for_wr res min_count max_count (fun i => g (getw (words r2) i))
        end
    else res in
  with_inf res (finf (infinite r1) (infinite r2)).

Definition idw (w : N) : N := w.
Definition bm_or := binop N.lor
  (fun inf2 => if inf2 then None else Some idw) (fun inf1 => if inf1 then None else Some idw) orb.
Definition bm_and := binop N.land
  (fun inf2 => if inf2 then Some idw else None) (fun inf1 => if inf1 then Some idw else None) andb.
Definition bm_andnot := binop (fun a b => N.land a (wnot b))
  (fun inf2 => if negb inf2 then Some idw else None) (fun inf1 => if inf1 then Some wnot else None)
  (fun i1 i2 => i1 && negb i2).
Definition bm_xor := binop N.lxor
  (fun inf2 => Some (fun w => N.lxor w (if inf2 then FULL else ZEROW)))
  (fun inf1 => Some (fun w => N.lxor w (if inf1 then FULL else ZEROW)))
  (fun i1 i2 => negb (Bool.eqb (negb i1) (negb i2))).

Definition bm_not (res r : repr) : repr :=
  let cnt := count r in
  let res := reset_by_ulongs res cnt in
  let res := for_wr res 0 cnt (fun i => wnot (getw (words r) i)) in
  with_inf res (negb (infinite r)).

(* ---- first / last / next ---- *)
Definition bm_first_gen (neg : bool) (r : repr) : Z :=
  dflt
    (orelse (for_find 0 (count r) (fun i =>
               let w := if neg then wnot (getw (words r) i) else getw (words r) i in
               if w =? 0 then None else Some (to_int (ffsl w - 1 + BPL * i))))
            (if Bool.eqb (infinite r) (negb neg) then Some (to_int (count r * BPL)) else None))
    (-1)%Z.
Definition bm_first := bm_first_gen false.
Definition bm_first_unset := bm_first_gen true.

Definition bm_last_gen (neg : bool) (r : repr) : Z :=
  if Bool.eqb (infinite r) (negb neg) then (-1)%Z else
  dflt
    (for_find_down 0 (count r) (fun i =>
       let w := if neg then wnot (getw (words r) i) else getw (words r) i in
       if w =? 0 then None else Some (to_int (flsl w - 1 + BPL * i))))
    (-1)%Z.
Definition bm_last := bm_last_gen false.
Definition bm_last_unset := bm_last_gen true.

Definition bm_next_gen (neg : bool) (r : repr) (prev_cpu : Z) : Z :=
  (* unsigned next_cpu = (unsigned) prev_cpu + 1; unsigned i = HWLOC_SUBBITMAP_INDEX(next_cpu) *)
  let next_cpu := to_unsigned (prev_cpu + 1) in
  let i0 := SUB_INDEX next_cpu in
  if count r <=? i0 then
    (if Bool.eqb (infinite r) (negb neg) then to_int next_cpu else (-1)%Z)
  else
  dflt
    (orelse (for_find i0 (count r) (fun i =>
               let w := if neg then wnot (getw (words r) i) else getw (words r) i in
               let w := if (0 <=? prev_cpu)%Z && (SUB_INDEX (to_unsigned prev_cpu) =? i)
                        then N.land w (wnot (ULBIT_TO (SUB_ULBIT (to_unsigned prev_cpu)))) else w in
               if w =? 0 then None else Some (to_int (ffsl w - 1 + BPL * i))))
            (if Bool.eqb (infinite r) (negb neg) then Some (to_int (count r * BPL)) else None))
    (-1)%Z.
Definition bm_next := bm_next_gen false.
Definition bm_next_unset := bm_next_gen true.

Definition bm_nr_ulongs (r : repr) : Z :=
  if infinite r then (-1)%Z else
  let last := to_unsigned (bm_last r) in
  to_int (((last + BPL) mod U32) / BPL).

Definition bm_weight (r : repr) : Z :=
  if infinite r then (-1)%Z else
  to_int (fold_left (fun acc i => acc + weight_long (getw (words r) i)) (range 0 (count r)) 0).

(* ---- singlify ---- *)
Definition bm_singlify (r : repr) : repr :=
  let '(found, r) :=
    fold_left (fun (st : bool * repr) i =>
                 let (found, r) := st in
                 if found then (true, wr r i ZEROW)
                 else let w := getw (words r) i in
                      if w =? 0 then (false, r)
                      else (true, wr r i (SUB_CPU (ffsl w - 1))))
              (range 0 (count r)) (false, r) in
  if infinite r then
    if found then with_inf r false
    else
      let first := count r * BPL in
      bm_set (with_inf r false) first
  else r.

(* ---- compare_first ---- *)
Definition bm_compare_first_v (fixed : bool) (r1 r2 : repr) : Z :=
  let count1 := count r1 in let count2 := count r2 in
  let max_count := if count2 <? count1 then count1 else count2 in
  let min_count := count1 + count2 - max_count in
  dflt
   (orelse (for_find 0 min_count (fun i =>
              let w1 := getw (words r1) i in let w2 := getw (words r2) i in
              if negb (w1 =? 0) || negb (w2 =? 0) then
                let _ffs1 := Z.of_N (ffsl w1) in let _ffs2 := Z.of_N (ffsl w2) in
                if negb (_ffs1 =? 0)%Z && negb (_ffs2 =? 0)%Z then Some (_ffs1 - _ffs2)%Z
                else Some (_ffs2 - _ffs1)%Z
              else None))
           (if negb (count1 =? count2) then
              if min_count <? count2 then
                for_find min_count count2 (fun i =>
                  let w2 := getw (words r2) i in
                  if infinite r1 then Some (Z.opp (b2z (N.land w2 1 =? 0)))
                  else if negb (w2 =? 0) then Some 1%Z else None)
              else
                for_find min_count count1 (fun i =>
                  let w1 := getw (words r1) i in
                  if infinite r2 then Some (b2z (N.land w1 1 =? 0))
                  else if negb (w1 =? 0) then Some (-1)%Z else None)
            else None))
   (if fixed then (b2z (infinite r2) - b2z (infinite r1))%Z     (* after the fix *)
    else (b2z (infinite r1) - b2z (infinite r2))%Z).            (* bitmap.c as found *)
Definition bm_compare_first := bm_compare_first_v compare_first_last_line_fixed.

(* ---- compare ---- *)
Definition cmpw (val1 val2 : N) : option Z :=
  if val1 =? val2 then None else Some (if val1 <? val2 then (-1)%Z else 1%Z).

Definition bm_compare (r1 r2 : repr) : Z :=
  let count1 := count r1 in let count2 := count r2 in
  let max_count := if count2 <? count1 then count1 else count2 in
  let min_count := count1 + count2 - max_count in
  if negb (Bool.eqb (negb (infinite r1)) (negb (infinite r2))) then (b2z (infinite r1) - b2z (infinite r2))%Z else
  dflt
   (orelse (if negb (count1 =? count2) then
              if min_count <? count2 then
                let val1 := inf_word r1 in
                for_find_down min_count max_count (fun i => cmpw val1 (getw (words r2) i))
              else
                let val2 := inf_word r2 in
                for_find_down min_count max_count (fun i => cmpw (getw (words r1) i) val2)
            else None)
           (for_find_down 0 min_count (fun i => cmpw (getw (words r1) i) (getw (words r2) i))))
   0%Z.

(* ---- compare_inclusion ---- *)
Definition BM_EQUAL : Z := 0.
Definition BM_INCLUDED : Z := 1.
Definition BM_CONTAINS : Z := 2.
Definition BM_INTERSECTS : Z := 3.
Definition BM_DIFFERENT : Z := 4.

Record ci_state := CI { ci_result : Z; ci_empty1 : bool; ci_empty2 : bool }.

(* one of the two symmetric "one side empty, the other not" arms *)
Definition ci_one_empty (mine other : Z) (other_empty : bool) (st : ci_state) : Z + Z :=
  (* val1 empty, val2 not: mine = CONTAINS, other = INCLUDED, other_empty = empty2 *)
  if (ci_result st =? mine)%Z then
    if negb other_empty then inr BM_INTERSECTS else inl BM_DIFFERENT
  else if (ci_result st =? BM_EQUAL)%Z then inl other
  else inl (ci_result st).

Definition ci_step (val1 val2 : N) (st : ci_state) : ci_state + Z :=
  let result := ci_result st in
  let fin (x : Z + Z) : ci_state + Z :=
    match x with
    | inr v => inr v
    | inl res => inl (CI res (ci_empty1 st && (val1 =? 0)) (ci_empty2 st && (val2 =? 0)))
    end in
  if val1 =? 0 then
    if val2 =? 0 then inl st   (* continue: empty1/empty2 unchanged anyway *)
    else fin (ci_one_empty BM_CONTAINS BM_INCLUDED (ci_empty2 st) st)
  else if val2 =? 0 then fin (ci_one_empty BM_INCLUDED BM_CONTAINS (ci_empty1 st) st)
  else if val1 =? val2 then
    fin (if (result =? BM_DIFFERENT)%Z then inr BM_INTERSECTS else inl result)
  else if N.land val1 val2 =? val1 then
    fin (if (result =? BM_CONTAINS)%Z || (result =? BM_DIFFERENT)%Z then inr BM_INTERSECTS else inl BM_INCLUDED)
  else if N.land val1 val2 =? val2 then
    fin (if (result =? BM_INCLUDED)%Z || (result =? BM_DIFFERENT)%Z then inr BM_INTERSECTS else inl BM_CONTAINS)
  else if negb (N.land val1 val2 =? 0) then inr BM_INTERSECTS
  else
    fin (if (result =? BM_EQUAL)%Z && negb (ci_empty1 st) then inr BM_INTERSECTS
         else if (result =? BM_INCLUDED)%Z && negb (ci_empty1 st) then inr BM_INTERSECTS
         else if (result =? BM_CONTAINS)%Z && negb (ci_empty2 st) then inr BM_INTERSECTS
         else inl BM_DIFFERENT).

Fixpoint fold_until {S Rr} (step : N -> S -> S + Rr) (l : list N) (s : S) : S + Rr :=
  match l with
  | [] => inl s
  | i :: t => match step i s with inl s' => fold_until step t s' | inr r => inr r end
  end.

Definition bm_compare_inclusion (r1 r2 : repr) : Z :=
  let max_count := if count r2 <? count r1 then count r1 else count r2 in
  match fold_until (fun i st => ci_step (rd r1 i) (rd r2 i) st) (range 0 max_count) (CI BM_EQUAL true true) with
  | inr v => v
  | inl st =>
    let result := ci_result st in
    if negb (infinite r1) then
      if infinite r2 then
        match ci_one_empty BM_CONTAINS BM_INCLUDED (ci_empty2 st) st with inr v => v | inl v => v end
      else result
    else if negb (infinite r2) then
      match ci_one_empty BM_INCLUDED BM_CONTAINS (ci_empty1 st) st with inr v => v | inl v => v end
    else
      if (result =? BM_DIFFERENT)%Z then BM_INTERSECTS else result
  end.

(* ---- abstraction ---- *)
Fixpoint wval (ws : list N) : N :=
  match ws with [] => 0 | w :: t => w + U64 * wval t end.

Definition abs (r : repr) : bset :=
  if infinite r then BS (N.lxor (wval (words r)) (N.ones (BPL * count r))) true
  else BS (wval (words r)) false.

(* canonical rendering used by the drivers: words of the set with the high words
   equal to the infinite pattern stripped *)
Fixpoint strip_high (pat : N) (rws : list N) : list N :=
  match rws with
  | w :: t => if w =? pat then strip_high pat t else rws
  | [] => []
  end.
Definition canon (r : repr) : list N := rev (strip_high (inf_word r) (rev (words r))).
