(* C03 proofs, part 6: weight, nr_ulongs. *)
From Coq Require Import NArith ZArith Bool List Lia ZifyBool ZifyN ZifyNat.
From HV Require Import Base.BSet Bitmap.BitmapModel Bitmap.BitmapSpec Bitmap.BitmapBase Bitmap.BitmapOps
  Bitmap.BitmapQueries Bitmap.BitmapScan.
Import ListNotations.
Local Open Scope N_scope.
Ltac Zify.zify_post_hook ::= Z.div_mod_to_equations.

Lemma wl_double n : weight_long (N.double n) = weight_long n.
Proof. destruct n; reflexivity. Qed.
Lemma wl_succ_double n : weight_long (N.succ_double n) = N.succ (weight_long n).
Proof. destruct n; reflexivity. Qed.

Lemma wl_add_pow2 (k : nat) : forall w x, w < 2 ^ N.of_nat k ->
  weight_long (w + 2 ^ N.of_nat k * x) = weight_long w + weight_long x.
Proof.
  induction k as [|k IH]; intros w x Hw.
  - change (2 ^ N.of_nat 0) with 1 in *. replace w with 0 by lia. rewrite N.mul_1_l. reflexivity.
  - rewrite Nat2N.inj_succ, N.pow_succ_r' in *.
    pose proof (N.div2_odd w) as D. set (h := N.div2 w) in *. set (b := N.odd w) in *.
    assert (Hh : h < 2 ^ N.of_nat k) by (destruct b; simpl in D; lia).
    destruct b; simpl N.b2n in D.
    + replace (w + 2 * 2 ^ N.of_nat k * x) with (N.succ_double (h + 2 ^ N.of_nat k * x)) by (rewrite N.succ_double_spec; lia).
      replace w with (N.succ_double h) by (rewrite N.succ_double_spec; lia).
      rewrite !wl_succ_double, IH by assumption. lia.
    + replace (w + 2 * 2 ^ N.of_nat k * x) with (N.double (h + 2 ^ N.of_nat k * x)) by (rewrite N.double_spec; lia).
      replace w with (N.double h) by (rewrite N.double_spec; lia).
      rewrite !wl_double, IH by assumption. reflexivity.
Qed.

Fixpoint sumw (ws : list N) : N := match ws with [] => 0 | w :: t => weight_long w + sumw t end.

Lemma wl_wval ws : Forall (fun w => w < U64) ws -> weight_long (wval ws) = sumw ws.
Proof.
  induction 1 as [|w t Hw Ht IH]; [reflexivity|]. cbn [wval sumw].
  rewrite <- IH. apply (wl_add_pow2 64). exact Hw.
Qed.

Lemma pos_weight_le_size p : pos_weight p <= N.pos (Pos.size p).
Proof. induction p; simpl; lia. Qed.
Lemma wl_le_64 w : w < U64 -> weight_long w <= 64.
Proof.
  intros H. destruct w as [|p]; [simpl; lia|]. simpl. pose proof (pos_weight_le_size p).
  assert (N.size (N.pos p) <= 64).
  { rewrite N.size_log2 by discriminate. rewrite U64_pow in H. apply N.log2_lt_pow2 in H; lia. }
  simpl in H1. lia.
Qed.
Lemma sumw_le ws : Forall (fun w => w < U64) ws -> sumw ws <= 64 * N.of_nat (length ws).
Proof.
  induction 1 as [|w t Hw Ht IH]; [simpl; lia|]. cbn [sumw length]. pose proof (wl_le_64 w Hw). lia.
Qed.

Lemma fold_sum_map (g : N -> N) ws l a :
  fold_left (fun acc i => acc + g (getw ws i)) l a = fold_left (fun acc w => acc + g w) (map (getw ws) l) a.
Proof. revert a; induction l as [|x t IH]; intros a; simpl; [reflexivity|apply IH]. Qed.
Lemma fold_sumw ws a : fold_left (fun acc w => acc + weight_long w) ws a = a + sumw ws.
Proof. revert a; induction ws as [|w t IH]; intros a; simpl; [lia|]. rewrite IH. lia. Qed.

Theorem bm_weight_spec r : wf r -> bm_weight r = sp_weight (abs r).
Proof.
  intros H. unfold bm_weight, sp_weight, bs_weight. rewrite inf_abs.
  destruct (infinite r) eqn:I; [reflexivity|].
  rewrite fold_sum_map. rewrite <- (wf_len r H), map_getw_range, fold_sumw, N.add_0_l.
  unfold abs. rewrite I. cbn [fin zopt].
  change (match wval (words r) with 0 => 0 | N.pos p => pos_weight p end) with (weight_long (wval (words r))).
  rewrite wl_wval by apply H. rewrite to_int_small; [reflexivity|].
  pose proof (sumw_le (words r) (wf_words r H)). rewrite (wf_len r H) in H0.
  pose proof (wf_countmax r H). unfold MAXC in *. lia.
Qed.

(* the weight is the number of members *)
Theorem weight_counts_members s n bound : bs_weight s = Some n -> N.size (fin s) <= N.of_nat bound ->
  n = count_below bound s.
Proof.
  unfold bs_weight. destruct s as [f i]; simpl. destruct i; [discriminate|]. intros E Hb. injection E as <-.
  destruct f as [|p]; simpl.
  - clear Hb. induction bound as [|b IH]; simpl; [reflexivity|]. rewrite <- IH. unfold mem; simpl. reflexivity.
  - rewrite pos_weight_count. simpl in Hb.
    assert (G : forall b, (Pos.to_nat (Pos.size p) <= b)%nat ->
       count_below b (bs_of_N (N.pos p)) = count_below (Pos.to_nat (Pos.size p)) (bs_of_N (N.pos p))).
    { induction b as [|b IHb]; intros Hle.
      - lia.
      - destruct (Nat.eq_dec (S b) (Pos.to_nat (Pos.size p))) as [->|Hne]; [reflexivity|].
        simpl. rewrite IHb by lia. rewrite mem_of_N.
        rewrite N.bits_above_log2; [lia|].
        assert (N.size (N.pos p) = N.pos (Pos.size p)) by reflexivity.
        rewrite N.size_log2 in H by discriminate. lia. }
    symmetry. apply G. lia.
Qed.

(* ---------------- nr_ulongs ---------------- *)
Lemma last_bound r k : wf r -> bs_last (abs r) = Some k -> k < 64 * count r.
Proof.
  intros H E. apply bs_last_some in E as [M L].
  destruct (N.lt_ge_cases k (64 * count r)) as [|Hge]; [assumption|]. exfalso.
  assert (I : infinite r = false).
  { destruct (infinite r) eqn:I; [|reflexivity]. exfalso.
    destruct (inf_mem_large (abs r) ltac:(rewrite inf_abs; exact I) k) as (j & Hj & Mj). rewrite L in Mj by assumption. discriminate. }
  rewrite mem_abs in M by assumption. rewrite rd_out in M.
  - unfold inf_word in M. rewrite I in M. rewrite N.bits_0 in M. discriminate.
  - apply N.div_le_lower_bound; lia.
Qed.

Theorem bm_nr_ulongs_spec r : wf r -> bm_nr_ulongs r = sp_nr_ulongs (abs r).
Proof.
  intros H. unfold bm_nr_ulongs, sp_nr_ulongs. rewrite inf_abs. destruct (infinite r); [reflexivity|].
  rewrite bm_last_spec by assumption. unfold sp_last.
  destruct (bs_last (abs r)) as [k|] eqn:E; cbn [zopt].
  - pose proof (last_bound r k H E) as B. pose proof (wf_countmax r H). unfold MAXC in *.
    unfold to_unsigned. rewrite Z.mod_small by lia. rewrite N2Z.id.
    unfold BPL, U32. rewrite N.mod_small by lia.
    replace ((k + 64) / 64) with (k / 64 + 1) by (replace (k + 64) with (k + 1 * 64) by lia; rewrite N.div_add by discriminate; reflexivity).
    apply to_int_small. assert (k / 64 < 33554431) by (apply N.div_lt_upper_bound; lia). lia.
  - reflexivity.
Qed.
