(* C03 proofs, part 4: iszero/isfull, first/last (+_unset), weight. *)
From Coq Require Import NArith ZArith Bool List Lia ZifyBool ZifyN ZifyNat.
From HV Require Import Base.BSet Bitmap.BitmapModel Bitmap.BitmapSpec Bitmap.BitmapBase Bitmap.BitmapOps Bitmap.BitmapQueries.
Import ListNotations.
Local Open Scope N_scope.
Ltac Zify.zify_post_hook ::= Z.div_mod_to_equations.

(* ---------------- least / greatest element of a bset ---------------- *)
Lemma bs_first_unique s k : mem k s = true -> (forall j, j < k -> mem j s = false) -> bs_first s = Some k.
Proof.
  intros M L. destruct (bs_first s) as [k'|] eqn:E.
  - apply bs_first_some in E as [M' L']. f_equal.
    destruct (N.lt_trichotomy k k') as [H|[H|H]]; auto.
    + rewrite L' in M by assumption. discriminate.
    + rewrite L in M' by assumption. discriminate.
  - apply bs_first_none in E. subst s. rewrite mem_empty in M. discriminate.
Qed.
Lemma bs_first_empty s : (forall j, mem j s = false) -> bs_first s = None.
Proof. intros H. apply bs_first_none, bs_is_empty_spec, bs_is_empty_mem. exact H. Qed.
Lemma bs_first_ge s n : (forall j, j < n -> mem j s = false) ->
  bs_first s = None \/ exists k, n <= k /\ bs_first s = Some k.
Proof.
  intros L. destruct (bs_first s) as [k|] eqn:E; [right|left; reflexivity].
  exists k. split; [|reflexivity]. apply bs_first_some in E as [M _].
  destruct (N.lt_ge_cases k n) as [H|H]; [|assumption]. rewrite L in M by assumption. discriminate.
Qed.

Lemma inf_mem_large s : inf s = true -> forall n, exists j, n < j /\ mem j s = true.
Proof.
  intros I n. exists (N.succ (N.max n (N.log2 (fin s)))). split; [lia|].
  unfold mem. rewrite I, N.bits_above_log2 by lia. reflexivity.
Qed.
Lemma bs_last_unique s k : mem k s = true -> (forall j, k < j -> mem j s = false) -> bs_last s = Some k.
Proof.
  intros M L. destruct (bs_last s) as [k'|] eqn:E.
  - apply bs_last_some in E as [M' L']. f_equal.
    destruct (N.lt_trichotomy k k') as [H|[H|H]]; auto.
    + rewrite L in M' by assumption. discriminate.
    + rewrite L' in M by assumption. discriminate.
  - apply bs_last_none in E as [I|Es].
    + destruct (inf_mem_large s I k) as (j & Hj & Mj). rewrite L in Mj by assumption. discriminate.
    + subst s. rewrite mem_empty in M. discriminate.
Qed.
Lemma bs_last_empty s : (forall j, mem j s = false) -> bs_last s = None.
Proof. intros H. apply bs_last_none. right. apply bs_is_empty_spec, bs_is_empty_mem. exact H. Qed.

(* ---------------- the set or its complement, word-wise ---------------- *)
Definition rdn (neg : bool) (r : repr) (i : N) : N := if neg then wnot (rd r i) else rd r i.
Definition absn (neg : bool) (r : repr) : bset := if neg then bs_compl (abs r) else abs r.

Lemma mem_absn neg r k : wf r -> mem k (absn neg r) = N.testbit (rdn neg r (k / 64)) (k mod 64).
Proof.
  intros H. unfold absn, rdn. destruct neg.
  - rewrite mem_compl, mem_abs, wnot_spec by (try assumption; apply N.mod_lt; discriminate). reflexivity.
  - apply mem_abs; assumption.
Qed.
Lemma rdn_lt neg r i : wf r -> rdn neg r i < U64.
Proof. intros H. unfold rdn. destruct neg; [apply wnot_lt|]; apply rd_lt; assumption. Qed.
Lemma wnot_FULL : wnot FULL = 0. Proof. reflexivity. Qed.
Lemma wnot_0 : wnot 0 = FULL. Proof. reflexivity. Qed.
Lemma rdn_out neg r i : count r <= i -> rdn neg r i = infw (xorb (infinite r) neg).
Proof.
  intros H. unfold rdn. rewrite rd_out by assumption. unfold inf_word. destruct neg, (infinite r); reflexivity.
Qed.
Lemma rdn_in neg r i : i < count r ->
  rdn neg r i = if neg then wnot (getw (words r) i) else getw (words r) i.
Proof. intros H. unfold rdn. now rewrite rd_in. Qed.
Lemma inf_abs r : inf (abs r) = infinite r.
Proof. unfold abs. destruct (infinite r); reflexivity. Qed.
Lemma inf_absn neg r : inf (absn neg r) = xorb (infinite r) neg.
Proof. unfold absn. destruct neg; simpl; rewrite inf_abs; destruct (infinite r); reflexivity. Qed.
Lemma eqb_negb_xorb a b : Bool.eqb a (negb b) = xorb a b.
Proof. destruct a, b; reflexivity. Qed.

(* ---------------- bits of a word ---------------- *)
Lemma ffsl_spec w : w <> 0 -> w < U64 ->
  1 <= ffsl w /\ ffsl w - 1 < 64 /\ N.testbit w (ffsl w - 1) = true /\ forall j, j < ffsl w - 1 -> N.testbit w j = false.
Proof.
  intros Hz Hl. destruct w as [|p]; [congruence|]. unfold ffsl.
  destruct (pos_ctz_spec p) as [B L].
  replace (N.succ (pos_ctz p) - 1) with (pos_ctz p) by lia. repeat split; auto; try lia.
  destruct (N.lt_ge_cases (pos_ctz p) 64) as [|Hge]; [assumption|].
  rewrite (bits_high_lt _ _ Hl Hge) in B. discriminate.
Qed.
Lemma flsl_spec w : w <> 0 -> w < U64 ->
  1 <= flsl w /\ flsl w - 1 < 64 /\ N.testbit w (flsl w - 1) = true /\ forall j, flsl w - 1 < j -> N.testbit w j = false.
Proof.
  intros Hz Hl. unfold flsl. rewrite N.size_log2 by assumption.
  replace (N.succ (N.log2 w) - 1) with (N.log2 w) by lia. repeat split; try lia.
  - rewrite U64_pow in Hl. apply N.log2_lt_pow2 in Hl; lia.
  - apply N.bit_log2. assumption.
  - intros j Hj. apply N.bits_above_log2. assumption.
Qed.
Lemma word_zero_bits w j : w = 0 -> N.testbit w j = false.
Proof. intros ->. apply N.bits_0. Qed.

Lemma to_int_small u : u < 2147483648 -> to_int u = Z.of_N u.
Proof.
  intros H. unfold to_int. rewrite N.mod_small by (unfold U32; lia).
  replace (u <? 2147483648) with true by (symmetry; apply N.ltb_lt; assumption). reflexivity.
Qed.
Lemma idx_small i c b : i < c -> c <= MAXC -> b < 64 -> b + BPL * i < 2147483648.
Proof. unfold MAXC, BPL. lia. Qed.

(* ---------------- first / first_unset ---------------- *)
Theorem bm_first_gen_spec neg r : wf r -> bm_first_gen neg r = zopt (bs_first (absn neg r)).
Proof.
  intros H. pose proof (wf_countmax r H) as HM. unfold bm_first_gen.
  set (W := fun i => if neg then wnot (getw (words r) i) else getw (words r) i).
  assert (HW : forall i, i < count r -> W i = rdn neg r i) by (intros i Hi; unfold W; now rewrite rdn_in).
  destruct (for_find 0 (count r) _) as [z|] eqn:E; cbn [orelse dflt].
  - apply for_find_some in E as (i & Hi & Fi & Lo). fold (W i) in Fi.
    destruct (N.eqb_spec (W i) 0) as [|Hnz]; [discriminate|]. injection Fi as <-.
    rewrite HW in * by lia.
    destruct (ffsl_spec _ Hnz (rdn_lt neg r i H)) as (F1 & F2 & F3 & F4).
    set (b := ffsl (rdn neg r i) - 1) in *.
    rewrite to_int_small by (apply (idx_small i (count r)); lia).
    rewrite (bs_first_unique _ (b + BPL * i)); [reflexivity| |].
    + rewrite mem_absn by assumption. unfold BPL. rewrite N.add_comm. destruct (split64 i b F2) as [-> ->]. exact F3.
    + intros j Hj. rewrite mem_absn by assumption. unfold BPL in Hj.
      pose proof (N.div_mod j 64 ltac:(discriminate)). pose proof (N.mod_lt j 64 ltac:(discriminate)).
      destruct (N.lt_trichotomy (j / 64) i) as [Hlt|[Heq|Hgt]]; [| |nia].
      * specialize (Lo (j / 64) ltac:(lia)). cbv beta in Lo. fold (W (j / 64)) in Lo.
        destruct (N.eqb_spec (W (j / 64)) 0) as [Z|]; [|discriminate]. rewrite HW in Z by lia. now rewrite Z, N.bits_0.
      * rewrite Heq. apply F4. lia.
  - rewrite for_find_none in E.
    assert (Z : forall i, i < count r -> rdn neg r i = 0).
    { intros i Hi. specialize (E i ltac:(lia)). cbv beta in E. fold (W i) in E.
      destruct (N.eqb_spec (W i) 0) as [Z|]; [|discriminate]. now rewrite <- HW. }
    rewrite eqb_negb_xorb. destruct (xorb (infinite r) neg) eqn:I; cbn [dflt].
    + rewrite to_int_small by (unfold BPL, MAXC in *; lia).
      rewrite (bs_first_unique _ (count r * BPL)); [reflexivity| |].
      * rewrite mem_absn by assumption. unfold BPL. rewrite N.div_mul, N.mod_mul by discriminate.
        rewrite rdn_out, I by lia. reflexivity.
      * intros j Hj. rewrite mem_absn by assumption. unfold BPL in Hj. rewrite Z; [apply N.bits_0|].
        apply N.div_lt_upper_bound; lia.
    + rewrite bs_first_empty; [reflexivity|]. intros j. rewrite mem_absn by assumption.
      destruct (N.lt_ge_cases (j / 64) (count r)) as [Hj|Hj].
      * rewrite Z by assumption. apply N.bits_0.
      * rewrite rdn_out, I by assumption. apply N.bits_0.
Qed.

Theorem bm_first_spec r : wf r -> bm_first r = sp_first (abs r).
Proof. apply (bm_first_gen_spec false). Qed.
Theorem bm_first_unset_spec r : wf r -> bm_first_unset r = sp_first_unset (abs r).
Proof. apply (bm_first_gen_spec true). Qed.

(* ---------------- last / last_unset ---------------- *)
Theorem bm_last_gen_spec neg r : wf r -> bm_last_gen neg r = zopt (bs_last (absn neg r)).
Proof.
  intros H. pose proof (wf_countmax r H) as HM. unfold bm_last_gen.
  rewrite eqb_negb_xorb. destruct (xorb (infinite r) neg) eqn:I.
  - unfold bs_last. rewrite inf_absn, I. reflexivity.
  - set (W := fun i => if neg then wnot (getw (words r) i) else getw (words r) i).
    assert (HW : forall i, i < count r -> W i = rdn neg r i) by (intros i Hi; unfold W; now rewrite rdn_in).
    destruct (for_find_down 0 (count r) _) as [z|] eqn:E; cbn [dflt].
    + apply for_find_down_some in E as (i & Hi & Fi & Hi2). fold (W i) in Fi.
      destruct (N.eqb_spec (W i) 0) as [|Hnz]; [discriminate|]. injection Fi as <-.
      rewrite HW in * by lia.
      destruct (flsl_spec _ Hnz (rdn_lt neg r i H)) as (F1 & F2 & F3 & F4).
      set (b := flsl (rdn neg r i) - 1) in *.
      rewrite to_int_small by (apply (idx_small i (count r)); lia).
      rewrite (bs_last_unique _ (b + BPL * i)); [reflexivity| |].
      * rewrite mem_absn by assumption. unfold BPL. rewrite N.add_comm. destruct (split64 i b F2) as [-> ->]. exact F3.
      * intros j Hj. rewrite mem_absn by assumption. unfold BPL in Hj.
        pose proof (N.div_mod j 64 ltac:(discriminate)). pose proof (N.mod_lt j 64 ltac:(discriminate)).
        destruct (N.lt_trichotomy (j / 64) i) as [Hlt|[Heq|Hgt]]; [nia| |].
        -- rewrite Heq. apply F4. lia.
        -- destruct (N.lt_ge_cases (j / 64) (count r)) as [Hc|Hc].
           ++ specialize (Hi2 (j / 64) ltac:(lia)). cbv beta in Hi2. fold (W (j / 64)) in Hi2.
              destruct (N.eqb_spec (W (j / 64)) 0) as [Z|]; [|discriminate]. rewrite HW in Z by lia. now rewrite Z, N.bits_0.
           ++ rewrite rdn_out, I by assumption. apply N.bits_0.
    + rewrite for_find_down_none in E. rewrite bs_last_empty; [reflexivity|].
      intros j. rewrite mem_absn by assumption.
      destruct (N.lt_ge_cases (j / 64) (count r)) as [Hj|Hj].
      * specialize (E (j / 64) ltac:(lia)). cbv beta in E. fold (W (j / 64)) in E.
        destruct (N.eqb_spec (W (j / 64)) 0) as [Z|]; [|discriminate]. rewrite HW in Z by lia. now rewrite Z, N.bits_0.
      * rewrite rdn_out, I by assumption. apply N.bits_0.
Qed.

Theorem bm_last_spec r : wf r -> bm_last r = sp_last (abs r).
Proof. apply (bm_last_gen_spec false). Qed.
Theorem bm_last_unset_spec r : wf r -> bm_last_unset r = sp_last_unset (abs r).
Proof. apply (bm_last_gen_spec true). Qed.

(* ---------------- iszero / isfull ---------------- *)
Lemma is_empty_absn neg r : wf r -> (bs_is_empty (absn neg r) = true <-> forall i, rdn neg r i = 0).
Proof.
  intros H. rewrite bs_is_empty_mem. split.
  - intros E i. apply word_ext; [apply rdn_lt; assumption|reflexivity|].
    intros j Hj. specialize (E (64 * i + j)). rewrite mem_absn in E by assumption.
    destruct (split64 i j Hj) as [E1 E2]. rewrite E1, E2 in E. now rewrite E, N.bits_0.
  - intros E k. rewrite mem_absn, E by assumption. apply N.bits_0.
Qed.

Lemma iszero_gen neg r : wf r ->
  (if xorb (infinite r) neg then 0%Z else
   dflt (for_find 0 (count r) (fun i => if getw (words r) i =? infw neg then None else Some 0%Z)) 1%Z)
  = zb (bs_is_empty (absn neg r)).
Proof.
  intros H. destruct (xorb (infinite r) neg) eqn:I.
  - destruct (bs_is_empty (absn neg r)) eqn:E; [|reflexivity]. exfalso.
    pose proof (proj1 (is_empty_absn neg r H) E (count r)) as E'. clear E. rename E' into E. rewrite rdn_out, I in E by lia. discriminate.
  - assert (Q : forall i, i < count r -> (getw (words r) i =? infw neg) = (rdn neg r i =? 0)).
    { intros i Hi. rewrite rdn_in by assumption. pose proof (getw_lt r i H Hi) as Hl. destruct neg; unfold infw; [|reflexivity].
      destruct (N.eqb_spec (getw (words r) i) FULL) as [->|Hne]; [reflexivity|].
      symmetry. apply N.eqb_neq. intros Z. apply Hne. pose proof FULL_lt.
      apply word_ext; auto. intros j Hj. pose proof (wnot_spec (getw (words r) i) j Hj) as B. rewrite Z, N.bits_0 in B.
      rewrite testbit_FULL. apply N.ltb_lt in Hj. rewrite Hj. destruct (N.testbit _ j); [reflexivity|discriminate]. }
    destruct (for_find 0 (count r) _) as [z|] eqn:E; cbn [dflt].
    + apply for_find_some in E as (i & Hi & Fi & _). rewrite Q in Fi by lia.
      destruct (N.eqb_spec (rdn neg r i) 0) as [|Hnz]; [discriminate|]. injection Fi as <-.
      destruct (bs_is_empty (absn neg r)) eqn:Em; [|reflexivity]. exfalso.
      pose proof (proj1 (is_empty_absn neg r H) Em i). auto.
    + rewrite for_find_none in E. assert (Em : bs_is_empty (absn neg r) = true).
      { apply is_empty_absn; auto. intros i. destruct (N.lt_ge_cases i (count r)) as [Hi|Hi].
        - specialize (E i ltac:(lia)). cbv beta in E. rewrite Q in E by assumption.
          destruct (N.eqb_spec (rdn neg r i) 0); [assumption|discriminate].
        - rewrite rdn_out, I by assumption. reflexivity. }
      rewrite Em. reflexivity.
Qed.

Theorem bm_iszero_spec r : wf r -> bm_iszero r = sp_iszero (abs r).
Proof.
  intros H. pose proof (iszero_gen false r H) as G. rewrite xorb_false_r in G. exact G.
Qed.
Lemma is_full_compl s : bs_is_full s = bs_is_empty (bs_compl s).
Proof. unfold bs_is_full, bs_is_empty, bs_compl; simpl. now rewrite negb_involutive. Qed.
Theorem bm_isfull_spec r : wf r -> bm_isfull r = sp_isfull (abs r).
Proof.
  intros H. pose proof (iszero_gen true r H) as G. unfold sp_isfull. rewrite is_full_compl.
  unfold bm_isfull. unfold absn in G. rewrite <- G. destruct (infinite r); reflexivity.
Qed.
