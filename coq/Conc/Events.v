(* C17 - documented thread-safety: model.

   Every API call of the model is a function from the model state to a new
   state, a result and the list of MEMORY EVENTS (reads / writes of abstract
   locations) the C code performs on memory that other threads can reach.

   What is modelled, and from which C code (hwloc/):
   * distances.c   hwloc_internal_distances_refresh_one / _refresh /
                   _invalidate_cached_objs and the OBJS_VALID flag;
   * memattrs.c    hwloc__imattr_refresh, hwloc_internal_memattrs_refresh /
                   _need_refresh, the CACHE_VALID flag, the CONVENIENCE
                   attributes (never refreshed), set_value's refresh-then-
                   invalidate order, register (born valid);
   * topology.c    hwloc_topology_refresh; the tail of hwloc_topology_load
                   (invalidate + refresh, THEN the RESTRICT_TO_*BINDING
                   restricts, THEN - since fix 970d793 - a refresh); hwloc_topology_restrict's invalidations;
                   hwloc_hide_errors' static cache;
   * topology-xml.c / topology-xml-libxml.c  the function-local static
                   `checked` caches (hwloc__xml_verbose, hwloc_nolibxml_import,
                   hwloc_nolibxml_export, hwloc_libxml2_init_once) and the
                   refresh of distances at the start of every XML export;
   * components.c  hwloc_components_users under hwloc_components_mutex.

   The tree itself (objects, levels, sets, infos, cpukinds array, memattr
   values ...) is ONE abstract location per topology, [LTree t]: consulting
   calls only read it, modifying calls write it.  What happens inside the tree
   belongs to C01/C02/C08/C13/C14/C15; the only thing this model takes from
   them is, for every distances structure, how many of its objects are still
   in the tree ([d_live], an input of the modifying step). *)
From Coq Require Import List Bool Arith PeanoNat Lia.
Import ListNotations.

(* ------------------------------------------------------------------ *)
(** * Locations and events *)

(* process-wide function-local statics (one `checked` flag and one value each) *)
Inductive static_id :=
| SHideErrors        (* topology.c hwloc_hide_errors: checked / hide *)
| SXmlVerbose        (* topology-xml.c hwloc__xml_verbose: checked / verbose *)
| SNolibxmlImport    (* topology-xml.c hwloc_nolibxml_import: checked / nolibxml *)
| SNolibxmlExport    (* topology-xml.c hwloc_nolibxml_export: checked / nolibxml *)
| SLibxmlInit        (* topology-xml-libxml.c hwloc_libxml2_init_once: checked / hwloc_libxml2_needs_cleanup *)
| SSynthWarned.      (* topology-synthetic.c hwloc__export_synthetic_memory_children: `static int warned`,
                        `if (!warned) { fprintf(..); warned = 1; }` (since fix 128454f; the store used to be
                        unconditional) whenever the warning condition holds *)

Definition static_eqb (a b : static_id) : bool :=
  match a, b with
  | SHideErrors, SHideErrors | SXmlVerbose, SXmlVerbose | SNolibxmlImport, SNolibxmlImport
  | SNolibxmlExport, SNolibxmlExport | SLibxmlInit, SLibxmlInit | SSynthWarned, SSynthWarned => true
  | _, _ => false
  end.

Inductive loc :=
| LTree (t : nat)            (* everything of topology t that is not listed below *)
| LDistList (t : nat)        (* topology->first_dist/last_dist and the next/prev links *)
| LDistFlags (t d : nat)     (* dist->iflags of the structure with (stable) id d *)
| LDistObjs (t d : nat)      (* dist->objs[], nbobjs, indexes[], values[], different_types[] *)
| LMaFlags (t a : nat)       (* topology->memattrs[a].iflags *)
| LMaCache (t a : nat)       (* memattrs[a].targets[] (obj, gp_index, initiators[].obj), nr_targets *)
| LCpukinds (t : nat)        (* the ranking: efficiency fields and order of topology->cpukinds[] *)
| LStChecked (s : static_id)
| LStValue (s : static_id)
| LRefcount                  (* hwloc_components_users *)
| LRegistry                  (* hwloc_disc_components, finalize cbs, hwloc_components_verbose *)
| LXmlBackend.               (* topology-xml.c file-scope statics hwloc_libxml_callbacks / hwloc_nolibxml_callbacks: written by
                                register/reset under the mutex when users crosses 0, read without a lock by every XML
                                import/export/free_xmlbuffer, and WRITTEN WITHOUT A LOCK by the "libxml2 unusable" fallback
                                (`if (ret < 0 && errno == ENOSYS) { hwloc_libxml_callbacks = NULL; goto retry; }`) *)

Definition loc_eqb (a b : loc) : bool :=
  match a, b with
  | LTree t, LTree u | LDistList t, LDistList u | LCpukinds t, LCpukinds u => Nat.eqb t u
  | LDistFlags t d, LDistFlags u e | LDistObjs t d, LDistObjs u e
  | LMaFlags t d, LMaFlags u e | LMaCache t d, LMaCache u e => Nat.eqb t u && Nat.eqb d e
  | LStChecked s, LStChecked r | LStValue s, LStValue r => static_eqb s r
  | LRefcount, LRefcount | LRegistry, LRegistry | LXmlBackend, LXmlBackend => true
  | _, _ => false
  end.

(* topology a location belongs to; None = process-wide *)
Definition loc_topo (l : loc) : option nat :=
  match l with
  | LTree t | LDistList t | LDistFlags t _ | LDistObjs t _ | LMaFlags t _ | LMaCache t _ | LCpukinds t => Some t
  | _ => None
  end.

(* [e_prot]: the access is ordered by the component-mutex protocol (made while
   hwloc_components_mutex is held, or - for reads of the registry during load -
   while the thread owns a reference taken and dropped inside critical
   sections; see the Refcount section).  [e_val]: value written (ignored for reads). *)
Record ev := mkEv { e_wr : bool; e_loc : loc; e_val : nat; e_prot : bool }.
Definition Rd (l : loc) : ev := mkEv false l 0 false.
Definition Wr (l : loc) (v : nat) : ev := mkEv true l v false.
Definition RdL (l : loc) : ev := mkEv false l 0 true.
Definition WrL (l : loc) (v : nat) : ev := mkEv true l v true.

Definition writes (es : list ev) : list ev := filter e_wr es.

(* two accesses conflict: same location, at least one write, not both ordered by the mutex protocol *)
Definition conflict (a b : ev) : bool :=
  loc_eqb (e_loc a) (e_loc b) && (e_wr a || e_wr b) && negb (e_prot a && e_prot b).

(* an interleaving is a list of (thread, event); thread t's program is its projection *)
Definition tev := (nat * ev)%type.
Definition proj (t : nat) (il : list tev) : list ev :=
  map snd (filter (fun x => Nat.eqb (fst x) t) il).

Definition is_interleaving (progs : list (list ev)) (il : list tev) : Prop :=
  forall t, proj t il = nth t progs [].

Definition tconflict (x y : tev) : bool := negb (Nat.eqb (fst x) (fst y)) && conflict (snd x) (snd y).

(* executable race detector over one interleaving: some earlier event conflicts with a later one *)
Fixpoint race_b (il : list tev) : bool :=
  match il with
  | [] => false
  | x :: r => existsb (tconflict x) r || race_b r
  end.

Inductive race_free : list tev -> Prop :=
| rf_nil : race_free []
| rf_cons x r : Forall (fun y => tconflict x y = false) r -> race_free r -> race_free (x :: r).

(* two per-thread event lists do not interfere *)
Definition noninterf (p q : list ev) : Prop :=
  forall a b, In a p -> In b q -> conflict a b = false.
Definition noninterfering (progs : list (list ev)) : Prop :=
  forall t u, t <> u -> noninterf (nth t progs []) (nth u progs []).

(* executable form *)
Definition noninterf_b (p q : list ev) : bool :=
  forallb (fun a => forallb (fun b => negb (conflict a b)) q) p.
(* the locations on which some pair of distinct threads conflicts (what a race detector may report) *)
Definition conflict_locs_with (t : nat) (p : list ev) (others : list (nat * list ev)) : list loc :=
  flat_map (fun a => flat_map (fun uq : nat * list ev =>
     if Nat.eqb (fst uq) t then [] else
     flat_map (fun b => if conflict a b then [e_loc a] else []) (snd uq)) others) p.
Fixpoint number {A} (n : nat) (l : list A) : list (nat * A) :=
  match l with [] => [] | x :: r => (n, x) :: number (S n) r end.
Definition conflict_locs (progs : list (list ev)) : list loc :=
  let np := number 0 progs in
  flat_map (fun tp : nat * list ev => conflict_locs_with (fst tp) (snd tp) np) np.

(* ------------------------------------------------------------------ *)
(** * Memory semantics of an interleaving: what every read observes *)

Definition mem := loc -> nat.
Definition upd (m : mem) (l : loc) (v : nat) : mem := fun k => if loc_eqb k l then v else m k.

(* observations: for each read of an unprotected location, (thread, location, value seen) *)
Fixpoint exec (m : mem) (il : list tev) : list (nat * loc * nat) :=
  match il with
  | [] => []
  | (t, e) :: r =>
      if e_wr e then exec (upd m (e_loc e) (e_val e)) r
      else (t, e_loc e, m (e_loc e)) :: exec m r
  end.
Definition obs_of (t : nat) (o : list (nat * loc * nat)) : list (loc * nat) :=
  map (fun x => (snd (fst x), snd x)) (filter (fun x => Nat.eqb (fst (fst x)) t) o).
(* thread t run alone on the same initial memory *)
Definition alone (t : nat) (p : list ev) : list tev := map (fun e => (t, e)) p.

(* ------------------------------------------------------------------ *)
(** * hwloc state *)

Record dist := mkDist {
  d_id : nat;        (* stable id (dist->id) *)
  d_valid : bool;    (* HWLOC_INTERNAL_DIST_FLAG_OBJS_VALID *)
  d_nb : nat;        (* nbobjs *)
  d_live : nat }.    (* how many of the nbobjs objects are still in the tree (<= d_nb) *)

Record mattr := mkMa {
  a_conv : bool;     (* HWLOC_IMATTR_FLAG_CONVENIENCE: no cache, read-only *)
  a_valid : bool }.  (* HWLOC_IMATTR_FLAG_CACHE_VALID *)

Record topo := mkTopo {
  t_loaded : bool;       (* HWLOC_TOPOLOGY_STATE_IS_LOADED *)
  t_nodist : bool;       (* HWLOC_TOPOLOGY_FLAG_NO_DISTANCES *)
  t_nomemattr : bool;    (* HWLOC_TOPOLOGY_FLAG_NO_MEMATTRS *)
  t_nocpukinds : bool;   (* HWLOC_TOPOLOGY_FLAG_NO_CPUKINDS *)
  t_dists : list dist;
  t_next : nat;          (* topology->next_dist_id *)
  t_mattrs : list mattr }.

(* process-wide part *)
Record glob := mkGlob {
  g_checked : list static_id;   (* statics whose `checked` is already 1 *)
  g_envset : list static_id;    (* statics whose environment variable is set (the value is then written at first use) *)
  g_libxml : bool;              (* hwloc_libxml_callbacks != NULL (and not disabled by the environment): XML goes through libxml2 *)
  g_users : nat;                (* hwloc_components_users *)
  g_avail : bool }.             (* a libxml component is compiled in: what registration sets hwloc_libxml_callbacks to *)

Record state := mkState { s_topos : list (option topo); s_glob : glob }.

Definition mem_static (s : static_id) (l : list static_id) : bool := existsb (static_eqb s) l.

(* ------------------------------------------------------------------ *)
(** * The cache protocols *)

(* hwloc_internal_distances_refresh_one: None = "became useless, drop" (returns -1) *)
Definition dist_refresh_one (t : nat) (d : dist) : option dist * list ev :=
  if d_valid d then (Some d, [Rd (LDistFlags t (d_id d))])
  else
    let pre := [Rd (LDistFlags t (d_id d)); Rd (LDistObjs t (d_id d)); Rd (LTree t);
                Wr (LDistObjs t (d_id d)) (d_live d)] in
    if d_live d <? 2 then (None, pre)
    else (Some (mkDist (d_id d) true (d_live d) (d_live d)),
          pre ++ (if d_live d <? d_nb d then [Wr (LDistObjs t (d_id d)) (d_live d)] else [])
              ++ [Wr (LDistFlags t (d_id d)) 1]).

(* hwloc_internal_distances_refresh: walks the list, unlinks and frees what refresh_one rejects *)
Fixpoint dists_refresh_list (t : nat) (ds : list dist) : list dist * list ev :=
  match ds with
  | [] => ([], [])
  | d :: r =>
      let '(od, e1) := dist_refresh_one t d in
      let '(r', e2) := dists_refresh_list t r in
      match od with
      | Some d' => (d' :: r', Rd (LDistList t) :: e1 ++ e2)
      | None => (r', Rd (LDistList t) :: e1 ++ [Wr (LDistList t) 0; Wr (LDistObjs t (d_id d)) 0; Wr (LDistFlags t (d_id d)) 0] ++ e2)
      end
  end.
Definition dists_refresh (t : nat) (ds : list dist) : list dist * list ev :=
  let '(ds', e) := dists_refresh_list t ds in (ds', Rd (LDistList t) :: e).

(* hwloc_internal_distances_invalidate_cached_objs *)
Definition dists_invalidate (t : nat) (ds : list dist) : list dist * list ev :=
  (map (fun d => mkDist (d_id d) false (d_nb d) (d_live d)) ds,
   Rd (LDistList t) :: map (fun d => Wr (LDistFlags t (d_id d)) 0) ds).

(* hwloc__imattr_refresh guarded by the CACHE_VALID test every caller makes *)
Definition ma_refresh_one (t a : nat) (m : mattr) : mattr * list ev :=
  if a_conv m then (m, [Rd (LMaFlags t a)])
  else if a_valid m then (m, [Rd (LMaFlags t a)])
  else (mkMa false true, [Rd (LMaFlags t a); Rd (LMaCache t a); Rd (LTree t); Wr (LMaCache t a) 1; Wr (LMaFlags t a) 1]).

(* hwloc_internal_memattrs_refresh *)
Fixpoint mas_refresh_from (t a : nat) (ms : list mattr) : list mattr * list ev :=
  match ms with
  | [] => ([], [])
  | m :: r =>
      let '(m', e1) := (if a_valid m then (m, [Rd (LMaFlags t a)]) else
                          (mkMa (a_conv m) true, [Rd (LMaFlags t a); Rd (LMaCache t a); Rd (LTree t); Wr (LMaCache t a) 1; Wr (LMaFlags t a) 1])) in
      let '(r', e2) := mas_refresh_from t (S a) r in
      (m' :: r', e1 ++ e2)
  end.

(* hwloc_internal_memattrs_need_refresh: convenience attributes are skipped *)
Fixpoint mas_need_refresh_from (t a : nat) (ms : list mattr) : list mattr * list ev :=
  match ms with
  | [] => ([], [])
  | m :: r =>
      let '(r', e2) := mas_need_refresh_from t (S a) r in
      if a_conv m then (m :: r', Rd (LMaFlags t a) :: e2)
      else (mkMa false false :: r', Rd (LMaFlags t a) :: Wr (LMaFlags t a) 0 :: e2)
  end.

(* `static int checked` pattern:  if (!checked) { env = getenv(..); if (env) value = ..; checked = 1; } return value; *)
Definition static_use (s : static_id) (g : glob) : glob * list ev :=
  if mem_static s (g_checked g) then (g, [Rd (LStChecked s); Rd (LStValue s)])
  else (mkGlob (s :: g_checked g) (g_envset g) (g_libxml g) (g_users g) (g_avail g),
        Rd (LStChecked s) :: (if mem_static s (g_envset g) then [Wr (LStValue s) 1] else [])
          ++ [Wr (LStChecked s) 1; Rd (LStValue s)]).

(* hwloc_libxml2_init_once: if (!checked) { xmlSetGenericErrorFunc(.., hwloc__xml_verbose() ? ..);
     if (getenv("HWLOC_LIBXML_CLEANUP")) needs_cleanup = 1; checked = 1; } *)
Definition libxml_init_once (g : glob) : glob * list ev :=
  if mem_static SLibxmlInit (g_checked g) then (g, [Rd (LStChecked SLibxmlInit)])
  else
    let '(g1, e1) := static_use SXmlVerbose g in
    (mkGlob (SLibxmlInit :: g_checked g1) (g_envset g1) (g_libxml g1) (g_users g1) (g_avail g1),
     Rd (LStChecked SLibxmlInit) :: e1
       ++ (if mem_static SLibxmlInit (g_envset g) then [Wr (LStValue SLibxmlInit) 1] else [])
       ++ [Wr (LStChecked SLibxmlInit) 1]).

(* ------------------------------------------------------------------ *)
(** * Consulting calls *)

Inductive ma_query := QValue | QBestTarget | QBestInitiator | QTargets | QInitiators.

Inductive cop :=
| CTraverse          (* tree traversal and helpers (the canonical dump walks everything) *)
| CTypePrint         (* hwloc_obj_type_snprintf / hwloc_obj_attr_snprintf *)
| CDistGet           (* hwloc_distances_get, _by_depth, _by_type, _by_name: all go through hwloc__distances_get *)
| CDistRelease       (* hwloc_distances_release: frees the caller's private copy *)
| CMaMeta            (* hwloc_memattr_get_by_name / get_name / get_flags *)
| CMaGet (q : ma_query) (a : nat)
| CLocalNodes        (* hwloc_get_local_numanode_objs *)
| CCpukinds          (* hwloc_cpukinds_get_nr / get_info / get_by_cpuset *)
| CSets              (* hwloc_topology_get_{allowed,complete,topology}_{cpuset,nodeset} *)
| CBitmap            (* bitmap queries on the topology's sets *)
| CExportXml         (* hwloc_topology_export_xmlbuffer (+ hwloc_free_xmlbuffer) *)
| CExportSynth (warns : bool)
    (* hwloc_topology_export_synthetic; warns = HWLOC_SYNTHETIC_VERBOSE is set and the topology has a
       memory-side cache with several memory children (a tree-level fact, input of the step): the
       export then goes through `if (!warned) { fprintf(..); warned = 1; }` *)
| CDefaultNodeset    (* hwloc_topology_get_default_nodeset: works on a private COPY of the NUMA level array *)
| CHelpers.          (* the consulting helpers of helper.h / inlines.h / hwloc.h: covering / inside / below / closest
                        objects, cpuset<->nodeset, distrib, infos, support, type predicates, PCI/OS device lookups,
                        (hwloc_distances_get_by_name + transform belong to CDistGet) *)

Definition uses_statics (c : cop) : bool := match c with CExportXml | CExportSynth true => true | _ => false end.

Definition result := list nat.

Definition set_dists (tp : topo) (ds : list dist) : topo :=
  mkTopo (t_loaded tp) (t_nodist tp) (t_nomemattr tp) (t_nocpukinds tp) ds (t_next tp) (t_mattrs tp).
Definition set_mattrs (tp : topo) (ms : list mattr) : topo :=
  mkTopo (t_loaded tp) (t_nodist tp) (t_nomemattr tp) (t_nocpukinds tp) (t_dists tp) (t_next tp) ms.

Fixpoint replace_nth {A} (n : nat) (x : A) (l : list A) : list A :=
  match l, n with
  | [], _ => []
  | _ :: r, O => x :: r
  | y :: r, S k => y :: replace_nth k x r
  end.

(* a consulting call on LOADED topology number t *)
Definition cons_run (t : nat) (tp : topo) (g : glob) (c : cop) : topo * glob * result * list ev :=
  match c with
  | CTraverse | CTypePrint | CLocalNodes | CSets | CBitmap | CMaMeta | CExportSynth false | CDefaultNodeset | CHelpers =>
      (tp, g, [], [Rd (LTree t)])
  | CExportSynth true =>
      if mem_static SSynthWarned (g_checked g) then (tp, g, [], [Rd (LTree t); Rd (LStChecked SSynthWarned)])
      else (tp, mkGlob (SSynthWarned :: g_checked g) (g_envset g) (g_libxml g) (g_users g) (g_avail g), [],
            [Rd (LTree t); Rd (LStChecked SSynthWarned); Wr (LStChecked SSynthWarned) 1])
  | CCpukinds => (tp, g, [], [Rd (LTree t); Rd (LCpukinds t)])
  | CDistRelease => (tp, g, [], [])
  | CDistGet =>
      let '(ds, e) := dists_refresh t (t_dists tp) in
      (set_dists tp ds, g, length ds :: map d_nb ds,
       Rd (LTree t) :: e ++ flat_map (fun d => [Rd (LDistFlags t (d_id d)); Rd (LDistObjs t (d_id d))]) ds)
  | CMaGet q a =>
      match nth_error (t_mattrs tp) a with
      | None => (tp, g, [0], [Rd (LTree t)])            (* id >= nr_memattrs: EINVAL *)
      | Some m =>
          if a_conv m then (tp, g, [1], [Rd (LTree t); Rd (LMaFlags t a)])
          else
            let '(m', e) := ma_refresh_one t a m in
            (set_mattrs tp (replace_nth a m' (t_mattrs tp)), g, [1],
             Rd (LTree t) :: e ++ [Rd (LMaCache t a)])
      end
  | CExportXml =>
      (* hwloc_internal_distances_refresh; hwloc_nolibxml_export(); then the backend *)
      let '(ds, e1) := dists_refresh t (t_dists tp) in
      let '(g1, e2) := static_use SNolibxmlExport g in
      let '(g2, e3) := (if g_libxml g then libxml_init_once g1 else (g1, [])) in
      (set_dists tp ds, g2, [length ds],
       Rd (LTree t) :: e1 ++ e2 ++ e3 ++ [RdL LXmlBackend; Rd (LTree t); Rd (LCpukinds t)]
         ++ flat_map (fun d => [Rd (LDistObjs t (d_id d))]) ds
         ++ flat_map (fun a => [Rd (LMaFlags t a); Rd (LMaCache t a)]) (seq 0 (length (t_mattrs tp))))
  end.

(* ------------------------------------------------------------------ *)
(** * Modifying calls and the life cycle *)

Inductive mop :=
| MRestrict (ok : bool) (lives : list nat)
    (* hwloc_topology_restrict; ok=false: rejected before touching anything (EINVAL);
       lives: for each distances structure in list order, how many of its objects survive *)
| MInsertMisc | MInsertGroup | MAllow
| MDistAdd (nb : nat)          (* hwloc_distances_add_create/values/commit with nb >= 2 objects, no grouping *)
| MDistRemoveAll               (* hwloc_distances_remove *)
| MMaRegister                  (* hwloc_memattr_register *)
| MMaSet (a : nat) (newtarget : bool)   (* hwloc_memattr_set_value; newtarget: the call adds a target - or, since /repo c3717fc, an initiator to an existing target: both clear CACHE_VALID *)
| MRefresh.                    (* hwloc_topology_refresh *)

Fixpoint set_lives (ds : list dist) (lives : list nat) : list dist :=
  match ds, lives with
  | d :: r, l :: ls => mkDist (d_id d) (d_valid d) (d_nb d) (Nat.min l (d_nb d)) :: set_lives r ls
  | _, _ => ds
  end.

Definition do_restrict (t : nat) (tp : topo) (lives : list nat) : topo * list ev :=
  let '(ds, e1) := (if t_nodist tp then (t_dists tp, []) else dists_invalidate t (set_lives (t_dists tp) lives)) in
  (* since fix 12fb556 not guarded by HWLOC_TOPOLOGY_FLAG_NO_MEMATTRS: user attributes may exist *)
  let '(ms, e2) := mas_need_refresh_from t 0 (t_mattrs tp) in
  (set_mattrs (set_dists tp ds) ms,
   Rd (LTree t) :: Wr (LTree t) 1 :: e1 ++ e2 ++ (if t_nocpukinds tp then [] else [Wr (LCpukinds t) 1]) ++ [Wr (LTree t) 1]).

Definition do_refresh (t : nat) (tp : topo) : topo * list ev :=
  let e0 := if t_nocpukinds tp then [] else [Rd (LTree t); Wr (LCpukinds t) 1] in
  let '(ds, e1) := (if t_nodist tp then (t_dists tp, []) else dists_refresh t (t_dists tp)) in
  (* since fix 12fb556 not guarded by HWLOC_TOPOLOGY_FLAG_NO_MEMATTRS *)
  let '(ms, e2) := mas_refresh_from t 0 (t_mattrs tp) in
  (set_mattrs (set_dists tp ds) ms, Rd (LTree t) :: e0 ++ e1 ++ e2).

Definition mod_run (t : nat) (tp : topo) (m : mop) : topo * result * list ev :=
  if negb (t_loaded tp) then (tp, [0], [Rd (LTree t)]) else
  match m with
  | MRestrict false _ => (tp, [0], [Rd (LTree t)])
  | MRestrict true lives => let '(tp', e) := do_restrict t tp lives in (tp', [1], e)
  | MInsertMisc | MInsertGroup | MAllow => (tp, [1], [Rd (LTree t); Wr (LTree t) 1])
  | MDistAdd nb =>
      (* hwloc_distances_add_* does not look at HWLOC_TOPOLOGY_FLAG_NO_DISTANCES *)
      if nb <? 2 then (tp, [0], [Rd (LTree t)]) else
      let id := t_next tp in
      (mkTopo (t_loaded tp) (t_nodist tp) (t_nomemattr tp) (t_nocpukinds tp)
              (t_dists tp ++ [mkDist id true nb nb]) (S id) (t_mattrs tp), [1],
       [Rd (LTree t); Wr (LTree t) 1; Wr (LDistObjs t id) nb; Wr (LDistFlags t id) 1; Rd (LDistList t); Wr (LDistList t) 1])
  | MDistRemoveAll =>
      (set_dists tp [], [1],
       Rd (LDistList t) :: flat_map (fun d => [Wr (LDistObjs t (d_id d)) 0; Wr (LDistFlags t (d_id d)) 0]) (t_dists tp)
         ++ [Wr (LDistList t) 0])
  | MMaRegister =>
      (* hwloc_memattr_register does not look at HWLOC_TOPOLOGY_FLAG_NO_MEMATTRS *)
      let a := length (t_mattrs tp) in
      (set_mattrs tp (t_mattrs tp ++ [mkMa false true]), [1],
       [Rd (LTree t); Wr (LTree t) 1; Wr (LMaCache t a) 0; Wr (LMaFlags t a) 1])
  | MMaSet a newtarget =>
      match nth_error (t_mattrs tp) a with
      | None => (tp, [0], [Rd (LTree t)])
      | Some m =>
          if a_conv m then (tp, [0], [Rd (LTree t); Rd (LMaFlags t a)]) else
          (* loaded: refresh first if invalid, then get_target(create=1) clears CACHE_VALID when it adds a target *)
          let '(m1, e1) := ma_refresh_one t a m in
          let m2 := if newtarget then mkMa false false else m1 in
          (set_mattrs tp (replace_nth a m2 (t_mattrs tp)), [1],
           Rd (LTree t) :: e1 ++ (if newtarget then [Wr (LMaCache t a) 0; Wr (LMaFlags t a) 0] else [])
             ++ [Wr (LMaCache t a) 2])
      end
  | MRefresh => let '(tp', e) := do_refresh t tp in (tp', [1], e)
  end.

(* what the discovery leaves behind, and the flags given before load *)
Record loadcfg := mkCfg {
  c_nodist : bool; c_nomemattr : bool; c_nocpukinds : bool;
  c_dists : list nat;         (* nbobjs of every distances structure the backend added *)
  c_extra_mattrs : nat;       (* attributes registered by the backend beyond the predefined ones *)
  c_bind : option (option (list nat));
  c_xml : bool;               (* the source is XML (hwloc_topology_set_xml / set_xmlbuffer) *)
  c_fails : bool;             (* the source is rejected whatever the backend (malformed document, bad synthetic
                                 description, missing file): set_*/load return -1, the topology stays unloaded *)
  c_needs_libxml : bool;      (* a well-formed document only a full XML parser accepts (single-quoted attributes,
                                 comments, character references, entities ...): rejected by the nolibxml backend *)
  c_enosys : bool }.          (* libxml2's backend_init fails with ENOSYS (unusable library): the fallback fires *)
    (* None: neither HWLOC_TOPOLOGY_FLAG_RESTRICT_TO_CPUBINDING nor _MEMBINDING is set.
       Some None: a flag is set but the binding was not obtained or the restrict was rejected.
       Some (Some lives): hwloc_topology_restrict(binding) ran after the refreshes of load.
       In both Some cases hwloc_topology_refresh runs afterwards (fix 970d793). *)

(* hwloc_internal_memattrs_prepare: CAPACITY and LOCALITY are convenience attributes, the other six are
   not; none is born with CACHE_VALID (the refresh at the end of load sets it).  Cross-checked against
   Gen/Tables.memattr_predefined in Properties_C17. *)
Definition predefined_mattrs : list mattr :=
  [mkMa true false; mkMa true false; mkMa false false; mkMa false false; mkMa false false; mkMa false false; mkMa false false; mkMa false false].

Fixpoint fresh_dists (id : nat) (nbs : list nat) : list dist :=
  match nbs with [] => [] | nb :: r => mkDist id true nb nb :: fresh_dists (S id) r end.

(* the tail of hwloc_topology_load, in statement order *)
Definition load_run (t : nat) (c : loadcfg) : topo * list ev :=
  let ds0 := if c_nodist c then [] else fresh_dists 0 (c_dists c) in
  let ms0 := if c_nomemattr c then [] else predefined_mattrs ++ repeat (mkMa false true) (c_extra_mattrs c) in
  let tp0 := mkTopo false (c_nodist c) (c_nomemattr c) (c_nocpukinds c) ds0 (length ds0) ms0 in
  let e0 := [RdL LRegistry; Wr (LTree t) 1] ++ (if c_nocpukinds c then [] else [Wr (LCpukinds t) 1]) in
  (* invalidate_cached_objs + refresh *)
  let '(ds1, e1) := (if c_nodist c then (ds0, []) else dists_invalidate t ds0) in
  let '(ds2, e2) := (if c_nodist c then (ds1, []) else dists_refresh t ds1) in
  (* need_refresh + refresh *)
  let '(ms1, e3) := (if c_nomemattr c then (ms0, []) else mas_need_refresh_from t 0 ms0) in
  let '(ms2, e4) := (if c_nomemattr c then (ms1, []) else mas_refresh_from t 0 ms1) in
  let tp1 := mkTopo true (c_nodist c) (c_nomemattr c) (c_nocpukinds c) ds2 (length ds0) ms2 in
  (* state |= IS_LOADED; then the binding restricts, then (fix 970d793) hwloc_topology_refresh *)
  match c_bind c with
  | None => (tp1, e0 ++ e1 ++ e2 ++ e3 ++ e4)
  | Some r =>
      let '(tp2, e5) := (match r with Some lives => do_restrict t tp1 lives | None => (tp1, []) end) in
      let '(tp3, e6) := do_refresh t tp2 in
      (tp3, e0 ++ e1 ++ e2 ++ e3 ++ e4 ++ e5 ++ e6)
  end.

(* hwloc_xml_component_instantiate (at set_xml time): hwloc_nolibxml_import(), then the libxml backend's
   hwloc_libxml2_init_once() *)
Definition set_libxml (g : glob) (b : bool) : glob := mkGlob (g_checked g) (g_envset g) b (g_users g) (g_avail g).
Definition load_statics (c : loadcfg) (g : glob) : glob * list ev :=
  if c_xml c then
    let '(g1, e1) := static_use SNolibxmlImport g in
    let '(g2, e2) := (if g_libxml g then libxml_init_once g1 else (g1, [])) in
    if g_libxml g && c_enosys c
    then (set_libxml g2 false, e1 ++ [RdL LXmlBackend] ++ e2 ++ [Wr LXmlBackend 0])    (* hwloc_libxml_callbacks = NULL; goto retry *)
    else (g2, e1 ++ [RdL LXmlBackend] ++ e2)
  else (g, []).
(* does set_*/load fail?  depends on the process-wide backend choice *)
Definition load_fails (c : loadcfg) (g : glob) : bool :=
  c_fails c || (c_xml c && c_needs_libxml c && negb (g_libxml g && negb (c_enosys c))).


Inductive op :=
| OInit (t : nat)                 (* hwloc_topology_init: slot t must be free *)
| OLoad (t : nat) (c : loadcfg)
| ODestroy (t : nat)
| OMod (t : nat) (m : mop)
| OCons (t : nat) (c : cop).

Definition op_topo (o : op) : nat :=
  match o with OInit t | OLoad t _ | ODestroy t | OMod t _ | OCons t _ => t end.
Definition is_cons (o : op) : bool := match o with OCons _ _ => true | _ => false end.
(* the only modelled call that writes a process-wide static AFTER its first use and outside the mutex is the
   XML load whose libxml2 backend reports ENOSYS; every other call leaves the backend choice alone *)
Definition backend_stable (o : op) : bool :=
  match o with OLoad _ c => negb (c_xml c && c_enosys c) | _ => true end.
(* the process-wide facts the RESULT of a call depends on (the `checked` statics only cache constants) *)
Definition glob_consistent (g : glob) : Prop := g_libxml g = g_avail g.

Definition get_topo (s : state) (t : nat) : option topo :=
  match nth_error (s_topos s) t with Some (Some tp) => Some tp | _ => None end.
Fixpoint set_slot (l : list (option topo)) (t : nat) (x : option topo) : list (option topo) :=
  match t, l with
  | O, [] => [x]
  | O, _ :: r => x :: r
  | S k, [] => None :: set_slot [] k x
  | S k, y :: r => y :: set_slot r k x
  end.
Definition set_users (g : glob) (n : nat) : glob := mkGlob (g_checked g) (g_envset g) (g_libxml g) n (g_avail g).
(* hwloc_components_init / _fini: registration (users 0 -> 1) sets the backend pointers, the reset (1 -> 0) clears
   them; as nothing can use XML while no topology exists the two are merged: crossing 0 restores g_avail *)
Definition init_glob (g : glob) : glob :=
  mkGlob (g_checked g) (g_envset g) (if g_users g =? 0 then g_avail g else g_libxml g) (S (g_users g)) (g_avail g).
Definition fini_glob (g : glob) : glob :=
  mkGlob (g_checked g) (g_envset g) (if g_users g =? 1 then g_avail g else g_libxml g) (pred (g_users g)) (g_avail g).

Definition empty_topo : topo := mkTopo false false false false [] 0 [].

(* one API call: new state, result, events *)
Definition run_op (s : state) (o : op) : state * result * list ev :=
  match o with
  | OInit t =>
      match get_topo s t with
      | Some _ => (s, [0], [])
      | None =>
          (* hwloc_components_init under the mutex: users++ , registration when it was 0 *)
          let g := s_glob s in
          (mkState (set_slot (s_topos s) t (Some empty_topo)) (init_glob g), [1],
           [RdL LRefcount; WrL LRefcount (S (g_users g))] ++ (if g_users g =? 0 then [WrL LRegistry 1; WrL LXmlBackend 1] else [])
             ++ [Wr (LTree t) 0])
      end
  | OLoad t c =>
      match get_topo s t with
      | Some tp => if t_loaded tp then (s, [0], [Rd (LTree t)])      (* EBUSY *)
                   else let '(g', e0) := load_statics c (s_glob s) in
                        if load_fails c (s_glob s)
                        then (mkState (s_topos s) g', [0], e0 ++ [Rd (LTree t); Wr (LTree t) 0])
                        else
                        let '(tp', e) := load_run t c in
                        (mkState (set_slot (s_topos s) t (Some tp')) g', [1], e0 ++ e)
      | None => (s, [0], [])
      end
  | ODestroy t =>
      match get_topo s t with
      | Some tp =>
          let g := s_glob s in
          (mkState (set_slot (s_topos s) t None) (fini_glob g), [1],
           Wr (LTree t) 0 :: Wr (LDistList t) 0 :: Wr (LCpukinds t) 0
             :: flat_map (fun d => [Wr (LDistObjs t (d_id d)) 0; Wr (LDistFlags t (d_id d)) 0]) (t_dists tp)
             ++ flat_map (fun a => [Wr (LMaCache t a) 0; Wr (LMaFlags t a) 0]) (seq 0 (length (t_mattrs tp)))
             ++ [RdL LRefcount; WrL LRefcount (pred (g_users g))] ++ (if g_users g =? 1 then [WrL LRegistry 0; WrL LXmlBackend 0] else []))
      | None => (s, [0], [])
      end
  | OMod t m =>
      match get_topo s t with
      | Some tp => let '(tp', r, e) := mod_run t tp m in
                   (mkState (set_slot (s_topos s) t (Some tp')) (s_glob s), r, e)
      | None => (s, [0], [])
      end
  | OCons t c =>
      match get_topo s t with
      | Some tp =>
          if t_loaded tp then
            let '(tp', g', r, e) := cons_run t tp (s_glob s) c in
            (mkState (set_slot (s_topos s) t (Some tp')) g', r, e)
          else (s, [0], [Rd (LTree t)])
      | None => (s, [0], [])
      end
  end.

(* a thread's program run alone *)
Fixpoint run_prog (s : state) (p : list op) : state * list result * list ev :=
  match p with
  | [] => (s, [], [])
  | o :: r =>
      let '(s1, x, e1) := run_op s o in
      let '(s2, xs, e2) := run_prog s1 r in
      (s2, x :: xs, e1 ++ e2)
  end.
Definition events_of (s : state) (p : list op) : list ev := snd (run_prog s p).
Definition results_of (s : state) (p : list op) : list result := snd (fst (run_prog s p)).

(* a schedule picks which thread performs its next call; calls are atomic at this level
   (the event level above is where atomicity is NOT assumed) *)
Fixpoint run_sched (s : state) (progs : list (list op)) (sched : list nat) : state * list (nat * result) :=
  match sched with
  | [] => (s, [])
  | t :: r =>
      match nth t progs [] with
      | [] => run_sched s progs r
      | o :: rest =>
          let '(s1, x, _) := run_op s o in
          let '(s2, xs) := run_sched s1 (replace_nth t rest progs) r in
          (s2, (t, x) :: xs)
      end
  end.
Definition results_of_thread (t : nat) (l : list (nat * result)) : list result :=
  map snd (filter (fun x => Nat.eqb (fst x) t) l).

(* ------------------------------------------------------------------ *)
(** * Validity *)

Definition topo_valid (tp : topo) : bool :=
  forallb d_valid (t_dists tp) && forallb a_valid (t_mattrs tp).
(* every loaded topology has all its caches valid *)
Definition all_valid (s : state) : bool :=
  forallb (fun o => match o with Some tp => negb (t_loaded tp) || topo_valid tp | None => true end) (s_topos s).
(* the first use of the statics an XML export consults has already happened *)
Definition statics_warm (g : glob) : bool :=
  mem_static SNolibxmlExport (g_checked g) && (negb (g_libxml g) || mem_static SLibxmlInit (g_checked g)).

(* the first use of the statics this consulting call consults has already happened *)
Definition warm_for (g : glob) (c : cop) : bool :=
  match c with
  | CExportXml => statics_warm g
  | CExportSynth true => mem_static SSynthWarned (g_checked g)
  | _ => true
  end.
Definition all_statics_warm (g : glob) : bool := statics_warm g && mem_static SSynthWarned (g_checked g).

Definition cons_on (t : nat) (p : list op) : bool :=
  forallb (fun o => is_cons o && Nat.eqb (op_topo o) t) p.
Definition all_cons (p : list op) : bool := forallb is_cons p.

(* ------------------------------------------------------------------ *)
(** * Component reference count (components.c), at critical-section granularity *)

Inductive raction := RInit | RUse | RFini.   (* hwloc_components_init / a read of the registry / hwloc_components_fini *)
Record rstate := mkR { r_users : nat; r_reg : bool; r_gen : nat (* number of registry writes so far *) }.

(* one critical section (the mutex makes it atomic); RUse takes no lock *)
Definition rstep (r : rstate) (a : raction) : rstate :=
  match a with
  | RInit => if r_users r =? 0 then mkR 1 true (S (r_gen r)) else mkR (S (r_users r)) (r_reg r) (r_gen r)
  | RUse => r
  | RFini => if r_users r =? 1 then mkR 0 false (S (r_gen r)) else mkR (pred (r_users r)) (r_reg r) (r_gen r)
  end.
(* does the step write the registry? *)
Definition rwrites (r : rstate) (a : raction) : bool :=
  match a with RInit => r_users r =? 0 | RFini => r_users r =? 1 | RUse => false end.

(* references held by each thread *)
Definition held := list nat.
Definition held_of (h : held) (t : nat) : nat := nth t h 0.
Fixpoint bump (h : held) (t : nat) (f : nat -> nat) : held :=
  match t, h with
  | O, [] => [f 0]
  | O, x :: r => f x :: r
  | S k, [] => 0 :: bump [] k f
  | S k, x :: r => x :: bump r k f
  end.
Definition total (h : held) : nat := fold_right Nat.add 0 h.

(* a schedule of (thread, action) is well formed when a thread only uses the registry or drops a
   reference while it holds one (init ... use ... fini on each topology it owns) *)
Fixpoint rsched_ok (h : held) (l : list (nat * raction)) : bool :=
  match l with
  | [] => true
  | (t, RInit) :: r => rsched_ok (bump h t S) r
  | (t, RUse) :: r => (0 <? held_of h t) && rsched_ok h r
  | (t, RFini) :: r => (0 <? held_of h t) && rsched_ok (bump h t pred) r
  end.
Fixpoint rrun (r : rstate) (h : held) (l : list (nat * raction)) : rstate * held :=
  match l with
  | [] => (r, h)
  | (t, a) :: rest =>
      rrun (rstep r a) (match a with RInit => bump h t S | RFini => bump h t pred | RUse => h end) rest
  end.
