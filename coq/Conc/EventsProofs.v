(* C17 - lemmas about Conc/Events.v *)
From Coq Require Import List Bool Arith PeanoNat Lia ZifyBool ZifyNat.
From HV Require Import Conc.Events.
Import ListNotations.

(* ------------------------------------------------------------------ *)
(** * Locations *)

Lemma static_eqb_eq a b : static_eqb a b = true <-> a = b.
Proof. destruct a, b; simpl; split; intro H; try reflexivity; try discriminate. Qed.

Lemma loc_eqb_eq a b : loc_eqb a b = true <-> a = b.
Proof.
  destruct a, b; simpl; split; intro H; try discriminate; try reflexivity;
    try (apply Nat.eqb_eq in H; subst; reflexivity);
    try (apply andb_true_iff in H; destruct H as [H1 H2]; apply Nat.eqb_eq in H1; apply Nat.eqb_eq in H2; subst; reflexivity);
    try (apply static_eqb_eq in H; subst; reflexivity);
    try (inversion H; subst; rewrite ?Nat.eqb_refl; reflexivity);
    try (inversion H; subst; apply static_eqb_eq; reflexivity).
Qed.

Lemma loc_eqb_refl a : loc_eqb a a = true.
Proof. apply loc_eqb_eq. reflexivity. Qed.

Lemma loc_eqb_neq a b : loc_eqb a b = false <-> a <> b.
Proof.
  split.
  - intros H E. apply loc_eqb_eq in E. congruence.
  - intro N. destruct (loc_eqb a b) eqn:E; [apply loc_eqb_eq in E; contradiction | reflexivity].
Qed.

Lemma conflict_no_write a b : e_wr a = false -> e_wr b = false -> conflict a b = false.
Proof. intros Ha Hb. unfold conflict. rewrite Ha, Hb. simpl. rewrite andb_false_r. reflexivity. Qed.

Lemma conflict_diff_loc a b : e_loc a <> e_loc b -> conflict a b = false.
Proof. intro N. unfold conflict. apply loc_eqb_neq in N. rewrite N. reflexivity. Qed.

Lemma conflict_both_prot a b : e_prot a = true -> e_prot b = true -> conflict a b = false.
Proof. intros Ha Hb. unfold conflict. rewrite Ha, Hb. simpl. rewrite andb_false_r. reflexivity. Qed.

(* ------------------------------------------------------------------ *)
(** * Interleavings *)

Lemma proj_cons_same t e r : proj t ((t, e) :: r) = e :: proj t r.
Proof. unfold proj. simpl. rewrite Nat.eqb_refl. reflexivity. Qed.

Lemma proj_cons_other t u e r : u <> t -> proj t ((u, e) :: r) = proj t r.
Proof. intro N. unfold proj. simpl. apply Nat.eqb_neq in N. rewrite N. reflexivity. Qed.

Lemma in_proj t e il : In e (proj t il) <-> In (t, e) il.
Proof.
  unfold proj. rewrite in_map_iff. split.
  - intros [[u f] [E H]]. simpl in E. subst f. apply filter_In in H. destruct H as [H1 H2].
    simpl in H2. apply Nat.eqb_eq in H2. subst. exact H1.
  - intro H. exists (t, e). split; [reflexivity|]. apply filter_In. split; [exact H|]. simpl. apply Nat.eqb_refl.
Qed.

Lemma race_free_of_pairs il :
  (forall t u a b, t <> u -> In (t, a) il -> In (u, b) il -> conflict a b = false) -> race_free il.
Proof.
  induction il as [|[t a] r IH]; intro H.
  - constructor.
  - constructor.
    + apply Forall_forall. intros [u b] Hin. unfold tconflict. simpl.
      destruct (Nat.eqb t u) eqn:E; [reflexivity|]. simpl. apply Nat.eqb_neq in E.
      apply (H t u a b E); [left; reflexivity | right; exact Hin].
    + apply IH. intros t' u' a' b' N H1 H2. apply (H t' u' a' b' N); right; assumption.
Qed.

(* the generic theorem: threads that do not interfere are race free under EVERY interleaving *)
Theorem noninterfering_race_free progs il :
  is_interleaving progs il -> noninterfering progs -> race_free il.
Proof.
  intros Hil Hni. apply race_free_of_pairs. intros t u a b N Ha Hb.
  apply in_proj in Ha. apply in_proj in Hb. rewrite Hil in Ha, Hb.
  exact (Hni t u N a b Ha Hb).
Qed.

Lemma race_b_false_iff il : race_b il = false <-> race_free il.
Proof.
  induction il as [|x r IH]; simpl.
  - split; [constructor | reflexivity].
  - rewrite orb_false_iff. split.
    + intros [H1 H2]. constructor; [|apply IH; exact H2].
      apply Forall_forall. intros y Hy. destruct (tconflict x y) eqn:E; [|reflexivity].
      assert (existsb (tconflict x) r = true) by (apply existsb_exists; exists y; auto). congruence.
    + intro H. inversion H as [|x' r' HF HR]; subst. split; [|apply IH; exact HR].
      destruct (existsb (tconflict x) r) eqn:E; [|reflexivity].
      apply existsb_exists in E. destruct E as [y [Hy Hc]]. rewrite Forall_forall in HF. rewrite (HF y Hy) in Hc. discriminate.
Qed.

Lemma noninterf_b_spec p q : noninterf_b p q = true <-> noninterf p q.
Proof.
  unfold noninterf_b, noninterf. rewrite forallb_forall. split.
  - intros H a b Ha Hb. specialize (H a Ha). rewrite forallb_forall in H. specialize (H b Hb).
    apply negb_true_iff in H. exact H.
  - intros H a Ha. apply forallb_forall. intros b Hb. apply negb_true_iff. apply H; assumption.
Qed.

Lemma noninterf_no_writes p q : writes p = [] -> writes q = [] -> noninterf p q.
Proof.
  intros Hp Hq a b Ha Hb. apply conflict_no_write.
  - destruct (e_wr a) eqn:E; [|reflexivity]. assert (In a (writes p)) by (apply filter_In; auto). rewrite Hp in H. destruct H.
  - destruct (e_wr b) eqn:E; [|reflexivity]. assert (In b (writes q)) by (apply filter_In; auto). rewrite Hq in H. destruct H.
Qed.

Lemma writes_app a b : writes (a ++ b) = writes a ++ writes b.
Proof. unfold writes. apply filter_app. Qed.

Lemma nth_nil_or_in {A} (t : nat) (l : list (list A)) : nth t l [] = [] \/ In (nth t l []) l.
Proof.
  destruct (Nat.lt_ge_cases t (length l)) as [H|H].
  - right. apply nth_In. exact H.
  - left. apply nth_overflow. exact H.
Qed.

(* readers: nobody writes *)
Theorem readers_race_free progs il :
  is_interleaving progs il -> (forall p, In p progs -> writes p = []) -> race_free il.
Proof.
  intros Hil Hw. apply (noninterfering_race_free progs il Hil).
  intros t u _. apply noninterf_no_writes.
  - destruct (nth_nil_or_in t progs) as [E|E]; [rewrite E; reflexivity | apply Hw; exact E].
  - destruct (nth_nil_or_in u progs) as [E|E]; [rewrite E; reflexivity | apply Hw; exact E].
Qed.

(* ------------------------------------------------------------------ *)
(** * Observations do not depend on the interleaving *)

Lemma upd_same m l v : upd m l v l = v.
Proof. unfold upd. rewrite loc_eqb_refl. reflexivity. Qed.
Lemma upd_other m l v k : k <> l -> upd m l v k = m k.
Proof. intro N. unfold upd. apply loc_eqb_neq in N. rewrite N. reflexivity. Qed.

Lemma obs_independent_gen (t : nat) (P : loc -> Prop) :
  forall il m m',
    (forall l, P l -> m l = m' l) ->
    (forall u e, In (u, e) il -> u <> t -> e_wr e = true -> ~ P (e_loc e)) ->
    (forall e, In (t, e) il -> P (e_loc e)) ->
    obs_of t (exec m il) = obs_of t (exec m' (alone t (proj t il))).
Proof.
  induction il as [|[u e] r IH]; intros m m' Hag Hoth Hmine.
  - reflexivity.
  - destruct (Nat.eq_dec u t) as [E|N].
    + subst u. rewrite proj_cons_same. simpl. destruct (e_wr e) eqn:W.
      * apply IH.
        -- intros l Pl. unfold upd. destruct (loc_eqb l (e_loc e)); [reflexivity | apply Hag; exact Pl].
        -- intros u' e' Hin. apply Hoth. right. exact Hin.
        -- intros e' Hin. apply Hmine. right. exact Hin.
      * unfold obs_of. simpl. rewrite Nat.eqb_refl. simpl. f_equal.
        -- rewrite (Hag (e_loc e)); [reflexivity|]. apply Hmine. left. reflexivity.
        -- apply IH.
           ++ exact Hag.
           ++ intros u' e' Hin. apply Hoth. right. exact Hin.
           ++ intros e' Hin. apply Hmine. right. exact Hin.
    + rewrite (proj_cons_other t u e r N). simpl. destruct (e_wr e) eqn:W.
      * apply IH.
        -- intros l Pl. rewrite upd_other; [apply Hag; exact Pl|].
           intro E. subst l. exact (Hoth u e (or_introl eq_refl) N W Pl).
        -- intros u' e' Hin. apply Hoth. right. exact Hin.
        -- intros e' Hin. apply Hmine. right. exact Hin.
      * unfold obs_of. simpl. apply Nat.eqb_neq in N. rewrite N.
        apply IH.
        -- exact Hag.
        -- intros u' e' Hin. apply Hoth. right. exact Hin.
        -- intros e' Hin. apply Hmine. right. exact Hin.
Qed.

(* no other thread writes a location thread t touches *)
Definition isolated (t : nat) (progs : list (list ev)) : Prop :=
  forall u a b, u <> t -> In a (nth t progs []) -> In b (nth u progs []) -> e_wr b = true -> e_loc a <> e_loc b.

Theorem observations_schedule_independent progs il t m :
  is_interleaving progs il -> isolated t progs ->
  obs_of t (exec m il) = obs_of t (exec m (alone t (nth t progs []))).
Proof.
  intros Hil Hiso. rewrite <- (Hil t).
  apply (obs_independent_gen t (fun l => exists a, In a (nth t progs []) /\ e_loc a = l)).
  - reflexivity.
  - intros u e Hin N W [a [Ha El]]. apply in_proj in Hin. rewrite Hil in Hin.
    exact (Hiso u a e N Ha Hin W El).
  - intros e Hin. exists e. split; [|reflexivity]. apply in_proj in Hin. rewrite Hil in Hin. exact Hin.
Qed.

Lemma isolated_no_writes t progs : (forall p, In p progs -> writes p = []) -> isolated t progs.
Proof.
  intros Hw u a b _ _ Hb W. exfalso.
  destruct (nth_nil_or_in u progs) as [E|E].
  - rewrite E in Hb. destruct Hb.
  - specialize (Hw _ E). assert (In b (writes (nth u progs []))) by (apply filter_In; auto). rewrite Hw in H. destruct H.
Qed.

(* ------------------------------------------------------------------ *)
(** * Cache protocols *)

Definition reads_only (es : list ev) : bool := forallb (fun e => negb (e_wr e)) es.

Lemma writes_nil_iff es : writes es = [] <-> reads_only es = true.
Proof.
  induction es as [|e r IH]; simpl; [tauto|].
  unfold writes in *. simpl. destruct (e_wr e); simpl.
  - split; intro H; discriminate.
  - exact IH.
Qed.

Lemma reads_only_app a b : reads_only (a ++ b) = reads_only a && reads_only b.
Proof. apply forallb_app. Qed.

Lemma reads_only_flat_map {A} (f : A -> list ev) l :
  (forall x, In x l -> reads_only (f x) = true) -> reads_only (flat_map f l) = true.
Proof.
  induction l as [|x r IH]; intro H; simpl; [reflexivity|].
  rewrite reads_only_app, (H x (or_introl eq_refl)), IH; [reflexivity|]. intros y Hy. apply H. right. exact Hy.
Qed.

Lemma dist_refresh_one_valid t d : d_valid d = true -> dist_refresh_one t d = (Some d, [Rd (LDistFlags t (d_id d))]).
Proof. intro H. unfold dist_refresh_one. rewrite H. reflexivity. Qed.

Lemma dists_refresh_list_valid t ds :
  forallb d_valid ds = true ->
  fst (dists_refresh_list t ds) = ds /\ reads_only (snd (dists_refresh_list t ds)) = true.
Proof.
  induction ds as [|d r IH]; simpl; intro H; [split; reflexivity|].
  apply andb_true_iff in H. destruct H as [Hd Hr]. specialize (IH Hr).
  rewrite (dist_refresh_one_valid t d Hd).
  destruct (dists_refresh_list t r) as [r' e2]. simpl in *. destruct IH as [E1 E2]. subst r'.
  split; [reflexivity|]. exact E2.
Qed.

Lemma dists_refresh_valid t ds :
  forallb d_valid ds = true ->
  fst (dists_refresh t ds) = ds /\ reads_only (snd (dists_refresh t ds)) = true.
Proof.
  intro H. unfold dists_refresh. pose proof (dists_refresh_list_valid t ds H) as P.
  destruct (dists_refresh_list t ds) as [ds' e]. simpl in *. exact P.
Qed.

Lemma dist_refresh_one_validates t d d' : fst (dist_refresh_one t d) = Some d' -> d_valid d' = true.
Proof.
  unfold dist_refresh_one. destruct (d_valid d) eqn:V; simpl.
  - intro H. inversion H. subst. exact V.
  - destruct (d_live d <? 2); simpl; intro H; inversion H. reflexivity.
Qed.

Lemma dists_refresh_list_validates t ds : forallb d_valid (fst (dists_refresh_list t ds)) = true.
Proof.
  induction ds as [|d r IH]; simpl; [reflexivity|].
  pose proof (dist_refresh_one_validates t d) as P.
  destruct (dist_refresh_one t d) as [od e1]. destruct (dists_refresh_list t r) as [r' e2]. simpl in *.
  destruct od as [d'|]; simpl; [|exact IH]. rewrite (P d' eq_refl), IH. reflexivity.
Qed.

Theorem dists_refresh_validates t ds : forallb d_valid (fst (dists_refresh t ds)) = true.
Proof.
  unfold dists_refresh. pose proof (dists_refresh_list_validates t ds) as P.
  destruct (dists_refresh_list t ds). exact P.
Qed.

Lemma mas_refresh_from_valid t ms : forall a,
  forallb a_valid ms = true ->
  fst (mas_refresh_from t a ms) = ms /\ reads_only (snd (mas_refresh_from t a ms)) = true.
Proof.
  induction ms as [|m r IH]; simpl; intros a H; [split; reflexivity|].
  apply andb_true_iff in H. destruct H as [Hm Hr]. specialize (IH (S a) Hr). rewrite Hm.
  destruct (mas_refresh_from t (S a) r) as [r' e2]. simpl in *. destruct IH as [E1 E2]. subst. split; [reflexivity | exact E2].
Qed.

Theorem mas_refresh_from_validates t ms : forall a, forallb a_valid (fst (mas_refresh_from t a ms)) = true.
Proof.
  induction ms as [|m r IH]; simpl; intro a; [reflexivity|].
  specialize (IH (S a)). destruct (mas_refresh_from t (S a) r) as [r' e2]. simpl in *.
  destruct (a_valid m) eqn:V; simpl; [rewrite V|]; exact IH.
Qed.

Lemma replace_nth_same {A} (l : list A) : forall n x, nth_error l n = Some x -> replace_nth n x l = l.
Proof.
  induction l as [|y r IH]; intros [|n] x H; simpl in *; try discriminate.
  - inversion H. reflexivity.
  - rewrite (IH n x H). reflexivity.
Qed.

Lemma forallb_nth_error {A} (f : A -> bool) l n x : forallb f l = true -> nth_error l n = Some x -> f x = true.
Proof. intros H E. rewrite forallb_forall in H. apply H. eapply nth_error_In. exact E. Qed.

Lemma set_dists_same tp : set_dists tp (t_dists tp) = tp. Proof. destruct tp. reflexivity. Qed.
Lemma set_mattrs_same tp : set_mattrs tp (t_mattrs tp) = tp. Proof. destruct tp. reflexivity. Qed.

Lemma static_use_checked s g : mem_static s (g_checked g) = true ->
  static_use s g = (g, [Rd (LStChecked s); Rd (LStValue s)]).
Proof. intro H. unfold static_use. rewrite H. reflexivity. Qed.

Lemma libxml_init_checked g : mem_static SLibxmlInit (g_checked g) = true ->
  libxml_init_once g = (g, [Rd (LStChecked SLibxmlInit)]).
Proof. intro H. unfold libxml_init_once. rewrite H. reflexivity. Qed.

(* the heart of C17: on a topology whose caches are all valid a consulting call changes nothing and
   writes nothing - for XML export provided the statics it consults were used once before *)
Lemma cons_run_valid t tp g c :
  topo_valid tp = true -> warm_for g c = true ->
  fst (fst (fst (cons_run t tp g c))) = tp /\ snd (fst (fst (cons_run t tp g c))) = g /\
  writes (snd (cons_run t tp g c)) = [].
Proof.
  intros V W. unfold topo_valid in V. apply andb_true_iff in V. destruct V as [Vd Vm].
  destruct c as [| | | | |q a| | | | | |[|]| |]; simpl; try (split; [reflexivity | split; reflexivity]);
    try (simpl in W; rewrite W; simpl; split; [reflexivity | split; reflexivity]).
  - (* CDistGet *)
    pose proof (dists_refresh_valid t (t_dists tp) Vd) as [E1 E2].
    destruct (dists_refresh t (t_dists tp)) as [ds e]. simpl in *. subst ds.
    split; [apply set_dists_same | split; [reflexivity|]].
    apply writes_nil_iff. simpl. rewrite reads_only_app, E2. simpl.
    apply reads_only_flat_map. intros; reflexivity.
  - (* CMaGet *)
    destruct (nth_error (t_mattrs tp) a) as [m|] eqn:E; simpl; [|split; [reflexivity | split; reflexivity]].
    destruct (a_conv m) eqn:C; simpl; [split; [reflexivity | split; reflexivity]|].
    unfold ma_refresh_one. rewrite C. rewrite (forallb_nth_error _ _ _ _ Vm E). simpl.
    rewrite (replace_nth_same _ _ _ E). split; [apply set_mattrs_same | split; reflexivity].
  - (* CExportXml *)
    simpl in W. unfold statics_warm in W. apply andb_true_iff in W. destruct W as [W1 W2].
    pose proof (dists_refresh_valid t (t_dists tp) Vd) as [E1 E2].
    destruct (dists_refresh t (t_dists tp)) as [ds e]. simpl in *. subst ds.
    rewrite (static_use_checked _ _ W1).
    destruct (g_libxml g) eqn:LX.
    + simpl in W2. rewrite (libxml_init_checked _ W2). simpl.
      split; [apply set_dists_same | split; [reflexivity|]].
      apply writes_nil_iff. simpl. rewrite !reads_only_app, E2. simpl.
      rewrite reads_only_app. apply andb_true_iff. split; apply reads_only_flat_map; intros; reflexivity.
    + simpl. split; [apply set_dists_same | split; [reflexivity|]].
      apply writes_nil_iff. simpl. rewrite !reads_only_app, E2. simpl.
      rewrite reads_only_app. apply andb_true_iff. split; apply reads_only_flat_map; intros; reflexivity.
Qed.

(* ------------------------------------------------------------------ *)
(** * States *)

Lemma set_slot_same l : forall t x, nth_error l t = Some x -> set_slot l t x = l.
Proof.
  induction l as [|y r IH]; intros [|t] x H; simpl in *; try discriminate.
  - inversion H. reflexivity.
  - rewrite (IH t x H). reflexivity.
Qed.

Lemma get_topo_some s t tp : get_topo s t = Some tp -> nth_error (s_topos s) t = Some (Some tp).
Proof. unfold get_topo. destruct (nth_error (s_topos s) t) as [[x|]|]; intro H; inversion H. reflexivity. Qed.

Lemma all_valid_topo s t tp : all_valid s = true -> get_topo s t = Some tp -> t_loaded tp = true -> topo_valid tp = true.
Proof.
  intros V G L. apply get_topo_some in G. unfold all_valid in V.
  pose proof (forallb_nth_error _ _ _ _ V G) as H. simpl in H. rewrite L in H. exact H.
Qed.

(* a call a reader may make: consulting, and if it consults statics they are warm *)
Definition reader_ok (g : glob) (o : op) : bool :=
  match o with OCons _ c => warm_for g c | _ => false end.

Lemma run_op_reader s o :
  all_valid s = true -> reader_ok (s_glob s) o = true ->
  fst (fst (run_op s o)) = s /\ writes (snd (run_op s o)) = [].
Proof.
  intros V R. destruct o as [t|t c|t|t m|t c]; try discriminate. simpl in R. simpl.
  destruct (get_topo s t) as [tp|] eqn:G; [|split; reflexivity].
  destruct (t_loaded tp) eqn:L; [|split; reflexivity].
  pose proof (cons_run_valid t tp (s_glob s) c (all_valid_topo s t tp V G L) R) as [E1 [E2 E3]].
  destruct (cons_run t tp (s_glob s) c) as [[[tp' g'] r] e]. simpl in *. subst tp' g'.
  split; [|exact E3]. rewrite (set_slot_same _ _ _ (get_topo_some _ _ _ G)). destruct s. reflexivity.
Qed.

Definition readers_ok (g : glob) (p : list op) : bool := forallb (reader_ok g) p.

Lemma run_prog_readers s p :
  all_valid s = true -> readers_ok (s_glob s) p = true ->
  fst (fst (run_prog s p)) = s /\ writes (events_of s p) = [].
Proof.
  intros V. unfold events_of. induction p as [|o r IH]; simpl; intro R; [split; reflexivity|].
  apply andb_true_iff in R. destruct R as [Ro Rr].
  pose proof (run_op_reader s o V Ro) as [E1 E2].
  destruct (run_op s o) as [[s1 x] e1]. simpl in *. subst s1.
  specialize (IH Rr). destruct (run_prog s r) as [[s2 xs] e2]. simpl in *.
  destruct IH as [I1 I2]. split; [exact I1|]. rewrite writes_app, E2, I2. reflexivity.
Qed.

Lemma results_of_cons s o r :
  all_valid s = true -> reader_ok (s_glob s) o = true ->
  results_of s (o :: r) = snd (fst (run_op s o)) :: results_of s r.
Proof.
  intros V R. unfold results_of. simpl. pose proof (run_op_reader s o V R) as [E1 _].
  destruct (run_op s o) as [[s1 x] e1]. simpl in *. subst s1.
  destruct (run_prog s r) as [[s2 xs] e2]. reflexivity.
Qed.

Lemma nth_replace_nth_same {A} (l : list (list A)) : forall t x, nth t l [] <> [] -> nth t (replace_nth t x l) [] = x.
Proof.
  induction l as [|y r IH]; intros [|t] x H; simpl in *; try congruence.
  apply IH. exact H.
Qed.

Lemma nth_replace_nth_other {A} (l : list (list A)) : forall t u x, t <> u -> nth t (replace_nth u x l) [] = nth t l [].
Proof.
  induction l as [|y r IH]; intros [|t] [|u] x H; simpl in *; try congruence.
  apply IH. congruence.
Qed.

Lemma in_replace_nth {A} (l : list A) : forall n x y, In y (replace_nth n x l) -> y = x \/ In y l.
Proof.
  induction l as [|z r IH]; intros [|n] x y H; simpl in *; try tauto.
  - destruct H; [left; congruence | right; right; exact H].
  - destruct H as [H|H]; [right; left; exact H|]. destruct (IH n x y H); [left | right; right]; assumption.
Qed.

(* under every schedule of atomic calls each reader gets the results it gets when run alone
   (as many of them as the schedule lets it perform) *)
Theorem sched_results_alone s (V : all_valid s = true) t :
  forall sched progs,
    (forall p, In p progs -> readers_ok (s_glob s) p = true) ->
    fst (run_sched s progs sched) = s /\
    results_of_thread t (snd (run_sched s progs sched)) =
      firstn (count_occ Nat.eq_dec sched t) (results_of s (nth t progs [])).
Proof.
  induction sched as [|u r IH]; intros progs H; simpl.
  - split; reflexivity.
  - destruct (nth u progs []) as [|o rest] eqn:E.
    + destruct (IH progs H) as [I1 I2]. split; [exact I1|]. rewrite I2.
      destruct (Nat.eq_dec u t) as [Eq|Ne]; [|reflexivity].
      subst u. rewrite E. unfold results_of. simpl. destruct (count_occ Nat.eq_dec r t); reflexivity.
    + assert (Hp : readers_ok (s_glob s) (o :: rest) = true).
      { destruct (nth_nil_or_in u progs) as [X|X]; [congruence|]. rewrite E in X. apply H. exact X. }
      simpl in Hp. apply andb_true_iff in Hp. destruct Hp as [Ho Hrest].
      pose proof (run_op_reader s o V Ho) as [E1 _].
      assert (H' : forall p, In p (replace_nth u rest progs) -> readers_ok (s_glob s) p = true).
      { intros p Hin. apply in_replace_nth in Hin. destruct Hin as [X|X]; [subst; exact Hrest | apply H; exact X]. }
      specialize (IH (replace_nth u rest progs) H').
      remember (run_op s o) as ro. destruct ro as [[s1 x] e1]. simpl in E1. subst s1.
      destruct (run_sched s (replace_nth u rest progs) r) as [s2 xs]. simpl in *. destruct IH as [I1 I2].
      split; [exact I1|].
      destruct (Nat.eq_dec u t) as [Eq|Ne].
      * subst u. unfold results_of_thread. simpl. rewrite Nat.eqb_refl. simpl.
        unfold results_of_thread in I2. rewrite I2.
        rewrite nth_replace_nth_same by (rewrite E; discriminate).
        rewrite E. rewrite (results_of_cons s o rest V Ho). rewrite <- Heqro. reflexivity.
      * unfold results_of_thread. simpl. apply Nat.eqb_neq in Ne. rewrite Ne. apply Nat.eqb_neq in Ne.
        unfold results_of_thread in I2. rewrite I2. rewrite nth_replace_nth_other by congruence. reflexivity.
Qed.

Lemma nth_map_events s (progs : list (list op)) t :
  nth t (map (events_of s) progs) [] = events_of s (nth t progs []).
Proof. change (@nil ev) with (events_of s []) at 1. apply map_nth. Qed.

(* ------------------------------------------------------------------ *)
(** * Refresh and load *)

Theorem refresh_validates t tp :
  t_nodist tp = false -> topo_valid (fst (do_refresh t tp)) = true.
Proof.
  intros Hd. unfold do_refresh. rewrite Hd.
  pose proof (dists_refresh_validates t (t_dists tp)) as P1.
  pose proof (mas_refresh_from_validates t (t_mattrs tp) 0) as P2.
  destruct (dists_refresh t (t_dists tp)) as [ds e1]. destruct (mas_refresh_from t 0 (t_mattrs tp)) as [ms e2].
  simpl in *. unfold topo_valid. simpl. rewrite P1, P2. reflexivity.
Qed.

Lemma do_refresh_loaded t tp : t_loaded (fst (do_refresh t tp)) = t_loaded tp.
Proof.
  unfold do_refresh.
  destruct (if t_nodist tp then (t_dists tp, []) else dists_refresh t (t_dists tp)) as [ds e1].
  destruct (mas_refresh_from t 0 (t_mattrs tp)) as [ms e2]. reflexivity.
Qed.

Lemma do_restrict_loaded t tp lives : t_loaded (fst (do_restrict t tp lives)) = t_loaded tp.
Proof.
  unfold do_restrict.
  destruct (if t_nodist tp then (t_dists tp, []) else dists_invalidate t (set_lives (t_dists tp) lives)) as [ds e1].
  destruct (mas_need_refresh_from t 0 (t_mattrs tp)) as [ms e2]. reflexivity.
Qed.

(* refresh validates also under NO_DISTANCES provided the structures it then skips are valid (they are
   born valid and, under that flag, restrict never invalidates them) *)
Lemma do_refresh_validates_gen t tp :
  (t_nodist tp = true -> forallb d_valid (t_dists tp) = true) ->
  topo_valid (fst (do_refresh t tp)) = true.
Proof.
  intros Hd. unfold do_refresh.
  assert (P1 : forallb d_valid (fst (if t_nodist tp then (t_dists tp, []) else dists_refresh t (t_dists tp))) = true)
    by (destruct (t_nodist tp); [apply Hd; reflexivity | apply dists_refresh_validates]).
  pose proof (mas_refresh_from_validates t (t_mattrs tp) 0) as P2.
  destruct (if t_nodist tp then (t_dists tp, []) else dists_refresh t (t_dists tp)) as [ds e1].
  destruct (mas_refresh_from t 0 (t_mattrs tp)) as [ms e2].
  cbn [fst] in *. unfold topo_valid. cbn [t_dists t_mattrs set_dists set_mattrs]. rewrite P1, P2. reflexivity.
Qed.

Lemma do_restrict_keeps_skipped t tp lives :
  (t_nodist (fst (do_restrict t tp lives)) = t_nodist tp) /\
  (t_nodist tp = true -> t_dists (fst (do_restrict t tp lives)) = t_dists tp).
Proof.
  unfold do_restrict.
  destruct (mas_need_refresh_from t 0 (t_mattrs tp)) as [ms e2].
  destruct (t_nodist tp) eqn:Nd.
  - cbn. rewrite Nd. split; reflexivity.
  - destruct (dists_invalidate t (set_lives (t_dists tp) lives)) as [ds e1]. cbn. rewrite Nd. split; [reflexivity | discriminate].
Qed.

(* the end of hwloc_topology_load (after fix 970d793): loaded and every cache valid, whatever the flags,
   whatever the discovery left, whether or not a binding restrict ran *)
Theorem load_ends_valid t c :
  t_loaded (fst (load_run t c)) = true /\ topo_valid (fst (load_run t c)) = true.
Proof.
  unfold load_run.
  set (ds0 := if c_nodist c then [] else fresh_dists 0 (c_dists c)).
  set (ms0 := if c_nomemattr c then [] else predefined_mattrs ++ repeat (mkMa false true) (c_extra_mattrs c)).
  assert (Hd : c_nodist c = true -> ds0 = []) by (intro H; unfold ds0; rewrite H; reflexivity).
  assert (Hm : c_nomemattr c = true -> ms0 = []) by (intro H; unfold ms0; rewrite H; reflexivity).
  clearbody ds0 ms0.
  assert (P1 : forallb d_valid (fst (if c_nodist c then (fst (if c_nodist c then (ds0, []) else dists_invalidate t ds0), [])
                                      else dists_refresh t (fst (if c_nodist c then (ds0, []) else dists_invalidate t ds0)))) = true).
  { destruct (c_nodist c); [rewrite (Hd eq_refl); reflexivity | apply dists_refresh_validates]. }
  assert (P2 : forallb a_valid (fst (if c_nomemattr c then (fst (if c_nomemattr c then (ms0, []) else mas_need_refresh_from t 0 ms0), [])
                                      else mas_refresh_from t 0 (fst (if c_nomemattr c then (ms0, []) else mas_need_refresh_from t 0 ms0)))) = true).
  { destruct (c_nomemattr c); [rewrite (Hm eq_refl); reflexivity | apply mas_refresh_from_validates]. }
  destruct (if c_nodist c then (ds0, []) else dists_invalidate t ds0) as [ds1 e1].
  destruct (if c_nomemattr c then (ms0, []) else mas_need_refresh_from t 0 ms0) as [ms1 e3].
  cbn [fst] in P1, P2.
  destruct (if c_nodist c then (ds1, []) else dists_refresh t ds1) as [ds2 e2].
  destruct (if c_nomemattr c then (ms1, []) else mas_refresh_from t 0 ms1) as [ms2 e4].
  cbn [fst] in *.
  set (tp1 := mkTopo true (c_nodist c) (c_nomemattr c) (c_nocpukinds c) ds2 (length ds0) ms2).
  assert (V1 : forallb d_valid (t_dists tp1) = true /\ forallb a_valid (t_mattrs tp1) = true) by (split; assumption).
  destruct (c_bind c) as [r|].
  - assert (X : exists tp2 e5, (match r with Some lives => do_restrict t tp1 lives | None => (tp1, []) end) = (tp2, e5) /\
                 t_loaded tp2 = true /\
                 (t_nodist tp2 = true -> forallb d_valid (t_dists tp2) = true)).
    { destruct r as [lives|].
      - pose proof (do_restrict_loaded t tp1 lives) as L. pose proof (do_restrict_keeps_skipped t tp1 lives) as [K1 K3].
        destruct (do_restrict t tp1 lives) as [tp2 e5]. cbn [fst] in *. exists tp2, e5. split; [reflexivity|].
        split; [rewrite L; reflexivity|].
        intro H. rewrite K1 in H. rewrite (K3 H). apply V1.
      - exists tp1, []. split; [reflexivity|]. split; [reflexivity|]. intro; apply V1. }
    destruct X as [tp2 [e5 [E [L2 D2]]]]. rewrite E.
    pose proof (do_refresh_loaded t tp2) as L3. pose proof (do_refresh_validates_gen t tp2 D2) as V3.
    destruct (do_refresh t tp2) as [tp3 e6]. cbn [fst] in *. split; [rewrite L3; exact L2 | exact V3].
  - cbn [fst]. split; [reflexivity|]. unfold topo_valid. destruct V1 as [A B]. rewrite A, B. reflexivity.
Qed.

(* ------------------------------------------------------------------ *)
(** * Footprints: a call on topology t touches only t's locations, the statics, and mutex-ordered globals *)

Definition is_static_loc (l : loc) : bool := match l with LStChecked _ | LStValue _ | LXmlBackend => true | _ => false end.
Definition fp_ok (t : nat) (e : ev) : bool :=
  match loc_topo (e_loc e) with Some u => Nat.eqb u t | None => e_prot e || is_static_loc (e_loc e) end.
Definition fp_all (t : nat) (es : list ev) : bool := forallb (fp_ok t) es.
Arguments fp_all : simpl never.

Lemma fp_all_app t a b : fp_all t (a ++ b) = fp_all t a && fp_all t b.
Proof. apply forallb_app. Qed.
Lemma fp_all_cons t e r : fp_all t (e :: r) = fp_ok t e && fp_all t r.
Proof. reflexivity. Qed.
Lemma fp_all_flat_map {A} t (f : A -> list ev) l : (forall x, fp_all t (f x) = true) -> fp_all t (flat_map f l) = true.
Proof. intro H. induction l as [|x r IH]; simpl; [reflexivity|]. rewrite fp_all_app, H, IH. reflexivity. Qed.
Lemma fp_all_map {A} t (f : A -> ev) l : (forall x, fp_ok t (f x) = true) -> fp_all t (map f l) = true.
Proof. intro H. induction l as [|x r IH]; simpl; [reflexivity|]. rewrite fp_all_cons, H, IH. reflexivity. Qed.

Ltac fp_simpl := unfold fp_all, fp_ok; simpl; rewrite ?Nat.eqb_refl; simpl; try reflexivity.
Ltac fp_split := repeat (rewrite fp_all_cons || rewrite fp_all_app).
Ltac fp_hyps := repeat match goal with H : fp_all ?t ?e = true |- context [fp_all ?t ?e] => rewrite H end.
Ltac fp_auto := fp_split; rewrite ?fp_all_flat_map by (intro; fp_simpl); rewrite ?fp_all_map by (intro; fp_simpl);
                fp_hyps; fp_simpl.

Lemma fp_dist_refresh_one t d : fp_all t (snd (dist_refresh_one t d)) = true.
Proof.
  unfold dist_refresh_one. destruct (d_valid d); [fp_simpl|].
  destruct (d_live d <? 2); [fp_simpl|]. destruct (d_live d <? d_nb d); fp_simpl.
Qed.

Lemma fp_dists_refresh_list t ds : fp_all t (snd (dists_refresh_list t ds)) = true.
Proof.
  induction ds as [|d r IH]; simpl; [reflexivity|].
  pose proof (fp_dist_refresh_one t d) as P.
  destruct (dist_refresh_one t d) as [od e1]. destruct (dists_refresh_list t r) as [r' e2]. cbn [snd] in *.
  destruct od; cbn [snd]; fp_auto.
Qed.

Lemma fp_dists_refresh t ds : fp_all t (snd (dists_refresh t ds)) = true.
Proof.
  unfold dists_refresh. pose proof (fp_dists_refresh_list t ds) as P.
  destruct (dists_refresh_list t ds) as [ds' e]. cbn [snd] in *. fp_auto.
Qed.

Lemma fp_dists_invalidate t ds : fp_all t (snd (dists_invalidate t ds)) = true.
Proof. unfold dists_invalidate. cbn [snd]. fp_auto. Qed.

Lemma fp_ma_refresh_one t a m : fp_all t (snd (ma_refresh_one t a m)) = true.
Proof. unfold ma_refresh_one. destruct (a_conv m); [fp_simpl|]. destruct (a_valid m); fp_simpl. Qed.

Lemma fp_mas_refresh_from t ms : forall a, fp_all t (snd (mas_refresh_from t a ms)) = true.
Proof.
  induction ms as [|m r IH]; intro a; simpl; [reflexivity|].
  specialize (IH (S a)). destruct (mas_refresh_from t (S a) r) as [r' e2]. cbn [snd] in *.
  destruct (a_valid m); cbn [snd]; fp_auto.
Qed.

Lemma fp_mas_need_refresh_from t ms : forall a, fp_all t (snd (mas_need_refresh_from t a ms)) = true.
Proof.
  induction ms as [|m r IH]; intro a; simpl; [reflexivity|].
  specialize (IH (S a)). destruct (mas_need_refresh_from t (S a) r) as [r' e2]. cbn [snd] in *.
  destruct (a_conv m); cbn [snd]; fp_auto.
Qed.

Lemma fp_static_use t s g : fp_all t (snd (static_use s g)) = true.
Proof.
  unfold static_use. destruct (mem_static s (g_checked g)); [fp_simpl|].
  destruct (mem_static s (g_envset g)); fp_simpl.
Qed.

Lemma fp_libxml_init t g : fp_all t (snd (libxml_init_once g)) = true.
Proof.
  unfold libxml_init_once. destruct (mem_static SLibxmlInit (g_checked g)); [fp_simpl|].
  pose proof (fp_static_use t SXmlVerbose g) as P. destruct (static_use SXmlVerbose g) as [g1 e1]. cbn [snd] in *.
  destruct (mem_static SLibxmlInit (g_envset g)); fp_auto.
Qed.

Lemma fp_cons_run t tp g c : fp_all t (snd (cons_run t tp g c)) = true.
Proof.
  destruct c as [| | | | |q a| | | | | |[|]| |]; cbn [cons_run]; try solve [fp_simpl];
    try solve [destruct (mem_static SSynthWarned (g_checked g)); fp_simpl].
  - pose proof (fp_dists_refresh t (t_dists tp)) as P. destruct (dists_refresh t (t_dists tp)) as [ds e]. cbn [snd] in *.
    fp_auto.
  - destruct (nth_error (t_mattrs tp) a) as [m|]; [|fp_simpl]. destruct (a_conv m) eqn:C; [fp_simpl|].
    pose proof (fp_ma_refresh_one t a m) as P. destruct (ma_refresh_one t a m) as [m' e]. cbn [snd] in *.
    fp_auto.
  - pose proof (fp_dists_refresh t (t_dists tp)) as P1. destruct (dists_refresh t (t_dists tp)) as [ds e1].
    pose proof (fp_static_use t SNolibxmlExport g) as P2. destruct (static_use SNolibxmlExport g) as [g1 e2].
    assert (P3 : fp_all t (snd (if g_libxml g then libxml_init_once g1 else (g1, []))) = true)
      by (destruct (g_libxml g); [apply fp_libxml_init | reflexivity]).
    destruct (if g_libxml g then libxml_init_once g1 else (g1, [])) as [g2 e3]. cbn [snd] in *.
    fp_auto.
Qed.

Lemma fp_do_restrict t tp lives : fp_all t (snd (do_restrict t tp lives)) = true.
Proof.
  unfold do_restrict.
  assert (P1 : fp_all t (snd (if t_nodist tp then (t_dists tp, []) else dists_invalidate t (set_lives (t_dists tp) lives))) = true)
    by (destruct (t_nodist tp); [reflexivity | apply fp_dists_invalidate]).
  destruct (if t_nodist tp then (t_dists tp, []) else dists_invalidate t (set_lives (t_dists tp) lives)) as [ds e1].
  pose proof (fp_mas_need_refresh_from t (t_mattrs tp) 0) as P2.
  destruct (mas_need_refresh_from t 0 (t_mattrs tp)) as [ms e2].
  cbn [snd] in *. destruct (t_nocpukinds tp); fp_auto.
Qed.

Lemma fp_do_refresh t tp : fp_all t (snd (do_refresh t tp)) = true.
Proof.
  unfold do_refresh.
  assert (P1 : fp_all t (snd (if t_nodist tp then (t_dists tp, []) else dists_refresh t (t_dists tp))) = true)
    by (destruct (t_nodist tp); [reflexivity | apply fp_dists_refresh]).
  destruct (if t_nodist tp then (t_dists tp, []) else dists_refresh t (t_dists tp)) as [ds e1].
  pose proof (fp_mas_refresh_from t (t_mattrs tp) 0) as P2.
  destruct (mas_refresh_from t 0 (t_mattrs tp)) as [ms e2].
  cbn [snd] in *. destruct (t_nocpukinds tp); fp_auto.
Qed.

Lemma fp_mod_run t tp m : fp_all t (snd (mod_run t tp m)) = true.
Proof.
  unfold mod_run. destruct (negb (t_loaded tp)); [fp_simpl|].
  destruct m as [ok lives| | | |nb| | |a nt|]; try solve [fp_simpl].
  - destruct ok; [|fp_simpl]. pose proof (fp_do_restrict t tp lives) as P. destruct (do_restrict t tp lives). exact P.
  - destruct (nb <? 2); fp_simpl.
  - cbn [snd]. fp_auto.
  - destruct (nth_error (t_mattrs tp) a) as [m|]; [|fp_simpl]. destruct (a_conv m); [fp_simpl|].
    pose proof (fp_ma_refresh_one t a m) as P. destruct (ma_refresh_one t a m) as [m1 e1]. cbn [snd] in *.
    destruct nt; fp_auto.
  - pose proof (fp_do_refresh t tp) as P. destruct (do_refresh t tp). exact P.
Qed.

Lemma fp_load_run t c : fp_all t (snd (load_run t c)) = true.
Proof.
  unfold load_run.
  set (ds0 := if c_nodist c then [] else fresh_dists 0 (c_dists c)).
  set (ms0 := if c_nomemattr c then [] else predefined_mattrs ++ repeat (mkMa false true) (c_extra_mattrs c)).
  clearbody ds0 ms0.
  assert (P1 : fp_all t (snd (if c_nodist c then (ds0, []) else dists_invalidate t ds0)) = true)
    by (destruct (c_nodist c); [reflexivity | apply fp_dists_invalidate]).
  destruct (if c_nodist c then (ds0, []) else dists_invalidate t ds0) as [ds1 e1].
  assert (P2 : fp_all t (snd (if c_nodist c then (ds1, []) else dists_refresh t ds1)) = true)
    by (destruct (c_nodist c); [reflexivity | apply fp_dists_refresh]).
  destruct (if c_nodist c then (ds1, []) else dists_refresh t ds1) as [ds2 e2].
  assert (P3 : fp_all t (snd (if c_nomemattr c then (ms0, []) else mas_need_refresh_from t 0 ms0)) = true)
    by (destruct (c_nomemattr c); [reflexivity | apply fp_mas_need_refresh_from]).
  destruct (if c_nomemattr c then (ms0, []) else mas_need_refresh_from t 0 ms0) as [ms1 e3].
  assert (P4 : fp_all t (snd (if c_nomemattr c then (ms1, []) else mas_refresh_from t 0 ms1)) = true)
    by (destruct (c_nomemattr c); [reflexivity | apply fp_mas_refresh_from]).
  destruct (if c_nomemattr c then (ms1, []) else mas_refresh_from t 0 ms1) as [ms2 e4].
  cbn [snd] in *.
  destruct (c_bind c) as [r|].
  - match goal with |- context [match r with Some lives => do_restrict t ?x lives | None => _ end] =>
      assert (P5 : fp_all t (snd (match r with Some lives => do_restrict t x lives | None => (x, []) end)) = true)
        by (destruct r; [apply fp_do_restrict | reflexivity]);
      destruct (match r with Some lives => do_restrict t x lives | None => (x, []) end) as [tp2 e5] end.
    pose proof (fp_do_refresh t tp2) as P6. destruct (do_refresh t tp2) as [tp3 e6].
    cbn [snd] in *. destruct (c_nocpukinds c); fp_auto.
  - cbn [snd]. destruct (c_nocpukinds c); fp_auto.
Qed.

Lemma fp_load_statics t c g : fp_all t (snd (load_statics c g)) = true.
Proof.
  unfold load_statics. destruct (c_xml c); [|reflexivity].
  pose proof (fp_static_use t SNolibxmlImport g) as P1. destruct (static_use SNolibxmlImport g) as [g1 e1].
  assert (P2 : fp_all t (snd (if g_libxml g then libxml_init_once g1 else (g1, []))) = true)
    by (destruct (g_libxml g); [apply fp_libxml_init | reflexivity]).
  destruct (if g_libxml g then libxml_init_once g1 else (g1, [])) as [g2 e2]. cbn [snd] in *.
  destruct (g_libxml g && c_enosys c); cbn [snd]; fp_auto.
Qed.

Lemma fp_run_op s o : fp_all (op_topo o) (snd (run_op s o)) = true.
Proof.
  destruct o as [t|t c|t|t m|t c]; cbn [run_op op_topo].
  - destruct (get_topo s t); [reflexivity|]. cbn [snd]. destruct (g_users (s_glob s) =? 0); fp_auto.
  - destruct (get_topo s t) as [tp|]; [|reflexivity]. destruct (t_loaded tp); [fp_simpl|].
    pose proof (fp_load_run t c) as P. destruct (load_run t c) as [tp' e].
    pose proof (fp_load_statics t c (s_glob s)) as P0. destruct (load_statics c (s_glob s)) as [g' e0].
    destruct (load_fails c (s_glob s)); cbn [snd] in *; fp_auto.
  - destruct (get_topo s t) as [tp|]; [|reflexivity]. cbn [snd].
    destruct (g_users (s_glob s) =? 1); fp_auto.
  - destruct (get_topo s t) as [tp|]; [|reflexivity].
    pose proof (fp_mod_run t tp m) as P. destruct (mod_run t tp m) as [[tp' r] e]. exact P.
  - destruct (get_topo s t) as [tp|]; [|reflexivity]. destruct (t_loaded tp); [|fp_simpl].
    pose proof (fp_cons_run t tp (s_glob s) c) as P. destruct (cons_run t tp (s_glob s) c) as [[[tp' g'] r] e]. exact P.
Qed.

Lemma events_of_in s p e : In e (events_of s p) -> exists s' o, In o p /\ In e (snd (run_op s' o)).
Proof.
  unfold events_of. revert s. induction p as [|o r IH]; intros s H; simpl in H; [destruct H|].
  destruct (run_op s o) as [[s1 x] e1] eqn:E. specialize (IH s1).
  destruct (run_prog s1 r) as [[s2 xs] e2]. simpl in *. apply in_app_or in H. destruct H as [H|H].
  - exists s, o. split; [left; reflexivity|]. rewrite E. exact H.
  - destruct (IH H) as [s' [o' [Ho He]]]. exists s', o'. split; [right; exact Ho | exact He].
Qed.

(* threads working on distinct topologies - whatever they do to them, from whatever states - can only
   conflict on the process-wide statics; the reference count and the registry are ordered by the mutex *)
Theorem independent_topologies_disjoint s1 s2 p q :
  (forall o o', In o p -> In o' q -> op_topo o <> op_topo o') ->
  forall a b, In a (events_of s1 p) -> In b (events_of s2 q) -> conflict a b = true ->
  is_static_loc (e_loc a) = true.
Proof.
  intros D a b Ha Hb C.
  destruct (events_of_in _ _ _ Ha) as [sa [oa [Hoa Hea]]].
  destruct (events_of_in _ _ _ Hb) as [sb [ob [Hob Heb]]].
  pose proof (fp_run_op sa oa) as Fa. pose proof (fp_run_op sb ob) as Fb.
  unfold fp_all in Fa, Fb. rewrite forallb_forall in Fa, Fb. specialize (Fa a Hea). specialize (Fb b Heb).
  specialize (D oa ob Hoa Hob).
  unfold conflict in C. apply andb_true_iff in C. destruct C as [C1 C3]. apply andb_true_iff in C1. destruct C1 as [C1 C2].
  apply loc_eqb_eq in C1. unfold fp_ok in Fa, Fb. rewrite <- C1 in Fb.
  destruct (loc_topo (e_loc a)) as [u|].
  - apply Nat.eqb_eq in Fa. apply Nat.eqb_eq in Fb. congruence.
  - destruct (is_static_loc (e_loc a)); [reflexivity|]. rewrite orb_false_r in Fa, Fb. rewrite Fa, Fb in C3. discriminate.
Qed.

(* ------------------------------------------------------------------ *)
(** * The component reference count *)

Lemma total_bump_nil : forall t f, total (bump [] t f) = f 0.
Proof. induction t as [|t IH]; intro f; simpl; [lia | rewrite IH; reflexivity]. Qed.

Lemma nth_bump_nil : forall t f u, nth u (bump [] t f) 0 = if Nat.eqb u t then f 0 else 0.
Proof.
  induction t as [|t IH]; intros f [|u]; simpl; try reflexivity.
  - destruct u; reflexivity.
  - apply IH.
Qed.

Lemma nth_le_total : forall h u, nth u h 0 <= total h.
Proof. induction h as [|x r IH]; intros [|u]; simpl; try lia. specialize (IH u). lia. Qed.

Lemma total_bump_S h : forall t, total (bump h t S) = S (total h).
Proof.
  induction h as [|x r IH]; intros [|t]; simpl; try lia.
  - rewrite total_bump_nil. reflexivity.
  - rewrite IH. lia.
Qed.

Lemma held_bump_same h : forall t f, held_of (bump h t f) t = f (held_of h t).
Proof.
  unfold held_of. induction h as [|x r IH]; intros [|t] f; simpl; try reflexivity.
  - rewrite nth_bump_nil, Nat.eqb_refl. destruct t; reflexivity.
  - apply IH.
Qed.

Lemma total_bump_pred h : forall t, 0 < held_of h t -> total (bump h t pred) = pred (total h).
Proof.
  unfold held_of. induction h as [|x r IH]; intros [|t] H.
  - simpl in H. lia.
  - simpl in H. lia.
  - simpl in *. destruct x; simpl; lia.
  - simpl in H. specialize (IH t H). simpl. rewrite IH. pose proof (nth_le_total r t). destruct (total r); simpl; lia.
Qed.

Lemma held_two_le_total h : forall t u, t <> u -> held_of h t + held_of h u <= total h.
Proof.
  unfold held_of. induction h as [|x r IH]; intros t u N.
  - destruct t, u; simpl; lia.
  - destruct t as [|t], u as [|u]; simpl; try congruence.
    + pose proof (nth_le_total r u). lia.
    + pose proof (nth_le_total r t). lia.
    + assert (N' : t <> u) by congruence. specialize (IH t u N'). lia.
Qed.

(* what "serialised" means for one schedule: whenever a thread reads the registry it is registered,
   and whenever a critical section WRITES the registry no other thread holds a reference (so no other
   thread can be reading it) *)
Fixpoint rsafe (r : rstate) (h : held) (l : list (nat * raction)) : Prop :=
  match l with
  | [] => True
  | (t, a) :: rest =>
      (a = RUse -> r_reg r = true) /\
      (rwrites r a = true -> forall u, u <> t -> held_of h u = 0) /\
      rsafe (rstep r a) (match a with RInit => bump h t S | RFini => bump h t pred | RUse => h end) rest
  end.

Definition rinv (r : rstate) (h : held) : Prop := r_users r = total h /\ r_reg r = (0 <? r_users r).

Theorem refcount_serialised l : forall r h,
  rinv r h -> rsched_ok h l = true ->
  rsafe r h l /\ rinv (fst (rrun r h l)) (snd (rrun r h l)).
Proof.
  induction l as [|[t a] rest IH]; intros r h [I1 I2] Hok; simpl.
  - split; [exact I | split; assumption].
  - destruct a; simpl in Hok.
    + (* RInit *)
      assert (Inv' : rinv (rstep r RInit) (bump h t S)).
      { unfold rinv, rstep. rewrite total_bump_S. destruct (r_users r =? 0) eqn:E; simpl.
        - apply Nat.eqb_eq in E. split; [lia | reflexivity].
        - apply Nat.eqb_neq in E. split; [lia|]. rewrite I2. destruct (r_users r); [congruence | reflexivity]. }
      destruct (IH _ _ Inv' Hok) as [S1 S2]. split; [|exact S2].
      split; [discriminate|]. split; [|exact S1].
      simpl. intros W u N. apply Nat.eqb_eq in W. pose proof (held_two_le_total h t u (not_eq_sym N)). lia.
    + (* RUse *)
      apply andb_true_iff in Hok. destruct Hok as [Hh Hok]. apply Nat.ltb_lt in Hh.
      destruct (IH r h (conj I1 I2) Hok) as [S1 S2]. split; [|exact S2].
      split; [|split; [discriminate | exact S1]].
      intros _. rewrite I2. apply Nat.ltb_lt.
      assert (held_of h t <= total h) by (pose proof (held_two_le_total h t (S t) (n_Sn t)); lia). lia.
    + (* RFini *)
      apply andb_true_iff in Hok. destruct Hok as [Hh Hok]. apply Nat.ltb_lt in Hh.
      assert (Hle : held_of h t <= total h) by (pose proof (held_two_le_total h t (S t) (n_Sn t)); lia).
      assert (Inv' : rinv (rstep r RFini) (bump h t pred)).
      { unfold rinv, rstep. rewrite (total_bump_pred h t Hh). destruct (r_users r =? 1) eqn:E; simpl.
        - apply Nat.eqb_eq in E. split; [lia | reflexivity].
        - apply Nat.eqb_neq in E. split; [lia|]. destruct (r_users r) as [|[|n]] eqn:U; try lia; try (simpl; rewrite I2; reflexivity). }
      destruct (IH _ _ Inv' Hok) as [S1 S2]. split; [|exact S2].
      split; [discriminate|]. split; [|exact S1].
      simpl. intros W u N. apply Nat.eqb_eq in W. pose proof (held_two_le_total h t u (not_eq_sym N)). lia.
Qed.

(* ------------------------------------------------------------------ *)
(** * The composed statements *)

(* readers of refreshed topologies: every interleaving of their event lists is race free, every read
   sees what it sees when the thread runs alone, and under every schedule of calls every thread gets
   the results of its sequential run *)
Theorem interleaving_race_free s progs :
  all_valid s = true ->
  (forall p, In p progs -> readers_ok (s_glob s) p = true) ->
  (forall il, is_interleaving (map (events_of s) progs) il ->
     race_free il /\
     forall t m, obs_of t (exec m il) = obs_of t (exec m (alone t (events_of s (nth t progs []))))) /\
  (forall sched t, fst (run_sched s progs sched) = s /\
     results_of_thread t (snd (run_sched s progs sched)) =
       firstn (count_occ Nat.eq_dec sched t) (results_of s (nth t progs []))).
Proof.
  intros V R.
  assert (W : forall p, In p (map (events_of s) progs) -> writes p = []).
  { intros p Hp. apply in_map_iff in Hp. destruct Hp as [q [E Hq]]. subst p.
    apply (run_prog_readers s q V (R q Hq)). }
  split.
  - intros il Hil. split.
    + apply (readers_race_free _ il Hil W).
    + intros t m. rewrite <- nth_map_events.
      apply (observations_schedule_independent _ il t m Hil). apply isolated_no_writes. exact W.
  - intros sched t. apply (sched_results_alone s V t sched progs R).
Qed.

(* sequential composition is one of the interleavings *)
Lemma proj_app t a b : proj t (a ++ b) = proj t a ++ proj t b.
Proof. unfold proj. rewrite filter_app, map_app. reflexivity. Qed.

Lemma proj_alone t u p : proj t (alone u p) = if Nat.eqb u t then p else [].
Proof.
  unfold proj, alone. induction p as [|e r IH]; simpl.
  - destruct (Nat.eqb u t); reflexivity.
  - destruct (Nat.eqb u t) eqn:E; simpl; rewrite IH; reflexivity.
Qed.

Lemma is_interleaving_seq2 p0 p1 : is_interleaving [p0; p1] (alone 0 p0 ++ alone 1 p1).
Proof.
  intro t. rewrite proj_app, !proj_alone. destruct t as [|[|t]]; simpl; rewrite ?app_nil_r; try reflexivity.
  destruct t; reflexivity.
Qed.

Lemma race_b_true_not_free il : race_b il = true -> ~ race_free il.
Proof. intros H F. apply race_b_false_iff in F. congruence. Qed.

(* ------------------------------------------------------------------ *)
(** * A thread's results do not depend on the other threads' histories
      (distinct topologies, and nobody writes a process-wide static after its first use) *)

Lemma nth_error_set_slot_same l : forall t x, nth_error (set_slot l t x) t = Some x.
Proof. intros t; revert l. induction t as [|t IH]; intros [|y r] x; simpl; try reflexivity; apply IH. Qed.

Definition get_slot (l : list (option topo)) (u : nat) : option topo :=
  match nth_error l u with Some (Some tp) => Some tp | _ => None end.

Lemma get_slot_set_slot_other : forall t l u x, t <> u -> get_slot (set_slot l t x) u = get_slot l u.
Proof.
  unfold get_slot. induction t as [|t IH]; intros [|y r] [|u] x N; simpl; try congruence; try reflexivity.
  - destruct u; reflexivity.
  - rewrite (IH [] u x) by congruence. destruct u; reflexivity.
  - apply IH. congruence.
Qed.

Lemma get_topo_state l g u : get_topo (mkState l g) u = get_slot l u.
Proof. reflexivity. Qed.
Lemma get_topo_slot s u : get_topo s u = get_slot (s_topos s) u.
Proof. reflexivity. Qed.

Lemma get_slot_set_slot_same l t x : get_slot (set_slot l t x) t = x.
Proof. unfold get_slot. rewrite nth_error_set_slot_same. destruct x; reflexivity. Qed.

(* a call only changes the slot of its own topology *)
Lemma run_op_other_slot s o u : u <> op_topo o -> get_topo (fst (fst (run_op s o))) u = get_topo s u.
Proof.
  intro N. destruct o as [t|t c|t|t m|t c]; cbn [run_op op_topo] in *.
  - destruct (get_topo s t); [reflexivity|]. cbn [fst]. rewrite get_topo_state, get_topo_slot. apply get_slot_set_slot_other. congruence.
  - destruct (get_topo s t) as [tp|]; [|reflexivity]. destruct (t_loaded tp); [reflexivity|].
    destruct (load_statics c (s_glob s)) as [g' e0]. destruct (load_fails c (s_glob s)); [reflexivity|].
    destruct (load_run t c) as [tp' e]. cbn [fst]. rewrite get_topo_state, get_topo_slot. apply get_slot_set_slot_other. congruence.
  - destruct (get_topo s t) as [tp|]; [|reflexivity]. cbn [fst]. rewrite get_topo_state, get_topo_slot. apply get_slot_set_slot_other. congruence.
  - destruct (get_topo s t) as [tp|]; [|reflexivity]. destruct (mod_run t tp m) as [[tp' r] e]. cbn [fst].
    rewrite get_topo_state, get_topo_slot. apply get_slot_set_slot_other. congruence.
  - destruct (get_topo s t) as [tp|]; [|reflexivity]. destruct (t_loaded tp); [|reflexivity].
    destruct (cons_run t tp (s_glob s) c) as [[[tp' g'] r] e]. cbn [fst].
    rewrite get_topo_state, get_topo_slot. apply get_slot_set_slot_other. congruence.
Qed.

(* what the statics helpers leave alone *)
Definition same_backend (g g' : glob) : Prop := g_libxml g' = g_libxml g /\ g_avail g' = g_avail g.

Lemma static_use_backend s g : same_backend g (fst (static_use s g)).
Proof. unfold static_use. destruct (mem_static s (g_checked g)); split; reflexivity. Qed.

Lemma libxml_init_backend g : same_backend g (fst (libxml_init_once g)).
Proof.
  unfold libxml_init_once. destruct (mem_static SLibxmlInit (g_checked g)); [split; reflexivity|].
  pose proof (static_use_backend SXmlVerbose g) as [A B]. destruct (static_use SXmlVerbose g) as [g1 e1]. cbn [fst] in *.
  split; assumption.
Qed.

Lemma cons_run_backend t tp g c : same_backend g (snd (fst (fst (cons_run t tp g c)))).
Proof.
  destruct c as [| | | | |q a| | | | | |[|]| |]; cbn [cons_run]; try (split; reflexivity).
  - destruct (dists_refresh t (t_dists tp)) as [ds e]. split; reflexivity.
  - destruct (nth_error (t_mattrs tp) a) as [m|]; [|split; reflexivity]. destruct (a_conv m); [split; reflexivity|].
    destruct (ma_refresh_one t a m) as [m' e]. split; reflexivity.
  - destruct (dists_refresh t (t_dists tp)) as [ds e1].
    pose proof (static_use_backend SNolibxmlExport g) as [A B]. destruct (static_use SNolibxmlExport g) as [g1 e2]. cbn [fst] in *.
    assert (X : same_backend g (fst (if g_libxml g then libxml_init_once g1 else (g1, [])))).
    { destruct (g_libxml g) eqn:LX; [|split; cbn [fst]; congruence].
      pose proof (libxml_init_backend g1) as [A2 B2]. split; congruence. }
    destruct (if g_libxml g then libxml_init_once g1 else (g1, [])) as [g2 e3]. exact X.
  - destruct (mem_static SSynthWarned (g_checked g)); split; reflexivity.
Qed.

Lemma load_statics_backend c g : negb (c_xml c && c_enosys c) = true -> same_backend g (fst (load_statics c g)).
Proof.
  intro H. unfold load_statics. destruct (c_xml c) eqn:X; [|split; reflexivity].
  simpl in H. apply negb_true_iff in H. rewrite H, andb_false_r.
  pose proof (static_use_backend SNolibxmlImport g) as [A B]. destruct (static_use SNolibxmlImport g) as [g1 e1]. cbn [fst] in *.
  assert (Y : same_backend g (fst (if g_libxml g then libxml_init_once g1 else (g1, [])))).
  { destruct (g_libxml g) eqn:LX; [|split; cbn [fst]; congruence].
    pose proof (libxml_init_backend g1) as [A2 B2]. split; congruence. }
  destruct (if g_libxml g then libxml_init_once g1 else (g1, [])) as [g2 e2]. exact Y.
Qed.

(* a backend-stable call keeps "the backend in use is the registered one" *)
Lemma run_op_consistent s o :
  backend_stable o = true -> glob_consistent (s_glob s) ->
  glob_consistent (s_glob (fst (fst (run_op s o)))) /\ g_avail (s_glob (fst (fst (run_op s o)))) = g_avail (s_glob s).
Proof.
  unfold glob_consistent. intros St Cg. destruct o as [t|t c|t|t m|t c]; cbn [run_op backend_stable] in *.
  - destruct (get_topo s t); [split; [exact Cg | reflexivity]|]. cbn. destruct (g_users (s_glob s) =? 0); split; auto.
  - destruct (get_topo s t) as [tp|]; [|split; [exact Cg | reflexivity]]. destruct (t_loaded tp); [split; [exact Cg | reflexivity]|].
    pose proof (load_statics_backend c (s_glob s) St) as [A B]. destruct (load_statics c (s_glob s)) as [g' e0]. cbn [fst] in *.
    destruct (load_fails c (s_glob s)); [cbn; split; congruence|].
    destruct (load_run t c) as [tp' e]. cbn. split; congruence.
  - destruct (get_topo s t) as [tp|]; [|split; [exact Cg | reflexivity]]. cbn. destruct (g_users (s_glob s) =? 1); split; auto.
  - destruct (get_topo s t) as [tp|]; [|split; [exact Cg | reflexivity]]. destruct (mod_run t tp m) as [[tp' r] e]. cbn. split; [exact Cg | reflexivity].
  - destruct (get_topo s t) as [tp|]; [|split; [exact Cg | reflexivity]]. destruct (t_loaded tp); [|split; [exact Cg | reflexivity]].
    pose proof (cons_run_backend t tp (s_glob s) c) as [A B].
    destruct (cons_run t tp (s_glob s) c) as [[[tp' g'] r] e]. cbn in *. split; congruence.
Qed.

(* the topology and the result a consulting call produces do not depend on the process-wide part *)
Lemma cons_run_local t tp g g' c :
  fst (fst (fst (cons_run t tp g c))) = fst (fst (fst (cons_run t tp g' c))) /\
  snd (fst (cons_run t tp g c)) = snd (fst (cons_run t tp g' c)).
Proof.
  destruct c as [| | | | |q a| | | | | |[|]| |]; cbn [cons_run]; try (split; reflexivity).
  - destruct (dists_refresh t (t_dists tp)) as [ds e]. split; reflexivity.
  - destruct (nth_error (t_mattrs tp) a) as [m|]; [|split; reflexivity]. destruct (a_conv m); [split; reflexivity|].
    destruct (ma_refresh_one t a m) as [m' e]. split; reflexivity.
  - destruct (dists_refresh t (t_dists tp)) as [ds e1].
    destruct (static_use SNolibxmlExport g) as [g1 e2]. destruct (static_use SNolibxmlExport g') as [g1' e2'].
    destruct (if g_libxml g then libxml_init_once g1 else (g1, [])) as [g2 e3].
    destruct (if g_libxml g' then libxml_init_once g1' else (g1', [])) as [g2' e3']. split; reflexivity.
  - destruct (mem_static SSynthWarned (g_checked g)); destruct (mem_static SSynthWarned (g_checked g')); split; reflexivity.
Qed.

(* the result of a call and the new value of its slot depend only on that slot and on the backend in use *)
Lemma run_op_local s s' o :
  get_topo s (op_topo o) = get_topo s' (op_topo o) -> g_libxml (s_glob s) = g_libxml (s_glob s') ->
  snd (fst (run_op s o)) = snd (fst (run_op s' o)) /\
  get_topo (fst (fst (run_op s o))) (op_topo o) = get_topo (fst (fst (run_op s' o))) (op_topo o).
Proof.
  intros Ht Hl. destruct o as [t|t c|t|t m|t c]; cbn [run_op op_topo] in *; rewrite <- Ht.
  - destruct (get_topo s t) eqn:G; [cbn [fst snd]; split; [reflexivity | congruence]|]. cbn [fst snd].
    rewrite !get_topo_state, !get_slot_set_slot_same. split; reflexivity.
  - destruct (get_topo s t) as [tp|] eqn:G; [|cbn [fst snd]; split; [reflexivity | congruence]].
    destruct (t_loaded tp); [cbn [fst snd]; split; [reflexivity | congruence]|].
    assert (F : load_fails c (s_glob s) = load_fails c (s_glob s')) by (unfold load_fails; rewrite Hl; reflexivity).
    rewrite <- F.
    destruct (load_statics c (s_glob s)) as [g1 e1]. destruct (load_statics c (s_glob s')) as [g1' e1'].
    destruct (load_fails c (s_glob s)).
    + cbn [fst snd]. rewrite !get_topo_state. split; [reflexivity|]. rewrite <- !get_topo_slot. congruence.
    + destruct (load_run t c) as [tp' e]. cbn [fst snd]. rewrite !get_topo_state, !get_slot_set_slot_same. split; reflexivity.
  - destruct (get_topo s t) as [tp|] eqn:G; [|cbn [fst snd]; split; [reflexivity | congruence]]. cbn [fst snd].
    rewrite !get_topo_state, !get_slot_set_slot_same. split; reflexivity.
  - destruct (get_topo s t) as [tp|] eqn:G; [|cbn [fst snd]; split; [reflexivity | congruence]].
    destruct (mod_run t tp m) as [[tp' r] e]. cbn [fst snd]. rewrite !get_topo_state, !get_slot_set_slot_same. split; reflexivity.
  - destruct (get_topo s t) as [tp|] eqn:G; [|cbn [fst snd]; split; [reflexivity | congruence]].
    destruct (t_loaded tp); [|cbn [fst snd]; split; [reflexivity | congruence]].
    pose proof (cons_run_local t tp (s_glob s) (s_glob s') c) as [A B].
    destruct (cons_run t tp (s_glob s) c) as [[[tp1 g1] r1] e1]. destruct (cons_run t tp (s_glob s') c) as [[[tp2 g2] r2] e2].
    cbn [fst snd] in *. subst. rewrite !get_topo_state, !get_slot_set_slot_same. split; reflexivity.
Qed.

(* the concurrent state [sc] and the state [sa] of thread t0 running alone agree on t0's topologies [A]
   and both use the registered backend *)
Definition rel (A : list nat) (sc sa : state) : Prop :=
  (forall t, In t A -> get_topo sc t = get_topo sa t) /\
  glob_consistent (s_glob sc) /\ glob_consistent (s_glob sa) /\ g_avail (s_glob sc) = g_avail (s_glob sa).

Lemma rel_own A sc sa o :
  rel A sc sa -> In (op_topo o) A -> backend_stable o = true ->
  snd (fst (run_op sc o)) = snd (fst (run_op sa o)) /\ rel A (fst (fst (run_op sc o))) (fst (fst (run_op sa o))).
Proof.
  intros [R1 [R2 [R3 R4]]] Hin St.
  assert (Hl : g_libxml (s_glob sc) = g_libxml (s_glob sa)) by (unfold glob_consistent in *; congruence).
  pose proof (run_op_local sc sa o (R1 _ Hin) Hl) as [L1 L2].
  pose proof (run_op_consistent sc o St R2) as [C1 C2]. pose proof (run_op_consistent sa o St R3) as [D1 D2].
  split; [exact L1|]. split; [|split; [exact C1 | split; [exact D1 | congruence]]].
  intros t Ht. destruct (Nat.eq_dec t (op_topo o)) as [E|N]; [subst; exact L2|].
  rewrite !run_op_other_slot by exact N. apply R1. exact Ht.
Qed.

Lemma rel_other A sc sa o :
  rel A sc sa -> ~ In (op_topo o) A -> backend_stable o = true -> rel A (fst (fst (run_op sc o))) sa.
Proof.
  intros [R1 [R2 [R3 R4]]] Hnin St. pose proof (run_op_consistent sc o St R2) as [C1 C2].
  split; [|split; [exact C1 | split; [exact R3 | congruence]]].
  intros t Ht. rewrite run_op_other_slot; [apply R1; exact Ht|]. intro E. subst. contradiction.
Qed.

Lemma results_of_step s o r :
  results_of s (o :: r) = snd (fst (run_op s o)) :: results_of (fst (fst (run_op s o))) r.
Proof.
  unfold results_of. simpl. destruct (run_op s o) as [[s1 x] e1]. cbn [fst snd]. destruct (run_prog s1 r) as [[s2 xs] e2]. reflexivity.
Qed.

Theorem results_independent_of_other_threads t0 A :
  forall sched progs sc sa,
    rel A sc sa ->
    (forall o, In o (nth t0 progs []) -> In (op_topo o) A /\ backend_stable o = true) ->
    (forall u o, u <> t0 -> In o (nth u progs []) -> ~ In (op_topo o) A /\ backend_stable o = true) ->
    results_of_thread t0 (snd (run_sched sc progs sched)) =
      firstn (count_occ Nat.eq_dec sched t0) (results_of sa (nth t0 progs [])).
Proof.
  induction sched as [|u r IH]; intros progs sc sa R Hown Hoth; simpl; [reflexivity|].
  destruct (nth u progs []) as [|o rest] eqn:E.
  - rewrite (IH progs sc sa R Hown Hoth). destruct (Nat.eq_dec u t0) as [Eq|Ne]; [|reflexivity].
    subst u. rewrite E. unfold results_of. simpl. destruct (count_occ Nat.eq_dec r t0); reflexivity.
  - assert (NE : nth u progs [] <> []) by (rewrite E; discriminate).
    destruct (Nat.eq_dec u t0) as [Eq|Ne].
    + subst u. destruct (Hown o) as [Ho1 Ho2]; [rewrite E; left; reflexivity|].
      pose proof (rel_own A sc sa o R Ho1 Ho2) as [X1 X2].
      assert (N1 : nth t0 (replace_nth t0 rest progs) [] = rest) by (apply nth_replace_nth_same; exact NE).
      assert (Hown' : forall o', In o' (nth t0 (replace_nth t0 rest progs) []) -> In (op_topo o') A /\ backend_stable o' = true).
      { intros o' H'. rewrite N1 in H'. apply Hown. rewrite E. right. exact H'. }
      assert (Hoth' : forall u' o', u' <> t0 -> In o' (nth u' (replace_nth t0 rest progs) []) -> ~ In (op_topo o') A /\ backend_stable o' = true).
      { intros u' o' Nu H'. rewrite nth_replace_nth_other in H' by exact Nu. apply (Hoth u' o' Nu H'). }
      specialize (IH (replace_nth t0 rest progs) (fst (fst (run_op sc o))) (fst (fst (run_op sa o))) X2 Hown' Hoth').
      rewrite N1 in IH. rewrite E, results_of_step.
      destruct (run_op sc o) as [[s1 x] e1]. cbn [fst snd] in *.
      destruct (run_sched s1 (replace_nth t0 rest progs) r) as [s2 xs]. cbn [snd] in *.
      unfold results_of_thread in *. simpl. rewrite Nat.eqb_refl. simpl. rewrite IH, X1. reflexivity.
    + destruct (Hoth u o Ne) as [Ho1 Ho2]; [rewrite E; left; reflexivity|].
      pose proof (rel_other A sc sa o R Ho1 Ho2) as X.
      assert (N1 : nth t0 (replace_nth u rest progs) [] = nth t0 progs []) by (apply nth_replace_nth_other; congruence).
      assert (Hown' : forall o', In o' (nth t0 (replace_nth u rest progs) []) -> In (op_topo o') A /\ backend_stable o' = true).
      { intros o' H'. rewrite N1 in H'. apply Hown. exact H'. }
      assert (Hoth' : forall u' o', u' <> t0 -> In o' (nth u' (replace_nth u rest progs) []) -> ~ In (op_topo o') A /\ backend_stable o' = true).
      { intros u' o' Nu H'. destruct (Nat.eq_dec u' u) as [Eu|Nu'].
        - subst u'. rewrite nth_replace_nth_same in H' by exact NE. apply (Hoth u o' Nu). rewrite E. right. exact H'.
        - rewrite nth_replace_nth_other in H' by exact Nu'. apply (Hoth u' o' Nu H'). }
      specialize (IH (replace_nth u rest progs) (fst (fst (run_op sc o))) sa X Hown' Hoth').
      rewrite N1 in IH.
      destruct (run_op sc o) as [[s1 x] e1]. cbn [fst snd] in *.
      destruct (run_sched s1 (replace_nth u rest progs) r) as [s2 xs]. cbn [snd] in *.
      unfold results_of_thread in *. simpl. apply Nat.eqb_neq in Ne. rewrite Ne. exact IH.
Qed.
