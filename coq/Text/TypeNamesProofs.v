(* C11 - lemmas about the model of Text/TypeNames.v *)
From Coq Require Import String Ascii NArith ZArith PeanoNat List Bool Lia ZifyBool ZifyN ZifyNat.
From HV Require Import Base.Bytes Base.Strto Base.Snprintf Gen.Tables Text.TypeOrder Text.TypeNames.
Import ListNotations.
Local Open Scope N_scope.

(* ================================================================== *)
(* decimal printing *)

Lemma digits_val_app2 b a c : digits_val b (a ++ c) = fold_left (fun acc x => acc * b + digit_of x) c (digits_val b a).
Proof. unfold digits_val. now rewrite fold_left_app. Qed.

Lemma digit_of_dec d : d < 10 -> digit_of (48 + d) = d /\ is_digit_in 10 (48 + d) = true.
Proof.
  intros H. assert (C : d = 0 \/ d = 1 \/ d = 2 \/ d = 3 \/ d = 4 \/ d = 5 \/ d = 6 \/ d = 7 \/ d = 8 \/ d = 9) by lia.
  repeat destruct C as [-> | C]; try subst d; split; reflexivity.
Qed.

(* value of  dec_aux f n acc  read as a decimal number *)
Lemma dec_aux_spec : forall f n acc,
  n < 2 ^ N.of_nat f -> (0 < f)%nat ->
  exists pre, dec_aux f n acc = pre ++ acc /\ pre <> [] /\ all_digits 10 pre /\ digits_val 10 pre = n.
Proof.
  induction f as [|f IH]; intros n acc Hn Hf; [lia|].
  cbn [dec_aux]. assert (Hm : n mod 10 < 10) by (apply N.mod_lt; lia).
  destruct (digit_of_dec (n mod 10) Hm) as [Dv Dd].
  destruct (N.ltb_spec n 10) as [Hlt|Hge].
  - exists [48 + n mod 10]. split; [reflexivity|]. split; [discriminate|]. split; [repeat constructor; exact Dd|].
    unfold digits_val. cbn [fold_left]. rewrite Dv. rewrite N.mod_small by lia. lia.
  - assert (Hf' : (0 < f)%nat).
    { destruct f; [|lia]. cbn in Hn. lia. }
    assert (Hdiv : n / 10 < 2 ^ N.of_nat f).
    { rewrite Nat2N.inj_succ, N.pow_succ_r' in Hn.
      apply N.div_lt_upper_bound; [lia|]. lia. }
    destruct (IH (n / 10) ((48 + n mod 10) :: acc) Hdiv Hf') as [pre [E [Hne [Hd Hv]]]].
    exists (pre ++ [48 + n mod 10]). split; [rewrite E, <- app_assoc; reflexivity|].
    split; [destruct pre; discriminate|]. split.
    + apply Forall_app. split; [exact Hd|repeat constructor; exact Dd].
    + rewrite digits_val_app, Hv, Dv. pose proof (N.div_mod n 10). lia.
Qed.

Lemma dec_spec n : dec n <> [] /\ all_digits 10 (dec n) /\ digits_val 10 (dec n) = n.
Proof.
  unfold dec.
  destruct (dec_aux_spec (S (N.to_nat (N.size n))) n []) as [pre [E [Hne [Hd Hv]]]].
  - rewrite Nat2N.inj_succ, N2Nat.id, N.pow_succ_r'.
    destruct n as [|p]; [cbn; lia|]. pose proof (N.size_gt (N.pos p)). lia.
  - lia.
  - rewrite E, app_nil_r. auto.
Qed.

(* ================================================================== *)
(* the OS-device printer loop *)

Definition osdev_step (longn : bool) (st : osdev_state) (e : N * string * string) : osdev_state :=
  let '(w, comma, acc) := st in
  if N.land w (osdev_bit e) =? 0 then st
  else (N.ldiff w (osdev_bit e), true, acc ++ [(if comma then 44 else 91) :: osdev_name longn e]).
Definition mask_of (tbl : list (N * string * string)) : N := fold_right (fun e m => N.lor (osdev_bit e) m) 0 tbl.

Lemma osdev_pass_fold longn st : osdev_pass longn st = fold_left (osdev_step longn) osdev_names_tbl st.
Proof. reflexivity. Qed.

Lemma ldiff_disjoint w b : N.land w b = 0 -> N.ldiff w b = w.
Proof.
  intros H. apply N.bits_inj. intros k. rewrite N.ldiff_spec.
  assert (T : N.testbit (N.land w b) k = false) by (rewrite H; apply N.bits_0).
  rewrite N.land_spec in T. destruct (N.testbit w k), (N.testbit b k); simpl in *; congruence.
Qed.

Lemma fold_step_word longn : forall tbl w c acc,
  fst (fst (fold_left (osdev_step longn) tbl (w, c, acc))) = N.ldiff w (mask_of tbl).
Proof.
  induction tbl as [|e tbl IH]; intros w c acc; cbn [fold_left mask_of fold_right].
  - cbn [fst]. now rewrite N.ldiff_0_r.
  - unfold osdev_step at 2. destruct (N.eqb_spec (N.land w (osdev_bit e)) 0) as [E|E].
    + rewrite IH. rewrite <- N.ldiff_ldiff_l. now rewrite (ldiff_disjoint _ _ E).
    + rewrite IH. now rewrite N.ldiff_ldiff_l.
Qed.

Lemma fold_step_fixed longn : forall tbl st,
  N.land (fst (fst st)) (mask_of tbl) = 0 -> fold_left (osdev_step longn) tbl st = st.
Proof.
  induction tbl as [|e tbl IH]; intros [[w c] acc] H; cbn [fold_left]; [reflexivity|].
  cbn [mask_of fold_right fst] in H. rewrite N.land_lor_distr_r in H. apply N.lor_eq_0_iff in H. destruct H as [H1 H2].
  unfold osdev_step at 2. rewrite H1. cbn [N.eqb]. apply IH. exact H2.
Qed.

Lemma mask_of_known : mask_of osdev_names_tbl = osdev_known_mask.
Proof. vm_compute. reflexivity. Qed.

(* one pass clears exactly the bits of names[] *)
Lemma osdev_pass_word longn w c acc :
  fst (fst (osdev_pass longn (w, c, acc))) = N.ldiff w osdev_known_mask.
Proof. rewrite osdev_pass_fold, fold_step_word. now rewrite mask_of_known. Qed.

(* a word without any bit of names[]: the loop state after one iteration equals the state before *)
Lemma osdev_pass_state_repeats longn w c acc :
  N.land w osdev_known_mask = 0 -> osdev_pass longn (w, c, acc) = (w, c, acc).
Proof. intros H. rewrite osdev_pass_fold. apply fold_step_fixed. cbn [fst]. now rewrite mask_of_known. Qed.

Lemma osdev_while_stuck longn w c acc :
  w <> 0 -> N.land w osdev_known_mask = 0 -> forall fuel, osdev_while fuel longn (w, c, acc) = None.
Proof.
  intros Hw Hm fuel. induction fuel as [|f IH]; cbn [osdev_while].
  - apply N.eqb_neq in Hw. now rewrite Hw.
  - apply N.eqb_neq in Hw. rewrite Hw. rewrite (osdev_pass_state_repeats longn w c acc Hm). exact IH.
Qed.

(* more fuel never changes the answer: two iterations decide *)
Lemma osdev_while_fuel longn st : forall k, osdev_while (2 + k) longn st = osdev_while 2 longn st.
Proof.
  intros k. destruct st as [[w c] acc].
  change (2 + k)%nat with (S (S k)). cbn [osdev_while].
  destruct (N.eqb_spec w 0) as [E|E]; [reflexivity|].
  destruct (osdev_pass longn (w, c, acc)) as [[w1 c1] acc1] eqn:P.
  assert (W1 : w1 = N.ldiff w osdev_known_mask).
  { pose proof (osdev_pass_word longn w c acc) as H. rewrite P in H. exact H. }
  destruct (N.eqb_spec w1 0) as [E1|E1]; [reflexivity|].
  assert (M : N.land w1 osdev_known_mask = 0) by (subst w1; apply N.land_ldiff).
  rewrite (osdev_pass_state_repeats longn w1 c1 acc1 M).
  rewrite (osdev_while_stuck longn w1 c1 acc1 E1 M k).
  apply N.eqb_neq in E1. now rewrite E1.
Qed.

(* words made of known bits only: the loop ends after one pass *)
Lemma osdev_normal_known_terminates os longn :
  N.ldiff os osdev_known_mask = 0 -> exists ps, osdev_normal_pieces true os longn = PrOk ps.
Proof.
  intros H. unfold osdev_normal_pieces, osdev_loop. cbn [osdev_while].
  destruct (N.eqb_spec os 0) as [E|E]; [eexists; reflexivity|].
  destruct (osdev_pass longn (os, false, [lit (if longn then "OSDev" else "OS")])) as [[w1 c1] acc1] eqn:P.
  assert (W1 : w1 = N.ldiff os osdev_known_mask).
  { pose proof (osdev_pass_word longn os false [lit (if longn then "OSDev" else "OS")]) as H'. rewrite P in H'. exact H'. }
  rewrite H in W1. subst w1. cbn [N.eqb]. eexists; reflexivity.
Qed.

(* any bit outside names[]: never returns, whatever the fuel *)
Lemma osdev_normal_unknown_loops os longn :
  N.ldiff os osdev_known_mask <> 0 -> osdev_normal_pieces true os longn = PrLoop.
Proof.
  intros H. unfold osdev_normal_pieces, osdev_loop. cbn [osdev_while].
  destruct (N.eqb_spec os 0) as [E|E]; [subst os; rewrite N.ldiff_0_l in H; congruence|].
  destruct (osdev_pass longn (os, false, [lit (if longn then "OSDev" else "OS")])) as [[w1 c1] acc1] eqn:P.
  assert (W1 : w1 = N.ldiff os osdev_known_mask).
  { pose proof (osdev_pass_word longn os false [lit (if longn then "OSDev" else "OS")]) as H'. rewrite P in H'. exact H'. }
  assert (M : N.land w1 osdev_known_mask = 0) by (subst w1; apply N.land_ldiff).
  assert (E1 : w1 <> 0) by (subst w1; exact H).
  apply N.eqb_neq in E1. rewrite E1.
  rewrite (osdev_pass_state_repeats longn w1 c1 acc1 M). now rewrite E1.
Qed.

(* the fixed code (if (ostype) { one pass }) always returns *)
Lemma osdev_normal_fixed_terminates os longn : exists ps, osdev_normal_pieces false os longn = PrOk ps.
Proof.
  unfold osdev_normal_pieces, osdev_loop.
  destruct (if os =? 0 then _ else _) as [[w c] acc]. eexists; reflexivity.
Qed.

(* on words of known bits both variants print the same *)
Lemma osdev_normal_variants_agree os longn :
  N.ldiff os osdev_known_mask = 0 -> osdev_normal_pieces true os longn = osdev_normal_pieces false os longn.
Proof.
  intros H. unfold osdev_normal_pieces, osdev_loop. cbn [osdev_while].
  destruct (N.eqb_spec os 0) as [E|E]; [reflexivity|].
  destruct (osdev_pass longn (os, false, [lit (if longn then "OSDev" else "OS")])) as [[w1 c1] acc1] eqn:P.
  assert (W1 : w1 = N.ldiff os osdev_known_mask).
  { pose proof (osdev_pass_word longn os false [lit (if longn then "OSDev" else "OS")]) as H'. rewrite P in H'. exact H'. }
  rewrite H in W1. subst w1. reflexivity.
Qed.

(* ================================================================== *)
(* hwloc_obj_type_snprintf: when it returns, and the length contract *)

Definition contract (init s : list N) (st : pstate) : Prop :=
  ps_ret st = length s                                   (* returns the untruncated length *)
  /\ length (ps_buf st) = length init                    (* nothing stored at an index >= size *)
  /\ (init = [] -> ps_buf st = [])                       (* NULL / 0 accepted *)
  /\ (forall n, length init = S n ->                     (* size > 0: truncated text, NUL, the rest untouched *)
        ps_buf st = firstn n s ++ [0] ++ skipn (S (Nat.min (length s) n)) init).

Lemma type_snprintf_contract_gen loop o flags init ps :
  type_snprintf_pieces_gen loop o flags = PrOk ps ->
  exists st, type_snprintf_gen loop init o flags = PrOk (Some st) /\ contract init (concat ps) st.
Proof.
  intros H. unfold type_snprintf_gen. rewrite H. cbn [pr_map].
  destruct (emit_all_contract init ps) as [st [E R]]. exists st. rewrite E. split; [reflexivity|exact R].
Qed.

(* the printer returns unless: Bridge with downstream != PCI (assert), or the while loop on an unknown bit *)
Lemma type_pieces_ok loop o flags :
  (to_type o = HWLOC_OBJ_BRIDGE -> to_bdown o = HWLOC_OBJ_BRIDGE_PCI) ->
  (loop = true -> to_type o = HWLOC_OBJ_OS_DEVICE ->
     flag_set flags HWLOC_OBJ_SNPRINTF_FLAG_SHORT_NAMES = true \/ N.ldiff (to_os o) osdev_known_mask = 0) ->
  exists ps, type_snprintf_pieces_gen loop o flags = PrOk ps.
Proof.
  intros Hb Ho. unfold type_snprintf_pieces_gen.
  destruct (_ || _); [eexists; reflexivity|].
  destruct (tcache (to_type o)); [eexists; reflexivity|].
  destruct (N.eqb_spec (to_type o) HWLOC_OBJ_GROUP) as [Eg|_]; [destruct (negb _); eexists; reflexivity|].
  destruct (N.eqb_spec (to_type o) HWLOC_OBJ_BRIDGE) as [Eb|_].
  { rewrite (Hb Eb), N.eqb_refl. eexists; reflexivity. }
  destruct (N.eqb_spec (to_type o) HWLOC_OBJ_PCI_DEVICE) as [Ep|_]; [eexists; reflexivity|].
  destruct (N.eqb_spec (to_type o) HWLOC_OBJ_OS_DEVICE) as [Eo|_]; [|eexists; reflexivity].
  destruct (flag_set flags HWLOC_OBJ_SNPRINTF_FLAG_SHORT_NAMES) eqn:Es; [eexists; reflexivity|].
  destruct loop.
  - destruct (Ho eq_refl Eo) as [C|C]; [discriminate|]. apply osdev_normal_known_terminates, C.
  - apply osdev_normal_fixed_terminates.
Qed.

(* both code variants print the same on every word of known bits *)
Lemma type_pieces_variants_agree o flags :
  N.ldiff (to_os o) osdev_known_mask = 0 ->
  type_snprintf_pieces_gen true o flags = type_snprintf_pieces_gen false o flags.
Proof.
  intros H. unfold type_snprintf_pieces_gen.
  repeat match goal with |- (if ?c then _ else _) = _ => destruct c; [reflexivity|] end.
  destruct (N.eqb (to_type o) HWLOC_OBJ_OS_DEVICE); [|reflexivity].
  destruct (flag_set flags HWLOC_OBJ_SNPRINTF_FLAG_SHORT_NAMES); [reflexivity|].
  apply osdev_normal_variants_agree, H.
Qed.

(* the text depends on flags only through the three low bits *)
Lemma flag_set_low flags m : N.land 7 m = m -> flag_set (N.land flags 7) m = flag_set flags m.
Proof. intros H. unfold flag_set. now rewrite <- N.land_assoc, H. Qed.
Lemma type_pieces_flags loop o flags :
  type_snprintf_pieces_gen loop o (N.land flags 7) = type_snprintf_pieces_gen loop o flags.
Proof.
  unfold type_snprintf_pieces_gen.
  rewrite (flag_set_low flags LONGNAMES_MASK) by reflexivity.
  rewrite (flag_set_low flags HWLOC_OBJ_SNPRINTF_FLAG_SHORT_NAMES) by reflexivity. reflexivity.
Qed.

(* the printed text is a function of (type, printed attributes, flags) *)
Definition tkey (o : tobj) : N * N :=
  let t := to_type o in
  if tcache t then (to_cdepth o, to_ctype o)
  else if t =? HWLOC_OBJ_GROUP then (to_gdepth o, 0)
  else if t =? HWLOC_OBJ_BRIDGE then (to_bup o, to_bdown o)
  else if t =? HWLOC_OBJ_OS_DEVICE then (to_os o, 0)
  else (0, 0).

Lemma type_pieces_function_of_key loop o1 o2 flags :
  to_type o1 = to_type o2 -> tkey o1 = tkey o2 ->
  type_snprintf_pieces_gen loop o1 flags = type_snprintf_pieces_gen loop o2 flags.
Proof.
  intros Ht Hk. unfold tkey in Hk. rewrite <- Ht in Hk. unfold type_snprintf_pieces_gen. rewrite <- Ht.
  destruct (_ || _); [reflexivity|].
  destruct (tcache (to_type o1)). { injection Hk as -> ->. reflexivity. }
  destruct (to_type o1 =? HWLOC_OBJ_GROUP). { injection Hk as ->. reflexivity. }
  destruct (to_type o1 =? HWLOC_OBJ_BRIDGE). { injection Hk as -> ->. reflexivity. }
  destruct (to_type o1 =? HWLOC_OBJ_PCI_DEVICE); [reflexivity|].
  destruct (to_type o1 =? HWLOC_OBJ_OS_DEVICE); [|reflexivity].
  injection Hk as ->. reflexivity.
Qed.

(* ================================================================== *)
(* hwloc_obj_attr_snprintf *)

Definition is_emit (o : pop) : bool := match o with PEmit _ => true | PEmitAbs _ => false end.
(* the only store at (string, size) happens while the cursor is still at the start *)
Definition abs_first (ops : list pop) : bool :=
  match ops with
  | PEmitAbs _ :: r => forallb is_emit r
  | _ => forallb is_emit ops
  end.

Lemma emit_abs_at_start init st p : inv init [] st -> emit_abs (length init) st p = emit st p.
Proof.
  unfold inv. intros [_ H]. unfold emit_abs, emit.
  destruct (length init) as [|n] eqn:E.
  - destruct H as [Hs [Hp Hb]]. rewrite Hs. reflexivity.
  - destruct H as [Hp [Hs Hb]]. cbn [length Nat.min] in Hp. rewrite Hp in *. rewrite Hs.
    replace (S n - 0)%nat with (S n) by lia. reflexivity.
Qed.

Lemma run_emit_only n : forall ops x, forallb is_emit ops = true ->
  fold_left (run_op n) ops x = fold_left emit_opt (map pop_text ops) x.
Proof.
  induction ops as [|o ops IH]; intros x H; [reflexivity|].
  cbn [forallb] in H. apply andb_true_iff in H. destruct H as [Ho Hr].
  destruct o as [p|p]; [|discriminate]. cbn [fold_left map pop_text].
  rewrite IH by exact Hr. f_equal.
Qed.

Lemma run_ops_emit_all init ops : abs_first ops = true -> run_ops init ops = emit_all init (map pop_text ops).
Proof.
  intros H. unfold run_ops, emit_all. destruct ops as [|[p|p] r].
  - reflexivity.
  - apply run_emit_only. exact H.
  - cbn [abs_first] in H. cbn [fold_left map pop_text]. rewrite run_emit_only by exact H. f_equal.
Qed.

Lemma attr_contract_of_ops init ops :
  abs_first ops = true ->
  exists st, run_ops init ops = Some st /\ contract init (concat (map pop_text ops)) st.
Proof.
  intros H. rewrite (run_ops_emit_all init ops H).
  destruct (emit_all_contract init (map pop_text ops)) as [st [E R]]. exists st. split; [exact E|exact R].
Qed.

(* the infos loop only uses the cursor *)
Lemma infos_fold_emit sep : forall infos ret ops,
  forallb is_emit ops = true ->
  forallb is_emit (snd (fold_left (info_step sep) infos (ret, ops))) = true.
Proof.
  induction infos as [|[nm v] infos IH]; intros ret ops H; cbn [fold_left]; [exact H|].
  unfold info_step at 2. apply IH. rewrite forallb_app, H. reflexivity.
Qed.

(* I/O objects carry no memory: what every loaded topology satisfies
   (propagate_total_memory only adds NUMA local memory of normal/memory children) *)
Definition io_without_memory (a : aobj) : Prop :=
  (ao_type a = HWLOC_OBJ_BRIDGE \/ ao_type a = HWLOC_OBJ_PCI_DEVICE) -> ao_total_memory a = 0.

Lemma abs_first_of_emit ops : forallb is_emit ops = true -> abs_first ops = true.
Proof. destruct ops as [|[p|p] r]; intros H; [reflexivity|exact H|cbn in H; discriminate]. Qed.

Lemma attr_ops_abs_first a sep flags ops :
  io_without_memory a -> attr_snprintf_ops a sep flags = PrOk ops -> abs_first ops = true.
Proof.
  intros Hio. unfold attr_snprintf_ops.
  set (verbose := flag_set flags VERBOSE_MASK).
  set (iops := fun (r : nat) => if verbose then infos_ops sep (ao_infos a) r else []).
  assert (INF : forall r, forallb is_emit (iops r) = true).
  { intros r. unfold iops, infos_ops. destruct verbose; [|reflexivity]. apply infos_fold_emit. reflexivity. }
  Ltac all_emit INF := apply abs_first_of_emit; cbn [app forallb is_emit andb];
    repeat (rewrite forallb_app; cbn [app forallb is_emit andb]); rewrite ?INF; reflexivity.
  destruct (is_attr_cache_type (ao_type a)) eqn:Ec.
  { destruct verbose; destruct ((ao_type a =? HWLOC_OBJ_NUMANODE) && negb (ao_local_memory a =? 0));
    try destruct (negb (ao_total_memory a =? 0)); intros H; injection H as <-;
    (apply abs_first_of_emit; cbn [app forallb is_emit andb]; try reflexivity;
     match goal with |- forallb is_emit ?l = true => change l with (iops 0%nat) || idtac end;
     try apply (infos_fold_emit sep (ao_infos a) _ [] eq_refl)). }
  destruct (N.eqb_spec (ao_type a) HWLOC_OBJ_BRIDGE) as [Eb|Nb].
  { assert (T0 : ao_total_memory a = 0) by (apply Hio; auto).
    assert (NN : (ao_type a =? HWLOC_OBJ_NUMANODE) = false) by (rewrite Eb; reflexivity).
    rewrite NN, T0. cbn [andb N.eqb negb].
    destruct verbose.
    - destruct (ao_bdown a =? HWLOC_OBJ_BRIDGE_PCI); [|discriminate].
      intros H. injection H as <-. cbn [app abs_first]. apply (infos_fold_emit sep (ao_infos a) _ [] eq_refl).
    - intros H. injection H as <-. reflexivity. }
  destruct (N.eqb_spec (ao_type a) HWLOC_OBJ_PCI_DEVICE) as [Ep|Np].
  { assert (T0 : ao_total_memory a = 0) by (apply Hio; auto).
    assert (NN : (ao_type a =? HWLOC_OBJ_NUMANODE) = false) by (rewrite Ep; reflexivity).
    rewrite NN, T0. cbn [andb N.eqb negb].
    destruct verbose; intros H; injection H as <-; [cbn [app abs_first]; apply (infos_fold_emit sep (ao_infos a) _ [] eq_refl)|reflexivity]. }
  destruct verbose; destruct ((ao_type a =? HWLOC_OBJ_NUMANODE) && negb (ao_local_memory a =? 0));
  try destruct (negb (ao_total_memory a =? 0)); intros H; injection H as <-;
  (apply abs_first_of_emit; cbn [app forallb is_emit andb]; try reflexivity;
   try apply (infos_fold_emit sep (ao_infos a) _ [] eq_refl)).
Qed.

Lemma attr_snprintf_contract_lemma a sep flags init ops :
  io_without_memory a -> attr_snprintf_ops a sep flags = PrOk ops ->
  exists st, attr_snprintf init a sep flags = PrOk (Some st) /\ contract init (concat (map pop_text ops)) st.
Proof.
  intros Hio H. unfold attr_snprintf. rewrite H. cbn [pr_map].
  destruct (attr_contract_of_ops init ops (attr_ops_abs_first a sep flags ops Hio H)) as [st [E R]].
  exists st. rewrite E. auto.
Qed.

(* it always returns, except the assert(0) for a Bridge whose downstream type is not PCI (verbose mode) *)
Lemma attr_ops_ok a sep flags :
  (ao_type a = HWLOC_OBJ_BRIDGE -> ao_bdown a = HWLOC_OBJ_BRIDGE_PCI) ->
  exists ops, attr_snprintf_ops a sep flags = PrOk ops.
Proof.
  intros Hb. unfold attr_snprintf_ops.
  destruct (is_attr_cache_type (ao_type a)).
  { destruct (flag_set flags VERBOSE_MASK); eexists; reflexivity. }
  destruct (N.eqb_spec (ao_type a) HWLOC_OBJ_BRIDGE) as [Eb|Nb].
  { rewrite (Hb Eb), N.eqb_refl. destruct (flag_set flags VERBOSE_MASK); eexists; reflexivity. }
  destruct (ao_type a =? HWLOC_OBJ_PCI_DEVICE); destruct (flag_set flags VERBOSE_MASK); eexists; reflexivity.
Qed.

(* ================================================================== *)
(* round trip: hwloc_type_sscanf (hwloc_obj_type_snprintf o) *)

(* what hwloc_type_sscanf must store for o when attributes are requested *)
Definition expected_write (o : tobj) : attr_write :=
  let t := to_type o in
  if tcache t then AWcache (to_cdepth o) (Z.of_N (to_ctype o))
  else if t =? HWLOC_OBJ_GROUP then AWgroup (to_gdepth o)
  else if t =? HWLOC_OBJ_BRIDGE then AWbridge (Z.of_N (to_bup o)) (Z.of_N (to_bdown o))
  else if t =? HWLOC_OBJ_OS_DEVICE then AWosdev (to_os o)
  else AWnone.
Definition attr_write_eqb (a b : attr_write) : bool :=
  match a, b with
  | AWnone, AWnone => true
  | AWcache d c, AWcache d' c' => (d =? d') && (c =? c')%Z
  | AWgroup d, AWgroup d' => d =? d'
  | AWbridge u d, AWbridge u' d' => (u =? u')%Z && (d =? d')%Z
  | AWosdev o, AWosdev o' => o =? o'
  | _, _ => false
  end.
(* the printer returns a text; the parser accepts it (with a full-size attribute
   union and with attrp = NULL), returns the type of o and stores exactly the
   attributes of o *)
Definition roundtrip_ok (chk loop : bool) (o : tobj) (flags : N) : bool :=
  match type_text_gen loop o flags with
  | PrOk txt =>
    match type_sscanf chk (txt ++ [0]) (Some SIZEOF_ATTR_UNION), type_sscanf chk (txt ++ [0]) None with
    | Ok (Some (t, w)), Ok (Some (t', AWnone)) => (t =? to_type o) && (t' =? to_type o) && attr_write_eqb w (expected_write o)
    | _, _ => false
    end
  | _ => false
  end.

Definition mk (t cd ct gd bu bd os : N) := TO t cd ct gd bu bd os.
Definition simple_types := [HWLOC_OBJ_MACHINE; HWLOC_OBJ_PACKAGE; HWLOC_OBJ_DIE; HWLOC_OBJ_CORE; HWLOC_OBJ_PU;
                            HWLOC_OBJ_NUMANODE; HWLOC_OBJ_MEMCACHE; HWLOC_OBJ_PCI_DEVICE; HWLOC_OBJ_MISC].
Definition simple_objs := map (fun t => mk t 0 0 0 0 0 0) simple_types.
(* hwloc_cache_type_by_depth_type, regenerated table *)
Definition cache_type_of (d ct : N) : Z := nthN (nthN cache_type_by_depth_type_tbl d []) ct (-1)%Z.
Definition cache_objs := flat_map (fun d => flat_map (fun ct =>
   match cache_type_of d ct with Zneg _ => [] | z => [mk (Z.to_N z) d ct 0 0 0 0] end) [0;1;2]) [1;2;3;4;5].
Definition bridge_objs := [mk HWLOC_OBJ_BRIDGE 0 0 0 HWLOC_OBJ_BRIDGE_HOST HWLOC_OBJ_BRIDGE_PCI 0;
                           mk HWLOC_OBJ_BRIDGE 0 0 0 HWLOC_OBJ_BRIDGE_PCI HWLOC_OBJ_BRIDGE_PCI 0].
Definition osdev_objs := map (fun w => mk HWLOC_OBJ_OS_DEVICE 0 0 0 0 0 (N.of_nat w)) (seq 0 (S (N.to_nat osdev_known_mask))).
Definition group_none := mk HWLOC_OBJ_GROUP 0 0 NEG1U 0 0 0.
Definition rt_objs := simple_objs ++ cache_objs ++ bridge_objs ++ osdev_objs ++ [group_none].
Definition rt_flags := filter (fun f => N.land f HWLOC_OBJ_SNPRINTF_FLAG_SHORT_NAMES =? 0) (map N.of_nat (seq 0 8)).

(* every canonical object x every flag word 0..7 without SHORT_NAMES x both variants of both functions *)
Lemma roundtrip_finite_all :
  forallb (fun o => forallb (fun f => roundtrip_ok false true o f && roundtrip_ok true false o f &&
                                      roundtrip_ok true true o f && roundtrip_ok false false o f) rt_flags) rt_objs = true.
Proof. vm_compute. reflexivity. Qed.

Lemma roundtrip_finite chk loop o f : In o rt_objs -> In f rt_flags -> roundtrip_ok chk loop o f = true.
Proof.
  intros Ho Hf. pose proof roundtrip_finite_all as H. rewrite forallb_forall in H. specialize (H o Ho).
  rewrite forallb_forall in H. specialize (H f Hf). apply andb_true_iff in H. destruct H as [H H4].
  apply andb_true_iff in H. destruct H as [H H3]. apply andb_true_iff in H. destruct H as [H1 H2].
  destruct chk, loop; assumption.
Qed.

Lemma expected_write_key o1 o2 : to_type o1 = to_type o2 -> tkey o1 = tkey o2 -> expected_write o1 = expected_write o2.
Proof.
  intros Ht Hk. unfold tkey in Hk. unfold expected_write. rewrite <- Ht in *.
  destruct (tcache (to_type o1)). { injection Hk as -> ->. reflexivity. }
  destruct (to_type o1 =? HWLOC_OBJ_GROUP). { injection Hk as ->. reflexivity. }
  destruct (to_type o1 =? HWLOC_OBJ_BRIDGE). { injection Hk as -> ->. reflexivity. }
  destruct (to_type o1 =? HWLOC_OBJ_OS_DEVICE); [|reflexivity]. injection Hk as ->. reflexivity.
Qed.

Lemma roundtrip_ok_key chk loop o1 o2 f :
  to_type o1 = to_type o2 -> tkey o1 = tkey o2 -> roundtrip_ok chk loop o1 f = roundtrip_ok chk loop o2 f.
Proof.
  intros Ht Hk. unfold roundtrip_ok, type_text_gen.
  rewrite (type_pieces_function_of_key loop o1 o2 f Ht Hk), (expected_write_key o1 o2 Ht Hk), Ht. reflexivity.
Qed.
Lemma roundtrip_ok_flags chk loop o f : roundtrip_ok chk loop o (N.land f 7) = roundtrip_ok chk loop o f.
Proof. unfold roundtrip_ok, type_text_gen. now rewrite type_pieces_flags. Qed.

Lemma low_flags_in f : N.land f HWLOC_OBJ_SNPRINTF_FLAG_SHORT_NAMES = 0 -> In (N.land f 7) rt_flags.
Proof.
  intros H. unfold rt_flags. apply filter_In. split.
  - apply in_map_iff. exists (N.to_nat (N.land f 7)). split; [apply N2Nat.id|]. apply in_seq.
    change 7 with (N.ones 3). rewrite N.land_ones. change (2 ^ 3) with 8.
    assert (f mod 8 < 8) by (apply N.mod_lt; discriminate). lia.
  - apply N.eqb_eq. rewrite <- N.land_assoc. exact H.
Qed.

(* any object that agrees with a canonical one on type and printed attributes, any flag word without SHORT_NAMES *)
Lemma roundtrip_lift chk loop o o' f :
  In o' rt_objs -> to_type o = to_type o' -> tkey o = tkey o' ->
  N.land f HWLOC_OBJ_SNPRINTF_FLAG_SHORT_NAMES = 0 -> roundtrip_ok chk loop o f = true.
Proof.
  intros Hi Ht Hk Hf. rewrite <- roundtrip_ok_flags, (roundtrip_ok_key chk loop o o' _ Ht Hk).
  apply roundtrip_finite; [exact Hi|apply low_flags_in, Hf].
Qed.

Lemma in_rt_simple t : In t simple_types -> In (mk t 0 0 0 0 0 0) rt_objs.
Proof. intros H. unfold rt_objs. apply in_or_app. left. unfold simple_objs. exact (in_map (fun t => mk t 0 0 0 0 0 0) simple_types t H). Qed.
Lemma in_rt_osdev w : w <= osdev_known_mask -> In (mk HWLOC_OBJ_OS_DEVICE 0 0 0 0 0 w) rt_objs.
Proof.
  intros H. unfold rt_objs. do 3 (apply in_or_app; right). apply in_or_app; left.
  unfold osdev_objs. apply in_map_iff. exists (N.to_nat w). split; [now rewrite N2Nat.id|]. apply in_seq. lia.
Qed.

(* ---------- Group<depth> for every unsigned depth ---------- *)
Definition GROUP_TXT : list N := [71; 114; 111; 117; 112].

Lemma group_pieces loop o f : to_type o = HWLOC_OBJ_GROUP ->
  type_snprintf_pieces_gen loop o f =
  PrOk [if negb (to_gdepth o =? NEG1U) then GROUP_TXT ++ dec (to_gdepth o) else GROUP_TXT].
Proof.
  intros Ht. unfold type_snprintf_pieces_gen. rewrite Ht.
  change (tcache HWLOC_OBJ_GROUP) with false. cbv iota.
  replace ((HWLOC_OBJ_GROUP =? HWLOC_OBJ_MISC) || (HWLOC_OBJ_GROUP =? HWLOC_OBJ_MACHINE) || (HWLOC_OBJ_GROUP =? HWLOC_OBJ_NUMANODE)
           || (HWLOC_OBJ_GROUP =? HWLOC_OBJ_MEMCACHE) || (HWLOC_OBJ_GROUP =? HWLOC_OBJ_PACKAGE) || (HWLOC_OBJ_GROUP =? HWLOC_OBJ_DIE)
           || (HWLOC_OBJ_GROUP =? HWLOC_OBJ_CORE) || (HWLOC_OBJ_GROUP =? HWLOC_OBJ_PU)) with false by reflexivity.
  rewrite N.eqb_refl. change (lit (obj_type_string HWLOC_OBJ_GROUP)) with GROUP_TXT.
  destruct (negb (to_gdepth o =? NEG1U)); reflexivity.
Qed.

(* the keyword chain on "Group" followed by a digit: every earlier test fails within the first bytes *)
Lemma group_phase chk d0 tail : 48 <= d0 <= 57 ->
  sscanf_phase chk (GROUP_TXT ++ d0 :: tail) = Ok (PhGroup 5).
Proof.
  intros H.
  assert (C : d0 = 48 \/ d0 = 49 \/ d0 = 50 \/ d0 = 51 \/ d0 = 52 \/ d0 = 53 \/ d0 = 54 \/ d0 = 55 \/ d0 = 56 \/ d0 = 57) by lia.
  destruct chk; repeat destruct C as [-> | C]; try subst d0; vm_compute; reflexivity.
Qed.

Lemma to_unsigned_small n : n <= UINT_MAX -> to_unsigned (Z.of_N n) = n.
Proof.
  intros H. unfold to_unsigned. unfold UINT_MAX in H. rewrite Z.mod_small by lia. apply N2Z.id.
Qed.

Lemma group_sscanf chk gd :
  gd <= UINT_MAX ->
  type_sscanf_vals chk ((GROUP_TXT ++ dec gd) ++ [0]) = Ok (Some (SV HWLOC_OBJ_GROUP gd (-1) (-1) 0)).
Proof.
  intros Hgd. destruct (dec_spec gd) as [Hne [Hd Hv]].
  destruct (dec gd) as [|d0 ds'] eqn:E; [congruence|].
  assert (Hd0 : 48 <= d0 <= 57).
  { inversion Hd as [|x l Hx _]; subst. revert Hx. unfold is_digit_in, digit_val, isdigit, isupper, islower.
    destruct (N.leb_spec 48 d0); destruct (N.leb_spec d0 57); cbn [andb]; try lia;
    destruct (N.leb_spec 65 d0); destruct (N.leb_spec d0 90); cbn [andb]; try (intros Hx; apply N.ltb_lt in Hx; lia);
    destruct (N.leb_spec 97 d0); destruct (N.leb_spec d0 122); cbn [andb]; try (intros Hx; apply N.ltb_lt in Hx; lia); discriminate. }
  unfold type_sscanf_vals.
  replace ((GROUP_TXT ++ d0 :: ds') ++ [0]) with (GROUP_TXT ++ d0 :: (ds' ++ [0])) by (rewrite <- app_assoc; reflexivity).
  rewrite (group_phase chk d0 (ds' ++ [0]) Hd0). cbn [bind].
  unfold group_branch.
  assert (R5 : rdr (GROUP_TXT ++ d0 :: ds' ++ [0]) 5 = Ok d0) by reflexivity.
  rewrite R5. cbn [bind].
  assert (ID : isdigit d0 = true).
  { unfold isdigit. apply andb_true_iff. split; apply N.leb_le; lia. }
  rewrite ID.
  assert (CORE : strto_core (GROUP_TXT ++ (d0 :: ds') ++ 0 :: []) (len GROUP_TXT) 10
                 = Ok {| sr_neg := false; sr_mag := digits_val 10 (d0 :: ds'); sr_end := len GROUP_TXT + len (d0 :: ds') |}).
  { apply strto_core_plain; [lia|discriminate|exact Hd|reflexivity|intros X; discriminate]. }
  change (len GROUP_TXT) with 5 in CORE.
  replace (GROUP_TXT ++ (d0 :: ds') ++ [0]) with (GROUP_TXT ++ d0 :: ds' ++ [0]) in CORE by reflexivity.
  unfold strtol. rewrite CORE. cbn [bind sr_neg sr_mag sr_end fst].
  rewrite Hv. assert (L : LONG_MAX <? gd = false) by (apply N.ltb_ge; unfold LONG_MAX; unfold UINT_MAX in Hgd; lia).
  rewrite L. rewrite (to_unsigned_small gd Hgd). reflexivity.
Qed.

Lemma roundtrip_group chk loop o f :
  to_type o = HWLOC_OBJ_GROUP -> to_gdepth o <= UINT_MAX -> roundtrip_ok chk loop o f = true.
Proof.
  intros Ht Hgd.
  destruct (N.eqb_spec (to_gdepth o) NEG1U) as [E|E].
  - (* no depth: "Group" *)
    rewrite (roundtrip_ok_key chk loop o group_none f).
    + destruct chk, loop; unfold roundtrip_ok, type_text_gen; rewrite (group_pieces _ group_none f eq_refl); vm_compute; reflexivity.
    + exact Ht.
    + unfold tkey. rewrite Ht. cbn. now rewrite E.
  - unfold roundtrip_ok, type_text_gen. rewrite (group_pieces loop o f Ht).
    apply N.eqb_neq in E. rewrite E. cbn [negb pr_map concat]. rewrite app_nil_r.
    unfold type_sscanf. rewrite (group_sscanf chk (to_gdepth o) Hgd). cbn [bind sv_type].
    unfold expected_write. rewrite Ht.
    change (tcache HWLOC_OBJ_GROUP) with false. cbv iota. rewrite N.eqb_refl.
    unfold attr_of_vals. cbn [sv_type sv_depth].
    change (tcache HWLOC_OBJ_GROUP) with false. cbn [andb]. rewrite N.eqb_refl.
    change (SIZEOF_ATTR_GROUP <=? SIZEOF_ATTR_UNION) with true. cbn [andb attr_write_eqb]. now rewrite N.eqb_refl.
Qed.

(* ================================================================== *)
(* totality of the parser on NUL-terminated strings *)

Definition bytes_ok (s : list N) : Prop := Forall (fun b => b < 256) s.
Definition no_e0 (s : list N) : Prop := Forall (fun b => b <> 224) s.
Definition lit_ok (l : string) : bool := forallb (fun b => negb (b =? 0)) (bytes_of_string l).

Lemma lit_ok_no_nul l : lit_ok l = true -> no_nul (bytes_of_string l).
Proof.
  unfold lit_ok, no_nul. rewrite forallb_forall, Forall_forall. intros H b Hb E. subst b.
  specialize (H 0 Hb). discriminate.
Qed.

Lemma rd_in s k b : rd s k = Some b -> In b s.
Proof. unfold rd. apply nth_error_In. Qed.

Lemma cstring_rd s n k : cstring s n -> k <= n -> exists b, rd s k = Some b /\ (b = 0 <-> k = n).
Proof.
  intros [H0 Hlt] Hk. destruct (N.eq_dec k n) as [->|Hne].
  - exists 0. tauto.
  - destruct (Hlt k) as [b [Hb Nz]]; [lia|]. exists b. tauto.
Qed.

Lemma tm_differs_nul b : b < 256 -> b <> 0 -> b <> 224 -> tm_differs b 0 = true.
Proof.
  intros H1 H2 H3. unfold tm_differs, schar. change (0 <? 128) with true. cbv iota.
  destruct (N.ltb_spec b 128); apply andb_true_iff; split; apply negb_true_iff; apply Z.eqb_neq; lia.
Qed.

(* hwloc__type_match never reads outside the caller's string nor outside the literal,
   provided the code stops at the literal's terminator (chk) or the string has no byte 0xE0 *)
Lemma tm_loop_ok chk s n p : cstring s n -> bytes_ok s -> (chk = true \/ no_e0 s) ->
  forall l i mm, no_nul l -> p + i <= n ->
  exists r, tm_loop chk s p (l ++ [0]) i mm = Ok r /\ (forall e, r = Some e -> p <= e <= n).
Proof.
  intros Hs Hb He. induction l as [|tb l IH]; intros i mm Hl Hi.
  - cbn [app tm_loop].
    destruct (cstring_rd s n (p + i) Hs Hi) as [b [Rb Zb]]. unfold rdr. rewrite Rb. cbn [bind].
    destruct (N.eqb_spec b 0) as [E|E].
    + eexists. split; [reflexivity|]. intros e. destruct (i <? mm); intros [= <-]. lia.
    + assert (C : (chk && (0 =? 0)) || tm_differs b 0 = true).
      { destruct He as [-> | Hn]; [reflexivity|]. rewrite andb_comm. cbn [N.eqb andb].
        destruct chk; [reflexivity|]. cbn [orb]. apply tm_differs_nul; [|exact E|].
        - unfold bytes_ok in Hb. rewrite Forall_forall in Hb. apply Hb. eapply rd_in; eauto.
        - unfold no_e0 in Hn. rewrite Forall_forall in Hn. apply Hn. eapply rd_in; eauto. }
      rewrite C. destruct (tm_letter b); eexists; (split; [reflexivity|]); intros e; [discriminate|].
      destruct (i <? mm); intros [= <-]. lia.
  - cbn [app tm_loop].
    destruct (cstring_rd s n (p + i) Hs Hi) as [b [Rb Zb]]. unfold rdr. rewrite Rb. cbn [bind].
    destruct (N.eqb_spec b 0) as [E|E].
    + eexists. split; [reflexivity|]. intros e. destruct (i <? mm); intros [= <-]. lia.
    + destruct ((chk && (tb =? 0)) || tm_differs b tb).
      * destruct (tm_letter b); eexists; (split; [reflexivity|]); intros e; [discriminate|].
        destruct (i <? mm); intros [= <-]. lia.
      * inversion Hl as [|x l' Hx Hl']; subst. apply IH; [exact Hl'|].
        assert (p + i <> n) by tauto. lia.
Qed.

Lemma type_match_ok chk s n p lit mm : cstring s n -> bytes_ok s -> (chk = true \/ no_e0 s) ->
  lit_ok lit = true -> p <= n ->
  exists r, type_match chk s p lit mm = Ok r /\ (forall e, r = Some e -> p <= e <= n).
Proof.
  intros Hs Hb He Hl Hp. unfold type_match, cstr.
  apply (tm_loop_ok chk s n p Hs Hb He); [apply lit_ok_no_nul, Hl|lia].
Qed.

Definition alts_ok (alts : list (string * N)) : bool := forallb (fun a => lit_ok (fst a)) alts.
Definition kw_ok {A} (tbl : list (list (string * N) * A)) : bool := forallb (fun e => alts_ok (fst e)) tbl.

Lemma any_match_ok chk s n p : cstring s n -> bytes_ok s -> (chk = true \/ no_e0 s) -> p <= n ->
  forall alts, alts_ok alts = true -> exists b, any_match chk s p alts = Ok b.
Proof.
  intros Hs Hb He Hp. induction alts as [|[k mm] r IH]; intros H; cbn [any_match]; [eexists; reflexivity|].
  cbn [alts_ok forallb fst] in H. apply andb_true_iff in H. destruct H as [Hk Hr].
  destruct (type_match_ok chk s n p k mm Hs Hb He Hk Hp) as [m [E _]]. rewrite E. cbn [bind].
  destruct m; [eexists; reflexivity|apply IH, Hr].
Qed.

Lemma first_kw_ok {A} chk s n p : cstring s n -> bytes_ok s -> (chk = true \/ no_e0 s) -> p <= n ->
  forall (tbl : list (list (string * N) * A)), kw_ok tbl = true -> exists r, first_kw chk s p tbl = Ok r.
Proof.
  intros Hs Hb He Hp. induction tbl as [|[alts a] r IH]; intros H; cbn [first_kw]; [eexists; reflexivity|].
  cbn [kw_ok forallb fst] in H. apply andb_true_iff in H. destruct H as [Ha Hr].
  destruct (any_match_ok chk s n p Hs Hb He Hp alts Ha) as [b E]. rewrite E. cbn [bind].
  destruct b; [eexists; reflexivity|apply IH, Hr].
Qed.

(* strncasecmp(string, "lit", k) == 0 with k <= strlen(lit): the string has at least k bytes *)
Lemma strncmp_eq_len fold : fold_ok fold -> forall k a na i l j, cstring a na -> i <= na -> no_nul l ->
  strncmp_f fold k a i (l ++ [0]) j = Ok None -> j + N.of_nat k <= len l -> i + N.of_nat k <= na.
Proof.
  intros Hf. induction k as [|k IH]; intros a na i l j Ha Hi Hl H Hj; [cbn; lia|].
  cbn [strncmp_f] in H.
  destruct (cstring_rd a na i Ha Hi) as [x [Rx Zx]]. unfold rdr in H at 1. rewrite Rx in H. cbn [bind] in H.
  assert (Hjl : j < len l) by lia.
  destruct (rd_lt_some l j Hjl) as [y Ry].
  assert (Ry' : rd (l ++ [0]) j = Some y) by (rewrite rd_app_l by exact Hjl; exact Ry).
  assert (Ny : y <> 0).
  { unfold no_nul in Hl. rewrite Forall_forall in Hl. apply Hl. eapply rd_in; eauto. }
  unfold rdr in H at 1. rewrite Ry' in H. cbn [bind] in H.
  destruct (N.eqb_spec (fold x) (fold y)) as [F|F]; cbn [negb] in H; [|discriminate].
  destruct (N.eqb_spec x 0) as [X|X].
  - exfalso. subst x. apply Ny, Hf. congruence.
  - assert (i <> na) by tauto.
    specialize (IH a na (N.succ i) l (N.succ j) Ha ltac:(lia) Hl H ltac:(lia)). lia.
Qed.

Lemma strncasecmp_lit_ok s n l k : cstring s n -> lit_ok l = true ->
  exists b, cmp_eq (strncasecmp s 0 (cstr l) 0 k) = Ok b /\ (b = true -> k <= len (bytes_of_string l) -> k <= n).
Proof.
  intros Hs Hl. pose proof (lit_ok_no_nul l Hl) as Hn.
  assert (Hc : cstring (cstr l) (len (bytes_of_string l))) by (unfold cstr; apply (cstring_app _ [] Hn)).
  unfold strncasecmp.
  pose proof (strncmp_f_ok tolower (N.to_nat k) s n 0 (cstr l) (len (bytes_of_string l)) 0 fold_ok_tolower Hs Hc ltac:(lia) ltac:(lia)) as Hok.
  destruct (strncmp_f tolower (N.to_nat k) s 0 (cstr l) 0) as [o|] eqn:E; [|congruence].
  cbn [cmp_eq bind]. eexists. split; [reflexivity|]. intros Hb Hk. destruct o; [discriminate|].
  unfold cstr in E.
  pose proof (strncmp_eq_len tolower fold_ok_tolower (N.to_nat k) s n 0 (bytes_of_string l) 0 Hs ltac:(lia) Hn E ltac:(lia)). lia.
Qed.

Lemma osdev_types_loop_ok chk s n : cstring s n -> bytes_ok s -> (chk = true \/ no_e0 s) ->
  forall fuel p acc, p <= n -> (N.to_nat (n - p) < fuel)%nat -> exists r, osdev_types_loop chk fuel s p acc = Ok r.
Proof.
  intros Hs Hb He. induction fuel as [|f IH]; intros p acc Hp Hf; [lia|].
  cbn [osdev_types_loop]. unfold osdev_type_sscanf.
  destruct (first_kw_ok chk s n p Hs Hb He Hp osdev_kw eq_refl) as [o Eo]. rewrite Eo. cbn [bind].
  destruct (strchr_ok s n p 44 Hs Hp) as [r [Er Pr]]. rewrite Er. cbn [bind].
  destruct r as [j|].
  - destruct Pr as [Hj [Rj _]].
    assert (j <> n). { intros ->. destruct Hs as [H0 _]. congruence. }
    apply IH; lia.
  - destruct (strchr_ok s n p 93 Hs Hp) as [r2 [Er2 _]]. rewrite Er2. cbn [bind]. eexists; reflexivity.
Qed.

Lemma osdev_types_sscanf_ok chk s n p : cstring s n -> bytes_ok s -> (chk = true \/ no_e0 s) -> p <= n ->
  exists r, osdev_types_sscanf chk s p = Ok r.
Proof.
  intros Hs Hb He Hp. unfold osdev_types_sscanf. apply (osdev_types_loop_ok chk s n Hs Hb He); [exact Hp|].
  destruct Hs as [H0 _]. apply rd_some_lt in H0. unfold len in H0. lia.
Qed.

(* the keyword chain *)
Lemma sscanf_phase_ok chk s n : cstring s n -> bytes_ok s -> (chk = true \/ no_e0 s) ->
  exists ph, sscanf_phase chk s = Ok ph /\ (ph = PhLcache -> 1 <= n) /\ (forall e, ph = PhGroup e -> e <= n).
Proof.
  intros Hs Hb He. unfold sscanf_phase.
  destruct (strncasecmp_lit_ok s n "osdev[" 6 Hs eq_refl) as [b1 [E1 L1]]. rewrite E1. cbn [bind].
  destruct b1.
  { destruct (osdev_types_sscanf_ok chk s n 6 Hs Hb He (L1 eq_refl ltac:(vm_compute; discriminate))) as [os Eos].
    rewrite Eos. cbn [bind]. eexists. split; [reflexivity|]. split; [discriminate|intros e; discriminate]. }
  destruct (strncasecmp_lit_ok s n "os[" 3 Hs eq_refl) as [b2 [E2 L2]]. rewrite E2. cbn [bind].
  destruct b2.
  { destruct (osdev_types_sscanf_ok chk s n 3 Hs Hb He (L2 eq_refl ltac:(vm_compute; discriminate))) as [os Eos].
    rewrite Eos. cbn [bind]. eexists. split; [reflexivity|]. split; [discriminate|intros e; discriminate]. }
  destruct (type_match_ok chk s n 0 "osdev" 2 Hs Hb He eq_refl ltac:(lia)) as [m [Em _]]. rewrite Em. cbn [bind].
  destruct m. { eexists. split; [reflexivity|]. split; [discriminate|intros e; discriminate]. }
  unfold osdev_type_sscanf.
  destruct (first_kw_ok chk s n 0 Hs Hb He ltac:(lia) osdev_kw eq_refl) as [o Eo]. rewrite Eo. cbn [bind].
  destruct o. { eexists. split; [reflexivity|]. split; [discriminate|intros e; discriminate]. }
  destruct (first_kw_ok chk s n 0 Hs Hb He ltac:(lia) plain_kw eq_refl) as [k Ek]. rewrite Ek. cbn [bind].
  destruct k as [[t ub]|]. { eexists. split; [reflexivity|]. split; [discriminate|intros e; discriminate]. }
  destruct (cstring_rd s n 0 Hs ltac:(lia)) as [c0 [R0 Z0]]. unfold rdr at 1. rewrite R0. cbn [bind].
  assert (ISL : exists isl, (if (c0 =? 108) || (c0 =? 76) then let* c1 := rdr s 1 in Ok (isdigit c1) else Ok false) = Ok isl
                            /\ (isl = true -> 1 <= n)).
  { destruct ((c0 =? 108) || (c0 =? 76)) eqn:EL.
    - assert (c0 <> 0). { intros ->. discriminate. }
      assert (0 <> n) by tauto.
      destruct (cstring_rd s n 1 Hs ltac:(lia)) as [c1 [R1 _]]. unfold rdr. rewrite R1. cbn [bind].
      eexists. split; [reflexivity|]. intros _. lia.
    - eexists. split; [reflexivity|discriminate]. }
  destruct ISL as [isl [EI LI]]. rewrite EI. cbn [bind].
  destruct isl. { eexists. split; [reflexivity|]. split; [intros _; apply LI; reflexivity|intros e; discriminate]. }
  destruct (type_match_ok chk s n 0 "group" 2 Hs Hb He eq_refl ltac:(lia)) as [g [Eg Bg]]. rewrite Eg. cbn [bind].
  destruct g as [e|]; eexists; (split; [reflexivity|]); (split; [discriminate|]).
  - intros e' [= <-]. destruct (Bg e eq_refl). lia.
  - intros e'; discriminate.
Qed.

Lemma lcache_finish_ok chk s n t d ct suffix : cstring s n -> bytes_ok s -> (chk = true \/ no_e0 s) -> suffix <= n ->
  exists r, lcache_finish chk s t d ct suffix = Ok r.
Proof.
  intros Hs Hb He Hp. unfold lcache_finish.
  destruct (type_match_ok chk s n suffix "cache" 0 Hs Hb He eq_refl Hp) as [m [Em _]]. rewrite Em. cbn [bind].
  destruct m; eexists; reflexivity.
Qed.

Lemma lcache_branch_ok chk s n : cstring s n -> bytes_ok s -> (chk = true \/ no_e0 s) -> 1 <= n ->
  exists r, lcache_branch chk s = Ok r.
Proof.
  intros Hs Hb He H1. unfold lcache_branch.
  destruct (strtol_ok s n 1 10 Hs H1) as [v [e [Ev He']]]. rewrite Ev. cbn [bind fst snd].
  destruct (cstring_rd s n e Hs ltac:(lia)) as [ce [Re Ze]]. unfold rdr. rewrite Re. cbn [bind].
  assert (NZ : forall x, x <> 0 -> ce = x -> N.succ e <= n).
  { intros x Hx ->. assert (e <> n) by tauto. lia. }
  assert (Q : forall a b, (ce =? a) || (ce =? b) = true -> a <> 0 -> b <> 0 -> N.succ e <= n).
  { intros a b H Ha Hb'. apply orb_true_iff in H. destruct H as [H|H]; apply N.eqb_eq in H; [exact (NZ a Ha H)|exact (NZ b Hb' H)]. }
  destruct ((ce =? 105) || (ce =? 73)) eqn:Ei.
  { destruct ((1 <=? to_unsigned v) && (to_unsigned v <=? 3)); [|eexists; reflexivity].
    apply (lcache_finish_ok chk s n); auto. apply (Q 105 73 Ei); discriminate. }
  destruct ((1 <=? to_unsigned v) && (to_unsigned v <=? 5)); [|eexists; reflexivity].
  destruct ((ce =? 100) || (ce =? 68)) eqn:Ed.
  { apply (lcache_finish_ok chk s n); auto. apply (Q 100 68 Ed); discriminate. }
  destruct ((ce =? 117) || (ce =? 85)) eqn:Eu.
  { apply (lcache_finish_ok chk s n); auto. apply (Q 117 85 Eu); discriminate. }
  apply (lcache_finish_ok chk s n); auto. lia.
Qed.

Lemma group_branch_ok s n e : cstring s n -> e <= n -> exists r, group_branch s e = Ok r.
Proof.
  intros Hs He. unfold group_branch.
  destruct (cstring_rd s n e Hs He) as [c [Rc _]]. unfold rdr. rewrite Rc. cbn [bind].
  destruct (isdigit c); [|eexists; reflexivity].
  destruct (strtol_ok s n e 10 Hs He) as [v [e' [Ev _]]]. rewrite Ev. cbn [bind]. eexists; reflexivity.
Qed.

(* hwloc_type_sscanf returns 0 or -1 and never reads outside its arguments *)
Lemma type_sscanf_total_gen chk s n asz : cstring s n -> bytes_ok s -> (chk = true \/ no_e0 s) ->
  exists r, type_sscanf chk s asz = Ok r.
Proof.
  intros Hs Hb He. unfold type_sscanf, type_sscanf_vals.
  destruct (sscanf_phase_ok chk s n Hs Hb He) as [ph [Ep [PL PG]]]. rewrite Ep. cbn [bind].
  destruct ph as [v| |e|].
  - cbn [bind]. eexists; reflexivity.
  - destruct (lcache_branch_ok chk s n Hs Hb He (PL eq_refl)) as [r Er]. rewrite Er. cbn [bind]. destruct r; eexists; reflexivity.
  - destruct (group_branch_ok s n e Hs (PG e eq_refl)) as [r Er]. rewrite Er. cbn [bind]. destruct r; eexists; reflexivity.
  - cbn [bind]. eexists; reflexivity.
Qed.

(* ================================================================== *)
(* statements used by Props/Properties_C11.v *)

(* the hand-written if-chain against what the C function answered on the dictionary *)
Definition dict_ok (chk : bool) (e : string * Z * N * Z * Z) : bool :=
  let '(s, r, t, a1, a2) := e in
  match sscanf_canon (type_sscanf chk (cstr s) (Some SIZEOF_ATTR_UNION)) with
  | Some (r', t', a1', a2') => (r =? r')%Z && (t =? t') && (a1 =? a1')%Z && (a2 =? a2')%Z
  | None => false
  end.
(* the dictionary has no byte 0xE0: both variants of hwloc__type_match answer the same *)
Lemma dict_agrees : forallb (fun e => dict_ok false e && dict_ok true e) type_sscanf_dict_tbl = true.
Proof. vm_compute. reflexivity. Qed.
Lemma dict_agrees_chk chk : forallb (dict_ok chk) type_sscanf_dict_tbl = true.
Proof.
  pose proof dict_agrees as H. rewrite forallb_forall in *. intros e He. specialize (H e He).
  apply andb_true_iff in H. destruct H as [H1 H2]. destruct chk; assumption.
Qed.

(* names[] holds exactly the seven HWLOC_OBJ_OSDEV_* bits, each once *)
Lemma names_cover_osdev_bits :
  osdev_known_mask = N.lor HWLOC_OBJ_OSDEV_STORAGE (N.lor HWLOC_OBJ_OSDEV_MEMORY (N.lor HWLOC_OBJ_OSDEV_GPU
     (N.lor HWLOC_OBJ_OSDEV_COPROC (N.lor HWLOC_OBJ_OSDEV_NETWORK (N.lor HWLOC_OBJ_OSDEV_OPENFABRICS HWLOC_OBJ_OSDEV_DMA)))))
  /\ NoDup (map osdev_bit osdev_names_tbl) /\ length osdev_names_tbl = 7%nat.
Proof.
  split; [vm_compute; reflexivity|]. split; [|reflexivity].
  vm_compute. repeat (constructor; [cbn; intros H; repeat destruct H as [H|H]; try discriminate H; try exact H|]). constructor.
Qed.

(* hwloc_obj_type_string(t) parses back to t, every type *)
Definition type_string_ok (chk : bool) (t : N) : bool :=
  match type_sscanf chk (cstr (obj_type_string t)) (Some SIZEOF_ATTR_UNION) with
  | Ok (Some (t', _)) => t' =? t
  | _ => false
  end.
Lemma type_string_roundtrip_all : forallb (fun t => type_string_ok false t && type_string_ok true t) all_types = true.
Proof. vm_compute. reflexivity. Qed.
Lemma type_string_roundtrip_lemma chk t : t < HWLOC_OBJ_TYPE_MAX -> type_string_ok chk t = true.
Proof.
  intros Ht. pose proof (forall_types _ type_string_roundtrip_all t Ht) as H.
  apply andb_true_iff in H. destruct H as [H1 H2]. destruct chk; assumption.
Qed.

(* ---- the OS-device loop on the code as it is (while) ---- *)
Definition UNKNOWN_BIT_WORD : N := 4096.        (* XML osdev_type="4096" *)
Lemma osdev_loop_witness :
  UNKNOWN_BIT_WORD <= Strto.ULONG_MAX /\
  (forall longn c acc, osdev_pass longn (UNKNOWN_BIT_WORD, c, acc) = (UNKNOWN_BIT_WORD, c, acc)) /\
  (forall fuel longn c acc, osdev_while fuel longn (UNKNOWN_BIT_WORD, c, acc) = None) /\
  (forall flags, flag_set flags HWLOC_OBJ_SNPRINTF_FLAG_SHORT_NAMES = false ->
     type_snprintf_pieces_gen true (mk HWLOC_OBJ_OS_DEVICE 0 0 0 0 0 UNKNOWN_BIT_WORD) flags = PrLoop).
Proof.
  split; [vm_compute; discriminate|]. split; [|split].
  - intros longn c acc. apply osdev_pass_state_repeats. reflexivity.
  - intros fuel longn c acc. apply osdev_while_stuck; [discriminate|reflexivity].
  - intros flags Hs. unfold type_snprintf_pieces_gen. cbn [to_type mk to_os].
    change (tcache HWLOC_OBJ_OS_DEVICE) with false. rewrite Hs.
    replace ((HWLOC_OBJ_OS_DEVICE =? HWLOC_OBJ_MISC) || (HWLOC_OBJ_OS_DEVICE =? HWLOC_OBJ_MACHINE) || (HWLOC_OBJ_OS_DEVICE =? HWLOC_OBJ_NUMANODE)
           || (HWLOC_OBJ_OS_DEVICE =? HWLOC_OBJ_MEMCACHE) || (HWLOC_OBJ_OS_DEVICE =? HWLOC_OBJ_PACKAGE) || (HWLOC_OBJ_OS_DEVICE =? HWLOC_OBJ_DIE)
           || (HWLOC_OBJ_OS_DEVICE =? HWLOC_OBJ_CORE) || (HWLOC_OBJ_OS_DEVICE =? HWLOC_OBJ_PU)) with false by reflexivity.
    change (HWLOC_OBJ_OS_DEVICE =? HWLOC_OBJ_GROUP) with false. change (HWLOC_OBJ_OS_DEVICE =? HWLOC_OBJ_BRIDGE) with false.
    change (HWLOC_OBJ_OS_DEVICE =? HWLOC_OBJ_PCI_DEVICE) with false. rewrite N.eqb_refl. cbv iota.
    apply osdev_normal_unknown_loops. vm_compute. discriminate.
Qed.

(* ---- hwloc__type_match on the code as it is ---- *)
Definition E0_WITNESS : list N := [112; 117; 224; 224; 0].      (* "pu\xE0\xE0" *)
Lemma sscanf_e0_witness :
  cstring E0_WITNESS 4 /\ bytes_ok E0_WITNESS /\ type_sscanf false E0_WITNESS (Some SIZEOF_ATTR_UNION) = Oob
  /\ type_sscanf true E0_WITNESS (Some SIZEOF_ATTR_UNION) = Ok (Some (HWLOC_OBJ_PU, AWnone)).
Proof.
  split; [|split; [|split; vm_compute; reflexivity]].
  - split; [reflexivity|]. intros k Hk.
    assert (C : k = 0 \/ k = 1 \/ k = 2 \/ k = 3) by lia.
    repeat destruct C as [-> | C]; try subst k; eexists; (split; [reflexivity|discriminate]).
  - unfold bytes_ok, E0_WITNESS. repeat constructor.
Qed.

(* ---- the attribute printer when an I/O object carries memory (never after load) ---- *)
Definition IO_MEMORY_WITNESS : aobj :=
  AO HWLOC_OBJ_PCI_DEVICE 1048576 0 0 0 0 0 0 0 0 0 0 0 2 0 32902 4307 512 false [] [].
Lemma attr_io_memory_witness :
  exists st, attr_snprintf (repeat 170 96) IO_MEMORY_WITNESS [32] HWLOC_OBJ_SNPRINTF_FLAG_MORE_ATTRS = PrOk (Some st)
    /\ ps_ret st = 65%nat /\ nth 52 (ps_buf st) 1 = 0 /\ ~ In 0 (firstn 52 (ps_buf st)).   (* returns 65, the text has 52 bytes *)
Proof.
  eexists. split; [vm_compute; reflexivity|]. split; [reflexivity|]. split; [reflexivity|].
  vm_compute. intros H. repeat destruct H as [H|H]; try discriminate H; exact H.
Qed.

Lemma roundtrip_osdev_lemma chk loop o flags :
  to_type o = HWLOC_OBJ_OS_DEVICE -> to_os o <= osdev_known_mask ->
  N.land flags HWLOC_OBJ_SNPRINTF_FLAG_SHORT_NAMES = 0 -> roundtrip_ok chk loop o flags = true.
Proof.
  intros Ht Hw Hf. apply (roundtrip_lift chk loop o (mk HWLOC_OBJ_OS_DEVICE 0 0 0 0 0 (to_os o)) flags).
  - apply in_rt_osdev, Hw.
  - exact Ht.
  - unfold tkey. rewrite Ht. reflexivity.
  - exact Hf.
Qed.

Lemma type_text_function_lemma loop o1 o2 flags : to_type o1 = to_type o2 -> tkey o1 = tkey o2 ->
  type_snprintf_pieces_gen loop o1 flags = type_snprintf_pieces_gen loop o2 flags /\
  forall init, type_snprintf_gen loop init o1 flags = type_snprintf_gen loop init o2 flags.
Proof.
  intros Ht Hk. pose proof (type_pieces_function_of_key loop o1 o2 flags Ht Hk) as E. split; [exact E|].
  intros init. unfold type_snprintf_gen. now rewrite E.
Qed.

(* ================================================================== *)
(* hwloc_pci_class_string: every class id gives a name that fits the attribute text *)
Definition class_name_ok (n : string) : bool :=
  let b := bytes_of_string n in
  negb (Nat.eqb (List.length b) 0) && Nat.leb (List.length b) 27 &&
  forallb (fun c => (33 <=? c) && (c <=? 126) && negb (c =? 40) && negb (c =? 41)) b.
Definition all_class_names : list string :=
  "Other"%string :: flat_map (fun e => (match snd (fst e) with Some d => [d] | None => [] end) ++ map snd (snd e)) pci_class_names.
Lemma pci_class_string_in c : In (pci_class_string c) all_class_names.
Proof.
  unfold pci_class_string, all_class_names.
  destruct (find _ pci_class_names) as [[[b d] sp]|] eqn:F; [|left; reflexivity].
  apply find_some in F. destruct F as [Hin _].
  destruct (find _ sp) as [[c' n]|] eqn:F2.
  - right. apply in_flat_map. exists (b, d, sp). split; [exact Hin|]. cbn [fst snd].
    apply find_some in F2. destruct F2 as [Hin2 _]. apply in_or_app. right.
    apply in_map_iff. exists (c', n). split; [reflexivity|exact Hin2].
  - destruct d as [n|]; [|left; reflexivity].
    right. apply in_flat_map. exists (b, Some n, sp). split; [exact Hin|]. cbn [fst snd].
    apply in_or_app. left. left. reflexivity.
Qed.
Lemma all_class_names_ok : forallb class_name_ok all_class_names = true.
Proof. vm_compute. reflexivity. Qed.
(* for every class id (0..65535 and beyond): 1..27 printable bytes, no blank, no parenthesis *)
Lemma pci_class_string_wellformed c : class_name_ok (pci_class_string c) = true.
Proof. pose proof all_class_names_ok as H. rewrite forallb_forall in H. apply H, pci_class_string_in. Qed.

(* ================================================================== *)
(* memory tier names *)
Definition tier_canon (t : N) : N := if t =? TIER_CXL then N.lor TIER_CXL TIER_DRAM else t.
Lemma tier_names_roundtrip_all :
  forallb (fun e => match tier_type_sscanf (cstr (snd e)) with
                    | Ok v => (v =? tier_canon (fst e)) &&
                              match tier_type_snprintf v with Some n => String.eqb n (snd e) | None => false end
                    | Oob => false end) tier_names = true.
Proof. vm_compute. reflexivity. Qed.
(* every name the printer can return is accepted, gives back the value (CXL alone is printed as, and parsed to,
   CXL|DRAM) and prints as the same name again *)
Lemma tier_roundtrip t n : tier_type_snprintf t = Some n ->
  tier_type_sscanf (cstr n) = Ok (tier_canon t) /\ tier_type_snprintf (tier_canon t) = Some n.
Proof.
  unfold tier_type_snprintf at 1. destruct (find _ tier_names) as [[t' n']|] eqn:F; [|discriminate].
  intros [= <-]. apply find_some in F. destruct F as [Hin Ht]. cbn [fst] in Ht. apply N.eqb_eq in Ht. subst t'.
  pose proof tier_names_roundtrip_all as H. rewrite forallb_forall in H. specialize (H (t, n') Hin). cbn [fst snd] in H.
  destruct (tier_type_sscanf (cstr n')) as [v|]; [|discriminate].
  apply andb_true_iff in H. destruct H as [Hv Hn]. apply N.eqb_eq in Hv. subst v. split; [reflexivity|].
  destruct (tier_type_snprintf (tier_canon t)) as [m|]; [|discriminate]. apply String.eqb_eq in Hn. now subst m.
Qed.
(* what the parser returns is 0 or a value the printer names *)
Lemma tier_keywords_printable : forallb (fun e => match tier_type_snprintf (snd e) with Some _ => true | None => false end) tier_keywords = true.
Proof. vm_compute. reflexivity. Qed.
Lemma tier_chain_ok s n : cstring s n -> forall kws, forallb (fun e => lit_ok (fst e)) kws = true ->
  exists v, tier_sscanf_chain s kws = Ok v /\ (v = 0 \/ In v (map snd kws)).
Proof.
  intros Hs. induction kws as [|[k v] r IH]; intros H; cbn [tier_sscanf_chain].
  - eexists. split; [reflexivity|left; reflexivity].
  - cbn [forallb fst] in H. apply andb_true_iff in H. destruct H as [Hk Hr].
    pose proof (lit_ok_no_nul k Hk) as Hn.
    assert (Hc : cstring (cstr k) (len (bytes_of_string k))) by (unfold cstr; apply (cstring_app _ [] Hn)).
    unfold strcasecmp_eq.
    pose proof (strncmp_f_ok tolower (S (List.length (bytes_of_string k))) s n 0 (cstr k) (len (bytes_of_string k)) 0
                  fold_ok_tolower Hs Hc ltac:(lia) ltac:(lia)) as Hok.
    destruct (strncmp_f tolower (S (List.length (bytes_of_string k))) s 0 (cstr k) 0) as [o|]; [|congruence].
    cbn [cmp_eq bind]. destruct o.
    + destruct (IH Hr) as [v' [E [Z|I]]]; exists v'; (split; [exact E|]); [left; exact Z|right; right; exact I].
    + eexists. split; [reflexivity|]. right. left. reflexivity.
Qed.
Lemma tier_sscanf_total s n : cstring s n ->
  exists v, tier_type_sscanf s = Ok v /\ (v = 0 \/ exists name, tier_type_snprintf v = Some name).
Proof.
  intros Hs. destruct (tier_chain_ok s n Hs tier_keywords eq_refl) as [v [E H]]. exists v. split; [exact E|].
  destruct H as [Z|I]; [left; exact Z|right].
  apply in_map_iff in I. destruct I as [[k v'] [Ev Hin]]. cbn [snd] in Ev. subst v'.
  pose proof tier_keywords_printable as P. rewrite forallb_forall in P. specialize (P (k, v) Hin). cbn [snd] in P.
  destruct (tier_type_snprintf v) as [m|]; [eexists; reflexivity|discriminate].
Qed.

(* ================================================================== *)
(* hwloc_get_type_depth_with_attr / hwloc_type_sscanf_as_depth *)
Lemma find_group_level_first : forall levels wanted k l0,
  nth_error levels k = Some (HWLOC_OBJ_GROUP, wanted) ->
  (forall j, (j < k)%nat -> nth_error levels j <> Some (HWLOC_OBJ_GROUP, wanted)) ->
  find_group_level levels wanted l0 = (l0 + Z.of_nat k)%Z.
Proof.
  induction levels as [|[t gd] r IH]; intros wanted k l0 Hk Hfirst; [destruct k; discriminate|].
  cbn [find_group_level]. destruct k as [|k].
  - cbn in Hk. injection Hk as -> ->. rewrite !N.eqb_refl. cbn [andb]. lia.
  - destruct ((t =? HWLOC_OBJ_GROUP) && (gd =? wanted)) eqn:E.
    + exfalso. apply andb_true_iff in E. destruct E as [E1 E2]. apply N.eqb_eq in E1, E2. subst.
      apply (Hfirst 0%nat); [lia|reflexivity].
    + rewrite (IH wanted k (l0 + 1)%Z); [lia|exact Hk|].
      intros j Hj. apply (Hfirst (S j)). lia.
Qed.
Lemma find_group_level_none : forall levels wanted l0,
  (forall j, nth_error levels j <> Some (HWLOC_OBJ_GROUP, wanted)) ->
  find_group_level levels wanted l0 = HWLOC_TYPE_DEPTH_UNKNOWN.
Proof.
  induction levels as [|[t gd] r IH]; intros wanted l0 H; [reflexivity|]. cbn [find_group_level].
  destruct ((t =? HWLOC_OBJ_GROUP) && (gd =? wanted)) eqn:E.
  - exfalso. apply andb_true_iff in E. destruct E as [E1 E2]. apply N.eqb_eq in E1, E2. subst. apply (H 0%nat). reflexivity.
  - apply IH. intros j. apply (H (S j)).
Qed.

(* unless (Group, several Group levels, a depth given in a full-size attribute): plain hwloc_get_type_depth *)
Lemma depth_with_attr_plain levels tdepths t attr asz :
  t <> HWLOC_OBJ_GROUP \/ get_type_depth tdepths t <> HWLOC_TYPE_DEPTH_MULTIPLE \/ attr = None \/ attr = Some NEG1U \/ asz < SIZEOF_ATTR_UNION ->
  get_type_depth_with_attr levels tdepths t attr asz = get_type_depth tdepths t.
Proof.
  intros H. unfold get_type_depth_with_attr.
  destruct (N.ltb_spec asz SIZEOF_ATTR_UNION) as [L|L]; [reflexivity|].
  destruct attr as [gd|]; [|reflexivity].
  destruct (N.eqb_spec t HWLOC_OBJ_GROUP) as [Et|Et]; [|reflexivity].
  destruct (Z.eqb_spec (get_type_depth tdepths t) HWLOC_TYPE_DEPTH_MULTIPLE) as [Ed|Ed]; [|reflexivity].
  destruct (N.eqb_spec gd NEG1U) as [Eg|Eg]; [reflexivity|].
  exfalso. destruct H as [H|[H|[H|[H|H]]]]; try congruence. lia.
Qed.

(* the text "Group<gd>" printed for the level k of Groups of depth gd designates level k, when no other level
   holds Groups of that depth (hwloc gives each Group level its own depth) *)
Lemma group_text_finds_its_level chk levels tdepths gd k :
  get_type_depth tdepths HWLOC_OBJ_GROUP = HWLOC_TYPE_DEPTH_MULTIPLE ->
  gd < UINT_MAX ->
  nth_error levels k = Some (HWLOC_OBJ_GROUP, gd) ->
  (forall j, nth_error levels j = Some (HWLOC_OBJ_GROUP, gd) -> j = k) ->
  type_sscanf_as_depth chk levels tdepths ((GROUP_TXT ++ dec gd) ++ [0]) = Ok (Some (HWLOC_OBJ_GROUP, Z.of_nat k)).
Proof.
  intros Hm Hgd Hk Hu. unfold type_sscanf_as_depth. rewrite (group_sscanf chk gd) by lia. cbn [bind sv_type sv_depth].
  unfold get_type_depth_with_attr. rewrite N.ltb_irrefl, Hm, N.eqb_refl. change (HWLOC_TYPE_DEPTH_MULTIPLE =? HWLOC_TYPE_DEPTH_MULTIPLE)%Z with true.
  assert (E : gd =? NEG1U = false) by (apply N.eqb_neq; unfold NEG1U; lia). rewrite E. cbn [andb negb].
  rewrite (find_group_level_first levels gd k 0 Hk); [reflexivity|].
  intros j Hj Hc. specialize (Hu j Hc). lia.
Qed.

(* totality: the error of hwloc_type_sscanf or (type, depth); never a read outside the string *)
Lemma type_sscanf_vals_total chk s n : cstring s n -> bytes_ok s -> (chk = true \/ no_e0 s) ->
  exists r, type_sscanf_vals chk s = Ok r.
Proof.
  intros Hs Hb He. unfold type_sscanf_vals.
  destruct (sscanf_phase_ok chk s n Hs Hb He) as [ph [Ep [PL PG]]]. rewrite Ep. cbn [bind].
  destruct ph as [v| |e|].
  - eexists; reflexivity.
  - apply (lcache_branch_ok chk s n Hs Hb He (PL eq_refl)).
  - apply (group_branch_ok s n e Hs (PG e eq_refl)).
  - eexists; reflexivity.
Qed.
Lemma type_sscanf_as_depth_total chk levels tdepths s n : cstring s n -> bytes_ok s -> (chk = true \/ no_e0 s) ->
  exists r, type_sscanf_as_depth chk levels tdepths s = Ok r.
Proof.
  intros Hs Hb He. unfold type_sscanf_as_depth.
  destruct (type_sscanf_vals_total chk s n Hs Hb He) as [r E]. rewrite E. cbn [bind]. destruct r; eexists; reflexivity.
Qed.
