(* C18 model: the two sysfs set parsers of hwloc/topology-linux.c over checked
   byte strings, the kernel-side printers they are meant to invert, and the
   executable "disallowed view" relation between two topology dumps.

   hwloc__read_fd() returns the file content followed by one NUL in a block of
   at least that size: the model takes the block to be exactly [content ++ [0]]
   (the strictest block: any read past the terminator is Oob).  A content
   holding a NUL byte is thus a C string ending at that byte, as in C.

   hwloc__read_path_as_cpumask (topology-linux.c:764)
     while (sscanf(tmpbuf, "%lx", &map) == 1) {
       [realloc of maps[]: irrelevant to the value]
       tmpbuf = strchr(tmpbuf, ',');
       if (!tmpbuf) { maps[nr_maps++] = map; break; } else tmpbuf++;
       if (!map && !nr_maps) continue;          -- leading zero words are dropped
       maps[nr_maps++] = map;
     }
     for (i = 0; i < (nr_maps+1)/2; i++) {      -- KERNEL_CPU_MASK_BITS (32) != HWLOC_BITS_PER_LONG (64)
       mask = maps[nr_maps-2*i-1];
       if (2*i+1 < nr_maps) mask |= maps[nr_maps-2*i-2] << 32;
       hwloc_bitmap_set_ith_ulong(set, i, mask);
     }
   sscanf("%lx") of glibc = skip blanks, optional sign, optional 0x, hex digits,
   converted by strtoul(.., 16) (saturating, negation modulo 2^64); it returns 1
   iff strtoul converts something, EOF/0 otherwise.  The value is an unsigned
   long: a word wider than 32 bits (malformed file) overlaps its neighbour.

   hwloc__read_path_as_cpulist (topology-linux.c:894)
     hwloc_bitmap_fill(set); current = buffer; prevlast = -1;
     while (1) {
       comma = strchr(current, ','); if (comma) *comma = '\0';
       nextfirst = strtoul(current, &tmp, 0);                    -- int <- unsigned long
       if ( *tmp == '-') nextlast = strtoul(tmp+1, NULL, 0); else nextlast = nextfirst;
       if (prevlast+1 <= nextfirst-1) hwloc_bitmap_clr_range(set, prevlast+1, nextfirst-1);
       prevlast = nextlast;
       if (!comma) break;
       current = comma+1;
     }
     hwloc_bitmap_clr_range(set, prevlast+1, -1);
   int arithmetic: prevlast+1 with prevlast = INT_MAX and nextfirst-1 with
   nextfirst = INT_MIN are signed overflows (undefined behaviour, reported by
   UBSan): the model returns [SignedOverflow] there.  unsigned long -> int is the
   gcc conversion (modulo 2^32, two's complement). *)
From Coq Require Import List NArith ZArith Bool String.
From HV Require Import Base.BSet Base.Bytes Base.Strto Gen.Tables Topo.Dump.
Import ListNotations.
Local Open Scope N_scope.

Inductive outcome := Parsed (s : bset) | OutOfBounds | NoFuel | SignedOverflow.

Definition COMMA : N := 44.
Definition DASH : N := 45.
Definition NL : N := 10.
Definition TWO32 : N := 4294967296.

(* the block hwloc__read_fd hands to the parsers *)
Definition block (content : list N) : list N := content ++ [0].

(* ------------------------------------------------------------------ *)
(* cpumask                                                              *)

(* sscanf(s+i, "%lx", &map): Some value iff it returns 1 *)
Definition scan_lx (s : list N) (i : N) : res (option N) :=
  let* r := strtoul s i 16 in
  Ok (if snd r =? i then None else Some (fst r)).

(* maps[] newest first *)
Fixpoint mask_loop (fuel : nat) (s : list N) (i : N) (maps : list N) : res (option (list N)) :=
  match fuel with
  | O => Ok None
  | S f =>
      let* m := scan_lx s i in
      match m with
      | None => Ok (Some maps)
      | Some map =>
          let* c := strchr s i COMMA in
          match c with
          | None => Ok (Some (map :: maps))
          | Some j =>
              if (map =? 0) && (match maps with [] => true | _ => false end)
              then mask_loop f s (N.succ j) maps
              else mask_loop f s (N.succ j) (map :: maps)
          end
      end
  end.

(* the 64-bit words, least significant first, from maps[] newest first *)
Fixpoint words_of_maps (l : list N) : list N :=
  match l with
  | [] => []
  | [a] => [a]
  | a :: b :: tl => N.lor a ((N.shiftl b 32) mod TWO64) :: words_of_maps tl
  end.
Fixpoint N_of_words (ws : list N) : N :=
  match ws with [] => 0 | w :: tl => w + TWO64 * N_of_words tl end.

Definition cpumask_parse (content : list N) : outcome :=
  match mask_loop (S (List.length content)) (block content) 0 [] with
  | Oob => OutOfBounds
  | Ok None => NoFuel
  | Ok (Some maps) => Parsed (bs_of_N (N_of_words (words_of_maps maps)))
  end.

(* ------------------------------------------------------------------ *)
(* cpulist                                                              *)

Definition INT_MAX : Z := 2147483647.
Definition INT_MIN : Z := (-2147483648)%Z.
(* (int) of an unsigned long *)
Definition to_int (v : N) : Z :=
  let m := v mod TWO32 in if m <? 2147483648 then Z.of_N m else (Z.of_N m - 4294967296)%Z.
(* (unsigned) of an int *)
Definition to_uint (z : Z) : N := Z.to_N (z mod 4294967296)%Z.

(* *p = b inside the block *)
Definition upd (s : list N) (i : N) (b : N) : list N :=
  firstn (N.to_nat i) s ++ b :: skipn (S (N.to_nat i)) s.

(* hwloc_bitmap_clr_range(set, begincpu, _endcpu) on the abstract set
   (bitmap.c:996; the reallocations are assumed to succeed) *)
Definition clr_range (set : bset) (begincpu : N) (endcpu_ : Z) : bset :=
  let endcpu := to_uint endcpu_ in
  if endcpu <? begincpu then set
  else if (endcpu_ =? -1)%Z then bs_diff set (bs_from begincpu)
  else bs_diff set (bs_range begincpu (endcpu - begincpu + 1)).

Fixpoint cpulist_loop (fuel : nat) (s : list N) (current : N) (prevlast : Z) (set : bset) : outcome :=
  match fuel with
  | O => NoFuel
  | S f =>
    match strchr s current COMMA with
    | Oob => OutOfBounds
    | Ok comma =>
      let s1 := match comma with Some j => upd s j 0 | None => s end in
      match strtoul s1 current 0 with
      | Oob => OutOfBounds
      | Ok (v, tmp) =>
        let nextfirst := to_int v in
        match rdr s1 tmp with
        | Oob => OutOfBounds
        | Ok c =>
          match (if c =? DASH
                 then match strtoul s1 (N.succ tmp) 0 with Oob => None | Ok (v2, _) => Some (to_int v2) end
                 else Some nextfirst) with
          | None => OutOfBounds
          | Some nextlast =>
            if (prevlast =? INT_MAX)%Z || (nextfirst =? INT_MIN)%Z then SignedOverflow
            else
              let set1 := if (prevlast + 1 <=? nextfirst - 1)%Z
                          then clr_range set (to_uint (prevlast + 1)) (nextfirst - 1) else set in
              match comma with
              | None =>
                  if (nextlast =? INT_MAX)%Z then SignedOverflow
                  else Parsed (clr_range set1 (to_uint (nextlast + 1)) (-1))
              | Some j => cpulist_loop f s1 (N.succ j) nextlast set1
              end
          end
        end
      end
    end
  end.

Definition cpulist_parse (content : list N) : outcome :=
  cpulist_loop (S (List.length content)) (block content) 0 (-1)%Z bs_full.

(* ------------------------------------------------------------------ *)
(* the kernel's printers ("%*pb\n" and "%*pbl\n" of lib/vsprintf.c)     *)

Definition hexc (d : N) : N := if d <? 10 then 48 + d else 87 + d.
Fixpoint hex_fixed (k : nat) (v : N) : list N :=
  match k with O => [] | S k' => hex_fixed k' (v / 16) ++ [hexc (v mod 16)] end.
(* one 32-bit chunk: %08x *)
Definition print_chunk (w : N) : list N := hex_fixed 8 w.
(* n chunks of f, most significant first, comma separated (n >= 1) *)
Fixpoint print_chunks (n : nat) (f : N) : list N :=
  match n with
  | O => []
  | S O => print_chunk (f mod TWO32)
  | S k => print_chunk ((f / TWO32 ^ N.of_nat k) mod TWO32) ++ [COMMA] ++ print_chunks k f
  end.
Definition print_cpumask (nchunks : nat) (f : N) : list N := print_chunks nchunks f ++ [NL].

Fixpoint dec_fixed (k : nat) (v : N) : list N :=
  match k with O => [] | S k' => dec_fixed k' (v / 10) ++ [48 + v mod 10] end.
Fixpoint strip0 (l : list N) : list N :=
  match l with
  | [] => []
  | [d] => [d]
  | d :: t => if d =? 48 then strip0 t else l
  end.
(* %u *)
Definition dec (v : N) : list N := strip0 (dec_fixed (S (N.to_nat (N.size v))) v).

(* maximal runs [a,b] of a finite set, ascending; [cur] is the run being grown *)
Fixpoint runs_from (bits : nat) (i : N) (f : N) (cur : option (N * N)) : list (N * N) :=
  match bits with
  | O => match cur with Some r => [r] | None => [] end
  | S k =>
      if N.testbit f i
      then runs_from k (N.succ i) f (match cur with Some (a, _) => Some (a, i) | None => Some (i, i) end)
      else match cur with Some r => r :: runs_from k (N.succ i) f None | None => runs_from k (N.succ i) f None end
  end.
Definition runs (f : N) : list (N * N) := runs_from (N.to_nat (N.size f)) 0 f None.
Definition print_run (r : N * N) : list N :=
  if fst r =? snd r then dec (fst r) else dec (fst r) ++ [DASH] ++ dec (snd r).
Fixpoint join_runs (l : list (N * N)) : list N :=
  match l with
  | [] => []
  | [r] => print_run r
  | r :: tl => print_run r ++ [COMMA] ++ join_runs tl
  end.
Definition print_cpulist (f : N) : list N := join_runs (runs f) ++ [NL].

(* ------------------------------------------------------------------ *)
(* INCLUDE_DISALLOWED view against the default view of the same source  *)

Definition viol := (string * N)%type.
Definition has_obj (d : dump) (ty os : N) : bool :=
  existsb (fun o => (o_type o =? ty) && (o_os o =? os)) (t_objs d).
Definition root_cs (d : dump) : option bset := match t_objs d with o :: _ => o_cs o | [] => None end.
Definition root_nds (d : dump) : option bset := match t_objs d with o :: _ => o_nds o | [] => None end.
Definition opt_bs_eqb (a b : option bset) : bool :=
  match a, b with Some x, Some y => bs_eqb x y | None, None => true | _, _ => false end.

Definition missing (ty : N) (name : string) (dflt incl : dump) : list viol :=
  flat_map (fun o => if (o_type o =? ty) && negb (has_obj incl ty (o_os o)) then [(name, o_os o)] else [])
           (t_objs dflt).

Definition disallowed_check (dflt incl : dump) : list viol :=
  missing HWLOC_OBJ_PU "pu-missing" dflt incl ++
  missing HWLOC_OBJ_NUMANODE "numa-missing" dflt incl ++
  (if opt_bs_eqb (t_acpu incl) (root_cs dflt) then [] else [("allowed-cpuset"%string, 0)]) ++
  (if opt_bs_eqb (t_anode incl) (root_nds dflt) then [] else [("allowed-nodeset"%string, 0)]).

(* the Prop it decides *)
Definition contains_all (ty : N) (dflt incl : dump) : Prop :=
  forall o, In o (t_objs dflt) -> o_type o = ty ->
  exists o', In o' (t_objs incl) /\ o_type o' = ty /\ o_os o' = o_os o.
Definition disallowed_view (dflt incl : dump) : Prop :=
  contains_all HWLOC_OBJ_PU dflt incl /\ contains_all HWLOC_OBJ_NUMANODE dflt incl /\
  t_acpu incl = root_cs dflt /\ t_anode incl = root_nds dflt.
