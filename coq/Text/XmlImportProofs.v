(* What acceptance by the importer model guarantees about the object tree handed to the core. *)
From Coq Require Import String NArith ZArith List Bool Lia.
From HV Require Import Base.Bytes Base.BSet Gen.Tables Text.TypeOrder Text.XmlImport.
Import ListNotations.
Local Open Scope N_scope.

(* ---------- the structural clauses, as an executable predicate over the accepted tree ---------- *)
(* kind rules between a child type and the type of the object it hangs below *)
Definition kind_legal (p t : N) : bool :=
  negb (t =? HWLOC_OBJ_MACHINE) && negb ((p =? HWLOC_OBJ_PU) && is_normal t) &&
  (if is_normal t then is_normal p
   else if is_memory t then negb (is_io p || (p =? HWLOC_OBJ_MISC))
   else if is_io t then negb (is_memory p || (p =? HWLOC_OBJ_MISC))
   else true).

Definition none {A} (o : option A) : bool := match o with None => true | Some _ => false end.

Definition node_okb (parent : option N) (t : N) (o : ost) : bool :=
  (match parent with None => t =? HWLOC_OBJ_MACHINE | Some p => kind_legal p t end) &&
  (if is_special t then none (o_cs o) && none (o_ns o) && none (o_ccs o) && none (o_cns o)
   else negb (none (o_cs o)) && negb (none (o_ns o))) &&
  (negb (is_cache t) || match cache_type_by_depth_type (o_cdepth o) (o_ctype o) with Some c => c =? t | None => false end) &&
  (negb (t =? HWLOC_OBJ_PU) || singleton_at (o_cs o) (o_os o)) &&
  (negb (t =? HWLOC_OBJ_NUMANODE) || singleton_at (o_ns o) (o_os o)) &&
  (negb (t =? HWLOC_OBJ_BRIDGE) || (((o_bup o =? HWLOC_OBJ_BRIDGE_HOST) || (o_bup o =? HWLOC_OBJ_BRIDGE_PCI)) && (o_bdown o =? HWLOC_OBJ_BRIDGE_PCI))).

Fixpoint tree_okb (parent : option N) (t : tree) : bool :=
  match t with
  | T ty o kids =>
    node_okb parent ty o &&
    (negb (ty =? HWLOC_OBJ_MEMCACHE) || existsb (fun k => is_memory (t_type k)) kids) &&
    forallb (tree_okb (Some ty)) kids
  end.

(* ---------- the checks establish the node clauses ---------- *)
Lemma die_kinds : is_normal HWLOC_OBJ_DIE = true /\ is_normal HWLOC_OBJ_GROUP = true.
Proof. split; reflexivity. Qed.

Lemma checks_sound parent psets o t t' : checks parent psets o t = Some t' -> node_okb parent t' o = true.
Proof.
  unfold checks.
  set (conv := (t =? HWLOC_OBJ_GROUP) && ((o_gkind o =? HWLOC_GROUP_KIND_INTEL_DIE) || match o_subtype o with Some s => beq s "Die" | None => false end)).
  destruct (match parent with None => negb (t =? HWLOC_OBJ_MACHINE) | Some _ => t =? HWLOC_OBJ_MACHINE end) eqn:E1; [discriminate|].
  destruct (match parent with None => false | Some p => _ end) eqn:E2; [discriminate|].
  set (t2 := if conv then HWLOC_OBJ_DIE else t).
  destruct (is_cache t2 && negb _) eqn:E3; [discriminate|].
  destruct ((match o_cs o with None => true | Some _ => false end || match o_ns o with None => true | Some _ => false end) && negb (is_special t2)) eqn:E4; [discriminate|].
  destruct ((_ || _ || _ || _) && is_special t2) eqn:E5; [discriminate|].
  destruct ((t2 =? HWLOC_OBJ_PU) && _) eqn:E6; [discriminate|].
  destruct ((t2 =? HWLOC_OBJ_NUMANODE) && _) eqn:E7; [discriminate|].
  destruct ((t2 =? HWLOC_OBJ_BRIDGE) && _) eqn:E8; [discriminate|].
  match goal with |- (if ?c then None else Some _) = Some _ -> _ => destruct c eqn:E9; [discriminate|] end.
  intros [= <-]. unfold node_okb.
  (* kind rule: the conversion Group -> Die stays inside the normal types *)
  assert (K : (match parent with None => t2 =? HWLOC_OBJ_MACHINE | Some p => kind_legal p t2 end) = true).
  { subst t2. destruct conv eqn:Ec.
    - unfold conv in Ec. apply andb_true_iff in Ec. destruct Ec as [Eg _]. apply N.eqb_eq in Eg. subst t.
      destruct parent as [p|]; [|discriminate E1].
      unfold kind_legal. change (is_normal HWLOC_OBJ_DIE) with true. change (HWLOC_OBJ_DIE =? HWLOC_OBJ_MACHINE) with false.
      change (is_normal HWLOC_OBJ_GROUP) with true in E2. cbn [negb andb] in *.
      apply orb_false_iff in E2. destruct E2 as [Ea Eb]. rewrite andb_true_r in Ea. rewrite Ea. cbn [negb andb].
      apply negb_false_iff in Eb. exact Eb.
    - destruct parent as [p|].
      + unfold kind_legal. rewrite E1. cbn [negb andb]. apply orb_false_iff in E2. destruct E2 as [Ea Eb]. rewrite Ea. cbn [negb andb].
        destruct (is_normal t); [apply negb_false_iff in Eb; exact Eb|].
        destruct (is_memory t); [rewrite Eb; reflexivity|].
        destruct (is_io t); [rewrite Eb; reflexivity|reflexivity].
      + apply negb_false_iff in E1. exact E1. }
  rewrite K. cbn [andb].
  assert (S : (if is_special t2 then none (o_cs o) && none (o_ns o) && none (o_ccs o) && none (o_cns o) else negb (none (o_cs o)) && negb (none (o_ns o))) = true).
  { unfold none. destruct (is_special t2).
    - rewrite andb_true_r in E5. destruct (o_cs o); [discriminate|]. destruct (o_ns o); [discriminate|]. destruct (o_ccs o); [discriminate|]. destruct (o_cns o); [discriminate|reflexivity].
    - cbn [negb] in E4. rewrite andb_true_r in E4. destruct (o_cs o); [|discriminate]. destruct (o_ns o); [reflexivity|discriminate]. }
  rewrite S. cbn [andb].
  assert (C : (negb (is_cache t2) || match cache_type_by_depth_type (o_cdepth o) (o_ctype o) with Some c => c =? t2 | None => false end) = true).
  { destruct (is_cache t2); [|reflexivity]. cbn [andb negb orb] in *. apply negb_false_iff in E3. exact E3. }
  rewrite C. cbn [andb].
  assert (P : (negb (t2 =? HWLOC_OBJ_PU) || singleton_at (o_cs o) (o_os o)) = true).
  { destruct (t2 =? HWLOC_OBJ_PU); [|reflexivity]. cbn [andb negb orb] in *. apply negb_false_iff in E6. exact E6. }
  rewrite P. cbn [andb].
  assert (Nn : (negb (t2 =? HWLOC_OBJ_NUMANODE) || singleton_at (o_ns o) (o_os o)) = true).
  { destruct (t2 =? HWLOC_OBJ_NUMANODE); [|reflexivity]. cbn [andb negb orb] in *. apply negb_false_iff in E7. exact E7. }
  rewrite Nn. cbn [andb].
  destruct (t2 =? HWLOC_OBJ_BRIDGE); [|reflexivity]. cbn [andb negb orb] in *. apply negb_false_iff in E8. exact E8.
Qed.

(* ---------- induction over elements ---------- *)
Fixpoint elem_ind' (P : elem -> Prop)
  (H : forall tag attrs content closed kids, Forall P kids -> P (Elem tag attrs content closed kids)) (e : elem) : P e :=
  match e with
  | Elem tag attrs content closed kids =>
    H tag attrs content closed kids
      ((fix go (l : list elem) : Forall P l := match l with [] => Forall_nil P | x :: tl => Forall_cons x (elem_ind' P H x) (go tl) end) kids)
  end.

Lemma forallb_rev {A} (p : A -> bool) l : forallb p (rev l) = forallb p l.
Proof.
  induction l as [|x l IH]; [reflexivity|]. cbn [rev forallb]. rewrite forallb_app. cbn [forallb]. rewrite IH, andb_true_r. apply andb_comm.
Qed.
Lemma existsb_rev {A} (p : A -> bool) l : existsb p (rev l) = existsb p l.
Proof.
  induction l as [|x l IH]; [reflexivity|]. cbn [rev existsb]. rewrite existsb_app. cbn [existsb]. rewrite IH, orb_false_r. apply orb_comm.
Qed.
Lemma forallb_rev_append {A} (p : A -> bool) l acc : forallb p (rev_append l acc) = forallb p l && forallb p acc.
Proof.
  revert acc. induction l as [|x l IH]; intros acc; [reflexivity|]. cbn [rev_append forallb]. rewrite IH. cbn [forallb].
  destruct (p x), (forallb p l), (forallb p acc); reflexivity.
Qed.

Lemma import_object_ok e : forall parent psets ts ri,
  import_object parent psets e = OOk ts ri -> forallb (tree_okb parent) ts = true.
Proof.
  induction e as [tag attrs content closed kids IHk] using elem_ind'. intros parent psets ts ri.
  cbn [import_object].
  set (o := fold_left one_attr attrs (ost0 match parent with None => true | Some _ => false end)).
  destruct (o_bad o); [discriminate|]. destruct (o_unsure o); [discriminate|].
  destruct (o_ignore o && _); [discriminate|]. destruct (negb (all_space content)); [discriminate|].
  destruct (subnodes _ _ kids) as [[| |] rest]; [|discriminate|discriminate].
  destruct (o_type o) as [t|]; [|discriminate].
  destruct (checks parent psets o t) as [t'|] eqn:Ec; [|discriminate].
  pose proof (checks_sound _ _ _ _ _ Ec) as Hn.
  set (ign := o_ignore o). set (cparent := if ign then parent else Some t').
  set (cpsets := if ign then psets else (match o_cs o with Some _ => true | None => false end, match o_ns o with Some _ => true | None => false end)).
  (* the children loop, with the invariant that everything accumulated is well formed below cparent *)
  assert (Loop : forall l, Forall (fun c => forall parent psets ts ri, import_object parent psets c = OOk ts ri -> forallb (tree_okb parent) ts = true) l ->
            forall seen acc, forallb (tree_okb cparent) acc = true ->
            (fix children (l : list elem) (seen : bool) (acc : list tree) {struct l} : ores :=
               match l with
               | [] => if ign then OOk (rev acc) (o_cs o, o_ns o)
                       else if (t' =? HWLOC_OBJ_MEMCACHE) && negb (existsb (fun k => is_memory (t_type k)) acc) then OReject
                       else OOk [T t' o (rev acc)] (o_cs o, o_ns o)
               | c :: tl => if negb (is_obj c) then (if seen then OReject else children tl false acc) else
                            match import_object cparent cpsets c with
                            | OReject => OReject | OUnmodelled => OUnmodelled
                            | OOk ts _ => children tl true (rev_append ts acc)
                            end
               end) l seen acc = OOk ts ri -> forallb (tree_okb parent) ts = true).
  { induction l as [|c tl IHl]; intros Hall seen acc Hacc.
    - destruct ign eqn:Ei.
      + intros [= <- _]. rewrite forallb_rev. subst cparent. change (forallb (tree_okb parent) acc = true) in Hacc. exact Hacc.
      + destruct ((t' =? HWLOC_OBJ_MEMCACHE) && negb (existsb (fun k => is_memory (t_type k)) acc)) eqn:Em; [discriminate|].
        intros [= <- _]. cbn [forallb tree_okb]. rewrite Hn. cbn [andb]. rewrite existsb_rev, forallb_rev.
        subst cparent. change (forallb (tree_okb (Some t')) acc = true) in Hacc. rewrite Hacc, andb_true_r, andb_true_r.
        destruct (t' =? HWLOC_OBJ_MEMCACHE); [|reflexivity]. cbn [andb negb orb] in *. apply negb_false_iff in Em. exact Em.
    - inversion Hall as [|c' tl' Hc Htl]; subst.
      destruct (negb (is_obj c)).
      + destruct seen; [discriminate|]. apply IHl; assumption.
      + destruct (import_object cparent cpsets c) as [| |ts1 ri1] eqn:Ei; [discriminate|discriminate|].
        apply IHl; [exact Htl|]. rewrite forallb_rev_append. rewrite (Hc _ _ _ _ Ei). exact Hacc. }
  apply (Loop kids IHk false []). reflexivity.
Qed.

(* counting *)
Lemma count_pos ty t : count_type ty t =? 0 = false -> 1 <= count_type ty t.
Proof. intros H. apply N.eqb_neq in H. lia. Qed.

Lemma import_accept_lemma d t : import_doc d = Accept t ->
  tree_okb None t = true /\ 1 <= count_type HWLOC_OBJ_PU t /\ 1 <= count_type HWLOC_OBJ_NUMANODE t /\
  2 <= d_major d <= 3.
Proof.
  unfold import_doc. destruct ((3 <? d_major d) || (d_major d <? 2)) eqn:Ev; [discriminate|].
  destruct (d_top d) as [|r rest]; [discriminate|]. destruct (negb (is_obj r)); [discriminate|].
  destruct (import_object None (true, true) r) as [| |ts [rcs rns]] eqn:Ei; [discriminate|discriminate|].
  destruct ts as [|t0 [|]]; [discriminate| |discriminate].
  destruct (after_root rest); [|discriminate|discriminate].
  destruct rcs as [cs|]; [|discriminate]. destruct rns as [ns|]; [|discriminate].
  destruct (bs_is_empty ns && (count_type HWLOC_OBJ_NUMANODE t0 =? 0)); [discriminate|].
  destruct ((count_type HWLOC_OBJ_PU t0 =? 0) || (count_type HWLOC_OBJ_NUMANODE t0 =? 0)) eqn:Ec; [discriminate|].
  intros [= <-].
  apply orb_false_iff in Ec. destruct Ec as [Ep En]. apply orb_false_iff in Ev. destruct Ev as [E3 E2].
  apply N.ltb_ge in E3. apply N.ltb_ge in E2.
  pose proof (import_object_ok r None _ _ _ Ei) as Hok. cbn [forallb] in Hok. rewrite andb_true_r in Hok.
  repeat split; try assumption; try (apply count_pos; assumption).
Qed.

(* totality: the model is a Gallina function, it answers on every document; the three answers are exclusive *)
Lemma import_total_lemma d : (exists t, import_doc d = Accept t) \/ import_doc d = Reject \/ import_doc d = Unmodelled.
Proof. destruct (import_doc d); eauto. Qed.

(* every object of an accepted tree, with the type of the object it hangs below *)
Inductive node_in : option N -> tree -> option N -> tree -> Prop :=
| NI_here p t : node_in p t p t
| NI_kid p ty o kids k q n : In k kids -> node_in (Some ty) k q n -> node_in p (T ty o kids) q n.

Lemma tree_okb_node p t q n : node_in p t q n -> tree_okb p t = true ->
  node_okb q (t_type n) (t_ost n) = true /\
  (t_type n = HWLOC_OBJ_MEMCACHE -> exists k, In k (t_kids n) /\ is_memory (t_type k) = true).
Proof.
  intros H. induction H as [p t|p ty o kids k q n Hin Hn IH]; intros Hok.
  - destruct t as [ty o kids]. cbn [tree_okb] in Hok. apply andb_true_iff in Hok. destruct Hok as [Hok _].
    apply andb_true_iff in Hok. destruct Hok as [Hnode Hmem]. split; [exact Hnode|].
    cbn [t_type t_kids]. intros ->. rewrite N.eqb_refl in Hmem. cbn [negb orb] in Hmem.
    apply existsb_exists in Hmem. exact Hmem.
  - apply IH. cbn [tree_okb] in Hok. apply andb_true_iff in Hok. destruct Hok as [_ Hk].
    rewrite forallb_forall in Hk. apply Hk. exact Hin.
Qed.

Lemma import_accept_nodes_lemma d t q n : import_doc d = Accept t -> node_in None t q n ->
  node_okb q (t_type n) (t_ost n) = true /\
  (t_type n = HWLOC_OBJ_MEMCACHE -> exists k, In k (t_kids n) /\ is_memory (t_type k) = true).
Proof. intros Ha Hn. destruct (import_accept_lemma d t Ha) as [Hok _]. exact (tree_okb_node None t q n Hn Hok). Qed.

Lemma import_accept_root_lemma d t : import_doc d = Accept t -> t_type t = HWLOC_OBJ_MACHINE.
Proof.
  intros Ha. destruct (import_accept_lemma d t Ha) as [Hok _]. destruct t as [ty o kids]. cbn [tree_okb] in Hok.
  apply andb_true_iff in Hok. destruct Hok as [Hok _]. apply andb_true_iff in Hok. destruct Hok as [Hn _].
  unfold node_okb in Hn. repeat (apply andb_true_iff in Hn; destruct Hn as [Hn _]). apply N.eqb_eq in Hn. exact Hn.
Qed.
