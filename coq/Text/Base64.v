(* Model of hwloc/base64.c : hwloc_encode_to_base64 / hwloc_decode_from_base64
   (the OpenBSD b64_ntop / b64_pton), used for the <userdata encoding="base64">
   content of the XML export/import (C05).

   Bytes are [N] values 0..255; a C string argument is the list of its bytes up
   to (not including) the terminating NUL, a NUL inside the list also ends it.

   encode:  the two loops of the C function are one structural recursion over
            groups of three input bytes; the incremental
            [datalength + 4 > targsize] checks and the final
            [datalength >= targsize] check together reject exactly the inputs
            with [length (encode src) >= targsize] ([encode_to]).
   decode:  the C function writes [target[tarindex]] and [target[tarindex+1]].
            Every byte it reads back ([|=], the final [target[tarindex] != 0])
            was written by the previous state, so the state is modelled as the
            list of completed bytes plus the partially filled byte [cur] at
            [tarindex]; the bounds checks against [targsize] are kept as
            written.  [decode] is used with a non-NULL target only. *)
From Coq Require Import String Ascii.
From Coq Require Import NArith PeanoNat List Bool.
From HV Require Import Base.Bytes.
Import ListNotations.
Local Open Scope N_scope.

Definition alphabet : list N :=
  bytes_of_string "ABCDEFGHIJKLMNOPQRSTUVWXYZabcdefghijklmnopqrstuvwxyz0123456789+/".
Definition PAD : N := 61.       (* '=' *)

(* Base64[v] *)
Definition b64c (v : N) : N := nth (N.to_nat v) alphabet 0.

(* strchr(Base64, ch) - Base64, for ch <> 0 *)
Fixpoint index_of (ch : N) (l : list N) (i : N) : option N :=
  match l with
  | [] => None
  | x :: tl => if x =? ch then Some i else index_of ch tl (N.succ i)
  end.
Definition b64_pos (ch : N) : option N := index_of ch alphabet 0.

(* ---------- hwloc_encode_to_base64 ---------- *)
Fixpoint encode (src : list N) : list N :=
  match src with
  | a :: b :: c :: tl =>
      b64c (a / 4) :: b64c ((a mod 4) * 16 + b / 16) :: b64c ((b mod 16) * 4 + c / 64) :: b64c (c mod 64) :: encode tl
  | [a; b] => [b64c (a / 4); b64c ((a mod 4) * 16 + b / 16); b64c ((b mod 16) * 4); PAD]
  | [a] => [b64c (a / 4); b64c ((a mod 4) * 16); PAD; PAD]
  | [] => []
  end.

(* with the target size: None = return -1, Some l = l written followed by NUL, return length l *)
Definition encode_to (src : list N) (targsize : N) : option (list N) :=
  let e := encode src in
  if N.of_nat (length e) <? targsize then Some e else None.

(* #define BASE64_ENCODED_LENGTH(length) (4*(((length)+2)/3)) *)
Definition encoded_length (n : N) : N := 4 * ((n + 2) / 3).

(* ---------- hwloc_decode_from_base64 ---------- *)
(* after the pad character was seen.  [rest] = characters after the '=' *)
Fixpoint only_spaces (s : list N) : bool :=
  match s with
  | [] => true
  | c :: tl => if c =? 0 then true else if isspace c then only_spaces tl else false
  end.
Fixpoint skip_spaces (s : list N) : list N :=
  match s with
  | [] => []
  | c :: tl => if c =? 0 then [] else if isspace c then skip_spaces tl else s
  end.

Definition finish_pad (state : N) (rest : list N) (cur : N) : bool :=
  (* returns true when the C code reaches "return tarindex" *)
  if state <? 2 then false
  else if state =? 2 then
    match skip_spaces rest with
    | c :: tl => if c =? PAD then only_spaces tl && (cur =? 0) else false
    | [] => false                                  (* ch == '\0' != Pad64 *)
    end
  else only_spaces rest && (cur =? 0).

(* [out]: completed bytes in reverse order (tarindex = length out); [cur] = target[tarindex] *)
Fixpoint dec_loop (src : list N) (state : N) (out : list N) (cur : N) (targsize : N) : option (list N) :=
  let tarindex := N.of_nat (length out) in
  match src with
  | [] => if state =? 0 then Some (rev out) else None
  | ch :: tl =>
      if ch =? 0 then (if state =? 0 then Some (rev out) else None)
      else if isspace ch then dec_loop tl state out cur targsize
      else if ch =? PAD then (if finish_pad state tl cur then Some (rev out) else None)
      else match b64_pos ch with
           | None => None
           | Some pos =>
               if state =? 0 then
                 if targsize <=? tarindex then None
                 else dec_loop tl 1 out ((pos * 4) mod 256) targsize
               else if state =? 1 then
                 if targsize <=? tarindex + 1 then None
                 else dec_loop tl 2 (N.lor cur (pos / 16) :: out) (((pos mod 16) * 16) mod 256) targsize
               else if state =? 2 then
                 if targsize <=? tarindex + 1 then None
                 else dec_loop tl 3 (N.lor cur (pos / 4) :: out) (((pos mod 4) * 64) mod 256) targsize
               else
                 if targsize <=? tarindex then None
                 else dec_loop tl 0 (N.lor cur pos :: out) 0 targsize
           end
  end.

Definition decode (src : list N) (targsize : N) : option (list N) := dec_loop src 0 [] 0 targsize.

Definition is_byte (b : N) : bool := b <? 256.
