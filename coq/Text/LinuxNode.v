(* C18: which memory objects the Linux backend hands to the core for the NUMA side of the machine, and in which
   order (hwloc/topology-linux.c: look_sysfsnode and its helpers list_sysfsnode, hwloc_parse_nodes_distances,
   read_node_initiators, fixup_cpuless_node_locality_from_distances, read_node_mscaches), as a function of the
   CONTENTS of the sysfs files and directories it reads, composed with the models of the two sysfs set parsers
   (Text/LinuxParse.v) and of strtoul/atoi (Base/Strto.v).

   harness/hwv_snapshot.c ("trace 1") prints, through the guarded hook hwloc_verif_linuxnode_cb, the
   configuration and the file contents at the moment look_sysfsnode starts, and through hwloc_verif_insert_cb
   every memory object given to hwloc__insert_object_by_cpuset with a NULL root; ocaml/drv_c18.ml compares.

   Paths that are not modelled return [Unmodelled why] (counted, not judged): the KNL quirk,
   node indexes / lists too large for the extracted model, and the one place where the C code reads bytes that
   nobody wrote (distance file ending without separator before all values were found).
   Not part of a request and therefore not modelled: meminfo/hugepages (attributes), memory attributes, DAX
   annotations, the distances object itself. *)
From Coq Require Import List NArith ZArith Bool String.
From HV Require Import Base.BSet Base.Bytes Base.Strto Gen.Tables Text.LinuxParse.
Import ListNotations.
Local Open Scope N_scope.

Definition file := option (list N).       (* None: cannot be opened; Some []: opened, nothing read *)

Record msc_files := mkMsc { m_name : list N; m_size : file; m_line : file; m_indexing : file }.
Record node_files := mkNF {
  nf_os : N; nf_cpumap : file; nf_distance : file;
  nf_msc : option (list msc_files);               (* memory_side_cache/ entries named index*, readdir order; None: no directory *)
  nf_acc1 : option (list (list N));                (* names in access1/initiators, readdir order; None: no directory *)
  nf_acc0 : option (list (list N)) }.

Record gpu_files := mkGpu { g_status : file; g_local : file }.   (* gpus/<busid>/numa_status, /sys/bus/pci/devices/<busid>/local_cpus *)

Record nview := mkNV {
  nv_dist : bool;            (* data->use_numa_distances *)
  nv_dcl : bool;             (* data->use_numa_distances_for_cpuless *)
  nv_init : bool;            (* data->use_numa_initiators *)
  nv_knl : bool;             (* data->is_knl and the quirk not disabled by HWLOC_KNL_NUMA_QUIRK=0 *)
  nv_fake : bool;            (* data->is_fake_numa_uniform != 0 *)
  nv_msc : bool;             (* MemCache type not filtered out *)
  nv_overlap : option Z;     (* atoi(HWLOC_DEBUG_ALLOW_OVERLAPPING_NODE_CPUSETS) if set *)
  nv_nvidia : bool;          (* /proc/driver/nvidia/gpus can be opened *)
  nv_keep : bool;            (* NVIDIA GPU nodes kept: not POWER, or HWLOC_KEEP_NVIDIA_GPU_NUMA_NODES *)
  nv_gpus : list gpu_files;  (* its entries, readdir order *)
  nv_pus : bset;             (* the cpuset of the root when look_sysfsnode starts: the PUs that exist *)
  nv_online : file;          (* node/online *)
  nv_dir : option (list (list N));   (* names in /sys/devices/system/node, readdir order; None: cannot be opened *)
  nv_nodes : list node_files }.

(* one object given to hwloc__insert_object_by_cpuset(topology, NULL, obj) *)
Record mreq := mkMReq { r_type : N; r_os : N; r_cs : bset; r_ns : bset; r_depth : N; r_size : N }.

Inductive nresult := Requests (l : list mreq) | Unmodelled (why : string).

Definition UINTMAX : N := 4294967295.
Definition TWO32 : N := 4294967296.
Definition LIMIT : N := 65536.           (* larger node indexes / counts: Unmodelled (the model works on binary N sets) *)

(* ---------- readers ---------- *)
Definition read_mask (f : file) : option bset :=
  match f with Some c => match cpumask_parse c with Parsed s => Some s | _ => None end | None => None end.
Definition read_list (f : file) : option bset :=
  match f with Some c => match cpulist_parse c with Parsed s => Some s | _ => None end | None => None end.
(* hwloc_read_path_by_length(path, buf, len): at most len-1 bytes, failure when nothing was read *)
Definition read_len (f : file) (len : nat) : option (list N) :=
  match f with
  | Some [] => None
  | Some c => Some (firstn (len - 1) c)
  | None => None
  end.
(* hwloc_read_path_as_uint: (unsigned) strtoul(.., 10) of at most 10 bytes *)
Definition read_uint (f : file) : option N :=
  match read_len f 11 with
  | Some c => match strtoul (c ++ [0]) 0 10 with Ok (v, _) => Some (v mod TWO32) | Oob => None end
  | None => None
  end.
(* hwloc_read_path_as_uint64: strtoull(.., 10) of at most 21 bytes *)
Definition read_uint64 (f : file) : option N :=
  match read_len f 22 with
  | Some c => match strtoull (c ++ [0]) 0 10 with Ok (v, _) => Some v | Oob => None end
  | None => None
  end.
Definition to_unsigned (z : Z) : N := Z.to_N (z mod 4294967296)%Z.

Fixpoint lprefix (p c : list N) : bool :=
  match p, c with
  | [], _ => true
  | x :: p', y :: c' => (x =? y) && lprefix p' c'
  | _ :: _, [] => false
  end.
Definition NODE : list N := [110; 111; 100; 101].              (* "node" *)
Definition INDEX : list N := [105; 110; 100; 101; 120].        (* "index" *)

(* ---------- sets ---------- *)
Fixpoint pos_bits (p : positive) (i : N) : list N :=
  match p with
  | xH => [i]
  | xO q => pos_bits q (N.succ i)
  | xI q => i :: pos_bits q (N.succ i)
  end.
(* members of a finite set, ascending *)
Definition elements (s : bset) : list N := match fin s with N0 => [] | Npos p => pos_bits p 0 end.
Definition is_zero (s : bset) : bool := bs_is_empty s.

(* ---------- list_sysfsnode ---------- *)

(* "node<number>" as the loop over the directory reads it: strtoul(name+4, &end, 0), skipped when end == name+4;
   the value is stored in an unsigned *)
Definition node_name_index (name : list N) : option N :=
  if lprefix NODE name then
    match strtoul (skipn 4 name ++ [0]) 0 0 with
    | Ok (v, e) => if e =? 0 then None else Some (v mod TWO32)
    | Oob => None
    end
  else None.

(* the os indexes in array order, or why the model gives up.  [None] = no node directory: look_sysfsnode returns
   without creating anything *)
Definition list_nodes (v : nview) : option (list N) + string :=
  let from_dir :=
    match nv_dir v with
    | None => inl None
    | Some names =>
        let idx := flat_map (fun nm => match node_name_index nm with Some i => [i] | None => [] end) names in
        if existsb (fun i => LIMIT <=? i) idx then inr "huge-node-index"%string
        else
          let set := fold_left (fun acc i => bs_add i acc) idx bs_empty in
          (* several entries may denote the same index: the distinct indexes are counted (since /repo bba5c6e) *)
          match idx with
          | [] => inl None                                       (* a node directory without any node<n>: ignored *)
          | _ => inl (Some (elements set))
          end
    end in
  match read_list (nv_online v) with
  | Some s =>
      if inf s then from_dir          (* cannot happen: the cpulist parser ends with a clear up to infinity *)
      else if N.size (fin s) <=? LIMIT then
        match elements s with
        | [] => from_dir               (* empty list: fall back to the directory *)
        | els => inl (Some els)
        end
      else inr "huge-online-list"%string
  | None => from_dir
  end.

Definition find_node (v : nview) (os : N) : node_files :=
  match find (fun nf => nf_os nf =? os) (nv_nodes v) with
  | Some nf => nf
  | None => mkNF os None None None None None
  end.

(* ---------- creation of the NUMA objects ---------- *)

(* effective configuration after the fake-NUMA adjustment and the environment *)
Definition allow_overlap (v : nview) : Z :=
  match nv_overlap v with Some z => z | None => if nv_fake v then 2%Z else 0%Z end.
Definition need_msc (v : nview) : bool := nv_msc v && negb (nv_fake v).
Definition use_init (v : nview) : bool := nv_init v && negb (nv_fake v).

(* only the CPUs of a cpumap that exist as PUs are kept (when some PU exists), since /repo "linux keeps in a NUMA node cpuset ..." *)
Definition existing (v : nview) (cs : bset) : bset := if is_zero (nv_pus v) then cs else bs_inter cs (nv_pus v).

(* nodes[] : one slot per index, None when the node was not created; second component: nodes_cpuset *)
Definition create_nodes (v : nview) (indexes : list N) : list (option (N * bset)) :=
  fst (fold_left (fun '(acc, seen) os =>
         match read_mask (nf_cpumap (find_node v os)) with
         | None => (acc ++ [None], seen)
         | Some cs =>
             if bs_intersects seen cs && (allow_overlap v =? 0)%Z then (acc ++ [None], seen)
             else (acc ++ [Some (os, existing v cs)], bs_union seen cs)
         end) indexes ([], bs_empty)).

Definition set_nth {A} (l : list A) (i : nat) (x : A) : list A := firstn i l ++ x :: skipn (S i) l.

(* ---------- NUMA nodes that are NVIDIA GPU memory ---------- *)

(* strstr: what follows the first occurrence of p *)
Fixpoint find_sub (p s : list N) : option (list N) :=
  if lprefix p s then Some (skipn (List.length p) s)
  else match s with [] => None | _ :: t => find_sub p t end.
Fixpoint c_string (s : list N) : list N := match s with [] => [] | b :: t => if b =? 0 then [] else b :: c_string t end.
Fixpoint skip_blanks (s : list N) : list N :=
  match s with b :: t => if (b =? 32) || (b =? 9) then skip_blanks t else s | [] => [] end.
(* the node number of a numa_status file ("Node: <n>"), as stored in an unsigned *)
Definition gpu_node (g : gpu_files) : option N :=
  match read_len (g_status g) 256 with
  | Some c =>
      match find_sub (bytes_of_string "Node:") (c_string c) with
      | Some rest => match atoi (skip_blanks rest ++ [0]) 0 with Ok z => Some (to_unsigned z) | Oob => None end
      | None => None
      end
  | None => None
  end.
Fixpoint first_with_os (nodes : list (option (N * bset))) (x : N) (k : nat) : option nat :=
  match nodes with
  | [] => None
  | Some (os, _) :: t => if os =? x then Some k else first_with_os t x (S k)
  | None :: t => first_with_os t x (S k)
  end.
(* the first created node with that os index is either dropped or given the GPU's local cpus (nothing when unreadable) *)
Definition gpu_nodes (v : nview) (nodes : list (option (N * bset))) : list (option (N * bset)) :=
  fold_left (fun nodes g =>
     match gpu_node g with
     | Some x =>
         match first_with_os nodes x 0 with
         | Some k => set_nth nodes k (if nv_keep v then Some (x, match read_mask (g_local g) with Some m => m | None => bs_empty end) else None)
         | None => nodes
         end
     | None => nodes
     end) (nv_gpus v) nodes.
(* nodes[] when the trees are built *)
Definition final_nodes (v : nview) (indexes : list N) : list (option (N * bset)) :=
  if nv_nvidia v then gpu_nodes v (create_nodes v indexes) else create_nodes v indexes.

(* ---------- distances ---------- *)

(* one row: up to [n] numbers strtoul(tmp, &next, 0) stored in an unsigned, tmp = next+1 after each.
   inl None: fewer than n values; inr: the C code would read past the terminator *)
Fixpoint parse_row (n : nat) (s : list N) (i : N) : option (list N) + string :=
  match n with
  | O => inl (Some [])
  | S k =>
      match strtoul s i 0 with
      | Oob => inr "distance-overread"%string
      | Ok (d, e) =>
          if e =? i then inl None
          else match k with
               | O => inl (Some [d mod TWO32])
               | S _ =>
                   match parse_row k s (N.succ e) with
                   | inl (Some l) => inl (Some ((d mod TWO32) :: l))
                   | other => other
                   end
               end
      end
  end.

(* hwloc_parse_nodes_distances: the matrix row by row, None when any file is unusable *)
Fixpoint parse_rows (v : nview) (n : nat) (indexes : list N) : option (list (list N)) + string :=
  match indexes with
  | [] => inl (Some [])
  | os :: tl =>
      match read_len (nf_distance (find_node v os)) (11 * n) with
      | None => inl None
      | Some c =>
          match parse_row n (c ++ [0]) 0 with
          | inr why => inr why
          | inl None => inl None
          | inl (Some row) =>
              match parse_rows v n tl with
              | inl (Some rows) => inl (Some (row :: rows))
              | other => other
              end
          end
      end
  end.

Definition dist_at (m : list (list N)) (i j : nat) : N := nth j (nth i m []) 0.

(* fixup_cpuless_node_locality_from_distances(i, ...): the cpuset to OR into node i, None when it returns -1 *)
Definition cpuless_from_distances (m : list (list N)) (nodes : list (option (N * bset))) (i : nat) : option bset :=
  let n := List.length nodes in
  let others := filter (fun j => negb (Nat.eqb j i) && match nth j nodes None with Some _ => true | None => false end) (seq 0 n) in
  let '(mn, nb) := fold_left (fun '(mn, nb) j =>
                     let d := dist_at m i j in
                     if d <? mn then (d, 1%nat) else if d =? mn then (mn, S nb) else (mn, nb)) others (UINTMAX, 0%nat) in
  if (mn <=? dist_at m i i) || (mn =? UINTMAX) || Nat.eqb nb (n - 1) then None
  else Some (fold_left (fun acc j => if dist_at m i j =? mn
                                     then match nth j nodes None with Some (_, cs) => bs_union acc cs | None => acc end
                                     else acc) others bs_empty).

(* ---------- HMAT initiators ---------- *)

(* sscanf(name, "node%u", &x) == 1 *)
Definition initiator_index (name : list N) : option N :=
  if lprefix NODE name then
    match strtoul (skipn 4 name ++ [0]) 0 10 with
    | Ok (x, e) => if e =? 0 then None else Some (if ULONG_MAX <=? x then UINTMAX else x mod TWO32)
    | Oob => None
    end
  else None.

(* read_node_initiators: Some (union to OR into the node) when a directory was found, None when it returns -1 *)
Definition initiators_cpuset (v : nview) (nodes : list (option (N * bset))) (os : N) : option bset :=
  let nf := find_node v os in
  match (match nf_acc1 nf with Some l => Some l | None => nf_acc0 nf end) with
  | None => None
  | Some names =>
      Some (fold_left (fun acc nm =>
              match initiator_index nm with
              | Some x =>
                  if x =? os then acc
                  else match find (fun o => match o with Some (o', _) => o' =? x | None => false end) nodes with
                       | Some (Some (_, cs)) => bs_union acc cs
                       | _ => acc
                       end
              | None => acc
              end) names bs_empty)
  end.

(* ---------- memory-side caches ---------- *)

(* read_node_mscaches: the caches above a node, outermost (read last) first *)
Definition mscaches (v : nview) (os : N) : list (N * N) :=
  match nf_msc (find_node v os) with
  | None => []
  | Some entries =>
      fold_left (fun chain e =>
        if lprefix INDEX (m_name e) then
          match atoi (skipn 5 (m_name e) ++ [0]) 0, read_uint64 (m_size e), read_uint (m_line e), read_uint (m_indexing e) with
          | Ok d, Some size, Some _, Some _ => (to_unsigned d, size) :: chain
          | _, _, _, _ => chain
          end
        else chain) entries []
  end.


Definition tree_requests (v : nview) (os : N) (cs : bset) : list mreq :=
  let ns := bs_single os in
  (if need_msc v then map (fun '(d, sz) => mkMReq HWLOC_OBJ_MEMCACHE UINTMAX cs ns d sz) (mscaches v os) else []) ++
  [mkMReq HWLOC_OBJ_NUMANODE os cs ns 0 0].

(* ---------- look_sysfsnode ---------- *)

(* first pass: nodes with a non-empty cpumap, in array order; the initiators of a node see the cpusets as they are then *)
Definition pass1 (v : nview) (nodes : list (option (N * bset))) : list (option (N * bset)) * list mreq :=
  fold_left (fun '(nodes, reqs) i =>
     match nth i nodes None with
     | Some (os, cs) =>
         if is_zero cs then (nodes, reqs)
         else
           let cs' := if use_init v then match initiators_cpuset v nodes os with Some u => bs_union cs u | None => cs end else cs in
           (set_nth nodes i (Some (os, cs')), reqs ++ tree_requests v os cs')
     | None => (nodes, reqs)
     end) (seq 0 (List.length nodes)) (nodes, []).

(* second pass: CPU-less nodes: initiators, else the distances *)
Definition pass2 (v : nview) (dist : option (list (list N))) (nodes : list (option (N * bset))) (reqs : list mreq)
  : list (option (N * bset)) * list mreq :=
  fold_left (fun '(nodes, reqs) i =>
     match nth i nodes None with
     | Some (os, cs) =>
         if is_zero cs then
           let after_init := if use_init v then match initiators_cpuset v nodes os with Some u => Some (bs_union cs u) | None => None end else None in
           let cs' :=
             match after_init with
             | Some c1 => if negb (is_zero c1) then c1
                          else match dist with
                               | Some m => if nv_dcl v then match cpuless_from_distances m nodes i with Some u => bs_union c1 u | None => c1 end else c1
                               | None => c1
                               end
             | None => match dist with
                       | Some m => if nv_dcl v then match cpuless_from_distances m nodes i with Some u => bs_union cs u | None => cs end else cs
                       | None => cs
                       end
             end in
           (set_nth nodes i (Some (os, cs')), reqs ++ tree_requests v os cs')
         else (nodes, reqs)
     | None => (nodes, reqs)
     end) (seq 0 (List.length nodes)) (nodes, reqs).

Definition linux_node_requests (v : nview) : nresult :=
  match list_nodes v with
  | inr why => Unmodelled why
  | inl None => Requests []
  | inl (Some indexes) =>
      let nodes := final_nodes v indexes in
        let n := List.length indexes in
        let want_dist := nv_dist v && negb (Nat.leb n 1) in
        match (if want_dist then parse_rows v n indexes else inl None) with
        | inr why => Unmodelled why
        | inl dist =>
            if nv_knl v then Unmodelled "knl-quirk"
            else
              let '(nodes1, reqs1) := pass1 v nodes in
              let '(_, reqs2) := pass2 v dist nodes1 reqs1 in
              Requests reqs2
        end
  end.

(* ---------- correspondence ---------- *)

(* observed: type, os_index, cpuset, nodeset, cache depth, cache size *)
Definition obs := (N * N * option bset * option bset * N * N)%type.
Definition opt_is (a : option bset) (b : bset) : bool := match a with Some x => bs_eqb x b | None => false end.
Definition mreq_matches (m : mreq) (o : obs) : bool :=
  let '(ty, os, cs, ns, cd, csz) := o in
  (r_type m =? ty) && (r_os m =? os) && opt_is cs (r_cs m) && opt_is ns (r_ns m) &&
  (if ty =? HWLOC_OBJ_MEMCACHE then (r_depth m =? cd) && (r_size m =? csz) else true).

(* position of the first disagreement between the model's requests and the observed ones, None when equal *)
Fixpoint first_mismatch (ms : list mreq) (os : list obs) (k : nat) : option nat :=
  match ms, os with
  | [], [] => None
  | m :: ms', o :: os' => if mreq_matches m o then first_mismatch ms' os' (S k) else Some k
  | _, _ => Some k
  end.

(* the executable form of the theorems of Props/Properties_C18.v, evaluated on what the C code requested:
   NUMA nodesets are singletons of the os index, a MemCache is followed down its chain by the NUMA node whose
   sets it shares *)
Fixpoint chain_ok (l : list obs) : bool :=
  match l with
  | [] => true
  | (ty, os, cs, ns, _, _) :: tl =>
      (if ty =? HWLOC_OBJ_NUMANODE then opt_is ns (bs_single os)
       else if ty =? HWLOC_OBJ_MEMCACHE then
         match tl with
         | (ty', _, cs', ns', _, _) :: _ =>
             ((ty' =? HWLOC_OBJ_MEMCACHE) || (ty' =? HWLOC_OBJ_NUMANODE)) &&
             match cs, cs', ns, ns' with Some a, Some b, Some c, Some d => bs_eqb a b && bs_eqb c d | _, _, _, _ => false end
         | [] => false
         end
       else true) && chain_ok tl
  end.
