(* C18 lemmas: hwloc__read_path_as_cpulist inverts the kernel's "%*pbl\n" printer *)
From Coq Require Import List NArith ZArith Bool Lia.
From Coq Require Import ZifyBool ZifyN ZifyNat.
From HV Require Import Base.BSet Base.Bytes Base.Strto Text.LinuxParse.
Import ListNotations.
Local Open Scope N_scope.

(* ------------------------------------------------------------------ *)
(* (A) the decimal printer                                              *)

Lemma is_digit10 c : is_digit_in 10 c = (48 <=? c) && (c <=? 57).
Proof.
  unfold is_digit_in, digit_val, isdigit, isupper, islower.
  destruct (N.leb_spec 48 c); destruct (N.leb_spec c 57);
  destruct (N.leb_spec 65 c); destruct (N.leb_spec c 90);
  destruct (N.leb_spec 97 c); destruct (N.leb_spec c 122); cbn [andb orb]; try lia;
  try reflexivity; try (apply N.ltb_lt; lia); try (apply N.ltb_ge; lia).
Qed.

Lemma digit_of_48 d : d < 10 -> digit_of (48 + d) = d.
Proof.
  intros H. unfold digit_of, digit_val, isdigit.
  destruct (N.leb_spec 48 (48 + d)); [|lia].
  destruct (N.leb_spec (48 + d) 57); [|lia]. cbn [andb]. lia.
Qed.

Lemma dec_fixed_digits k : forall v, all_digits 10 (dec_fixed k v).
Proof.
  induction k as [|k IH]; intros v; cbn [dec_fixed]; [constructor|].
  apply Forall_app. split; [apply IH|]. constructor; [|constructor].
  rewrite is_digit10. assert (v mod 10 < 10) by (apply N.mod_lt; lia).
  apply andb_true_iff. split; apply N.leb_le; lia.
Qed.

Lemma dec_fixed_val k : forall v, digits_val 10 (dec_fixed k v) = v mod 10 ^ N.of_nat k.
Proof.
  induction k as [|k IH]; intros v.
  - cbn [dec_fixed]. change (N.of_nat 0) with 0. rewrite N.pow_0_r, N.mod_1_r. reflexivity.
  - cbn [dec_fixed]. rewrite digits_val_app, IH.
    assert (v mod 10 < 10) by (apply N.mod_lt; lia).
    rewrite digit_of_48 by assumption.
    rewrite Nat2N.inj_succ, N.pow_succ_r'.
    assert (P : 10 ^ N.of_nat k <> 0) by (apply N.pow_nonzero; lia).
    rewrite N.mod_mul_r by (try exact P; lia). lia.
Qed.

Lemma dec_fixed_nonempty k v : dec_fixed (S k) v <> [].
Proof. cbn [dec_fixed]. intros E. symmetry in E. revert E. apply app_cons_not_nil. Qed.

Lemma digits_val_cons48 t : digits_val 10 (48 :: t) = digits_val 10 t.
Proof. reflexivity. Qed.

Lemma strip0_spec l : l <> [] ->
  strip0 l <> [] /\ (nth 0 (strip0 l) 0 <> 48 \/ strip0 l = [48]) /\
  digits_val 10 (strip0 l) = digits_val 10 l /\
  (all_digits 10 l -> all_digits 10 (strip0 l)).
Proof.
  induction l as [|d t IH]; intros Hne; [congruence|].
  destruct t as [|d' t'].
  - cbn [strip0]. split; [discriminate|]. split; [|split; [reflexivity|auto]].
    destruct (N.eq_dec d 48) as [->|Hd]; [now right|now left].
  - change (strip0 (d :: d' :: t')) with (if d =? 48 then strip0 (d' :: t') else d :: d' :: t').
    destruct (N.eqb_spec d 48) as [->|Hd].
    + destruct IH as [I1 [I2 [I3 I4]]]; [discriminate|].
      split; [exact I1|]. split; [exact I2|]. split.
      * rewrite I3. symmetry. apply digits_val_cons48.
      * intros Ha. apply I4. now inversion Ha.
    + split; [discriminate|]. split; [now left|]. split; [reflexivity|auto].
Qed.

Lemma pow2_le_pow10 n : 2 ^ n <= 10 ^ n.
Proof. apply N.pow_le_mono_l. lia. Qed.

Lemma dec_spec v :
  dec v <> [] /\ all_digits 10 (dec v) /\ (nth 0 (dec v) 0 <> 48 \/ dec v = [48]) /\
  digits_val 10 (dec v) = v.
Proof.
  unfold dec.
  destruct (strip0_spec (dec_fixed (S (N.to_nat (N.size v))) v)) as [S1 [S2 [S3 S4]]];
    [apply dec_fixed_nonempty|].
  split; [exact S1|]. split; [apply S4, dec_fixed_digits|]. split; [exact S2|].
  rewrite S3, dec_fixed_val. apply N.mod_small.
  rewrite Nat2N.inj_succ, N2Nat.id, N.pow_succ_r'.
  pose proof (N.size_gt v). pose proof (pow2_le_pow10 (N.size v)). lia.
Qed.

(* strtoul(.., 0) reads back a printed number followed by a non-digit other than x/X *)
Lemma strtoul_dec pre v t post :
  is_digit_in 10 t = false -> toupper t <> 88 -> v <= ULONG_MAX ->
  strtoul (pre ++ dec v ++ t :: post) (len pre) 0 = Ok (v, len pre + len (dec v)).
Proof.
  intros Ht Hx Hv. destruct (dec_spec v) as [D1 [D2 [D3 D4]]].
  pose proof (strto_core_dec pre (dec v) t post D1 D2 Ht Hx D3) as C.
  rewrite (strtoul_of_core _ _ _ _ C); cbn [sr_neg sr_mag sr_end]; rewrite ?D4; auto.
Qed.

(* ------------------------------------------------------------------ *)
(* (B) the run decomposition                                            *)

Definition in_run (i : N) (r : N * N) : bool := (fst r <=? i) && (i <=? snd r).
Definition in_runs (i : N) (l : list (N * N)) : bool := existsb (in_run i) l.

(* ascending, separated by at least one hole, all below [B], starting at or after [lo] *)
Fixpoint wf_runs (B lo : N) (l : list (N * N)) : Prop :=
  match l with
  | [] => True
  | r :: tl => lo <= fst r /\ fst r <= snd r /\ snd r < B /\ wf_runs B (snd r + 2) tl
  end.

Lemma wf_runs_weaken B l : forall lo lo', lo' <= lo -> wf_runs B lo l -> wf_runs B lo' l.
Proof.
  destruct l as [|r tl]; intros lo lo' Hle H; [exact I|].
  cbn [wf_runs] in *. intuition lia.
Qed.

Lemma in_runs_below B l : forall lo i, wf_runs B lo l -> i < lo -> in_runs i l = false.
Proof.
  induction l as [|r tl IH]; intros lo i H Hi; [reflexivity|].
  cbn [wf_runs] in H. destruct H as [H1 [H2 [H3 H4]]].
  unfold in_runs. cbn [existsb]. fold (in_runs i tl).
  rewrite (IH (snd r + 2) i H4) by lia. unfold in_run.
  destruct (N.leb_spec (fst r) i); [lia|reflexivity].
Qed.

Definition cur_ok (lo i : N) (cur : option (N * N)) : Prop :=
  match cur with
  | None => lo <= i
  | Some r => lo <= fst r /\ fst r <= snd r /\ snd r + 1 = i
  end.

Lemma runs_from_wf f B bits : forall i cur lo,
  i + N.of_nat bits <= B -> cur_ok lo i cur -> wf_runs B lo (runs_from bits i f cur).
Proof.
  induction bits as [|k IH]; intros i cur lo HB Hc.
  - cbn [runs_from]. destruct cur as [r|]; cbn [wf_runs]; [|exact I].
    cbn [cur_ok] in Hc. intuition lia.
  - cbn [runs_from]. destruct (N.testbit f i).
    + apply IH; [lia|]. destruct cur as [[a b]|]; cbn [cur_ok fst snd] in *; lia.
    + destruct cur as [r|].
      * cbn [wf_runs]. cbn [cur_ok] in Hc. destruct Hc as [H1 [H2 H3]].
        split; [exact H1|]. split; [exact H2|]. split; [lia|].
        apply IH; [lia|]. cbn [cur_ok]. lia.
      * apply IH; [lia|]. cbn [cur_ok] in *. lia.
Qed.

Lemma runs_from_mem f bits : forall i cur lo j,
  cur_ok lo i cur ->
  in_runs j (runs_from bits i f cur) =
  (match cur with Some r => in_run j r | None => false end)
  || ((i <=? j) && (j <? i + N.of_nat bits) && N.testbit f j).
Proof.
  induction bits as [|k IH]; intros i cur lo j Hc.
  - cbn [runs_from]. replace (j <? i + N.of_nat 0) with (j <? i) by (f_equal; lia).
    assert (E : (i <=? j) && (j <? i) = false) by lia. rewrite E. cbn [andb].
    destruct cur as [r|]; unfold in_runs; cbn [existsb]; now rewrite ?orb_false_r.
  - cbn [runs_from]. destruct (N.testbit f i) eqn:Ti.
    + rewrite (IH (N.succ i) _ lo j).
      2:{ destruct cur as [[a b]|]; cbn [cur_ok fst snd] in *; lia. }
      destruct (N.eq_dec j i) as [->|Hji].
      * rewrite Ti. destruct cur as [[a b]|]; unfold in_run; cbn [cur_ok fst snd] in *; lia.
      * destruct (N.testbit f j); destruct cur as [[a b]|]; unfold in_run; cbn [cur_ok fst snd] in *; lia.
    + assert (R : in_runs j (runs_from k (N.succ i) f None) =
                  (i <=? j) && (j <? i + N.of_nat (S k)) && N.testbit f j).
      { rewrite (IH (N.succ i) None (N.succ i) j) by (cbn [cur_ok]; lia).
        destruct (N.eq_dec j i) as [->|Hji]; [rewrite Ti; lia|].
        destruct (N.testbit f j); lia. }
      destruct cur as [r|].
      * unfold in_runs. cbn [existsb]. fold (in_runs j (runs_from k (N.succ i) f None)).
        now rewrite R.
      * rewrite R. reflexivity.
Qed.

Lemma runs_mem f j : in_runs j (runs f) = N.testbit f j.
Proof.
  unfold runs. rewrite (runs_from_mem f _ 0 None 0 j) by (cbn [cur_ok]; lia).
  rewrite N2Nat.id. cbn [orb].
  destruct (N.testbit f j) eqn:T; [|now rewrite andb_false_r].
  destruct (N.eq_dec f 0) as [->|Hf]; [now rewrite N.bits_0 in T|].
  rewrite N.size_log2 by assumption.
  destruct (N.le_gt_cases j (N.log2 f)) as [Hle|Hgt]; [lia|].
  rewrite N.bits_above_log2 in T by assumption. discriminate.
Qed.

Lemma runs_wf f : wf_runs (N.size f) 0 (runs f).
Proof. unfold runs. apply runs_from_wf; [rewrite N2Nat.id; lia|cbn [cur_ok]; lia]. Qed.

Lemma runs_nonempty f : f <> 0 -> runs f <> [].
Proof.
  intros Hf E. pose proof (runs_mem f (N.log2 f)) as M.
  rewrite E, N.bit_log2 in M by assumption. discriminate.
Qed.

Lemma wf_runs_mono l : forall B B' lo, B <= B' -> wf_runs B lo l -> wf_runs B' lo l.
Proof.
  induction l as [|r tl IH]; intros B B' lo HB H; [exact I|].
  cbn [wf_runs] in *. destruct H as [H1 [H2 [H3 H4]]].
  repeat split; try lia. eapply IH; eauto.
Qed.

(* ------------------------------------------------------------------ *)
(* (C) the parsing loop                                                 *)

Definition IMAX : N := 2147483647.

Lemma to_int_small v : v < 2147483648 -> to_int v = Z.of_N v.
Proof.
  intros H. unfold to_int, TWO32. rewrite N.mod_small by lia.
  destruct (N.ltb_spec v 2147483648); [reflexivity|lia].
Qed.

Lemma to_uint_small z : (0 <= z < 4294967296)%Z -> to_uint z = Z.to_N z.
Proof. intros H. unfold to_uint. now rewrite Z.mod_small. Qed.

Lemma clr_range_mid set0 lo hi i : (0 <= lo <= hi)%Z -> (hi < 4294967295)%Z ->
  mem i (clr_range set0 (to_uint lo) hi)
  = mem i set0 && negb ((lo <=? Z.of_N i)%Z && (Z.of_N i <=? hi)%Z).
Proof.
  intros H1 H2. unfold clr_range. rewrite !to_uint_small by lia.
  destruct (N.ltb_spec (Z.to_N hi) (Z.to_N lo)); [lia|].
  destruct (Z.eqb_spec hi (-1)); [lia|].
  rewrite mem_diff, mem_range. destruct (mem i set0); cbn [andb]; [|reflexivity]. lia.
Qed.

Lemma clr_range_end set0 lo i : (0 <= lo < 4294967296)%Z ->
  mem i (clr_range set0 (to_uint lo) (-1)) = mem i set0 && negb (lo <=? Z.of_N i)%Z.
Proof.
  intros H. unfold clr_range. change (to_uint (-1)) with 4294967295.
  rewrite to_uint_small by lia.
  destruct (N.ltb_spec 4294967295 (Z.to_N lo)); [lia|].
  change ((-1 =? -1)%Z) with true. cbv iota.
  rewrite mem_diff, mem_from. destruct (mem i set0); cbn [andb]; [|reflexivity]. lia.
Qed.

Lemma set1_mem set0 p a i : (-1 <= p)%Z -> a < IMAX ->
  mem i (if (p + 1 <=? Z.of_N a - 1)%Z
         then clr_range set0 (to_uint (p + 1)) (Z.of_N a - 1) else set0)
  = mem i set0 && negb ((p + 1 <=? Z.of_N i)%Z && (Z.of_N i <=? Z.of_N a - 1)%Z).
Proof.
  intros Hp Ha. unfold IMAX in Ha.
  destruct (Z.leb_spec (p + 1) (Z.of_N a - 1)).
  - apply clr_range_mid; lia.
  - destruct (mem i set0); cbn [andb]; [|reflexivity]. lia.
Qed.

Lemma upd_app x c y b : upd (x ++ c :: y) (len x) b = x ++ b :: y.
Proof.
  unfold upd, len. rewrite Nat2N.id. f_equal.
  - rewrite firstn_app, Nat.sub_diag, firstn_all. cbn [firstn]. apply app_nil_r.
  - f_equal. induction x as [|a x IH]; [reflexivity|exact IH].
Qed.

Lemma upd_app2 pre x c y b :
  upd (pre ++ x ++ c :: y) (len pre + len x) b = pre ++ x ++ b :: y.
Proof. rewrite app_assoc, <- len_app, upd_app. now rewrite <- app_assoc. Qed.

Lemma rd_app_mid2 pre x t post : rd (pre ++ x ++ t :: post) (len pre + len x) = Some t.
Proof. rewrite app_assoc, <- len_app. apply rd_app_mid. Qed.

(* the bytes of a printed run *)
Definition runbyte (b : N) : Prop := is_digit_in 10 b = true \/ b = DASH.

Lemma dec_runbytes v : Forall runbyte (dec v).
Proof.
  destruct (dec_spec v) as [_ [D _]]. eapply Forall_impl; [|exact D]. intros a H; now left.
Qed.
Lemma print_run_bytes r : Forall runbyte (print_run r).
Proof.
  unfold print_run. destruct (fst r =? snd r); [apply dec_runbytes|].
  apply Forall_app; split; [apply dec_runbytes|]. cbn [app].
  constructor; [now right|apply dec_runbytes].
Qed.
Lemma print_run_nonempty r : print_run r <> [].
Proof.
  unfold print_run. destruct (dec_spec (fst r)) as [D _].
  destruct (fst r =? snd r); [exact D|]. intros E. apply app_eq_nil in E. tauto.
Qed.

Lemma runbyte_scan b : runbyte b -> negb (b =? COMMA) && negb (b =? 0) = true.
Proof.
  intros [H| ->]; [|reflexivity]. rewrite is_digit10 in H. unfold COMMA. lia.
Qed.

Lemma strchr_last pre r :
  strchr (pre ++ print_run r ++ [NL; 0]) (len pre) COMMA = Ok None.
Proof.
  unfold strchr.
  replace (pre ++ print_run r ++ [NL; 0]) with (pre ++ (print_run r ++ [NL]) ++ 0 :: [])
    by (now rewrite <- app_assoc).
  rewrite scan_while_app.
  - cbn [bind]. unfold rdr. rewrite rd_app_mid2. reflexivity.
  - apply Forall_app. split; [|repeat constructor].
    eapply Forall_impl; [|apply print_run_bytes]. intros a. apply runbyte_scan.
  - reflexivity.
Qed.

Lemma strchr_mid pre r rest :
  strchr (pre ++ print_run r ++ COMMA :: rest) (len pre) COMMA
  = Ok (Some (len pre + len (print_run r))).
Proof.
  unfold strchr. rewrite scan_while_app.
  - cbn [bind]. unfold rdr. rewrite rd_app_mid2. reflexivity.
  - eapply Forall_impl; [|apply print_run_bytes]. intros a. apply runbyte_scan.
  - reflexivity.
Qed.

(* the two strtoul calls on one printed run followed by [t] (NUL or newline) *)
Lemma parse_run pre r t post :
  is_digit_in 10 t = false -> toupper t <> 88 -> t <> DASH ->
  fst r <= ULONG_MAX -> snd r <= ULONG_MAX ->
  exists tmp c,
    strtoul (pre ++ print_run r ++ t :: post) (len pre) 0 = Ok (fst r, tmp) /\
    rdr (pre ++ print_run r ++ t :: post) tmp = Ok c /\
    (if c =? DASH
     then match strtoul (pre ++ print_run r ++ t :: post) (N.succ tmp) 0 with
          | Oob => None | Ok (v2, _) => Some (to_int v2) end
     else Some (to_int (fst r))) = Some (to_int (snd r)).
Proof.
  intros Ht Hx Hd Ha Hb. destruct r as [a b]. cbn [fst snd] in *.
  unfold print_run. cbn [fst snd]. destruct (N.eqb_spec a b) as [->|Hab].
  - exists (len pre + len (dec b)), t. split; [now apply strtoul_dec|]. split.
    + unfold rdr. now rewrite rd_app_mid2.
    + apply N.eqb_neq in Hd. now rewrite Hd.
  - rewrite <- !app_assoc. cbn [app].
    exists (len pre + len (dec a)), DASH. split; [|split].
    + apply strtoul_dec; [reflexivity| |exact Ha]. intros H. vm_compute in H. discriminate.
    + unfold rdr. now rewrite rd_app_mid2.
    + rewrite N.eqb_refl.
      replace (pre ++ dec a ++ DASH :: dec b ++ t :: post)
        with ((pre ++ dec a ++ [DASH]) ++ dec b ++ t :: post)
        by (rewrite <- !app_assoc; reflexivity).
      replace (N.succ (len pre + len (dec a))) with (len (pre ++ dec a ++ [DASH]))
        by (rewrite !len_app; change (len [DASH]) with 1; lia).
      rewrite strtoul_dec by assumption. reflexivity.
Qed.

Lemma join_runs_cons r tl : tl <> [] -> join_runs (r :: tl) = print_run r ++ COMMA :: join_runs tl.
Proof. destruct tl; [congruence|reflexivity]. Qed.

Lemma join_runs_length l : (length l <= length (join_runs l))%nat.
Proof.
  induction l as [|r tl IH]; [cbn; lia|].
  destruct tl as [|r' tl'].
  - cbn [join_runs length]. pose proof (print_run_nonempty r).
    destruct (print_run r); [congruence|cbn [length]; lia].
  - rewrite join_runs_cons by discriminate. rewrite app_length.
    cbn [length] in *. lia.
Qed.

Lemma cpulist_loop_runs : forall l fuel pre p set0 lo,
  l <> [] -> (length l <= fuel)%nat ->
  wf_runs IMAX lo l -> (-1 <= p)%Z -> (p + 1 <= Z.of_N lo)%Z ->
  (forall i, (p < Z.of_N i)%Z -> mem i set0 = true) ->
  exists set', cpulist_loop fuel (pre ++ join_runs l ++ [NL; 0]) (len pre) p set0 = Parsed set' /\
    forall i, mem i set' = if (Z.of_N i <=? p)%Z then mem i set0 else in_runs i l.
Proof.
  induction l as [|r tl IH]; intros fuel pre p set0 lo Hne Hfuel Hwf Hp Hlo Hfull; [congruence|].
  destruct fuel as [|f]; [cbn [length] in Hfuel; lia|].
  cbn [wf_runs] in Hwf. destruct Hwf as [W1 [W2 [W3 W4]]].
  assert (Ha : fst r < IMAX) by lia.
  pose proof Ha as Ha'. pose proof W3 as W3'. unfold IMAX in Ha', W3'.
  assert (Hmem : forall i, (Z.of_N i <= p)%Z \/ mem i set0 = true).
  { intros i. destruct (Z.le_gt_cases (Z.of_N i) p); [now left|right; apply Hfull; lia]. }
  destruct tl as [|r' tl'].
  - (* last run *)
    cbn [join_runs cpulist_loop]. rewrite strchr_last. cbv beta iota zeta.
    destruct (parse_run pre r NL [0]) as [tmp [c [P1 [P2 P3]]]];
      [reflexivity|intros H; vm_compute in H; discriminate|discriminate
      |unfold ULONG_MAX; lia|unfold ULONG_MAX; lia|].
    rewrite P1. cbv beta iota. rewrite P2. cbv beta iota. rewrite P3. cbv beta iota.
    rewrite !to_int_small by lia.
    destruct ((p =? INT_MAX)%Z || (Z.of_N (fst r) =? INT_MIN)%Z) eqn:E;
      [unfold INT_MAX, INT_MIN in E; lia|].
    destruct (Z.eqb_spec (Z.of_N (snd r)) INT_MAX) as [E2|_]; [unfold INT_MAX in E2; lia|].
    eexists. split; [reflexivity|]. intros i.
    rewrite clr_range_end by lia. rewrite set1_mem by assumption.
    unfold in_runs, in_run. cbn [existsb].
    destruct (Hmem i) as [Hi|Hi].
    + destruct (mem i set0); destruct (Z.leb_spec (Z.of_N i) p); lia.
    + rewrite Hi. destruct (Z.leb_spec (Z.of_N i) p); lia.
  - (* a run followed by a comma *)
    set (tl := r' :: tl') in *.
    assert (Htl : tl <> []) by discriminate.
    rewrite join_runs_cons by exact Htl.
    rewrite <- app_assoc, <- app_comm_cons.
    cbn [cpulist_loop]. rewrite strchr_mid. cbv beta iota zeta. rewrite upd_app2.
    destruct (parse_run pre r 0 (join_runs tl ++ [NL; 0])) as [tmp [c [P1 [P2 P3]]]];
      [reflexivity|intros H; vm_compute in H; discriminate|discriminate
      |unfold ULONG_MAX; lia|unfold ULONG_MAX; lia|].
    rewrite P1. cbv beta iota. rewrite P2. cbv beta iota. rewrite P3. cbv beta iota.
    rewrite !to_int_small by lia.
    destruct ((p =? INT_MAX)%Z || (Z.of_N (fst r) =? INT_MIN)%Z) eqn:E;
      [unfold INT_MAX, INT_MIN in E; lia|].
    replace (pre ++ print_run r ++ 0 :: join_runs tl ++ [NL; 0])
      with ((pre ++ print_run r ++ [0]) ++ join_runs tl ++ [NL; 0])
      by (rewrite <- !app_assoc; reflexivity).
    replace (N.succ (len pre + len (print_run r))) with (len (pre ++ print_run r ++ [0]))
      by (rewrite !len_app; change (len [0]) with 1; lia).
    match goal with |- context [cpulist_loop f _ _ _ ?s1] => set (set1 := s1) end.
    assert (Hset1 : forall i, mem i set1 = mem i set0 &&
              negb ((p + 1 <=? Z.of_N i)%Z && (Z.of_N i <=? Z.of_N (fst r) - 1)%Z)).
    { intros i. unfold set1. apply set1_mem; assumption. }
    clearbody set1.
    destruct (IH f (pre ++ print_run r ++ [0]) (Z.of_N (snd r)) set1 (snd r + 2))
      as [set' [L1 L2]]; [exact Htl|cbn [length] in Hfuel; lia|exact W4|lia|lia| |].
    { intros i Hi. rewrite Hset1. destruct (Hmem i) as [Hi'|Hi']; [lia|]. rewrite Hi'. lia. }
    exists set'. split; [exact L1|]. intros i. rewrite L2, Hset1.
    unfold in_runs. cbn [existsb]. fold (in_runs i tl). unfold in_run.
    pose proof (in_runs_below IMAX tl (snd r + 2) i W4) as Hb.
    destruct (Z.leb_spec (Z.of_N i) (Z.of_N (snd r))).
    + rewrite Hb by lia.
      destruct (Hmem i) as [Hi|Hi].
      * destruct (mem i set0); destruct (Z.leb_spec (Z.of_N i) p); lia.
      * rewrite Hi. destruct (Z.leb_spec (Z.of_N i) p); lia.
    + destruct (in_runs i tl); destruct (Z.leb_spec (Z.of_N i) p); lia.
Qed.

(* ------------------------------------------------------------------ *)
(* (D) the round trip                                                   *)

(* parse o print = id for the kernel cpulist format ("0-3,8,10-11\n"), for every
   non-empty finite set whose members are all < INT_MAX = 2^31-1 *)
Lemma cpulist_parse_print : forall f : N,
  f <> 0 -> N.log2 f < 2147483647 ->
  cpulist_parse (print_cpulist f) = Parsed (bs_of_N f).
Proof.
  intros f Hf Hlog. unfold cpulist_parse, print_cpulist, block.
  rewrite <- app_assoc. cbn [app].
  destruct (cpulist_loop_runs (runs f) (S (length (join_runs (runs f) ++ [NL]))) [] (-1)%Z bs_full 0)
    as [set' [L1 L2]].
  - now apply runs_nonempty.
  - rewrite app_length. pose proof (join_runs_length (runs f)). lia.
  - apply (wf_runs_mono _ (N.size f)); [|apply runs_wf].
    rewrite N.size_log2 by assumption. unfold IMAX. lia.
  - lia.
  - lia.
  - intros i _. apply mem_full.
  - cbn [app] in L1. change (len []) with 0 in L1. rewrite L1. f_equal.
    apply bs_ext. intros i. rewrite L2, mem_of_N.
    destruct (Z.leb_spec (Z.of_N i) (-1)); [lia|]. apply runs_mem.
Qed.

(* the hypotheses are met by a non-trivial set: {0-3,8,10-11} *)
Example cpulist_parse_print_ex :
  3343 <> 0 /\ N.log2 3343 < 2147483647 /\
  print_cpulist 3343 = [48; 45; 51; 44; 56; 44; 49; 48; 45; 49; 49; 10] /\
  cpulist_parse [48; 45; 51; 44; 56; 44; 49; 48; 45; 49; 49; 10] = Parsed (bs_of_N 3343).
Proof. repeat split; try discriminate; vm_compute; reflexivity. Qed.
