(* Model of hwloc_compare_types() and the kind predicates (hwloc/topology.c,
   include/private/misc.h) over the regenerated tables. *)
From Coq Require Import List NArith ZArith Bool Lia.
From HV Require Import Gen.Tables.
Import ListNotations.
Local Open Scope N_scope.

Definition nthN {A} (l : list A) (i : N) (d : A) : A := nth (N.to_nat i) l d.

Definition is_normal (t : N) : bool := nthN type_is_normal_tbl t false.
Definition is_memory (t : N) : bool := nthN type_is_memory_tbl t false.
Definition is_io (t : N) : bool := nthN type_is_io_tbl t false.
Definition is_misc (t : N) : bool := t =? HWLOC_OBJ_MISC.
Definition is_special (t : N) : bool := nthN type_is_special_tbl t false.
Definition is_cache (t : N) : bool := nthN type_is_cache_tbl t false.
Definition is_dcache (t : N) : bool := nthN type_is_dcache_tbl t false.
Definition is_icache (t : N) : bool := nthN type_is_icache_tbl t false.

(* hwloc_compare_types, statement by statement *)
Definition compare_types (t1 t2 : N) : Z :=
  let order1 := Z.of_N (nthN obj_type_order t1 0) in
  let order2 := Z.of_N (nthN obj_type_order t2 0) in
  if negb (is_normal t1) && is_normal t2 && negb (t2 =? HWLOC_OBJ_MACHINE) then HWLOC_TYPE_UNORDERED
  else if negb (is_normal t2) && is_normal t1 && negb (t1 =? HWLOC_OBJ_MACHINE) then HWLOC_TYPE_UNORDERED
  else (order1 - order2)%Z.

Definition all_types : list N := map N.of_nat (seq 0 (N.to_nat HWLOC_OBJ_TYPE_MAX)).

Lemma all_types_complete t : t < HWLOC_OBJ_TYPE_MAX -> In t all_types.
Proof.
  intros H. unfold all_types. apply in_map_iff. exists (N.to_nat t). split; [apply N2Nat.id|].
  apply in_seq. lia.
Qed.

Lemma forall_types (P : N -> bool) :
  forallb P all_types = true -> forall t, t < HWLOC_OBJ_TYPE_MAX -> P t = true.
Proof. intros H t Ht. rewrite forallb_forall in H. apply H, all_types_complete, Ht. Qed.

Lemma forall_types2 (P : N -> N -> bool) :
  forallb (fun a => forallb (P a) all_types) all_types = true ->
  forall a b, a < HWLOC_OBJ_TYPE_MAX -> b < HWLOC_OBJ_TYPE_MAX -> P a b = true.
Proof.
  intros H a b Ha Hb. rewrite forallb_forall in H. specialize (H a (all_types_complete a Ha)).
  rewrite forallb_forall in H. apply H, all_types_complete, Hb.
Qed.
