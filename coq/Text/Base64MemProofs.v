(* hwloc_decode_from_base64 never reads or writes its target at an index >= targsize, for every source
   string and every target size; the decoded bytes agree with the list model of C05 on what they return. *)
From Coq Require Import NArith List Bool Lia.
From HV Require Import Base.Bytes Text.Base64 Text.XmlLex Text.XmlLexProofs Text.Base64Mem.
Import ListNotations.
Local Open Scope N_scope.

Lemma wr_in s i b : i < len s -> exists s', wr s i b = Ok s' /\ len s' = len s.
Proof.
  intros H. unfold wr. destruct (N.ltb_spec i (len s)); [|lia].
  eexists. split; [reflexivity|]. apply len_upd. exact H.
Qed.
Lemma rdr_in s i : i < len s -> exists b, rdr s i = Ok b.
Proof. intros H. destruct (rd_lt_some s i H) as [b Hb]. exists b. unfold rdr. now rewrite Hb. Qed.

(* invariant: in states 1, 2, 3 the cell at tarindex exists (it was written by the previous state) *)
Lemma decm_safe src : forall state tarindex tgt,
  (state = 0 \/ tarindex < len tgt) -> decm src state tarindex tgt <> Oob.
Proof.
  induction src as [|ch tl IH]; intros state tarindex tgt Hinv; cbn [decm]; [discriminate|].
  destruct (ch =? 0); [discriminate|].
  destruct (isspace ch); [apply IH; exact Hinv|].
  destruct (ch =? PAD).
  { unfold finish_pad_mem. destruct (N.ltb_spec state 2) as [|H2]; [discriminate|].
    destruct (negb _); [discriminate|].
    destruct Hinv as [->|Hlt]; [lia|]. destruct (rdr_in tgt tarindex Hlt) as [c Ec]. rewrite Ec. cbn [bind]. destruct (c =? 0); discriminate. }
  destruct (b64_pos ch) as [pos|]; [|discriminate].
  destruct (N.eqb_spec state 0) as [->|H0].
  { destruct (N.leb_spec (len tgt) tarindex) as [|Hlt]; [discriminate|].
    destruct (wr_in tgt tarindex ((pos * 4) mod 256) Hlt) as [t1 [E1 L1]]. rewrite E1. cbn [bind].
    apply IH. right. lia. }
  assert (Hc : tarindex < len tgt) by (destruct Hinv; [contradiction|assumption]).
  destruct (state =? 1).
  { destruct (N.leb_spec (len tgt) (tarindex + 1)) as [|Hlt]; [discriminate|].
    destruct (rdr_in tgt tarindex Hc) as [c Ec]. rewrite Ec. cbn [bind].
    destruct (wr_in tgt tarindex (N.lor c (pos / 16)) Hc) as [t1 [E1 L1]]. rewrite E1. cbn [bind].
    destruct (wr_in t1 (tarindex + 1) (((pos mod 16) * 16) mod 256)) as [t2 [E2 L2]]; [lia|]. rewrite E2. cbn [bind].
    apply IH. right. lia. }
  destruct (state =? 2).
  { destruct (N.leb_spec (len tgt) (tarindex + 1)) as [|Hlt]; [discriminate|].
    destruct (rdr_in tgt tarindex Hc) as [c Ec]. rewrite Ec. cbn [bind].
    destruct (wr_in tgt tarindex (N.lor c (pos / 4)) Hc) as [t1 [E1 L1]]. rewrite E1. cbn [bind].
    destruct (wr_in t1 (tarindex + 1) (((pos mod 4) * 64) mod 256)) as [t2 [E2 L2]]; [lia|]. rewrite E2. cbn [bind].
    apply IH. right. lia. }
  destruct (N.leb_spec (len tgt) tarindex) as [|Hlt]; [discriminate|].
  destruct (rdr_in tgt tarindex Hc) as [c Ec]. rewrite Ec. cbn [bind].
  destruct (wr_in tgt tarindex (N.lor c pos) Hc) as [t1 [E1 L1]]. rewrite E1. cbn [bind].
  apply IH. left. reflexivity.
Qed.

Lemma b64_decode_in_bounds_lemma : forall src targsize, decode_mem src targsize <> Oob.
Proof. intros src T. unfold decode_mem. apply decm_safe. left. reflexivity. Qed.

(* the returned count never exceeds the block, and the block keeps its size *)
Lemma decm_result src : forall state tarindex tgt n out,
  tarindex <= len tgt -> decm src state tarindex tgt = Ok (Some (n, out)) -> n <= len out /\ len out = len tgt.
Proof.
  induction src as [|ch tl IH]; intros state tarindex tgt n out Hle; cbn [decm].
  { destruct (state =? 0); intros [= <- <-] || discriminate. split; [exact Hle|reflexivity]. }
  destruct (ch =? 0). { destruct (state =? 0); intros [= <- <-] || discriminate. split; [exact Hle|reflexivity]. }
  destruct (isspace ch); [apply IH; exact Hle|].
  destruct (ch =? PAD).
  { destruct (finish_pad_mem state tl tgt tarindex) as [ok|]; cbn [bind]; [|discriminate].
    destruct ok; intros [= <- <-] || discriminate. split; [exact Hle|reflexivity]. }
  destruct (b64_pos ch) as [pos|]; [|discriminate].
  destruct (state =? 0).
  { destruct (N.leb_spec (len tgt) tarindex) as [|Hlt]; [discriminate|].
    destruct (wr_in tgt tarindex ((pos * 4) mod 256) Hlt) as [t1 [E1 L1]]. rewrite E1. cbn [bind].
    intros H. destruct (IH 1 tarindex t1 n out) as [A B]; [lia|exact H|]. split; lia. }
  destruct (state =? 1).
  { destruct (N.leb_spec (len tgt) (tarindex + 1)) as [|Hlt]; [discriminate|].
    destruct (rdr tgt tarindex) as [c|]; cbn [bind]; [|discriminate].
    destruct (wr_in tgt tarindex (N.lor c (pos / 16))) as [t1 [E1 L1]]; [lia|]. rewrite E1. cbn [bind].
    destruct (wr_in t1 (tarindex + 1) (((pos mod 16) * 16) mod 256)) as [t2 [E2 L2]]; [lia|]. rewrite E2. cbn [bind].
    intros H. destruct (IH 2 (tarindex + 1) t2 n out) as [A B]; [lia|exact H|]. split; lia. }
  destruct (state =? 2).
  { destruct (N.leb_spec (len tgt) (tarindex + 1)) as [|Hlt]; [discriminate|].
    destruct (rdr tgt tarindex) as [c|]; cbn [bind]; [|discriminate].
    destruct (wr_in tgt tarindex (N.lor c (pos / 4))) as [t1 [E1 L1]]; [lia|]. rewrite E1. cbn [bind].
    destruct (wr_in t1 (tarindex + 1) (((pos mod 4) * 64) mod 256)) as [t2 [E2 L2]]; [lia|]. rewrite E2. cbn [bind].
    intros H. destruct (IH 3 (tarindex + 1) t2 n out) as [A B]; [lia|exact H|]. split; lia. }
  destruct (N.leb_spec (len tgt) tarindex) as [|Hlt]; [discriminate|].
  destruct (rdr tgt tarindex) as [c|]; cbn [bind]; [|discriminate].
  destruct (wr_in tgt tarindex (N.lor c pos)) as [t1 [E1 L1]]; [lia|]. rewrite E1. cbn [bind].
  intros H. destruct (IH 0 (tarindex + 1) t1 n out) as [A B]; [lia|exact H|]. split; lia.
Qed.

Lemma b64_decode_count_lemma : forall src targsize n out,
  decode_mem src targsize = Ok (Some (n, out)) -> n <= targsize /\ len out = targsize.
Proof.
  intros src T n out H. unfold decode_mem in H.
  assert (L : len (repeat 170 (N.to_nat T)) = T) by (unfold len; rewrite repeat_length; lia).
  destruct (decm_result src 0 0 _ n out ltac:(lia) H) as [A B]. rewrite L in B. split; lia.
Qed.
