(* C07: model of hwloc/topology-synthetic.c (parser half) and of the pieces of
   hwloc/traversal.c it calls (hwloc__type_match, hwloc_type_sscanf).

   Strings are checked blocks (Base.Bytes): every read goes through [rd]; a read
   outside the block is [Fault FStr].  The string literals handed to
   hwloc__type_match are checked blocks too ([Fault FLit]).
   data->level[] is a list of exactly HWLOC_SYNTHETIC_MAX_DEPTH entries
   (Gen.Tables, from the current source): an access at an index >= that bound is
   [Fault FLevel].  The malloc'ed loops[] array of
   hwloc_synthetic_process_indexes has capacity nr_loops+1: a store at or past
   it is [Fault FLoops].  level[].arity is [None] while it has never been
   assigned (the backend data is malloc'ed, not calloc'ed): branching on it is
   [Fault FUninit].  Divisions by a zero width are [Fault FDiv], failing
   assert()s [Fault FAssert].  [Rej] is "return -1 / EINVAL".

   The code is modelled AS IT IS ([Cur]); each [fix_*] flag of [variant] switches
   one statement to the minimal fix of /verif/patches/fix-C07-*.diff. *)
From Coq Require Import String NArith ZArith List Bool Lia.
From Coq Require Import Orders Sorting.Mergesort.
From HV Require Import Base.Bytes Base.Strto Gen.Tables.
Import ListNotations.
Local Open Scope N_scope.

Inductive fault := FStr | FLit | FLevel | FLoops | FUninit | FDiv | FAssert | FFuel | FHang.
Inductive out (A : Type) : Type := Ret (a : A) | Rej | Fault (f : fault).
Arguments Ret {A} a.
Arguments Rej {A}.
Arguments Fault {A} f.

Definition obind {A B} (r : out A) (f : A -> out B) : out B :=
  match r with Ret a => f a | Rej => Rej | Fault x => Fault x end.
Notation "'do*' x ':=' r 'in' k" := (obind r (fun x => k))
  (at level 200, x pattern, r at level 100, k at level 200, right associativity).

Definition lift {A} (r : res A) : out A := match r with Ok a => Ret a | Oob => Fault FStr end.
Definition rdo (s : list N) (i : N) : out N := lift (rdr s i).

Record variant := { fix_memmove : bool; fix_loops : bool; fix_arity : bool; fix_tm : bool }.
(* THE SWITCH: [Cur] is the code as /repo has it.  The four fixes of /verif/patches/fix-C07-*.diff are
   committed (06641a7 memmove, b880e62 intlv-loops, e2bc16d arity-uninit, c06b512 type-match): all flags
   are true.  A flag set back to false models the code before that fix (regression lemmas of
   Text/SyntheticProofs.v are stated for every variant). *)
Definition Cur : variant := {| fix_memmove := true; fix_loops := true; fix_arity := true; fix_tm := true |}.
Definition Fixed : variant := {| fix_memmove := true; fix_loops := true; fix_arity := true; fix_tm := true |}.

(* SECOND SWITCH: further fixes, committed in /repo as ceb66e8 (MemCache level), 6af4733 (width overflow), 1ae4897
   (interleaving deeper level): all true.  false models the code before the fix:
   fix-C07-synthetic-memcache-level.diff (MemCache rejected as a level type),
   fix-C07-synthetic-width-overflow.diff (totalarity and nbs products guarded against wrap-around) *)
Definition fix_memcache_level : bool := true.
Definition fix_width_overflow : bool := true.
(* fix-C07-synthetic-intlv-deeper-level.diff: assert(nb); assert(step) replaced by an error *)
Definition fix_intlv_deeper : bool := true.
(* 20f58c3: explicit index lists with a duplicate are ignored; false models the code before that fix *)
Definition fix_dup_indexes : bool := true.
(* "the array has a duplicate": C sorts a copy (qsort) for explicit lists and marks a seen[] array for
   interleavings; the model sorts (merge sort, n log n) and compares neighbours *)
Module NLeb <: TotalLeBool.
  Definition t := N.
  Definition leb := N.leb.
  Theorem leb_total : forall a b, N.leb a b = true \/ N.leb b a = true.
  Proof. intros a b. destruct (N.leb_spec a b); [left; reflexivity|right; apply N.leb_le; lia]. Qed.
End NLeb.
Module NSort := Sort NLeb.
Fixpoint adj_dup (l : list N) : bool :=
  match l with
  | x :: ((y :: _) as r) => (x =? y) || adj_dup r
  | _ => false
  end.
Definition dupb (l : list N) : bool := adj_dup (NSort.sort l).
(* fix-C07-synthetic-interleaving-permutation.diff: an interleaving must generate a permutation of 0..total-1
   (before: only "no value >= total, no second 0"); false models the code before the fix *)
Definition fix_perm_check : bool := true.

Definition MAXD : N := HWLOC_SYNTHETIC_MAX_DEPTH.
Definition U32 : N := 4294967296.
Definition M1 : N := 4294967295.            (* (unsigned)-1, also HWLOC_OBJ_TYPE_NONE as unsigned *)
Definition T_NONE : N := M1.
Definition T64 : N := Strto.TWO64.
Definition u32z (z : Z) : N := Z.to_N (z mod 4294967296).
Definition is_cache (t : N) : bool := if t <? HWLOC_OBJ_TYPE_MAX then nth (N.to_nat t) type_is_cache_tbl false else false.

(* ---------- hwloc__type_match ---------- *)
Definition sc (b : N) : Z := if b <? 128 then Z.of_N b else (Z.of_N b - 256)%Z.   (* char is signed *)

Fixpoint tm_l (v : variant) (l : list N) (i : N) (lit : list N) (k minmatch : N) : out (option N) :=
  match l with
  | [] => Fault FStr
  | c :: l' =>
    if c =? 0 then Ret (if k <? minmatch then None else Some i)
    else match lit with
      | [] => Fault FLit
      | tc :: lit' =>
        if (fix_tm v && (tc =? 0))
           || (negb (sc c =? sc tc)%Z && negb (sc c =? sc tc - 32)%Z) then
          if isalpha c || (c =? 45) then Ret None
          else Ret (if k <? minmatch then None else Some i)
        else tm_l v l' (N.succ i) lit' (N.succ k) minmatch
      end
    end.
Definition type_match v (s : list N) (i : N) (lit : string) (mm : N) : out (option N) :=
  tm_l v (skipn (N.to_nat i) s) i (cstr lit) 0 mm.
Definition tmb v s i lit mm : out bool :=
  do* r := type_match v s i lit mm in Ret (match r with Some _ => true | None => false end).

Fixpoint any_match v s i (alts : list (string * N)) : out bool :=
  match alts with
  | [] => Ret false
  | (l, m) :: r => do* x := tmb v s i l m in if x then Ret true else any_match v s i r
  end.
Definition osdev_alts : list (string * N) :=
  [("storage", 4); ("block", 4); ("memory", 3); ("network", 3); ("ofed", 4); ("openfabrics", 7);
   ("dma", 3); ("gpu", 3); ("coproc", 5); ("co-processor", 6)]%string.

Fixpoint osdev_types_f v (fuel : nat) s i : out unit :=
  match fuel with
  | O => Fault FFuel
  | S f =>
    do* _ := any_match v s i osdev_alts in
    do* nx := lift (strchr s i 44) in
    match nx with
    | None => do* _ := lift (strchr s i 93) in Ret tt
    | Some j => osdev_types_f v f s (j + 1)
    end
  end.

Definition simple_types : list (string * N * N) :=
  [("machine", 2, HWLOC_OBJ_MACHINE); ("numanode", 2, HWLOC_OBJ_NUMANODE); ("node", 2, HWLOC_OBJ_NUMANODE);
   ("memcache", 5, HWLOC_OBJ_MEMCACHE); ("memory-side cache", 8, HWLOC_OBJ_MEMCACHE);
   ("package", 2, HWLOC_OBJ_PACKAGE); ("socket", 2, HWLOC_OBJ_PACKAGE); ("die", 2, HWLOC_OBJ_DIE);
   ("core", 2, HWLOC_OBJ_CORE); ("pu", 2, HWLOC_OBJ_PU); ("misc", 4, HWLOC_OBJ_MISC);
   ("bridge", 4, HWLOC_OBJ_BRIDGE); ("hostbridge", 6, HWLOC_OBJ_BRIDGE); ("pcibridge", 5, HWLOC_OBJ_BRIDGE);
   ("pcidev", 3, HWLOC_OBJ_PCI_DEVICE)]%string.
Fixpoint first_simple v s i (tbl : list (string * N * N)) : out (option N) :=
  match tbl with
  | [] => Ret None
  | (l, m, t) :: r => do* x := tmb v s i l m in if x then Ret (Some t) else first_simple v s i r
  end.

Definition cache_suffix v s suf (t d ct : N) : out (option (N * N * N)) :=
  do* m := tmb v s suf "cache" 0 in Ret (if m then Some (t, d, ct) else None).

(* hwloc_type_sscanf(string+i, &type, &attrs, sizeof(attrs)): None = -1;
   Some (type, depthattr, cachetypeattr) *)
Definition type_sscanf v (s : list N) (i : N) : out (option (N * N * N)) :=
  let osd := Some (HWLOC_OBJ_OS_DEVICE, M1, M1) in
  do* p1 := lift (has_prefix_nocase "osdev[" s i) in
  if p1 then do* _ := osdev_types_f v (S (length s)) s (i + 6) in Ret osd else
  do* p2 := lift (has_prefix_nocase "os[" s i) in
  if p2 then do* _ := osdev_types_f v (S (length s)) s (i + 3) in Ret osd else
  do* p3 := tmb v s i "osdev" 2 in
  if p3 then Ret osd else
  do* p4 := any_match v s i osdev_alts in
  if p4 then Ret osd else
  do* st := first_simple v s i simple_types in
  match st with
  | Some t => Ret (Some (t, M1, M1))
  | None =>
    do* c0 := rdo s i in
    do* isl := (if (c0 =? 108) || (c0 =? 76) then do* c1 := rdo s (i + 1) in Ret (isdigit c1) else Ret false) in
    if isl then
      do* r := lift (strtol s (i + 1) 10) in
      let d := u32z (fst r) in let e := snd r in
      do* ce := rdo s e in
      if (ce =? 105) || (ce =? 73) then
        if (1 <=? d) && (d <=? 3)
        then cache_suffix v s (e + 1) (HWLOC_OBJ_L1ICACHE + d - 1) d HWLOC_OBJ_CACHE_INSTRUCTION
        else Ret None
      else if (1 <=? d) && (d <=? 5) then
        let t := HWLOC_OBJ_L1CACHE + d - 1 in
        if (ce =? 100) || (ce =? 68) then cache_suffix v s (e + 1) t d HWLOC_OBJ_CACHE_DATA
        else if (ce =? 117) || (ce =? 85) then cache_suffix v s (e + 1) t d HWLOC_OBJ_CACHE_UNIFIED
        else cache_suffix v s e t d HWLOC_OBJ_CACHE_UNIFIED
      else Ret None
    else
      do* g := type_match v s i "group" 2 in
      match g with
      | None => Ret None
      | Some e =>
        do* ce := rdo s e in
        if isdigit ce then do* r := lift (strtol s e 10) in Ret (Some (HWLOC_OBJ_GROUP, u32z (fst r), M1))
        else Ret (Some (HWLOC_OBJ_GROUP, M1, M1))
      end
  end.

(* ---------- hwloc_synthetic_parse_memory_attr ---------- *)
Definition units : list (string * N) :=
  [("TB", 1000000000000); ("TiB", 1099511627776); ("GB", 1000000000); ("GiB", 1073741824);
   ("MB", 1000000); ("MiB", 1048576); ("kB", 1000); ("kiB", 1024)]%string.
Fixpoint apply_unit s (e size : N) (us : list (string * N)) : out (N * N) :=
  match us with
  | [] => Ret (size, e)
  | (u, m) :: r =>
    do* p := lift (has_prefix_nocase u s e) in
    if p then Ret ((size * m) mod T64, e + len (bytes_of_string u)) else apply_unit s e size r
  end.
Definition parse_memory_attr s i : out (N * N) :=
  do* r := lift (strtoull s i 0) in apply_unit s (snd r) (fst r) units.

(* ---------- hwloc_synthetic_parse_attrs ---------- *)
Record pattrs := { pa_mem : N; pa_msc : N; pa_istr : option (N * N); pa_next : N }.

Fixpoint parse_attrs_f (fuel : nat) s (ty a mem msc : N) (istr : option (N * N))
  : out (N * N * option (N * N)) :=
  match fuel with
  | O => Fault FFuel
  | S f =>
    do* c := rdo s a in
    if c =? 41 then Ret (mem, msc, istr) else
    let iscache := is_cache ty in
    do* st :=
      (do* p1 := (if iscache then lift (has_prefix "size=" s a) else Ret false) in
       if p1 then do* r := parse_memory_attr s (a + 5) in Ret (fst r, msc, istr, snd r) else
       do* p2 := (if iscache then Ret false else lift (has_prefix "memory=" s a)) in
       if p2 then do* r := parse_memory_attr s (a + 7) in Ret (fst r, msc, istr, snd r) else
       do* p3 := lift (has_prefix "memorysidecachesize=" s a) in
       if p3 then do* r := parse_memory_attr s (a + 20) in Ret (mem, fst r, istr, snd r) else
       do* p4 := lift (has_prefix "indexes=" s a) in
       if p4 then do* l := lift (strcspn s (a + 8) [32; 41]) in Ret (mem, msc, Some (a + 8, l), a + 8 + l) else
       do* l := lift (strcspn s a [32; 41]) in Ret (mem, msc, istr, a + l)) in
    let '(mem', msc', istr', a') := st in
    do* c2 := rdo s a' in
    if c2 =? 32 then parse_attrs_f f s ty (a' + 1) mem' msc' istr'
    else if c2 =? 41 then Ret (mem', msc', istr')
    else Rej
  end.

Definition parse_attrs s (i ty msc0 : N) : out pattrs :=
  do* np := lift (strchr s i 41) in
  match np with
  | None => Rej
  | Some p =>
    do* r := parse_attrs_f (S (length s)) s ty i 0 msc0 None in
    let '(m, ms, is) := r in
    Ret {| pa_mem := m; pa_msc := ms; pa_istr := is; pa_next := p + 1 |}
  end.

(* ---------- the level array ---------- *)
Record attached := { at_mem : N; at_msc : N }.
Record level := {
  lv_arity : option N;          (* None: never assigned (indeterminate) *)
  lv_width : N; lv_type : N; lv_depth : N; lv_ctype : N; lv_mem : N; lv_msc : N;
  lv_istr : option (N * N);     (* indexes.string as (start index in the description, string_length) *)
  lv_iarr : option (list N);    (* indexes.array *)
  lv_att : list attached }.
Definition junk : level :=
  {| lv_arity := None; lv_width := 0; lv_type := 0; lv_depth := 0; lv_ctype := 0; lv_mem := 0; lv_msc := 0;
     lv_istr := None; lv_iarr := None; lv_att := [] |}.
Definition set_arity x l := {| lv_arity := x; lv_width := lv_width l; lv_type := lv_type l; lv_depth := lv_depth l;
  lv_ctype := lv_ctype l; lv_mem := lv_mem l; lv_msc := lv_msc l; lv_istr := lv_istr l; lv_iarr := lv_iarr l; lv_att := lv_att l |}.
Definition set_width x l := {| lv_arity := lv_arity l; lv_width := x; lv_type := lv_type l; lv_depth := lv_depth l;
  lv_ctype := lv_ctype l; lv_mem := lv_mem l; lv_msc := lv_msc l; lv_istr := lv_istr l; lv_iarr := lv_iarr l; lv_att := lv_att l |}.
Definition set_tdc t d c l := {| lv_arity := lv_arity l; lv_width := lv_width l; lv_type := t; lv_depth := d;
  lv_ctype := c; lv_mem := lv_mem l; lv_msc := lv_msc l; lv_istr := lv_istr l; lv_iarr := lv_iarr l; lv_att := lv_att l |}.
Definition set_type t l := set_tdc t (lv_depth l) (lv_ctype l) l.
Definition set_depth d l := set_tdc (lv_type l) d (lv_ctype l) l.
Definition set_mem m ms l := {| lv_arity := lv_arity l; lv_width := lv_width l; lv_type := lv_type l; lv_depth := lv_depth l;
  lv_ctype := lv_ctype l; lv_mem := m; lv_msc := ms; lv_istr := lv_istr l; lv_iarr := lv_iarr l; lv_att := lv_att l |}.
Definition set_idx is ia l := {| lv_arity := lv_arity l; lv_width := lv_width l; lv_type := lv_type l; lv_depth := lv_depth l;
  lv_ctype := lv_ctype l; lv_mem := lv_mem l; lv_msc := lv_msc l; lv_istr := is; lv_iarr := ia; lv_att := lv_att l |}.
Definition set_att a l := {| lv_arity := lv_arity l; lv_width := lv_width l; lv_type := lv_type l; lv_depth := lv_depth l;
  lv_ctype := lv_ctype l; lv_mem := lv_mem l; lv_msc := lv_msc l; lv_istr := lv_istr l; lv_iarr := lv_iarr l; lv_att := a |}.

Definition lv_get (a : list level) (i : N) : out level :=
  match nth_error a (N.to_nat i) with Some l => Ret l | None => Fault FLevel end.
Fixpoint upd_nth {A} (l : list A) (n : nat) (f : A -> A) : option (list A) :=
  match l, n with
  | [], _ => None
  | x :: t, O => Some (f x :: t)
  | x :: t, S n' => option_map (cons x) (upd_nth t n' f)
  end.
Definition lv_upd (a : list level) (i : N) (f : level -> level) : out (list level) :=
  match upd_nth a (N.to_nat i) f with Some a' => Ret a' | None => Fault FLevel end.

Definition lenl {A} (a : list A) : N := N.of_nat (length a).
(* memmove(&level[dst], &level[src], k * sizeof(level[0])) *)
Definition lv_memmove (a : list level) (dst src k : N) : out (list level) :=
  if (lenl a <? src + k) || (lenl a <? dst + k) then Fault FLevel
  else Ret (firstn (N.to_nat dst) a ++ firstn (N.to_nat k) (skipn (N.to_nat src) a) ++ skipn (N.to_nat (dst + k)) a).

(* ---------- hwloc_synthetic_process_indexes ---------- *)
Definition MAXnat : nat := N.to_nat MAXD.

(* explicit list: for(i=0;i<total;i++) strtoul(attr,&next,10) ... *)
Fixpoint explicit_f (fuel : nat) s (attr i total : N) (acc : list N) : out (list N) :=
  match fuel with
  | O => Fault FFuel
  | S f =>
    if i <? total then
      do* r := lift (strtoul s attr 10) in
      let v := fst r in let nx := snd r in
      if nx =? attr then Rej else
      let acc' := (v mod U32) :: acc in
      if negb (i =? total - 1) then
        do* c := rdo s nx in
        if c =? 44 then explicit_f f s (nx + 1) (i + 1) total acc' else Rej
      else explicit_f f s nx (i + 1) total acc'
    else Ret (rev acc)
  end.

Fixpoint count_colons (fuel : nat) s (tmp lim nr : N) : out N :=
  match fuel with
  | O => Fault FFuel
  | S f =>
    do* r := lift (strchr s tmp 58) in
    match r with
    | None => Ret nr
    | Some j => if lim <=? j then Ret nr else count_colons f s (j + 1) lim (nr + 1)
    end
  end.

(* "x*y:z*t:..." : returns the stored loops, minstep, nbs *)
Fixpoint xy_f v (fuel : nat) s (total tmp nr_loops cap cur minstep nbs : N) (acc : list (N * N))
  : out (list (N * N) * N * N) :=
  match fuel with
  | O => Fault FFuel
  | S f =>
    do* r := lift (strtol s tmp 0) in
    let step := u32z (fst r) in let t2 := snd r in
    if t2 =? tmp then Rej else
    do* c2 := rdo s t2 in
    if negb (c2 =? 42) then Rej else
    if step =? 0 then Rej else
    do* r3 := lift (strtol s (t2 + 1) 0) in
    let nb := u32z (fst r3) in let t3 := snd r3 in
    if t3 =? t2 + 1 then Rej else
    do* c3 := rdo s t3 in
    if negb (c3 =? 0) && negb (c3 =? 58) && negb (c3 =? 41) && negb (c3 =? 32) then Rej else
    if nb =? 0 then Rej else
    if fix_loops v && (nr_loops <=? cur) then Rej else
    if cap <=? cur then Fault FLoops else
    let acc' := acc ++ [(step, nb)] in
    let minstep' := if step <? minstep then step else minstep in
    if fix_width_overflow && (total / nbs <? nb) then Rej else
    let nbs' := (nbs * nb) mod T64 in
    if (c3 =? 41) || (c3 =? 32) then Ret (acc', minstep', nbs')
    else xy_f v f s total (t3 + 1) nr_loops cap (cur + 1) minstep' nbs' acc'
  end.

(* for(i=0; ; i++) { if (!data->level[i].arity) ... } *)
Fixpoint find_level (fuel : nat) (lv : list level) (i ty d : N) : out (option N) :=
  match fuel with
  | O => Fault FFuel
  | S f =>
    do* l := lv_get lv i in
    match lv_arity l with
    | None => Fault FUninit
    | Some a =>
      if a =? 0 then Ret None
      else if negb (ty =? lv_type l) then find_level f lv (i + 1) ty d
      else if (ty =? HWLOC_OBJ_GROUP) && negb (d =? M1) && negb (d =? lv_depth l) then find_level f lv (i + 1) ty d
      else Ret (Some i)
    end
  end.

Definition disallowed_io (ty : N) : bool :=
  (ty =? HWLOC_OBJ_MISC) || (ty =? HWLOC_OBJ_BRIDGE) || (ty =? HWLOC_OBJ_PCI_DEVICE) || (ty =? HWLOC_OBJ_OS_DEVICE).

(* "type1:type2:..." : the level depths stored in loops[].level_depth *)
Fixpoint ty_f v (fuel : nat) s (lv : list level) (tmp lim cap cur : N) (acc : list N) : out (list N) :=
  match fuel with
  | O => Fault FFuel
  | S f =>
    do* ts := type_sscanf v s tmp in
    match ts with
    | None => Rej
    | Some (ty, d, _) =>
      if disallowed_io ty then Rej else
      do* fl := find_level (S MAXnat) lv 0 ty d in
      if cap <=? cur then Fault FLoops else
      match fl with
      | None => Rej
      | Some dep =>
        let acc' := acc ++ [dep] in
        do* r := lift (strchr s tmp 58) in
        match r with
        | None => Ret acc'
        | Some j => if lim <? j then Ret acc' else ty_f v f s lv (j + 1) lim cap (cur + 1) acc'
        end
      end
    end
  end.

Definition nth_depth (ds : list N) (i : nat) : out N :=
  match nth_error ds i with Some d => Ret d | None => Fault FUninit end.

(* inner for(i=0;i<nr_loops;i++): duplicate check and prevdepth *)
Fixpoint prevdepth_f (ds : list N) (n : nat) (i : nat) (cur : nat) (my prev : N) : out N :=
  match n with
  | O => Ret prev
  | S n' =>
    do* di := nth_depth ds i in
    if (di =? my) && negb (Nat.eqb i cur) then Rej
    else prevdepth_f ds n' (S i) cur my (if (di <? my) && (prev <? di) then di else prev)
  end.

Fixpoint ty_loops_f (lv : list level) (ds : list N) (nr : nat) (n : nat) (cur : nat) (total minstep nbs : N)
  (acc : list (N * N)) : out (list (N * N) * N * N) :=
  match n with
  | O => Ret (acc, minstep, nbs)
  | S n' =>
    do* my := nth_depth ds cur in
    do* prev := prevdepth_f ds nr 0 cur my 0 in
    do* lm := lv_get lv my in
    do* lp := lv_get lv prev in
    if lv_width lm =? 0 then Fault FDiv else
    let step := (total / lv_width lm) mod U32 in
    if lv_width lp =? 0 then Fault FDiv else
    let nb := (lv_width lm / lv_width lp) mod U32 in
    if (nb =? 0) || (step =? 0) then (if fix_intlv_deeper then Rej else Fault FAssert) else
    ty_loops_f lv ds nr n' (S cur) total (if step <? minstep then step else minstep) ((nbs * nb) mod T64)
               (acc ++ [(step, nb)])
  end.

Fixpoint set_nth {A} (l : list A) (n : nat) (x : A) : list A :=
  match l, n with
  | [], _ => [x]
  | _ :: t, O => x :: t
  | y :: t, S n' => y :: set_nth t n' x
  end.

(* array[j] after "for each loop: array[j] += ((j / step) % nb) * mul; mul *= nb" (unsigned arithmetic) *)
Fixpoint gen_one (loops : list (N * N)) (j mul acc : N) : N :=
  match loops with
  | [] => acc
  | (step, nb) :: r => gen_one r j ((mul * nb) mod U32) ((acc + (((j / step) mod nb) * mul) mod U32) mod U32)
  end.
Definition gen_array (loops : list (N * N)) (total : N) : list N :=
  map (fun k => gen_one loops (N.of_nat k) 1 0) (seq 0 (N.to_nat total)).
Fixpoint check_array (a : list N) (j total : N) : bool :=
  match a with
  | [] => true
  | x :: r => if total <=? x then false else if (x =? 0) && negb (j =? 0) then false else check_array r (j + 1) total
  end.

Definition interleave v s lv (attr length total : N) : out (list N) :=
  do* nr_loops := count_colons (S (List.length s)) s attr (attr + length) 1 in
  let cap := nr_loops + 1 in
  let minstep0 := total mod U32 in
  do* c := rdo s attr in
  do* lm := (if isdigit c
             then xy_f v (S (List.length s)) s total attr nr_loops cap 0 minstep0 1 []
             else do* ds := ty_f v (S (List.length s)) s lv attr (attr + length) cap 0 [] in
                  ty_loops_f lv ds (N.to_nat nr_loops) (N.to_nat nr_loops) 0 total minstep0 1 []) in
  let '(loops, minstep, nbs) := lm in
  if nbs =? 0 then Fault FAssert else
  do* lp := (if negb (nbs =? total) then
               if minstep =? total / nbs
               then Ret (set_nth loops (N.to_nat nr_loops) (1, (total / nbs) mod U32), nr_loops + 1)
               else Rej
             else Ret (loops, nr_loops)) in
  let '(loops', nr') := lp in
  if U32 <=? total then Fault FHang       (* "unsigned j < total" never ends: not modelled *)
  else
    let a := gen_array (firstn (N.to_nat nr') loops') total in
    if (if fix_perm_check then forallb (fun x => x <? total) a && negb (dupb a) else check_array a 0 total) then Ret a else Rej.

Definition process_indexes v s lv (istr : option (N * N)) (total : N) : out (option (list N)) :=
  match istr with
  | None => Ret None
  | Some (attr, length) =>
    if T64 <=? total * 4 then Ret None            (* calloc(total, 4) overflows: NULL *)
    else
      let body :=
        do* i := lift (strspn s attr [48;49;50;51;52;53;54;55;56;57;44]) in
        if i =? length then
          do* a := explicit_f (2 + List.length s) s attr 0 total [] in
          if fix_dup_indexes && dupb a then Rej else Ret a
        else interleave v s lv attr length total in
      match body with Ret a => Ret (Some a) | Rej => Ret None | Fault f => Fault f end
  end.

(* ---------- hwloc_backend_synthetic_init ---------- *)
Record pstate := { st_lv : list level; st_count : N; st_tot : N; st_nnr : N; st_nistr : option (N * N) }.
Inductive stepres := SCont (st : pstate) (pos : N) | SBreak (st : pstate).

Definition keep_istr (new old : option (N * N)) := match new with Some x => Some x | None => old end.

Definition disallowed_level (ty : N) : bool :=
  (ty =? HWLOC_OBJ_MACHINE) || disallowed_io ty || (fix_memcache_level && (ty =? HWLOC_OBJ_MEMCACHE)).

Definition set_last_att (f : attached -> attached) (l : list attached) : list attached :=
  match rev l with [] => [] | x :: r => rev (f x :: r) end.

(* one iteration of "for (pos = description, count = 1; *pos; pos = next_pos)";
   the caller has checked *pos != 0 *)
Definition step v s (st : pstate) (pos : N) : out stepres :=
  let count := st_count st in
  do* lv := lv_upd (st_lv st) (count - 1) (set_arity (Some 0)) in
  do* pos := lift (scan_while (fun c => (c =? 32) || (c =? 10)) s pos) in
  do* c := rdo s pos in
  if c =? 0 then Ret (SBreak {| st_lv := lv; st_count := count; st_tot := st_tot st; st_nnr := st_nnr st; st_nistr := st_nistr st |}) else
  if c =? 91 then
    (* [attached] *)
    let pos := pos + 1 in
    do* ts := type_sscanf v s pos in
    match ts with
    | None => Rej
    | Some (ty, _, _) =>
      if negb (ty =? HWLOC_OBJ_NUMANODE) then Rej else
      do* par := lv_get lv (count - 1) in
      let nnr := (st_nnr st + lv_width par) mod T64 in
      do* lv := lv_upd lv (count - 1) (fun l => set_att (lv_att l ++ [{| at_mem := 0; at_msc := 0 |}]) l) in
      do* np := lift (strchr s pos 93) in
      match np with
      | None => Rej
      | Some p =>
        do* at_ := lift (strchr s pos 40) in
        do* r := (match at_ with
                  | Some a =>
                    if a <? p then
                      do* pa := parse_attrs s (a + 1) HWLOC_OBJ_NUMANODE 0 in
                      do* lv' := lv_upd lv (count - 1)
                                  (fun l => set_att (set_last_att (fun _ => {| at_mem := pa_mem pa; at_msc := pa_msc pa |}) (lv_att l)) l) in
                      Ret (lv', keep_istr (pa_istr pa) (st_nistr st))
                    else Ret (lv, st_nistr st)
                  | None => Ret (lv, st_nistr st)
                  end) in
        Ret (SCont {| st_lv := fst r; st_count := count; st_tot := st_tot st; st_nnr := nnr; st_nistr := snd r |} (p + 1))
      end
    end
  else
    (* normal level *)
    do* lv := lv_upd lv count (fun l => set_att [] (set_idx None None l)) in
    do* tp := (if negb (isdigit c) then
                 do* ts := type_sscanf v s pos in
                 do* tdc := (match ts with
                             | Some x => Ret x
                             | None =>
                               do* t1 := lift (has_prefix "Tile" s pos) in
                               do* t2 := (if t1 then Ret true else lift (has_prefix "Module" s pos)) in
                               (* attrs is an uninitialised union here; its group.depth is copied below *)
                               if t2 then Ret (HWLOC_OBJ_GROUP, M1, M1) else Rej
                             end) in
                 let '(ty, d, ct) := tdc in
                 if disallowed_level ty then Rej else
                 do* np := lift (strchr s pos 58) in
                 match np with None => Rej | Some p => Ret (ty, d, ct, p + 1) end
               else Ret (T_NONE, M1, M1, pos)) in
    let '(ty, d, ct, pos) := tp in
    let '(d', ct') := if is_cache ty then (d, ct) else if ty =? HWLOC_OBJ_GROUP then (d, M1) else (M1, M1) in
    do* lv := lv_upd lv count (set_tdc ty d' ct') in
    do* r := lift (strtoul s pos 0) in
    let item := fst r in let np := snd r in
    if np =? pos then Rej else
    if item =? 0 then Rej else
    if fix_width_overflow && (Strto.ULONG_MAX / item <? st_tot st) then Rej else
    let tot := (st_tot st * item) mod T64 in
    do* lv := lv_upd lv count (fun l => set_mem 0 0 (set_idx None None (set_width tot l))) in
    do* cn := rdo s np in
    do* r2 := (if cn =? 40 then
                 do* pa := parse_attrs s (np + 1) ty 0 in
                 do* lv' := lv_upd lv count (fun l => set_idx (keep_istr (pa_istr pa) (lv_istr l)) (lv_iarr l) (set_mem (pa_mem pa) (pa_msc pa) l)) in
                 Ret (lv', pa_next pa)
               else Ret (lv, np)) in
    let '(lv, np) := r2 in
    if MAXD <=? count + 1 then Rej else
    if Tables.UINT_MAX <? item then Rej else
    do* lv := lv_upd lv (count - 1) (set_arity (Some item)) in
    Ret (SCont {| st_lv := lv; st_count := count + 1; st_tot := tot; st_nnr := st_nnr st; st_nistr := st_nistr st |} np).

Fixpoint main_loop v (fuel : nat) s (st : pstate) (pos : N) : out pstate :=
  match fuel with
  | O => Fault FFuel
  | S f =>
    do* c := rdo s pos in
    if c =? 0 then Ret st else
    do* r := step v s st pos in
    match r with
    | SBreak st' => Ret st'
    | SCont st' pos' => main_loop v f s st' pos'
    end
  end.

Definition level0 : level := set_att [] (set_mem 0 0 (set_idx None None (set_tdc HWLOC_OBJ_MACHINE (lv_depth junk) (lv_ctype junk) (set_width 1 junk)))).
Definition init_levels : list level := level0 :: repeat junk (MAXnat - 1).

(* up to the end of the parsing loop: (state, index where the remaining description starts) *)
Definition front v s : out (pstate * N) :=
  do* c0 := rdo s 0 in
  do* r := (if c0 =? 40 then
              do* pa := parse_attrs s 1 HWLOC_OBJ_MACHINE 0 in
              do* lv := lv_upd init_levels 0 (fun l => set_idx (keep_istr (pa_istr pa) None) None (set_mem (pa_mem pa) (pa_msc pa) l)) in
              Ret (lv, pa_next pa)
            else Ret (init_levels, 0)) in
  let '(lv, d0) := r in
  do* st := main_loop v (S (List.length s)) s {| st_lv := lv; st_count := 1; st_tot := 1; st_nnr := 0; st_nistr := None |} d0 in
  Ret (st, d0).

(* types of levels 1 .. count-1 *)
Definition level_types (lv : list level) (count : N) : list N :=
  map lv_type (firstn (N.to_nat count - 1) (skipn 1 lv)).
Definition tcount (ts : list N) (t : N) : N := N.of_nat (List.length (filter (N.eqb t) ts)).

Fixpoint set_types (lv : list level) (asg : list (N * (N * N * N))) : out (list level) :=
  match asg with
  | [] => Ret lv
  | (i, (t, d, c)) :: r =>
    do* lv' := lv_upd lv i (fun l => set_tdc t (match d with 0 => lv_depth l | _ => d end) (if d =? 0 then lv_ctype l else c) l) in
    set_types lv' r
  end.

(* default types for untyped descriptions: list of (depth, (type, cache depth or 0, cache type)) *)
Definition default_assign (count nnr : N) : list (N * (N * N * N)) * N * N :=
  let c := count - 2 in
  let neednuma := if (1 <=? c) && (nnr =? 0) then 1 else 0 in
  let c := c - neednuma in
  let needpack := if 1 <=? c then 1 else 0 in
  let c := c - needpack in
  let needcore := if 1 <=? c then 1 else 0 in
  let c := c - needcore in
  let needcaches := if 4 <? c then 4 else c in
  let needgroups := c - needcaches in
  let groups := map (fun i => (1 + N.of_nat i, (HWLOC_OBJ_GROUP, 0, 0))) (seq 0 (N.to_nat needgroups)) in
  let pack := if needpack =? 1 then [(1 + needgroups, (HWLOC_OBJ_PACKAGE, 0, 0))] else [] in
  let numa := if neednuma =? 1 then [(1 + needgroups + needpack, (HWLOC_OBJ_NUMANODE, 0, 0))] else [] in
  let l3depth := 1 + needgroups + needpack + neednuma in
  let l2depth := l3depth + (if 3 <=? needcaches then 1 else 0) in
  let l1depth := l2depth + 1 in
  let l1idepth := l1depth + 1 in
  let caches :=
    if needcaches =? 0 then [] else
      (if 3 <=? needcaches then [(l3depth, (HWLOC_OBJ_L3CACHE, 3, HWLOC_OBJ_CACHE_UNIFIED))] else [])
      ++ [(l2depth, (HWLOC_OBJ_L2CACHE, 2, HWLOC_OBJ_CACHE_UNIFIED))]
      ++ (if 2 <=? needcaches then [(l1depth, (HWLOC_OBJ_L1CACHE, 1, HWLOC_OBJ_CACHE_DATA))] else [])
      ++ (if 4 <=? needcaches then [(l1idepth, (HWLOC_OBJ_L1ICACHE, 1, HWLOC_OBJ_CACHE_INSTRUCTION))] else []) in
  let core := if needcore =? 1 then [(1 + needgroups + needpack + neednuma + needcaches, (HWLOC_OBJ_CORE, 0, 0))] else [] in
  (groups ++ pack ++ numa ++ caches ++ core, needgroups, neednuma).

(* after the loop, up to (not including) "enforce a NUMA level":
   (levels, count, type_count[NUMANODE], type_count[GROUP]) *)
Definition middle (st : pstate) : out (list level * N * N * Z) :=
  let count := st_count st in
  do* last := lv_get (st_lv st) (count - 1) in
  if negb (lv_type last =? T_NONE) && negb (lv_type last =? HWLOC_OBJ_PU) then Rej else
  do* lv := lv_upd (st_lv st) (count - 1) (set_type HWLOC_OBJ_PU) in
  let ts := level_types lv count in
  let tc := tcount ts in
  if tc HWLOC_OBJ_PU =? 0 then Rej else
  if 1 <? tc HWLOC_OBJ_PU then Rej else
  if 1 <? tc HWLOC_OBJ_PACKAGE then Rej else
  if 1 <? tc HWLOC_OBJ_DIE then Rej else
  if 1 <? tc HWLOC_OBJ_NUMANODE then Rej else
  if negb (tc HWLOC_OBJ_NUMANODE =? 0) && negb (st_nnr st =? 0) then Rej else
  if 1 <? tc HWLOC_OBJ_CORE then Rej else
  let unset := tcount (firstn (N.to_nat count - 2) ts) T_NONE in
  if negb (unset =? 0) && negb (unset =? count - 2) then Rej else
  if negb (unset =? 0) then
    let '(asg, needgroups, neednuma) := default_assign count (st_nnr st) in
    do* lv' := set_types lv asg in
    Ret (lv', count, neednuma, Z.of_N (tc HWLOC_OBJ_GROUP + needgroups))
  else Ret (lv, count, tc HWLOC_OBJ_NUMANODE, Z.of_N (tc HWLOC_OBJ_GROUP)).

Definition needs_numa (tcnuma nnr : N) : bool := (tcnuma =? 0) && (nnr =? 0).

(* "enforce a NUMA level" *)
Definition numa_insert v (lv : list level) (count : N) : out (list level * N) :=
  do* lv := lv_memmove lv 2 1 (if fix_memmove v then count - 1 else count) in
  do* l0 := lv_get lv 0 in
  do* lv := lv_upd lv 1 (fun l => set_arity (lv_arity l0) (set_width (lv_width l0) (set_mem 0 0 (set_idx None None (set_type HWLOC_OBJ_NUMANODE l))))) in
  do* lv := lv_upd lv 0 (set_arity (Some 1)) in
  Ret (lv, count + 1).

(* hwloc_synthetic_set_default_attrs *)
Definition default_mem (ty depth mem : N) : N :=
  if is_cache ty then
    if mem =? 0 then (if depth =? 1 then 32768 else (262144 * 2 ^ (2 * depth)) mod T64) else mem
  else if (ty =? HWLOC_OBJ_NUMANODE) && (mem =? 0) then 1073741824 else mem.

Fixpoint final_loop v s (n : nat) (i : N) (lv : list level) (tcg : Z) : out (list level) :=
  match n with
  | O => Ret lv
  | S n' =>
    do* l := lv_get lv i in
    let '(d, tcg') := if (lv_type l =? HWLOC_OBJ_GROUP) && (lv_depth l =? M1) then (u32z tcg, (tcg - 1)%Z) else (lv_depth l, tcg) in
    let att := map (fun a => {| at_mem := default_mem HWLOC_OBJ_NUMANODE 0 (at_mem a); at_msc := at_msc a |}) (lv_att l) in
    do* lv := lv_upd lv i (fun l => set_att att (set_mem (default_mem (lv_type l) (lv_depth l) (lv_mem l)) (lv_msc l) (set_depth d l))) in
    do* ia := process_indexes v s lv (lv_istr l) (lv_width l) in
    do* lv := lv_upd lv i (fun l => set_idx (lv_istr l) ia l) in
    final_loop v s n' (i + 1) lv tcg'
  end.

Record synth := { sy_levels : list level; sy_nnr : N; sy_niarr : option (list N); sy_descr : N }.

Definition back v s (lv : list level) (count : N) (tcg : Z) (nnr : N) (nistr : option (N * N)) (d0 : N) : out synth :=
  do* lv := (if fix_arity v then lv_upd lv (count - 1) (set_arity (Some 0)) else Ret lv) in
  do* lv := final_loop v s (N.to_nat count) 0 lv tcg in
  do* nia := process_indexes v s lv nistr nnr in
  do* lv := lv_upd lv (count - 1) (set_arity (Some 0)) in
  Ret {| sy_levels := firstn (N.to_nat count) lv; sy_nnr := nnr; sy_niarr := nia; sy_descr := d0 |}.

Definition parse v (s : list N) : out synth :=
  do* fr := front v s in
  let '(st, d0) := fr in
  do* m := middle st in
  let '(lv, count, tcnuma, tcg) := m in
  do* r := (if needs_numa tcnuma (st_nnr st) then numa_insert v lv count else Ret (lv, count)) in
  back v s (fst r) (snd r) tcg (st_nnr st) (st_nistr st) d0.

(* the class of descriptions hit by the memmove defect: the parse reaches the
   implicit NUMA insertion with count = MAX-1 (126 levels below Machine) *)
Definition memmove_class v (s : list N) : Prop :=
  exists st d0 lv count tcn tcg,
    front v s = Ret (st, d0) /\ middle st = Ret (lv, count, tcn, tcg) /\
    needs_numa tcn (st_nnr st) = true /\ count = MAXD - 1.
