(* C18: no two NUMA requests of look_sysfsnode carry the same os index when list_sysfsnode listed pairwise distinct
   indexes (Text/LinuxNode.v is the model).  Each array slot is handled at most once over the two passes: the first
   pass takes the slots whose cpuset is not empty and leaves them not empty, the second pass takes the empty ones. *)
From Coq Require Import List NArith ZArith Bool String Lia.
From Coq Require Import Permutation.
From HV Require Import Base.BSet Base.Bytes Base.Strto Gen.Tables Text.LinuxParse Text.LinuxNode.
Import ListNotations.
Local Open Scope N_scope.

(* the os indexes of the created nodes, in array order *)
Definition created_os (nodes : list (option (N * bset))) : list N :=
  flat_map (fun o => match o with Some (os, _) => [os] | None => [] end) nodes.
(* the os indexes of the NUMA requests, in request order *)
Definition numa_os (l : list mreq) : list N :=
  flat_map (fun r => if r_type r =? HWLOC_OBJ_NUMANODE then [r_os r] else []) l.

(* ---------- the slots by emptiness of their cpuset ---------- *)
Definition nonzero_os (nodes : list (option (N * bset))) : list N :=
  flat_map (fun o => match o with Some (os, cs) => if is_zero cs then [] else [os] | None => [] end) nodes.
Definition zero_os (nodes : list (option (N * bset))) : list N :=
  flat_map (fun o => match o with Some (os, cs) => if is_zero cs then [os] else [] | None => [] end) nodes.

Lemma created_os_app a b : created_os (a ++ b) = created_os a ++ created_os b.
Proof. apply flat_map_app. Qed.
Lemma nonzero_os_app a b : nonzero_os (a ++ b) = nonzero_os a ++ nonzero_os b.
Proof. apply flat_map_app. Qed.
Lemma zero_os_app a b : zero_os (a ++ b) = zero_os a ++ zero_os b.
Proof. apply flat_map_app. Qed.
Lemma numa_os_app a b : numa_os (a ++ b) = numa_os a ++ numa_os b.
Proof. apply flat_map_app. Qed.

Lemma created_split nodes : Permutation (created_os nodes) (nonzero_os nodes ++ zero_os nodes).
Proof.
  induction nodes as [|[[os cs]|] t IH].
  - constructor.
  - change (created_os (Some (os, cs) :: t)) with (os :: created_os t).
    change (nonzero_os (Some (os, cs) :: t)) with ((if is_zero cs then [] else [os]) ++ nonzero_os t).
    change (zero_os (Some (os, cs) :: t)) with ((if is_zero cs then [os] else []) ++ zero_os t).
    destruct (is_zero cs).
    + cbn [app]. apply Permutation_cons_app. exact IH.
    + cbn [app]. constructor. exact IH.
  - exact IH.
Qed.

(* ---------- the union of a non-empty set is non-empty ---------- *)
Lemma is_zero_union_l a b : is_zero a = false -> is_zero (bs_union a b) = false.
Proof.
  unfold is_zero. intros Ha.
  destruct (bs_is_empty (bs_union a b)) eqn:E; [|reflexivity].
  rewrite <- Ha. symmetry. apply bs_is_empty_mem. intros i.
  pose proof (proj1 (bs_is_empty_mem _) E i) as Hi. rewrite mem_union in Hi.
  apply orb_false_iff in Hi. exact (proj1 Hi).
Qed.

(* ---------- one tree: exactly one NUMA request ---------- *)
Lemma numa_os_tree v os cs : numa_os (tree_requests v os cs) = [os].
Proof.
  unfold tree_requests. rewrite numa_os_app.
  assert (E : numa_os (if need_msc v
                       then map (fun '(d, sz) => mkMReq HWLOC_OBJ_MEMCACHE UINTMAX cs (bs_single os) d sz) (mscaches v os)
                       else []) = []).
  { destruct (need_msc v); [|reflexivity].
    induction (mscaches v os) as [|[d sz] t IH]; [reflexivity|].
    cbn [map]. unfold numa_os in *. cbn [flat_map r_type].
    change (HWLOC_OBJ_MEMCACHE =? HWLOC_OBJ_NUMANODE) with false. cbn [app]. exact IH. }
  rewrite E. reflexivity.
Qed.

(* ---------- creation: a sub-list of the indexes ---------- *)
Definition cstep (v : nview) : list (option (N * bset)) * bset -> N -> list (option (N * bset)) * bset :=
  fun '(acc, seen) os =>
         match read_mask (nf_cpumap (find_node v os)) with
         | None => (acc ++ [None], seen)
         | Some cs =>
             if bs_intersects seen cs && (allow_overlap v =? 0)%Z then (acc ++ [None], seen)
             else (acc ++ [Some (os, existing v cs)], bs_union seen cs)
         end.
Lemma create_nodes_eq v indexes : create_nodes v indexes = fst (fold_left (cstep v) indexes ([], bs_empty)).
Proof. reflexivity. Qed.

Lemma cstep_shape v acc seen os : exists slot seen',
  cstep v (acc, seen) os = (acc ++ [slot], seen') /\ (created_os [slot] = [] \/ created_os [slot] = [os]).
Proof.
  unfold cstep. destruct (read_mask (nf_cpumap (find_node v os))) as [cs|].
  - destruct (bs_intersects seen cs && (allow_overlap v =? 0)%Z).
    + eexists _, _. split; [reflexivity|left; reflexivity].
    + eexists _, _. split; [reflexivity|right; reflexivity].
  - eexists _, _. split; [reflexivity|left; reflexivity].
Qed.

Lemma create_fold_sub v : forall idx acc seen, NoDup idx ->
  exists sub, created_os (fst (fold_left (cstep v) idx (acc, seen))) = created_os acc ++ sub /\ NoDup sub /\ incl sub idx.
Proof.
  induction idx as [|os tl IH]; intros acc seen ND.
  - exists []. cbn [fold_left fst]. rewrite app_nil_r. repeat split; [constructor|intros x []].
  - inversion ND as [|? ? Hnot NDtl]; subst.
    destruct (cstep_shape v acc seen os) as (slot & seen' & E & Hs).
    cbn [fold_left]. rewrite E.
    destruct (IH (acc ++ [slot]) seen' NDtl) as (sub & Es & NDs & Is).
    rewrite Es, created_os_app, <- app_assoc.
    exists (created_os [slot] ++ sub). split; [reflexivity|].
    destruct Hs as [-> | ->]; cbn [app].
    + split; [exact NDs|]. intros x Hx. right. exact (Is x Hx).
    + split.
      * constructor; [|exact NDs]. intros Hin. exact (Hnot (Is os Hin)).
      * intros x [<-|Hx]; [left; reflexivity|right; exact (Is x Hx)].
Qed.

Lemma create_nodes_nodup v indexes : NoDup indexes -> NoDup (created_os (create_nodes v indexes)).
Proof.
  intros ND. rewrite create_nodes_eq.
  destruct (create_fold_sub v indexes [] bs_empty ND) as (sub & E & NDs & _).
  rewrite E. exact NDs.
Qed.

(* ---------- first pass ---------- *)
Definition step1 (v : nview) : list (option (N * bset)) * list mreq -> nat -> list (option (N * bset)) * list mreq :=
  fun '(nodes, reqs) i =>
     match nth i nodes None with
     | Some (os, cs) =>
         if is_zero cs then (nodes, reqs)
         else
           let cs' := if use_init v then match initiators_cpuset v nodes os with Some u => bs_union cs u | None => cs end else cs in
           (set_nth nodes i (Some (os, cs')), reqs ++ tree_requests v os cs')
     | None => (nodes, reqs)
     end.
Lemma pass1_eq v nodes : pass1 v nodes = fold_left (step1 v) (seq 0 (List.length nodes)) (nodes, []).
Proof. reflexivity. Qed.

Lemma set_nth_middle {A} (pre : list A) x y t : set_nth (pre ++ x :: t) (List.length pre) y = pre ++ y :: t.
Proof.
  unfold set_nth. rewrite firstn_app, firstn_all, Nat.sub_diag. cbn [firstn]. rewrite app_nil_r.
  replace (S (List.length pre)) with (List.length (pre ++ [x])) by (rewrite app_length; cbn [List.length]; lia).
  replace (pre ++ x :: t) with ((pre ++ [x]) ++ t) by (rewrite <- app_assoc; reflexivity).
  rewrite skipn_app, skipn_all, Nat.sub_diag. reflexivity.
Qed.

(* ---------- NVIDIA GPU nodes: a created slot is given another cpuset or dropped ---------- *)
Lemma first_with_os_spec x : forall nodes k0 k, first_with_os nodes x k0 = Some k ->
  exists cs pre post, nodes = pre ++ Some (x, cs) :: post /\ k = (k0 + List.length pre)%nat.
Proof.
  induction nodes as [|[[os cs]|] t IH]; intros k0 k H; cbn [first_with_os] in H.
  - discriminate.
  - destruct (os =? x) eqn:E.
    + apply N.eqb_eq in E. subst os. injection H as <-.
      exists cs, [], t. split; [reflexivity|]. cbn [List.length]. lia.
    + destruct (IH _ _ H) as (cs' & pre & post & -> & ->).
      exists cs', (Some (os, cs) :: pre), post. split; [reflexivity|]. cbn [List.length]. lia.
  - destruct (IH _ _ H) as (cs' & pre & post & -> & ->).
    exists cs', (None :: pre), post. split; [reflexivity|]. cbn [List.length]. lia.
Qed.

Lemma gpu_slot_nodup nodes x k (o : option (N * bset)) :
  (o = None \/ exists c, o = Some (x, c)) ->
  NoDup (created_os nodes) -> first_with_os nodes x 0 = Some k -> NoDup (created_os (set_nth nodes k o)).
Proof.
  intros Ho ND H. destruct (first_with_os_spec x nodes 0%nat k H) as (cs & pre & post & -> & ->).
  cbn [Nat.add]. rewrite set_nth_middle.
  rewrite created_os_app in ND. change (created_os (Some (x, cs) :: post)) with (x :: created_os post) in ND.
  rewrite created_os_app.
  destruct Ho as [-> | [c ->]].
  - change (created_os (None :: post)) with (created_os post). exact (NoDup_remove_1 _ _ _ ND).
  - exact ND.
Qed.

Lemma gpu_nodes_nodup v nodes : NoDup (created_os nodes) -> NoDup (created_os (gpu_nodes v nodes)).
Proof.
  unfold gpu_nodes. revert nodes. induction (nv_gpus v) as [|g gs IH]; intros nodes ND; [exact ND|].
  cbn [fold_left]. apply IH.
  destruct (gpu_node g) as [x|]; [|exact ND].
  destruct (first_with_os nodes x 0) as [k|] eqn:F; [|exact ND].
  apply (gpu_slot_nodup nodes x k); [|exact ND|exact F].
  destruct (nv_keep v); [right; eexists; reflexivity|left; reflexivity].
Qed.

Lemma final_nodes_nodup v indexes : NoDup indexes -> NoDup (created_os (final_nodes v indexes)).
Proof.
  intros ND. unfold final_nodes. destruct (nv_nvidia v).
  - apply gpu_nodes_nodup, create_nodes_nodup, ND.
  - apply create_nodes_nodup, ND.
Qed.

Lemma len_snoc {A} (pre : list A) y : S (List.length pre) = List.length (pre ++ [y]).
Proof. rewrite app_length. cbn [List.length]. lia. Qed.
Lemma app_snoc {A} (pre : list A) y t : pre ++ y :: t = (pre ++ [y]) ++ t.
Proof. rewrite <- app_assoc. reflexivity. Qed.

(* the step at the position just after [pre] *)
Lemma step1_at v pre x t reqs :
  exists y r, step1 v (pre ++ x :: t, reqs) (List.length pre) = (pre ++ y :: t, reqs ++ r) /\
              numa_os r = nonzero_os [x] /\ zero_os [y] = zero_os [x].
Proof.
  unfold step1. rewrite nth_middle.
  destruct x as [[os cs]|].
  - destruct (is_zero cs) eqn:Z.
    + exists (Some (os, cs)), []. rewrite app_nil_r. split; [reflexivity|]. split; [|reflexivity].
      unfold nonzero_os. cbn [flat_map]. rewrite Z. reflexivity.
    + rewrite set_nth_middle.
      set (cs' := if use_init v then _ else cs).
      assert (Z' : is_zero cs' = false).
      { subst cs'. destruct (use_init v); [|exact Z].
        destruct (initiators_cpuset v (pre ++ Some (os, cs) :: t) os); [|exact Z].
        apply is_zero_union_l. exact Z. }
      exists (Some (os, cs')), (tree_requests v os cs'). split; [reflexivity|].
      rewrite numa_os_tree. unfold nonzero_os, zero_os. cbn [flat_map]. rewrite Z, Z'. split; reflexivity.
  - exists None, []. rewrite app_nil_r. repeat split.
Qed.

Lemma pass1_gen v : forall post pre reqs,
  let r := fold_left (step1 v) (seq (List.length pre) (List.length post)) (pre ++ post, reqs) in
  numa_os (snd r) = numa_os reqs ++ nonzero_os post /\ zero_os (fst r) = zero_os (pre ++ post).
Proof.
  induction post as [|x t IH]; intros pre reqs.
  - cbn [List.length seq fold_left fst snd]. rewrite app_nil_r. split; reflexivity.
  - cbn zeta. cbn [List.length seq fold_left].
    destruct (step1_at v pre x t reqs) as (y & r & E & Hr & Hy).
    rewrite E, (len_snoc pre y), (app_snoc pre y t).
    specialize (IH (pre ++ [y]) (reqs ++ r)). cbn zeta in IH. destruct IH as [IH1 IH2].
    split.
    + rewrite IH1, numa_os_app, Hr, <- app_assoc.
      change (x :: t) with ([x] ++ t). rewrite nonzero_os_app. reflexivity.
    + rewrite IH2, (app_snoc pre x t), !zero_os_app, Hy. reflexivity.
Qed.

Lemma pass1_spec v nodes :
  numa_os (snd (pass1 v nodes)) = nonzero_os nodes /\ zero_os (fst (pass1 v nodes)) = zero_os nodes.
Proof.
  rewrite pass1_eq. exact (pass1_gen v nodes [] []).
Qed.

(* ---------- second pass ---------- *)
Definition step2 (v : nview) (dist : option (list (list N)))
  : list (option (N * bset)) * list mreq -> nat -> list (option (N * bset)) * list mreq :=
  fun '(nodes, reqs) i =>
     match nth i nodes None with
     | Some (os, cs) =>
         if is_zero cs then
           let after_init := if use_init v then match initiators_cpuset v nodes os with Some u => Some (bs_union cs u) | None => None end else None in
           let cs' :=
             match after_init with
             | Some c1 => if negb (is_zero c1) then c1
                          else match dist with
                               | Some m => if nv_dcl v then match cpuless_from_distances m nodes i with Some u => bs_union c1 u | None => c1 end else c1
                               | None => c1
                               end
             | None => match dist with
                       | Some m => if nv_dcl v then match cpuless_from_distances m nodes i with Some u => bs_union cs u | None => cs end else cs
                       | None => cs
                       end
             end in
           (set_nth nodes i (Some (os, cs')), reqs ++ tree_requests v os cs')
         else (nodes, reqs)
     | None => (nodes, reqs)
     end.
Lemma pass2_eq v dist nodes reqs :
  pass2 v dist nodes reqs = fold_left (step2 v dist) (seq 0 (List.length nodes)) (nodes, reqs).
Proof. reflexivity. Qed.

Lemma step2_at v dist pre x t reqs :
  exists y r, step2 v dist (pre ++ x :: t, reqs) (List.length pre) = (pre ++ y :: t, reqs ++ r) /\
              numa_os r = zero_os [x].
Proof.
  unfold step2. rewrite nth_middle.
  destruct x as [[os cs]|].
  - destruct (is_zero cs) eqn:Z.
    + rewrite set_nth_middle.
      eexists (Some (os, _)), (tree_requests v os _). split; [reflexivity|].
      rewrite numa_os_tree. unfold zero_os. cbn [flat_map]. rewrite Z. reflexivity.
    + exists (Some (os, cs)), []. rewrite app_nil_r. split; [reflexivity|].
      unfold zero_os. cbn [flat_map]. rewrite Z. reflexivity.
  - exists None, []. rewrite app_nil_r. split; reflexivity.
Qed.

Lemma pass2_gen v dist : forall post pre reqs,
  numa_os (snd (fold_left (step2 v dist) (seq (List.length pre) (List.length post)) (pre ++ post, reqs)))
  = numa_os reqs ++ zero_os post.
Proof.
  induction post as [|x t IH]; intros pre reqs.
  - cbn [List.length seq fold_left snd]. rewrite app_nil_r. reflexivity.
  - cbn [List.length seq fold_left].
    destruct (step2_at v dist pre x t reqs) as (y & r & E & Hr).
    rewrite E, (len_snoc pre y), (app_snoc pre y t), IH, numa_os_app, Hr, <- app_assoc.
    change (x :: t) with ([x] ++ t). rewrite zero_os_app. reflexivity.
Qed.

Lemma pass2_spec v dist nodes reqs :
  numa_os (snd (pass2 v dist nodes reqs)) = numa_os reqs ++ zero_os nodes.
Proof. rewrite pass2_eq. exact (pass2_gen v dist nodes [] reqs). Qed.

(* ---------- the whole function ---------- *)
(* the NUMA requests are those of the slots with a non-empty cpuset, then those of the slots with an empty one *)
Lemma numa_requests_order v indexes l :
  list_nodes v = inl (Some indexes) -> linux_node_requests v = Requests l ->
  numa_os l = nonzero_os (final_nodes v indexes) ++ zero_os (final_nodes v indexes).
Proof.
  intros HL HR. unfold linux_node_requests in HR. rewrite HL in HR. cbn zeta in HR.
  destruct (if nv_dist v && negb (Nat.leb (List.length indexes) 1) then parse_rows v (List.length indexes) indexes else inl None)
    as [dist|why]; [|discriminate].
  destruct (nv_knl v); [discriminate|].
  pose proof (pass1_spec v (final_nodes v indexes)) as [P1 P1z].
  destruct (pass1 v (final_nodes v indexes)) as [nodes1 reqs1]. cbn [fst snd] in P1, P1z.
  pose proof (pass2_spec v dist nodes1 reqs1) as P2.
  destruct (pass2 v dist nodes1 reqs1) as [nodes2 reqs2]. cbn [snd] in P2.
  injection HR as <-. rewrite P2, P1, P1z. reflexivity.
Qed.

(* If the node indexes listed by list_sysfsnode are pairwise distinct, no two NUMA requests have the same os index. *)
Lemma numa_requests_distinct : forall v indexes l,
  list_nodes v = inl (Some indexes) -> NoDup indexes ->
  linux_node_requests v = Requests l -> NoDup (numa_os l).
Proof.
  intros v indexes l HL ND HR.
  rewrite (numa_requests_order v indexes l HL HR).
  eapply Permutation_NoDup; [apply created_split|].
  apply final_nodes_nodup. exact ND.
Qed.

(* the hypotheses are met by a machine (online = "0-2") whose node 1 is CPU-less: it is requested by the second pass,
   after nodes 0 and 2 *)
Definition distinct_view : nview :=
  mkNV false false false false false false None false true [] bs_empty (Some [48; 45; 50; 10])
       None
       [mkNF 0 (Some [49; 10]) None None None None;
        mkNF 1 (Some [48; 10]) None None None None;
        mkNF 2 (Some [50; 10]) None None None None].
Example distinct_view_meets :
  list_nodes distinct_view = inl (Some [0; 1; 2]) /\ NoDup [0; 1; 2] /\
  exists l, linux_node_requests distinct_view = Requests l /\ numa_os l = [0; 2; 1].
Proof.
  split; [vm_compute; reflexivity|]. split.
  - repeat constructor; cbn [In]; lia.
  - eexists. split; vm_compute; reflexivity.
Qed.

(* the same machine with NVIDIA GPU memory as node 1 ("Node: 1" in numa_status), not kept: node 1 is not requested *)
Definition distinct_gpu_view : nview :=
  mkNV false false false false false false None true false
       [mkGpu (Some [78; 111; 100; 101; 58; 32; 49; 10]) None]
       bs_empty (Some [48; 45; 50; 10]) None
       [mkNF 0 (Some [49; 10]) None None None None;
        mkNF 1 (Some [48; 10]) None None None None;
        mkNF 2 (Some [50; 10]) None None None None].
Example distinct_gpu_view_meets :
  list_nodes distinct_gpu_view = inl (Some [0; 1; 2]) /\ NoDup [0; 1; 2] /\
  exists l, linux_node_requests distinct_gpu_view = Requests l /\ numa_os l = [0; 2].
Proof.
  split; [vm_compute; reflexivity|]. split.
  - repeat constructor; cbn [In]; lia.
  - eexists. split; vm_compute; reflexivity.
Qed.

Print Assumptions numa_requests_distinct.
