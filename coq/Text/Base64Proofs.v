(* Lemmas about Text/Base64.v: the decoder inverts the encoder on every byte
   string (every length mod 3), the length formula, and the output alphabet. *)
From Coq Require Import NArith ZArith PeanoNat List Bool Lia ZifyBool ZifyN ZifyNat.
From HV Require Import Base.Bytes Text.Base64.
Import ListNotations.
Local Open Scope N_scope.
Ltac Zify.zify_post_hook ::= Z.div_mod_to_equations.

(* ---------- finite ranges ---------- *)
Definition range (n : nat) : list N := map N.of_nat (seq 0 n).
Lemma in_range v n : v < N.of_nat n -> In v (range n).
Proof.
  intros H. unfold range. apply in_map_iff. exists (N.to_nat v). split; [lia|].
  apply in_seq. lia.
Qed.
Lemma forall_range (p : N -> bool) n : forallb p (range n) = true -> forall v, v < N.of_nat n -> p v = true.
Proof. intros H v Hv. rewrite forallb_forall in H. apply H, in_range, Hv. Qed.

(* ---------- the alphabet ---------- *)
Definition char_ok (v : N) : bool :=
  let c := b64c v in
  negb (c =? 0) && negb (isspace c) && negb (c =? PAD) &&
  match b64_pos c with Some p => p =? v | None => false end.
Lemma char_ok_all : forallb char_ok (range 64) = true.
Proof. vm_compute. reflexivity. Qed.

Lemma b64c_facts v : v < 64 ->
  (b64c v =? 0) = false /\ isspace (b64c v) = false /\ (b64c v =? PAD) = false /\ b64_pos (b64c v) = Some v.
Proof.
  intros Hv. pose proof (forall_range char_ok 64 char_ok_all v Hv) as H.
  unfold char_ok in H. cbv zeta in H.
  destruct (b64c v =? 0) eqn:E0; [discriminate|].
  destruct (isspace (b64c v)) eqn:E1; [discriminate|].
  destruct (b64c v =? PAD) eqn:E2; [discriminate|].
  destruct (b64_pos (b64c v)) as [p|] eqn:E3; [|discriminate].
  simpl in H. apply N.eqb_eq in H. subst p. auto.
Qed.

(* ---------- one decoder step on a character of the alphabet ---------- *)
Lemma dec_step ch pos tl st out cur T :
  (ch =? 0) = false -> isspace ch = false -> (ch =? PAD) = false -> b64_pos ch = Some pos ->
  dec_loop (ch :: tl) st out cur T =
    (if st =? 0 then
       if T <=? N.of_nat (length out) then None else dec_loop tl 1 out ((pos * 4) mod 256) T
     else if st =? 1 then
       if T <=? N.of_nat (length out) + 1 then None
       else dec_loop tl 2 (N.lor cur (pos / 16) :: out) (((pos mod 16) * 16) mod 256) T
     else if st =? 2 then
       if T <=? N.of_nat (length out) + 1 then None
       else dec_loop tl 3 (N.lor cur (pos / 4) :: out) (((pos mod 4) * 64) mod 256) T
     else
       if T <=? N.of_nat (length out) then None else dec_loop tl 0 (N.lor cur pos :: out) 0 T).
Proof.
  intros H0 H1 H2 H3. cbn [dec_loop]. rewrite H0, H1, H2, H3. reflexivity.
Qed.

Lemma dec_step_v v tl st out cur T : v < 64 ->
  dec_loop (b64c v :: tl) st out cur T =
    (if st =? 0 then
       if T <=? N.of_nat (length out) then None else dec_loop tl 1 out ((v * 4) mod 256) T
     else if st =? 1 then
       if T <=? N.of_nat (length out) + 1 then None
       else dec_loop tl 2 (N.lor cur (v / 16) :: out) (((v mod 16) * 16) mod 256) T
     else if st =? 2 then
       if T <=? N.of_nat (length out) + 1 then None
       else dec_loop tl 3 (N.lor cur (v / 4) :: out) (((v mod 4) * 64) mod 256) T
     else
       if T <=? N.of_nat (length out) then None else dec_loop tl 0 (N.lor cur v :: out) 0 T).
Proof.
  intros Hv. destruct (b64c_facts v Hv) as (H0 & H1 & H2 & H3). now apply dec_step.
Qed.

(* ---------- the three byte identities (finite domains, by computation) ---------- *)
Definition byte0_ok (a hb : N) : bool :=
  N.lor (((a / 4) * 4) mod 256) (((a mod 4) * 16 + hb) / 16) =? a.
Definition byte1_ok (a4 b hc : N) : bool :=
  let s1 := a4 * 16 + b / 16 in let s2 := (b mod 16) * 4 + hc in
  N.lor (((s1 mod 16) * 16) mod 256) (s2 / 4) =? b.
Definition byte2_ok (b16 c : N) : bool :=
  let s2 := b16 * 4 + c / 64 in
  N.lor (((s2 mod 4) * 64) mod 256) (c mod 64) =? c.

Lemma byte0_all : forallb (fun a => forallb (byte0_ok a) (range 16)) (range 256) = true.
Proof. vm_compute. reflexivity. Qed.
Lemma byte1_all : forallb (fun a4 => forallb (fun b => forallb (byte1_ok a4 b) (range 4)) (range 256)) (range 4) = true.
Proof. vm_compute. reflexivity. Qed.
Lemma byte2_all : forallb (fun b16 => forallb (byte2_ok b16) (range 256)) (range 16) = true.
Proof. vm_compute. reflexivity. Qed.

Lemma byte0 a hb : a < 256 -> hb < 16 ->
  N.lor (((a / 4) * 4) mod 256) (((a mod 4) * 16 + hb) / 16) = a.
Proof.
  intros Ha Hb. apply N.eqb_eq.
  pose proof (forall_range _ 256 byte0_all a Ha) as H. cbv beta in H.
  exact (forall_range _ 16 H hb Hb).
Qed.
Lemma byte1 a4 b hc : a4 < 4 -> b < 256 -> hc < 4 ->
  N.lor ((((a4 * 16 + b / 16) mod 16) * 16) mod 256) (((b mod 16) * 4 + hc) / 4) = b.
Proof.
  intros Ha Hb Hc. apply N.eqb_eq.
  pose proof (forall_range _ 4 byte1_all a4 Ha) as H. cbv beta in H.
  pose proof (forall_range _ 256 H b Hb) as H'. cbv beta in H'.
  exact (forall_range _ 4 H' hc Hc).
Qed.
Lemma byte2 b16 c : b16 < 16 -> c < 256 ->
  N.lor ((((b16 * 4 + c / 64) mod 4) * 64) mod 256) (c mod 64) = c.
Proof.
  intros Hb Hc. apply N.eqb_eq.
  pose proof (forall_range _ 16 byte2_all b16 Hb) as H. cbv beta in H.
  exact (forall_range _ 256 H c Hc).
Qed.

(* ---------- induction three elements at a time ---------- *)
Lemma list_ind3 {A} (P : list A -> Prop) :
  P [] -> (forall a, P [a]) -> (forall a b, P [a; b]) ->
  (forall a b c tl, P tl -> P (a :: b :: c :: tl)) -> forall l, P l.
Proof.
  intros H0 H1 H2 H3.
  assert (H : forall l, P l /\ (forall a, P (a :: l)) /\ (forall a b, P (a :: b :: l))).
  { induction l as [|x l (IH0 & IH1 & IH2)]; [now auto|].
    split; [apply IH1|]. split; [intros a; apply IH2|]. intros a b. now apply H3. }
  intros l. apply H.
Qed.

Lemma ltb_false_le a b : b < a -> (a <=? b) = false.
Proof. intros H. apply N.leb_gt. exact H. Qed.

(* ---------- decode (encode bytes) ---------- *)
Lemma dec_encode_gen T : forall bytes, Forall (fun b => b < 256) bytes ->
  forall out cur, N.of_nat (length out + length bytes) < T ->
  dec_loop (encode bytes) 0 out cur T = Some (rev out ++ bytes).
Proof.
  induction bytes as [|a|a b|a b c tl IH] using list_ind3; intros HB out cur HT.
  - simpl. now rewrite app_nil_r.
  - (* one byte: two characters and two pads *)
    inversion HB as [|? ? Ha _]; subst.
    cbn [encode]. cbn [length] in HT.
    rewrite dec_step_v by lia. cbn [N.eqb]. rewrite ltb_false_le by lia.
    rewrite dec_step_v by lia.
    change (1 =? 0) with false. change (1 =? 1) with true. cbv iota.
    rewrite ltb_false_le by lia.
    cbn [dec_loop]. change (PAD =? 0) with false. change (isspace PAD) with false. change (PAD =? PAD) with true.
    cbv iota.
    assert (E : (((a mod 4 * 16) mod 16) * 16) mod 256 = 0) by lia. rewrite E.
    pose proof (byte0 a 0 Ha ltac:(lia)) as B0. rewrite N.add_0_r in B0. rewrite B0.
    reflexivity.
  - (* two bytes: three characters and one pad *)
    inversion HB as [|? ? Ha HB']; subst. inversion HB' as [|? ? Hb _]; subst.
    cbn [encode]. cbn [length] in HT.
    rewrite dec_step_v by lia. cbn [N.eqb]. rewrite ltb_false_le by lia.
    rewrite dec_step_v by lia.
    change (1 =? 0) with false. change (1 =? 1) with true. cbv iota.
    rewrite ltb_false_le by lia.
    rewrite dec_step_v by lia.
    change (2 =? 0) with false. change (2 =? 1) with false. change (2 =? 2) with true. cbv iota.
    cbn [length]. rewrite ltb_false_le by lia.
    cbn [dec_loop]. change (PAD =? 0) with false. change (isspace PAD) with false. change (PAD =? PAD) with true.
    cbv iota.
    assert (E : (((b mod 16 * 4) mod 4) * 64) mod 256 = 0) by lia. rewrite E.
    rewrite (byte0 a (b / 16) Ha) by lia.
    pose proof (byte1 (a mod 4) b 0 ltac:(lia) Hb ltac:(lia)) as B1. rewrite N.add_0_r in B1. rewrite B1.
    cbn [finish_pad only_spaces N.ltb N.compare N.eqb andb]. cbn [rev]. rewrite <- !app_assoc. reflexivity.
  - (* a full group *)
    inversion HB as [|? ? Ha HB1]; subst. inversion HB1 as [|? ? Hb HB2]; subst. inversion HB2 as [|? ? Hc HB3]; subst.
    cbn [encode]. cbn [length] in HT.
    rewrite dec_step_v by lia. cbn [N.eqb]. rewrite ltb_false_le by lia.
    rewrite dec_step_v by lia.
    change (1 =? 0) with false. change (1 =? 1) with true. cbv iota.
    rewrite ltb_false_le by lia.
    rewrite dec_step_v by lia.
    change (2 =? 0) with false. change (2 =? 1) with false. change (2 =? 2) with true. cbv iota.
    cbn [length]. rewrite ltb_false_le by lia.
    rewrite dec_step_v by lia.
    change (3 =? 0) with false. change (3 =? 1) with false. change (3 =? 2) with false. cbv iota.
    cbn [length]. rewrite ltb_false_le by lia.
    rewrite (byte0 a (b / 16) Ha) by lia.
    rewrite (byte1 (a mod 4) b (c / 64)) by lia.
    rewrite (byte2 (b mod 16) c) by lia.
    rewrite IH; [|exact HB3|cbn [length]; lia].
    cbn [rev]. rewrite <- !app_assoc. reflexivity.
Qed.

Lemma b64_decode_encode_l bytes T :
  Forall (fun b => b < 256) bytes -> N.of_nat (length bytes) < T ->
  decode (encode bytes) T = Some bytes.
Proof.
  intros HB HT. unfold decode. rewrite (dec_encode_gen T bytes HB [] 0); [reflexivity|exact HT].
Qed.

(* the target of exactly [length] bytes (no room for the byte after) is refused when the length is not a multiple of 3:
   this is why the importer allocates length+1 *)
Lemma decode_needs_one_more : decode (encode [65]) 1 = None /\ decode (encode [65]) 2 = Some [65].
Proof. vm_compute. auto. Qed.

(* ---------- length ---------- *)
Lemma b64_encoded_length_l bytes : N.of_nat (length (encode bytes)) = encoded_length (N.of_nat (length bytes)).
Proof.
  unfold encoded_length.
  induction bytes as [|a|a b|a b c tl IH] using list_ind3; [reflexivity|reflexivity|reflexivity|].
  cbn [encode length]. lia.
Qed.

Lemma encode_to_spec bytes T :
  encode_to bytes T = if encoded_length (N.of_nat (length bytes)) <? T then Some (encode bytes) else None.
Proof. unfold encode_to. now rewrite b64_encoded_length_l. Qed.

(* ---------- the output needs no XML escaping and has no NUL ---------- *)
Definition content_plain (c : N) : bool :=
  (33 <=? c) && (c <=? 126) && negb (c =? 60) && negb (c =? 62) && negb (c =? 38) && negb (c =? 34).
Lemma alphabet_plain : forallb (fun v => content_plain (b64c v)) (range 64) = true.
Proof. vm_compute. reflexivity. Qed.
Lemma encode_plain bytes : Forall (fun b => b < 256) bytes -> forallb content_plain (encode bytes) = true.
Proof.
  assert (P : forall v, v < 64 -> content_plain (b64c v) = true) by (apply (forall_range _ 64), alphabet_plain).
  induction bytes as [|a|a b|a b c tl IH] using list_ind3; intros HB.
  - reflexivity.
  - inversion HB; subst. cbn [encode forallb]. rewrite !P by lia. reflexivity.
  - inversion HB as [|? ? Ha HB1]; subst. inversion HB1; subst. cbn [encode forallb]. rewrite !P by lia. reflexivity.
  - inversion HB as [|? ? Ha HB1]; subst. inversion HB1 as [|? ? Hb HB2]; subst. inversion HB2 as [|? ? Hc HB3]; subst.
    cbn [encode forallb]. rewrite !P by lia. rewrite IH by exact HB3. reflexivity.
Qed.
