(* C11 - model of the type-name functions of hwloc/traversal.c

     hwloc_obj_type_string, hwloc__type_match, hwloc__osdev_type_sscanf,
     hwloc__osdev_types_sscanf, hwloc_type_sscanf,
     hwloc_obj_cache_type_letter, hwloc__osdev_type_snprintf_short/_normal,
     hwloc_obj_type_snprintf, hwloc_memory_size_snprintf (private.h),
     hwloc_obj_attr_snprintf

   Strings given to the parsers are checked blocks ([Base.Bytes]): every read
   goes through [rdr]; reading outside a block (the caller's string, or one of
   the string literals passed as [type] to hwloc__type_match) is [Oob].
   Printers are lists of pieces run through the cursor idiom of [Base.Snprintf].

   Tables come from Gen/Tables.v (regenerated from the current source):
   obj_type_string_tbl, osdev_names_tbl (names[] of traversal.c),
   cache_letter_tbl, the OS-device bits, the snprintf flags, sizeof of the
   attribute union members.  The keyword if-chain of hwloc_type_sscanf is not a
   table in C; it is written by hand below and re-proved equal to what the C
   function answers on a dictionary built from every keyword
   (Properties_C11.type_sscanf_model_agrees_on_dictionary). *)
From Coq Require Import String Ascii NArith ZArith PeanoNat List Bool Lia.
From HV Require Import Base.Bytes Base.Strto Base.Snprintf Gen.Tables Text.TypeOrder.
Import ListNotations.
Local Open Scope N_scope.

(* ------------------------------------------------------------------ *)
(* Code variants.  Both variants of each function are modelled and proved;
   these two constants say which one the current /repo source is.
   They are switched by /verif/patches/verif-C11-after-*.diff when the
   corresponding fix is committed to /repo.                              *)

(* traversal.c:611  `while (ostype) { for (...) ... }` in
   hwloc__osdev_type_snprintf_normal: true = the loop as it is (never ends when
   a bit outside names[] is set); false = fixed code (one pass). *)
Definition OSDEV_PRINT_WHILE : bool := false.

(* traversal.c:314  hwloc__type_match: true = the current code (/repo c06b512,
   `if (!*t || ( *s != *t && ...))`); false = the code before that fix, which kept
   comparing after the terminator of the literal when the caller's byte was
   0xE0 = (char)('\0' + 'A' - 'a') and read past the literal. *)
Definition TYPE_MATCH_STOPS_AT_LITERAL_END : bool := true.

(* ------------------------------------------------------------------ *)
(* number formatting: %u / %llu / %d / %0<w>x *)

Fixpoint dec_aux (fuel : nat) (n : N) (acc : list N) : list N :=
  match fuel with
  | O => acc
  | S f => let acc' := (48 + n mod 10) :: acc in
           if n <? 10 then acc' else dec_aux f (n / 10) acc'
  end.
(* N.size n binary digits are at least as many as the decimal digits *)
Definition dec (n : N) : list N := dec_aux (S (N.to_nat (N.size n))) n [].
Definition dec_z (z : Z) : list N :=
  if (z <? 0)%Z then 45 :: dec (Z.abs_N z) else dec (Z.to_N z).

Definition hexc (d : N) : N := if d <? 10 then 48 + d else 87 + d.
Fixpoint hex_aux (fuel : nat) (n : N) (acc : list N) : list N :=
  match fuel with
  | O => acc
  | S f => let acc' := hexc (n mod 16) :: acc in
           if n <? 16 then acc' else hex_aux f (n / 16) acc'
  end.
Definition hex (n : N) : list N := hex_aux (S (N.to_nat (N.size n))) n [].
(* %0<w>x *)
Definition hex_w (w : nat) (n : N) : list N :=
  let h := hex n in repeat 48 (w - length h) ++ h.

Definition lit (s : string) : list N := bytes_of_string s.

(* ------------------------------------------------------------------ *)
(* hwloc_obj_type_string *)
(* table lookups are guarded so that the extracted model never converts a huge
   type number to unary; same functions as TypeOrder.is_cache / nthN (default
   beyond the 20 entries) *)
Definition obj_type_string (t : N) : string :=
  if t <? HWLOC_OBJ_TYPE_MAX then nthN obj_type_string_tbl t "Unknown"%string else "Unknown"%string.
Definition tcache (t : N) : bool := if t <? HWLOC_OBJ_TYPE_MAX then is_cache t else false.

(* ------------------------------------------------------------------ *)
(* hwloc__type_match(string + p, type, minmatch)

     for(i=0, s=string, t=type; ; i++, s++, t++) {
       if (!*s) return i<minmatch ? NULL : s;
       if (!*t || ( *s != *t && *s != *t + 'A' - 'a')) {       -- `!*t ||` since /repo c06b512 (chk)
         if (letter or '-') return NULL;
         return i<minmatch ? NULL : s;
       }
     }

   char is signed on this target (Tables.CHAR_IS_SIGNED): the comparison is
   done on ints, so a caller's byte 0xE0 (-32) equals '\0' + 'A' - 'a'.
   [trest] is what remains of the literal's block, terminator included: the
   read of *t after it is Oob.  Returns the index in the caller's block. *)
Definition schar (b : N) : Z := if b <? 128 then Z.of_N b else (Z.of_N b - 256)%Z.
Definition tm_differs (sb tb : N) : bool :=
  negb (schar sb =? schar tb)%Z && negb (schar sb =? schar tb + 65 - 97)%Z.
Definition tm_letter (sb : N) : bool := islower sb || isupper sb || (sb =? 45).

Section Variants.
(* chk = TYPE_MATCH_STOPS_AT_LITERAL_END, loop = OSDEV_PRINT_WHILE *)
Variable chk : bool.

Fixpoint tm_loop (s : list N) (p : N) (trest : list N) (i minmatch : N) : res (option N) :=
  let* sb := rdr s (p + i) in
  if sb =? 0 then Ok (if i <? minmatch then None else Some (p + i))
  else match trest with
       | [] => Oob                                   (* *t read past the literal *)
       | tb :: tr =>
         if (chk && (tb =? 0)) || tm_differs sb tb then
           if tm_letter sb then Ok None
           else Ok (if i <? minmatch then None else Some (p + i))
         else tm_loop s p tr (N.succ i) minmatch
       end.

Definition type_match (s : list N) (p : N) (type : string) (minmatch : N) : res (option N) :=
  tm_loop s p (cstr type) 0 minmatch.

(* a || b || ... over hwloc__type_match calls, evaluated left to right *)
Fixpoint any_match (s : list N) (p : N) (alts : list (string * N)) : res bool :=
  match alts with
  | [] => Ok false
  | (k, mm) :: r =>
    let* m := type_match s p k mm in
    match m with Some _ => Ok true | None => any_match s p r end
  end.
(* if (a1 || a2) x1 else if (b1) x2 ... *)
Fixpoint first_kw {A} (s : list N) (p : N) (tbl : list (list (string * N) * A)) : res (option A) :=
  match tbl with
  | [] => Ok None
  | (alts, a) :: r =>
    let* b := any_match s p alts in
    if b then Ok (Some a) else first_kw s p r
  end.

(* hwloc__osdev_type_sscanf *)
Definition osdev_kw : list (list (string * N) * N) :=
  [ ([("storage", 4); ("block", 4)], HWLOC_OBJ_OSDEV_STORAGE);
    ([("memory", 3)], HWLOC_OBJ_OSDEV_MEMORY);
    ([("network", 3)], HWLOC_OBJ_OSDEV_NETWORK);
    ([("ofed", 4); ("openfabrics", 7)], HWLOC_OBJ_OSDEV_OPENFABRICS);
    ([("dma", 3)], HWLOC_OBJ_OSDEV_DMA);
    ([("gpu", 3)], HWLOC_OBJ_OSDEV_GPU);
    ([("coproc", 5); ("co-processor", 6)], HWLOC_OBJ_OSDEV_COPROC) ]%string.
Definition osdev_type_sscanf (s : list N) (p : N) : res (option N) := first_kw s p osdev_kw.

(* hwloc__osdev_types_sscanf(string + p, &ostype):
     while (1) { if (osdev_type_sscanf(string,&new)) *ostype |= new;
                 next = strchr(string, ','); if (!next) break; string = next+1; }
     strchr(string, ']')  -- result ignored by the only caller
   string advances by at least one byte per iteration and stays inside the C
   string, so [length s] iterations always suffice (osdev_types_fuel_enough);
   running out of fuel is reported as Oob. *)
Fixpoint osdev_types_loop (fuel : nat) (s : list N) (p : N) (acc : N) : res N :=
  match fuel with
  | O => Oob
  | S f =>
    let* o := osdev_type_sscanf s p in
    let acc' := match o with Some b => N.lor acc b | None => acc end in
    let* nx := strchr s p 44 in
    match nx with
    | None => let* _ := strchr s p 93 in Ok acc'
    | Some j => osdev_types_loop f s (N.succ j) acc'
    end
  end.
Definition osdev_types_sscanf (s : list N) (p : N) : res N :=
  osdev_types_loop (S (length s)) s p 0.

(* ------------------------------------------------------------------ *)
(* hwloc_type_sscanf *)
(* the local variables at `*typep = type;` *)
Record sscanf_vals := SV { sv_type : N; sv_depth : N; sv_ctype : Z; sv_ub : Z; sv_os : N }.
Definition NEG1U : N := UINT_MAX.                 (* (unsigned) -1 *)
Definition to_unsigned (z : Z) : N := Z.to_N (z mod 4294967296).   (* (unsigned)(long) *)

Definition plain_kw : list (list (string * N) * (N * Z)) :=
  [ ([("machine", 2)], (HWLOC_OBJ_MACHINE, (-1)%Z));
    ([("numanode", 2); ("node", 2)], (HWLOC_OBJ_NUMANODE, (-1)%Z));
    ([("memcache", 5); ("memory-side cache", 8)], (HWLOC_OBJ_MEMCACHE, (-1)%Z));
    ([("package", 2); ("socket", 2)], (HWLOC_OBJ_PACKAGE, (-1)%Z));
    ([("die", 2)], (HWLOC_OBJ_DIE, (-1)%Z));
    ([("core", 2)], (HWLOC_OBJ_CORE, (-1)%Z));
    ([("pu", 2)], (HWLOC_OBJ_PU, (-1)%Z));
    ([("misc", 4)], (HWLOC_OBJ_MISC, (-1)%Z));
    ([("bridge", 4)], (HWLOC_OBJ_BRIDGE, (-1)%Z));
    ([("hostbridge", 6)], (HWLOC_OBJ_BRIDGE, Z.of_N HWLOC_OBJ_BRIDGE_HOST));
    ([("pcibridge", 5)], (HWLOC_OBJ_BRIDGE, Z.of_N HWLOC_OBJ_BRIDGE_PCI));
    ([("pcidev", 3)], (HWLOC_OBJ_PCI_DEVICE, (-1)%Z)) ]%string.

(* the if-chain up to the point where a number has to be read *)
Inductive phase := PhDone (v : sscanf_vals) | PhLcache | PhGroup (e : N) | PhFail.

Definition osdev_vals (os : N) : sscanf_vals := SV HWLOC_OBJ_OS_DEVICE NEG1U (-1) (-1) os.

Definition sscanf_phase (s : list N) : res phase :=
  let* b1 := cmp_eq (strncasecmp s 0 (cstr "osdev[") 0 6) in
  if b1 then let* os := osdev_types_sscanf s 6 in Ok (PhDone (osdev_vals os))
  else
  let* b2 := cmp_eq (strncasecmp s 0 (cstr "os[") 0 3) in
  if b2 then let* os := osdev_types_sscanf s 3 in Ok (PhDone (osdev_vals os))
  else
  let* m := type_match s 0 "osdev" 2 in
  match m with
  | Some _ => Ok (PhDone (osdev_vals 0))
  | None =>
  let* o := osdev_type_sscanf s 0 in
  match o with
  | Some b => Ok (PhDone (osdev_vals b))
  | None =>
  let* k := first_kw s 0 plain_kw in
  match k with
  | Some (t, ub) => Ok (PhDone (SV t NEG1U (-1) ub 0))
  | None =>
  let* c0 := rdr s 0 in
  let* isl := (if (c0 =? 108) || (c0 =? 76) then let* c1 := rdr s 1 in Ok (isdigit c1) else Ok false) in
  if isl then Ok PhLcache
  else
  let* g := type_match s 0 "group" 2 in
  match g with
  | Some e => Ok (PhGroup e)
  | None => Ok PhFail
  end end end end.

(* "L<depth><i|d|u|>[cache]" *)
Definition lcache_finish (s : list N) (t depth : N) (ct : N) (suffix : N) : res (option sscanf_vals) :=
  let* m := type_match s suffix "cache" 0 in
  match m with
  | None => Ok None
  | Some _ => Ok (Some (SV t depth (Z.of_N ct) (-1) 0))
  end.
Definition lcache_branch (s : list N) : res (option sscanf_vals) :=
  let* r := strtol s 1 10 in
  let depth := to_unsigned (fst r) in
  let e := snd r in
  let* ce := rdr s e in
  if (ce =? 105) || (ce =? 73) then
    if (1 <=? depth) && (depth <=? 3)
    then lcache_finish s (HWLOC_OBJ_L1ICACHE + depth - 1) depth HWLOC_OBJ_CACHE_INSTRUCTION (N.succ e)
    else Ok None
  else
    if (1 <=? depth) && (depth <=? 5) then
      let t := HWLOC_OBJ_L1CACHE + depth - 1 in
      if (ce =? 100) || (ce =? 68) then lcache_finish s t depth HWLOC_OBJ_CACHE_DATA (N.succ e)
      else if (ce =? 117) || (ce =? 85) then lcache_finish s t depth HWLOC_OBJ_CACHE_UNIFIED (N.succ e)
      else lcache_finish s t depth HWLOC_OBJ_CACHE_UNIFIED e
    else Ok None.

(* "Group<depth>" : e = where hwloc__type_match stopped *)
Definition group_branch (s : list N) (e : N) : res (option sscanf_vals) :=
  let* c := rdr s e in
  if isdigit c then
    let* r := strtol s e 10 in
    Ok (Some (SV HWLOC_OBJ_GROUP (to_unsigned (fst r)) (-1) (-1) 0))
  else Ok (Some (SV HWLOC_OBJ_GROUP NEG1U (-1) (-1) 0)).

(* None = return -1 *)
Definition type_sscanf_vals (s : list N) : res (option sscanf_vals) :=
  let* ph := sscanf_phase s in
  match ph with
  | PhDone v => Ok (Some v)
  | PhLcache => lcache_branch s
  | PhGroup e => group_branch s e
  | PhFail => Ok None
  end.

(* what is stored through attrp *)
Inductive attr_write :=
| AWnone
| AWcache (depth : N) (ctype : Z)
| AWgroup (depth : N)
| AWbridge (up down : Z)
| AWosdev (types : N).

Definition attr_of_vals (v : sscanf_vals) (attrsize : option N) : attr_write :=
  match attrsize with
  | None => AWnone                                             (* attrp == NULL *)
  | Some sz =>
    if tcache (sv_type v) && (SIZEOF_ATTR_CACHE <=? sz) then AWcache (sv_depth v) (sv_ctype v)
    else if (sv_type v =? HWLOC_OBJ_GROUP) && (SIZEOF_ATTR_GROUP <=? sz) then AWgroup (sv_depth v)
    else if (sv_type v =? HWLOC_OBJ_BRIDGE) && (SIZEOF_ATTR_BRIDGE <=? sz) then AWbridge (sv_ub v) (Z.of_N HWLOC_OBJ_BRIDGE_PCI)
    else if (sv_type v =? HWLOC_OBJ_OS_DEVICE) && (SIZEOF_ATTR_OSDEV <=? sz) then AWosdev (sv_os v)
    else AWnone
  end.

(* hwloc_type_sscanf(s, &type, attrp, attrsize): None = -1 (nothing stored),
   Some (type, attribute stores) = 0 *)
Definition type_sscanf (s : list N) (attrsize : option N) : res (option (N * attr_write)) :=
  let* o := type_sscanf_vals s in
  match o with
  | None => Ok None
  | Some v => Ok (Some (sv_type v, attr_of_vals v attrsize))
  end.

End Variants.

(* the current code *)
Definition type_match_cur := type_match TYPE_MATCH_STOPS_AT_LITERAL_END.
Definition type_sscanf_cur := type_sscanf TYPE_MATCH_STOPS_AT_LITERAL_END.
Definition type_sscanf_vals_cur := type_sscanf_vals TYPE_MATCH_STOPS_AT_LITERAL_END.

(* sizeof(union hwloc_obj_attr_u), for the driver *)
Definition attr_union_size : N := SIZEOF_ATTR_UNION.

(* the five numbers the translator prints for a dictionary word (full-size union) *)
Definition sscanf_canon (r : res (option (N * attr_write))) : option (Z * N * Z * Z) :=
  match r with
  | Oob => None
  | Ok None => Some ((-1)%Z, 0, 0%Z, 0%Z)
  | Ok (Some (t, w)) =>
    Some (match w with
          | AWnone => (0%Z, t, 0%Z, 0%Z)
          | AWcache d c => (0%Z, t, Z.of_N d, c)
          | AWgroup d => (0%Z, t, Z.of_N d, 0%Z)
          | AWbridge u d => (0%Z, t, u, d)
          | AWosdev o => (0%Z, t, Z.of_N o, 0%Z)
          end)
  end.

(* ------------------------------------------------------------------ *)
(* hwloc_obj_type_snprintf *)

(* the fields of obj the printer looks at (attr is a union: only the member of
   the object's type is meaningful) *)
Record tobj := TO {
  to_type : N;
  to_cdepth : N; to_ctype : N;        (* cache.depth, cache.type *)
  to_gdepth : N;                      (* group.depth *)
  to_bup : N; to_bdown : N;           (* bridge.upstream_type, downstream_type *)
  to_os : N                           (* osdev.types (unsigned long) *)
}.

(* outcome of a printer *)
Inductive pr (A : Type) : Type :=
| PrOk (a : A)
| PrLoop          (* does not return: the loop state repeats *)
| PrAssert.       (* assert() fails: abort *)
Arguments PrOk {A} a.
Arguments PrLoop {A}.
Arguments PrAssert {A}.

Definition flag_set (flags mask : N) : bool := negb (N.land flags mask =? 0).
Definition LONGNAMES_MASK : N := N.lor HWLOC_OBJ_SNPRINTF_FLAG_OLD_VERBOSE HWLOC_OBJ_SNPRINTF_FLAG_LONG_NAMES.
Definition VERBOSE_MASK : N := N.lor HWLOC_OBJ_SNPRINTF_FLAG_OLD_VERBOSE HWLOC_OBJ_SNPRINTF_FLAG_MORE_ATTRS.

(* hwloc_obj_cache_type_letter *)
Definition cache_letter (ct : N) : list N :=
  match find (fun e => fst e =? ct) cache_letter_tbl with
  | Some (_, l) => lit l
  | None => lit "unknown"
  end.

Definition osdev_name (longn : bool) (e : N * string * string) : list N :=
  let '(_, n, ln) := e in lit (if longn then ln else n).
Definition osdev_bit (e : N * string * string) : N := fst (fst e).
Definition osdev_known_mask : N := fold_left (fun m e => N.lor m (osdev_bit e)) osdev_names_tbl 0.

(* hwloc__osdev_type_snprintf_short *)
Definition osdev_short_pieces (os : N) (longn : bool) : list (list N) :=
  match find (fun e => negb (N.land os (osdev_bit e) =? 0)) osdev_names_tbl with
  | Some e => [osdev_name longn e]
  | None => [lit (if longn then "OSDev" else "OS")]
  end.

(* hwloc__osdev_type_snprintf_normal.
   Loop state: (ostype, prefix == ',', pieces emitted so far).
   One execution of the inner for(i=0; i<NR; i++) loop: *)
Definition osdev_state := (N * bool * list (list N))%type.
Definition osdev_pass (longn : bool) (st : osdev_state) : osdev_state :=
  fold_left (fun (st : osdev_state) e =>
               let '(w, comma, acc) := st in
               if N.land w (osdev_bit e) =? 0 then st
               else (N.ldiff w (osdev_bit e), true,
                     acc ++ [(if comma then 44 else 91) :: osdev_name longn e]))
            osdev_names_tbl st.
(* while (ostype) { pass } *)
Fixpoint osdev_while (fuel : nat) (longn : bool) (st : osdev_state) : option osdev_state :=
  let '(w, _, _) := st in
  if w =? 0 then Some st
  else match fuel with
       | O => None
       | S f => osdev_while f longn (osdev_pass longn st)
       end.
(* The loop either ends within two passes or never: after one pass every bit of
   names[] is cleared and the state no longer changes (osdev_pass_idem). *)
Definition osdev_loop (loop : bool) (longn : bool) (st : osdev_state) : option osdev_state :=
  if loop then osdev_while 2 longn st
  else Some (let '(w, _, _) := st in if w =? 0 then st else osdev_pass longn st).   (* fixed code: if (ostype) { pass } *)

Definition osdev_normal_pieces (loop : bool) (os : N) (longn : bool) : pr (list (list N)) :=
  let st0 : osdev_state := (os, false, [lit (if longn then "OSDev" else "OS")]) in
  match osdev_loop loop longn st0 with
  | None => PrLoop
  | Some (_, comma, acc) => PrOk (if comma then acc ++ [[93]] else acc)
  end.

Definition type_snprintf_pieces_gen (loop : bool) (o : tobj) (flags : N) : pr (list (list N)) :=
  let longn := flag_set flags LONGNAMES_MASK in
  let shortn := flag_set flags HWLOC_OBJ_SNPRINTF_FLAG_SHORT_NAMES in
  let t := to_type o in
  if (t =? HWLOC_OBJ_MISC) || (t =? HWLOC_OBJ_MACHINE) || (t =? HWLOC_OBJ_NUMANODE) || (t =? HWLOC_OBJ_MEMCACHE)
     || (t =? HWLOC_OBJ_PACKAGE) || (t =? HWLOC_OBJ_DIE) || (t =? HWLOC_OBJ_CORE) || (t =? HWLOC_OBJ_PU)
  then PrOk [lit (obj_type_string t)]
  else if tcache t
  then PrOk [[76] ++ dec (to_cdepth o) ++ cache_letter (to_ctype o) ++ (if longn then lit "Cache" else [])]
  else if t =? HWLOC_OBJ_GROUP
  then if negb (to_gdepth o =? NEG1U) then PrOk [lit (obj_type_string t) ++ dec (to_gdepth o)]
       else PrOk [lit (obj_type_string t)]
  else if t =? HWLOC_OBJ_BRIDGE
  then if to_bdown o =? HWLOC_OBJ_BRIDGE_PCI
       then PrOk [lit (if to_bup o =? HWLOC_OBJ_BRIDGE_PCI then "PCIBridge" else "HostBridge")]
       else PrAssert
  else if t =? HWLOC_OBJ_PCI_DEVICE then PrOk [lit "PCI"]
  else if t =? HWLOC_OBJ_OS_DEVICE
  then if shortn then PrOk (osdev_short_pieces (to_os o) longn)
       else osdev_normal_pieces loop (to_os o) longn
  else PrOk [].            (* default: if (size > 0) *string = '\0'; return 0; *)

Definition type_snprintf_pieces := type_snprintf_pieces_gen OSDEV_PRINT_WHILE.

Definition pr_map {A B} (f : A -> B) (r : pr A) : pr B :=
  match r with PrOk a => PrOk (f a) | PrLoop => PrLoop | PrAssert => PrAssert end.

(* the call on a caller's buffer [init] ([] = NULL / size 0): final state, or
   None if a store would fall outside the buffer *)
Definition type_snprintf_gen (loop : bool) (init : list N) (o : tobj) (flags : N) : pr (option pstate) :=
  pr_map (emit_all init) (type_snprintf_pieces_gen loop o flags).
Definition type_snprintf := type_snprintf_gen OSDEV_PRINT_WHILE.

(* the untruncated text *)
Definition type_text_gen (loop : bool) (o : tobj) (flags : N) : pr (list N) :=
  pr_map (@concat N) (type_snprintf_pieces_gen loop o flags).
Definition type_text := type_text_gen OSDEV_PRINT_WHILE.

(* ------------------------------------------------------------------ *)
(* hwloc_memory_size_snprintf(buf[25], size, flags): the text *)
Definition memory_size_text (size flags : N) : list N :=
  firstn 24
  (if flag_set flags HWLOC_OBJ_SNPRINTF_FLAG_NO_UNITS then dec size
   else if flag_set flags HWLOC_OBJ_SNPRINTF_FLAG_OLD_VERBOSE
   then dec (N.shiftr (N.shiftr size 9 + 1) 1) ++ lit "KB"
   else if flag_set flags HWLOC_OBJ_SNPRINTF_FLAG_UNITS_1000 then
     if size <? 10000000 then dec ((size / 500 + 1) / 2) ++ lit "KB"
     else if size <? 10000000000 then dec ((size / 500000 + 1) / 2) ++ lit "MB"
     else if size <? 10000000000000 then dec ((size / 500000000 + 1) / 2) ++ lit "GB"
     else dec ((size / 500000000000 + 1) / 2) ++ lit "TB"
   else
     if size <? N.shiftl 10 20 then dec (N.shiftr (N.shiftr size 9 + 1) 1) ++ lit "KiB"
     else if size <? N.shiftl 10 30 then dec (N.shiftr (N.shiftr size 19 + 1) 1) ++ lit "MiB"
     else if size <? N.shiftl 10 40 then dec (N.shiftr (N.shiftr size 29 + 1) 1) ++ lit "GiB"
     else dec (N.shiftr (N.shiftr size 39 + 1) 1) ++ lit "TiB").


(* ------------------------------------------------------------------ *)
(* hwloc_pci_class_string (pci-common.c): switch on the base class (class_id >> 8),
   inner switch on the whole class_id, then the base class name (None: `break`,
   i.e. "Other"); any other base class is "Other".  Hand transcription, tied to the
   C function by the sweep of all 65536 class ids through hwloc_obj_attr_snprintf. *)
Definition pci_class_names : list (N * option string * list (N * string)) := [
    (0, None, [(1, "VGA")]);
    (1, Some "Storage", [(256, "SCSI"); (257, "IDE"); (258, "Floppy"); (259, "IPI"); (260, "RAID"); (261, "ATA"); (262, "SATA"); (263, "SAS"); (264, "NVMExp")]);
    (2, Some "Network", [(512, "Ethernet"); (513, "TokenRing"); (514, "FDDI"); (515, "ATM"); (516, "ISDN"); (517, "WorldFip"); (518, "PICMG"); (519, "InfiniBand"); (520, "Fabric")]);
    (3, Some "Display", [(768, "VGA"); (769, "XGA"); (770, "3D")]);
    (4, Some "Multimedia", [(1024, "MultimediaVideo"); (1025, "MultimediaAudio"); (1026, "Telephony"); (1027, "AudioDevice")]);
    (5, Some "Memory", [(1280, "RAM"); (1281, "Flash"); (1282, "CXLMem")]);
    (6, Some "Bridge", [(1536, "HostBridge"); (1537, "ISABridge"); (1538, "EISABridge"); (1539, "MicroChannelBridge"); (1540, "PCIBridge"); (1541, "PCMCIABridge"); (1542, "NubusBridge"); (1543, "CardBusBridge"); (1544, "RACEwayBridge"); (1545, "SemiTransparentPCIBridge"); (1546, "InfiniBandPCIHostBridge")]);
    (7, Some "Communication", [(1792, "Serial"); (1793, "Parallel"); (1794, "MultiportSerial"); (1795, "Model"); (1796, "GPIB"); (1797, "SmartCard")]);
    (8, Some "SystemPeripheral", [(2048, "PIC"); (2049, "DMA"); (2050, "Timer"); (2051, "RTC"); (2052, "PCIHotPlug"); (2053, "SDHost"); (2054, "IOMMU")]);
    (9, Some "Input", [(2304, "Keyboard"); (2305, "DigitizerPen"); (2306, "Mouse"); (2307, "Scanern"); (2308, "Gameport")]);
    (10, Some "DockingStation", []);
    (11, Some "Processor", [(2816, "386"); (2817, "486"); (2818, "Pentium"); (2832, "Alpha"); (2848, "PowerPC"); (2864, "MIPS"); (2880, "Co-Processor")]);
    (12, Some "SerialBus", [(3072, "FireWire"); (3073, "ACCESS"); (3074, "SSA"); (3075, "USB"); (3076, "FibreChannel"); (3077, "SMBus"); (3078, "InfiniBand"); (3079, "IPMI-SMIC"); (3080, "SERCOS"); (3081, "CANBUS")]);
    (13, Some "Wireless", [(3328, "IRDA"); (3329, "ConsumerIR"); (3344, "RF"); (3345, "Bluetooth"); (3346, "Broadband"); (3360, "802.1a"); (3361, "802.1b")]);
    (14, Some "Intelligent", [(3584, "I2O")]);
    (15, Some "Satellite", []);
    (16, Some "Encryption", []);
    (17, Some "SignalProcessing", []);
    (18, Some "ProcessingAccelerator", []);
    (19, Some "Instrumentation", []);
    (64, Some "Co-Processor", []) ]%string.
Definition pci_class_string (class_id : N) : string :=
  match find (fun e => fst (fst e) =? N.shiftr (N.land class_id 65280) 8) pci_class_names with
  | Some (_, d, sp) =>
    match find (fun x => fst x =? class_id) sp with
    | Some (_, n) => n
    | None => match d with Some n => n | None => "Other"%string end
    end
  | None => "Other"%string
  end.

(* ------------------------------------------------------------------ *)
(* hwloc_obj_attr_snprintf *)
Record aobj := AO {
  ao_type : N;
  ao_total_memory : N;                (* obj->total_memory *)
  ao_local_memory : N;                (* attr->numanode.local_memory *)
  ao_csize : N; ao_clinesize : N; ao_cassoc : Z;     (* attr->cache *)
  ao_bup : N; ao_bdown : N;           (* bridge.upstream_type / downstream_type *)
  ao_bdomain : N; ao_bsec : N; ao_bsub : N;          (* bridge.downstream.pci *)
  ao_pdomain : N; ao_pbus : N; ao_pdev : N; ao_pfunc : N;
  ao_pvendor : N; ao_pdevice : N; ao_pclass : N;     (* attr->pcidev (= bridge.upstream.pci) *)
  ao_link_nonzero : bool;             (* pcidev.linkspeed != 0 *)
  ao_link_text : list N;              (* "%.2f" of pcidev.linkspeed: opaque, supplied *)
  ao_infos : list (list N * list N)   (* infos.array[i].name / .value (without terminators) *)
}.

(* a printing step: through the cursor (tmp, tmplen), or -- as the Bridge and
   PCIDev cases do -- at (string, size) while the cursor is still advanced *)
Inductive pop := PEmit (p : list N) | PEmitAbs (p : list N).
Definition pop_text (o : pop) : list N := match o with PEmit p => p | PEmitAbs p => p end.

Definition linkspeed_text (a : aobj) (sep : list N) : list N :=
  if ao_link_nonzero a then firstn 63 (sep ++ lit "link=" ++ ao_link_text a ++ lit "GB/s") else [].
Definition busid_text (a : aobj) (sep : list N) : list N :=
  lit "busid=" ++ hex_w 4 (ao_pdomain a) ++ [58] ++ hex_w 2 (ao_pbus a) ++ [58] ++ hex_w 2 (ao_pdev a)
  ++ [46] ++ hex_w 1 (ao_pfunc a) ++ sep ++ lit "id=" ++ hex_w 4 (ao_pvendor a) ++ [58] ++ hex_w 4 (ao_pdevice a)
  ++ sep ++ lit "class=" ++ hex_w 4 (ao_pclass a) ++ [40] ++ lit (pci_class_string (ao_pclass a)) ++ [41] ++ linkspeed_text a sep.

Definition is_attr_cache_type (t : N) : bool := tcache t || (t =? HWLOC_OBJ_MEMCACHE).

(* the infos loop: one step per info; [ret] is the running returned length *)
Definition info_step (sep : list N) (acc : nat * list pop) (nv : list N * list N) : nat * list pop :=
  let '(ret, ops) := acc in
  let '(name, value) := nv in
  let q := if existsb (N.eqb 32) value then [34] else [] in           (* a double quote on both sides if strchr(value, ' ') *)
  let p := (if (0 <? ret)%nat then sep else []) ++ name ++ [61] ++ q ++ value ++ q in
  ((ret + length p)%nat, ops ++ [PEmit p]).
Definition infos_ops (sep : list N) (infos : list (list N * list N)) (ret : nat) : list pop :=
  snd (fold_left (info_step sep) infos (ret, [])).

(* the list of steps; PrAssert for a Bridge whose downstream type is not PCI in verbose mode *)
Definition attr_snprintf_ops (a : aobj) (sep : list N) (flags : N) : pr (list pop) :=
  let verbose := flag_set flags VERBOSE_MASK in
  let t := ao_type a in
  let numa_local := (t =? HWLOC_OBJ_NUMANODE) && negb (ao_local_memory a =? 0) in
  let total := memory_size_text (ao_total_memory a) flags in
  let loc := memory_size_text (ao_local_memory a) flags in
  (* memory attributes (prefix is "") *)
  let ops1 :=
    if verbose then
      if numa_local then [PEmit (lit "local=" ++ loc ++ sep ++ lit "total=" ++ total)]
      else if negb (ao_total_memory a =? 0) then [PEmit (lit "total=" ++ total)]
      else []
    else if numa_local then [PEmit loc] else [] in
  let ret1 := length (concat (map pop_text ops1)) in
  let prefix2 := if (0 <? ret1)%nat then sep else [] in
  (* type-specific attributes *)
  let ops2 : pr (list pop) :=
    if is_attr_cache_type t then
      let cs := memory_size_text (ao_csize a) flags in
      if verbose then
        let assoc := if (ao_cassoc a =? -1)%Z then firstn 31 (sep ++ lit "fully-associative")
                     else if (ao_cassoc a =? 0)%Z then []
                     else firstn 31 (sep ++ lit "ways=" ++ dec_z (ao_cassoc a)) in
        PrOk [PEmit (prefix2 ++ lit "size=" ++ cs ++ sep ++ lit "linesize=" ++ dec (ao_clinesize a) ++ assoc)]
      else PrOk [PEmit (prefix2 ++ cs)]
    else if t =? HWLOC_OBJ_BRIDGE then
      if verbose then
        let up := if ao_bup a =? HWLOC_OBJ_BRIDGE_PCI then firstn 127 (busid_text a sep) else [] in
        if ao_bdown a =? HWLOC_OBJ_BRIDGE_PCI then
          let down := firstn 63 (lit "buses=" ++ hex_w 4 (ao_bdomain a) ++ lit ":[" ++ hex_w 2 (ao_bsec a)
                                 ++ [45] ++ hex_w 2 (ao_bsub a) ++ [93]) in
          PrOk [PEmitAbs (match up with [] => down | _ => up ++ sep ++ down end)]
        else PrAssert
      else PrOk []
    else if t =? HWLOC_OBJ_PCI_DEVICE then
      if verbose then PrOk [PEmitAbs (busid_text a sep)] else PrOk []
    else PrOk [] in
  match ops2 with
  | PrLoop => PrLoop
  | PrAssert => PrAssert
  | PrOk o2 =>
    let ret2 := (ret1 + length (concat (map pop_text o2)))%nat in
    (* infos: prefix becomes separator as soon as ret > 0 *)
    let ops3 := if verbose then infos_ops sep (ao_infos a) ret2 else [] in
    PrOk (ops1 ++ o2 ++ ops3)
  end.

(* a step on the printer state of Base.Snprintf; buflen = the caller's size *)
Definition emit_abs (buflen : nat) (st : pstate) (piece : list N) : option pstate :=
  let res := length piece in
  let buf' := if Nat.eqb buflen 0 then Some (ps_buf st)
              else store (ps_buf st) 0 (snprintf_bytes buflen piece) in
  match buf' with
  | None => None
  | Some b =>
    let adv := if Nat.leb (ps_size st) res then Nat.sub (ps_size st) 1 else res in
    Some (PS (Nat.add (ps_ret st) res) (Nat.add (ps_pos st) adv) (Nat.sub (ps_size st) adv) b)
  end.
Definition run_op (buflen : nat) (o : option pstate) (op : pop) : option pstate :=
  match o with
  | None => None
  | Some st => match op with PEmit p => emit st p | PEmitAbs p => emit_abs buflen st p end
  end.
Definition run_ops (init : list N) (ops : list pop) : option pstate :=
  fold_left (run_op (length init)) ops (Some (start init)).

Definition attr_snprintf (init : list N) (a : aobj) (sep : list N) (flags : N) : pr (option pstate) :=
  pr_map (run_ops init) (attr_snprintf_ops a sep flags).

(* ------------------------------------------------------------------ *)
(* hwloc_get_type_depth_with_attr / hwloc_type_sscanf_as_depth (traversal.c)
   What they read of the topology: type_depth[] (through hwloc_get_type_depth) and,
   for each level l, (levels[l][0]->type, levels[l][0]->attr->group.depth). *)
Definition get_type_depth (tdepths : list Z) (t : N) : Z :=
  if t <? HWLOC_OBJ_TYPE_MAX then nthN tdepths t HWLOC_TYPE_DEPTH_UNKNOWN else HWLOC_TYPE_DEPTH_UNKNOWN.

(* for(l=0; l<nb_levels; l++) if (type == GROUP && group.depth == wanted) { depth = l; break; } *)
Fixpoint find_group_level (levels : list (N * N)) (wanted : N) (l : Z) : Z :=
  match levels with
  | [] => HWLOC_TYPE_DEPTH_UNKNOWN
  | (t, gd) :: r => if (t =? HWLOC_OBJ_GROUP) && (gd =? wanted) then l else find_group_level r wanted (l + 1)%Z
  end.

(* attr = Some group.depth when attrp != NULL (only that member is read, and only for Groups) *)
Definition get_type_depth_with_attr (levels : list (N * N)) (tdepths : list Z)
           (t : N) (attr : option N) (attrsize : N) : Z :=
  let attr := if attrsize <? SIZEOF_ATTR_UNION then None else attr in
  let depth := get_type_depth tdepths t in
  match attr with
  | Some gd =>
    if (t =? HWLOC_OBJ_GROUP) && (depth =? HWLOC_TYPE_DEPTH_MULTIPLE)%Z && negb (gd =? NEG1U)
    then find_group_level levels gd 0
    else depth
  | None => depth
  end.

(* None = the error of hwloc_type_sscanf (nothing stored); Some (type, depth) = 0 *)
Definition type_sscanf_as_depth (chk : bool) (levels : list (N * N)) (tdepths : list Z) (s : list N) : res (option (N * Z)) :=
  let* o := type_sscanf_vals chk s in
  match o with
  | None => Ok None
  | Some v =>
    (* attr is a full-size union filled by hwloc_type_sscanf: group.depth holds depthattr for a Group *)
    Ok (Some (sv_type v, get_type_depth_with_attr levels tdepths (sv_type v) (Some (sv_depth v)) SIZEOF_ATTR_UNION))
  end.
Definition type_sscanf_as_depth_cur := type_sscanf_as_depth TYPE_MATCH_STOPS_AT_LITERAL_END.

(* ------------------------------------------------------------------ *)
(* memory tier names (memattrs.c): hwloc_memory_tier_type_snprintf / _sscanf.
   Bits: HBM 1, DRAM 2, GPU 4, SPM 8, NVM 16, CXL 32 (enum local to memattrs.c). *)
Definition TIER_HBM : N := 1.   Definition TIER_DRAM : N := 2.  Definition TIER_GPU : N := 4.
Definition TIER_SPM : N := 8.   Definition TIER_NVM : N := 16.  Definition TIER_CXL : N := 32.
(* the switch of _snprintf, in order; default: NULL *)
Definition tier_names : list (N * string) :=
  [ (TIER_DRAM, "DRAM"); (TIER_HBM, "HBM"); (TIER_GPU, "GPUMemory"); (TIER_SPM, "SPM"); (TIER_NVM, "NVM");
    (TIER_CXL, "CXL-DRAM"); (N.lor TIER_CXL TIER_DRAM, "CXL-DRAM"); (N.lor TIER_CXL TIER_HBM, "CXL-HBM");
    (N.lor TIER_CXL TIER_GPU, "CXL-GPUMemory"); (N.lor TIER_CXL TIER_SPM, "CXL-SPM"); (N.lor TIER_CXL TIER_NVM, "CXL-NVM") ]%string.
Definition tier_type_snprintf (t : N) : option string :=
  match find (fun e => fst e =? t) tier_names with Some (_, n) => Some n | None => None end.
(* the if-chain of _sscanf: !strcasecmp(name, "lit"); 0 if none *)
Definition tier_keywords : list (string * N) :=
  [ ("DRAM", TIER_DRAM); ("HBM", TIER_HBM); ("GPUMemory", TIER_GPU); ("SPM", TIER_SPM); ("NVM", TIER_NVM);
    ("CXL-DRAM", N.lor TIER_CXL TIER_DRAM); ("CXL-HBM", N.lor TIER_CXL TIER_HBM); ("CXL-GPUMemory", N.lor TIER_CXL TIER_GPU);
    ("CXL-SPM", N.lor TIER_CXL TIER_SPM); ("CXL-NVM", N.lor TIER_CXL TIER_NVM) ]%string.
(* strcasecmp(a, "lit") == 0: the comparison ends at the terminator of the literal at the latest *)
Definition strcasecmp_eq (s : list N) (l : string) : res bool :=
  cmp_eq (strncmp_f tolower (S (length (bytes_of_string l))) s 0 (cstr l) 0).
Fixpoint tier_sscanf_chain (s : list N) (kws : list (string * N)) : res N :=
  match kws with
  | [] => Ok 0
  | (k, v) :: r => let* b := strcasecmp_eq s k in if b then Ok v else tier_sscanf_chain s r
  end.
Definition tier_type_sscanf (s : list N) : res N := tier_sscanf_chain s tier_keywords.
(* what HWLOC_MEMTIERS="<nodeset>=<name>" makes of the subtype of the nodes of the set *)
Definition tier_forced_subtype (name : list N) : res (option string) :=
  let* t := tier_type_sscanf name in Ok (tier_type_snprintf t).
