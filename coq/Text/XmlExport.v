(* Model of the XML export of a topology with the built-in (nolibxml) backend:
     hwloc/topology-xml-nolibxml.c : new_child / new_prop / add_content / end_object,
                                     hwloc___nolibxml_prepare_export
     hwloc/topology-xml.c          : hwloc__xml_export_object_contents, hwloc__xml_v2export_object,
                                     distances / support / memattrs / cpukinds / infos, userdata export.

   The export callbacks build the text left to right; the common code calls
   them in a fixed discipline (all new_prop of an element before its first
   new_child / add_content), so one element is (name, attributes, children |
   content) and the text is a function of that tree ([print_node]).  The
   bytes of the document are [export_bytes]; the buffer API returns them
   followed by a NUL, the file API writes exactly them.

   Not modelled: the two-pass sizing of the output buffer (the second pass runs
   with the exact size, Base/Snprintf gives the contract of each piece), the
   libxml2 backend, the printing of the PCI link speed (a float printed with
   %f: carried as an opaque string). *)
From Coq Require Import String Ascii.
From Coq Require Import NArith ZArith PeanoNat List Bool.
From HV Require Import Base.Bytes Gen.Tables Text.XmlEscape Text.Base64.
From HV Require Bitmap.BitmapText.
Import ListNotations.
Local Open Scope N_scope.

(* ---------- number formats ---------- *)
Definition dec (v : N) : list N := BitmapText.dec v.                 (* %u %lu %llu *)
Definition decz (z : Z) : list N :=                                   (* %d *)
  match z with Zneg p => 45 :: dec (Npos p) | _ => dec (Z.to_N z) end.
(* %0<w>x : at least w digits *)
Definition hexw (w : nat) (v : N) : list N :=
  let h := BitmapText.hex_min v in repeat 48 (w - length h) ++ h.

(* ---------- element trees and their text ---------- *)
Inductive xnode := XNode (name : list N) (attrs : list (list N * list N)) (body : xbody)
with xbody := XChildren (l : list xnode) | XContent (c : list N).

Definition spaces (n : nat) : list N := repeat 32 n.

(* " %s=\"%s\"" with the escaped value *)
Definition print_attr (a : list N * list N) : list N :=
  32 :: fst a ++ lit "=""" ++ escaped_value (snd a) ++ [34].

(* add_content prints with "%s": up to the first NUL *)
Fixpoint until_nul (s : list N) : list N :=
  match s with [] => [] | c :: tl => if c =? 0 then [] else c :: until_nul tl end.

Fixpoint print_node (indent : nat) (n : xnode) : list N :=
  match n with
  | XNode name attrs body =>
      spaces indent ++ 60 :: name ++ flat_map print_attr attrs ++
      match body with
      | XContent c => 62 :: until_nul c ++ lit "</" ++ name ++ [62; 10]
      | XChildren [] => [47; 62; 10]
      | XChildren l =>
          62 :: 10 :: flat_map (print_node (indent + 2)) l ++
          spaces indent ++ lit "</" ++ name ++ [62; 10]
      end
  end.

Definition header : list N :=
  lit "<?xml version=""1.0"" encoding=""UTF-8""?>" ++ [10] ++
  lit "<!DOCTYPE topology SYSTEM ""hwloc2.dtd"">" ++ [10].

(* ---------- the data the exporter reads ---------- *)
Definition bm := BitmapText.bm.
Definition settext (b : bm) : list N := BitmapText.text_hwloc b.      (* hwloc_bitmap_asprintf *)

Record pciattr := { p_domain : N; p_bus : N; p_dev : N; p_func : N; p_class : N; p_vendor : N; p_device : N;
                    p_subvendor : N; p_subdevice : N; p_revision : N; p_prog_if : N; p_linkspeed : list N }.

Inductive oattr :=
| ANone
| ANuma (local_memory : N) (page_types : list (N * N))
| ACache (size depth linesize : N) (associativity ctype : Z)
| AGroup (kind subkind dont_merge : N)
| ABridge (upstream downstream : Z) (depth : N) (ddomain dsecondary dsubordinate : N) (up : pciattr)
| APci (p : pciattr)
| AOsdev (types : N).

Record userdata := { ud_b64 : bool; ud_name : option (list N); ud_bytes : list N }.

Record osets := { s_cpuset : bm; s_complete_cpuset : bm; s_nodeset : bm; s_complete_nodeset : bm }.

Inductive obj :=
  Obj (ty : N) (os_index : option N) (gp_index : N) (sets : option osets)
      (name subtype : option (list N)) (attr : oattr) (infos : list (list N * list N)) (uds : list userdata)
      (memory_children children io_children misc_children : list obj).

Record dist := { d_hetero : bool; d_unique_type : N; d_kind : N; d_name : option (list N);
                 d_indexes : list N;               (* homogeneous: os_index or gp_index per object *)
                 d_objs : list (N * N);            (* heterogeneous: (type, gp_index) per object *)
                 d_values : list N }.

Inductive initiator := IObj (ty gp : N) | ICpuset (b : bm).
Record mtarget := { mt_type : N; mt_gp : N; mt_noinit_value : N; mt_initiators : list (initiator * N) }.
Record memattr := { ma_name : list N; ma_flags : N; ma_targets : list mtarget }.
Record cpukind := { ck_cpuset : bm; ck_forced_efficiency : Z; ck_infos : list (list N * list N) }.

Record topo := { t_root : obj; t_allowed_cpuset : bm; t_allowed_nodeset : bm;
                 t_distances : list dist;                        (* in first_dist order *)
                 t_support : option (list (list N * N));         (* None when HWLOC_XML_EXPORT_SUPPORT=0; the non-zero bits in DO() order *)
                 t_memattrs : list memattr;                      (* all of them, index = id *)
                 t_cpukinds : list cpukind;
                 t_infos : list (list N * list N) }.

Definition type_string (ty : N) : list N := bytes_of_string (nth (N.to_nat ty) obj_type_string_tbl EmptyString).

(* ---------- infos ---------- *)
(* hwloc__xml_export_info_attr: both strings through safestrdup *)
Definition info_node (i : list N * list N) : xnode :=
  XNode (lit "info") [(lit "name", safestrdup (fst i)); (lit "value", safestrdup (snd i))] (XChildren []).
Definition info_node_safe (n v : string) : xnode :=
  XNode (lit "info") [(lit "name", lit n); (lit "value", lit v)] (XChildren []).

(* ---------- userdata ---------- *)
Definition opt_attr (n : string) (v : option (list N)) : list (list N * list N) :=
  match v with Some x => [(lit n, x)] | None => [] end.

(* hwloc_export_obj_userdata / hwloc_export_obj_userdata_base64 called by the application's callback with
   (name, buffer, length); None = the call returns -1 (EINVAL) and exports nothing *)
Definition userdata_node (u : userdata) : option xnode :=
  let name_ok := match ud_name u with Some n => check_buffer n | None => true end in
  let len := N.of_nat (length (ud_bytes u)) in
  if ud_b64 u then
    if name_ok then
      Some (XNode (lit "userdata") (opt_attr "name" (ud_name u) ++ [(lit "length", dec len); (lit "encoding", lit "base64")])
                  (if encoded_length len =? 0 then XChildren [] else XContent (encode (ud_bytes u))))
    else None
  else
    if name_ok && check_buffer (ud_bytes u) then
      Some (XNode (lit "userdata") (opt_attr "name" (ud_name u) ++ [(lit "length", dec len)])
                  (if len =? 0 then XChildren [] else XContent (ud_bytes u)))
    else None.

Definition userdata_nodes (l : list userdata) : list xnode :=
  flat_map (fun u => match userdata_node u with Some n => [n] | None => [] end) l.

(* ---------- one object ---------- *)
Definition pci_attrs (p : pciattr) : list (list N * list N) :=
  [(lit "pci_busid", hexw 4 (p_domain p) ++ [58] ++ hexw 2 (p_bus p) ++ [58] ++ hexw 2 (p_dev p) ++ [46] ++ hexw 1 (p_func p));
   (lit "pci_type", hexw 4 (p_class p) ++ lit " [" ++ hexw 4 (p_vendor p) ++ [58] ++ hexw 4 (p_device p) ++ lit "] [" ++
                    hexw 4 (p_subvendor p) ++ [58] ++ hexw 4 (p_subdevice p) ++ lit "] " ++ hexw 2 (p_revision p) ++ [32] ++ hexw 2 (p_prog_if p));
   (lit "pci_link_speed", p_linkspeed p)].

Definition has_prefix (p : list N) (s : option (list N)) : bool :=
  match s with Some x => starts_with p x | None => false end.
Definition str_eq (a : list N) (s : option (list N)) : bool :=
  match s with Some x => starts_with a x && (length a =? length x)%nat | None => false end.
Definition band (a b : N) : bool := negb (N.land a b =? 0).

Definition osdev_prop (v : string) : list (list N * list N) := [(lit "osdev_type", lit v)].
(* the v2 osdev_type if-chain *)
Definition v2_osdev_type (types : N) (name subtype : option (list N)) : list (list N * list N) :=
  if band types (N.lor HWLOC_OBJ_OSDEV_STORAGE HWLOC_OBJ_OSDEV_MEMORY) then osdev_prop "0"
  else if band types HWLOC_OBJ_OSDEV_OPENFABRICS then osdev_prop "3"
  else if band types HWLOC_OBJ_OSDEV_NETWORK then (if str_eq (lit "BXI") subtype then osdev_prop "3" else osdev_prop "2")
  else if band types HWLOC_OBJ_OSDEV_DMA then osdev_prop "4"
  else if band types HWLOC_OBJ_OSDEV_COPROC then
    (if has_prefix (lit "nvml") name || has_prefix (lit "rsmi") name then osdev_prop "1" else osdev_prop "5")
  else if band types HWLOC_OBJ_OSDEV_GPU then osdev_prop "1"
  else [].

Definition attr_props (v2 : bool) (a : oattr) (name subtype : option (list N)) : list (list N * list N) :=
  match a with
  | ANone => []
  | ANuma lm _ => if lm =? 0 then [] else [(lit "local_memory", dec lm)]
  | ACache size depth linesize assoc ctype =>
      [(lit "cache_size", dec size); (lit "depth", dec depth); (lit "cache_linesize", dec linesize);
       (lit "cache_associativity", decz assoc); (lit "cache_type", decz ctype)]
  | AGroup kind subkind dm =>
      [(lit "kind", dec kind); (lit "subkind", dec subkind)] ++ (if dm =? 0 then [] else [(lit "dont_merge", lit "1")])
  | ABridge up down depth ddom dsec dsub p =>
      [(lit "bridge_type", decz up ++ [45] ++ decz down); (lit "depth", dec depth)] ++
      (if (down =? Z.of_N HWLOC_OBJ_BRIDGE_PCI)%Z
       then [(lit "bridge_pci", hexw 4 ddom ++ lit ":[" ++ hexw 2 dsec ++ [45] ++ hexw 2 dsub ++ [93])] else []) ++
      (if (up =? Z.of_N HWLOC_OBJ_BRIDGE_PCI)%Z then pci_attrs p else [])
  | APci p => pci_attrs p
  | AOsdev types => if v2 then v2_osdev_type types name subtype else [(lit "osdev_type", dec types)]
  end.

Definition page_type_nodes (a : oattr) : list xnode :=
  match a with
  | ANuma _ pts => map (fun pt => XNode (lit "page_type") [(lit "size", dec (fst pt)); (lit "count", dec (snd pt))] (XChildren [])) pts
  | _ => []
  end.

Definition has_info (n : list N) (infos : list (list N * list N)) : bool :=
  existsb (fun i => starts_with n (fst i) && (length n =? length (fst i))%nat) infos.

(* v2: GPUs had Backend inside the object itself *)
Definition v2_backend_info (ty : N) (subtype : option (list N)) (infos : list (list N * list N)) : list xnode :=
  if (ty =? HWLOC_OBJ_OS_DEVICE) && negb (has_info (lit "Backend") infos) then
    if str_eq (lit "CUDA") subtype then [info_node_safe "Backend" "CUDA"]
    else if str_eq (lit "NVML") subtype then [info_node_safe "Backend" "NVML"]
    else if str_eq (lit "OpenCL") subtype then [info_node_safe "Backend" "OpenCL"]
    else if str_eq (lit "RSMI") subtype then [info_node_safe "Backend" "RSMI"]
    else if str_eq (lit "LevelZero") subtype then [info_node_safe "Backend" "LevelZero"]
    else if str_eq (lit "Display") subtype then [info_node_safe "Backend" "GL"]
    else []
  else [].

Section Export.
Variable v2 : bool.
Variable with_userdata : bool.          (* a userdata export callback is set *)
Variable T : topo.

(* hwloc__xml_export_object_contents + hwloc__xml_v2export_object *)
Fixpoint obj_node (is_root : bool) (o : obj) : xnode :=
  match o with
  | Obj ty os gp sets name subtype attr infos uds mem ch io misc =>
      XNode (lit "object")
        ([(lit "type", type_string ty)] ++
         match os with Some i => [(lit "os_index", dec i)] | None => [] end ++
         match sets with
         | Some s =>
             [(lit "cpuset", settext (s_cpuset s)); (lit "complete_cpuset", settext (s_complete_cpuset s))] ++
             (if is_root then [(lit "allowed_cpuset", settext (t_allowed_cpuset T))] else []) ++
             [(lit "nodeset", settext (s_nodeset s)); (lit "complete_nodeset", settext (s_complete_nodeset s))] ++
             (if is_root then [(lit "allowed_nodeset", settext (t_allowed_nodeset T))] else [])
         | None => []
         end ++
         [(lit "gp_index", dec gp)] ++
         (if v2 then [] else [(lit "id", lit "obj" ++ dec gp)]) ++
         match name with Some n => [(lit "name", safestrdup n)] | None => [] end ++
         match subtype with Some n => [(lit "subtype", safestrdup n)] | None => [] end ++
         attr_props v2 attr name subtype)
        (XChildren
          (page_type_nodes attr ++
           map info_node infos ++
           (if v2 && is_root then map info_node (t_infos T) else []) ++
           (if v2 then v2_backend_info ty subtype infos else []) ++
           (if with_userdata then userdata_nodes uds else []) ++
           map (obj_node false) mem ++ map (obj_node false) ch ++ map (obj_node false) io ++ map (obj_node false) misc))
  end.

(* ---------- distances ---------- *)
Fixpoint chunks10 {A} (fuel : nat) (l : list A) : list (list A) :=
  match fuel with
  | O => []
  | S f => match l with [] => [] | _ => firstn 10 l :: chunks10 f (skipn 10 l) end
  end.

(* EXPORT_ARRAY / EXPORT_TYPE_GPINDEX_ARRAY: one element per 10 entries, each entry followed by a space;
   None if a line (plus its NUL) does not fit the stack buffer char _tmp[bufsize] (sprintf overflow in C) *)
Definition array_nodes {A} (bufsize : N) (tag : string) (render : A -> list N) (l : list A) : option (list xnode) :=
  let mk c := let txt := flat_map (fun x => render x ++ [32]) c in
              (N.of_nat (length txt) <? bufsize, XNode (lit tag) [(lit "length", dec (N.of_nat (length txt)))] (XContent txt)) in
  let r := map mk (chunks10 (length l) l) in
  if forallb fst r then Some (map snd r) else None.

Definition use_os_index (ty : N) : bool := (ty =? HWLOC_OBJ_PU) || (ty =? HWLOC_OBJ_NUMANODE).

(* sizes of the two line buffers: EXPORT_ARRAY has char _tmp[255]; EXPORT_TYPE_GPINDEX_ARRAY had 255 as well until
   /repo commit 3181493 made it (32+1+20+1)*maxperline+1 with maxperline = 10 *)
Definition ARRAY_BUF : N := 255.
Definition GPINDEX_BUF_OLD : N := 255.
Definition GPINDEX_BUF : N := (32 + 1 + 20 + 1) * 10 + 1.

Definition dist_node_gen (gpbuf : N) (d : dist) : option xnode :=
  let kind := if v2 && band (d_kind d) HWLOC_DISTANCES_KIND_VALUE_HOPS
              then N.lor (N.ldiff (d_kind d) HWLOC_DISTANCES_KIND_VALUE_HOPS) HWLOC_DISTANCES_KIND_VALUE_LATENCY
              else d_kind d in
  let nb := if d_hetero d then N.of_nat (length (d_objs d)) else N.of_nat (length (d_indexes d)) in
  let idx := if d_hetero d
             then array_nodes gpbuf "indexes" (fun tg => type_string (fst tg) ++ [58] ++ dec (snd tg)) (d_objs d)
             else array_nodes ARRAY_BUF "indexes" dec (d_indexes d) in
  match idx, array_nodes ARRAY_BUF "u64values" dec (d_values d) with
  | Some i, Some v =>
      Some (XNode (lit (if d_hetero d then "distances2hetero" else "distances2"))
             ((if d_hetero d then [] else [(lit "type", type_string (d_unique_type d))]) ++
              [(lit "nbobjs", dec nb); (lit "kind", dec kind)] ++
              opt_attr "name" (option_map safestrdup (d_name d)) ++          (* through safestrdup since /repo 3735d4f *)
              (if d_hetero d then [] else [(lit "indexing", lit (if use_os_index (d_unique_type d) then "os" else "gp"))]))
             (XChildren (i ++ v)))
  | _, _ => None
  end.

Fixpoint opt_all {A} (l : list (option A)) : option (list A) :=
  match l with
  | [] => Some []
  | Some x :: tl => match opt_all tl with Some r => Some (x :: r) | None => None end
  | None :: _ => None
  end.

(* homogeneous matrices first, then heterogeneous ones *)
Definition dist_nodes_gen (gpbuf : N) : option (list xnode) :=
  opt_all (map (dist_node_gen gpbuf) (filter (fun d => negb (d_hetero d)) (t_distances T)) ++
           map (dist_node_gen gpbuf) (filter d_hetero (t_distances T))).

(* ---------- support ---------- *)
Definition support_nodes : list xnode :=
  match t_support T with
  | None => []
  | Some bits =>
      map (fun b => XNode (lit "support") ((lit "name", fst b) :: (if snd b =? 1 then [] else [(lit "value", dec (snd b))])) (XChildren [])) bits ++
      [XNode (lit "support") [(lit "name", lit "custom.exported_support")] (XChildren [])]
  end.

(* ---------- memory attributes ---------- *)
Definition memattr_value_nodes (need_init : bool) (t : mtarget) : list xnode :=
  let base v := [(lit "target_obj_type", type_string (mt_type t)); (lit "target_obj_gp_index", dec (mt_gp t)); (lit "value", dec v)] in
  if need_init then
    map (fun iv => XNode (lit "memattr_value")
                     (base (snd iv) ++
                      match fst iv with
                      | IObj ty gp => [(lit "initiator_obj_gp_index", dec gp); (lit "initiator_obj_type", type_string ty)]
                      | ICpuset b => [(lit "initiator_cpuset", settext b)]
                      end) (XChildren [])) (mt_initiators t)
  else [XNode (lit "memattr_value") (base (mt_noinit_value t)) (XChildren [])].

Fixpoint memattr_nodes (id : N) (l : list memattr) : list xnode :=
  match l with
  | [] => []
  | m :: tl =>
      (if (id =? HWLOC_MEMATTR_ID_CAPACITY) || (id =? HWLOC_MEMATTR_ID_LOCALITY) then []
       else if (id <? HWLOC_MEMATTR_ID_MAX) && (length (ma_targets m) =? 0)%nat then []
       else [XNode (lit "memattr") [(lit "name", safestrdup (ma_name m)); (lit "flags", dec (ma_flags m))]
                   (XChildren (flat_map (memattr_value_nodes (band (ma_flags m) HWLOC_MEMATTR_FLAG_NEED_INITIATOR)) (ma_targets m)))])
      ++ memattr_nodes (N.succ id) tl
  end.

(* ---------- cpukinds ---------- *)
Definition cpukind_node (k : cpukind) : xnode :=
  XNode (lit "cpukind")
    ((lit "cpuset", settext (ck_cpuset k)) ::
     (if (ck_forced_efficiency k =? HWLOC_CPUKIND_EFFICIENCY_UNKNOWN)%Z then [] else [(lit "forced_efficiency", decz (ck_forced_efficiency k))]))
    (XChildren (map info_node (ck_infos k))).

(* ---------- hwloc__xml_export_topology inside hwloc___nolibxml_prepare_export ---------- *)
Definition topology_node_gen (gpbuf : N) : option xnode :=
  match dist_nodes_gen gpbuf with
  | None => None
  | Some dn =>
      Some (XNode (lit "topology") [(lit "version", lit (if v2 then "2.0" else "3.0"))]
             (XChildren ([obj_node true (t_root T)] ++ dn ++ support_nodes ++ memattr_nodes 0 (t_memattrs T) ++
                         map cpukind_node (t_cpukinds T) ++
                         (if v2 then [] else map info_node (t_infos T)))))
  end.

(* None: the C code overflows a stack buffer while printing a distances line *)
Definition export_bytes_gen (gpbuf : N) : option (list N) :=
  match topology_node_gen gpbuf with
  | Some n => Some (header ++ print_node 0 n)
  | None => None
  end.
(* the code as committed *)
Definition dist_node := dist_node_gen GPINDEX_BUF.
Definition export_bytes := export_bytes_gen GPINDEX_BUF.
End Export.
